(* The definitions translated from the current import_export/_name_mapping.py
   (Gen/NameMapping_gen.v, written by harness/translate_name_mapping.py) ARE the hand-written
   model functions of Model/NameMap.v the C17 theorems are about:

       gen_<f> args = Ok (<f> args)

   for every one of the nine functions - in particular no exception is reachable in the
   Python.  If the source changes its behaviour, one of these equalities stops being provable.

   Hypotheses, where one is needed:
   * [closest_sound closest] (the answer of difflib.get_close_matches is one of the candidates;
     the hypothesis of every C17 theorem): for the two fuzzy matchers and the two pipelines.
     Without it the Python raises KeyError at `lower_map[closest[0]]` where the hand model
     skips the field (its documented totalisation); the [_or] theorems say exactly that.
   * [NoDup (map f_key feats)] for the two pipelines: the hand model takes the feature dict as
     the list of its entries (key inside the record); the generated code takes a Base/Dict.v
     dict, [fd feats].  A Python dict has distinct keys.  (The C17 theorems do not need this.) *)
From Coq Require Import ZArith List Bool Lia Permutation.
From FT Require Import Base.Dict Model.PyRt2 Model.NameMap Proofs.NameMapProofs Gen.NameMapping_gen.
Import ListNotations.
Open Scope Z_scope.

(* ------------------------------------------------------------------ *)
(* dict / list facts                                                   *)
(* ------------------------------------------------------------------ *)

Lemma lookup_set {V} k k' (v : V) d : lookup k (set k' v d) = if k =? k' then Some v else lookup k d.
Proof.
  destruct (Z.eqb_spec k k') as [->|Hne]; [apply lookup_set_same|apply lookup_set_other; exact Hne].
Qed.

Lemma haskey_set {V} k k' (v : V) d : haskey k (set k' v d) = (k =? k') || haskey k d.
Proof. unfold haskey. rewrite lookup_set. destruct (k =? k'); reflexivity. Qed.

Lemma getd_set {V} k k' (v : V) d dflt : getd k (set k' v d) dflt = if k =? k' then v else getd k d dflt.
Proof. unfold getd. rewrite lookup_set. destruct (k =? k'); reflexivity. Qed.

Lemma set_set {V} k (v v' : V) d : set k v (set k v' d) = set k v d.
Proof.
  induction d as [|[k0 v0] r IH]; cbn [set].
  - rewrite Z.eqb_refl. reflexivity.
  - destruct (Z.eqb_spec k k0) as [->|Hne]; cbn [set].
    + rewrite Z.eqb_refl. reflexivity.
    + destruct (Z.eqb_spec k k0); [contradiction|]. rewrite IH. reflexivity.
Qed.

Lemma haskey_lookup {V} k (d : dict V) : haskey k d = true -> exists v, lookup k d = Some v.
Proof. unfold haskey. destruct (lookup k d) as [v|]; [eexists; reflexivity|discriminate]. Qed.

Lemma NoDup_keys_set {V} k (v : V) d : NoDup (keys d) -> NoDup (keys (set k v d)).
Proof.
  intros H. rewrite keys_set. destruct (haskey k d) eqn:E; [exact H|].
  apply NoDup_snoc; [exact H|]. apply lookup_None_iff. apply haskey_false. exact E.
Qed.

Lemma NoDup_lookup {V} : forall (d : dict V) k v, NoDup (keys d) -> In (k, v) d -> lookup k d = Some v.
Proof.
  induction d as [|[k0 v0] r IH]; intros k v Hnd Hin; [destruct Hin|].
  cbn [keys map fst] in Hnd. inversion Hnd as [|? ? Hn Hr]; subst. cbn [lookup].
  destruct Hin as [E|Hin].
  - injection E as -> ->. rewrite Z.eqb_refl. reflexivity.
  - destruct (Z.eqb_spec k k0) as [->|_]; [|apply IH; assumption].
    exfalso. apply Hn. apply (In_keys _ _ _ Hin).
Qed.

(* ------------------------------------------------------------------ *)
(* an oracle that breaks its contract                                  *)
(* ------------------------------------------------------------------ *)
Definition unsound (closest : Z -> list Z -> option Z) : Prop :=
  exists q cands c, closest q cands = Some c /\ ~ In c cands.

Lemma sound_not_unsound closest : closest_sound closest -> ~ unsound closest.
Proof. intros Hs [q [cands [c [E Hn]]]]. apply Hn. exact (Hs _ _ _ E). Qed.

Section Tie.
Variable lower : Z -> Z.
Variable closest : Z -> list Z -> option Z.

Notation gen_match_fuzzy := (gen_match_fuzzy lower closest).

(* ------------------------------------------------------------------ *)
(* _match_exact                                                        *)
(* ------------------------------------------------------------------ *)
Theorem gen_match_exact_eq : forall fields pl m,
  gen_match_exact fields pl m = Ok (match_exact fields pl m).
Proof.
  unfold NameMapping_gen.gen_match_exact.
  induction fields as [|f r IH]; intros pl m; [reflexivity|].
  cbn [py_for match_exact]. destruct (haskey f m); [apply IH|].
  unfold list_remove. destruct (memz f pl); cbn [bind]; apply IH.
Qed.

(* ------------------------------------------------------------------ *)
(* _match_fuzzy                                                        *)
(* ------------------------------------------------------------------ *)
Theorem gen_match_fuzzy_or : forall fields pl m,
  gen_match_fuzzy fields pl m = Ok (match_fuzzy lower closest fields pl m) \/
  (gen_match_fuzzy fields pl m = Raise KeyError /\ unsound closest).
Proof.
  unfold NameMapping_gen.gen_match_fuzzy.
  induction fields as [|f r IH]; intros pl m; [left; reflexivity|].
  cbn [py_for match_fuzzy]. destruct (haskey f m); [apply IH|].
  destruct pl as [|p ps]; [left; reflexivity|].
  replace (Z.of_nat (length (p :: ps)) =? 0) with false
    by (symmetry; apply Z.eqb_neq; cbn [length]; lia).
  change (fold_left (fun acc v_p => set (lower v_p) v_p acc) (p :: ps) []) with (lower_map lower (p :: ps)).
  set (lm := lower_map lower (p :: ps)). unfold close_matches.
  destruct (closest (lower f) (keys lm)) as [c|] eqn:E; cbn [is_nil negb list_get0 bind]; [|apply IH].
  unfold dict_get. destruct (lookup c lm) as [best|] eqn:L; cbn [bind].
  - unfold list_remove.
    assert (Hb : memz best (p :: ps) = true) by (apply memz_In; exact (lower_map_In lower _ _ _ L)).
    rewrite Hb. cbn [bind]. apply IH.
  - right. split; [reflexivity|]. exists (lower f), (keys lm), c. split; [exact E|].
    apply lookup_None_iff. exact L.
Qed.

Theorem gen_match_fuzzy_eq : closest_sound closest -> forall fields pl m,
  gen_match_fuzzy fields pl m = Ok (match_fuzzy lower closest fields pl m).
Proof.
  intros Hs fields pl m. destruct (gen_match_fuzzy_or fields pl m) as [H|[_ H]]; [exact H|].
  destruct (sound_not_unsound _ Hs H).
Qed.


(* ------------------------------------------------------------------ *)
(* the part shared by the two display-name matchers                    *)
(* ------------------------------------------------------------------ *)
(* the loop-carried variables (mapping, multi_value_matches, props_left) of the generated loops *)
Definition tup (st : dstate) : dict value * dict (dict Z) * list Z := (d_m st, d_mv st, d_pl st).

Lemma is_multi_gen d2k fk idx :
  existsb (fun '(_, (v_k, v_i)) => (v_k =? fk) && negb (v_i =? idx)) d2k = is_multi d2k fk idx.
Proof.
  unfold is_multi. induction d2k as [|[n [k i]] r IH]; [reflexivity|].
  cbn [existsb fst snd]. rewrite IH. reflexivity.
Qed.

Lemma assigned_mono d2k prop fk idx a b st :
  assigned a b st = true -> assigned a b (disp_assign d2k prop fk idx st) = true.
Proof.
  intros H. unfold disp_assign. destruct (assigned fk idx st); [exact H|].
  unfold assigned in *. destruct (is_multi d2k fk idx); cbn [d_m d_mv].
  - apply orb_true_iff in H. apply orb_true_iff. destruct H as [H|H]; [left; exact H|right].
    rewrite getd_set. destruct (a =? fk) eqn:E; [|exact H].
    apply Z.eqb_eq in E. subst a. rewrite haskey_set, H. apply orb_true_r.
  - apply orb_true_iff in H. apply orb_true_iff. destruct H as [H|H]; [left|right; exact H].
    rewrite haskey_set, H. apply orb_true_r.
Qed.

Lemma assigned_marks d2k prop fk idx st :
  assigned fk idx (disp_assign d2k prop fk idx st) = true.
Proof.
  unfold disp_assign. destruct (assigned fk idx st) eqn:A; [exact A|].
  unfold assigned. destruct (is_multi d2k fk idx); cbn [d_m d_mv].
  - rewrite getd_set, Z.eqb_refl, haskey_set, Z.eqb_refl. apply orb_true_r.
  - rewrite haskey_set, Z.eqb_refl. reflexivity.
Qed.

Lemma d_pl_assign d2k prop fk idx st :
  d_pl (disp_assign d2k prop fk idx st) = if assigned fk idx st then d_pl st else remove1 prop (d_pl st).
Proof. unfold disp_assign. destruct (assigned fk idx st); [reflexivity|]. destruct (is_multi d2k fk idx); reflexivity. Qed.

(* every idx_to_prop dict held in multi_value_matches has distinct keys *)
Definition WFmv (mv : dict (dict Z)) : Prop := forall e, In e mv -> NoDup (keys (snd e)).

Lemma WFmv_assign d2k prop fk idx st : WFmv (d_mv st) -> WFmv (d_mv (disp_assign d2k prop fk idx st)).
Proof.
  intros H. unfold disp_assign. destruct (assigned fk idx st); [exact H|].
  destruct (is_multi d2k fk idx); cbn [d_mv]; [|exact H].
  intros e He. apply In_set in He. destruct He as [->|He]; [|apply H; exact He].
  cbn [snd]. apply NoDup_keys_set. unfold getd.
  destruct (lookup fk (d_mv st)) as [v|] eqn:L; [|constructor].
  apply lookup_Some_In in L. exact (H _ L).
Qed.

(* sorted(idx_to_prop.keys()) then [idx_to_prop[i] for i in ..]  =  the values of the items sorted by key *)
Lemma map_fst_ins e : forall l, map fst (ins e l) = insert_z (fst e) (map fst l).
Proof.
  induction l as [|x r IH]; [reflexivity|]. cbn [ins map insert_z].
  destruct (fst e <=? fst x); cbn [map]; [reflexivity|]. rewrite IH. reflexivity.
Qed.

Lemma map_fst_sort_items : forall l, map fst (sort_items l) = sort_z (map fst l).
Proof.
  induction l as [|e r IH]; [reflexivity|].
  unfold sort_items, sort_z in *. cbn [fold_right map]. rewrite map_fst_ins, IH. reflexivity.
Qed.

Lemma mapM_lookup (d : dict Z) : forall l : list (Z * Z),
  (forall e, In e l -> lookup (fst e) d = Some (snd e)) ->
  mapM (fun i => dict_get i d) (map fst l) = Ok (map snd l).
Proof.
  induction l as [|e r IH]; intros H; [reflexivity|].
  cbn [map mapM]. unfold dict_get at 1. rewrite (H e (or_introl eq_refl)).
  rewrite IH by (intros x Hx; apply H; right; exact Hx). reflexivity.
Qed.

Lemma ordered_gen (d : dict Z) : NoDup (keys d) ->
  mapM (fun i => dict_get i d) (sort_z (keys d)) = Ok (map snd (sort_items d)).
Proof.
  intros Hnd. unfold keys. rewrite <- map_fst_sort_items. apply mapM_lookup.
  intros [k v] He. cbn [fst snd]. apply NoDup_lookup; [exact Hnd|].
  apply (Permutation_in _ (sort_items_perm d)). exact He.
Qed.

(* the body of the two loops once (feature_key, idx) is known *)
Ltac assign_part d2k prop fk idx st Hrem :=
  unfold disp_assign, assigned;
  let A := fresh "A" in
  destruct (haskey fk (d_m st) || haskey idx (getd fk (d_mv st) [])) eqn:A; [reflexivity|];
  rewrite (is_multi_gen d2k fk idx);
  let Hm := fresh "Hm" in
  assert (Hm : memz prop (d_pl st) = true)
    by (destruct Hrem as [Hm|Hm]; [exact Hm|unfold assigned in Hm; congruence]);
  unfold list_remove; rewrite Hm; cbn [bind];
  destruct (is_multi d2k fk idx); [|reflexivity];
  let K := fresh "K" in
  destruct (haskey fk (d_mv st)) eqn:K; cbn [negb];
  unfold dict_get, getd;
  [ let old := fresh "old" in let Lo := fresh "Lo" in
    destruct (haskey_lookup _ _ K) as [old Lo]; rewrite Lo; cbn [bind]; reflexivity
  | rewrite lookup_set_same; cbn [bind]; rewrite set_set, (haskey_false _ _ K); reflexivity ].

(* ------------------------------------------------------------------ *)
(* the second loop of both: multi-value matches -> ordered lists        *)
(* ------------------------------------------------------------------ *)

(* for feature_key, idx_to_prop in multi_value_matches.items(): ... = finalize *)
Ltac second_loop :=
  match goal with |- run (py_for _ _ ?b ?k) = _ =>
  assert (L2 : forall mv acc, WFmv mv -> py_for mv acc b k = k (finalize mv acc));
  [ let mv := fresh "mv" in intros mv; induction mv as [|[fk itp] r IH]; intros acc H; [reflexivity|];
    cbn [py_for]; cbn beta iota;
    assert (Hr : WFmv r) by (intros x Hx; apply H; right; exact Hx);
    destruct itp as [|e itp']; cbn [is_nil negb];
    [ exact (IH _ Hr)
    | rewrite ordered_gen by (apply (H (fk, e :: itp')); left; reflexivity); cbn [bind]; exact (IH _ Hr) ]
  | ] end.

(* ------------------------------------------------------------------ *)
(* _match_display_names_exact                                          *)
(* ------------------------------------------------------------------ *)
(* why `props_left.remove(prop)` finds prop: a column still to come is either still in
   props_left, or its (feature_key, idx) is already assigned (then the loop skips it) *)
Definition Jx (d2k : dict (Z * Z)) (todo : list Z) (st : dstate) : Prop :=
  forall p, In p todo ->
    In p (d_pl st) \/ exists fk idx, lookup p d2k = Some (fk, idx) /\ assigned fk idx st = true.

Lemma Jx_step d2k prop r st : Jx d2k (prop :: r) st -> Jx d2k r (disp_exact_step d2k st prop).
Proof.
  intros J p Hp. unfold disp_exact_step.
  destruct (lookup prop d2k) as [[fk idx]|] eqn:L; [|apply J; right; exact Hp].
  destruct (J p (or_intror Hp)) as [Hin|[fk' [idx' [L' A']]]].
  - rewrite d_pl_assign. destruct (assigned fk idx st) eqn:A; [left; exact Hin|].
    destruct (Z.eq_dec p prop) as [->|Hne].
    + right. exists fk, idx. split; [exact L|]. apply assigned_marks.
    + left. apply remove1_other; assumption.
  - right. exists fk', idx'. split; [exact L'|]. apply assigned_mono. exact A'.
Qed.

Lemma WFmv_exact_fold d2k : forall todo st,
  WFmv (d_mv st) -> WFmv (d_mv (fold_left (disp_exact_step d2k) todo st)).
Proof.
  induction todo as [|p r IH]; intros st H; cbn [fold_left]; [exact H|].
  apply IH. unfold disp_exact_step. destruct (lookup p d2k) as [[fk idx]|]; [apply WFmv_assign|]; exact H.
Qed.

Theorem gen_match_display_names_exact_eq : forall pl d2k m,
  gen_match_display_names_exact pl d2k m = Ok (match_display_exact pl d2k m).
Proof.
  intros pl d2k m. unfold gen_match_display_names_exact, match_display_exact. cbv zeta.
  match goal with |- run (py_for _ _ ?b ?k) = _ => set (B := b); set (K := k) end.
  assert (Hstep : forall prop st,
            (In prop (d_pl st) \/ exists fk idx, lookup prop d2k = Some (fk, idx) /\ assigned fk idx st = true) ->
            B prop (tup st) = Cont (tup (disp_exact_step d2k st prop))).
  { intros prop st Hp. unfold B, tup, disp_exact_step. cbn beta iota.
    unfold haskey at 1. destruct (lookup prop d2k) as [[fk idx]|] eqn:L; [|reflexivity].
    unfold dict_get at 1. rewrite L. cbn [bind].
    assert (Hrem : memz prop (d_pl st) = true \/ assigned fk idx st = true).
    { destruct Hp as [Hin|[fk' [idx' [L' A']]]]; [left; apply memz_In; exact Hin|right].
      assert (E : Some (fk', idx') = Some (fk, idx)) by congruence. injection E as -> ->. exact A'. }
    assign_part d2k prop fk idx st Hrem. }
  assert (L1 : forall todo st, Jx d2k todo st ->
            py_for todo (tup st) B K = K (tup (fold_left (disp_exact_step d2k) todo st))).
  { induction todo as [|prop r IH]; intros st J; [reflexivity|].
    cbn [py_for fold_left]. rewrite Hstep by (apply J; left; reflexivity).
    apply IH. apply Jx_step. exact J. }
  change (m, [], pl) with (tup {| d_pl := pl; d_m := m; d_mv := [] |}).
  rewrite L1 by (intros p Hp; left; exact Hp).
  set (st := fold_left _ pl _). unfold K, tup. cbn beta iota.
  second_loop.
  rewrite L2 by (apply WFmv_exact_fold; intros e []). reflexivity.
Qed.

(* ------------------------------------------------------------------ *)
(* _match_display_names_fuzzy                                          *)
(* ------------------------------------------------------------------ *)
Lemma ldm_gen d2k :
  fold_left (fun acc '(v_d, (v_k, v_i)) => set (lower v_d) (v_d, v_k, v_i) acc) d2k []
  = lower_display_map lower d2k.
Proof.
  unfold lower_display_map. generalize (@nil (Z * (Z * Z * Z))).
  induction d2k as [|[d [k i]] r IH]; intros acc; [reflexivity|]. cbn [fold_left fst snd]. apply IH.
Qed.

Lemma WFmv_fuzzy_fold d2k ldm : forall todo st,
  WFmv (d_mv st) -> WFmv (d_mv (fold_left (disp_fuzzy_step lower closest d2k ldm) todo st)).
Proof.
  induction todo as [|p r IH]; intros st H; cbn [fold_left]; [exact H|].
  apply IH. unfold disp_fuzzy_step. destruct (negb (memz p (d_pl st))); [exact H|].
  destruct (closest (lower p) (keys ldm)) as [c|]; [|exact H].
  destruct (lookup c ldm) as [[[d0 fk] idx]|]; [apply WFmv_assign|]; exact H.
Qed.

Theorem gen_match_display_names_fuzzy_or : forall pl d2k m,
  gen_match_display_names_fuzzy lower closest pl d2k m = Ok (match_display_fuzzy lower closest pl d2k m) \/
  (gen_match_display_names_fuzzy lower closest pl d2k m = Raise KeyError /\ unsound closest).
Proof.
  intros pl0 d2k m. unfold gen_match_display_names_fuzzy, match_display_fuzzy. cbv zeta.
  destruct pl0 as [|p0 ps]; [left; reflexivity|]. cbn [is_nil negb].
  rewrite ldm_gen. set (ldm := lower_display_map lower d2k). set (pl := p0 :: ps).
  match goal with |- run (py_for _ _ ?b ?k) = _ \/ _ => set (B := b); set (K := k) end.
  assert (Hstep : forall prop st,
            B prop (tup st) = Cont (tup (disp_fuzzy_step lower closest d2k ldm st prop)) \/
            (B prop (tup st) = Exn KeyError /\ unsound closest)).
  { intros prop st. unfold B, tup, disp_fuzzy_step. cbn beta iota.
    destruct (memz prop (d_pl st)) eqn:Hm; cbn [negb]; [|left; reflexivity].
    unfold close_matches.
    destruct (closest (lower prop) (keys ldm)) as [c|] eqn:E; cbn [is_nil negb list_get0 bind]; [|left; reflexivity].
    change (dict_get c ldm) with (match lookup c ldm with Some v => Ok v | None => Raise KeyError end).
    destruct (lookup c ldm) as [[[d0 fk] idx]|] eqn:L; cbn [bind].
    - left. assert (Hrem : memz prop (d_pl st) = true \/ assigned fk idx st = true) by (left; exact Hm).
      assign_part d2k prop fk idx st Hrem.
    - right. split; [reflexivity|]. exists (lower prop), (keys ldm), c. split; [exact E|].
      apply lookup_None_iff. exact L. }
  assert (L1 : forall todo st,
            py_for todo (tup st) B K = K (tup (fold_left (disp_fuzzy_step lower closest d2k ldm) todo st)) \/
            (py_for todo (tup st) B K = Exn KeyError /\ unsound closest)).
  { induction todo as [|prop r IH]; intros st; [left; reflexivity|].
    cbn [py_for fold_left]. destruct (Hstep prop st) as [H|[H U]]; rewrite H; [apply IH|].
    right. split; [reflexivity|exact U]. }
  change (m, [], pl) with (tup {| d_pl := pl; d_m := m; d_mv := [] |}).
  destruct (L1 pl {| d_pl := pl; d_m := m; d_mv := [] |}) as [H|[H U]]; rewrite H;
    [left; clear H|right; split; [reflexivity|exact U]].
  set (st := fold_left _ pl _). unfold K, tup. cbn beta iota.
  second_loop.
  rewrite L2 by (apply WFmv_fuzzy_fold; intros e []). reflexivity.
Qed.

Theorem gen_match_display_names_fuzzy_eq : closest_sound closest -> forall pl d2k m,
  gen_match_display_names_fuzzy lower closest pl d2k m = Ok (match_display_fuzzy lower closest pl d2k m).
Proof.
  intros Hs pl d2k m. destruct (gen_match_display_names_fuzzy_or pl d2k m) as [H|[_ H]]; [exact H|].
  destruct (sound_not_unsound _ Hs H).
Qed.

(* ------------------------------------------------------------------ *)
(* _map_remaining_to_self, build_standard_fields                       *)
(* ------------------------------------------------------------------ *)
Theorem gen_map_remaining_to_self_eq : forall pl,
  gen_map_remaining_to_self pl = Ok (map_remaining_to_self pl).
Proof. reflexivity. Qed.

Theorem gen_build_standard_fields_eq : forall required,
  gen_build_standard_fields required = Ok (build_standard_fields required).
Proof. reflexivity. Qed.

(* ------------------------------------------------------------------ *)
(* build_display_name_mapping                                          *)
(* ------------------------------------------------------------------ *)
(* the feature dict of the hand model (a list of entries, key inside) as a Base/Dict.v dict *)
Definition fd (feats : list feature) : dict feature := map (fun f => (f_key f, f)) feats.

Lemma keys_fd feats : keys (fd feats) = map f_key feats.
Proof. unfold keys, fd. rewrite map_map. reflexivity. Qed.

Lemma enum_same : forall l i, PyRt2.enum_from i l = NameMap.enum_from i l.
Proof. induction l as [|x r IH]; intros i; [reflexivity|]. cbn. rewrite IH. reflexivity. Qed.

Theorem gen_build_display_name_mapping_eq : forall feats,
  gen_build_display_name_mapping (fd feats) = Ok (build_display_name_mapping feats).
Proof.
  intros feats. unfold gen_build_display_name_mapping, build_display_name_mapping. cbv zeta.
  match goal with |- run (py_for _ _ ?b ?k) = _ => set (B := b); set (K := k) end.
  assert (Hstep : forall f acc, B (f_key f, f) acc = Cont (bdm_step acc f)).
  { intros f acc. unfold B, bdm_step. cbn beta iota. rewrite Z.gtb_ltb. destruct (1 <? f_num f).
    - unfold enumerate. rewrite enum_same. generalize (NameMap.enum_from 0 (f_vnames f)). intros l.
      revert acc. induction l as [|[i v] r IH]; intros acc; [reflexivity|].
      cbn [py_for fold_left fst snd]. apply IH.
    - destruct (f_disp f); reflexivity. }
  assert (L : forall fs acc, py_for (fd fs) acc B K = K (fold_left bdm_step fs acc)).
  { induction fs as [|f r IH]; intros acc; [reflexivity|].
    cbn [fd map py_for fold_left]. rewrite Hstep. apply IH. }
  rewrite L. reflexivity.
Qed.

(* ------------------------------------------------------------------ *)
(* infer_node_name_map, infer_edge_name_map                            *)
(* ------------------------------------------------------------------ *)
(* {k: v for k, v in features.items() if v.get("feature_type") == T} is the filtered dict *)
Lemma comp_filter_type T : forall feats (acc : dict feature),
  NoDup (keys acc ++ map f_key feats) ->
  fold_left (fun acc '(v_k, v_v) => if f_type v_v =? T then set v_k v_v acc else acc) (fd feats) acc
  = acc ++ fd (filter (fun f => f_type f =? T) feats).
Proof.
  induction feats as [|f r IH]; intros acc H; [cbn; rewrite app_nil_r; reflexivity|].
  cbn [fd map fold_left filter]. fold (fd r). destruct (f_type f =? T).
  - rewrite set_fresh.
    + rewrite IH.
      * rewrite <- app_assoc. reflexivity.
      * unfold keys in *. rewrite map_app, <- app_assoc. exact H.
    + apply lookup_None_iff. intros Hin. cbn [map] in H. apply NoDup_remove_2 in H. apply H.
      apply in_or_app. left. exact Hin.
  - apply IH. cbn [map] in H. apply NoDup_remove_1 in H. exact H.
Qed.

Lemma comp_filter_type_nil T feats : NoDup (map f_key feats) ->
  fold_left (fun acc '(v_k, v_v) => if f_type v_v =? T then set v_k v_v acc else acc) (fd feats) []
  = fd (filter (fun f => f_type f =? T) feats).
Proof. intros H. rewrite comp_filter_type by exact H. reflexivity. Qed.

Section Pipelines.
Hypothesis Hs : closest_sound closest.

Ltac step_exact := rewrite gen_match_exact_eq; destruct (match_exact _ _ _) as [? ?]; cbn [bind].
Ltac step_fuzzy := rewrite (gen_match_fuzzy_eq Hs); destruct (match_fuzzy _ _ _ _ _) as [? ?]; cbn [bind].
Ltac step_dexact := rewrite gen_match_display_names_exact_eq; destruct (match_display_exact _ _ _) as [? ?]; cbn [bind].
Ltac step_dfuzzy := rewrite (gen_match_display_names_fuzzy_eq Hs); destruct (match_display_fuzzy _ _ _ _ _) as [? ?]; cbn [bind].

Theorem gen_infer_node_name_map_eq : forall cols required feats,
  NoDup (map f_key feats) ->
  gen_infer_node_name_map lower closest cols required (fd feats)
  = Ok (infer_node_name_map lower closest cols required feats).
Proof.
  intros cols required feats Hnd.
  unfold gen_infer_node_name_map, infer_node_name_map, infer_node_core. cbv zeta.
  rewrite (comp_filter_type_nil NODE feats Hnd).
  rewrite gen_build_standard_fields_eq. cbn [bind].
  rewrite gen_build_display_name_mapping_eq. cbn [bind]. rewrite keys_fd.
  step_exact. step_fuzzy. step_exact. step_dexact. step_dfuzzy.
  reflexivity.
Qed.

Theorem gen_infer_edge_name_map_eq : forall cols feats,
  NoDup (map f_key feats) ->
  gen_infer_edge_name_map lower closest cols (Some (fd feats))
  = Ok (infer_edge_name_map lower closest cols feats).
Proof.
  intros cols feats Hnd.
  unfold gen_infer_edge_name_map, infer_edge_name_map, infer_edge_core. cbv zeta.
  cbn [is_some as_some bind]. rewrite (comp_filter_type_nil EDGE feats Hnd).
  rewrite gen_build_display_name_mapping_eq. cbn [bind]. rewrite keys_fd.
  step_exact. step_fuzzy.
  destruct (build_display_name_mapping _) as [|e d2k]; cbn [is_nil negb]; [reflexivity|].
  step_dexact. step_dfuzzy. reflexivity.
Qed.

(* available_computed_features=None: the empty feature dict *)
Theorem gen_infer_edge_name_map_none_eq : forall cols,
  gen_infer_edge_name_map lower closest cols None
  = Ok (infer_edge_name_map lower closest cols []).
Proof.
  intros cols.
  unfold gen_infer_edge_name_map, infer_edge_name_map, infer_edge_core. cbv zeta.
  cbn [is_some filter map]. change (@nil (Z * feature)) with (fd []).
  rewrite gen_build_display_name_mapping_eq. cbn [bind build_display_name_mapping fold_left fd map keys].
  step_exact. step_fuzzy. reflexivity.
Qed.
End Pipelines.

End Tie.

Print Assumptions gen_match_exact_eq.
Print Assumptions gen_match_fuzzy_or.
Print Assumptions gen_match_fuzzy_eq.
Print Assumptions gen_match_display_names_exact_eq.
Print Assumptions gen_match_display_names_fuzzy_or.
Print Assumptions gen_match_display_names_fuzzy_eq.
Print Assumptions gen_map_remaining_to_self_eq.
Print Assumptions gen_build_standard_fields_eq.
Print Assumptions gen_build_display_name_mapping_eq.
Print Assumptions gen_infer_node_name_map_eq.
Print Assumptions gen_infer_edge_name_map_eq.
Print Assumptions gen_infer_edge_name_map_none_eq.
