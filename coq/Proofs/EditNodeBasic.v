(* What the specifications of UserDeleteNode / UserAddNode need below them:
   A. structure-level specifications of the two node actions of Model/Edit.v
      (do_del_node, do_add_node): when they succeed, and what the graph, the array and the
      other fields look like afterwards, with preservation of W_dict / W_forest;
   B. segment = chain: on a state with W_dict, W_forest, W_trk the nodes of one track id
      form one path (up through non-dividing parents, down through only children), times
      are strictly increasing along it, so the "greatest time below t" / "smallest time
      above t" node of the track (EditBook.pred_in_track / succ_in_track, what
      get_track_neighbors returns) is the path neighbour.
   No axioms are used. *)
From Coq Require Import ZArith List Bool Lia Relations Permutation.
From FT Require Import Base.Dict Model.Edit Proofs.DictLemmas Proofs.EditInv Proofs.EditGraph Proofs.EditWalk
                       Proofs.EditBasic Proofs.EditUserEdge Proofs.EditGlobal Proofs.EditTrk Proofs.BookLemmas.
From FT Require Proofs.EditBook.
Import ListNotations.
Open Scope Z_scope.

(* ================================================================== *)
(* B. segment = chain                                                   *)
(* ================================================================== *)
Section Segment.
Variable st : state.
Hypothesis Hd : W_dict st.
Hypothesis Hf : W_forest st.

(* reachability along edges out of non-dividing nodes *)
Definition nd_reach : Z -> Z -> Prop := clos_refl_trans Z (nd_edge st).

Lemma nd_parent_unique u u' v : nd_edge st u v -> nd_edge st u' v -> u = u'.
Proof. intros [H1 _] [H2 _]. exact (wf_in _ Hf u u' v H1 H2). Qed.

Lemma nd_child_unique u v v' : nd_edge st u v -> nd_edge st u v' -> v = v'.
Proof.
  intros [H1 N1] [H2 _]. pose proof (not_divides_single st u v H1 N1) as E1.
  pose proof (not_divides_single st u v' H2 N1) as E2. congruence.
Qed.

Lemma nd_reach_time a b : nd_reach a b -> a = b \/ time_of st a < time_of st b.
Proof.
  intros H. induction H as [x y [Hxy _]| |x y z _ IH1 _ IH2].
  - right. exact (wf_time _ Hf x y Hxy).
  - now left.
  - destruct IH1 as [->|H1]; destruct IH2 as [->|H2]; auto; right; lia.
Qed.

Lemma nd_reach_reach a b : nd_reach a b -> reach st a b.
Proof. intros H. induction H as [x y [Hxy _]| |x y z _ IH1 _ IH2]; [now apply rt_step|apply rt_refl|eapply rt_trans; eauto]. Qed.

(* the ancestors of a node along nd-edges are linearly ordered (unique parent) *)
Lemma nd_reach_up_linear a b y : nd_reach a y -> nd_reach b y -> nd_reach a b \/ nd_reach b a.
Proof.
  intros Ha Hb. apply clos_rt_rtn1 in Ha. revert b Hb. induction Ha as [|y' y Hy Ha IH]; intros b Hb.
  - right. exact Hb.
  - apply clos_rt_rtn1 in Hb. inversion Hb as [|y'' z Hy2 Hb']; subst.
    + left. eapply rt_trans; [apply clos_rtn1_rt; exact Ha|apply rt_step; exact Hy].
    + assert (y' = y'') as <- by (eapply nd_parent_unique; eauto). apply IH. apply clos_rtn1_rt. exact Hb'.
Qed.

(* the descendants of a node along nd-edges are linearly ordered (unique nd-child) *)
Lemma nd_reach_down_linear y a b : nd_reach y a -> nd_reach y b -> nd_reach a b \/ nd_reach b a.
Proof.
  intros Ha Hb. apply clos_rt_rt1n in Ha. revert b Hb. induction Ha as [y|y y' a Hy Ha IH]; intros b Hb.
  - left. exact Hb.
  - apply clos_rt_rt1n in Hb. inversion Hb as [|y'' z Hy2 Hb']; subst.
    + right. eapply rt_trans; [apply rt_step; exact Hy|apply clos_rt1n_rt; exact Ha].
    + assert (y' = y'') as <- by (eapply nd_child_unique; eauto). apply IH. apply clos_rt1n_rt. exact Hb'.
Qed.

(* two nodes of one segment are comparable *)
Lemma same_segment_comparable n m : same_segment st n m -> nd_reach n m \/ nd_reach m n.
Proof.
  intros H. induction H as [x y Hxy|x|x y _ IH|x y z _ IH1 _ IH2].
  - left. now apply rt_step.
  - left. apply rt_refl.
  - tauto.
  - destruct IH1 as [A|A]; destruct IH2 as [B|B].
    + left. eapply rt_trans; eauto.
    + eapply nd_reach_up_linear; eauto.
    + eapply nd_reach_down_linear; eauto.
    + right. eapply rt_trans; eauto.
Qed.

Hypothesis Ht : W_trk st.

Lemma nd_reach_trk a b : nd_reach a b -> trk st a = trk st b.
Proof. intros H. induction H as [x y [Hxy Hn]| |x y z _ IH1 _ IH2]; [exact (wt1 _ Ht x y Hxy Hn)|reflexivity|congruence]. Qed.

Lemma same_trk_comparable n m T : trk st n = Some T -> trk st m = Some T -> nd_reach n m \/ nd_reach m n.
Proof.
  intros En Em. apply same_segment_comparable.
  apply (track_global st Hd Hf Ht n m); [eapply EditBook.zattr_is_node; exact En|eapply EditBook.zattr_is_node; exact Em|congruence].
Qed.

(* two distinct nodes of the same track have distinct times *)
Theorem same_track_time_inj n m T :
  trk st n = Some T -> trk st m = Some T -> time_of st n = time_of st m -> n = m.
Proof.
  intros En Em Eq. destruct (same_trk_comparable n m T En Em) as [R|R]; destruct (nd_reach_time _ _ R) as [E|L]; auto; lia.
Qed.

(* (i) the parent side *)
Lemma seg_pred p n T : trk st n = Some T -> edge st p n -> ~ divides st p ->
  trk st p = Some T /\ EditBook.pred_in_track st T (time_of st n) (Some p).
Proof.
  intros En Hp Hnd. assert (Ep : trk st p = Some T) by (rewrite (wt1 _ Ht p n Hp Hnd); exact En).
  split; [exact Ep|]. unfold EditBook.pred_in_track, EditBook.track_nodes.
  split; [split; [apply (wd_edge_nodes _ Hd p n Hp)|exact Ep]|]. split; [apply (wf_time _ Hf _ _ Hp)|].
  intros m [Nm Em] Hlt. destruct (same_trk_comparable m n T Em En) as [R|R].
  - apply clos_rt_rtn1 in R. inversion R as [|y z Hyz R']; subst; [lia|].
    assert (y = p) as -> by (apply (nd_parent_unique y p n Hyz); split; assumption).
    apply clos_rtn1_rt in R'. destruct (nd_reach_time _ _ R') as [->|]; lia.
  - destruct (nd_reach_time _ _ R) as [E|]; [subst; lia|lia].
Qed.

Lemma seg_pred_head n T : trk st n = Some T -> head st n -> EditBook.pred_in_track st T (time_of st n) None.
Proof.
  intros En [Nn Hh]. unfold EditBook.pred_in_track, EditBook.track_nodes. intros m [Nm Em] Hlt.
  destruct (same_trk_comparable m n T Em En) as [R|R].
  - apply clos_rt_rtn1 in R. inversion R as [|y z [Hyz Hnd] R']; subst; [lia|]. apply Hnd. now apply Hh.
  - destruct (nd_reach_time _ _ R) as [E|]; [subst; lia|lia].
Qed.

(* (ii) the child side *)
Lemma seg_succ n c T : trk st n = Some T -> successors st n = [c] ->
  trk st c = Some T /\ EditBook.succ_in_track st T (time_of st n) (Some c).
Proof.
  intros En Es. destruct (single_not_divides st n c Es) as [Hc Hnd].
  assert (Ec : trk st c = Some T) by (rewrite <- (wt1 _ Ht n c Hc Hnd); exact En).
  split; [exact Ec|]. unfold EditBook.succ_in_track, EditBook.track_nodes.
  split; [split; [apply (wd_edge_nodes _ Hd n c Hc)|exact Ec]|]. split; [apply (wf_time _ Hf _ _ Hc)|].
  intros m [Nm Em] Hlt. destruct (same_trk_comparable n m T En Em) as [R|R].
  - apply clos_rt_rt1n in R. inversion R as [|y z Hny R']; subst; [lia|].
    assert (y = c) as -> by (apply (nd_child_unique n y c Hny); split; assumption).
    apply clos_rt1n_rt in R'. destruct (nd_reach_time _ _ R') as [->|]; lia.
  - destruct (nd_reach_time _ _ R) as [E|]; [subst; lia|lia].
Qed.

Lemma seg_succ_end n T : trk st n = Some T -> length (successors st n) <> 1%nat ->
  EditBook.succ_in_track st T (time_of st n) None.
Proof.
  intros En Hl. unfold EditBook.succ_in_track, EditBook.track_nodes. intros m [Nm Em] Hlt.
  destruct (same_trk_comparable n m T En Em) as [R|R].
  - apply clos_rt_rt1n in R. inversion R as [|y z [Hny Hnd] R']; subst; [lia|].
    rewrite (not_divides_single st n y Hny Hnd) in Hl. now apply Hl.
  - destruct (nd_reach_time _ _ R) as [E|]; [subst; lia|lia].
Qed.

(* the answers of the scan are unique *)
Lemma pred_in_track_fun T t p p' :
  EditBook.pred_in_track st T t p -> EditBook.pred_in_track st T t p' -> p = p'.
Proof.
  unfold EditBook.pred_in_track, EditBook.track_nodes.
  destruct p as [a|]; destruct p' as [b|]; [| | |reflexivity].
  - intros ([Na Ea] & La & Ma) ([Nb Eb] & Lb & Mb). f_equal. apply (same_track_time_inj a b T Ea Eb).
    specialize (Ma b (conj Nb Eb) Lb). specialize (Mb a (conj Na Ea) La). lia.
  - intros (Ha & La & _) Hn. exfalso. exact (Hn a Ha La).
  - intros Hn (Hb & Lb & _). exfalso. exact (Hn b Hb Lb).
Qed.
Lemma succ_in_track_fun T t s s' :
  EditBook.succ_in_track st T t s -> EditBook.succ_in_track st T t s' -> s = s'.
Proof.
  unfold EditBook.succ_in_track, EditBook.track_nodes.
  destruct s as [a|]; destruct s' as [b|]; [| | |reflexivity].
  - intros ([Na Ea] & La & Ma) ([Nb Eb] & Lb & Mb). f_equal. apply (same_track_time_inj a b T Ea Eb).
    specialize (Ma b (conj Nb Eb) Lb). specialize (Mb a (conj Na Ea) La). lia.
  - intros (Ha & La & _) Hn. exfalso. exact (Hn a Ha La).
  - intros Hn (Hb & Lb & _). exfalso. exact (Hn b Hb Lb).
Qed.

(* the neighbours of a node of the track, at the node's own time: its non-dividing parent and its only child *)
Theorem node_track_neighbors n T p s : trk st n = Some T ->
  EditBook.pred_in_track st T (time_of st n) p -> EditBook.succ_in_track st T (time_of st n) s ->
  (forall q, p = Some q <-> (edge st q n /\ ~ divides st q)) /\
  (forall c, s = Some c <-> successors st n = [c]).
Proof.
  intros En Hp Hs. assert (Nn : is_node st n) by (eapply EditBook.zattr_is_node; exact En). split.
  - destruct (nd_parent_dec st n Hd Hf) as [[u [Hu Hnu]]|Hnone].
    + destruct (seg_pred u n T En Hu Hnu) as [_ Hpu]. rewrite (pred_in_track_fun _ _ _ _ Hp Hpu).
      intros q. split; [intros [= <-]; now split|]. intros [Hq _]. f_equal. exact (wf_in _ Hf u q n Hu Hq).
    + assert (Hh : head st n).
      { split; [exact Nn|]. intros q Hq. destruct (le_lt_dec 2 (length (successors st q))) as [D|D]; [exact D|].
        exfalso. apply (Hnone q). split; [exact Hq|unfold divides; lia]. }
      rewrite (pred_in_track_fun _ _ _ _ Hp (seg_pred_head n T En Hh)).
      intros q. split; [discriminate|]. intros [Hq Hnq]. exfalso. apply (Hnone q). now split.
  - destruct (successors st n) as [|c [|c2 r]] eqn:Es.
    + rewrite (succ_in_track_fun _ _ _ _ Hs (seg_succ_end n T En ltac:(rewrite Es; cbn; lia))).
      intros c0. split; discriminate.
    + destruct (seg_succ n c T En Es) as [_ Hsc]. rewrite (succ_in_track_fun _ _ _ _ Hs Hsc).
      intros c0. split; [intros [= <-]; reflexivity|intros [= <-]; reflexivity].
    + rewrite (succ_in_track_fun _ _ _ _ Hs (seg_succ_end n T En ltac:(rewrite Es; cbn; lia))).
      intros c0. split; discriminate.
Qed.

(* the two neighbours of a time at which the track has no node are joined by an edge *)
Theorem between_adjacent T t p s :
  EditBook.pred_in_track st T t (Some p) -> EditBook.succ_in_track st T t (Some s) ->
  (forall m, EditBook.track_nodes st T m -> time_of st m <> t) ->
  edge st p s /\ ~ divides st p.
Proof.
  unfold EditBook.pred_in_track, EditBook.succ_in_track, EditBook.track_nodes.
  intros ([Np Ep] & Hpt & Hmax) ([Ns Es] & Hst & Hmin) Hno.
  destruct (same_trk_comparable p s T Ep Es) as [R|R].
  - apply clos_rt_rt1n in R. inversion R as [|y z Hpy R']; subst; [lia|].
    apply clos_rt1n_rt in R'. destruct Hpy as [Hpy Hnd].
    assert (Ey : trk st y = Some T) by (rewrite <- (wt1 _ Ht p y Hpy Hnd); exact Ep).
    assert (Ny : is_node st y) by apply (wd_edge_nodes _ Hd p y Hpy).
    pose proof (wf_time _ Hf _ _ Hpy) as Hlt.
    assert (y = s) as ->; [|now split].
    destruct (Z.lt_trichotomy (time_of st y) t) as [H|[H|H]].
    + specialize (Hmax y (conj Ny Ey) H). lia.
    + exfalso. exact (Hno y (conj Ny Ey) H).
    + specialize (Hmin y (conj Ny Ey) H). destruct (nd_reach_time _ _ R') as [E|]; [exact E|lia].
  - destruct (nd_reach_time _ _ R) as [E|]; [subst; lia|lia].
Qed.

(* only a predecessor: it is where the track ends (no or two children) *)
Theorem last_is_end T t p :
  EditBook.pred_in_track st T t (Some p) -> EditBook.succ_in_track st T t None ->
  (forall m, EditBook.track_nodes st T m -> time_of st m <> t) ->
  length (successors st p) <> 1%nat.
Proof.
  unfold EditBook.pred_in_track, EditBook.succ_in_track, EditBook.track_nodes.
  intros ([Np Ep] & Hpt & Hmax) Hnone Hno Hl.
  destruct (successors st p) as [|c [|c2 r]] eqn:Es; try (cbn in Hl; lia).
  destruct (single_not_divides st p c Es) as [Hc Hnd].
  assert (Ec : trk st c = Some T) by (rewrite <- (wt1 _ Ht p c Hc Hnd); exact Ep).
  assert (Nc : is_node st c) by apply (wd_edge_nodes _ Hd p c Hc).
  pose proof (wf_time _ Hf _ _ Hc) as Hlt.
  destruct (Z.lt_trichotomy (time_of st c) t) as [H|[H|H]].
  - specialize (Hmax c (conj Nc Ec) H). lia.
  - exact (Hno c (conj Nc Ec) H).
  - exact (Hnone c (conj Nc Ec) H).
Qed.

(* only a successor: it is the head of the track *)
Theorem first_is_head T t s :
  EditBook.pred_in_track st T t None -> EditBook.succ_in_track st T t (Some s) ->
  (forall m, EditBook.track_nodes st T m -> time_of st m <> t) ->
  head st s.
Proof.
  unfold EditBook.pred_in_track, EditBook.succ_in_track, EditBook.track_nodes.
  intros Hnone ([Ns Es] & Hst & Hmin) Hno. split; [exact Ns|]. intros q Hq.
  destruct (le_lt_dec 2 (length (successors st q))) as [D|D]; [exact D|]. exfalso.
  assert (Hnd : ~ divides st q) by (unfold divides; lia).
  assert (Eq : trk st q = Some T) by (rewrite (wt1 _ Ht q s Hq Hnd); exact Es).
  assert (Nq : is_node st q) by apply (wd_edge_nodes _ Hd q s Hq).
  pose proof (wf_time _ Hf _ _ Hq) as Hlt.
  destruct (Z.lt_trichotomy (time_of st q) t) as [H|[H|H]].
  - exact (Hnone q (conj Nq Eq) H).
  - exact (Hno q (conj Nq Eq) H).
  - specialize (Hmin q (conj Nq Eq) H). lia.
Qed.
End Segment.

(* ------------------------------------------------------------------ the bundled statement *)
Theorem track_is_chain st n T : W_dict st -> W_forest st -> W_trk st -> trk st n = Some T ->
  (forall p, edge st p n -> ~ divides st p ->
     trk st p = Some T /\ EditBook.pred_in_track st T (time_of st n) (Some p)) /\
  (head st n -> EditBook.pred_in_track st T (time_of st n) None) /\
  (forall c, successors st n = [c] ->
     trk st c = Some T /\ EditBook.succ_in_track st T (time_of st n) (Some c)) /\
  (length (successors st n) <> 1%nat -> EditBook.succ_in_track st T (time_of st n) None).
Proof.
  intros Hd Hf Ht En. split; [|split; [|split]].
  - intros p. now apply seg_pred.
  - now apply seg_pred_head.
  - intros c. now apply seg_succ.
  - now apply seg_succ_end.
Qed.

(* ------------------------------------------------------------------ transfer along frames *)
(* the scan answers only read the membership of track T and the times of its members *)
Lemma pred_in_track_ext s s' T t p :
  (forall m, EditBook.track_nodes s' T m <-> EditBook.track_nodes s T m) ->
  (forall m, EditBook.track_nodes s T m -> time_of s' m = time_of s m) ->
  (EditBook.pred_in_track s' T t p <-> EditBook.pred_in_track s T t p).
Proof.
  intros Hm Htm. unfold EditBook.pred_in_track. destruct p as [a|].
  - split.
    + intros (A & B & C). apply Hm in A. rewrite (Htm a A) in B, C. split; [exact A|split; [exact B|]].
      intros m Mm Lm. rewrite <- (Htm m Mm) in Lm |- *. apply C; [now apply Hm|exact Lm].
    + intros (A & B & C). split; [now apply Hm|]. rewrite (Htm a A). split; [exact B|].
      intros m Mm Lm. apply Hm in Mm. rewrite (Htm m Mm) in Lm |- *. now apply C.
  - split.
    + intros A m Mm Lm. apply (A m); [now apply Hm|]. now rewrite (Htm m Mm).
    + intros A m Mm Lm. apply Hm in Mm. apply (A m Mm). now rewrite <- (Htm m Mm).
Qed.
Lemma succ_in_track_ext s s' T t p :
  (forall m, EditBook.track_nodes s' T m <-> EditBook.track_nodes s T m) ->
  (forall m, EditBook.track_nodes s T m -> time_of s' m = time_of s m) ->
  (EditBook.succ_in_track s' T t p <-> EditBook.succ_in_track s T t p).
Proof.
  intros Hm Htm. unfold EditBook.succ_in_track. destruct p as [a|].
  - split.
    + intros (A & B & C). apply Hm in A. rewrite (Htm a A) in B, C. split; [exact A|split; [exact B|]].
      intros m Mm Lm. rewrite <- (Htm m Mm) in Lm |- *. apply C; [now apply Hm|exact Lm].
    + intros (A & B & C). split; [now apply Hm|]. rewrite (Htm a A). split; [exact B|].
      intros m Mm Lm. apply Hm in Mm. rewrite (Htm m Mm) in Lm |- *. now apply C.
  - split.
    + intros A m Mm Lm. apply (A m); [now apply Hm|]. now rewrite (Htm m Mm).
    + intros A m Mm Lm. apply Hm in Mm. apply (A m Mm). now rewrite <- (Htm m Mm).
Qed.

Lemma W_forest_same_g s s' : g s' = g s -> W_forest s -> W_forest s'.
Proof.
  intros E W.
  assert (Hs : forall u, successors s' u = successors s u) by (intros u; unfold successors, adj; now rewrite E).
  assert (He : forall a c, edge s' a c <-> edge s a c) by (intros a c; unfold edge, has_edge, adj; now rewrite E).
  assert (Htm : forall m, time_of s' m = time_of s m) by (intros m; unfold time_of, zattr, attr, node_attrs; now rewrite E).
  constructor.
  - intros u u' v H1 H2. apply (wf_in _ W u u' v); now apply He.
  - intros u. rewrite Hs. apply (wf_out _ W).
  - intros u v H. rewrite !Htm. apply (wf_time _ W). now apply He.
Qed.

(* the in-place sort of get_track_neighbors keeps the graph: every graph-level fact carries over *)
Lemma reordered_frame T s s' : EditBook.reordered T s s' ->
  g s' = g s /\ seg s' = seg s /\ ft s' = ft s /\ undo_stack s' = undo_stack s /\ redo_stack s' = redo_stack s /\
  rlog s' = rlog s /\ nctr s' = nctr s /\
  node_ids s' = node_ids s /\ (forall m, is_node s' m <-> is_node s m) /\
  (forall m k, attr s' m k = attr s m k) /\ (forall m, time_of s' m = time_of s m) /\
  (forall m, trk s' m = trk s m) /\ (forall m, lin s' m = lin s m) /\
  (forall u, successors s' u = successors s u) /\ (forall u, predecessors s' u = predecessors s u) /\
  (forall a c, edge s' a c <-> edge s a c) /\ (forall u, divides s' u <-> divides s u) /\
  max_trk (bk s') = max_trk (bk s) /\ max_lin (bk s') = max_lin (bk s) /\
  (W_dict s -> W_dict s') /\ (W_forest s -> W_forest s') /\ (W_trk s -> W_trk s') /\ (cfg_ok s -> cfg_ok s').
Proof.
  intros (Eg & Es & Ef & Eu & Er & El & En & _ & Emt & Eml & _).
  assert (Ha : forall m k, attr s' m k = attr s m k) by (intros m k; unfold attr, node_attrs; now rewrite Eg).
  assert (Hs : forall u, successors s' u = successors s u) by (intros u; unfold successors, adj; now rewrite Eg).
  repeat (split; [assumption|]).
  split; [unfold node_ids; now rewrite Eg|]. split; [intros m; unfold is_node, node_ids; now rewrite Eg|].
  split; [exact Ha|]. split; [intros m; unfold time_of, zattr; now rewrite Ha|].
  split; [intros m; unfold trk, zattr; now rewrite Ha|]. split; [intros m; unfold lin, zattr; now rewrite Ha|].
  split; [exact Hs|]. split; [intros u; unfold predecessors, has_edge, adj; now rewrite Eg|].
  split; [intros a c; unfold edge, has_edge, adj; now rewrite Eg|].
  split; [intros u; unfold divides; now rewrite Hs|].
  split; [exact Emt|]. split; [exact Eml|].
  split; [now apply EditBook.W_dict_same_g|]. split; [now apply W_forest_same_g|]. split; [now apply W_trk_same_g|].
  unfold cfg_ok. now rewrite Ef.
Qed.

(* ------------------------------------------------------------------ get_track_neighbors *)
Lemma no_track_at st T t : W_book st -> has_track_at st T t = false ->
  forall m, EditBook.track_nodes st T m -> time_of st m <> t.
Proof.
  intros Wb Hh m [Nm Em] Et. assert (has_track_at st T t = true) as E; [|congruence].
  apply (EditBook.has_track_at_spec st T t Wb). exists m. auto.
Qed.

(* UserAddNode: the (pred, succ) returned for a time at which the track has no node are joined
   by an edge out of a non-dividing node - the skip edge DeleteEdge(pred, succ) removes exists *)
Theorem neighbors_adjacent st T t st' p s :
  W_dict st -> W_forest st -> W_trk st -> W_book st ->
  track_neighbors st T t = (st', (Some p, Some s)) -> has_track_at st T t = false ->
  edge st p s /\ ~ divides st p /\ successors st p = [s] /\ predecessors st s = [p] /\
  trk st p = Some T /\ trk st s = Some T /\ time_of st p < t < time_of st s /\
  EditBook.reordered T st st' /\ W_book st'.
Proof.
  intros Hd Hf Ht Wb H Hno. destruct (EditBook.track_neighbors_spec st T t st' _ _ Wb H) as (Hr & Wb' & Hp & Hs).
  destruct (between_adjacent st Hd Hf Ht T t p s Hp Hs (no_track_at st T t Wb Hno)) as [He Hnd].
  destruct Hp as ([Np Ep] & Lp & _). destruct Hs as ([Ns Es] & Ls & _).
  split; [exact He|]. split; [exact Hnd|]. split; [now apply not_divides_single|].
  split; [|split; [exact Ep|split; [exact Es|split; [lia|split; [exact Hr|exact Wb']]]]].
  assert (Hin : forall q, In q (predecessors st s) <-> q = p).
  { intros q. rewrite in_predecessors. split; [intros [_ Hq]; exact (wf_in _ Hf q p s Hq He)|intros ->; now split]. }
  assert (Hnd' : NoDup (predecessors st s)) by (unfold predecessors; apply NoDup_filter; apply (wd_nodup _ Hd)).
  destruct (predecessors st s) as [|q r]; [exfalso; now apply (Hin p)|].
  assert (q = p) as -> by (apply Hin; now left). f_equal. destruct r as [|q2 r']; [reflexivity|].
  assert (q2 = p) as -> by (apply Hin; right; now left). inversion Hnd' as [|? ? Hx _]; subst. exfalso. apply Hx. now left.
Qed.

(* the one-sided answers: the predecessor alone is the end of the track, the successor alone its head *)
Theorem neighbors_pred_only st T t st' p :
  W_dict st -> W_forest st -> W_trk st -> W_book st ->
  track_neighbors st T t = (st', (Some p, None)) -> has_track_at st T t = false ->
  length (successors st p) <> 1%nat /\ trk st p = Some T /\ time_of st p < t /\
  EditBook.reordered T st st' /\ W_book st'.
Proof.
  intros Hd Hf Ht Wb H Hno. destruct (EditBook.track_neighbors_spec st T t st' _ _ Wb H) as (Hr & Wb' & Hp & Hs).
  split; [exact (last_is_end st Hd Hf Ht T t p Hp Hs (no_track_at st T t Wb Hno))|].
  destruct Hp as ([Np Ep] & Lp & _). auto.
Qed.
Theorem neighbors_succ_only st T t st' s :
  W_dict st -> W_forest st -> W_trk st -> W_book st ->
  track_neighbors st T t = (st', (None, Some s)) -> has_track_at st T t = false ->
  head st s /\ trk st s = Some T /\ t < time_of st s /\
  EditBook.reordered T st st' /\ W_book st'.
Proof.
  intros Hd Hf Ht Wb H Hno. destruct (EditBook.track_neighbors_spec st T t st' _ _ Wb H) as (Hr & Wb' & Hp & Hs).
  split; [exact (first_is_head st Hd Hf Ht T t s Hp Hs (no_track_at st T t Wb Hno))|].
  destruct Hs as ([Ns Es] & Ls & _). auto.
Qed.

(* UserDeleteNode: the query runs in a later state s2 (the edges of n removed, a sibling
   possibly relabelled) in which the members of track T and their times are those of the
   original state st; it returns n's non-dividing parent and n's only child in st *)
Theorem udn_neighbors st s2 n T s3 p' c' :
  W_dict st -> W_forest st -> W_trk st -> trk st n = Some T ->
  (forall m, EditBook.track_nodes s2 T m <-> EditBook.track_nodes st T m) ->
  (forall m, EditBook.track_nodes st T m -> time_of s2 m = time_of st m) ->
  W_book s2 ->
  track_neighbors s2 T (time_of s2 n) = (s3, (p', c')) ->
  EditBook.reordered T s2 s3 /\ W_book s3 /\
  (forall q, p' = Some q <-> (edge st q n /\ ~ divides st q)) /\
  (forall c, c' = Some c <-> successors st n = [c]).
Proof.
  intros Hd Hf Ht En Hm Htm Wb H.
  destruct (EditBook.track_neighbors_spec s2 T _ s3 _ _ Wb H) as (Hr & Wb' & Hp & Hs).
  split; [exact Hr|]. split; [exact Wb'|].
  assert (Mn : EditBook.track_nodes st T n) by (split; [eapply EditBook.zattr_is_node; exact En|exact En]).
  rewrite (Htm n Mn) in Hp, Hs.
  apply (pred_in_track_ext st s2 T _ _ Hm Htm) in Hp. apply (succ_in_track_ext st s2 T _ _ Hm Htm) in Hs.
  exact (node_track_neighbors st Hd Hf Ht n T p' c' En Hp Hs).
Qed.

(* the special case where s2 differs from st by edge deletions only (same node ids, attributes, books) *)
Corollary udn_neighbors_edges st s2 n T s3 p' c' :
  W_dict st -> W_forest st -> W_trk st -> W_book st -> trk st n = Some T ->
  node_ids s2 = node_ids st -> (forall m k, attr s2 m k = attr st m k) -> bk s2 = bk st ->
  track_neighbors s2 T (time_of s2 n) = (s3, (p', c')) ->
  EditBook.reordered T s2 s3 /\ W_book s3 /\
  (forall q, p' = Some q <-> (edge st q n /\ ~ divides st q)) /\
  (forall c, c' = Some c <-> successors st n = [c]).
Proof.
  intros Hd Hf Ht Wb En Hids Ha Hbk H.
  assert (Hn : forall m, is_node s2 m <-> is_node st m) by (intros m; unfold is_node; now rewrite Hids).
  assert (Htr : forall m, trk s2 m = trk st m) by (intros m; unfold trk, zattr; now rewrite Ha).
  apply (udn_neighbors st s2 n T s3 p' c' Hd Hf Ht En); [| | |exact H].
  - intros m. unfold EditBook.track_nodes. now rewrite Hn, Htr.
  - intros m _. unfold time_of, zattr. now rewrite Ha.
  - apply (EditBook.W_book_ext st s2); [exact Hn|intros m _; apply Htr|intros m _; unfold lin, zattr; now rewrite Ha|exact Hbk|exact Wb].
Qed.

(* ================================================================== *)
(* A. structure-level specifications of DeleteNode / AddNode            *)
(* ================================================================== *)
(* the fields no basic node action touches (the array and the books are described separately) *)
Definition hist_eq (s s' : state) : Prop :=
  ft s' = ft s /\ undo_stack s' = undo_stack s /\ redo_stack s' = redo_stack s /\ rlog s' = rlog s /\ nctr s' = nctr s.

Lemma rest_eq_refl s : rest_eq s s.
Proof. unfold rest_eq. repeat split; reflexivity. Qed.
Lemma rest_eq_trans a b c : rest_eq a b -> rest_eq b c -> rest_eq a c.
Proof. unfold rest_eq. intros (A1&A2&A3&A4&A5&A6&A7) (B1&B2&B3&B4&B5&B6&B7). repeat split; congruence. Qed.
Lemma rest_eq_hist a b : rest_eq a b -> hist_eq a b.
Proof. unfold rest_eq, hist_eq. intros (A1&A2&A3&A4&A5&A6&A7). repeat split; assumption. Qed.
Lemma hist_eq_trans a b c : hist_eq a b -> hist_eq b c -> hist_eq a c.
Proof. unfold hist_eq. intros (A1&A2&A3&A4&A5) (B1&B2&B3&B4&B5). repeat split; congruence. Qed.

Lemma rest_eq_sna s n k v : rest_eq s (set_node_attr s n k v).
Proof. destruct (sna_rest s n k v) as (R1&R2&R3&R4&R5&R6&R7). unfold rest_eq. repeat split; assumption. Qed.
Lemma rest_eq_fold_sna n : forall (l : list (Z * value)) s,
  rest_eq s (fold_left (fun s kv => set_node_attr s n (fst kv) (snd kv)) l s).
Proof.
  induction l as [|kv r IH]; intros s; cbn [fold_left]; [apply rest_eq_refl|].
  eapply rest_eq_trans; [apply rest_eq_sna|apply IH].
Qed.
Lemma rest_eq_rp_update s n : rest_eq s (rp_update s n).
Proof.
  unfold rp_update. destruct (seg s) as [sg|]; [|apply rest_eq_refl].
  generalize (match mask_of sg (time_of s n) n with [] => VNone | _ :: _ => VRp (mask_of sg (time_of s n) n) end).
  intros v. generalize (rp_act (ft s)). intros ks. revert s.
  induction ks as [|k r IH]; intros s; cbn [fold_left]; [apply rest_eq_refl|].
  eapply rest_eq_trans; [apply rest_eq_sna|apply IH].
Qed.
Lemma rest_eq_add_node_graph s n a : rest_eq s (EditBook.add_node_graph s n a).
Proof.
  unfold EditBook.add_node_graph. cbv zeta. eapply rest_eq_trans; [|apply rest_eq_rp_update].
  eapply rest_eq_trans; [|apply rest_eq_fold_sna].
  destruct (haskey n (nodes (g s))); [apply rest_eq_refl|]. unfold rest_eq. cbn. repeat split; reflexivity.
Qed.

(* ---- tracks.set_pixels: the only way a node action can fail on a node ---- *)
(* the pixels are acceptable: there is an array and the frame index is in range *)
Definition px_ok st (px : option pixels) : Prop :=
  match px with None => True | Some p => exists sg, seg st = Some sg /\ frame_ok sg (fst p) = true end.
(* the array after writing value v at the pixels *)
Definition seg_after st (px : option pixels) (v : Z) : option (list (list Z)) :=
  match px, seg st with
  | Some p, Some sg => Some (upd_frame (Z.to_nat (fst p)) (fun f => write_frame 0 f (snd p) v) sg)
  | _, _ => seg st
  end.

Lemma opt_set_pixels_inv st px v u st0 :
  (match px with Some p => set_pixels st p v | None => Ok tt st end) = Ok u st0 ->
  px_ok st px /\ g st0 = g st /\ seg st0 = seg_after st px v /\ bk st0 = bk st /\ hist_eq st st0.
Proof.
  destruct px as [p|]; cbn [px_ok seg_after].
  - unfold set_pixels. destruct (seg st) as [sg|] eqn:Es; [|discriminate].
    destruct (frame_ok sg (fst p)) eqn:Ef; [|discriminate]. intros H. inversion H; subst. cbn.
    split; [exists sg; auto|]. unfold hist_eq. cbn. repeat split; reflexivity.
  - intros H. inversion H; subst. unfold hist_eq. repeat split; reflexivity.
Qed.
Lemma opt_set_pixels_ok st px v : px_ok st px ->
  exists st0, (match px with Some p => set_pixels st p v | None => Ok tt st end) = Ok tt st0.
Proof.
  destruct px as [p|]; cbn [px_ok]; [|intros _; now exists st].
  intros (sg & Es & Ef). unfold set_pixels. rewrite Es, Ef. eexists. reflexivity.
Qed.
Lemma seg_after_none st px v : seg st = None -> seg_after st px v = None.
Proof. intros E. unfold seg_after. rewrite E. now destruct px. Qed.
Lemma px_ok_noseg st px : seg st = None -> (px_ok st px <-> px = None).
Proof.
  intros E. destruct px as [p|]; cbn [px_ok]; [|tauto].
  split; [intros (sg & Es & _); congruence|discriminate].
Qed.

(* ------------------------------------------------------------------ DeleteNode *)
(* the pixels DeleteNode clears: the given ones, else the node's own mask *)
Definition del_px st n (pxo : option pixels) : option pixels :=
  match pxo with Some p => Some p | None => get_pixels st n end.

Lemma del_px_noseg st n : seg st = None -> del_px st n None = None.
Proof. intros E. unfold del_px, get_pixels. now rewrite E. Qed.

Lemma del_node_tail_frame st1 n saved px b st' : EditBook.del_node_tail st1 n saved px = Ok b st' ->
  g st' = g st1 /\ seg st' = seg st1 /\ hist_eq st1 st' /\ b = BDelNode n saved px /\
  max_trk (bk st') = max_trk (bk st1) /\ max_lin (bk st') = max_lin (bk st1).
Proof.
  unfold EditBook.del_node_tail, hist_eq. destruct (negb (trk_act (ft st1))); intros H; inversion H; subst; cbn; repeat split; reflexivity.
Qed.

Theorem do_del_node_WS st n pxo b st' : W_dict st -> W_forest st -> do_del_node st n pxo = Ok b st' ->
  W_dict st' /\ W_forest st' /\
  (forall m, is_node st' m <-> is_node st m /\ m <> n) /\
  (forall x y, edge st' x y <-> edge st x y /\ x <> n /\ y <> n) /\
  (forall u, successors st' u = if Z.eq_dec u n then [] else filter (fun x => negb (n =? x)) (successors st u)) /\
  (forall m k, m <> n -> attr st' m k = attr st m k) /\
  (forall m, m <> n -> time_of st' m = time_of st m) /\
  is_node st n /\ px_ok st (del_px st n pxo) /\
  seg st' = seg_after st (del_px st n pxo) 0 /\ hist_eq st st' /\
  max_trk (bk st') = max_trk (bk st) /\ max_lin (bk st') = max_lin (bk st) /\
  b = BDelNode n (saved_attrs (reg_node (ft st)) (node_attrs st n)) (del_px st n pxo).
Proof.
  intros Hd Hf H. pose proof (EditBook.del_node_W_dict st n pxo b st' H Hd) as Hd'.
  rewrite EditBook.do_del_node_eq in H. destruct (lookup n (nodes (g st))) as [d|] eqn:Ed; [|discriminate].
  cbv zeta in H. fold (del_px st n pxo) in H.
  destruct (match del_px st n pxo with Some p => set_pixels st p 0 | None => Ok tt st end) as [uu st0|e st0] eqn:Ep; [|discriminate].
  cbn [bind] in H. destruct (opt_set_pixels_inv _ _ _ _ _ Ep) as (Hpx & Eg & Es & Eb & Hh).
  destruct (del_node_tail_frame _ _ _ _ _ _ H) as (Eg' & Es' & Hh' & Eb' & Emt & Eml).
  destruct (EditBook.del_node_graph_spec st0 n) as (Hin & Hat & Hsu & Ebk & Eft). cbv zeta in *.
  assert (Nn : is_node st n) by (apply EditBook.is_node_lookup; now exists d).
  assert (Hnode : forall m, is_node st' m <-> is_node st m /\ m <> n).
  { intros m. unfold is_node, node_ids at 1. rewrite Eg'. fold (node_ids (EditBook.del_node_graph st0 n)).
    fold (is_node (EditBook.del_node_graph st0 n) m). rewrite Hin. unfold is_node, node_ids. rewrite Eg. tauto. }
  assert (Hsucc : forall u, successors st' u = if Z.eq_dec u n then [] else filter (fun x => negb (n =? x)) (successors st u)).
  { intros u. unfold successors at 1, adj. rewrite Eg'. fold (adj (EditBook.del_node_graph st0 n) u).
    fold (successors (EditBook.del_node_graph st0 n) u). rewrite Hsu. destruct (Z.eq_dec u n); [reflexivity|].
    rewrite keys_del. unfold successors, adj. now rewrite Eg. }
  assert (Hedge : forall x y, edge st' x y <-> edge st x y /\ x <> n /\ y <> n).
  { intros x y. rewrite !edge_successors, Hsucc. destruct (Z.eq_dec x n) as [->|Hx].
    - split; [intros []|tauto].
    - rewrite filter_In. split.
      + intros [A B]. split; [exact A|split; [exact Hx|]]. intros ->. now rewrite Z.eqb_refl in B.
      + intros (A & _ & B). split; [exact A|]. destruct (Z.eqb_spec n y); [congruence|reflexivity]. }
  assert (Hattr : forall m k, m <> n -> attr st' m k = attr st m k).
  { intros m k Hm. unfold attr, node_attrs at 1. rewrite Eg'. fold (node_attrs (EditBook.del_node_graph st0 n) m).
    rewrite Hat by exact Hm. unfold node_attrs. now rewrite Eg. }
  assert (Htime : forall m, m <> n -> time_of st' m = time_of st m).
  { intros m Hm. unfold time_of, zattr. now rewrite Hattr. }
  split; [exact Hd'|]. split.
  { constructor.
    - intros u u' v E1 E2. apply Hedge in E1. apply Hedge in E2. apply (wf_in _ Hf u u' v); tauto.
    - intros u. rewrite Hsucc. destruct (Z.eq_dec u n); [cbn; lia|].
      etransitivity; [apply filter_length_le|apply (wf_out _ Hf)].
    - intros u v E. apply Hedge in E. destruct E as (E & Hu & Hv). rewrite !Htime by assumption. now apply (wf_time _ Hf). }
  split; [exact Hnode|]. split; [exact Hedge|]. split; [exact Hsucc|]. split; [exact Hattr|]. split; [exact Htime|].
  split; [exact Nn|]. split; [exact Hpx|].
  split; [rewrite Es'; cbn; exact Es|].
  split.
  { eapply hist_eq_trans; [exact Hh|]. eapply hist_eq_trans; [|exact Hh']. unfold hist_eq. cbn. repeat split; reflexivity. }
  split; [rewrite Emt, Ebk, Eb; reflexivity|]. split; [rewrite Eml, Ebk, Eb; reflexivity|].
  rewrite Eb'. unfold node_attrs, getd. now rewrite Ed.
Qed.

(* without an array nothing happens to the array, and no pixels can have been given *)
Corollary do_del_node_noseg st n pxo b st' : do_del_node st n pxo = Ok b st' -> seg st = None ->
  seg st' = None /\ pxo = None.
Proof.
  intros H Es. rewrite EditBook.do_del_node_eq in H. destruct (lookup n (nodes (g st))) as [d|]; [|discriminate].
  cbv zeta in H. fold (del_px st n pxo) in H.
  destruct (match del_px st n pxo with Some p => set_pixels st p 0 | None => Ok tt st end) as [uu st0|e st0] eqn:Ep; [|discriminate].
  cbn [bind] in H. destruct (opt_set_pixels_inv _ _ _ _ _ Ep) as (Hpx & _ & Es0 & _).
  destruct (del_node_tail_frame _ _ _ _ _ _ H) as (_ & Es' & _).
  split; [rewrite Es'; cbn; rewrite Es0; now apply seg_after_none|].
  apply (px_ok_noseg st _ Es) in Hpx. destruct pxo; [discriminate|reflexivity].
Qed.

(* success: the node exists and the frame of the pixels to clear exists *)
Theorem do_del_node_ok st n pxo : is_node st n -> px_ok st (del_px st n pxo) ->
  exists b st', do_del_node st n pxo = Ok b st'.
Proof.
  intros Hn Hpx. rewrite EditBook.do_del_node_eq. apply EditBook.is_node_lookup in Hn. destruct Hn as [d ->].
  cbv zeta. fold (del_px st n pxo). destruct (opt_set_pixels_ok st _ 0 Hpx) as [st0 ->]. cbn [bind].
  unfold EditBook.del_node_tail. destruct (negb (trk_act (ft (EditBook.del_node_graph st0 n)))); eexists _, _; reflexivity.
Qed.
Theorem do_del_node_ok_iff st n pxo :
  (exists b st', do_del_node st n pxo = Ok b st') <-> is_node st n /\ px_ok st (del_px st n pxo).
Proof.
  split; [|intros [A B]; now apply do_del_node_ok]. intros (b & st' & H).
  rewrite EditBook.do_del_node_eq in H. destruct (lookup n (nodes (g st))) as [d|] eqn:Ed; [|discriminate].
  cbv zeta in H. fold (del_px st n pxo) in H.
  destruct (match del_px st n pxo with Some p => set_pixels st p 0 | None => Ok tt st end) as [uu st0|e st0] eqn:Ep; [|discriminate].
  destruct (opt_set_pixels_inv _ _ _ _ _ Ep) as (Hpx & _). split; [apply EditBook.is_node_lookup; now exists d|exact Hpx].
Qed.
Corollary do_del_node_ok_noseg st n : is_node st n -> seg st = None -> exists b st', do_del_node st n None = Ok b st'.
Proof. intros Hn Es. apply do_del_node_ok; [exact Hn|]. rewrite (del_px_noseg st n Es). exact I. Qed.
Corollary do_del_node_ok_wseg st n : is_node st n -> W_seg st -> exists b st', do_del_node st n None = Ok b st'.
Proof.
  intros Hn Ws. apply do_del_node_ok; [exact Hn|]. unfold del_px, get_pixels, W_seg in *.
  destruct (seg st) as [sg|] eqn:Es; [|exact I]. cbn. exists sg. split; [exact Es|]. destruct Ws as (A & _). now apply A.
Qed.
(* the only error of DeleteNode on an existing node is the out-of-range frame (or pixels without an array) *)
Theorem do_del_node_err st n pxo e st' : is_node st n -> do_del_node st n pxo = Err e st' ->
  st' = st /\ ~ px_ok st (del_px st n pxo) /\ (e = EIndex \/ (e = EValue /\ seg st = None /\ pxo <> None)).
Proof.
  intros Hn H. rewrite EditBook.do_del_node_eq in H. apply EditBook.is_node_lookup in Hn. destruct Hn as [d Ed]. rewrite Ed in H.
  cbv zeta in H. fold (del_px st n pxo) in H.
  destruct (del_px st n pxo) as [p|] eqn:Edp.
  - unfold set_pixels in H. cbn [px_ok]. destruct (seg st) as [sg|] eqn:Es.
    + destruct (frame_ok sg (fst p)) eqn:Ef.
      * cbn [bind] in H. unfold EditBook.del_node_tail in H. destruct (negb _) in H; discriminate.
      * cbn [bind] in H. inversion H; subst. split; [reflexivity|]. split; [|now left].
        intros (sg' & E' & F'). congruence.
    + cbn [bind] in H. inversion H; subst. split; [reflexivity|]. split; [intros (sg' & E' & _); discriminate|].
      right. split; [reflexivity|]. split; [reflexivity|]. intros ->. unfold del_px, get_pixels in Edp. rewrite Es in Edp. discriminate.
  - cbn [bind] in H. unfold EditBook.del_node_tail in H. destruct (negb _) in H; discriminate.
Qed.

(* ------------------------------------------------------------------ AddNode *)
Lemma add_node_tail_frame st3 n a px b st' : EditBook.add_node_tail st3 n a px = Ok b st' ->
  g st' = g st3 /\ seg st' = seg st3 /\ hist_eq st3 st' /\ b = BAddNode n a px.
Proof.
  unfold EditBook.add_node_tail, hist_eq. destruct (negb (trk_act (ft st3))); [intros H; inversion H; subst; repeat split; reflexivity|].
  destruct (zattr st3 n KTrack); [|discriminate]. destruct (lin_act (ft st3)); [destruct (zattr st3 n KLin)|];
    intros H; inversion H; subst; cbn; repeat split; reflexivity.
Qed.

(* what the graph part of AddNode does to a state in which n is not yet a node *)
Lemma add_node_graph_struct st0 n a : W_dict st0 -> ~ is_node st0 n ->
  let st3 := EditBook.add_node_graph st0 n a in
  node_ids st3 = node_ids st0 ++ [n] /\
  (forall u, successors st3 u = successors st0 u) /\
  (forall m k, m <> n -> attr st3 m k = attr st0 m k) /\
  (NoDup (keys a) -> forall k v, lookup k a = Some v -> ~ In k (rp_act (ft st0)) -> attr st3 n k = Some v) /\
  bk st3 = bk st0 /\ rest_eq st0 st3.
Proof.
  intros W Hn0. cbv zeta.
  destruct (EditBook.add_node_graph_spec st0 n a Hn0) as (st1 & [A F] & [_ F2] & En & Es & Eb & Ef).
  destruct (EditBook.add_node_graph_nodes st0 n a Hn0) as (Eids & Ebk & _ & Hat). cbv zeta in *.
  assert (Hn1 : is_node st1 n).
  { unfold is_node, node_ids. rewrite En, keys_app, in_app_iff. right. now left. }
  split; [exact Eids|]. split; [|split; [exact Hat|split; [|split; [exact Ebk|apply rest_eq_add_node_graph]]]].
  - intros w. rewrite (EditBook.attr_upd_successors _ _ w A). unfold successors, adj. rewrite Es.
    destruct (Z.eq_dec w n) as [->|Hw]; [now rewrite getd_set_eq|now rewrite getd_set_neq].
  - intros Hnd k v E Hk. rewrite F2 by (right; exact Hk). now apply EditBook.set_attrs_lookup.
Qed.

Theorem do_add_node_WS st n a px b st' t T L :
  W_dict st -> W_forest st -> ~ is_node st n -> EditBook.rp_disjoint st -> NoDup (keys a) ->
  lookup KTime a = Some (VZ t) -> lookup KTrack a = Some (VZ T) -> lookup KLin a = Some (VZ L) ->
  do_add_node st n a px = Ok b st' ->
  W_dict st' /\ W_forest st' /\
  (forall m, is_node st' m <-> is_node st m \/ m = n) /\ node_ids st' = node_ids st ++ [n] /\
  (forall u, successors st' u = successors st u) /\ (forall x y, edge st' x y <-> edge st x y) /\
  successors st' n = [] /\ (forall x, ~ edge st' x n) /\
  time_of st' n = t /\ trk st' n = Some T /\ lin st' n = Some L /\
  (forall k v, lookup k a = Some v -> ~ In k (rp_act (ft st)) -> attr st' n k = Some v) /\
  (forall m k, m <> n -> attr st' m k = attr st m k) /\
  (forall m, m <> n -> time_of st' m = time_of st m) /\
  px_ok st px /\ seg st' = seg_after st px n /\ hist_eq st st' /\ b = BAddNode n a px.
Proof.
  intros Hd Hf Hn Hrp Hnd Ha0 Ha1 Ha2 H.
  pose proof (EditBook.add_node_W_dict st n a px b st' t T L Hn Hrp Hnd Ha0 Ha1 Ha2 H Hd) as Hd'.
  rewrite EditBook.do_add_node_eq in H.
  destruct (negb (haskey KTime a)); [discriminate|]. destruct (negb (haskey KTrack a)); [discriminate|].
  destruct (match px with None => _ | Some _ => false end); [discriminate|].
  destruct (match px with Some p => set_pixels st p n | None => Ok tt st end) as [uu st0|e st0] eqn:Ep; [|discriminate].
  cbn [bind] in H. destruct (opt_set_pixels_inv _ _ _ _ _ Ep) as (Hpx & Eg & Es & Eb & Hh).
  destruct (add_node_tail_frame _ _ _ _ _ _ H) as (Eg' & Es' & Hh' & Eb').
  assert (W0 : W_dict st0) by (now apply (EditBook.W_dict_same_g st st0)).
  assert (Hn0 : ~ is_node st0 n) by (unfold is_node, node_ids; now rewrite Eg).
  assert (Eft0 : ft st0 = ft st) by apply Hh.
  destruct (add_node_graph_struct st0 n a W0 Hn0) as (Eids & Hsu & Hat & Hnew & Ebk & Hr). cbv zeta in *.
  remember (EditBook.add_node_graph st0 n a) as st3 eqn:E3. clear E3.
  assert (Hids : node_ids st' = node_ids st ++ [n]) by (unfold node_ids at 1; rewrite Eg'; fold (node_ids st3); rewrite Eids; unfold node_ids; now rewrite Eg).
  assert (Hnode : forall m, is_node st' m <-> is_node st m \/ m = n).
  { intros m. unfold is_node at 1. rewrite Hids, in_app_iff. cbn. unfold is_node. intuition. }
  assert (Hsucc : forall u, successors st' u = successors st u).
  { intros u. unfold successors at 1, adj. rewrite Eg'. fold (adj st3 u). fold (successors st3 u). rewrite Hsu.
    unfold successors, adj. now rewrite Eg. }
  assert (Hedge : forall x y, edge st' x y <-> edge st x y) by (intros x y; now rewrite !edge_successors, Hsucc).
  assert (Hattr' : forall m k, attr st' m k = attr st3 m k) by (intros m k; unfold attr, node_attrs; now rewrite Eg').
  assert (Hattr0 : forall m k, attr st0 m k = attr st m k) by (intros m k; unfold attr, node_attrs; now rewrite Eg).
  assert (Hattr : forall m k, m <> n -> attr st' m k = attr st m k) by (intros m k Hm; now rewrite Hattr', Hat, Hattr0).
  assert (Htime : forall m, m <> n -> time_of st' m = time_of st m) by (intros m Hm; unfold time_of, zattr; now rewrite Hattr).
  assert (Hnew' : forall k v, lookup k a = Some v -> ~ In k (rp_act (ft st)) -> attr st' n k = Some v).
  { intros k v E Hk. rewrite Hattr'. apply (Hnew Hnd k v E). now rewrite Eft0. }
  assert (Hnoin : forall x, ~ edge st x n) by (intros x Hx; apply Hn; apply (wd_edge_nodes _ Hd x n Hx)).
  assert (Hnoout : successors st n = []).
  { destruct (successors st n) as [|c r] eqn:Esn; [reflexivity|]. exfalso. apply Hn.
    apply (wd_edge_nodes _ Hd n c). apply edge_successors. rewrite Esn. now left. }
  split; [exact Hd'|]. split.
  { constructor.
    - intros u u' v E1 E2. apply Hedge in E1. apply Hedge in E2. exact (wf_in _ Hf u u' v E1 E2).
    - intros u. rewrite Hsucc. apply (wf_out _ Hf).
    - intros u v E. apply Hedge in E.
      assert (u <> n) by (intros ->; apply Hn; apply (wd_edge_nodes _ Hd n v E)).
      assert (v <> n) by (intros ->; exact (Hnoin u E)).
      rewrite !Htime by assumption. now apply (wf_time _ Hf). }
  split; [exact Hnode|]. split; [exact Hids|]. split; [exact Hsucc|]. split; [exact Hedge|].
  split; [now rewrite Hsucc|]. split; [intros x Hx; apply Hedge in Hx; exact (Hnoin x Hx)|].
  split; [apply time_of_attr; apply Hnew'; [exact Ha0|apply Hrp; unfold EditBook.id_key; auto]|].
  split; [apply zattr_attr; apply Hnew'; [exact Ha1|apply Hrp; unfold EditBook.id_key; auto]|].
  split; [apply zattr_attr; apply Hnew'; [exact Ha2|apply Hrp; unfold EditBook.id_key; auto]|].
  split; [exact Hnew'|]. split; [exact Hattr|]. split; [exact Htime|]. split; [exact Hpx|].
  split; [destruct Hr as (R1 & _); now rewrite Es', R1|].
  split; [|exact Eb'].
  eapply hist_eq_trans; [exact Hh|]. eapply hist_eq_trans; [apply rest_eq_hist; exact Hr|exact Hh'].
Qed.

(* the counters afterwards, in the configuration the theorems are stated for *)
Lemma do_add_node_max st n a px b st' T L :
  cfg_ok st -> W_dict st -> ~ is_node st n -> EditBook.rp_disjoint st -> NoDup (keys a) ->
  lookup KTrack a = Some (VZ T) -> lookup KLin a = Some (VZ L) ->
  do_add_node st n a px = Ok b st' ->
  max_trk (bk st') = Z.max (max_trk (bk st)) T /\ max_lin (bk st') = Z.max (max_lin (bk st)) L.
Proof.
  intros (Cta & Cla & _) Hd Hn Hrp Hnd Ha1 Ha2 H. rewrite EditBook.do_add_node_eq in H.
  destruct (negb (haskey KTime a)); [discriminate|]. destruct (negb (haskey KTrack a)); [discriminate|].
  destruct (match px with None => _ | Some _ => false end); [discriminate|].
  destruct (match px with Some p => set_pixels st p n | None => Ok tt st end) as [uu st0|e st0] eqn:Ep; [|discriminate].
  cbn [bind] in H. destruct (opt_set_pixels_inv _ _ _ _ _ Ep) as (Hpx & Eg & Es & Eb & Hh).
  assert (W0 : W_dict st0) by (now apply (EditBook.W_dict_same_g st st0)).
  assert (Hn0 : ~ is_node st0 n) by (unfold is_node, node_ids; now rewrite Eg).
  assert (Eft0 : ft st0 = ft st) by apply Hh.
  destruct (add_node_graph_struct st0 n a W0 Hn0) as (_ & _ & _ & Hnew & Ebk & Hr). cbv zeta in *.
  remember (EditBook.add_node_graph st0 n a) as st3 eqn:E3. clear E3.
  assert (Eft3 : ft st3 = ft st) by (destruct Hr as (_ & R2 & _); now rewrite R2).
  assert (E1 : zattr st3 n KTrack = Some T).
  { apply zattr_attr. apply (Hnew Hnd _ _ Ha1). rewrite Eft0. apply Hrp. unfold EditBook.id_key; auto. }
  assert (E2 : zattr st3 n KLin = Some L).
  { apply zattr_attr. apply (Hnew Hnd _ _ Ha2). rewrite Eft0. apply Hrp. unfold EditBook.id_key; auto. }
  unfold EditBook.add_node_tail in H. rewrite Eft3, Cta, Cla, E1, E2 in H. cbn [negb] in H.
  inversion H; subst. cbn. rewrite Ebk, Eb. auto.
Qed.

(* success: the three validations pass and the frame of the given pixels exists *)
Theorem do_add_node_ok st n a px T :
  W_dict st -> ~ is_node st n -> NoDup (keys a) -> ~ In KTrack (rp_act (ft st)) ->
  haskey KTime a = true -> lookup KTrack a = Some (VZ T) ->
  (px = None -> all_in (pos_keys (ft st)) a = true) -> px_ok st px ->
  exists b st', do_add_node st n a px = Ok b st'.
Proof.
  intros Hd Hn Hnd Hrp Ht Hk Hpos Hpx. rewrite EditBook.do_add_node_eq. rewrite Ht.
  rewrite (lookup_Some_haskey _ _ _ Hk). cbn [negb].
  assert (Ev : (match px with None => negb (all_in (pos_keys (ft st)) a) | Some _ => false end) = false).
  { destruct px; [reflexivity|]. now rewrite Hpos. }
  rewrite Ev. destruct (opt_set_pixels_ok st px n Hpx) as [st0 Ep]. rewrite Ep. cbn [bind].
  destruct (opt_set_pixels_inv _ _ _ _ _ Ep) as (_ & Eg & Es & Eb & Hh).
  assert (W0 : W_dict st0) by (now apply (EditBook.W_dict_same_g st st0)).
  assert (Hn0 : ~ is_node st0 n) by (unfold is_node, node_ids; now rewrite Eg).
  assert (Eft0 : ft st0 = ft st) by apply Hh.
  destruct (add_node_graph_struct st0 n a W0 Hn0) as (_ & _ & _ & Hnew & _ & _). cbv zeta in *.
  remember (EditBook.add_node_graph st0 n a) as st3 eqn:E3. clear E3.
  assert (E1 : zattr st3 n KTrack = Some T).
  { apply zattr_attr. apply (Hnew Hnd _ _ Hk). now rewrite Eft0. }
  unfold EditBook.add_node_tail. destruct (negb (trk_act (ft st3))); [eexists _, _; reflexivity|].
  rewrite E1. destruct (lin_act (ft st3)); [destruct (zattr st3 n KLin)|]; eexists _, _; reflexivity.
Qed.
(* and conversely *)
Theorem do_add_node_ok_inv st n a px b st' : do_add_node st n a px = Ok b st' ->
  haskey KTime a = true /\ haskey KTrack a = true /\ (px = None -> all_in (pos_keys (ft st)) a = true) /\ px_ok st px.
Proof.
  intros H. rewrite EditBook.do_add_node_eq in H.
  destruct (haskey KTime a); [|discriminate]. destruct (haskey KTrack a); [|discriminate]. cbn [negb] in H.
  destruct (match px with None => _ | Some _ => false end) eqn:Ev; [discriminate|].
  destruct (match px with Some p => set_pixels st p n | None => Ok tt st end) as [uu st0|e st0] eqn:Ep; [|discriminate].
  destruct (opt_set_pixels_inv _ _ _ _ _ Ep) as (Hpx & _).
  split; [reflexivity|]. split; [reflexivity|]. split; [|exact Hpx].
  intros ->. now apply negb_false_iff in Ev.
Qed.

(* ================================================================== *)
(* C. concrete states satisfying the hypotheses (non-vacuity)           *)
(* ================================================================== *)
From FT Require Import Model.EditExec.

(* on EditTrk.ex4 (1 divides into 2, 3; 2 -> 4; track 2 = {2, 4}): the neighbours the query returns
   for node 4 of track 2 are its non-dividing parent 2 and no child *)
Example ex4_delete_4_neighbors :
  (forall q, Some 2 = Some q <-> (edge ex4 q 4 /\ ~ divides ex4 q)) /\
  (forall c, @None Z = Some c <-> successors ex4 4 = [c]).
Proof.
  pose (r := track_neighbors ex4 2 (time_of ex4 4)).
  assert (E : r = (fst r, (Some 2, None))) by (vm_compute; reflexivity).
  exact (proj2 (proj2 (udn_neighbors_edges ex4 ex4 4 2 (fst r) (Some 2) None ex4_W_dict ex4_W_forest ex4_W_trk ex4_W_book
                         eq_refl eq_refl (fun _ _ => eq_refl) eq_refl E))).
Qed.

Example ex4_chain_4 : trk ex4 2 = Some 2 /\ EditBook.pred_in_track ex4 2 (time_of ex4 4) (Some 2).
Proof.
  destruct (track_is_chain ex4 4 2 ex4_W_dict ex4_W_forest ex4_W_trk eq_refl) as (H & _).
  apply H; [reflexivity|]. vm_compute. lia.
Qed.

(* DeleteNode / AddNode on ex4 *)
Example ex4_del_node : exists b st', do_del_node ex4 4 None = Ok b st' /\ W_dict st' /\ W_forest st' /\
  ~ is_node st' 4 /\ is_node st' 2 /\ ~ edge st' 2 4 /\ edge st' 1 2.
Proof.
  destruct (do_del_node_ok_noseg ex4 4) as (b & st' & H); [apply ex4_nodes; auto|reflexivity|].
  exists b, st'. split; [exact H|].
  destruct (do_del_node_WS ex4 4 None b st' ex4_W_dict ex4_W_forest H) as (A & B & C & D & _).
  split; [exact A|]. split; [exact B|]. rewrite !C, !D, !ex4_nodes.
  split; [intros [_ X]; now apply X|]. split; [split; [auto|discriminate]|].
  split; [intros (_ & _ & X); now apply X|]. split; [reflexivity|split; discriminate].
Qed.

Definition ex_new_attrs : attrs := [(KTime, VZ 3); (KPos, VTok 9); (KTrack, VZ 2); (KLin, VZ 1)].
Example ex4_add_node : exists b st', do_add_node ex4 5 ex_new_attrs None = Ok b st' /\ W_dict st' /\ W_forest st' /\
  is_node st' 5 /\ time_of st' 5 = 3 /\ trk st' 5 = Some 2 /\ lin st' 5 = Some 1 /\ successors st' 5 = [].
Proof.
  assert (Hn : ~ is_node ex4 5) by (rewrite ex4_nodes; lia).
  assert (Hnd : NoDup (keys ex_new_attrs)) by (cbn; repeat constructor; cbn; intuition discriminate).
  destruct (do_add_node_ok ex4 5 ex_new_attrs None 2 ex4_W_dict Hn Hnd) as (b & st' & H);
    [intros []|reflexivity|reflexivity|reflexivity|exact I|].
  exists b, st'. split; [exact H|].
  assert (Hrp : EditBook.rp_disjoint ex4) by (intros k _ []).
  destruct (do_add_node_WS ex4 5 ex_new_attrs None b st' 3 2 1 ex4_W_dict ex4_W_forest Hn Hrp Hnd eq_refl eq_refl eq_refl H)
    as (A & B & C & _ & _ & _ & D & _ & E & F & G & _).
  split; [exact A|]. split; [exact B|]. split; [apply C; now right|]. auto.
Qed.

(* a track with a gap: 1 (t = 0) -> 2 (t = 2), both of track 1; the query at time 1 returns (1, 2) and
   [neighbors_adjacent] gives the skip edge *)
Definition exg : state :=
  mk_state [(1, [(KTime, VZ 0); (KPos, VTok 0); (KTrack, VZ 1); (KLin, VZ 1)]);
            (2, [(KTime, VZ 2); (KPos, VTok 1); (KTrack, VZ 1); (KLin, VZ 1)])]
           [(1, 2, [])] None ex_feats [(1, [1; 2])] [(1, [1; 2])] 1 1 3.

Lemma exg_nodes n : is_node exg n <-> n = 1 \/ n = 2.
Proof. unfold is_node. cbn. intuition. Qed.
Lemma exg_edges u v : edge exg u v -> (u, v) = (1, 2).
Proof.
  rewrite edge_successors. revert u. apply (succ_cases exg (fun u l => In v l -> (u, v) = (1, 2))); [intros u []|].
  intros u Hu. cbn in Hu. destruct Hu as [<-|[<-|[]]]; vm_compute; intuition congruence.
Qed.
Lemma exg_W_dict : W_dict exg.
Proof.
  constructor.
  - cbn. repeat constructor; cbn; intuition discriminate.
  - vm_compute. repeat constructor; cbn; intuition discriminate.
  - intros n. rewrite haskey_keys. unfold is_node. change (keys (succs (g exg))) with (node_ids exg). tauto.
  - apply (succ_cases exg (fun _ l => NoDup l)); [constructor|]. intros u Hu. cbn in Hu.
    destruct Hu as [<-|[<-|[]]]; vm_compute; repeat constructor; cbn; intuition discriminate.
  - intros u v He. apply exg_edges in He. rewrite !exg_nodes. injection He as -> ->. auto.
  - intros n Hn. apply exg_nodes in Hn. destruct Hn as [->| ->]; vm_compute; eauto.
  - intros n Hn. apply exg_nodes in Hn. destruct Hn as [->| ->]; vm_compute; eauto.
  - intros n Hn. apply exg_nodes in Hn. destruct Hn as [->| ->]; vm_compute; eauto.
  - apply (attrs_cases exg (fun a => NoDup (keys a))); [constructor|]. intros n Hn. apply exg_nodes in Hn.
    destruct Hn as [->| ->]; vm_compute; repeat constructor; cbn; intuition discriminate.
Qed.
Lemma exg_W_forest : W_forest exg.
Proof.
  constructor.
  - intros u u' v E1 E2. apply exg_edges in E1. apply exg_edges in E2. congruence.
  - apply (succ_cases exg (fun _ l => (length l <= 2)%nat)); [cbn; lia|]. intros u Hu. cbn in Hu.
    destruct Hu as [<-|[<-|[]]]; vm_compute; lia.
  - intros u v He. apply exg_edges in He. injection He as -> ->. vm_compute. reflexivity.
Qed.
Lemma exg_W_trk : W_trk exg.
Proof.
  assert (H2 : ~ head exg 2).
  { intros [_ P]. assert (edge exg 1 2) as E by reflexivity. specialize (P 1 E). vm_compute in P. lia. }
  constructor.
  - intros u v He Hnd. apply exg_edges in He. injection He as -> ->. reflexivity.
  - intros a b Ha Hb E. pose proof (proj1 Ha) as Na. pose proof (proj1 Hb) as Nb. apply exg_nodes in Na. apply exg_nodes in Nb.
    destruct Na as [->| ->]; destruct Nb as [->| ->]; try reflexivity; contradiction.
Qed.
Lemma exg_W_book : W_book exg.
Proof.
  split; (split; [cbn; repeat constructor; cbn; intuition discriminate|split]).
  - intros T l H. cbn in H. destruct (Z.eqb_spec T 1) as [->|H1]; [|discriminate]. injection H as <-.
    split; [discriminate|split; [repeat constructor; cbn; intuition discriminate|]].
    intros n. rewrite exg_nodes. cbn [In]. split; [intros [<-|[<-|[]]]; vm_compute; auto|intros [[->| ->] _]; auto].
  - intros n T Hi H. apply exg_nodes in Hi. destruct Hi as [->| ->]; vm_compute in H; injection H as <-; split; (reflexivity || discriminate).
  - intros T l H. cbn in H. destruct (Z.eqb_spec T 1) as [->|H1]; [|discriminate]. injection H as <-.
    split; [discriminate|split; [repeat constructor; cbn; intuition discriminate|]].
    intros n. rewrite exg_nodes. cbn [In]. split; [intros [<-|[<-|[]]]; vm_compute; auto|intros [[->| ->] _]; auto].
  - intros n T Hi H. apply exg_nodes in Hi. destruct Hi as [->| ->]; vm_compute in H; injection H as <-; split; (reflexivity || discriminate).
Qed.

Example exg_skip_edge : snd (track_neighbors exg 1 1) = (Some 1, Some 2) /\ edge exg 1 2 /\ successors exg 1 = [2].
Proof.
  split; [vm_compute; reflexivity|].
  pose (r := track_neighbors exg 1 1).
  assert (E : r = (fst r, (Some 1, Some 2))) by (vm_compute; reflexivity).
  destruct (neighbors_adjacent exg 1 1 (fst r) 1 2 exg_W_dict exg_W_forest exg_W_trk exg_W_book E eq_refl) as (A & _ & B & _).
  split; assumption.
Qed.
