(* Properties of the hand model Model/ExportImage.v (the label image of the CSV export): the
   dtype chosen from the largest exported TRACK id holds every exported track id, so no value
   wraps around; a pixel of an exported node holds that node's track id, every other pixel 0. *)
From Coq Require Import ZArith List Bool Lia.
From FT Require Import Model.ExportImage.
Import ListNotations.
Open Scope Z_scope.

Lemma fold_max_ge : forall l a, a <= fold_left Z.max l a.
Proof. induction l as [|x l IH]; intros a; cbn; [lia|]. specialize (IH (Z.max a x)). lia. Qed.

Lemma fold_max_In : forall l a x, In x l -> x <= fold_left Z.max l a.
Proof.
  induction l as [|y l IH]; intros a x H; [contradiction|]. cbn. destruct H as [->|H].
  - pose proof (fold_max_ge l (Z.max a x)). lia.
  - now apply IH.
Qed.

Lemma max_track_ge tids t : In t tids -> t <= max_track tids.
Proof.
  destruct tids as [|a r]; [contradiction|]. cbn. intros [->|H].
  - apply fold_max_ge.
  - now apply fold_max_In.
Qed.

Lemma bits_for_holds m t : 0 <= t <= m -> m < 2 ^ 64 -> t < 2 ^ bits_for m.
Proof.
  intros H Hm. unfold bits_for.
  destruct (Z.leb_spec m 255); [change (2 ^ 8) with 256; lia|].
  destruct (Z.leb_spec m 65535); [change (2 ^ 16) with 65536; lia|].
  destruct (Z.leb_spec m 4294967295); [change (2 ^ 32) with 4294967296; lia|]. lia.
Qed.

Lemma bits_for_values m : In (bits_for m) [8; 16; 32; 64].
Proof. unfold bits_for. destruct (m <=? 255), (m <=? 65535), (m <=? 4294967295); cbn; tauto. Qed.

(* the dtype is the SMALLEST of the four that holds the largest track id *)
Lemma bits_for_minimal m b : In b [8; 16; 32; 64] -> 0 <= m < 2 ^ b -> bits_for m <= b.
Proof.
  intros Hb Hm. unfold bits_for. cbn in Hb.
  destruct Hb as [<-|[<-|[<-|[<-|[]]]]];
    [change (2 ^ 8) with 256 in Hm|change (2 ^ 16) with 65536 in Hm|change (2 ^ 32) with 4294967296 in Hm|];
    destruct (Z.leb_spec m 255); try lia; destruct (Z.leb_spec m 65535); try lia;
    destruct (Z.leb_spec m 4294967295); lia.
Qed.

Lemma find_row_In (rows : list (Z * Z)) l t : NoDup (map fst rows) -> In (l, t) rows ->
  find (fun r => fst r =? l) rows = Some (l, t).
Proof.
  induction rows as [|[l' t'] rows IH]; cbn; intros Hnd Hin; [contradiction|].
  inversion Hnd as [|? ? Hl' Hnd']; subst. destruct Hin as [E|Hin].
  - injection E as -> ->. now rewrite Z.eqb_refl.
  - destruct (Z.eqb_spec l' l) as [->|_]; [|now apply IH].
    exfalso. apply Hl'. change l with (fst (l, t)). now apply in_map.
Qed.

Lemma find_row_None (rows : list (Z * Z)) l : ~ In l (map fst rows) -> find (fun r => fst r =? l) rows = None.
Proof.
  induction rows as [|[l' t'] rows IH]; cbn; intros H; [reflexivity|].
  destruct (Z.eqb_spec l' l) as [->|_]; [exfalso; apply H; now left|]. apply IH. intros Hin. apply H. now right.
Qed.

(* the exported image, pixel by pixel *)
Theorem csv_seg_image_spec rows seg :
  NoDup (map fst rows) -> (forall l t, In (l, t) rows -> 0 <= t < 2 ^ 64) ->
  let out := snd (csv_seg_image rows seg) in
  length out = length seg /\
  forall k, (k < length seg)%nat ->
    let l := nth k seg 0 in
    (forall t, In (l, t) rows -> nth k out 0 = t) /\
    (~ In l (map fst rows) -> nth k out 0 = 0).
Proof.
  intros Hnd Hr out. subst out. cbn [csv_seg_image snd]. split; [apply map_length|].
  intros k Hk. cbv zeta.
  rewrite (nth_indep (map _ seg) 0 (relabel_pixel rows (csv_seg_dtype rows) 0)) by (rewrite map_length; exact Hk).
  rewrite map_nth. unfold relabel_pixel. split.
  - intros t Hin. rewrite (find_row_In rows _ t Hnd Hin). cbn [snd].
    apply Z.mod_small. destruct (Hr _ _ Hin) as [H0 H64]. split; [exact H0|].
    unfold csv_seg_dtype. apply bits_for_holds.
    + split; [exact H0|]. apply max_track_ge. change t with (snd (nth k seg 0, t)). now apply in_map.
    + assert (forall tids, (forall t, In t tids -> 0 <= t < 2 ^ 64) -> max_track tids < 2 ^ 64) as Hmax.
      { intros tids Ht. destruct tids as [|a r]; [cbn; lia|]. cbn.
        assert (forall l a, a < 2 ^ 64 -> (forall t, In t l -> t < 2 ^ 64) -> fold_left Z.max l a < 2 ^ 64) as Hf.
        { induction l as [|x l IH]; intros a0 Ha Hl; cbn; [exact Ha|]. apply IH.
          - pose proof (Hl x (or_introl eq_refl)). lia.
          - intros y Hy. apply Hl. now right. }
        apply Hf; [apply Ht; now left|intros y Hy; apply Ht; now right]. }
      apply Hmax. intros t' Ht'. apply in_map_iff in Ht'. destruct Ht' as [[l' t''] [E Hin']]. cbn in E. subst t''.
      exact (Hr _ _ Hin').
  - intros Hnot. now rewrite (find_row_None rows _ Hnot).
Qed.

(* no row: an all-zero uint8 image (the empty selection, F-15a / F-15b) *)
Theorem csv_seg_image_empty seg : csv_seg_image [] seg = (8, map (fun _ => 0) seg).
Proof. reflexivity. Qed.

Print Assumptions csv_seg_image_spec.
Print Assumptions bits_for_minimal.
