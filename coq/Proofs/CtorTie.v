(* Source tie for the CONSTRUCTION over a graph that already carries managed features.

   The definitions translated from the current funtracks sources (Gen/Ctor_gen.v, rewritten by
   harness/translate_ctor.py from annotators/_track_annotator.py and data_model/tracks.py) ARE the hand-written
   model of Model/EditCtor.v: Leibniz equality of the whole result -- value and state -- for all arguments.
   If the Python changes its behaviour the regenerated definition changes and an equality stops being provable.

     TrackAnnotator._get_max_id_and_map(key)            = Ok (scan_ids s key) s           no hypothesis
     TrackAnnotator.__init__, the bookkeeping part      = Ok tt (scan_books s)            no hypothesis
     Tracks._check_existing_feature(key)                = Ok (first_has s key) s          no hypothesis
     one round of the last loop of Tracks._setup_core_computed_features
                                                        = enable_features s [k] (negb (first_has s k)) ctrk clin
                                                          (value, error and state)        rp_canon s, reg_typed s
     the loop over a list ks                            = the same rounds chained by py_for ([ctor_loop]);
                                                          when it returns, its state is fold_left ctor_step ks s;
                                                          it returns when every key is manageable
   rp_canon / reg_typed are the two representation hypotheses of Proofs/ToggleTie.v (they are what its ties of
   activate_features / enable_features need; both are kept by every enable that returns, Proofs/ToggleTieInv.v).
   The model's [ctor_step] drops the error of a refused enable (`Err _ s => s`) where the Python propagates the
   KeyError out of the constructor: the loop tie therefore speaks about runs that return, and
   [gen_setup_core_loop_available] shows that the run returns whenever the keys are manageable -- which the keys the
   constructor visits are (they are read off the annotators; that first loop of _setup_core_computed_features is
   NOT translated, so [ctor_keys] is not tied here). *)
From Coq Require Import ZArith List Bool Lia.
From FT Require Import Base.Dict Model.Edit Model.Toggle Model.EditCtor Model.PyRt Model.PyRt3 Model.PyRt4 Model.PyRt8 Model.PyRt9
  Gen.Toggle_gen Proofs.DictLemmas Proofs.ToggleProofs Proofs.ToggleTie Proofs.ToggleTieInv.
From FT Require Import Gen.Ctor_gen.
Import ListNotations.
Open Scope Z_scope.

(* ================================================================== *)
(* 0. loops                                                            *)
(* ================================================================== *)
(* a loop whose body neither raises nor changes the state is a fold *)
Lemma py_for_pure {A B : Type} (l : list A) (h : B -> A -> B) (s : state) (f : A -> B -> state -> res B) :
  (forall x b, In x l -> f x b s = Ok (h b x) s) -> forall b, py_for l b s f = Ok (fold_left h l b) s.
Proof.
  induction l as [|x l IH]; intros H b; cbn [py_for fold_left]; [reflexivity|].
  rewrite (H x b (or_introl eq_refl)). cbn [bind]. apply IH. intros y b' Hy. apply H. now right.
Qed.
(* two bodies that agree on the states of an invariant the second one keeps *)
Lemma py_for_inv {A B : Type} (I : state -> Prop) (f f' : A -> B -> state -> res B) :
  (forall x b s, I s -> f x b s = f' x b s) ->
  (forall x b s b' s', I s -> f' x b s = Ok b' s' -> I s') ->
  forall l b s, I s -> py_for l b s f = py_for l b s f'.
Proof.
  intros E K. induction l as [|x l IH]; intros b s Hs; cbn [py_for]; [reflexivity|].
  rewrite (E x b s Hs). destruct (f' x b s) as [b' s'|e s'] eqn:R; cbn [bind]; [|reflexivity].
  apply IH. exact (K _ _ _ _ _ Hs R).
Qed.
Lemma ok_state {A} (a a' : A) s s' : Ok a s = Ok a' s' -> s = s'.
Proof. intros H. now injection H. Qed.
Lemma bind_ret (r : res unit) : bind r (fun _ s => Ok tt s) = r.
Proof. destruct r as [[] s|e s]; reflexivity. Qed.

(* ================================================================== *)
(* 1. TrackAnnotator._get_max_id_and_map                               *)
(* ================================================================== *)
Definition swap {A B} (p : A * B) : B * A := (snd p, fst p).
Lemma fold_swap {A B C} (h : A * B -> C -> A * B) (l : list C) : forall p : B * A,
  fold_left (fun q x => swap (h (swap q) x)) l p = swap (fold_left h l (swap p)).
Proof.
  induction l as [|x l IH]; intros [b a]; cbn [fold_left]; [reflexivity|].
  rewrite IH. f_equal. f_equal. unfold swap. cbn [fst snd]. destruct (h (a, b) x); reflexivity.
Qed.

Theorem gen_TrackAnnotator_get_max_id_and_map_eq : forall s key,
  gen_TrackAnnotator_get_max_id_and_map s key = Ok (scan_ids s key) s.
Proof.
  intros s key. unfold gen_TrackAnnotator_get_max_id_and_map. cbv zeta.
  rewrite (py_for_pure _ (fun q x => swap (scan_step s key (swap q) x))).
  - rewrite fold_swap. cbn [bind]. unfold swap. cbn [fst snd].
    change (Ok (fst (scan_ids s key), snd (scan_ids s key)) s = Ok (scan_ids s key) s).
    destruct (scan_ids s key) as [m d]. reflexivity.
  - intros x [d m] Hx. cbv zeta. unfold tracks_nodes in Hx. apply haskey_keys in Hx.
    unfold py_node_attr_get_z, has_node. rewrite Hx. cbn [bind].
    unfold scan_step, zattr, swap, dd_append. cbn [fst snd].
    destruct (attr s x key) as [[z|t|mk|i u|]|]; try reflexivity.
    destruct (Z.gtb_spec z m) as [G|G]; [rewrite Z.max_r by lia|rewrite Z.max_l by lia]; reflexivity.
Qed.

(* ================================================================== *)
(* 2. the bookkeeping part of TrackAnnotator.__init__                  *)
(* ================================================================== *)
Lemma scan_ids_g s s' key : g s' = g s -> scan_ids s' key = scan_ids s key.
Proof. intros E. unfold scan_ids, scan_step, attr, node_attrs. rewrite E. reflexivity. Qed.
Lemma no_nodes_scan s key : nodes (g s) = [] -> scan_ids s key = (0, []).
Proof. intros E. unfold scan_ids. rewrite E. reflexivity. Qed.

Theorem gen_TrackAnnotator_init_books_eq : forall s,
  gen_TrackAnnotator_init_books s = Ok tt (scan_books s).
Proof.
  intros s. unfold gen_TrackAnnotator_init_books. cbv zeta.
  unfold key_is_none. cbn [negb andb].
  change (nx_number_of_nodes (set_max_lin (set_max_trk (set_lin_book (set_trk_book s []) []) 0) 0)) with (nx_number_of_nodes s).
  destruct (nx_number_of_nodes s >? 0) eqn:N.
  - rewrite gen_TrackAnnotator_get_max_id_and_map_eq. cbn [bind].
    rewrite (scan_ids_g s) by reflexivity.
    destruct (scan_ids s KTrack) as [m d] eqn:T.
    match goal with |- context [nx_number_of_nodes ?x >? 0] => change (nx_number_of_nodes x) with (nx_number_of_nodes s) end.
    rewrite N.
    rewrite gen_TrackAnnotator_get_max_id_and_map_eq. cbn [bind].
    rewrite (scan_ids_g s) by reflexivity.
    destruct (scan_ids s KLin) as [m' d'] eqn:L.
    unfold scan_books. rewrite T, L. reflexivity.
  - assert (E : nodes (g s) = []).
    { unfold nx_number_of_nodes in N. destruct (nodes (g s)); [reflexivity|]. cbn in N. discriminate N. }
    unfold scan_books. rewrite !(no_nodes_scan s _ E). reflexivity.
Qed.

(* ================================================================== *)
(* 3. Tracks._check_existing_feature                                   *)
(* ================================================================== *)
Theorem gen_Tracks_check_existing_feature_eq : forall s key,
  gen_Tracks_check_existing_feature s key = Ok (first_has s key) s.
Proof.
  intros s key. unfold gen_Tracks_check_existing_feature, first_has. cbv zeta.
  unfold nx_number_of_nodes, nx_nodes, nx_node_view, has_node, node_attrs, py_next.
  destruct (nodes (g s)) as [|[n a] r] eqn:E; [reflexivity|].
  cbn [length keys map fst]. change (Z.of_nat (S (length r)) =? 0) with false. cbn [bind]. rewrite !E.
  unfold haskey at 1, getd. cbn [lookup]. rewrite Z.eqb_refl. cbn [bind].
  rewrite memz_py_set, memz_keys. reflexivity.
Qed.

(* ================================================================== *)
(* 4. the last loop of Tracks._setup_core_computed_features            *)
(* ================================================================== *)
Lemma register_set_flags f ks ks' on : register (set_flags f ks on) ks' = set_flags (register f ks') ks on.
Proof. reflexivity. Qed.

(* `if key not in self.features: feature, _ = self.annotators.all_features[key]; self.features[key] = feature`
   followed by `self.annotators.activate_features([key])` is enable_features([key], recompute=False): the
   registration comes first here and second there, and both refuse an unmanageable key with the state untouched *)
Lemma activate_existing s k ctrk clin (K : state -> res unit) :
  rp_canon s -> reg_typed s ->
  (forall s', K s' = (do _u, s'' <- gen_AnnotatorRegistry_activate_features s' [k]; Ok tt s'')) ->
  (if negb (haskey k (features_of s))
   then do t, s1 <- py_dict_get s k (gen_AnnotatorRegistry_all_features s);
        let '(fe, _) := t in K (put_features s1 (set k fe (features_of s1)))
   else K s) = enable_features s [k] false ctrk clin.
Proof.
  intros C T HK. unfold enable_features. cbn [forallb]. rewrite andb_true_r.
  destruct (memz k (available s)) eqn:Av; cbn [negb].
  - assert (Hin : In k (available s)) by now apply memz_true_In.
    pose proof (register_one s k Hin (T k Hin)) as R.
    destruct (haskey k (features_of s)) eqn:Hk; cbn [negb] in R |- *.
    + apply ok_state in R. assert (F : ft s = register (ft s) [k]) by (rewrite R at 1; apply ft_upd_ft).
      rewrite HK, gen_AnnotatorRegistry_activate_features_eq by exact C. cbn [forallb]. rewrite Av. cbn [andb negb bind].
      rewrite register_set_flags, <- F. reflexivity.
    + unfold py_dict_get in R |- *. destruct (lookup k (gen_AnnotatorRegistry_all_features s)) as [[fe b]|]; cbn [bind] in R |- *; [|discriminate R].
      apply ok_state in R. rewrite R, HK.
      rewrite gen_AnnotatorRegistry_activate_features_eq by exact C.
      change (available (upd_ft s (register (ft s) [k]))) with (available s). cbn [forallb]. rewrite Av. cbn [andb negb bind].
      rewrite upd_ft_upd_ft, ft_upd_ft, register_set_flags. reflexivity.
  - destruct (haskey k (features_of s)); cbn [negb].
    + rewrite HK, gen_AnnotatorRegistry_activate_features_eq by exact C. cbn [forallb]. rewrite Av. reflexivity.
    + pose proof (gen_AnnotatorRegistry_all_features_eq s k) as H. rewrite Av in H. unfold haskey in H. unfold py_dict_get.
      destruct (lookup k (gen_AnnotatorRegistry_all_features s)); [discriminate H|reflexivity].
Qed.

(* the model's round, as the Python runs it (an error leaves the loop) *)
Definition ctor_round (ctrk clin : list (list Z)) (k : Z) (_ : unit) (s : state) : res unit :=
  enable_features s [k] (negb (first_has s k)) ctrk clin.
Definition ctor_loop (s : state) (ks : list Z) (ctrk clin : list (list Z)) : res unit :=
  bind (py_for ks tt s (ctor_round ctrk clin)) (fun _ s => Ok tt s).

Definition repr (s : state) : Prop := rp_canon s /\ reg_typed s.
Lemma ctor_round_repr ctrk clin k u s u' s' : repr s -> ctor_round ctrk clin k u s = Ok u' s' -> repr s'.
Proof.
  intros [C T] E. unfold ctor_round in E. destruct u'. split.
  - eapply enable_gives_rp_canon; exact E.
  - eapply enable_keeps_reg_typed; [exact T|exact E].
Qed.

(* TIE: the loop, round by round *)
Theorem gen_Tracks_setup_core_loop_eq : forall s ks ctrk clin,
  rp_canon s -> reg_typed s ->
  gen_Tracks_setup_core_loop s ks ctrk clin = ctor_loop s ks ctrk clin.
Proof.
  intros s ks ctrk clin C T. unfold gen_Tracks_setup_core_loop, ctor_loop. f_equal.
  apply (py_for_inv repr); [| |split; assumption].
  - clear. intros k [] s [C T]. unfold ctor_round. cbv zeta.
    rewrite gen_Tracks_check_existing_feature_eq. cbn [bind].
    destruct (first_has s k); cbn [negb].
    + apply (activate_existing s k ctrk clin (fun s' => do _u, s'' <- gen_AnnotatorRegistry_activate_features s' [k]; Ok tt s'')); auto.
    + rewrite gen_Tracks_enable_features_eq by assumption. apply bind_ret.
  - intros k u s0 u' s' H. apply ctor_round_repr; exact H.
Qed.

(* a run that returns ends in the model's fold *)
Lemma ctor_rounds_fold ctrk clin : forall ks s s',
  py_for ks tt s (ctor_round ctrk clin) = Ok tt s' -> s' = fold_left (ctor_step ctrk clin) ks s.
Proof.
  induction ks as [|k ks IH]; intros s s' E; cbn [py_for fold_left] in *; [now injection E|].
  unfold ctor_round at 1 in E. unfold ctor_step at 2.
  destruct (enable_features s [k] (negb (first_has s k)) ctrk clin) as [[] s1|e s1]; cbn [bind] in E; [|discriminate E].
  apply IH. exact E.
Qed.
Theorem gen_Tracks_setup_core_loop_returns : forall s ks ctrk clin s',
  rp_canon s -> reg_typed s ->
  gen_Tracks_setup_core_loop s ks ctrk clin = Ok tt s' -> s' = fold_left (ctor_step ctrk clin) ks s.
Proof.
  intros s ks ctrk clin s' C T E. rewrite gen_Tracks_setup_core_loop_eq in E by assumption. unfold ctor_loop in E.
  destruct (py_for ks tt s (ctor_round ctrk clin)) as [[] s1|e s1] eqn:R; cbn [bind] in E; [|discriminate E].
  injection E as <-. eapply ctor_rounds_fold; exact R.
Qed.

(* ... and it returns when every key is manageable *)
Lemma enable_one_ok s k rc ctrk clin : memz k (available s) = true ->
  exists s1, enable_features s [k] rc ctrk clin = Ok tt s1 /\ available s1 = available s.
Proof.
  intros Av. destruct (enable_features s [k] rc ctrk clin) as [[] s1|e s1] eqn:E.
  - exists s1. split; [reflexivity|]. apply available_ft; rewrite (enable_ft _ _ _ _ _ _ E); reflexivity.
  - exfalso. unfold enable_features in E. cbn [forallb] in E. rewrite Av in E. cbn [andb negb] in E. destruct rc; discriminate E.
Qed.
Lemma ctor_rounds_available ctrk clin : forall ks s,
  forallb (fun k => memz k (available s)) ks = true ->
  py_for ks tt s (ctor_round ctrk clin) = Ok tt (fold_left (ctor_step ctrk clin) ks s).
Proof.
  induction ks as [|k ks IH]; intros s Av; cbn [py_for fold_left forallb] in *; [reflexivity|].
  apply andb_true_iff in Av. destruct Av as [Ak Aks].
  destruct (enable_one_ok s k (negb (first_has s k)) ctrk clin Ak) as (s1 & E & A1).
  unfold ctor_round at 1. unfold ctor_step at 2. rewrite E. cbn [bind]. apply IH. now rewrite A1.
Qed.
Theorem gen_Tracks_setup_core_loop_available : forall s ks ctrk clin,
  rp_canon s -> reg_typed s -> forallb (fun k => memz k (available s)) ks = true ->
  gen_Tracks_setup_core_loop s ks ctrk clin = Ok tt (fold_left (ctor_step ctrk clin) ks s).
Proof.
  intros s ks ctrk clin C T Av. rewrite gen_Tracks_setup_core_loop_eq by assumption. unfold ctor_loop.
  rewrite ctor_rounds_available by exact Av. reflexivity.
Qed.

(* ================================================================== *)
(* 5. the bundle                                                       *)
(* ================================================================== *)
Definition ctor_tie_statement : Prop :=
  (forall s key, gen_TrackAnnotator_get_max_id_and_map s key = Ok (scan_ids s key) s) /\
  (forall s, gen_TrackAnnotator_init_books s = Ok tt (scan_books s)) /\
  (forall s key, gen_Tracks_check_existing_feature s key = Ok (first_has s key) s) /\
  (forall s ks ctrk clin, rp_canon s -> reg_typed s ->
     gen_Tracks_setup_core_loop s ks ctrk clin =
     bind (py_for ks tt s (fun k _ s => enable_features s [k] (negb (first_has s k)) ctrk clin)) (fun _ s => Ok tt s)) /\
  (forall s ks ctrk clin s', rp_canon s -> reg_typed s ->
     gen_Tracks_setup_core_loop s ks ctrk clin = Ok tt s' -> s' = fold_left (ctor_step ctrk clin) ks s) /\
  (forall s ks ctrk clin, rp_canon s -> reg_typed s -> forallb (fun k => memz k (available s)) ks = true ->
     gen_Tracks_setup_core_loop s ks ctrk clin = Ok tt (fold_left (ctor_step ctrk clin) ks s)).

Theorem ctor_tie : ctor_tie_statement.
Proof.
  repeat split.
  - exact gen_TrackAnnotator_get_max_id_and_map_eq.
  - exact gen_TrackAnnotator_init_books_eq.
  - exact gen_Tracks_check_existing_feature_eq.
  - exact gen_Tracks_setup_core_loop_eq.
  - exact gen_Tracks_setup_core_loop_returns.
  - exact gen_Tracks_setup_core_loop_available.
Qed.

(* the hypotheses are not vacuous: the state a constructor starts from has them (no key registered under the
   other kind, rp_act in table order), e.g. the empty configuration *)
Example repr_initial : repr (st_of {| reg_node := []; reg_edge := []; pos_keys := [KPos]; rp_all := [KPos; KArea]; rp_act := [];
                                       iou_avail := true; iou_act := false; trk_act := false; lin_act := false |}).
Proof. split; [reflexivity|]. intros k _. cbn. destruct (is_edge_key k); intros []. Qed.

Print Assumptions gen_TrackAnnotator_get_max_id_and_map_eq.
Print Assumptions gen_TrackAnnotator_init_books_eq.
Print Assumptions gen_Tracks_check_existing_feature_eq.
Print Assumptions gen_Tracks_setup_core_loop_eq.
Print Assumptions gen_Tracks_setup_core_loop_returns.
Print Assumptions gen_Tracks_setup_core_loop_available.
Print Assumptions ctor_tie.
