(* Proofs about Model/NameMap.v (property C17).

   Main invariant carried through every step of the pipeline ([Inv]):
     - the columns used by the mapping so far, together with props_left, are a
       permutation of the source columns (nothing lost, nothing used twice);
     - the keys of the mapping are pairwise distinct;
     - no leftover column is spelled like an assigned key (so the final
       [mapping.update(custom)] overwrites nothing).
   Every step only ever writes a key that is not yet in the mapping ([ext]: existing
   bindings survive), which gives the exact-name rule. *)
From Coq Require Import ZArith List Bool Lia Permutation.
From FT Require Import Base.Dict Model.NameMap.
Import ListNotations.
Open Scope Z_scope.

(* ------------------------------------------------------------------ *)
(* association lists                                                   *)
(* ------------------------------------------------------------------ *)

Lemma lookup_set_same {V} k (v : V) d : lookup k (set k v d) = Some v.
Proof.
  induction d as [|[k' v'] r IH]; cbn [set lookup].
  - rewrite Z.eqb_refl. reflexivity.
  - destruct (Z.eqb_spec k k') as [E|E]; cbn [lookup].
    + rewrite Z.eqb_refl. reflexivity.
    + destruct (Z.eqb_spec k k'); [contradiction|exact IH].
Qed.

Lemma lookup_set_other {V} k1 k (v : V) d : k1 <> k -> lookup k1 (set k v d) = lookup k1 d.
Proof.
  intros Hne. induction d as [|[k' v'] r IH]; cbn [set lookup].
  - destruct (Z.eqb_spec k1 k); [contradiction|reflexivity].
  - destruct (Z.eqb_spec k k') as [E|E]; cbn [lookup].
    + subst k'. destruct (Z.eqb_spec k1 k); [contradiction|reflexivity].
    + destruct (Z.eqb_spec k1 k'); [reflexivity|exact IH].
Qed.

Lemma lookup_None_iff {V} k (d : dict V) : lookup k d = None <-> ~ In k (keys d).
Proof.
  induction d as [|[k' v'] r IH]; cbn [lookup keys map fst In].
  - tauto.
  - destruct (Z.eqb_spec k k') as [E|E].
    + split; [discriminate|]. intros H. exfalso. apply H. left. congruence.
    + unfold keys in IH. rewrite IH. split; [intros H [A|A]; [congruence|auto]|tauto].
Qed.

Lemma lookup_Some_In {V} k (v : V) d : lookup k d = Some v -> In (k, v) d.
Proof.
  induction d as [|[k' v'] r IH]; cbn [lookup In]; [discriminate|].
  destruct (Z.eqb_spec k k') as [E|E]; intros H.
  - left. congruence.
  - right. auto.
Qed.

Lemma In_keys_lookup {V} k (d : dict V) : In k (keys d) -> exists v, lookup k d = Some v.
Proof.
  intros H. destruct (lookup k d) as [v|] eqn:E; [eauto|].
  apply lookup_None_iff in E. contradiction.
Qed.

Lemma In_keys {V} k (v : V) d : In (k, v) d -> In k (keys d).
Proof. intros H. unfold keys. change k with (fst (k, v)). apply in_map. exact H. Qed.

Lemma haskey_true {V} k (d : dict V) : haskey k d = true -> In k (keys d).
Proof.
  unfold haskey. destruct (lookup k d) eqn:E; [|discriminate]. intros _.
  apply lookup_Some_In in E. eapply In_keys; eauto.
Qed.

Lemma haskey_false {V} k (d : dict V) : haskey k d = false -> lookup k d = None.
Proof. unfold haskey. destruct (lookup k d); [discriminate|reflexivity]. Qed.

Lemma set_fresh {V} k (v : V) d : lookup k d = None -> set k v d = d ++ [(k, v)].
Proof.
  induction d as [|[k' v'] r IH]; cbn [lookup set app]; [reflexivity|].
  destruct (Z.eqb_spec k k'); [discriminate|]. intros H. rewrite IH by exact H. reflexivity.
Qed.

Lemma keys_set {V} k (v : V) d : keys (set k v d) = if haskey k d then keys d else keys d ++ [k].
Proof.
  unfold haskey. induction d as [|[k' v'] r IH]; cbn [set lookup keys map fst app]; [reflexivity|].
  destruct (Z.eqb_spec k k') as [E|E]; cbn [keys map fst].
  - congruence.
  - unfold keys in IH. rewrite IH. destruct (lookup k r); reflexivity.
Qed.

Lemma keys_set_fresh {V} k (v : V) d : lookup k d = None -> keys (set k v d) = keys d ++ [k].
Proof. intros H. rewrite keys_set. unfold haskey. rewrite H. reflexivity. Qed.

Lemma keys_set_In {V} k (v : V) d x : In x (keys (set k v d)) -> In x (keys d) \/ x = k.
Proof.
  rewrite keys_set. destruct (haskey k d); [tauto|]. intros H. apply in_app_or in H.
  destruct H as [H|[H|[]]]; [left; exact H|right; congruence].
Qed.

Lemma In_set {V} k (v : V) d e : In e (set k v d) -> e = (k, v) \/ In e d.
Proof.
  induction d as [|[k' v'] r IH]; cbn [set In].
  - intros [H|[]]. left. congruence.
  - destruct (Z.eqb_spec k k'); cbn [In].
    + intros [H|H]; [left; congruence|right; right; exact H].
    + intros [H|H]; [right; left; exact H|]. destruct (IH H); [left|right; right]; assumption.
Qed.

Definition ext {V} (m m' : dict V) : Prop := forall k v, lookup k m = Some v -> lookup k m' = Some v.

Lemma ext_refl {V} (m : dict V) : ext m m.
Proof. intros k v H. exact H. Qed.

Lemma ext_trans {V} (a b c : dict V) : ext a b -> ext b c -> ext a c.
Proof. intros H1 H2 k v H. auto. Qed.

Lemma ext_set_fresh {V} k (v : V) m : lookup k m = None -> ext m (set k v m).
Proof.
  intros Hn k' v' H. destruct (Z.eq_dec k' k) as [->|Hne]; [congruence|].
  rewrite lookup_set_other by exact Hne. exact H.
Qed.

Lemma memz_In x l : memz x l = true <-> In x l.
Proof.
  unfold memz. rewrite existsb_exists. split.
  - intros (y & Hy & E). apply Z.eqb_eq in E. congruence.
  - intros H. exists x. split; [exact H|apply Z.eqb_refl].
Qed.

Lemma memz_false x l : memz x l = false -> ~ In x l.
Proof. intros H Hin. apply memz_In in Hin. congruence. Qed.

Lemma perm_remove1 x l : In x l -> Permutation (x :: remove1 x l) l.
Proof.
  induction l as [|y r IH]; cbn [In remove1]; [tauto|].
  destruct (Z.eqb_spec x y) as [->|Hne]; intros H.
  - apply Permutation_refl.
  - destruct H as [H|H]; [congruence|].
    eapply Permutation_trans; [apply perm_swap|]. apply perm_skip. apply IH. exact H.
Qed.

Lemma incl_remove1 x l : incl (remove1 x l) l.
Proof.
  induction l as [|y r IH]; cbn [remove1]; [apply incl_refl|].
  destruct (Z.eqb x y); [apply incl_tl, incl_refl|].
  intros z [H|H]; [left; exact H|right; apply IH; exact H].
Qed.

Lemma remove1_NoDup x l : NoDup l -> ~ In x (remove1 x l).
Proof.
  induction l as [|y r IH]; cbn [remove1]; [intros _ []|].
  intros Hnd. inversion Hnd as [|? ? Hy Hr]; subst.
  destruct (Z.eqb_spec x y) as [->|Hne]; [exact Hy|].
  intros [H|H]; [congruence|]. exact (IH Hr H).
Qed.

Lemma remove1_other x y l : In x l -> x <> y -> In x (remove1 y l).
Proof.
  induction l as [|z r IH]; cbn [In remove1]; [tauto|].
  intros H Hne. destruct (Z.eqb_spec y z) as [->|Hyz].
  - destruct H as [H|H]; [congruence|exact H].
  - destruct H as [H|H]; [left; exact H|right; apply IH; assumption].
Qed.

Lemma NoDup_app_intro {A} (a b : list A) :
  NoDup a -> NoDup b -> (forall x, In x a -> ~ In x b) -> NoDup (a ++ b).
Proof.
  induction a as [|x r IH]; cbn [app]; intros Ha Hb Hd; [exact Hb|].
  inversion Ha as [|? ? Hx Hr]; subst. constructor.
  - intros H. apply in_app_or in H. destruct H as [H|H]; [exact (Hx H)|].
    exact (Hd x (or_introl eq_refl) H).
  - apply IH; [exact Hr|exact Hb|]. intros y Hy. apply Hd. right. exact Hy.
Qed.

Lemma NoDup_app_r {A} (a b : list A) : NoDup (a ++ b) -> NoDup b.
Proof.
  induction a as [|x r IH]; cbn [app]; intros H; [exact H|].
  inversion H; subst. apply IH. assumption.
Qed.

Lemma NoDup_snoc {A} (l : list A) x : NoDup l -> ~ In x l -> NoDup (l ++ [x]).
Proof.
  intros Hl Hx. apply NoDup_app_intro; [exact Hl|repeat constructor; intros []|].
  intros y Hy [E|[]]. subst. exact (Hx Hy).
Qed.

(* a loop of fresh [set]s is an append *)
Lemma fold_set_fresh {A V} (g : A -> Z) (h : A -> V) : forall (l : list A) (acc : dict V),
  NoDup (map g l) -> (forall a, In a l -> ~ In (g a) (keys acc)) ->
  fold_left (fun acc a => set (g a) (h a) acc) l acc = acc ++ map (fun a => (g a, h a)) l.
Proof.
  induction l as [|a r IH]; intros acc Hnd Hfr; cbn [fold_left map].
  - rewrite app_nil_r. reflexivity.
  - cbn [map] in Hnd. inversion Hnd as [|? ? Ha Hr]; subst.
    rewrite set_fresh by (apply lookup_None_iff; apply Hfr; left; reflexivity).
    rewrite IH; [rewrite <- app_assoc; reflexivity|exact Hr|].
    intros b Hb Hin. unfold keys in Hin. rewrite map_app in Hin. apply in_app_or in Hin.
    destruct Hin as [Hin|[Hin|[]]].
    + exact (Hfr b (or_intror Hb) Hin).
    + cbn [fst] in Hin. apply Ha. rewrite Hin. apply in_map. exact Hb.
Qed.

(* ------------------------------------------------------------------ *)
(* used columns                                                        *)
(* ------------------------------------------------------------------ *)

Lemma used_app m m' : used (m ++ m') = used m ++ used m'.
Proof. unfold used. apply flat_map_app. Qed.

Lemma used_set_fresh k v m : lookup k m = None -> used (set k v m) = used m ++ used_v v.
Proof.
  intros H. rewrite set_fresh by exact H. rewrite used_app. unfold used at 2. cbn [flat_map snd].
  rewrite app_nil_r. reflexivity.
Qed.

Lemma used_self l : used (map (fun p => (p, Single p)) l) = l.
Proof. induction l as [|x r IH]; cbn; [reflexivity|]. unfold used in IH. rewrite IH. reflexivity. Qed.

Lemma keys_self l : keys (map (fun p : Z => (p, Single p)) l) = l.
Proof. unfold keys. rewrite map_map. cbn [fst]. apply map_id. Qed.

(* ------------------------------------------------------------------ *)
(* the oracles                                                         *)
(* ------------------------------------------------------------------ *)

(* the contract of difflib.get_close_matches: an answer is one of the candidates *)
Definition closest_sound (closest : Z -> list Z -> option Z) : Prop :=
  forall q cands c, closest q cands = Some c -> In c cands.

(* a finite oracle table whose answers are among its candidates satisfies the contract *)
Lemma zlist_eqb_eq : forall a b, zlist_eqb a b = true -> a = b.
Proof.
  induction a as [|x r IH]; intros [|y s] H; cbn [zlist_eqb] in H; try discriminate; [reflexivity|].
  apply andb_prop in H. destruct H as [H1 H2]. apply Z.eqb_eq in H1. rewrite (IH _ H2). congruence.
Qed.

Lemma tbl_closest_sound t : tbl_sound t = true -> closest_sound (tbl_closest t).
Proof.
  intros H q cands c E. unfold tbl_closest in E.
  destruct (find _ t) as [e|] eqn:F; [|discriminate].
  apply find_some in F. destruct F as [Hin Hb]. apply andb_prop in Hb. destruct Hb as [_ Hb].
  apply zlist_eqb_eq in Hb. unfold tbl_sound in H. rewrite forallb_forall in H. specialize (H e Hin).
  rewrite E in H. rewrite <- Hb. apply memz_In. exact H.
Qed.

Section WithOracles.
Variable lower : Z -> Z.
Variable closest : Z -> list Z -> option Z.

Lemma lower_map_aux : forall l acc c p,
  lookup c (fold_left (fun a p => set (lower p) p a) l acc) = Some p -> In p l \/ lookup c acc = Some p.
Proof.
  induction l as [|x r IH]; intros acc c p H; cbn [fold_left] in H; [right; exact H|].
  destruct (IH _ _ _ H) as [Hin|Hl]; [left; right; exact Hin|].
  destruct (Z.eq_dec c (lower x)) as [->|Hne].
  - rewrite lookup_set_same in Hl. left. left. congruence.
  - rewrite lookup_set_other in Hl by exact Hne. right. exact Hl.
Qed.

Lemma lower_map_In pl c p : lookup c (lower_map lower pl) = Some p -> In p pl.
Proof. intros H. destruct (lower_map_aux _ _ _ _ H) as [Hin|Hl]; [exact Hin|discriminate]. Qed.

Lemma ldm_aux : forall (l : dict (Z * Z)) (acc : dict (Z * Z * Z)) c d fk idx,
  lookup c (fold_left (fun acc e => set (lower (fst e)) (fst e, fst (snd e), snd (snd e)) acc) l acc) = Some (d, fk, idx) ->
  In (d, (fk, idx)) l \/ lookup c acc = Some (d, fk, idx).
Proof.
  induction l as [|[n [k i]] r IH]; intros acc c d fk idx H; cbn [fold_left] in H; [right; exact H|].
  destruct (IH _ _ _ _ _ H) as [Hin|Hl]; [left; right; exact Hin|]. cbn [fst snd] in Hl.
  destruct (Z.eq_dec c (lower n)) as [->|Hne].
  - rewrite lookup_set_same in Hl. left. left. congruence.
  - rewrite lookup_set_other in Hl by exact Hne. right. exact Hl.
Qed.

Lemma ldm_In d2k c d fk idx :
  lookup c (lower_display_map lower d2k) = Some (d, fk, idx) -> In (d, (fk, idx)) d2k.
Proof. intros H. destruct (ldm_aux _ _ _ _ _ _ H) as [Hin|Hl]; [exact Hin|discriminate]. Qed.

(* Under the oracle's contract the two "KeyError" branches of the model are never taken. *)
Lemma fuzzy_lookup_reachable : closest_sound closest ->
  forall q pl c, closest q (keys (lower_map lower pl)) = Some c -> lookup c (lower_map lower pl) <> None.
Proof.
  intros Hs q pl c H. apply Hs in H. destruct (In_keys_lookup _ _ H) as [v E]. congruence.
Qed.

Lemma fuzzy_display_lookup_reachable : closest_sound closest ->
  forall q d2k c, closest q (keys (lower_display_map lower d2k)) = Some c ->
  lookup c (lower_display_map lower d2k) <> None.
Proof.
  intros Hs q d2k c H. apply Hs in H. destruct (In_keys_lookup _ _ H) as [v E]. congruence.
Qed.

(* ------------------------------------------------------------------ *)
(* the invariant of the pipeline                                       *)
(* ------------------------------------------------------------------ *)

Variable cols : list Z.
Hypothesis cols_nodup : NoDup cols.

Definition Inv (pl : list Z) (m : mapping) : Prop :=
  Permutation (used m ++ pl) cols /\ NoDup (keys m) /\ (forall k, In k (keys m) -> ~ In k pl).

Lemma Inv_NoDup_pl pl m : Inv pl m -> NoDup pl.
Proof.
  intros (Hp & _ & _). apply (NoDup_app_r (used m)).
  eapply Permutation_NoDup; [apply Permutation_sym; exact Hp|exact cols_nodup].
Qed.

Lemma Inv_incl_cols pl m : Inv pl m -> incl pl cols.
Proof.
  intros (Hp & _ & _) x Hx. eapply Permutation_in; [exact Hp|]. apply in_or_app. right. exact Hx.
Qed.

(* mapping[k] = c; props_left.remove(c)   for a key not yet in the mapping *)
Lemma Inv_assign pl m k c :
  Inv pl m -> lookup k m = None -> In c pl -> (k = c \/ ~ In k pl) ->
  Inv (remove1 c pl) (set k (Single c) m).
Proof.
  intros HI Hn Hc Hor. pose proof (Inv_NoDup_pl _ _ HI) as Hndpl.
  destruct HI as (Hp & Hk & Hj). split; [|split].
  - rewrite used_set_fresh by exact Hn. cbn [used_v]. rewrite <- app_assoc. cbn [app].
    eapply Permutation_trans; [|exact Hp]. apply Permutation_app_head. apply perm_remove1. exact Hc.
  - rewrite keys_set_fresh by exact Hn. apply NoDup_snoc; [exact Hk|]. apply lookup_None_iff. exact Hn.
  - intros k' Hk' Hin. rewrite keys_set_fresh in Hk' by exact Hn. apply in_app_or in Hk'.
    destruct Hk' as [Hk'|[Hk'|[]]].
    + apply (Hj k' Hk'). apply (incl_remove1 c pl). exact Hin.
    + subst k'. destruct Hor as [->|Hnot].
      * exact (remove1_NoDup _ _ Hndpl Hin).
      * apply Hnot. apply (incl_remove1 c pl). exact Hin.
Qed.

(* ------------------------------------------------------------------ *)
(* _match_exact                                                        *)
(* ------------------------------------------------------------------ *)

Lemma match_exact_ok : forall fields pl m pl' m',
  Inv pl m -> match_exact fields pl m = (pl', m') ->
  Inv pl' m' /\ incl pl' pl /\ ext m m' /\
  (forall f, In f fields -> ~ In f pl') /\
  (forall f, In f fields -> In f pl -> lookup f m = None -> lookup f m' = Some (Single f)).
Proof.
  induction fields as [|f0 r IH]; intros pl m pl' m' HI E; cbn [match_exact] in E.
  - injection E as <- <-. repeat split; try exact (proj1 HI); try apply HI; try apply incl_refl; try apply ext_refl;
      intros f [].
  - destruct (haskey f0 m) eqn:Hh.
    + destruct (IH _ _ _ _ HI E) as (A & B & C & D & F). repeat split; try apply A; try assumption.
      * intros f [<-|Hf]; [|exact (D f Hf)].
        intros Hin. apply haskey_true in Hh. destruct HI as (_ & _ & Hj). exact (Hj _ Hh (B _ Hin)).
      * intros f [<-|Hf] Hin Hn; [|exact (F f Hf Hin Hn)].
        unfold haskey in Hh. rewrite Hn in Hh. discriminate.
    + apply haskey_false in Hh. destruct (memz f0 pl) eqn:Hm.
      * apply memz_In in Hm.
        assert (Inv (remove1 f0 pl) (set f0 (Single f0) m)) as HI'
          by (apply Inv_assign; [exact HI|exact Hh|exact Hm|left; reflexivity]).
        destruct (IH _ _ _ _ HI' E) as (A & B & C & D & F). repeat split; try apply A.
        -- intros x Hx. apply (incl_remove1 f0 pl). apply B. exact Hx.
        -- eapply ext_trans; [apply ext_set_fresh; exact Hh|exact C].
        -- intros f [<-|Hf]; [|exact (D f Hf)]. intros Hin.
           exact (remove1_NoDup _ _ (Inv_NoDup_pl _ _ HI) (B _ Hin)).
        -- intros f Hf Hin Hn. destruct (Z.eq_dec f f0) as [->|Hne].
           ++ apply C. apply lookup_set_same.
           ++ destruct Hf as [Hf|Hf]; [congruence|]. apply (F f Hf).
              ** apply remove1_other; assumption.
              ** rewrite lookup_set_other by exact Hne. exact Hn.
      * apply memz_false in Hm.
        destruct (IH _ _ _ _ HI E) as (A & B & C & D & F). repeat split; try apply A; try assumption.
        -- intros f [<-|Hf]; [|exact (D f Hf)]. intros Hin. exact (Hm (B _ Hin)).
        -- intros f [<-|Hf] Hin Hn; [contradiction|exact (F f Hf Hin Hn)].
Qed.

(* ------------------------------------------------------------------ *)
(* _match_fuzzy                                                        *)
(* ------------------------------------------------------------------ *)

Lemma match_fuzzy_ok : forall fields pl m pl' m',
  Inv pl m -> (forall f, In f fields -> ~ In f pl) -> match_fuzzy lower closest fields pl m = (pl', m') ->
  Inv pl' m' /\ incl pl' pl /\ ext m m'.
Proof.
  induction fields as [|f0 r IH]; intros pl m pl' m' HI Hf E; cbn [match_fuzzy] in E.
  - injection E as <- <-. split; [exact HI|split; [apply incl_refl|apply ext_refl]].
  - assert (forall f, In f r -> ~ In f pl) as Hr by (intros f H; apply Hf; right; exact H).
    destruct (haskey f0 m) eqn:Hh; [exact (IH _ _ _ _ HI Hr E)|]. apply haskey_false in Hh.
    destruct pl as [|p0 pt]; [injection E as <- <-; split; [exact HI|split; [apply incl_refl|apply ext_refl]]|].
    set (pl := p0 :: pt) in *.
    destruct (closest (lower f0) (keys (lower_map lower pl))) as [c|]; [|exact (IH _ _ _ _ HI Hr E)].
    destruct (lookup c (lower_map lower pl)) as [best|] eqn:Hl; [|exact (IH _ _ _ _ HI Hr E)].
    apply lower_map_In in Hl.
    assert (Inv (remove1 best pl) (set f0 (Single best) m)) as HI'
      by (apply Inv_assign; [exact HI|exact Hh|exact Hl|right; apply Hf; left; reflexivity]).
    assert (forall f, In f r -> ~ In f (remove1 best pl)) as Hr'
      by (intros f H Hin; apply (Hr f H); apply (incl_remove1 best pl); exact Hin).
    destruct (IH _ _ _ _ HI' Hr' E) as (A & B & C). split; [exact A|split].
    + intros x Hx. apply (incl_remove1 best pl). apply B. exact Hx.
    + eapply ext_trans; [apply ext_set_fresh; exact Hh|exact C].
Qed.

(* ------------------------------------------------------------------ *)
(* the display-name loops                                              *)
(* ------------------------------------------------------------------ *)

Definition used_mv (mv : dict (dict Z)) : list Z := flat_map (fun e => map snd (snd e)) mv.

(* a feature key with two different indices among the display names *)
Definition multi_key (d2k : dict (Z * Z)) (fk : Z) : Prop :=
  exists n1 i1 n2 i2, In (n1, (fk, i1)) d2k /\ In (n2, (fk, i2)) d2k /\ i1 <> i2.

(* no column still available is spelled like a feature key of the display-name table *)
Definition Hfk (d2k : dict (Z * Z)) (pl : list Z) : Prop := forall n k i, In (n, (k, i)) d2k -> ~ In k pl.

Definition InvD (d2k : dict (Z * Z)) (st : dstate) : Prop :=
  Permutation (used (d_m st) ++ used_mv (d_mv st) ++ d_pl st) cols /\
  NoDup (keys (d_m st)) /\ NoDup (keys (d_mv st)) /\
  (forall k, In k (keys (d_m st)) -> ~ In k (d_pl st)) /\
  (forall k, In k (keys (d_mv st)) -> lookup k (d_m st) = None) /\
  (forall k, In k (keys (d_mv st)) -> multi_key d2k k).

Lemma is_multi_true d2k fk idx : is_multi d2k fk idx = true -> exists n i, In (n, (fk, i)) d2k /\ i <> idx.
Proof.
  unfold is_multi. rewrite existsb_exists. intros ([n [k i]] & Hin & H). cbn [fst snd] in H.
  apply andb_prop in H. destruct H as [H1 H2]. apply Z.eqb_eq in H1. subst k.
  apply negb_true_iff in H2. apply Z.eqb_neq in H2. eauto.
Qed.

Lemma is_multi_false d2k fk idx n i : is_multi d2k fk idx = false -> In (n, (fk, i)) d2k -> i = idx.
Proof.
  intros Hf Hin. destruct (Z.eq_dec i idx) as [E|Hne]; [exact E|]. exfalso.
  assert (is_multi d2k fk idx = true) as Ht.
  { unfold is_multi. rewrite existsb_exists. exists (n, (fk, i)). split; [exact Hin|]. cbn [fst snd].
    rewrite Z.eqb_refl. cbn [andb]. apply negb_true_iff. apply Z.eqb_neq. exact Hne. }
  congruence.
Qed.

(* whether a feature key counts as multi-value does not depend on the index *)
Lemma multi_key_is_multi d2k fk idx : multi_key d2k fk -> is_multi d2k fk idx = true.
Proof.
  intros (n1 & i1 & n2 & i2 & H1 & H2 & Hne). destruct (is_multi d2k fk idx) eqn:E; [reflexivity|].
  pose proof (is_multi_false _ _ _ _ _ E H1). pose proof (is_multi_false _ _ _ _ _ E H2). congruence.
Qed.

Lemma getd_cons_eq {V} k (v : V) r dflt : getd k ((k, v) :: r) dflt = v.
Proof. unfold getd. cbn [lookup]. rewrite Z.eqb_refl. reflexivity. Qed.

Lemma getd_cons_ne {V} k k' (v : V) r dflt : k <> k' -> getd k ((k', v) :: r) dflt = getd k r dflt.
Proof. intros H. unfold getd. cbn [lookup]. destruct (Z.eqb_spec k k'); [contradiction|reflexivity]. Qed.

Lemma used_mv_add fk idx prop : forall mv,
  Permutation (used_mv (set fk (getd fk mv [] ++ [(idx, prop)]) mv)) (prop :: used_mv mv).
Proof.
  induction mv as [|[k' d'] r IH].
  - cbn. apply Permutation_refl.
  - cbn [set]. destruct (Z.eqb_spec fk k') as [<-|Hne].
    + rewrite getd_cons_eq. unfold used_mv. cbn [flat_map snd]. rewrite map_app. cbn [map snd].
      rewrite <- app_assoc. cbn [app]. apply Permutation_sym. apply Permutation_middle.
    + rewrite getd_cons_ne by exact Hne. unfold used_mv in *. cbn [flat_map snd].
      eapply Permutation_trans; [apply Permutation_app_head; exact IH|].
      apply Permutation_sym. apply Permutation_middle.
Qed.

Lemma disp_assign_ok d2k prop fk idx n st :
  InvD d2k st -> Hfk d2k (d_pl st) -> In prop (d_pl st) -> In (n, (fk, idx)) d2k ->
  let st' := disp_assign d2k prop fk idx st in
  InvD d2k st' /\ incl (d_pl st') (d_pl st) /\ ext (d_m st) (d_m st') /\
  (forall x, In x (d_pl st) -> x <> prop -> In x (d_pl st')).
Proof.
  intros HI HF Hprop Hent st'. unfold st', disp_assign.
  destruct (assigned fk idx st) eqn:Ha.
  { split; [exact HI|split; [apply incl_refl|split; [apply ext_refl|intros; assumption]]]. }
  unfold assigned in Ha. apply orb_false_iff in Ha. destruct Ha as [Ha1 Ha2].
  apply haskey_false in Ha1. apply haskey_false in Ha2.
  destruct HI as (Hp & Hkm & Hkv & Hj & Hdis & Hmk).
  assert (Permutation (prop :: remove1 prop (d_pl st)) (d_pl st)) as Hrem by (apply perm_remove1; exact Hprop).
  destruct (is_multi d2k fk idx) eqn:Hm; unfold InvD; cbn [d_pl d_m d_mv].
  - (* multi-value: recorded in multi_value_matches *)
    rewrite (set_fresh idx prop _ Ha2).
    split; [|split; [apply incl_remove1|split; [apply ext_refl|intros; apply remove1_other; assumption]]].
    split; [|split; [exact Hkm|split; [|split; [|split]]]].
    + eapply Permutation_trans; [|exact Hp]. apply Permutation_app_head.
      eapply Permutation_trans; [apply Permutation_app_tail; apply used_mv_add|]. cbn [app].
      eapply Permutation_trans; [apply Permutation_middle|]. apply Permutation_app_head. exact Hrem.
    + rewrite keys_set. destruct (haskey fk (d_mv st)) eqn:Hh; [exact Hkv|].
      apply NoDup_snoc; [exact Hkv|]. apply lookup_None_iff. apply haskey_false. exact Hh.
    + intros k Hk Hin. apply (Hj k Hk). apply (incl_remove1 prop). exact Hin.
    + intros k Hk. apply keys_set_In in Hk. destruct Hk as [Hk| ->]; [exact (Hdis k Hk)|exact Ha1].
    + intros k Hk. apply keys_set_In in Hk. destruct Hk as [Hk| ->]; [exact (Hmk k Hk)|].
      destruct (is_multi_true _ _ _ Hm) as (n2 & i2 & Hin2 & Hne).
      exists n, idx, n2, i2. split; [exact Hent|split; [exact Hin2|congruence]].
  - (* single-value: written to the mapping *)
    split; [|split; [apply incl_remove1|split; [apply ext_set_fresh; exact Ha1|intros; apply remove1_other; assumption]]].
    split; [|split; [|split; [exact Hkv|split; [|split; [|exact Hmk]]]]].
    + rewrite used_set_fresh by exact Ha1. cbn [used_v]. rewrite <- app_assoc.
      eapply Permutation_trans; [|exact Hp]. apply Permutation_app_head. cbn [app].
      eapply Permutation_trans; [apply Permutation_middle|]. apply Permutation_app_head. exact Hrem.
    + rewrite keys_set_fresh by exact Ha1. apply NoDup_snoc; [exact Hkm|]. apply lookup_None_iff. exact Ha1.
    + intros k Hk Hin. rewrite keys_set_fresh in Hk by exact Ha1. apply in_app_or in Hk.
      assert (In k (d_pl st)) as Hin' by (apply (incl_remove1 prop); exact Hin).
      destruct Hk as [Hk|[Hk|[]]]; [exact (Hj k Hk Hin')|]. subst k. exact (HF _ _ _ Hent Hin').
    + intros k Hk. assert (k <> fk) as Hne.
      { intros ->. pose proof (multi_key_is_multi _ _ idx (Hmk _ Hk)). congruence. }
      rewrite lookup_set_other by exact Hne. exact (Hdis k Hk).
Qed.

Lemma Hfk_incl d2k pl pl' : Hfk d2k pl -> incl pl' pl -> Hfk d2k pl'.
Proof. intros H Hi n k i Hin Hk. exact (H n k i Hin (Hi _ Hk)). Qed.

Lemma exact_loop_ok d2k : forall todo st,
  NoDup todo -> incl todo (d_pl st) -> InvD d2k st -> Hfk d2k (d_pl st) ->
  let st' := fold_left (disp_exact_step d2k) todo st in
  InvD d2k st' /\ incl (d_pl st') (d_pl st) /\ ext (d_m st) (d_m st').
Proof.
  induction todo as [|p r IH]; intros st Hnd Hincl HI HF; cbn [fold_left].
  - split; [exact HI|split; [apply incl_refl|apply ext_refl]].
  - inversion Hnd as [|? ? Hp Hr]; subst.
    assert (InvD d2k (disp_exact_step d2k st p) /\ incl (d_pl (disp_exact_step d2k st p)) (d_pl st) /\
            ext (d_m st) (d_m (disp_exact_step d2k st p)) /\
            (forall x, In x (d_pl st) -> x <> p -> In x (d_pl (disp_exact_step d2k st p)))) as (A & B & C & D).
    { unfold disp_exact_step. destruct (lookup p d2k) as [[fk idx]|] eqn:El.
      - apply (disp_assign_ok d2k p fk idx p st HI HF); [apply Hincl; left; reflexivity|].
        apply lookup_Some_In. exact El.
      - split; [exact HI|split; [apply incl_refl|split; [apply ext_refl|intros; assumption]]]. }
    destruct (IH (disp_exact_step d2k st p) Hr) as (A' & B' & C').
    + intros x Hx. apply D; [apply Hincl; right; exact Hx|]. intros ->. exact (Hp Hx).
    + exact A.
    + exact (Hfk_incl _ _ _ HF B).
    + split; [exact A'|split; [eapply incl_tran; eassumption|eapply ext_trans; eassumption]].
Qed.

Lemma fuzzy_loop_ok d2k : forall todo st,
  InvD d2k st -> Hfk d2k (d_pl st) ->
  let st' := fold_left (disp_fuzzy_step lower closest d2k (lower_display_map lower d2k)) todo st in
  InvD d2k st' /\ incl (d_pl st') (d_pl st) /\ ext (d_m st) (d_m st').
Proof.
  induction todo as [|p r IH]; intros st HI HF; cbn [fold_left].
  - split; [exact HI|split; [apply incl_refl|apply ext_refl]].
  - set (st1 := disp_fuzzy_step lower closest d2k (lower_display_map lower d2k) st p).
    assert (InvD d2k st1 /\ incl (d_pl st1) (d_pl st) /\ ext (d_m st) (d_m st1)) as (A & B & C).
    { unfold st1, disp_fuzzy_step. destruct (memz p (d_pl st)) eqn:Hm; cbn [negb];
        [|split; [exact HI|split; [apply incl_refl|apply ext_refl]]].
      apply memz_In in Hm.
      destruct (closest (lower p) (keys (lower_display_map lower d2k))) as [c|];
        [|split; [exact HI|split; [apply incl_refl|apply ext_refl]]].
      destruct (lookup c (lower_display_map lower d2k)) as [[[d fk] idx]|] eqn:El;
        [|split; [exact HI|split; [apply incl_refl|apply ext_refl]]].
      apply ldm_In in El.
      destruct (disp_assign_ok d2k p fk idx d st HI HF Hm El) as (A & B & C & _). auto. }
    destruct (IH st1 A (Hfk_incl _ _ _ HF B)) as (A' & B' & C').
    split; [exact A'|split; [eapply incl_tran; eassumption|eapply ext_trans; eassumption]].
Qed.

Lemma ins_perm e : forall l, Permutation (ins e l) (e :: l).
Proof.
  induction l as [|x r IH]; cbn [ins]; [apply Permutation_refl|].
  destruct (fst e <=? fst x); [apply Permutation_refl|].
  eapply Permutation_trans; [apply perm_skip; exact IH|apply perm_swap].
Qed.

Lemma sort_items_perm : forall l, Permutation (sort_items l) l.
Proof.
  induction l as [|x r IH]; cbn [sort_items fold_right]; [apply Permutation_refl|].
  eapply Permutation_trans; [apply ins_perm|]. apply perm_skip. exact IH.
Qed.

Lemma finalize_ok : forall mv m,
  NoDup (keys mv) -> (forall k, In k (keys mv) -> lookup k m = None) -> NoDup (keys m) ->
  Permutation (used (finalize mv m)) (used m ++ used_mv mv) /\ NoDup (keys (finalize mv m)) /\
  ext m (finalize mv m) /\
  (forall k, In k (keys (finalize mv m)) -> In k (keys m) \/ In k (keys mv)).
Proof.
  unfold finalize.
  induction mv as [|[fk d] r IH]; intros m Hnd Hdis Hkm; cbn [fold_left].
  - cbn. rewrite app_nil_r. split; [apply Permutation_refl|split; [exact Hkm|split; [apply ext_refl|tauto]]].
  - cbn [keys map fst] in Hnd. inversion Hnd as [|? ? Hfk' Hr]; subst. cbn [snd fst].
    assert (lookup fk m = None) as Hn by (apply Hdis; left; reflexivity).
    destruct d as [|e0 d0].
    + destruct (IH m Hr) as (A & B & C & D); [intros k Hk; apply Hdis; right; exact Hk|exact Hkm|].
      split; [exact A|split; [exact B|split; [exact C|]]].
      intros k Hk. destruct (D k Hk); [left|right; right]; assumption.
    + set (v := Multi (map snd (sort_items (e0 :: d0)))).
      destruct (IH (set fk v m) Hr) as (A & B & C & D).
      * intros k Hk. assert (k <> fk) as Hne by (intros ->; exact (Hfk' Hk)).
        rewrite lookup_set_other by exact Hne. apply Hdis. right. exact Hk.
      * rewrite keys_set_fresh by exact Hn. apply NoDup_snoc; [exact Hkm|]. apply lookup_None_iff. exact Hn.
      * split; [|split; [exact B|split; [eapply ext_trans; [apply ext_set_fresh; exact Hn|exact C]|]]].
        -- eapply Permutation_trans; [exact A|]. rewrite used_set_fresh by exact Hn.
           rewrite <- app_assoc. apply Permutation_app_head. unfold used_mv. cbn [flat_map snd].
           apply Permutation_app_tail. unfold v. cbn [used_v]. apply Permutation_map. apply sort_items_perm.
        -- intros k Hk. destruct (D k Hk) as [H|H]; [|right; right; exact H].
           apply keys_set_In in H. destruct H as [H| ->]; [left; exact H|right; left; reflexivity].
Qed.

Lemma InvD_init d2k pl m : Inv pl m -> InvD d2k {| d_pl := pl; d_m := m; d_mv := [] |}.
Proof.
  intros (Hp & Hk & Hj). unfold InvD. cbn [d_pl d_m d_mv]. split; [exact Hp|].
  split; [exact Hk|split; [constructor|split; [exact Hj|split; intros k []]]].
Qed.

Lemma InvD_finalize d2k st : InvD d2k st -> Hfk d2k (d_pl st) ->
  Inv (d_pl st) (finalize (d_mv st) (d_m st)) /\ ext (d_m st) (finalize (d_mv st) (d_m st)).
Proof.
  intros (Hp & Hkm & Hkv & Hj & Hdis & Hmk) HF.
  destruct (finalize_ok (d_mv st) (d_m st) Hkv Hdis Hkm) as (A & B & C & D).
  split; [|exact C]. split; [|split; [exact B|]].
  - eapply Permutation_trans; [apply Permutation_app_tail; exact A|]. rewrite <- app_assoc. exact Hp.
  - intros k Hk. destruct (D k Hk) as [H|H]; [exact (Hj k H)|].
    destruct (Hmk k H) as (n1 & i1 & _ & _ & H1 & _). exact (HF _ _ _ H1).
Qed.

Lemma display_exact_ok d2k pl m pl' m' :
  Inv pl m -> Hfk d2k pl -> match_display_exact pl d2k m = (pl', m') ->
  Inv pl' m' /\ incl pl' pl /\ ext m m'.
Proof.
  intros HI HF E. unfold match_display_exact in E. injection E as <- <-.
  set (st0 := {| d_pl := pl; d_m := m; d_mv := [] |}).
  destruct (exact_loop_ok d2k pl st0 (Inv_NoDup_pl _ _ HI) (incl_refl _) (InvD_init d2k _ _ HI) HF) as (A & B & C).
  destruct (InvD_finalize d2k _ A (Hfk_incl _ _ _ HF B)) as (A' & C').
  split; [exact A'|split; [exact B|eapply ext_trans; eassumption]].
Qed.

Lemma display_fuzzy_ok d2k pl m pl' m' :
  Inv pl m -> Hfk d2k pl -> match_display_fuzzy lower closest pl d2k m = (pl', m') ->
  Inv pl' m' /\ incl pl' pl /\ ext m m'.
Proof.
  intros HI HF E. unfold match_display_fuzzy in E.
  destruct pl as [|p0 pt]; [injection E as <- <-; split; [exact HI|split; [apply incl_refl|apply ext_refl]]|].
  set (pl := p0 :: pt) in *. injection E as <- <-.
  set (st0 := {| d_pl := pl; d_m := m; d_mv := [] |}).
  destruct (fuzzy_loop_ok d2k pl st0 (InvD_init d2k _ _ HI) HF) as (A & B & C).
  destruct (InvD_finalize d2k _ A (Hfk_incl _ _ _ HF B)) as (A' & C').
  split; [exact A'|split; [exact B|eapply ext_trans; eassumption]].
Qed.

(* ------------------------------------------------------------------ *)
(* Step 5: mapping.update({prop: prop for prop in props_left})         *)
(* ------------------------------------------------------------------ *)

Lemma final_update_ok pl m : Inv pl m ->
  let r := update m (map_remaining_to_self pl) in
  Permutation (used r) cols /\ NoDup (keys r) /\ ext m r.
Proof.
  intros HI r. pose proof (Inv_NoDup_pl _ _ HI) as Hndpl. destruct HI as (Hp & Hk & Hj).
  assert (map_remaining_to_self pl = map (fun p => (p, Single p)) pl) as E1.
  { unfold map_remaining_to_self.
    rewrite (fold_set_fresh (fun p : Z => p) Single pl []); [reflexivity|rewrite map_id; exact Hndpl|intros a _ []]. }
  assert (r = m ++ map (fun p => (p, Single p)) pl) as E2.
  { unfold r, update. rewrite E1.
    rewrite (fold_set_fresh fst snd).
    - f_equal. rewrite map_map. cbn [fst snd]. reflexivity.
    - fold (keys (map (fun p : Z => (p, Single p)) pl)). rewrite keys_self. exact Hndpl.
    - intros [k v] Hin Hkin. apply in_map_iff in Hin. destruct Hin as (p & Ep & Hin). injection Ep as <- <-.
      cbn [fst] in Hkin. exact (Hj _ Hkin Hin). }
  rewrite E2. split; [|split].
  - rewrite used_app, used_self. exact Hp.
  - unfold keys. rewrite map_app. fold (keys m). fold (keys (map (fun p : Z => (p, Single p)) pl)).
    rewrite keys_self. apply NoDup_app_intro; assumption.
  - intros k v H. assert (In k (keys m)) as Hin by (apply lookup_Some_In in H; eapply In_keys; eauto).
    clear - H. induction m as [|[k' v'] t IH]; cbn [lookup app] in *; [discriminate|].
    destruct (Z.eqb k k'); [exact H|apply IH; exact H].
Qed.

(* ------------------------------------------------------------------ *)
(* the two pipelines                                                   *)
(* ------------------------------------------------------------------ *)

Lemma Inv_start : Inv cols [].
Proof. split; [cbn; apply Permutation_refl|split; [constructor|intros k []]]. Qed.

Lemma node_core_ok std fkeys d2k :
  (forall n k i, In (n, (k, i)) d2k -> In k fkeys) ->
  let m := infer_node_core lower closest cols std fkeys d2k in
  Permutation (used m) cols /\ NoDup (keys m) /\
  (forall k, In k std -> In k cols -> lookup k m = Some (Single k)).
Proof.
  intros Hd m. unfold m, infer_node_core.
  destruct (match_exact std cols []) as [pl1 m1] eqn:E1.
  destruct (match_fuzzy lower closest std pl1 m1) as [pl2 m2] eqn:E2.
  destruct (match_exact fkeys pl2 m2) as [pl3 m3] eqn:E3.
  destruct (match_display_exact pl3 d2k m3) as [pl4 m4] eqn:E4.
  destruct (match_display_fuzzy lower closest pl4 d2k m4) as [pl5 m5] eqn:E5.
  destruct (match_exact_ok _ _ _ _ _ Inv_start E1) as (I1 & S1 & X1 & D1 & F1).
  destruct (match_fuzzy_ok _ _ _ _ _ I1 D1 E2) as (I2 & S2 & X2).
  destruct (match_exact_ok _ _ _ _ _ I2 E3) as (I3 & S3 & X3 & D3 & _).
  assert (Hfk d2k pl3) as HF3 by (intros n k i Hin; apply D3; eapply Hd; exact Hin).
  destruct (display_exact_ok _ _ _ _ _ I3 HF3 E4) as (I4 & S4 & X4).
  destruct (display_fuzzy_ok _ _ _ _ _ I4 (Hfk_incl _ _ _ HF3 S4) E5) as (I5 & S5 & X5).
  destruct (final_update_ok _ _ I5) as (P & N & X6).
  split; [exact P|split; [exact N|]].
  intros k Hs Hc. apply X6, X5, X4, X3, X2. apply F1; [exact Hs|exact Hc|reflexivity].
Qed.

Lemma edge_core_ok fkeys d2k :
  (forall n k i, In (n, (k, i)) d2k -> In k fkeys) ->
  let m := infer_edge_core lower closest cols fkeys d2k in
  Permutation (used m) cols /\ NoDup (keys m) /\
  (forall k, In k fkeys -> In k cols -> lookup k m = Some (Single k)).
Proof.
  intros Hd m. unfold m, infer_edge_core.
  destruct (match_exact fkeys cols []) as [pl1 m1] eqn:E1.
  destruct (match_fuzzy lower closest fkeys pl1 m1) as [pl2 m2] eqn:E2.
  destruct (match_exact_ok _ _ _ _ _ Inv_start E1) as (I1 & S1 & X1 & D1 & F1).
  destruct (match_fuzzy_ok _ _ _ _ _ I1 D1 E2) as (I2 & S2 & X2).
  assert (Hfk d2k pl2) as HF2 by (intros n k i Hin Hk; apply (D1 k); [eapply Hd; exact Hin|apply S2; exact Hk]).
  destruct d2k as [|e0 d0].
  - destruct (final_update_ok _ _ I2) as (P & N & X6).
    split; [exact P|split; [exact N|]].
    intros k Hs Hc. apply X6, X2. apply F1; [exact Hs|exact Hc|reflexivity].
  - set (d2k := e0 :: d0) in *.
    destruct (match_display_exact pl2 d2k m2) as [pl3 m3] eqn:E3.
    destruct (match_display_fuzzy lower closest pl3 d2k m3) as [pl4 m4] eqn:E4.
    destruct (display_exact_ok _ _ _ _ _ I2 HF2 E3) as (I3 & S3 & X3).
    destruct (display_fuzzy_ok _ _ _ _ _ I3 (Hfk_incl _ _ _ HF2 S3) E4) as (I4 & S4 & X4).
    destruct (final_update_ok _ _ I4) as (P & N & X6).
    split; [exact P|split; [exact N|]].
    intros k Hs Hc. apply X6, X4, X3, X2. apply F1; [exact Hs|exact Hc|reflexivity].
Qed.

End WithOracles.

(* ------------------------------------------------------------------ *)
(* build_display_name_mapping only mentions keys of the feature dict   *)
(* ------------------------------------------------------------------ *)

Lemma bdm_inner fk : forall (ivs : list (Z * Z)) (acc : dict (Z * Z)) e,
  In e (fold_left (fun a iv => set (snd iv) (fk, fst iv) a) ivs acc) -> In e acc \/ fst (snd e) = fk.
Proof.
  induction ivs as [|iv r IH]; intros acc e H; cbn [fold_left] in H; [left; exact H|].
  destruct (IH _ _ H) as [H1|H1]; [|right; exact H1].
  apply In_set in H1. destruct H1 as [->|H1]; [right; reflexivity|left; exact H1].
Qed.

Lemma bdm_step_In acc f e : In e (bdm_step acc f) -> In e acc \/ fst (snd e) = f_key f.
Proof.
  unfold bdm_step. destruct (1 <? f_num f); [apply bdm_inner|].
  destruct (f_disp f) as [d|]; [|tauto].
  intros H. apply In_set in H. destruct H as [->|H]; [right; reflexivity|left; exact H].
Qed.

Lemma bdm_fold : forall feats acc e,
  In e (fold_left bdm_step feats acc) -> In e acc \/ In (fst (snd e)) (map f_key feats).
Proof.
  induction feats as [|f r IH]; intros acc e H; cbn [fold_left] in H; [left; exact H|].
  destruct (IH _ _ H) as [H1|H1]; [|right; right; exact H1].
  destruct (bdm_step_In _ _ _ H1) as [H2|H2]; [left; exact H2|right; left; symmetry; exact H2].
Qed.

Lemma bdm_keys feats n k i : In (n, (k, i)) (build_display_name_mapping feats) -> In k (map f_key feats).
Proof. intros H. destruct (bdm_fold _ _ _ H) as [[]|H1]. exact H1. Qed.

(* ------------------------------------------------------------------ *)
(* C17                                                                 *)
(* ------------------------------------------------------------------ *)

(* [closest_sound] delimits the oracles for which the model is the code (for any other
   answer Python raises KeyError and returns no map); the invariant itself does not
   depend on which candidate the oracle picks. *)
Theorem infer_node_partition : forall lower closest, closest_sound closest ->
  forall cols required feats, NoDup cols ->
  let m := infer_node_name_map lower closest cols required feats in
  Permutation (used m) cols /\ NoDup (keys m).
Proof.
  intros lower closest _ cols required feats Hnd m. unfold m, infer_node_name_map.
  destruct (node_core_ok lower closest cols Hnd (build_standard_fields required)
              (map f_key (filter (fun f => f_type f =? NODE) feats))
              (build_display_name_mapping (filter (fun f => f_type f =? NODE) feats)) (bdm_keys _)) as (A & B & _).
  split; assumption.
Qed.

Theorem infer_edge_partition : forall lower closest, closest_sound closest ->
  forall cols feats, NoDup cols ->
  let m := infer_edge_name_map lower closest cols feats in
  Permutation (used m) cols /\ NoDup (keys m).
Proof.
  intros lower closest _ cols feats Hnd m. unfold m, infer_edge_name_map.
  destruct (edge_core_ok lower closest cols Hnd
              (map f_key (filter (fun f => f_type f =? EDGE) feats))
              (build_display_name_mapping (filter (fun f => f_type f =? EDGE) feats)) (bdm_keys _)) as (A & B & _).
  split; assumption.
Qed.

Theorem infer_node_exact : forall lower closest, closest_sound closest ->
  forall cols required feats k, NoDup cols ->
  In k cols -> (In k required \/ k = SEG_ID) ->
  lookup k (infer_node_name_map lower closest cols required feats) = Some (Single k).
Proof.
  intros lower closest _ cols required feats k Hnd Hc Hk. unfold infer_node_name_map.
  destruct (node_core_ok lower closest cols Hnd (build_standard_fields required)
              (map f_key (filter (fun f => f_type f =? NODE) feats))
              (build_display_name_mapping (filter (fun f => f_type f =? NODE) feats)) (bdm_keys _)) as (_ & _ & C).
  apply C; [|exact Hc]. unfold build_standard_fields. apply in_or_app.
  destruct Hk as [Hk| ->]; [left; exact Hk|right; left; reflexivity].
Qed.

(* the edge analogue of the exact-name rule: a column spelled like an edge feature key *)
Theorem infer_edge_exact : forall lower closest, closest_sound closest ->
  forall cols feats k, NoDup cols ->
  In k cols -> In k (map f_key (filter (fun f => f_type f =? EDGE) feats)) ->
  lookup k (infer_edge_name_map lower closest cols feats) = Some (Single k).
Proof.
  intros lower closest _ cols feats k Hnd Hc Hk. unfold infer_edge_name_map.
  destruct (edge_core_ok lower closest cols Hnd
              (map f_key (filter (fun f => f_type f =? EDGE) feats))
              (build_display_name_mapping (filter (fun f => f_type f =? EDGE) feats)) (bdm_keys _)) as (_ & _ & C).
  apply C; assumption.
Qed.

(* consequences spelled out: no column lost, none used twice *)
Corollary partition_consequences : forall (m : mapping) cols, NoDup cols -> Permutation (used m) cols ->
  (forall c, In c cols <-> In c (used m)) /\ NoDup (used m).
Proof.
  intros m cols Hnd Hp. split.
  - intros c. split; intros H; [eapply Permutation_in; [apply Permutation_sym; exact Hp|exact H]|
                                eapply Permutation_in; [exact Hp|exact H]].
  - eapply Permutation_NoDup; [apply Permutation_sym; exact Hp|exact Hnd].
Qed.
