(* Proofs about Model/Relabel.v (property C13).  Reuses the frame-painting lemmas of
   Proofs/LabelUtilsProofs.v ([paint_node_at], [paint_node_shape], [same_shape], [label_at], [key]). *)
From Coq Require Import ZArith List Bool Lia Arith.
From FT Require Import Model.LabelUtils Model.Relabel Proofs.LabelUtilsProofs.
Import ListNotations.
Open Scope Z_scope.

(* ------------------------------------------------------------------ *)
(* Python dict as an association list                                   *)
(* ------------------------------------------------------------------ *)
Fixpoint lookup (k : Z) (d : list (Z * Z)) : option Z :=
  match d with
  | [] => None
  | (a, v) :: r => if a =? k then Some v else lookup k r
  end.

Lemma lookup_dict_set k v d k' :
  lookup k' (dict_set k v d) = if k =? k' then Some v else lookup k' d.
Proof.
  induction d as [|[a b] r IH]; cbn [dict_set lookup]; [reflexivity|].
  destruct (Z.eqb_spec a k) as [->|Hne]; cbn [lookup].
  - destruct (k =? k'); reflexivity.
  - rewrite IH. destruct (Z.eqb_spec a k') as [->|Hne']; [|reflexivity].
    destruct (Z.eqb_spec k k') as [->|_]; [congruence|reflexivity].
Qed.

Lemma dict_set_keys k v d x : In x (map fst (dict_set k v d)) <-> x = k \/ In x (map fst d).
Proof.
  induction d as [|[a b] r IH]; cbn [dict_set map fst In].
  - intuition.
  - destruct (Z.eqb_spec a k) as [->|Hne]; cbn [map fst In]; [intuition|]. rewrite IH. intuition.
Qed.

Lemma dict_set_nodup k v d : NoDup (map fst d) -> NoDup (map fst (dict_set k v d)).
Proof.
  induction d as [|[a b] r IH]; cbn [dict_set map fst]; intros Hnd.
  - constructor; [intros []|constructor].
  - inversion Hnd as [|? ? Hnot Hnd']; subst.
    destruct (Z.eqb_spec a k) as [->|Hne]; cbn [map fst]; [constructor; assumption|].
    constructor; [|apply IH; exact Hnd'].
    rewrite dict_set_keys. intros [->|Hin]; [congruence|contradiction].
Qed.

Lemma lookup_app k l1 l2 :
  lookup k (l1 ++ l2) = match lookup k l1 with Some v => Some v | None => lookup k l2 end.
Proof.
  induction l1 as [|[a b] r IH]; cbn [app lookup]; [reflexivity|]. destruct (a =? k); [reflexivity|exact IH].
Qed.

Lemma lookup_notin k d : ~ In k (map fst d) -> lookup k d = None.
Proof.
  induction d as [|[a b] r IH]; cbn [lookup map fst In]; intros Hn; [reflexivity|].
  destruct (Z.eqb_spec a k) as [->|Hne]; [exfalso; apply Hn; left; reflexivity|]. apply IH. intros H. apply Hn. right. exact H.
Qed.

Definition dict_step (d : list (Z * Z)) (kv : Z * Z) : list (Z * Z) := dict_set (fst kv) (snd kv) d.

(* the value of a key is the one of its last occurrence in the zipped sequence *)
Lemma fold_dict_lookup k : forall kvs d,
  lookup k (fold_left dict_step kvs d) =
    match lookup k (rev kvs) with Some v => Some v | None => lookup k d end.
Proof.
  induction kvs as [|[a b] r IH]; intros d; cbn [fold_left rev]; [reflexivity|].
  rewrite IH, lookup_app. destruct (lookup k (rev r)); [reflexivity|].
  unfold dict_step; cbn [fst snd lookup]. rewrite lookup_dict_set. destruct (a =? k); reflexivity.
Qed.

Lemma fold_dict_nodup : forall kvs d, NoDup (map fst d) -> NoDup (map fst (fold_left dict_step kvs d)).
Proof.
  induction kvs as [|kv r IH]; intros d Hd; cbn [fold_left]; [exact Hd|]. apply IH. apply dict_set_nodup. exact Hd.
Qed.

Lemma dict_zip_lookup k kvs : lookup k (dict_zip kvs) = lookup k (rev kvs).
Proof.
  unfold dict_zip. change (fun (d : list (Z * Z)) (kv : Z * Z) => dict_set (fst kv) (snd kv) d) with dict_step.
  rewrite fold_dict_lookup. destruct (lookup k (rev kvs)); reflexivity.
Qed.

Lemma dict_zip_nodup kvs : NoDup (map fst (dict_zip kvs)).
Proof.
  unfold dict_zip. change (fun (d : list (Z * Z)) (kv : Z * Z) => dict_set (fst kv) (snd kv) d) with dict_step.
  apply fold_dict_nodup. constructor.
Qed.

(* ------------------------------------------------------------------ *)
(* rows, claims                                                         *)
(* ------------------------------------------------------------------ *)
(* row r claims detection (t, s) *)
Definition claims (t : nat) (s : Z) (r : tnode) : bool := Nat.eqb (n_time r) t && (n_seg r =? s).

Lemma claims_true t s r : claims t s r = true <-> n_time r = t /\ n_seg r = s.
Proof. unfold claims. rewrite andb_true_iff, Nat.eqb_eq, Z.eqb_eq. tauto. Qed.

Lemma filter_rev' {A} (f : A -> bool) : forall l, filter f (rev l) = rev (filter f l).
Proof.
  induction l as [|x r IH]; cbn [rev filter]; [reflexivity|].
  rewrite filter_app, IH. cbn [filter]. destruct (f x); cbn [rev]; [reflexivity|apply app_nil_r].
Qed.

Lemma lookup_rows t s : forall l,
  lookup s (map (fun r => (n_seg r, n_id r)) (filter (fun r => Nat.eqb (n_time r) t) l)) =
    option_map n_id (find (claims t s) l).
Proof.
  induction l as [|a r IH]; cbn [filter map lookup find]; [reflexivity|].
  unfold claims at 1. destruct (Nat.eqb (n_time a) t); cbn [andb map lookup]; [|exact IH].
  destruct (n_seg a =? s); [reflexivity|exact IH].
Qed.

Lemma frame_dict_lookup rows t s :
  lookup s (frame_dict rows t) = option_map n_id (find (claims t s) (rev rows)).
Proof.
  unfold frame_dict. rewrite dict_zip_lookup, <- map_rev, <- filter_rev'. apply lookup_rows.
Qed.

Lemma frame_dict_nodup rows t : NoDup (map fst (frame_dict rows t)).
Proof. unfold frame_dict. apply dict_zip_nodup. Qed.

Lemma find_map {A B} (f : B -> bool) (g : A -> B) : forall l,
  find f (map g l) = option_map g (find (fun x => f (g x)) l).
Proof. induction l as [|x r IH]; cbn [map find]; [reflexivity|]. destruct (f (g x)); [reflexivity|exact IH]. Qed.

Lemma find_claims_shift off t s rows :
  find (claims t s) (rev (shift_rows off rows)) = option_map (shift_row off) (find (claims t s) (rev rows)).
Proof. unfold shift_rows. rewrite <- map_rev, find_map. reflexivity. Qed.

(* np.unique(time_values) has exactly the times of the rows *)
Lemma insert_u_In t l x : In x (insert_u t l) <-> x = t \/ In x l.
Proof.
  induction l as [|y r IH]; cbn [insert_u In]; [intuition|].
  destruct (Nat.ltb t y); cbn [In]; [intuition|].
  destruct (Nat.eqb_spec t y) as [->|Hne]; cbn [In]; [intuition|]. rewrite IH. intuition.
Qed.

Lemma unique_times_In rows x : In x (unique_times rows) <-> In x (map n_time rows).
Proof.
  unfold unique_times. induction (map n_time rows) as [|t l IH]; cbn [fold_right In]; [tauto|].
  rewrite insert_u_In, IH. intuition.
Qed.

Lemma existsb_nat_In t l : existsb (Nat.eqb t) l = true <-> In t l.
Proof.
  rewrite existsb_exists. split.
  - intros (x & Hx & E). apply Nat.eqb_eq in E. subst. exact Hx.
  - intros H. exists t. split; [exact H|apply Nat.eqb_refl].
Qed.

(* ------------------------------------------------------------------ *)
(* the painting loops                                                   *)
(* ------------------------------------------------------------------ *)
Lemma relabel_frame_shape old t : forall d acc, same_shape acc old -> same_shape (relabel_frame old t d acc) old.
Proof.
  unfold relabel_frame. induction d as [|[s c] r IH]; intros acc Hs; cbn [fold_left]; [exact Hs|].
  apply IH. cbn [fst snd].
  change (upd_nth t (paint_frame (nth t old []) s c) acc)
    with (paint_node old c acc {| n_id := 0; n_time := t; n_seg := s |}).
  apply paint_node_shape. exact Hs.
Qed.

Lemma relabel_loop_shape old rows : forall ts acc, same_shape acc old -> same_shape (relabel_loop old rows ts acc) old.
Proof.
  unfold relabel_loop. induction ts as [|t r IH]; intros acc Hs; cbn [fold_left]; [exact Hs|].
  apply IH. apply relabel_frame_shape. exact Hs.
Qed.

(* one frame: a dict with distinct keys paints pixel (t',p) with the value of the old label, if any *)
Lemma relabel_frame_at old t t' p : (t' < length old)%nat -> (p < length (nth t' old []))%nat ->
  forall d acc, NoDup (map fst d) -> same_shape acc old ->
  label_at (relabel_frame old t d acc) t' p =
    if Nat.eqb t' t then match lookup (label_at old t' p) d with Some v => v | None => label_at acc t' p end
    else label_at acc t' p.
Proof.
  intros Ht Hp. unfold relabel_frame.
  induction d as [|[s c] r IH]; intros acc Hnd Hs; cbn [fold_left lookup].
  - destruct (Nat.eqb t' t); reflexivity.
  - cbn [map fst] in Hnd. inversion Hnd as [|? ? Hnot Hnd']; subst. cbn [fst snd].
    change (upd_nth t (paint_frame (nth t old []) s c) acc)
      with (paint_node old c acc {| n_id := 0; n_time := t; n_seg := s |}).
    rewrite IH; [|exact Hnd'|apply paint_node_shape; exact Hs].
    rewrite paint_node_at by assumption. cbn [n_time n_seg].
    destruct (Nat.eqb t' t); cbn [andb]; [|reflexivity].
    rewrite (Z.eqb_sym (label_at old t' p) s).
    destruct (Z.eqb_spec s (label_at old t' p)) as [E|Hne]; [|reflexivity].
    rewrite <- E, (lookup_notin s r Hnot). reflexivity.
Qed.

Lemma relabel_loop_at old rows t p : (t < length old)%nat -> (p < length (nth t old []))%nat ->
  forall ts acc, same_shape acc old ->
  label_at (relabel_loop old rows ts acc) t p =
    if existsb (Nat.eqb t) ts
    then match lookup (label_at old t p) (frame_dict rows t) with Some v => v | None => label_at acc t p end
    else label_at acc t p.
Proof.
  intros Ht Hp. unfold relabel_loop.
  induction ts as [|t0 r IH]; intros acc Hs; cbn [fold_left existsb]; [reflexivity|].
  rewrite IH by (apply relabel_frame_shape; exact Hs).
  rewrite (relabel_frame_at old t0 t p Ht Hp _ acc (frame_dict_nodup rows t0) Hs).
  destruct (Nat.eqb_spec t t0) as [<-|Hne]; cbn [orb].
  - destruct (existsb (Nat.eqb t) r); destruct (lookup (label_at old t p) (frame_dict rows t)); reflexivity.
  - reflexivity.
Qed.

(* ------------------------------------------------------------------ *)
(* C13: relabel_segmentation                                            *)
(* ------------------------------------------------------------------ *)
Definition times_in_range (rows : list tnode) (old : list (list Z)) : Prop :=
  forall r, In r rows -> (n_time r < length old)%nat.

Lemma offset_cases rows :
  (In 0 (map n_id rows) /\ offset rows = 1) \/ (~ In 0 (map n_id rows) /\ offset rows = 0).
Proof.
  unfold offset, node_ids. destruct (existsb (Z.eqb 0) (map n_id rows)) eqn:E.
  - left. split; [|reflexivity]. apply existsb_exists in E. destruct E as (x & Hx & Ex).
    apply Z.eqb_eq in Ex. subst. exact Hx.
  - right. split; [|reflexivity]. intros Hin.
    assert (existsb (Z.eqb 0) (map n_id rows) = true) as E' by (apply existsb_exists; exists 0; split; [exact Hin|reflexivity]).
    congruence.
Qed.

Lemma relabel_shape rows old : same_shape (fst (relabel_segmentation rows old)) old.
Proof. unfold relabel_segmentation. cbn [fst]. apply relabel_loop_shape. apply zeros_like_shape. Qed.

(* General form (no distinctness assumption): the LAST row claiming (t, old label) wins
   - dict(zip(...)) keeps the last value of a repeated key - and unclaimed pixels are 0. *)
Theorem relabel_last_wins rows old t p :
  times_in_range rows old -> (t < length old)%nat -> (p < length (nth t old []))%nat ->
  label_at (fst (relabel_segmentation rows old)) t p =
    match find (claims t (label_at old t p)) (rev rows) with
    | Some r => n_id r + offset rows
    | None => 0
    end.
Proof.
  intros _ Ht Hp. unfold relabel_segmentation. cbn [fst].
  rewrite (relabel_loop_at old _ t p Ht Hp _ _ (zeros_like_shape old)), zeros_like_at.
  rewrite frame_dict_lookup, find_claims_shift.
  destruct (find (claims t (label_at old t p)) (rev rows)) as [r|] eqn:F; cbn [option_map].
  - apply find_some in F. destruct F as [Hin Hc]. apply in_rev in Hin. apply claims_true in Hc.
    assert (existsb (Nat.eqb t) (unique_times rows) = true) as E.
    { apply existsb_nat_In, unique_times_In. destruct Hc as [<- _]. apply in_map. exact Hin. }
    rewrite E. reflexivity.
  - destruct (existsb (Nat.eqb t) (unique_times rows)); reflexivity.
Qed.

(* C13 (1): with pairwise distinct (time, seg id) claims *)
Theorem relabel_spec rows old :
  NoDup (map key rows) -> times_in_range rows old ->
  let off := offset rows in
  let new := fst (relabel_segmentation rows old) in
  same_shape new old /\
  forall t p, (t < length old)%nat -> (p < length (nth t old []))%nat ->
    (forall r, In r rows -> n_time r = t -> n_seg r = label_at old t p -> label_at new t p = n_id r + off) /\
    ((forall r, In r rows -> ~ (n_time r = t /\ n_seg r = label_at old t p)) -> label_at new t p = 0).
Proof.
  intros Hnd Hrange off new. split; [apply relabel_shape|].
  intros t p Ht Hp. unfold new, off. rewrite (relabel_last_wins rows old t p Hrange Ht Hp).
  split.
  - intros r Hin Htime Hseg.
    destruct (find (claims t (label_at old t p)) (rev rows)) as [r'|] eqn:F.
    + apply find_some in F. destruct F as [Hin' Hc]. apply in_rev in Hin'. apply claims_true in Hc.
      assert (r' = r) as ->; [|reflexivity].
      apply (NoDup_map_inj key rows); [exact Hnd|exact Hin'|exact Hin|]. unfold key. destruct Hc. congruence.
    + exfalso. pose proof (find_none _ _ F r) as Hn. rewrite <- in_rev in Hn. specialize (Hn Hin).
      assert (claims t (label_at old t p) r = true) as E by (apply claims_true; split; assumption). congruence.
  - intros Hno. destruct (find (claims t (label_at old t p)) (rev rows)) as [r'|] eqn:F; [|reflexivity].
    exfalso. apply find_some in F. destruct F as [Hin' Hc]. apply in_rev in Hin'. apply claims_true in Hc.
    exact (Hno r' Hin' Hc).
Qed.

(* C13 (2): the graph is renamed by the same offset, row by row; times and seg ids untouched *)
Theorem relabel_graph_shift rows old :
  let rows' := snd (relabel_segmentation rows old) in
  map n_id rows' = map (fun i => i + offset rows) (map n_id rows) /\
  map n_time rows' = map n_time rows /\ map n_seg rows' = map n_seg rows.
Proof.
  unfold relabel_segmentation, shift_rows. cbn [snd]. rewrite !map_map. cbn [shift_row n_id n_time n_seg].
  repeat split; reflexivity.
Qed.

(* ------------------------------------------------------------------ *)
(* C13 (3): the identity shortcut of handle_segmentation                *)
(* ------------------------------------------------------------------ *)
Lemma frames_ok_nth rows : forall fs t0 i, frames_ok rows t0 fs = true -> (i < length fs)%nat ->
  frame_labels_ok rows (t0 + i) (nth i fs []) = true.
Proof.
  induction fs as [|f r IH]; intros t0 i H Hi; [cbn in Hi; lia|].
  cbn [frames_ok] in H. apply andb_prop in H. destruct H as [H1 H2].
  destruct i as [|i]; cbn [nth].
  - rewrite Nat.add_0_r. exact H1.
  - replace (t0 + S i)%nat with (S t0 + i)%nat by lia. apply IH; [exact H2|cbn in Hi; lia].
Qed.

(* the array returned unchanged already is the relabelled array (with offset 0) *)
Theorem shortcut_sound rows old : shortcut_ok rows old = true ->
  forall t p, (t < length old)%nat -> (p < length (nth t old []))%nat ->
    (forall r, In r rows -> n_time r = t -> n_seg r = label_at old t p -> label_at old t p = n_id r + 0) /\
    ((forall r, In r rows -> ~ (n_time r = t /\ n_seg r = label_at old t p)) -> label_at old t p = 0).
Proof.
  intros Hok t p Ht Hp. unfold shortcut_ok in Hok. apply andb_prop in Hok. destruct Hok as [Heq Hfr].
  unfold ids_equal in Heq. rewrite forallb_forall in Heq.
  split.
  - intros r Hin _ Hseg. specialize (Heq r Hin). apply Z.eqb_eq in Heq. lia.
  - intros Hno. pose proof (frames_ok_nth rows old 0 t Hfr Ht) as Hf. cbn [Nat.add] in Hf.
    unfold frame_labels_ok in Hf. rewrite forallb_forall in Hf.
    assert (In (label_at old t p) (nth t old [])) as Hin by (unfold label_at; apply nth_In; exact Hp).
    specialize (Hf _ Hin). apply existsb_exists in Hf. destruct Hf as (x & Hx & E).
    apply Z.eqb_eq in E. subst x. apply in_app_or in Hx. destruct Hx as [Hx|Hx].
    + exfalso. unfold node_ids in Hx. apply in_map_iff in Hx. destruct Hx as (r & Hid & Hr).
      apply filter_In in Hr. destruct Hr as [Hr Htime]. apply Nat.eqb_eq in Htime.
      specialize (Heq r Hr). apply Z.eqb_eq in Heq. apply (Hno r Hr). split; [exact Htime|congruence].
    + destruct Hx as [Hx|[]]. congruence.
Qed.

(* Both branches of handle_segmentation meet the same pointwise specification, provided the
   shortcut is not taken with a node id 0 (then the relabel branch would shift graph and array
   by one and the shortcut branch shifts nothing: see Props/C13.v, C13_shortcut_id0_differs). *)
Theorem handle_segmentation_spec rows old :
  NoDup (map key rows) -> times_in_range rows old ->
  (shortcut_ok rows old = true -> ~ In 0 (map n_id rows)) ->
  let off := offset rows in
  let new := fst (handle_segmentation rows old) in
  let rows' := snd (handle_segmentation rows old) in
  same_shape new old /\
  map n_id rows' = map (fun i => i + off) (map n_id rows) /\
  forall t p, (t < length old)%nat -> (p < length (nth t old []))%nat ->
    (forall r, In r rows -> n_time r = t -> n_seg r = label_at old t p -> label_at new t p = n_id r + off) /\
    ((forall r, In r rows -> ~ (n_time r = t /\ n_seg r = label_at old t p)) -> label_at new t p = 0).
Proof.
  intros Hnd Hrange Hz off new rows'. unfold new, rows', off, handle_segmentation.
  destruct (shortcut_ok rows old) eqn:Hok.
  - specialize (Hz eq_refl). destruct (offset_cases rows) as [[Hin _]|[_ ->]]; [contradiction|]. cbn [fst snd].
    split; [reflexivity|]. split.
    + rewrite <- (map_id (map n_id rows)) at 1. apply map_ext. intros a. lia.
    + apply shortcut_sound. exact Hok.
  - destruct (relabel_spec rows old Hnd Hrange) as [Hs Hpix]. split; [exact Hs|].
    split; [apply (relabel_graph_shift rows old)|exact Hpix].
Qed.
