(* The state a Tracks is constructed in from a prepared FeatureDict (Model/EditCtor.v: construct_dict;
   Tracks.__init__(graph, segmentation, features=...), the path of load_tracks) satisfies the hypotheses
   of the session theorems.

   Every registered key that some annotator can manage is activated without computation: the values on the
   graph are taken at face value. Hence the hypothesis dict_ok: the graph facts of EditInit.raw_ok that do
   not mention the feature table or the oracle (raw_graph_ok), the few facts on the caller's table that
   cfg_ok / reg_ok / rp_disjoint need, and the validity of every registered managed feature on all nodes /
   edges. No oracle partition is needed: nothing is computed.

   Proved (all closed, nothing left out):
     construct_dict_spec      what _activate_features_from_dict does to the flags, and that it does nothing else;
     construct_dict_WF        the main statement;
     construct_dict_session_WF / _timeline / _undo_redo   the session corollaries;
     dict_checkb_sound        a decidable check for dict_ok (uses the oracle partitions only to decide the
                              two closure relations).
   Example and counter-example: Proofs/EditCtorDictExample.v. *)
From Coq Require Import ZArith List Bool Lia Relations.
From FT Require Import Base.Dict Model.Edit Model.EditExec Model.Toggle Model.EditCtor Proofs.DictLemmas Proofs.EditInv Proofs.EditGraph
  Proofs.EditSeg Proofs.EditFresh Proofs.EditGlobal Proofs.ToggleProofs Proofs.EditInit Proofs.EditCtor.
From FT Require Proofs.EditBook Proofs.EditNodeBasic Proofs.EditWFNode Proofs.EditSessions Proofs.EditSessionsFull Proofs.EditSessionsAll.
Import ListNotations.
Open Scope Z_scope.

(* ================================================================== *)
(* 1. the hypotheses                                                    *)
(* ================================================================== *)
(* the fields of EditInit.raw_ok that mention neither the feature table nor the oracle *)
Record raw_graph_ok (r0 : state) : Prop := {
  rg_undo : undo_stack r0 = [];
  rg_redo : redo_stack r0 = [];
  rg_nodup : NoDup (node_ids r0);
  rg_succ_nodup : NoDup (keys (succs (g r0)));
  rg_succ_keys : forall n, haskey n (succs (g r0)) = true <-> is_node r0 n;
  rg_adj_nodup : forall u, NoDup (successors r0 u);
  rg_edge_nodes : forall u v, edge r0 u v -> is_node r0 u /\ is_node r0 v;
  rg_time : forall n, is_node r0 n -> exists t, attr r0 n KTime = Some (VZ t);
  rg_attr_nodup : forall n, NoDup (keys (node_attrs r0 n));
  rg_forest : W_forest r0;
  rg_seg : W_seg r0
}.

Lemma raw_ok_graph r0 posk ctrk clin : raw_ok r0 posk ctrk clin -> raw_graph_ok r0.
Proof. intros H. constructor; apply H. Qed.

(* the keys of the caller's FeatureDict, in the order _activate_features_from_dict visits them *)
Definition dict_keys (st : state) : list Z := reg_node (ft st) ++ reg_edge (ft st).

Record dict_ok (r0 : state) : Prop := {
  dk_graph : raw_graph_ok r0;
  (* the caller's table: time and the two ids are registered node features; the annotators are fresh *)
  dk_time : In KTime (reg_node (ft r0));
  dk_trk_reg : In KTrack (reg_node (ft r0));
  dk_lin_reg : In KLin (reg_node (ft r0));
  dk_off : rp_act (ft r0) = [] /\ iou_act (ft r0) = false /\ trk_act (ft r0) = false /\ lin_act (ft r0) = false;
  (* the regionprops annotator does not manage time or the ids *)
  dk_rp_ids : forall k, In k (rp_all (ft r0)) -> ~ EditBook.id_key k;
  (* a managed node key is a node feature, the managed edge key an edge feature *)
  dk_edge_rp : forall k, In k (reg_edge (ft r0)) -> In k (rp_all (ft r0)) -> In k (reg_node (ft r0));
  dk_node_iou : In KIou (reg_node (ft r0)) -> iou_avail (ft r0) = true -> In KIou (reg_edge (ft r0));
  (* every registered managed feature is valid *)
  dk_trk : (forall n, is_node r0 n -> exists i, attr r0 n KTrack = Some (VZ i)) /\
           (forall n m, is_node r0 n -> is_node r0 m -> (trk r0 n = trk r0 m <-> same_segment r0 n m));
  dk_lin : (forall n, is_node r0 n -> exists i, attr r0 n KLin = Some (VZ i)) /\
           (forall n m, is_node r0 n -> is_node r0 m -> (lin r0 n = lin r0 m <-> wconn r0 n m));
  dk_rp : forall sg k, seg r0 = Some sg -> In k (dict_keys r0) -> In k (rp_all (ft r0)) ->
          forall n, is_node r0 n -> attr r0 n k = Some (VRp (mask_of sg (time_of r0 n) n));
  dk_iou : forall sg, seg r0 = Some sg -> In KIou (dict_keys r0) -> iou_avail (ft r0) = true ->
           forall u v, edge r0 u v -> lookup KIou (edge_attrs r0 u v) = Some (iou_of r0 sg u v)
}.

(* ================================================================== *)
(* 2. what the activation does                                          *)
(* ================================================================== *)
Definition act_step (s : state) (k : Z) : state := if memz k (available s) then upd_ft s (set_flags (ft s) [k] true) else s.

Definition act_spec (L : list Z) (s s' : state) : Prop :=
  g s' = g s /\ seg s' = seg s /\ bk s' = bk s /\ undo_stack s' = undo_stack s /\ redo_stack s' = redo_stack s /\
  reg_node (ft s') = reg_node (ft s) /\ reg_edge (ft s') = reg_edge (ft s) /\
  rp_all (ft s') = rp_all (ft s) /\ iou_avail (ft s') = iou_avail (ft s) /\ pos_keys (ft s') = pos_keys (ft s) /\
  (forall k, In k (rp_act (ft s')) <-> In k (rp_all (ft s)) /\ (In k L \/ In k (rp_act (ft s)))) /\
  (iou_act (ft s') = true <-> (In KIou L /\ iou_avail (ft s) = true) \/ iou_act (ft s) = true) /\
  (trk_act (ft s') = true <-> In KTrack L \/ trk_act (ft s) = true) /\
  (lin_act (ft s') = true <-> In KLin L \/ lin_act (ft s) = true).

Lemma memz_single k k0 : memz k [k0] = (k =? k0).
Proof. cbn. now rewrite orb_false_r. Qed.

Lemma act_fold s : (forall k, In k (rp_act (ft s)) -> In k (rp_all (ft s))) ->
  forall L, act_spec L s (fold_left act_step L s).
Proof.
  intros Hact L. induction L as [|k0 L IH] using rev_ind.
  - cbn [fold_left]. unfold act_spec. repeat (split; [reflexivity|]). split; [|split; [|split]].
    + intros k. split; [intros H; split; [now apply Hact|now right]|intros [_ [[]|H]]; exact H].
    + split; [now right|intros [[[] _]|H]; exact H].
    + split; [now right|intros [[]|H]; exact H].
    + split; [now right|intros [[]|H]; exact H].
  - rewrite fold_left_app. cbn [fold_left]. set (s1 := fold_left act_step L s) in *.
    destruct IH as (E1 & E2 & E3 & E4 & E5 & E6 & E7 & E8 & E9 & E10 & Hrp & Hiou & Htrk & Hlin).
    assert (Eav : available s1 = available s) by (unfold available; now rewrite E8, E9).
    unfold act_step. destruct (memz k0 (available s1)) eqn:M.
    + unfold act_spec. cbn [g seg bk undo_stack redo_stack ft upd_ft].
      cbn [set_flags reg_node reg_edge rp_all iou_avail pos_keys iou_act trk_act lin_act].
      repeat (split; [assumption|]). split; [|split; [|split]].
      * intros k. rewrite set_flags_rp_act, memz_single, E8, in_app_iff. cbn [In].
        destruct (Z.eqb_spec k k0) as [->|Hne].
        -- split; [intros [H _]; split; [exact H|left; right; now left]|intros [H _]; split; [exact H|reflexivity]].
        -- rewrite Hrp. split.
           ++ intros [H [_ [X|X]]]; (split; [exact H|]); [left; now left|now right].
           ++ intros [H [[X|[X|[]]]|X]]; [split; [exact H|split; [exact H|now left]]|congruence|split; [exact H|split; [exact H|now right]]].
      * rewrite memz_single, E9, in_app_iff. cbn [In]. destruct (Z.eqb_spec KIou k0) as [<-|Hne]; cbn [andb].
        -- destruct (iou_avail (ft s)) eqn:A.
           ++ split; [intros _; left; split; [right; now left|reflexivity]|reflexivity].
           ++ rewrite Hiou. split; [intros [[X Y]|X]; [discriminate Y|now right]|intros [[_ Y]|X]; [discriminate Y|now right]].
        -- rewrite Hiou. split; [intros [[X Y]|X]; [left; split; [now left|exact Y]|now right]|].
           intros [[[X|[X|[]]] Y]|X]; [left; split; assumption|congruence|now right].
      * rewrite memz_single, in_app_iff. cbn [In]. destruct (Z.eqb_spec KTrack k0) as [<-|Hne].
        -- split; [intros _; left; right; now left|reflexivity].
        -- rewrite Htrk. split; [intros [X|X]; [left; now left|now right]|intros [[X|[X|[]]]|X]; [now left|congruence|now right]].
      * rewrite memz_single, in_app_iff. cbn [In]. destruct (Z.eqb_spec KLin k0) as [<-|Hne].
        -- split; [intros _; left; right; now left|reflexivity].
        -- rewrite Hlin. split; [intros [X|X]; [left; now left|now right]|intros [[X|[X|[]]]|X]; [now left|congruence|now right]].
    + apply memz_false in M. rewrite Eav in M. unfold available in M. rewrite !in_app_iff in M.
      assert (M1 : ~ In k0 (rp_all (ft s))) by tauto.
      assert (M2 : k0 <> KTrack /\ k0 <> KLin) by (split; intros ->; apply M; right; right; cbn; auto).
      assert (M3 : k0 = KIou -> iou_avail (ft s) = false).
      { intros ->. destruct (iou_avail (ft s)); [|reflexivity]. exfalso. apply M. right. left. now left. }
      unfold act_spec. repeat (split; [assumption|]). split; [|split; [|split]].
      * intros k. rewrite Hrp, in_app_iff. cbn [In]. split; [intros [H [X|X]]; (split; [exact H|tauto])|].
        intros [H [[X|[X|[]]]|X]]; [tauto|subst; contradiction|tauto].
      * rewrite Hiou, in_app_iff. cbn [In]. split; [intros [[X Y]|X]; [left; split; [now left|exact Y]|now right]|].
        intros [[[X|[X|[]]] Y]|X]; [left; split; assumption| |now right].
        rewrite (M3 X) in Y. discriminate Y.
      * rewrite Htrk, in_app_iff. cbn [In]. destruct M2 as [M2 _]. split; [intros [X|X]; [left; now left|now right]|].
        intros [[X|[X|[]]]|X]; [now left|congruence|now right].
      * rewrite Hlin, in_app_iff. cbn [In]. destruct M2 as [_ M2]. split; [intros [X|X]; [left; now left|now right]|].
        intros [[X|[X|[]]]|X]; [now left|congruence|now right].
Qed.

(* _activate_features_from_dict after the scan: graph, array and history untouched, the lookups are those of the
   scan, the registry is the caller's, and exactly the registered manageable keys are active *)
Theorem construct_dict_spec r0 : rp_act (ft r0) = [] -> iou_act (ft r0) = false -> trk_act (ft r0) = false -> lin_act (ft r0) = false ->
  let st0 := construct_dict r0 in
  g st0 = g r0 /\ seg st0 = seg r0 /\ undo_stack st0 = undo_stack r0 /\ redo_stack st0 = redo_stack r0 /\
  bk st0 = {| trk_book := snd (scan_ids r0 KTrack); lin_book := snd (scan_ids r0 KLin);
              max_trk := fst (scan_ids r0 KTrack); max_lin := fst (scan_ids r0 KLin) |} /\
  reg_node (ft st0) = reg_node (ft r0) /\ reg_edge (ft st0) = reg_edge (ft r0) /\
  rp_all (ft st0) = rp_all (ft r0) /\ iou_avail (ft st0) = iou_avail (ft r0) /\ pos_keys (ft st0) = pos_keys (ft r0) /\
  (forall k, In k (rp_act (ft st0)) <-> In k (rp_all (ft r0)) /\ In k (dict_keys r0)) /\
  (iou_act (ft st0) = true <-> In KIou (dict_keys r0) /\ iou_avail (ft r0) = true) /\
  (trk_act (ft st0) = true <-> In KTrack (dict_keys r0)) /\
  (lin_act (ft st0) = true <-> In KLin (dict_keys r0)).
Proof.
  intros A1 A2 A3 A4. cbv zeta. unfold construct_dict, activate_from_dict.
  change (fun s k => if memz k (available s) then upd_ft s (set_flags (ft s) [k] true) else s) with act_step.
  change (reg_node (ft (scan_books r0)) ++ reg_edge (ft (scan_books r0))) with (dict_keys r0).
  destruct (act_fold (scan_books r0) ltac:(intros k H; change (In k (rp_act (ft r0))) in H; rewrite A1 in H; destruct H) (dict_keys r0))
    as (E1 & E2 & E3 & E4 & E5 & E6 & E7 & E8 & E9 & E10 & Hrp & Hiou & Htrk & Hlin).
  set (st0 := fold_left act_step (dict_keys r0) (scan_books r0)) in *.
  change (ft (scan_books r0)) with (ft r0) in *. rewrite A1 in Hrp. rewrite A2 in Hiou. rewrite A3 in Htrk. rewrite A4 in Hlin.
  repeat (split; [assumption|]). split; [|split; [|split]].
  - intros k. rewrite Hrp. cbn [In]. tauto.
  - rewrite Hiou. split; [intros [H|H]; [exact H|discriminate H]|now left].
  - rewrite Htrk. split; [intros [H|H]; [exact H|discriminate H]|now left].
  - rewrite Hlin. split; [intros [H|H]; [exact H|discriminate H]|now left].
Qed.

(* ================================================================== *)
(* 3. the constructed state                                             *)
(* ================================================================== *)
Theorem construct_dict_WF r0 : dict_ok r0 ->
  let st0 := construct_dict r0 in
  WF st0 /\ EditSessions.reg_ok st0 /\ EditBook.rp_disjoint st0 /\ EditSessionsFull.rp_decl st0 /\ undo_stack st0 = [] /\ redo_stack st0 = [].
Proof.
  intros [G Htime Htr Hlr (O1 & O2 & O3 & O4) Hids Herp Hniou [T1 T2] [L1 L2] Hrpv Hiouv]. cbv zeta.
  destruct (construct_dict_spec r0 O1 O2 O3 O4) as (Eg & Es & Eu & Er & Eb & En & Ee & Eall & Eav & _ & Hrp & Hiou & Htrk & Hlin).
  cbv zeta in *. set (st := construct_dict r0) in *.
  assert (C : chg (fun k => k <> KTime) r0 st).
  { apply chg_same_g; try assumption; unfold st, construct_dict, activate_from_dict.
    - generalize (reg_node (ft (scan_books r0)) ++ reg_edge (ft (scan_books r0))) as L. intros L.
      change (rlog r0) with (rlog (scan_books r0)). generalize (scan_books r0) as s. induction L as [|k L IH]; intros s; cbn [fold_left]; [reflexivity|].
      rewrite IH. now destruct (memz k (available s)).
    - generalize (reg_node (ft (scan_books r0)) ++ reg_edge (ft (scan_books r0))) as L. intros L.
      change (nctr r0) with (nctr (scan_books r0)). generalize (scan_books r0) as s. induction L as [|k L IH]; intros s; cbn [fold_left]; [reflexivity|].
      rewrite IH. now destruct (memz k (available s)). }
  assert (Hn : forall n, is_node st n <-> is_node r0 n) by (intros n; apply (chg_is_node _ r0 st n C)).
  assert (He : forall u v, edge st u v <-> edge r0 u v) by (intros u v; apply (chg_edge _ r0 st u v C)).
  assert (Ha : forall n k, attr st n k = attr r0 n k) by (intros n k; unfold attr, node_attrs; now rewrite Eg).
  assert (Hin : forall k, In k (reg_node (ft r0)) -> In k (dict_keys r0)) by (intros k H; unfold dict_keys; apply in_app_iff; now left).
  assert (Ht : trk_act (ft st) = true) by (apply Htrk, Hin, Htr).
  assert (Hl : lin_act (ft st) = true) by (apply Hlin, Hin, Hlr).
  (* the ids *)
  assert (VT : ids_valid r0 KTrack (same_segment r0) (trk_book (bk st)) (max_trk (bk st)) st).
  { rewrite Eb. cbn [trk_book max_trk]. apply (ids_valid_ext r0 KTrack _ _ _ r0 st); [intros n; apply Ha|exact Hn|].
    apply supplied_valid; [apply G|exact T1|exact T2]. }
  assert (VL : ids_valid r0 KLin (wconn r0) (lin_book (bk st)) (max_lin (bk st)) st).
  { rewrite Eb. cbn [lin_book max_lin]. apply (ids_valid_ext r0 KLin _ _ _ r0 st); [intros n; apply Ha|exact Hn|].
    apply supplied_valid; [apply G|exact L1|exact L2]. }
  destruct VT as (VT1 & VT2 & VT3). destruct VL as (VL1 & VL2 & VL3).
  assert (WD : W_dict st).
  { constructor.
    - rewrite (ch_ids _ _ _ C). apply G.
    - rewrite (ch_skeys _ _ _ C). apply G.
    - intros n. rewrite Hn, <- (rg_succ_keys _ G n), !haskey_keys, (ch_skeys _ _ _ C). tauto.
    - intros u. rewrite (ch_succ _ _ _ C). apply G.
    - intros u v. rewrite He, !Hn. apply G.
    - intros n Nn. rewrite Ha. apply G. now apply Hn.
    - intros n Nn. apply VT1. now apply Hn.
    - intros n Nn. apply VL1. now apply Hn.
    - intros n. apply (ch_nodup _ _ _ C). apply G. }
  pose proof (W_forest_chg r0 st C (rg_forest _ G)) as WFo.
  assert (Hss : forall n m, same_segment st n m <-> same_segment r0 n m).
  { intros n m. split; apply same_segment_succ; intros u; [symmetry|]; apply (ch_succ _ _ _ C). }
  assert (Hwc : forall n m, wconn st n m <-> wconn r0 n m).
  { intros n m. split; apply wconn_succ; intros u; [symmetry|]; apply (ch_succ _ _ _ C). }
  assert (WT : W_trk st).
  { constructor.
    - intros u v Huv Hnd. destruct (wd_edge_nodes _ WD u v Huv) as [Nu Nv]. apply Hn in Nu. apply Hn in Nv.
      unfold trk. apply (VT2 u v Nu Nv). apply Hss. apply rst_step. split; assumption.
    - intros a b Hha Hhb E. apply (segment_head_unique st a b WD WFo Hha Hhb). apply Hss.
      apply (VT2 a b); [apply Hn, (proj1 Hha)|apply Hn, (proj1 Hhb)|exact E]. }
  assert (WL : W_lin st).
  { constructor.
    - intros u v Huv. destruct (wd_edge_nodes _ WD u v Huv) as [Nu Nv]. apply Hn in Nu. apply Hn in Nv.
      unfold lin. apply (VL2 u v Nu Nv). apply Hwc. now apply rst_step.
    - intros a b Hra Hrb E. apply (component_root_unique st a b WFo Hra Hrb). apply Hwc.
      apply (VL2 a b); [apply Hn, (proj1 Hra)|apply Hn, (proj1 Hrb)|exact E]. }
  assert (WFr : W_fresh st).
  { unfold W_fresh. rewrite Es. destruct (seg r0) as [sg|] eqn:Hs; [|exact I]. split.
    - intros n k Nn Hk. apply Hrp in Hk. destruct Hk as [K1 K2]. rewrite Ha, (chg_time r0 st n C).
      apply (Hrpv sg k eq_refl K2 K1 n). now apply Hn.
    - intros Hact u v Huv. apply Hiou in Hact. destruct Hact as [K1 K2].
      assert (Esu : succs (g st) = succs (g r0)) by (now rewrite Eg).
      rewrite (edge_attrs_succs st r0 u v Esu), (iou_of_nodes r0 st sg u v) by (now rewrite Eg).
      apply (Hiouv sg eq_refl K1 K2 u v). now apply He. }
  split; [|split; [|split; [|split; [|split]]]].
  - constructor.
    + split; [exact Ht|]. split; [exact Hl|]. rewrite En. auto.
    + exact WD.
    + exact WFo.
    + exact WT.
    + exact WL.
    + split; [exact VT3|exact VL3].
    + exact (W_seg_chg r0 st C (rg_seg _ G)).
    + exact WFr.
  - split.
    + intros k Hk. apply Hrp in Hk. destruct Hk as [K1 K2]. rewrite En. unfold dict_keys in K2. apply in_app_iff in K2.
      destruct K2 as [K2|K2]; [exact K2|now apply Herp].
    + intros Hact. apply Hiou in Hact. destruct Hact as [K1 K2]. rewrite Ee. unfold dict_keys in K1. apply in_app_iff in K1.
      destruct K1 as [K1|K1]; [now apply Hniou|exact K1].
  - intros k Hk Hact. apply Hrp in Hact. exact (Hids k (proj1 Hact) Hk).
  - intros k Hk. rewrite Eall. apply Hrp in Hk. exact (proj1 Hk).
  - rewrite Eu. apply G.
  - rewrite Er. apply G.
Qed.

(* ================================================================== *)
(* 4. every session from a constructed state                            *)
(* ================================================================== *)
Section FromDict.
  Variables (r0 : state) (ops : list op).
  Hypothesis Hdict : dict_ok r0.
  Let st0 := construct_dict r0.
  Hypothesis Hpre : EditSessionsAll.pre_along_all st0 ops.

  Theorem construct_dict_session_WF pre post : ops = pre ++ post -> WF (run st0 pre).
  Proof.
    destruct (construct_dict_WF r0 Hdict) as (W0 & Hreg & Hrp & Hdecl & Hu & Hr).
    exact (EditSessionsAll.session_all_reachable_WF st0 ops W0 Hreg Hrp Hdecl Hu Hr Hpre pre post).
  Qed.

  Theorem construct_dict_session_timeline (dS : state) :
    let t := EditSessionsFull.tl_run_full st0 {| EditSessions.A.tl := [st0]; EditSessions.A.c := 0 |} ops in
    (EditSessions.A.c _ t < length (EditSessions.A.tl _ t))%nat /\
    EditInverse.obs_eq (run st0 ops) (nth (EditSessions.A.c _ t) (EditSessions.A.tl _ t) dS) /\
    Forall WF (EditSessions.A.tl _ t) /\ (exists ext, EditSessions.A.tl _ t = st0 :: ext).
  Proof.
    destruct (construct_dict_WF r0 Hdict) as (W0 & Hreg & Hrp & Hdecl & Hu & Hr).
    exact (EditSessionsAll.session_all_timeline st0 ops W0 Hreg Hrp Hdecl Hu Hr Hpre dS).
  Qed.

  Theorem construct_dict_session_undo_redo pre post :
    (ops = pre ++ OUndo :: post ->
       let t := EditSessionsFull.tl_run_full st0 {| EditSessions.A.tl := [st0]; EditSessions.A.c := 0 |} pre in
       fst (snd (step (run st0 pre) OUndo)) = (if snd (EditSessions.A.t_undo _ t) then 1 else 2) /\
       (snd (EditSessions.A.t_undo _ t) = false <-> EditSessions.A.c _ t = 0%nat)) /\
    (ops = pre ++ ORedo :: post ->
       let t := EditSessionsFull.tl_run_full st0 {| EditSessions.A.tl := [st0]; EditSessions.A.c := 0 |} pre in
       fst (snd (step (run st0 pre) ORedo)) = (if snd (EditSessions.A.t_redo _ t) then 1 else 2) /\
       (snd (EditSessions.A.t_redo _ t) = false <-> (length (EditSessions.A.tl _ t) <= S (EditSessions.A.c _ t))%nat)).
  Proof.
    destruct (construct_dict_WF r0 Hdict) as (W0 & Hreg & Hrp & Hdecl & Hu & Hr).
    exact (EditSessionsAll.session_all_undo_redo st0 ops W0 Hreg Hrp Hdecl Hu Hr Hpre pre post).
  Qed.
End FromDict.

(* ================================================================== *)
(* 5. dict_ok, decidably                                                *)
(* ================================================================== *)
Definition value_eq_dec : forall a b : value, {a = b} + {a <> b}.
Proof. decide equality; try apply Z.eq_dec; apply (list_eq_dec Z.eq_dec). Defined.
Definition ov_is (o : option value) (v : value) : bool :=
  match o with Some w => if value_eq_dec w v then true else false | None => false end.
Lemma ov_is_eq o v : ov_is o v = true -> o = Some v.
Proof. unfold ov_is. destruct o as [w|]; [|discriminate]. destruct (value_eq_dec w v) as [->|]; [reflexivity|discriminate]. Qed.

Definition nilb {A} (l : list A) : bool := match l with [] => true | _ => false end.
Lemma nilb_nil {A} (l : list A) : nilb l = true -> l = [].
Proof. destruct l; [reflexivity|discriminate]. Qed.

(* the graph facts and the two oracle partitions: raw_checkb does not look at the feature table *)
Lemma raw_checkb_graph r0 ctrk clin : undo_stack r0 = [] -> redo_stack r0 = [] -> raw_checkb r0 [] ctrk clin = true ->
  raw_graph_ok r0 /\ classes_of r0 (same_segment r0) ctrk /\ classes_of r0 (wconn r0) clin.
Proof.
  intros Hu Hr H.
  pose proof (raw_checkb_sound (upd_ft r0 (ft_raw (has_seg (seg r0)) [])) [] ctrk clin eq_refl Hu Hr H) as R.
  split; [|split].
  - constructor.
    + exact Hu.
    + exact Hr.
    + exact (ro_nodup _ _ _ _ R).
    + exact (ro_succ_nodup _ _ _ _ R).
    + exact (ro_succ_keys _ _ _ _ R).
    + exact (ro_adj_nodup _ _ _ _ R).
    + exact (ro_edge_nodes _ _ _ _ R).
    + exact (ro_time _ _ _ _ R).
    + exact (ro_attr_nodup _ _ _ _ R).
    + destruct (ro_forest _ _ _ _ R) as [F1 F2 F3]. constructor; [exact F1|exact F2|exact F3].
    + exact (ro_seg _ _ _ _ R).
  - destruct (ro_trk _ _ _ _ R) as [A1 A2 A3 A4 A5]. constructor; [exact A1|exact A2|exact A3|exact A4|exact A5].
  - destruct (ro_lin _ _ _ _ R) as [A1 A2 A3 A4 A5]. constructor; [exact A1|exact A2|exact A3|exact A4|exact A5].
Qed.

(* an id key: an integer on every node, equal exactly within the classes *)
Definition ids_allb (r0 : state) (key : Z) (cs : list (list Z)) : bool :=
  forallb (fun n => match attr r0 n key with Some (VZ _) => true | _ => false end) (node_ids r0) &&
  forallb (fun n => forallb (fun m => Bool.eqb (oz_eqb (zattr r0 n key) (zattr r0 m key)) (same_classb cs n m)) (node_ids r0)) (node_ids r0).

Lemma ids_allb_sound r0 key (R : Z -> Z -> Prop) cs : classes_of r0 R cs -> ids_allb r0 key cs = true ->
  (forall n, is_node r0 n -> exists i, attr r0 n key = Some (VZ i)) /\
  (forall n m, is_node r0 n -> is_node r0 m -> (zattr r0 n key = zattr r0 m key <-> R n m)).
Proof.
  intros Hc H. unfold ids_allb in H. apply andb_true_iff in H. destruct H as [H1 H2].
  rewrite forallb_forall in H1, H2. split.
  - intros n Nn. specialize (H1 n Nn). destruct (attr r0 n key) as [[i| | | |]|]; try discriminate H1. eauto.
  - intros n m Nn Nm. specialize (H2 n Nn). rewrite forallb_forall in H2. specialize (H2 m Nm). apply Bool.eqb_prop in H2.
    rewrite <- (same_classb_iff r0 R cs n m Hc Nn Nm), <- H2. symmetry. apply oz_eqb_eq.
Qed.

(* the caller's table *)
Definition table_checkb (r0 : state) : bool :=
  let f := ft r0 in
  memz KTime (reg_node f) && memz KTrack (reg_node f) && memz KLin (reg_node f) &&
  nilb (rp_act f) && negb (iou_act f) && negb (trk_act f) && negb (lin_act f) &&
  negb (memz KTime (rp_all f)) && negb (memz KTrack (rp_all f)) && negb (memz KLin (rp_all f)) &&
  forallb (fun k => negb (memz k (rp_all f)) || memz k (reg_node f)) (reg_edge f) &&
  (negb (memz KIou (reg_node f) && iou_avail f) || memz KIou (reg_edge f)).

(* the registered managed values are those of the current masks *)
Definition fresh_checkb (r0 : state) : bool :=
  match seg r0 with
  | None => true
  | Some sg =>
    forallb (fun k => negb (memz k (rp_all (ft r0))) ||
                      forallb (fun n => ov_is (attr r0 n k) (VRp (mask_of sg (time_of r0 n) n))) (node_ids r0)) (dict_keys r0) &&
    (negb (memz KIou (dict_keys r0) && iou_avail (ft r0)) ||
     forallb (fun e => ov_is (lookup KIou (edge_attrs r0 (fst e) (snd e))) (iou_of r0 sg (fst e) (snd e))) (all_edges r0))
  end.

Definition dict_checkb (r0 : state) (ctrk clin : list (list Z)) : bool :=
  nilb (undo_stack r0) && nilb (redo_stack r0) && raw_checkb r0 [] ctrk clin && table_checkb r0 &&
  ids_allb r0 KTrack ctrk && ids_allb r0 KLin clin && fresh_checkb r0.

Theorem dict_checkb_sound r0 ctrk clin : dict_checkb r0 ctrk clin = true -> dict_ok r0.
Proof.
  intros H. unfold dict_checkb in H. repeat (apply andb_true_iff in H; destruct H as [H ?]).
  rename H into B1, H0 into B7, H1 into B6, H2 into B5, H3 into B4, H4 into B3, H5 into B2.
  apply nilb_nil in B1. apply nilb_nil in B2.
  destruct (raw_checkb_graph r0 ctrk clin B1 B2 B3) as (G & Ct & Cl).
  unfold table_checkb in B4. cbv zeta in B4. repeat (apply andb_true_iff in B4; destruct B4 as [B4 ?]).
  rename B4 into T1, H into T12, H0 into T11, H1 into T10, H2 into T9, H3 into T8, H4 into T7, H5 into T6, H6 into T5, H7 into T4, H8 into T3, H9 into T2.
  apply memz_In in T1. apply memz_In in T2. apply memz_In in T3. apply nilb_nil in T4.
  apply negb_true_iff in T5. apply negb_true_iff in T6. apply negb_true_iff in T7.
  apply negb_true_iff, memz_false in T8. apply negb_true_iff, memz_false in T9. apply negb_true_iff, memz_false in T10.
  rewrite forallb_forall in T11.
  constructor.
  - exact G.
  - exact T1.
  - exact T2.
  - exact T3.
  - auto.
  - intros k Hk [->|[->| ->]]; contradiction.
  - intros k Hk Hall. specialize (T11 k Hk). apply orb_true_iff in T11. destruct T11 as [X|X]; [|now apply memz_In].
    apply negb_true_iff, memz_false in X. contradiction.
  - intros Hn Hav. apply orb_true_iff in T12. destruct T12 as [X|X]; [|now apply memz_In].
    apply memz_In in Hn. rewrite Hn, Hav in X. discriminate X.
  - exact (ids_allb_sound r0 KTrack _ ctrk Ct B5).
  - exact (ids_allb_sound r0 KLin _ clin Cl B6).
  - intros sg k Hs Hk Hall n Nn. unfold fresh_checkb in B7. rewrite Hs in B7. apply andb_true_iff in B7. destruct B7 as [F1 _].
    rewrite forallb_forall in F1. specialize (F1 k Hk). apply memz_In in Hall. rewrite Hall in F1. cbn [negb orb] in F1.
    rewrite forallb_forall in F1. exact (ov_is_eq _ _ (F1 n Nn)).
  - intros sg Hs Hk Hav u v Huv. unfold fresh_checkb in B7. rewrite Hs in B7. apply andb_true_iff in B7. destruct B7 as [_ F2].
    apply memz_In in Hk. rewrite Hk, Hav in F2. cbn [andb negb orb] in F2. rewrite forallb_forall in F2.
    apply (all_edges_iff r0 u v (rg_succ_nodup _ G)) in Huv. exact (ov_is_eq _ _ (F2 (u, v) Huv)).
Qed.

Print Assumptions construct_dict_spec.
Print Assumptions construct_dict_WF.
Print Assumptions construct_dict_session_WF.
Print Assumptions construct_dict_session_timeline.
Print Assumptions construct_dict_session_undo_redo.
Print Assumptions dict_checkb_sound.
