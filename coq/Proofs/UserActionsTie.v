(* The definitions translated from the current funtracks/user_actions/*.py
   (Gen/UserActions_gen.v, rewritten by harness/translate_user_actions.py) ARE the hand-written
   user actions of Model/Edit.v: Leibniz equality of the whole result (value or error, and the
   state -- also the state at a raise), for all inputs.  If the Python changes its behaviour the
   regenerated definition changes and the corresponding equality stops being provable.

   Fourteen theorems gen_X_core_eq / gen_X_eq for the seven classes.  No hypotheses, except
   [book_nodes st] for UserAddNode (explained where it is defined).  Nested user actions are
   translated to the hand-written function of the nested class (which has its own tie), so the
   hypothesis does not propagate.

   The proofs are control-flow only: basic actions, queries and nested user actions stay
   opaque; [crunch] follows both programs in program order, see [walk]. *)
From Coq Require Import ZArith List Bool Lia.
From FT Require Import Base.Dict Model.Edit Model.PyRt Gen.UserActions_gen.
From FT Require Proofs.EditInv.
Import ListNotations.
Open Scope Z_scope.

(* ---------- bridging lemmas: the same test written two ways ---------- *)
Lemma len_gt0 : forall A (l : list A), (Z.of_nat (length l) >? 0) = match l with [] => false | _ => true end.
Proof. destruct l; reflexivity. Qed.
Lemma len_eq0 : forall A (l : list A), (Z.of_nat (length l) =? 0) = match l with [] => true | _ => false end.
Proof. destruct l; reflexivity. Qed.
Lemma len_eq2 : forall A (l : list A), (Z.of_nat (length l) =? 2) = (length l =? 2)%nat.
Proof.
  intros A l. destruct (Nat.eqb_spec (length l) 2) as [E|E].
  - rewrite E. reflexivity.
  - apply Z.eqb_neq. lia.
Qed.
Lemma in_degree_gt0 : forall s v, (in_degree s v >? 0) = match predecessors s v with [] => false | _ => true end.
Proof. intros. unfold in_degree. apply len_gt0. Qed.

(* a loop of the generated code against a hand-written recursive function *)
Lemma py_for_eq : forall A B (f : A -> B -> state -> res B) (h : list A -> state -> B -> res B),
  (forall s b, h [] s b = Ok b s) ->
  (forall x r s b, h (x :: r) s b = bind (f x b s) (fun b' s' => h r s' b')) ->
  forall l b s, py_for l b s f = h l s b.
Proof.
  intros A B f h H0 H1. induction l as [|x r IH]; intros b s; cbn [py_for].
  - now rewrite H0.
  - rewrite H1. destruct (f x b s) as [b' s'|e s']; cbn [bind]; [apply IH|reflexivity].
Qed.

(* siblings.remove(node); siblings[0] after `len(siblings) == 2`: the list is not empty *)
Lemma remove1_len2 : forall x l, (length l =? 2)%nat = true -> remove1 x l = [] -> False.
Proof.
  intros x [|a [|b [|c l]]] H E; cbn in H; try discriminate.
  cbn in E. destruct (x =? a); [discriminate|]. destruct (x =? b); discriminate.
Qed.

(* ---------- the one hypothesis (UserAddNode): nodes listed in the track lookup are in the graph ----------
   `next(graph.predecessors(succ), None)` raises NetworkXError when succ, which
   get_track_neighbors took from the tracklet lookup, is not a node; the hand model does not
   model that raise.  It cannot happen when the lookup lists nodes only (part of W_book). *)
Definition book_nodes (st : state) : Prop :=
  forall T l n, lookup T (trk_book (bk st)) = Some l -> In n l -> has_node st n = true.

Lemma insert_by_time_In : forall st x y l, In x (insert_by_time st y l) -> x = y \/ In x l.
Proof.
  intros st x y. induction l as [|z r IH]; cbn [insert_by_time]; intros H.
  - destruct H as [H|[]]; auto.
  - destruct (time_of st y <? time_of st z).
    + destruct H as [H|H]; auto.
    + destruct H as [H|H]; [right; left; exact H|]. destruct (IH H); [auto|right; right; assumption].
Qed.
Lemma sort_by_time_In : forall st x l, In x (sort_by_time st l) -> In x l.
Proof.
  intros st x l. unfold sort_by_time.
  assert (G : forall l acc, In x (fold_left (fun acc y => insert_by_time st y acc) l acc) -> In x l \/ In x acc).
  { induction l0 as [|y r IH]; cbn [fold_left]; intros acc H; [auto|].
    destruct (IH _ H) as [H1|H1]; [left; right; exact H1|].
    destruct (insert_by_time_In _ _ _ _ H1); [left; left; auto|auto]. }
  intros H. destruct (G _ _ H) as [H1|[]]. exact H1.
Qed.
Lemma scan_neighbors_succ : forall st t l p0 p c, scan_neighbors st t l p0 = (p, Some c) -> In c l.
Proof.
  intros st t. induction l as [|x r IH]; cbn [scan_neighbors]; intros p0 p c H; [discriminate|].
  destruct (time_of st x <? t); [right; eauto|].
  destruct (time_of st x >? t); [injection H as _ H; left; exact H|right; eauto].
Qed.
Lemma tn_succ_node : forall st T t s p c, book_nodes st ->
  track_neighbors st T t = (s, (p, Some c)) -> has_node s c = true.
Proof.
  intros st T t s p c Hb H. unfold track_neighbors in H.
  destruct (lookup T (trk_book (bk st))) as [l|] eqn:E; [|discriminate].
  destruct l as [|x r]; [discriminate|].
  injection H as Hs Hsc. subst s. change (has_node st c = true).
  apply (Hb T (x :: r) c E). eapply sort_by_time_In, scan_neighbors_succ, Hsc.
Qed.
Lemma In_keys_haskey : forall V k (d : dict V), In k (keys d) -> haskey k d = true.
Proof.
  intros V k. induction d as [|[k' v] r IH]; cbn; [tauto|]. intros [H|H].
  - subst k'. unfold haskey. cbn. now rewrite Z.eqb_refl.
  - unfold haskey in *. cbn. destruct (k =? k'); [reflexivity|]. apply IH, H.
Qed.
Lemma W_book_book_nodes : forall st, EditInv.W_book st -> book_nodes st.
Proof.
  intros st [[_ [H _]] _] T l n E Hin. apply In_keys_haskey.
  destruct (H T l E) as [_ [_ Hl]]. apply Hl in Hin. exact (proj1 Hin).
Qed.

(* ---------- the tactic ----------
   [walk] follows the two programs from the head, in program order:
   - two sequencing points `bind r1 f1 = bind r2 f2` are taken apart ([bind_ext]) when the
     first halves can be proved equal on their own: the rest is then proved once, for an
     arbitrary intermediate result (no duplication of the rest per branch of r);
   - a generated loop next to the hand-written recursive function: [py_for_eq];
   - otherwise the scrutinee at the head of either side is destructed (both sides share the
     scrutinees, so they stay in step);
   - leaves: computation. *)
Lemma bind_ext : forall A B (r1 r2 : res A) (f1 f2 : A -> state -> res B),
  r1 = r2 -> (forall a s, f1 a s = f2 a s) -> bind r1 f1 = bind r2 f2.
Proof. intros A B r1 r2 f1 f2 E H. subst r2. destruct r1; cbn [bind]; auto. Qed.

Ltac atom b :=
  lazymatch b with
  | negb ?x => atom x
  | andb ?x _ => atom x
  | orb ?x _ => atom x
  | map _ ?l => atom l
  | hd_error ?l => atom l
  | _ => constr:(b)
  end.
(* the scrutinee the evaluation of [t] is waiting for *)
Ltac hs t :=
  match t with
  | bind ?r _ => hs r
  | py_try_invalid ?r _ => hs r
  | match ?X with _ => _ end => hs X
  | match ?X with _ => _ end => atom X
  | bind ?r _ => constr:(r)
  | py_try_invalid ?r _ => constr:(r)
  end.
(* [has_node] of a node that [book_nodes] guarantees: no case distinction.  A case distinction
   or a projection of a variable inside the scrutinee: open that first (the other side may have
   written the same projection as a pattern match) *)
Ltac dest a :=
  first [ lazymatch a with
          | has_node _ _ => let E := fresh in assert (E : a = true) by (eauto using tn_succ_node); rewrite E
          end
        | match a with
          | context [match ?X with _ => _ end] =>
              is_var X; let T := type of X in let T' := eval hnf in T in
              lazymatch T' with prod _ _ => destruct X end
          | context [fst ?v] => is_var v; destruct v
          | context [snd ?v] => is_var v; destruct v
          end
        | is_var a; destruct a
        | destruct a eqn:? ].
(* tests that the two sides write differently, rewritten to one shape as soon as they are exposed *)
Ltac bridge := rewrite ?in_degree_gt0, ?len_gt0, ?len_eq0, ?len_eq2, ?Z.sub_0_r.
(* a generated loop next to the hand-written recursive function on the same arguments: the two
   premises of [py_for_eq] (base case; one unfolding of the recursion = one run of the
   generated body) become goals *)
Ltac loop_rw f h :=
  rewrite (py_for_eq _ _ f h);
  [ | intros; cbn [udn_preds udn_succs udn_orphans uan_cut uus_groups rollback]
    | intros; cbn [udn_preds udn_succs udn_orphans uan_cut uus_groups rollback] ].
Ltac loop_hook :=
  match goal with
  | |- context [py_for ?l ?b ?s ?f] =>
    match goal with
    | |- context [udn_preds ?n l s b] => loop_rw f (fun l' s' b' => udn_preds n l' s' b')
    | |- context [udn_succs ?n l s b] => loop_rw f (fun l' s' b' => udn_succs n l' s' b')
    | |- context [udn_orphans l s b] => loop_rw f (fun l' s' b' => udn_orphans l' s' b')
    | |- context [uan_cut l s b] => loop_rw f (fun l' s' b' => uan_cut l' s' b')
    | |- context [uus_groups l s b] => loop_rw f (fun l' s' b' => uus_groups l' s' b')
    | |- context [rollback l s] => loop_rw f (fun l' s' (_ : unit) => rollback l' s')
    end
  end.
(* helper definitions that are plain case distinctions are opened once, [bind] stays folded *)
Ltac open_defs :=
  cbv beta delta [py_get_track_id py_predecessors py_next py_index0 py_attr_z py_seg_index
                  key_is_none opt_eqb in_edges val_z seg_count px_concat px_check uan_conflicts all_in haskey].
Ltac walk :=
  intros; repeat match goal with u : unit |- _ => destruct u end;
  cbn [bind py_try_invalid negb andb orb fst snd map hd_error];
  bridge;
  lazymatch goal with
  | |- ?L = ?R =>
    first
    [ lazymatch L with bind _ _ => lazymatch R with bind _ _ => apply bind_ext; [ solve [walk] | walk ] end end
    | loop_hook; walk
    | let a := hs L in dest a; walk
    | let a := hs R in dest a; walk
    | reflexivity
    | discriminate
    | solve [rewrite <- ?app_assoc; reflexivity]
    | solve [exfalso; eauto using remove1_len2]
    | solve [cbn [fst snd] in *; congruence]
    | idtac ]
  end.
(* the time limit only makes a broken tie fail promptly (out-of-step sides multiply cases);
   the proofs below need a few seconds each *)
Ltac crunch := open_defs; timeout 300 walk.

(* ---------- UserDeleteEdge ---------- *)
Theorem gen_user_delete_edge_core_eq : forall st u v,
  gen_user_delete_edge_core st u v = user_delete_edge_core st u v.
Proof. intros. unfold gen_user_delete_edge_core, user_delete_edge_core. crunch. Qed.
Theorem gen_user_delete_edge_eq : forall st u v top,
  gen_user_delete_edge st u v top = user_delete_edge st u v top.
Proof. intros. unfold gen_user_delete_edge, user_delete_edge. now rewrite gen_user_delete_edge_core_eq. Qed.

(* ---------- UserUpdateNodeAttrs ---------- *)
Theorem gen_user_update_attrs_core_eq : forall st n new,
  gen_user_update_attrs_core st n new = user_update_attrs_core st n new.
Proof. intros. unfold gen_user_update_attrs_core, user_update_attrs_core. crunch. Qed.
Theorem gen_user_update_attrs_eq : forall st n new,
  gen_user_update_attrs st n new = user_update_attrs st n new.
Proof. intros. unfold gen_user_update_attrs, user_update_attrs. now rewrite gen_user_update_attrs_core_eq. Qed.

(* ---------- UserAddEdge ---------- *)
Theorem gen_user_add_edge_core_eq : forall st u v force,
  gen_user_add_edge_core st u v force = user_add_edge_core st u v force.
Proof.
  intros. unfold gen_user_add_edge_core, user_add_edge_core.
  crunch.
Qed.
Theorem gen_user_add_edge_eq : forall st u v force top,
  gen_user_add_edge st u v force top = user_add_edge st u v force top.
Proof. intros. unfold gen_user_add_edge, user_add_edge. now rewrite gen_user_add_edge_core_eq. Qed.

(* ---------- UserSwapPredecessors ---------- *)
Theorem gen_user_swap_core_eq : forall st n1 n2,
  gen_user_swap_core st n1 n2 = user_swap_core st n1 n2.
Proof. intros. unfold gen_user_swap_core, user_swap_core. crunch. Qed.
Theorem gen_user_swap_eq : forall st n1 n2,
  gen_user_swap st n1 n2 = user_swap st n1 n2.
Proof. intros. unfold gen_user_swap, user_swap. now rewrite gen_user_swap_core_eq. Qed.

(* ---------- UserDeleteNode ---------- *)
Theorem gen_user_delete_node_core_eq : forall st n px,
  gen_user_delete_node_core st n px = user_delete_node_core st n px.
Proof. intros. unfold gen_user_delete_node_core, user_delete_node_core. crunch. Qed.
Theorem gen_user_delete_node_eq : forall st n px top,
  gen_user_delete_node st n px top = user_delete_node st n px top.
Proof. intros. unfold gen_user_delete_node, user_delete_node. now rewrite gen_user_delete_node_core_eq. Qed.

(* ---------- UserAddNode ---------- *)
Theorem gen_user_add_node_core_eq : forall st n a px force, book_nodes st ->
  gen_user_add_node_core st n a px force = user_add_node_core st n a px force.
Proof. intros st n a px force Hbook. unfold gen_user_add_node_core, user_add_node_core. crunch. Qed.
Theorem gen_user_add_node_eq : forall st n a px force top, book_nodes st ->
  gen_user_add_node st n a px force top = user_add_node st n a px force top.
Proof. intros. unfold gen_user_add_node, user_add_node. now rewrite gen_user_add_node_core_eq. Qed.

(* [book_nodes] is needed: the lookup of track 1 lists 5, which is not a node.  Adding node 7 to
   track 1 at time -1 finds 5 as the next node of the track; the generated code (the Python)
   raises NetworkXError at `graph.predecessors(5)`, the hand model goes on, adds the node and
   fails later, in AddEdge(7, 5), with ValueError and another state. *)
Example book_nodes_needed :
  let st0 := {| g := {| nodes := []; succs := [] |}; seg := None;
                ft := {| reg_node := []; reg_edge := []; pos_keys := []; rp_all := []; rp_act := [];
                         iou_avail := false; iou_act := false; trk_act := true; lin_act := true |};
                bk := {| trk_book := [(1, [5])]; lin_book := []; max_trk := 1; max_lin := 0 |};
                undo_stack := []; redo_stack := []; rlog := []; nctr := 0 |} in
  let a := [(KTime, VZ (-1)); (KTrack, VZ 1)] in
  (exists s, gen_user_add_node_core st0 7 a None false = Err ENetworkX s) /\
  (exists s, user_add_node_core st0 7 a None false = Err EValue s).
Proof. split; eexists; vm_compute; reflexivity. Qed.

(* ---------- UserUpdateSegmentation ---------- *)
Theorem gen_user_update_seg_core_eq : forall st nv groups T force,
  gen_user_update_seg_core st nv groups T force = user_update_seg_core st nv groups T force.
Proof. intros. unfold gen_user_update_seg_core, user_update_seg_core. crunch. Qed.
Theorem gen_user_update_seg_eq : forall st nv groups T force,
  gen_user_update_seg st nv groups T force = user_update_seg st nv groups T force.
Proof.
  intros. unfold gen_user_update_seg, user_update_seg, top_wrap_dyn.
  now rewrite gen_user_update_seg_core_eq.
Qed.

Print Assumptions gen_user_delete_edge_core_eq.
Print Assumptions gen_user_delete_edge_eq.
Print Assumptions gen_user_update_attrs_core_eq.
Print Assumptions gen_user_update_attrs_eq.
Print Assumptions gen_user_add_edge_core_eq.
Print Assumptions gen_user_add_edge_eq.
Print Assumptions gen_user_swap_core_eq.
Print Assumptions gen_user_swap_eq.
Print Assumptions gen_user_delete_node_core_eq.
Print Assumptions gen_user_delete_node_eq.
Print Assumptions gen_user_add_node_core_eq.
Print Assumptions gen_user_add_node_eq.
Print Assumptions gen_user_update_seg_core_eq.
Print Assumptions gen_user_update_seg_eq.
