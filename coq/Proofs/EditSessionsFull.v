(* Sessions over the WHOLE public interface of Model/EditExec.v: Proofs/EditSessions.v extended with
   UserUpdateNodeAttrs (OUpdAttrs) and paint strokes (OPaint).
   A. UserUpdateNodeAttrs: the robust law with the invariant SI, for any number of undos / redos
      (upd_attrs_ConsS, uua_ConsS, C01_TrW_update_attrs, upd_attrs_session);
   B. strokes.  B1: UpdateNodeSeg robustly (upd_seg_ConsS).  B2: "the same state with another array"
      (rs) commutes with every operation of a stroke, under equalities of the masks that are read.
      B3: the forward run of UserUpdateSegmentation happens on an array the caller has ALREADY painted,
      whereas undoing the recorded group passes through states whose array still carries the old labels
      of the groups not yet undone.  So the run is replayed on VIRTUAL states (record VI): same state,
      array with the pending pixels holding their old labels.  Virtual states are well formed, the replay
      records the same actions (uus_groups_sim), the laws of EditSessions.v apply to them, and the chain
      of virtual states starts (observably) at the state before the stroke and ends at the state after
      (uus_core_ConsS, paint_core_Consistent, C01_TrW_paint, paint_session);
   C. the session theorems (step_session_full, run_session_full, session_full_WF, session_full_reachable_WF,
      session_full_timeline, session_full_undo_redo);
   D. a concrete session (session_full_nonvacuous).
   The only side condition on strokes is EditWFPaint.paint_pre (a REFUSED stroke must not involve a
   rollback); Proofs/EditSessionsAll.v removes it using Proofs/EditWFPaintRollback.v. *)
From Coq Require Import ZArith List Bool Lia Relations.
From FT Require Import Base.Dict Model.Edit Model.EditExec Proofs.DictLemmas Proofs.EditInv Proofs.BookLemmas Proofs.EditBook
  Proofs.EditInverse Proofs.EditInverseNode Proofs.EditSessions.
From FT Require Proofs.EditWalk Proofs.EditLin Proofs.EditTrk Proofs.EditBasic Proofs.EditGraph Proofs.EditUserEdge Proofs.EditUserEdgeCor
  Proofs.EditSwap Proofs.EditWFEdge Proofs.EditUDN Proofs.EditNodeBasic Proofs.EditUAN Proofs.EditWFNode Proofs.EditFrame
  Proofs.HistoryGeneric Proofs.EditSeg Proofs.EditSegUndo Proofs.EditWFPaint.
Import ListNotations.
Open Scope Z_scope.

(* ================================================================== *)
(* A. UserUpdateNodeAttrs                                               *)
(* ================================================================== *)
(* UpdateNodeAttrs in two observably equal states (the record of the previous values may differ
   on unregistered keys; the states afterwards are observably equal) *)
Lemma upd_attrs_cong s sx n a b s1 : obs_eq s sx -> do_upd_attrs s n a = Ok b s1 ->
  exists bx sx1, do_upd_attrs sx n a = Ok bx sx1 /\ obs_eq s1 sx1.
Proof.
  intros O H. unfold do_upd_attrs in H |- *.
  assert (Ep : protected_keys sx = protected_keys s) by (unfold protected_keys; now rewrite (oe_ft _ _ O)). rewrite Ep.
  destruct (existsb _ a); [discriminate H|].
  destruct (lookup n (nodes (g s))) as [d|] eqn:Ed.
  - assert (Hn : is_node s n) by (apply is_node_lookup; now exists d).
    assert (Hnx : is_node sx n) by (now apply (oe_nodes _ _ O)). pose proof Hnx as Hl. apply is_node_lookup in Hl. destruct Hl as [dx Edx]. rewrite Edx.
    injection H as _ <-. eexists _, _. split; [reflexivity|].
    fold (apply_attrs s n a). fold (apply_attrs sx n a).
    destruct (apply_attrs_upd_at s n a) as [A F]. destruct (apply_attrs_upd_at sx n a) as [Ax Fx].
    constructor.
    + intros m. rewrite (attr_upd_is_node _ _ m Ax), (attr_upd_is_node _ _ m A). apply (oe_nodes _ _ O).
    + intros u v. unfold has_edge, adj. rewrite (au_succs _ _ Ax), (au_succs _ _ A). apply (oe_edges _ _ O).
    + intros m k Hk. rewrite (au_ft _ _ A) in Hk. unfold attr_obs.
      destruct (Z.eq_dec m n) as [->|Hm]; [destruct (in_dec Z.eq_dec k (keys a)) as [Hi|Hi]|].
      * rewrite (apply_attrs_attr sx n a Hnx k), (apply_attrs_attr s n a Hn k). apply last_binding_obsv. apply (oe_nattr _ _ O n k Hk).
      * rewrite Fx, F by (now right). apply (oe_nattr _ _ O n k Hk).
      * rewrite Fx, F by (now left). apply (oe_nattr _ _ O m k Hk).
    + intros u v k Hk. rewrite (au_ft _ _ A) in Hk. unfold eattr_obs, edge_attrs, adj. rewrite (au_succs _ _ Ax), (au_succs _ _ A). apply (oe_eattr _ _ O u v k Hk).
    + rewrite (au_seg _ _ Ax), (au_seg _ _ A). apply (oe_seg _ _ O).
    + rewrite (au_ft _ _ Ax), (au_ft _ _ A). apply (oe_ft _ _ O).
  - assert (Hnx : ~ is_node sx n).
    { rewrite (oe_nodes _ _ O). intros Hn. apply is_node_lookup in Hn. destruct Hn as [d Hd]. congruence. }
    assert (Edx : lookup n (nodes (g sx)) = None).
    { destruct (lookup n (nodes (g sx))) as [dx|] eqn:E; [|reflexivity]. exfalso. apply Hnx. apply is_node_lookup. now exists dx. }
    rewrite Edx. destruct a; [|discriminate H]. injection H as _ <-. eexists _, _. split; [reflexivity|exact O].
Qed.

Theorem upd_attrs_ConsS : forall k st n new b st1, do_upd_attrs st n new = Ok b st1 -> ConsN SI k (ABasic b) st st1.
Proof.
  induction k as [|k IH]; intros st n new b st1 H; [exact Logic.I|]. cbn [ConsN]. intros s Ss Os.
  destruct (upd_attrs_inverse _ _ _ _ _ H) as (b' & st2 & H2 & O2 & _).
  assert (Hb : exists prev, b = BUpdAttrs n prev new).
  { destruct (upd_attrs_char _ _ _ _ _ H) as [_ [(_ & -> & _ & ->)|(_ & _ & ->)]]; eexists; reflexivity. }
  destruct Hb as [prev ->]. cbn [inv_basic] in H2.
  destruct (upd_attrs_cong st1 s n prev b' st2 (obs_eq_sym _ _ Os) H2) as (bx & s' & Hx & Ox).
  assert (O' : obs_eq s' st) by (apply obs_eq_sym; eapply obs_eq_trans; [exact O2|exact Ox]).
  exists (ABasic bx), s'. rewrite inv_action_basic. cbn [inv_basic]. rewrite Hx. cbn [bind]. split; [reflexivity|].
  split; [|split; [exact O'|]].
  - apply (SI_step s (BUpdAttrs n prev new) bx s' Hx Ss); [exact (upd_attrs_W_dict _ _ _ _ _ Hx (si_dict s Ss))|exact (upd_attrs_W_book _ _ _ _ _ Hx (si_book s Ss))].
  - apply (ConsN_eqv SI k (ABasic bx) s st1 s' st Os O'). exact (IH s n prev bx s' Hx).
Qed.

Theorem uua_ConsS k st n new a st1 : user_update_attrs_core st n new = Ok a st1 -> ConsN SI k a st st1.
Proof.
  unfold user_update_attrs_core. destruct (do_upd_attrs st n new) as [b s|e s] eqn:H; [|discriminate]. cbn [bind].
  intros E. injection E as <- <-. apply group_ConsN. apply ch_cons with (m := s); [exact (upd_attrs_ConsS k st n new b s H)|constructor; apply obs_eq_refl].
Qed.

(* active regionprops keys are keys the annotator declares (so that setting one is refused) *)
Definition rp_decl (st : state) : Prop := incl (rp_act (ft st)) (rp_all (ft st)).

Theorem C01_TrW_update_attrs st n new a st' : WF st -> reg_ok st -> rp_disjoint st -> rp_decl st ->
  user_update_attrs_core st n new = Ok a st' -> TrW a st st'.
Proof.
  intros W R P D H. pose proof (EditFrame.aux_user_update_attrs_core st n new) as F. rewrite H in F. destruct F as (_ & _ & _ & _ & Ef).
  apply TrI_SI_of; auto; [|intros k; exact (uua_ConsS k st n new a st' H)].
  unfold user_update_attrs_core in H. destruct (do_upd_attrs st n new) as [b s|e s] eqn:H0; [|discriminate]. cbn [bind] in H. injection H as _ <-.
  exact (EditWFEdge.upd_attrs_WF st n new b s W (EditWFEdge.rp_guard_incl _ _ D) H0).
Qed.

Lemma upd_attrs_session st t n a : SInv st t -> rp_decl st ->
  let res := step st (OUpdAttrs n a) in
  SInv (fst res) (if fst (snd res) =? 0 then A.t_edit _ t (fst res) else t).
Proof.
  intros I D. pose proof (SInv_WF st t I) as W. cbn [step]. unfold user_update_attrs.
  apply (edit_call st t None (user_update_attrs_core st n a) I (EditFrame.aux_user_update_attrs_core st n a)).
  - intros x s H. split; [|intros k; exact (uua_ConsS k st n a x s H)].
    unfold user_update_attrs_core in H. destruct (do_upd_attrs st n a) as [b s0|e s0] eqn:H0; [|discriminate]. cbn [bind] in H. injection H as _ <-.
    exact (EditWFEdge.upd_attrs_WF st n a b s0 W (EditWFEdge.rp_guard_incl _ _ D) H0).
  - intros e s H. assert (H' : user_update_attrs st n a = Err e s) by (unfold user_update_attrs; rewrite H; reflexivity).
    destruct (EditUserEdgeCor.update_attrs_refused_unchanged st n a e s H') as [-> _]. auto.
Qed.

(* ================================================================== *)
(* B1. UpdateNodeSeg, robustly, any number of times                      *)
(* ================================================================== *)
(* the stored managed values of n and of its edges, as far as observable, are those of the current masks *)
Definition useg_fresh (st : state) (n : Z) : Prop :=
  forall sg, seg st = Some sg ->
    (forall k, In k (rp_act (ft st)) -> In k (reg_node (ft st)) -> obsv (attr st n k) = obsv (Some (rpval (mask_of sg (time_of st n) n)))) /\
    (iou_act (ft st) = true -> In KIou (reg_edge (ft st)) -> forall a b, has_edge st a b = true -> a = n \/ b = n ->
       obsv (lookup KIou (edge_attrs st a b)) = obsv (Some (iou_of st sg a b))).

Lemma seg_fresh_at_useg st n : seg_fresh_at st n -> useg_fresh st n.
Proof.
  intros H sg Hs. destruct (H sg Hs) as [F1 F2]. split.
  - intros k Hk _. now rewrite (F1 k Hk).
  - intros Ha _ a b He Hab. now rewrite (F2 Ha a b He Hab).
Qed.

Lemma useg_fresh_obs s sx n : obs_eq s sx -> cfg_ok s -> useg_fresh s n -> useg_fresh sx n.
Proof.
  intros O Cfg H sg Hs. rewrite (oe_seg _ _ O) in Hs. destruct (H sg Hs) as [F1 F2]. rewrite (oe_ft _ _ O). split.
  - intros k Hk Hr. pose proof (oe_nattr _ _ O n k Hr) as Q. unfold attr_obs in Q. rewrite Q, (obs_time s sx O Cfg). now apply F1.
  - intros Ha Hr a b He Hab. rewrite (oe_edges _ _ O) in He. pose proof (oe_eattr _ _ O a b KIou Hr) as Q. unfold eattr_obs in Q.
    rewrite Q, (obs_iou_of s sx O Cfg). now apply F2.
Qed.

Definition pix_hold (st : state) (px : pixels) (v : Z) : Prop :=
  forall sg i, seg st = Some sg -> (i < length (frame_of sg (fst px)))%nat -> In (Z.of_nat i) (snd px) -> label_at sg (fst px) i = v.

Theorem upd_seg_inverse' st n px (added : bool) b st1 :
  W_dict st -> rp_disjoint st -> is_node st n -> useg_fresh st n ->
  (forall sg i, seg st = Some sg -> (i < length (frame_of sg (fst px)))%nat -> In (Z.of_nat i) (snd px) ->
     label_at sg (fst px) i = if added then 0 else n) ->
  do_upd_seg st n px added = Ok b st1 ->
  exists b' st2, inv_basic st1 b = Ok b' st2 /\ obs_eq st st2.
Proof.
  intros WD Hrp Hn Hfr Hpix H. destruct (upd_seg_char _ _ _ _ _ _ H Hn) as (sg & Hs & _).
  destruct (upd_seg_effect st n px added b st1 sg WD Hrp Hn Hs H) as (Hf & -> & E1 & E2 & E3 & E4 & E5 & E6 & E7 & E8 & WD1).
  cbv zeta in *. set (sg' := paint_sg sg px (if added then n else 0)) in *.
  assert (Hn1 : is_node st1 n) by (unfold is_node; now rewrite E4).
  assert (Hrp1 : rp_disjoint st1) by (unfold rp_disjoint; now rewrite E2).
  assert (Hf1 : frame_ok sg' (fst px) = true) by (unfold sg'; now rewrite paint_frame_ok).
  cbn [inv_basic].
  destruct (do_upd_seg st1 n px (negb added)) as [b' st2|e st2] eqn:H2.
  2:{ exfalso. unfold do_upd_seg in H2. rewrite (set_pixels_run st1 sg' px _ E1 Hf1) in H2. cbn [bind] in H2.
      assert (Hh : has_node (upd_seg st1 (Some (paint_sg sg' px (if negb added then n else 0)))) n = true) by (now apply has_node_is_node).
      rewrite Hh in H2. discriminate. }
  exists b', st2. split; [reflexivity|].
  destruct (upd_seg_effect st1 n px (negb added) b' st2 sg' WD1 Hrp1 Hn1 E1 H2) as (_ & _ & G1 & G2 & G3 & G4 & G5 & G6 & G7 & G8 & _).
  cbv zeta in *.
  assert (Eback : paint_sg sg' px (if negb added then n else 0) = sg).
  { unfold sg'. apply paint_back; [exact Hf|]. intros i Hi Hin. rewrite (Hpix sg i Hs Hi Hin). now destruct added. }
  rewrite Eback in *. destruct (Hfr sg Hs) as [Fr1 Fr2].
  constructor.
  - intros m. unfold is_node. now rewrite G4, E4.
  - intros a c. now rewrite G6, E6.
  - intros m k Hk. unfold attr_obs. rewrite G7, E2, E5, E7.
    destruct ((m =? n) && memz k (rp_act (ft st))) eqn:Ec; [|reflexivity].
    apply andb_true_iff in Ec. destruct Ec as [Em Ek]. apply Z.eqb_eq in Em. subst m. apply memz_In in Ek. symmetry. now apply Fr1.
  - intros a c k Hkr. unfold eattr_obs. rewrite G8, E2, E6, E8.
    destruct (iou_act (ft st) && (k =? KIou) && ((a =? n) || (c =? n)) && has_edge st a c) eqn:Ec; [|reflexivity].
    apply andb_true_iff in Ec. destruct Ec as [Ec He]. apply andb_true_iff in Ec. destruct Ec as [Ec Hac].
    apply andb_true_iff in Ec. destruct Ec as [Ha Hk]. apply Z.eqb_eq in Hk. subst k.
    rewrite (iou_of_times st st1 sg a c (E5 a) (E5 c)). symmetry. apply Fr2; [exact Ha|exact Hkr|exact He|].
    apply orb_true_iff in Hac. destruct Hac as [Hx|Hx]; apply Z.eqb_eq in Hx; auto.
  - congruence.
  - congruence.
Qed.

(* after the action the painted pixels hold what the action wrote *)
Lemma upd_seg_pix_after st n px (added : bool) b st1 : W_dict st -> rp_disjoint st -> is_node st n ->
  do_upd_seg st n px added = Ok b st1 -> pix_hold st1 px (if added then n else 0).
Proof.
  intros WD Hrp Hn H. destruct (upd_seg_char _ _ _ _ _ _ H Hn) as (sg & Hs & _).
  destruct (upd_seg_effect st n px added b st1 sg WD Hrp Hn Hs H) as (Hf & _ & E1 & _).
  intros sg1 i Hs1 Hi Hin. rewrite E1 in Hs1. injection Hs1 as <-. revert Hi. unfold label_at, frame_of, paint_sg.
  assert (Hlt : (Z.to_nat (fst px) < length sg)%nat) by (apply (frame_ok_lt _ _ Hf)).
  rewrite upd_frame_nth by exact Hlt. set (f := nth (Z.to_nat (fst px)) sg []). intros Hi.
  rewrite write_frame_len in Hi. destruct (write_frame_spec (if added then n else 0) (snd px) f 0 i Hi) as [_ N]. rewrite N. cbn.
  apply memz_In in Hin. now rewrite Hin.
Qed.

Lemma upd_seg_cong s sx n px added b s1 :
  cfg_ok s -> W_dict s -> W_dict sx -> rp_disjoint s -> is_node s n -> obs_eq s sx ->
  do_upd_seg s n px added = Ok b s1 -> exists sx1, do_upd_seg sx n px added = Ok b sx1 /\ obs_eq s1 sx1 /\ W_dict sx1.
Proof.
  intros Cfg WD WDx Hrp Hn O H. destruct (upd_seg_char _ _ _ _ _ _ H Hn) as (sg & Hs & _).
  destruct (upd_seg_effect s n px added b s1 sg WD Hrp Hn Hs H) as (Hf & -> & E1 & E2 & E3 & E4 & E5 & E6 & E7 & E8 & WD1). cbv zeta in *.
  assert (Hsx : seg sx = Some sg) by (now rewrite (oe_seg _ _ O)).
  assert (Hnx : is_node sx n) by (now apply (oe_nodes _ _ O)).
  pose proof (obs_rp_disjoint s sx O Hrp) as Hrpx.
  destruct (do_upd_seg sx n px added) as [bx sx1|e sx1] eqn:Hx.
  2:{ exfalso. unfold do_upd_seg in Hx. rewrite (set_pixels_run sx sg px _ Hsx Hf) in Hx. cbn [bind] in Hx.
      assert (Hh : has_node (upd_seg sx (Some (paint_sg sg px (if added then n else 0)))) n = true) by (now apply has_node_is_node).
      rewrite Hh in Hx. discriminate. }
  destruct (upd_seg_effect sx n px added bx sx1 sg WDx Hrpx Hnx Hsx Hx) as (_ & -> & G1 & G2 & G3 & G4 & G5 & G6 & G7 & G8 & WDx1). cbv zeta in *.
  exists sx1. split; [reflexivity|]. split; [|exact WDx1]. constructor.
  - intros m. unfold is_node. rewrite G4, E4. apply (oe_nodes _ _ O).
  - intros a c. rewrite G6, E6. apply (oe_edges _ _ O).
  - intros m k Hk. rewrite E2 in Hk. unfold attr_obs. rewrite G7, E7, (oe_ft _ _ O), (obs_time s sx O Cfg).
    destruct ((m =? n) && memz k (rp_act (ft s))); [reflexivity|apply (oe_nattr _ _ O m k Hk)].
  - intros a c k Hk. rewrite E2 in Hk. unfold eattr_obs. rewrite G8, E8, (oe_ft _ _ O), (oe_edges _ _ O), (obs_iou_of s sx O Cfg).
    destruct (iou_act (ft s) && (k =? KIou) && ((a =? n) || (c =? n)) && has_edge s a c); [reflexivity|apply (oe_eattr _ _ O a c k Hk)].
  - congruence.
  - rewrite G2, E2. apply (oe_ft _ _ O).
Qed.

Record pre_seg (st : state) (n : Z) (px : pixels) (added : bool) : Prop := {
  ps_cfg : cfg_ok st; ps_dict : W_dict st; ps_rp : rp_disjoint st; ps_node : is_node st n;
  ps_fresh : useg_fresh st n; ps_pix : pix_hold st px (if added then 0 else n) }.

Theorem upd_seg_ConsS : forall k st n px added b st1, pre_seg st n px added ->
  do_upd_seg st n px added = Ok b st1 -> ConsN SI k (ABasic b) st st1.
Proof.
  induction k as [|k IH]; intros st n px added b st1 [Cfg WD Hrp Hn Hfr Hpix] H; [exact Logic.I|].
  cbn [ConsN]. intros s Ss Os. pose proof (si_dict s Ss) as WDs.
  destruct (upd_seg_inverse' st n px added b st1 WD Hrp Hn Hfr Hpix H) as (b' & st2 & H2 & O2).
  destruct (upd_seg_char _ _ _ _ _ _ H Hn) as (sg & Hs & _ & Eb & _). subst b. cbn [inv_basic] in H2.
  destruct (upd_seg_effect st n px added _ st1 sg WD Hrp Hn Hs H) as (_ & _ & _ & E2 & _ & E4 & _ & _ & _ & _ & WD1).
  assert (Cfg1 : cfg_ok st1) by (unfold cfg_ok; now rewrite E2).
  assert (Hrp1 : rp_disjoint st1) by (unfold rp_disjoint; now rewrite E2).
  assert (Hn1 : is_node st1 n) by (unfold is_node; now rewrite E4).
  pose proof (obs_eq_sym _ _ Os) as Os'.
  destruct (upd_seg_cong st1 s n px (negb added) b' st2 Cfg1 WD1 WDs Hrp1 Hn1 Os' H2) as (s' & Hx & Ox & WD').
  assert (O' : obs_eq s' st) by (apply obs_eq_sym; eapply obs_eq_trans; [exact O2|exact Ox]).
  assert (Ss' : SI s').
  { apply (SI_step s (BUpdSeg n px added) b' s' Hx Ss WD'). apply (upd_seg_W_book s n px (negb added) b' s' Hx (si_rp s Ss) (si_book s Ss)). }
  exists (ABasic b'), s'. rewrite inv_action_basic. cbn [inv_basic]. rewrite Hx. cbn [bind]. split; [reflexivity|]. split; [exact Ss'|]. split; [exact O'|].
  apply (ConsN_eqv SI k (ABasic b') s st1 s' st Os O').
  apply (IH s n px (negb added) b' s'); [|exact Hx]. constructor.
  - exact (obs_cfg st1 s Os' Cfg1).
  - exact WDs.
  - exact (si_rp s Ss).
  - now apply (oe_nodes _ _ Os').
  - apply (useg_fresh_obs st1 s n Os' Cfg1). apply seg_fresh_at_useg. exact (upd_seg_fresh_after st n px added _ st1 WD Hrp Hn H).
  - pose proof (upd_seg_pix_after st n px added _ st1 WD Hrp Hn H) as P. intros sg1 i Hs1 Hi Hin. rewrite (oe_seg _ _ Os') in Hs1.
    rewrite (P sg1 i Hs1 Hi Hin). now destruct added.
Qed.

(* ================================================================== *)
(* B2. the model does not look at the array, except where it does        *)
(* ================================================================== *)
(* [rs y s]: the state s with the array replaced by y.  Every sub-action that does not read the
   array commutes with it; the ones that do (set_pixels, the two annotators) commute under the
   conditions stated with them. *)
Definition rs (y : option (list (list Z))) (s : state) : state := upd_seg s y.
Definition rmap {X} (h : state -> state) (r : res X) : res X :=
  match r with Ok a s => Ok a (h s) | Err e s => Err e (h s) end.

Lemma bind_rmap {X Y} h (r : res X) (k k' : X -> state -> res Y) :
  (forall a s, k' a (h s) = rmap h (k a s)) -> bind (rmap h r) k' = rmap h (bind r k).
Proof. intros Hk. destruct r as [a s|e s]; cbn [rmap bind]; [apply Hk|reflexivity]. Qed.
Lemma rmap_ok {X} h (r : res X) a s : r = Ok a s -> rmap h r = Ok a (h s).
Proof. intros ->. reflexivity. Qed.

Section Reseg.
  Variable y : option (list (list Z)).

  Lemma rs_rs y' s : rs y (rs y' s) = rs y s.
  Proof. reflexivity. Qed.
  Lemma rs_upd_g s x : upd_g (rs y s) x = rs y (upd_g s x).
  Proof. reflexivity. Qed.
  Lemma rs_upd_bk s x : upd_bk (rs y s) x = rs y (upd_bk s x).
  Proof. reflexivity. Qed.

  Lemma rs_sna s n k v : set_node_attr (rs y s) n k v = rs y (set_node_attr s n k v).
  Proof. unfold set_node_attr. cbn [rs upd_seg g]. destruct (lookup n (nodes (g s))); reflexivity. Qed.

  Definition lift5 (a : state * bool * list Z * list Z * list Z) : state * bool * list Z * list Z * list Z :=
    let '(s, f, tn, ln, nx) := a in (rs y s, f, tn, ln, nx).

  Lemma rs_visit oldT newT newL a n : visit oldT newT newL (lift5 a) n = lift5 (visit oldT newT newL a n).
  Proof.
    destruct a as [[[[s f] tn] ln] nx]. unfold visit, lift5. destruct newL as [l|].
    - rewrite rs_sna. destruct f.
      + change (zattr (rs y (set_node_attr s n KLin (VZ l))) n KTrack) with (zattr (set_node_attr s n KLin (VZ l)) n KTrack).
        destruct (match zattr (set_node_attr s n KLin (VZ l)) n KTrack with Some t => t =? oldT | None => false end); [rewrite rs_sna|]; reflexivity.
      + reflexivity.
    - destruct f.
      + change (zattr (rs y s) n KTrack) with (zattr s n KTrack).
        destruct (match zattr s n KTrack with Some t => t =? oldT | None => false end); [rewrite rs_sna|]; reflexivity.
      + reflexivity.
  Qed.

  Lemma rs_fold_visit oldT newT newL : forall l a,
    fold_left (visit oldT newT newL) l (lift5 a) = lift5 (fold_left (visit oldT newT newL) l a).
  Proof. induction l as [|x r IH]; intros a; cbn [fold_left]; [reflexivity|]. rewrite rs_visit. apply IH. Qed.

  Lemma rs_walk oldT newT newL : forall fuel s curr f tn ln,
    walk fuel oldT newT newL (rs y s) curr f tn ln =
    option_map (fun r : state * list Z * list Z => let '(s1, a, b) := r in (rs y s1, a, b)) (walk fuel oldT newT newL s curr f tn ln).
  Proof.
    induction fuel as [|k IH]; intros s curr f tn ln; destruct curr as [|c cs]; cbn [walk option_map]; try reflexivity.
    change (rs y s, f, tn, ln, @nil Z) with (lift5 (s, f, tn, ln, @nil Z)). rewrite rs_fold_visit.
    destruct (fold_left (visit oldT newT newL) (c :: cs) (s, f, tn, ln, [])) as [[[[s1 f1] tn1] ln1] nx1]. cbn [lift5]. apply IH.
  Qed.

  Lemma rs_upd_track s start newT newL : do_upd_track (rs y s) start newT newL = rmap (rs y) (do_upd_track s start newT newL).
  Proof.
    unfold do_upd_track. change (has_node (rs y s) start) with (has_node s start). change (zattr (rs y s) start KTrack) with (zattr s start KTrack).
    change (zattr (rs y s) start KLin) with (zattr s start KLin). change (ft (rs y s)) with (ft s). change (nodes (g (rs y s))) with (nodes (g s)).
    destruct (negb (has_node s start)); [reflexivity|]. destruct (zattr s start KTrack) as [oldT|]; [|reflexivity].
    destruct (negb (trk_act (ft s))); [reflexivity|]. rewrite rs_walk.
    destruct (walk _ oldT newT _ s [start] true [] []) as [[[s1 tn] ln]|]; cbn [option_map]; [|reflexivity].
    destruct (if lin_act (ft s) then newL else None); reflexivity.
  Qed.

  Lemma rs_del_edge s u v : do_del_edge (rs y s) u v = rmap (rs y) (do_del_edge s u v).
  Proof. unfold do_del_edge. change (has_edge (rs y s) u v) with (has_edge s u v). destruct (negb (has_edge s u v)); reflexivity. Qed.

  Lemma rs_track_neighbors s T t : track_neighbors (rs y s) T t = (rs y (fst (track_neighbors s T t)), snd (track_neighbors s T t)).
  Proof.
    unfold track_neighbors. change (bk (rs y s)) with (bk s). destruct (lookup T (trk_book (bk s))) as [[|x l]|]; try reflexivity.
    rewrite (EditUDN.sort_by_time_ext s (rs y s) (fun m => eq_refl)), (EditUDN.scan_neighbors_ext s (rs y s) (fun m => eq_refl)). reflexivity.
  Qed.

  Lemma rs_ude_core s u v : user_delete_edge_core (rs y s) u v = rmap (rs y) (user_delete_edge_core s u v).
  Proof.
    unfold user_delete_edge_core. change (has_edge (rs y s) u v) with (has_edge s u v). destruct (negb (has_edge s u v)); [reflexivity|].
    rewrite rs_del_edge. apply bind_rmap. intros b1 s1.
    change (out_degree (rs y s1) u) with (out_degree s1 u). change (successors (rs y s1) u) with (successors s1 u).
    change (zattr (rs y s1) u KTrack) with (zattr s1 u KTrack). change (next_trk (rs y s1)) with (next_trk s1). change (next_lin (rs y s1)) with (next_lin s1).
    assert (E : forall (r : res (list action)), bind (rmap (rs y) r) (fun acts s => Ok (AGroup acts) s) = rmap (rs y) (bind r (fun acts s => Ok (AGroup acts) s)))
      by (intros r; apply bind_rmap; reflexivity).
    rewrite <- E. f_equal.
    destruct (out_degree s1 u =? 0).
    - rewrite rs_upd_track. apply bind_rmap. reflexivity.
    - destruct (out_degree s1 u =? 1); [|reflexivity]. destruct (successors s1 u) as [|sib r]; [reflexivity|]. destruct (zattr s1 u KTrack) as [t|]; [|reflexivity].
      rewrite rs_upd_track. apply bind_rmap. intros b2 s2. change (zattr (rs y s2) v KTrack) with (zattr s2 v KTrack). change (next_lin (rs y s2)) with (next_lin s2).
      destruct (zattr s2 v KTrack); [|reflexivity]. rewrite rs_upd_track. apply bind_rmap. reflexivity.
  Qed.

  Lemma rs_udn_preds n : forall ps s acc, udn_preds n ps (rs y s) acc = rmap (rs y) (udn_preds n ps s acc).
  Proof.
    induction ps as [|p r IH]; intros s acc; cbn [udn_preds]; [reflexivity|]. cbv zeta.
    change (successors (rs y s) p) with (successors s p). change (zattr (rs y s) p KTrack) with (zattr s p KTrack).
    assert (E : (if (length (successors s p) =? 2)%nat then match remove1 n (successors s p), zattr s p KTrack with
                   | sib :: _, Some t => do b, s0 <- do_upd_track (rs y s) sib t None; Ok (acc ++ [ABasic b]) s0 | _, _ => Err EKey (rs y s) end else Ok acc (rs y s))
              = rmap (rs y) (if (length (successors s p) =? 2)%nat then match remove1 n (successors s p), zattr s p KTrack with
                   | sib :: _, Some t => do b, s0 <- do_upd_track s sib t None; Ok (acc ++ [ABasic b]) s0 | _, _ => Err EKey s end else Ok acc s)).
    { destruct (length (successors s p) =? 2)%nat; [|reflexivity]. destruct (remove1 n (successors s p)) as [|sib rr]; [reflexivity|].
      destruct (zattr s p KTrack); [|reflexivity]. rewrite rs_upd_track. apply bind_rmap. reflexivity. }
    rewrite E. apply bind_rmap. intros acc1 s1. rewrite rs_del_edge. apply bind_rmap. intros b s2. apply IH.
  Qed.

  Lemma rs_udn_succs n : forall cs s acc, udn_succs n cs (rs y s) acc = rmap (rs y) (udn_succs n cs s acc).
  Proof.
    induction cs as [|c r IH]; intros s acc; cbn [udn_succs]; [reflexivity|]. rewrite rs_del_edge. apply bind_rmap. intros b s1. apply IH.
  Qed.

  Lemma rs_udn_orphans : forall os s acc, udn_orphans os (rs y s) acc = rmap (rs y) (udn_orphans os s acc).
  Proof.
    induction os as [|o r IH]; intros s acc; cbn [udn_orphans]; [reflexivity|]. change (zattr (rs y s) o KTrack) with (zattr s o KTrack).
    destruct (zattr s o KTrack); [|reflexivity]. change (next_lin (rs y s)) with (next_lin s). rewrite rs_upd_track. apply bind_rmap. intros b s1. apply IH.
  Qed.

  Lemma rs_uan_cut : forall es s acc, uan_cut es (rs y s) acc = rmap (rs y) (uan_cut es s acc).
  Proof.
    induction es as [|e r IH]; intros s acc; cbn [uan_cut]; [reflexivity|]. unfold user_delete_edge. rewrite !top_wrap_false, rs_ude_core.
    apply bind_rmap. intros x s1. apply IH.
  Qed.

  Lemma rs_uan_conflicts s pred succ force : uan_conflicts (rs y s) pred succ force = rmap (rs y) (uan_conflicts s pred succ force).
  Proof.
    unfold uan_conflicts. change (predecessors (rs y s)) with (predecessors s). change (out_degree (rs y s)) with (out_degree s). change (successors (rs y s)) with (successors s).
    assert (D : forall c, match predecessors s c with q :: _ => if out_degree s q =? 2 then if negb force then Err (EInvalid true) (rs y s) else Ok [(q, c)] (rs y s) else Ok [] (rs y s) | [] => Ok [] (rs y s) end
       = rmap (rs y) (match predecessors s c with q :: _ => if out_degree s q =? 2 then if negb force then Err (EInvalid true) s else Ok [(q, c)] s else Ok [] s | [] => Ok [] s end)).
    { intros c. destruct (predecessors s c) as [|q r]; [reflexivity|]. destruct (out_degree s q =? 2); [|reflexivity]. destruct (negb force); reflexivity. }
    destruct pred as [p|]; [destruct (out_degree s p =? 2); [destruct (negb force); reflexivity|]|]; (destruct succ as [c|]; [apply D|reflexivity]).
  Qed.
End Reseg.

(* ---- the sub-actions that do look at the array ---- *)
Lemma rs_sea y s u v k x : set_edge_attr (rs y s) u v k x = rs y (set_edge_attr s u v k x).
Proof. unfold set_edge_attr. change (has_edge (rs y s) u v) with (has_edge s u v). destruct (has_edge s u v); reflexivity. Qed.

Lemma rs_set_pixels X Y s px v : seg s = Some X -> frame_ok X (fst px) = true -> EditSeg.same_shape Y X ->
  set_pixels s px v = Ok tt (rs (Some (paint_sg X px v)) s) /\ set_pixels (rs (Some Y) s) px v = Ok tt (rs (Some (paint_sg Y px v)) s).
Proof.
  intros Hs Hf Sh. split; [exact (set_pixels_run s X px v Hs Hf)|].
  apply (set_pixels_run (rs (Some Y) s) Y px v eq_refl). now rewrite (EditSeg.frame_ok_shape Y X _ Sh).
Qed.

Lemma iou_of_masks s X Y u v : mask_of Y (time_of s u) u = mask_of X (time_of s u) u -> mask_of Y (time_of s v) v = mask_of X (time_of s v) v ->
  iou_of s Y u v = iou_of s X u v.
Proof. intros E1 E2. unfold iou_of. now rewrite E1, E2. Qed.

(* the regionprops annotator: the same value when the node has the same mask in both arrays *)
Lemma rs_rp_update X Y s n : seg s = Some X -> mask_of Y (time_of s n) n = mask_of X (time_of s n) n ->
  rp_update (rs (Some Y) s) n = rs (Some Y) (rp_update s n).
Proof.
  intros Hs Em. unfold rp_update. rewrite Hs. cbn [rs upd_seg seg]. change (time_of (rs (Some Y) s) n) with (time_of s n). rewrite Em.
  change (ft (rs (Some Y) s)) with (ft s).
  generalize (match mask_of X (time_of s n) n with [] => VNone | _ :: _ => VRp (mask_of X (time_of s n) n) end). intros v.
  generalize (rp_act (ft s)). intros ks. clear Hs Em. revert s.
  induction ks as [|k r IH]; intros s; cbn [fold_left]; [reflexivity|]. rewrite rs_sna. apply IH.
Qed.

(* the edge annotator: the same values when the endpoints of the listed edges have the same masks *)
Lemma rs_iou_update X Y s es : seg s = Some X ->
  (forall e, In e es -> mask_of Y (time_of s (fst e)) (fst e) = mask_of X (time_of s (fst e)) (fst e) /\
                        mask_of Y (time_of s (snd e)) (snd e) = mask_of X (time_of s (snd e)) (snd e)) ->
  iou_update_edges (rs (Some Y) s) es = rs (Some Y) (iou_update_edges s es).
Proof.
  intros Hs Hm. unfold iou_update_edges. rewrite Hs. cbn [rs upd_seg seg]. change (ft (rs (Some Y) s)) with (ft s).
  destruct (iou_act (ft s)); [|reflexivity].
  assert (G : forall es0 s0, nodes (g s0) = nodes (g s) -> (forall e, In e es0 -> In e es) ->
     fold_left (fun s1 e => set_edge_attr s1 (fst e) (snd e) KIou (iou_of s1 Y (fst e) (snd e))) es0 (rs (Some Y) s0) =
     rs (Some Y) (fold_left (fun s1 e => set_edge_attr s1 (fst e) (snd e) KIou (iou_of s1 X (fst e) (snd e))) es0 s0)).
  { induction es0 as [|e r IH]; intros s0 En Hin; cbn [fold_left]; [reflexivity|].
    assert (Et : forall m, time_of s0 m = time_of s m) by (intros m; unfold time_of, zattr, attr, node_attrs; now rewrite En).
    destruct (Hm e (Hin e (or_introl eq_refl))) as [M1 M2].
    assert (Ei : iou_of (rs (Some Y) s0) Y (fst e) (snd e) = iou_of s0 X (fst e) (snd e)).
    { change (iou_of (rs (Some Y) s0) Y (fst e) (snd e)) with (iou_of s0 Y (fst e) (snd e)). apply iou_of_masks; rewrite !Et; assumption. }
    rewrite Ei, rs_sea. apply IH; [now rewrite EditSeg.sea_nodes|intros e' He'; apply Hin; now right]. }
  apply G; [reflexivity|auto].
Qed.

Lemma rs_add_edge X Y s u v a : seg s = Some X ->
  mask_of Y (time_of s u) u = mask_of X (time_of s u) u -> mask_of Y (time_of s v) v = mask_of X (time_of s v) v ->
  do_add_edge (rs (Some Y) s) u v a = rmap (rs (Some Y)) (do_add_edge s u v a).
Proof.
  intros Hs M1 M2. unfold do_add_edge. change (has_node (rs (Some Y) s)) with (has_node s).
  destruct (negb (has_node s u)); [reflexivity|]. destruct (negb (has_node s v)); [reflexivity|]. cbn [rmap]. f_equal.
  change (edge_attrs (rs (Some Y) s) u v) with (edge_attrs s u v). change (adj (rs (Some Y) s) u) with (adj s u).
  change (nodes (g (rs (Some Y) s))) with (nodes (g s)). change (succs (g (rs (Some Y) s))) with (succs (g s)). rewrite rs_upd_g.
  apply (rs_iou_update X Y); [exact Hs|]. intros e [<-|[]]. cbn [fst snd]. split; assumption.
Qed.

Lemma rs_del_node_tail y s n saved px : del_node_tail (rs y s) n saved px = rmap (rs y) (del_node_tail s n saved px).
Proof. unfold del_node_tail. change (ft (rs y s)) with (ft s). destruct (negb (trk_act (ft s))); reflexivity. Qed.

(* DeleteNode with explicit pixels clears them in both arrays *)
Lemma rs_del_node X Y s n px b s' : seg s = Some X -> EditSeg.same_shape Y X -> do_del_node s n (Some px) = Ok b s' ->
  do_del_node (rs (Some Y) s) n (Some px) = Ok b (rs (Some (paint_sg Y px 0)) s') /\ seg s' = Some (paint_sg X px 0).
Proof.
  intros Hs Sh H. rewrite do_del_node_eq in H |- *. change (nodes (g (rs (Some Y) s))) with (nodes (g s)).
  destruct (lookup n (nodes (g s))) as [d|]; [|discriminate]. cbv zeta in *. change (ft (rs (Some Y) s)) with (ft s).
  destruct (set_pixels s px 0) as [u s0|e s0] eqn:Ep; [|discriminate]. cbn [bind] in H.
  destruct (set_pixels_char _ _ _ _ _ Ep) as (sg & Hs' & Hf & ->). rewrite Hs in Hs'. injection Hs' as <-.
  destruct (rs_set_pixels X Y s px 0 Hs Hf Sh) as [_ E2]. rewrite E2. cbn [bind].
  change (del_node_graph (rs (Some (paint_sg Y px 0)) s) n) with (rs (Some (paint_sg Y px 0)) (del_node_graph s n)). rewrite rs_del_node_tail.
  change (del_node_graph (upd_seg s (Some (paint_sg X px 0))) n) with (rs (Some (paint_sg X px 0)) (del_node_graph s n)) in H.
  rewrite rs_del_node_tail in H. destruct (del_node_tail (del_node_graph s n) n (saved_attrs (reg_node (ft s)) d) (Some px)) as [b0 s1|e s1]; cbn [rmap] in *; [|discriminate].
  injection H as <- <-. split; reflexivity.
Qed.

(* UpdateNodeSeg (shrink or grow) in both arrays, when afterwards the node and its neighbours have the same masks *)
Lemma rs_upd_seg X Y s n px (added : bool) b s' : rp_disjoint s -> seg s = Some X -> EditSeg.same_shape Y X ->
  (let X' := paint_sg X px (if added then n else 0) in let Y' := paint_sg Y px (if added then n else 0) in
   forall m, m = n \/ edge s m n \/ edge s n m -> mask_of Y' (time_of s m) m = mask_of X' (time_of s m) m) ->
  do_upd_seg s n px added = Ok b s' ->
  do_upd_seg (rs (Some Y) s) n px added = Ok b (rs (Some (paint_sg Y px (if added then n else 0))) s') /\
  seg s' = Some (paint_sg X px (if added then n else 0)).
Proof.
  intros Hrp Hs Sh Hm H. cbv zeta in Hm. unfold do_upd_seg in H |- *.
  destruct (set_pixels s px (if added then n else 0)) as [u s0|e s0] eqn:Ep; [|discriminate]. cbn [bind] in H.
  destruct (set_pixels_char _ _ _ _ _ Ep) as (sg & Hs' & Hf & ->). rewrite Hs in Hs'. injection Hs' as <-.
  destruct (rs_set_pixels X Y s px (if added then n else 0) Hs Hf Sh) as [_ E2]. rewrite E2. cbn [bind].
  set (X' := paint_sg X px (if added then n else 0)) in *. set (Y' := paint_sg Y px (if added then n else 0)) in *.
  change (upd_seg s (Some X')) with (rs (Some X') s) in H.
  change (has_node (rs (Some Y') s) n) with (has_node s n). change (has_node (rs (Some X') s) n) with (has_node s n) in H.
  change (ft (rs (Some Y') s)) with (ft s). change (ft (rs (Some X') s)) with (ft s) in H.
  destruct (negb (has_node s n) && _); [discriminate|]. destruct (negb (has_node s n) && iou_act (ft s)); [discriminate|].
  injection H as <- <-.
  assert (Erp : rp_update (rs (Some Y') s) n = rs (Some Y') (rp_update (rs (Some X') s) n)).
  { change (rs (Some Y') s) with (rs (Some Y') (rs (Some X') s)). apply (rs_rp_update X' Y'); [reflexivity|]. apply Hm. now left. }
  rewrite Erp. set (s1 := rp_update (rs (Some X') s) n).
  change (predecessors (rs (Some Y') s1) n) with (predecessors s1 n). change (successors (rs (Some Y') s1) n) with (successors s1 n).
  assert (Es1 : seg s1 = Some X') by (unfold s1; destruct (rp_update_upd_at (rs (Some X') s) n) as [A _]; now rewrite (au_seg _ _ A)).
  assert (Et1 : forall m, time_of s1 m = time_of s m).
  { intros m. unfold s1, time_of, zattr. destruct (rp_update_upd_at (rs (Some X') s) n) as [_ F]. rewrite F; [reflexivity|].
    right. apply Hrp. unfold id_key. auto. }
  split; [|rewrite EditSeg.iou_update_seg; exact Es1].
  f_equal. apply (rs_iou_update X' Y'); [exact Es1|].
  assert (Hedge : forall a c, edge s1 a c <-> edge s a c).
  { intros a c. unfold s1, edge, has_edge, adj. destruct (rp_update_upd_at (rs (Some X') s) n) as [A _]. now rewrite (au_succs _ _ A). }
  intros e He. apply in_app_or in He. destruct He as [He|He]; apply in_map_iff in He; destruct He as (z & <- & Hz); cbn [fst snd]; rewrite !Et1.
  - apply EditGraph.in_predecessors in Hz. destruct Hz as [_ Hz]. apply Hedge in Hz. split; apply Hm; auto.
  - apply edge_successors in Hz. apply Hedge in Hz. split; apply Hm; auto.
Qed.

(* ---- the two composites a stroke nests ---- *)
Lemma qstep_time s s' m : EditWFPaint.qstep s s' -> time_of s' m = time_of s m.
Proof. intros (_ & _ & N & _). exact (EditSeg.nodes_keep_time _ _ _ m EditSeg.KTime_not_trk N). Qed.
Lemma qstep_seg s s' : EditWFPaint.qstep s s' -> seg s' = seg s.
Proof. intros (E & _). exact E. Qed.

(* get_track_neighbors returns an earlier and a later node *)
Lemma scan_times st t : forall l p0 p c, scan_neighbors st t l p0 = (p, c) ->
  (forall x, p = Some x -> p0 = Some x \/ time_of st x < t) /\ (forall z, c = Some z -> time_of st z > t).
Proof.
  induction l as [|a r IH]; intros p0 p c H; cbn [scan_neighbors] in H.
  - injection H as <- <-. split; [intros x E; now left|discriminate].
  - destruct (Z.ltb_spec (time_of st a) t) as [Hlt|Hge].
    + destruct (IH _ _ _ H) as [A B]. split; [|exact B]. intros x E. destruct (A x E) as [E'|E']; [injection E' as <-; now right|now right].
    + destruct (Z.gtb_spec (time_of st a) t) as [Hgt|Hle].
      * injection H as <- <-. split; [intros x E; now left|]. intros z E. injection E as <-. lia.
      * exact (IH _ _ _ H).
Qed.
Lemma track_neighbors_times s T t s' p c : track_neighbors s T t = (s', (p, c)) ->
  (forall x, p = Some x -> time_of s x < t) /\ (forall z, c = Some z -> time_of s z > t).
Proof.
  unfold track_neighbors. destruct (lookup T (trk_book (bk s))) as [[|x l]|]; try (intros H; injection H as _ <- <-; split; discriminate).
  intros H. injection H as _ H. destruct (scan_times s t _ None p c H) as [A B]. split; [|exact B].
  intros x0 E. destruct (A x0 E) as [C|C]; [discriminate C|exact C].
Qed.

Lemma udn_prefix_rs X Y s n acts s4 : seg s = Some X ->
  (forall m, is_node s m -> time_of s m <> time_of s n -> mask_of Y (time_of s m) m = mask_of X (time_of s m) m) ->
  EditUDN.udn_prefix s n = Ok acts s4 ->
  EditUDN.udn_prefix (rs (Some Y) s) n = Ok acts (rs (Some Y) s4) /\ seg s4 = Some X.
Proof.
  intros Hs Hm H. unfold EditUDN.udn_prefix in *. cbv zeta in *. change (predecessors (rs (Some Y) s) n) with (predecessors s n).
  rewrite rs_udn_preds.
  pose proof (EditWFPaint.qstep_udn_preds n (predecessors s n) s []) as Q1.
  destruct (udn_preds n (predecessors s n) s []) as [acts1 s1|e s1]; cbn [rmap bind rstate] in *; [|discriminate].
  change (successors (rs (Some Y) s1) n) with (successors s1 n). rewrite rs_udn_succs.
  pose proof (EditWFPaint.qstep_udn_succs n (successors s1 n) s1 acts1) as Q2.
  destruct (udn_succs n (successors s1 n) s1 acts1) as [acts2 s2|e s2]; cbn [rmap bind rstate] in *; [|discriminate].
  pose proof (EditWFPaint.qstep_trans _ _ _ Q1 Q2) as Q12.
  change (zattr (rs (Some Y) s2) n KTrack) with (zattr s2 n KTrack). destruct (zattr s2 n KTrack) as [T|]; cbn [bind] in *; [|discriminate].
  change (time_of (rs (Some Y) s2) n) with (time_of s2 n). rewrite rs_track_neighbors.
  pose proof (EditWFPaint.qstep_track_neighbors s2 T (time_of s2 n)) as Q3.
  destruct (track_neighbors s2 T (time_of s2 n)) as [s3 [p c]] eqn:Etn. cbn [fst snd] in *.
  pose proof (EditWFPaint.qstep_trans _ _ _ Q12 Q3) as Q13.
  assert (Hs3 : seg s3 = Some X) by (now rewrite (qstep_seg _ _ Q13)).
  assert (Hfin : forall os acc, udn_orphans os s3 acc = Ok acts s4 ->
            udn_orphans os (rs (Some Y) s3) acc = Ok acts (rs (Some Y) s4) /\ seg s4 = Some X).
  { intros os acc H4. rewrite rs_udn_orphans, H4. split; [reflexivity|].
    pose proof (EditSeg.seg_eq_udn_orphans os s3 acc) as Q. rewrite H4 in Q. unfold EditSeg.seg_eq in Q. cbn [rstate] in Q. congruence. }
  destruct p as [pp|]; destruct c as [cc|]; cbn [bind] in *; try (now apply Hfin).
  destruct (track_neighbors_times _ _ _ _ _ _ Etn) as [Tp Tc]. specialize (Tp pp eq_refl). specialize (Tc cc eq_refl).
  assert (Et : forall m, time_of s3 m = time_of s m) by (intros m; now apply qstep_time).
  assert (Et2 : forall m, time_of s2 m = time_of s m) by (intros m; now apply qstep_time).
  rewrite !Et2 in Tp, Tc.
  pose proof (EditSeg.seg_eq_add_edge s3 pp cc []) as Q4.
  destruct (do_add_edge s3 pp cc []) as [b s3'|e s3'] eqn:H3; cbn [bind rstate] in *; [|discriminate].
  destruct (add_edge_char _ _ _ _ _ _ H3) as (_ & Np & Nc & _).
  assert (HN : forall m, is_node s3 m -> is_node s m).
  { intros m Hm0. destruct Q13 as (_ & _ & N & _). now apply (EditSeg.nodes_keep_is_node _ _ _ m N). }
  rewrite (rs_add_edge X Y s3 pp cc [] Hs3), H3.
  2:{ rewrite Et. apply Hm; [now apply HN|lia]. }
  2:{ rewrite Et. apply Hm; [now apply HN|lia]. }
  cbn [rmap bind].
  rewrite rs_udn_orphans. pose proof (EditSeg.seg_eq_udn_orphans (if match predecessors s n with [] => false | _ :: _ => true end
      then filter (fun o => negb (o =? cc)) (successors s1 n) else tl (filter (fun o => negb (o =? cc)) (successors s1 n))) s3' (acts2 ++ [ABasic b])) as Q5.
  rewrite H in Q5 |- *. cbn [rmap rstate] in *. split; [reflexivity|]. unfold EditSeg.seg_eq in Q4, Q5. congruence.
Qed.

Lemma px_check_rs X Y s px : seg s = Some X -> EditSeg.same_shape Y X -> px_check (rs (Some Y) s) px = px_check s px.
Proof. intros Hs Sh. unfold px_check. rewrite Hs. cbn [rs upd_seg seg]. destruct px as [p|]; [|reflexivity]. now rewrite (EditSeg.frame_ok_shape Y X _ Sh). Qed.

Lemma udn_core_rs X Y s n px a s' : seg s = Some X -> EditSeg.same_shape Y X ->
  (forall m, is_node s m -> time_of s m <> time_of s n -> mask_of Y (time_of s m) m = mask_of X (time_of s m) m) ->
  user_delete_node_core s n (Some px) = Ok a s' ->
  user_delete_node_core (rs (Some Y) s) n (Some px) = Ok a (rs (Some (paint_sg Y px 0)) s') /\ seg s' = Some (paint_sg X px 0).
Proof.
  intros Hs Sh Hm H. rewrite EditUDN.udn_core_unfold in H |- *. rewrite (px_check_rs X Y s (Some px) Hs Sh).
  destruct (px_check s (Some px)); [discriminate|]. change (has_node (rs (Some Y) s) n) with (has_node s n).
  destruct (negb (has_node s n)); [discriminate|].
  destruct (EditUDN.udn_prefix s n) as [acts4 s4|e s4] eqn:H4; cbn [bind] in H; [|discriminate].
  destruct (udn_prefix_rs X Y s n acts4 s4 Hs Hm H4) as [E4 Hs4]. rewrite E4. cbn [bind].
  destruct (do_del_node s4 n (Some px)) as [b s5|e s5] eqn:H5; cbn [bind] in H; [|discriminate]. injection H as <- <-.
  destruct (rs_del_node X Y s4 n px b s5 Hs4 Sh H5) as [E5 Hs5]. rewrite E5. cbn [bind]. split; [reflexivity|exact Hs5].
Qed.

(* when the two arrays agree after painting, the actions that paint first do the same on both *)
Lemma upd_seg_same_paint X Y s n px (added : bool) : seg s = Some X -> frame_ok X (fst px) = true -> EditSeg.same_shape Y X ->
  paint_sg Y px (if added then n else 0) = paint_sg X px (if added then n else 0) ->
  do_upd_seg (rs (Some Y) s) n px added = do_upd_seg s n px added.
Proof.
  intros Hs Hf Sh E. unfold do_upd_seg. destruct (rs_set_pixels X Y s px (if added then n else 0) Hs Hf Sh) as [E1 E2]. now rewrite E1, E2, E.
Qed.
Lemma add_node_same_paint X Y s n a px b s' : seg s = Some X -> frame_ok X (fst px) = true -> EditSeg.same_shape Y X ->
  paint_sg Y px n = paint_sg X px n -> do_add_node s n a (Some px) = Ok b s' -> do_add_node (rs (Some Y) s) n a (Some px) = Ok b s'.
Proof.
  intros Hs Hf Sh E H. rewrite do_add_node_eq in H |- *. destruct (rs_set_pixels X Y s px n Hs Hf Sh) as [E1 E2].
  destruct (negb (haskey KTime a)); [discriminate|]. destruct (negb (haskey KTrack a)); [discriminate|].
  rewrite E1 in H. rewrite E2, E. exact H.
Qed.

Lemma uan_refused_rs X Y s n a px force : seg s = Some X -> EditSeg.same_shape Y X ->
  EditUAN.uan_refused (rs (Some Y) s) n a px force = EditUAN.uan_refused s n a px force.
Proof.
  intros Hs Sh. unfold EditUAN.uan_refused. change (has_node (rs (Some Y) s) n) with (has_node s n).
  assert (Ep : EditUAN.uan_pred (rs (Some Y) s) a = EditUAN.uan_pred s a) by (unfold EditUAN.uan_pred; change (EditUAN.uan_tid (rs (Some Y) s) a) with (EditUAN.uan_tid s a); now rewrite rs_track_neighbors).
  assert (Ec : EditUAN.uan_succ (rs (Some Y) s) a = EditUAN.uan_succ s a) by (unfold EditUAN.uan_succ; change (EditUAN.uan_tid (rs (Some Y) s) a) with (EditUAN.uan_tid s a); now rewrite rs_track_neighbors).
  rewrite Ep, Ec, (EditUAN.uan_has_conflict_same_g s (rs (Some Y) s) _ _ eq_refl), (px_check_rs X Y s px Hs Sh). reflexivity.
Qed.

Lemma uan_core_rs X Y s n a px force x s' : seg s = Some X -> EditSeg.same_shape Y X -> frame_ok X (fst px) = true ->
  paint_sg Y px n = paint_sg X px n ->
  user_add_node_core s n a (Some px) force = Ok x s' -> user_add_node_core (rs (Some Y) s) n a (Some px) force = Ok x s'.
Proof.
  intros Hs Sh Hf E H. pose proof (EditUAN.uan_core_cases s n a (Some px) force) as C. pose proof (EditUAN.uan_core_cases (rs (Some Y) s) n a (Some px) force) as Cy.
  rewrite (uan_refused_rs X Y s n a (Some px) force Hs Sh) in Cy.
  destruct (EditUAN.uan_refused s n a (Some px) force) as [e|]; [rewrite C in H; discriminate|].
  destruct C as (C & _). destruct Cy as (Cy & _). rewrite C in H. rewrite Cy. clear C Cy.
  assert (Ep : EditUAN.uan_pred (rs (Some Y) s) a = EditUAN.uan_pred s a) by (unfold EditUAN.uan_pred; change (EditUAN.uan_tid (rs (Some Y) s) a) with (EditUAN.uan_tid s a); now rewrite rs_track_neighbors).
  assert (Ec : EditUAN.uan_succ (rs (Some Y) s) a = EditUAN.uan_succ s a) by (unfold EditUAN.uan_succ; change (EditUAN.uan_tid (rs (Some Y) s) a) with (EditUAN.uan_tid s a); now rewrite rs_track_neighbors).
  assert (Eso : EditUAN.uan_sorted (rs (Some Y) s) a = rs (Some Y) (EditUAN.uan_sorted s a)) by (unfold EditUAN.uan_sorted; change (EditUAN.uan_tid (rs (Some Y) s) a) with (EditUAN.uan_tid s a); now rewrite rs_track_neighbors).
  rewrite Ep, Ec, Eso, (EditUAN.uan_conflict_edges_same_g s (rs (Some Y) s) _ _ eq_refl). change (EditUAN.uan_attrs (rs (Some Y) s) a) with (EditUAN.uan_attrs s a).
  set (pred := EditUAN.uan_pred s a) in *. set (succ := EditUAN.uan_succ s a) in *. set (es := EditUAN.uan_conflict_edges s pred succ) in *.
  set (s1 := EditUAN.uan_sorted s a) in *. set (a1 := EditUAN.uan_attrs s a) in *.
  assert (Hs1 : seg s1 = Some X) by (unfold s1; destruct (EditUAN.uan_sorted_frame s a) as (_ & E1 & _); congruence).
  unfold EditUAN.uan_steps in *. rewrite rs_uan_cut.
  pose proof (EditSeg.seg_eq_uan_cut es s1 []) as Q2.
  destruct (uan_cut es s1 []) as [acts s2|e s2]; cbn [rmap bind rstate] in *; [|discriminate].
  assert (Hs2 : seg s2 = Some X) by (unfold EditSeg.seg_eq in Q2; congruence).
  change (EditUAN.uan_lin_attrs (rs (Some Y) s2) a1 pred succ) with (EditUAN.uan_lin_attrs s2 a1 pred succ).
  unfold EditUAN.uan_splice in *.
  assert (Esk : EditUAN.uan_skip (rs (Some Y) s2) pred succ acts = rmap (rs (Some Y)) (EditUAN.uan_skip s2 pred succ acts)).
  { unfold EditUAN.uan_skip. destruct pred as [p|]; [destruct succ as [c|]|]; try reflexivity. rewrite rs_del_edge. apply bind_rmap. reflexivity. }
  rewrite Esk. pose proof (EditWFNode.estep_uan_skip s2 pred succ acts) as Q3.
  destruct (EditUAN.uan_skip s2 pred succ acts) as [r1 s3|e s3]; cbn [rmap bind rstate] in *; [|discriminate].
  assert (Hs3 : seg s3 = Some X) by (rewrite (EditWFNode.estep_seg _ _ Q3); exact Hs2).
  destruct (do_add_node s3 n (EditUAN.uan_lin_attrs s2 a1 pred succ) (Some px)) as [b s4|e s4] eqn:H2; [|discriminate].
  rewrite (add_node_same_paint X Y s3 n _ px b s4 Hs3 Hf Sh E H2). exact H.
Qed.

(* ================================================================== *)
(* B3. strokes                                                          *)
(* ================================================================== *)
(* ---- helpers ---- *)
Lemma arrays_ext (a b : list (list Z)) : EditSeg.same_shape a b ->
  (forall tm i, 0 <= tm -> label_at a tm i = label_at b tm i) -> a = b.
Proof.
  intros [L Sh] H. apply (nth_ext a b [] [] L). intros k Hk.
  assert (Ef : forall x : list (list Z), nth k x [] = frame_of x (Z.of_nat k)) by (intros x; unfold frame_of; now rewrite Nat2Z.id).
  rewrite !Ef. apply (nth_ext _ _ 0 0 (Sh (Z.of_nat k))). intros i _. apply (H (Z.of_nat k) i). lia.
Qed.

Lemma Chain_start_eqv k l x x' y : Chain (ConsN SI k) l x y -> obs_eq x x' -> Chain (ConsN SI k) l x' y.
Proof.
  intros C Hx. destruct C as [x y Hxy|a l x m y Ha C]; [constructor; eapply obs_eq_trans; [apply obs_eq_sym; exact Hx|exact Hxy]|].
  apply ch_cons with (m := m); [|exact C]. exact (ConsN_eqv SI k a x x' m m Hx (obs_eq_refl m) Ha).
Qed.

(* DeleteNode with exactly the node's pixels, in any order, is DeleteNode of the node's own mask *)
Lemma del_node_set_px s n p b s' : (forall sg, seg s = Some sg -> fst p = time_of s n /\
     forall j, (j < length (frame_of sg (fst p)))%nat -> (In (Z.of_nat j) (snd p) <-> label_at sg (fst p) j = n)) ->
  do_del_node s n (Some p) = Ok b s' -> exists b', do_del_node s n None = Ok b' s'.
Proof.
  intros Hex H. rewrite do_del_node_eq in H |- *. destruct (lookup n (nodes (g s))) as [d|]; [|discriminate]. cbv zeta in *.
  destruct (set_pixels s p 0) as [u s1|e s1] eqn:Ep; cbn [bind] in H; [|discriminate].
  destruct (set_pixels_char _ _ _ _ _ Ep) as (sg & Hs & Hf & ->). destruct (Hex sg Hs) as [Et Hiff].
  unfold get_pixels. rewrite Hs. destruct p as [tp idx]. cbn [fst snd] in *. subst tp.
  rewrite (set_pixels_run s sg (time_of s n, mask_of sg (time_of s n) n) 0 Hs Hf). cbn [bind].
  assert (Ep' : paint_sg sg (time_of s n, mask_of sg (time_of s n) n) 0 = paint_sg sg (time_of s n, idx) 0).
  { apply paint_ext; [exact Hf|]. intros j Hj. destruct (memz (Z.of_nat j) idx) eqn:Em.
    - apply memz_In in Em. apply memz_In. apply mask_of_In. split; [exact Hj|]. now apply Hiff.
    - apply memz_false in Em. apply memz_false. intros C. apply mask_of_In in C. destruct C as [_ C]. apply Em. now apply Hiff. }
  rewrite Ep'. unfold del_node_tail in *. destruct (negb (trk_act _)); injection H as _ <-; eauto.
Qed.

Theorem udn_core_WF_exact st n p a st' : WF st -> del_node_px_exact st n (Some p) ->
  user_delete_node_core st n (Some p) = Ok a st' -> WF st'.
Proof.
  intros W Hpx H. pose proof (EditUDN.udn_core_GWF st n (Some p) a st' (EditUDN.WF_GWF st W) H) as [C' D' F' T' L' B'].
  destruct W as [C D F T L B S R].
  destruct (EditUDN.udn_core_ok_unfold st n (Some p) a st' H) as (_ & Nn & acts & s4 & b & H4 & H5).
  pose proof (EditWFEdge.estep_ok _ _ _ _ (EditWFNode.estep_udn_prefix st n) H4) as E4.
  destruct (EditUDN.udn_prefix_spec st n D F T B Nn) as (acts' & s4' & H4' & Hd4 & _ & G4 & _).
  rewrite H4 in H4'. injection H4' as _ <-.
  pose proof (EditWFEdge.estep_W_seg st s4 E4 S) as S4. pose proof (EditWFEdge.estep_W_fresh st s4 E4 D R) as R4.
  destruct (del_node_set_px s4 n p b st') as (b' & H5'); [|exact H5|].
  { intros sg Hs. rewrite (EditUserEdge.gs_seg _ _ G4) in Hs. rewrite (EditUserEdge.gstep_time _ _ n G4). exact (Hpx sg Hs). }
  destruct (EditWFNode.del_node_own_seg_fresh s4 n b' st' Hd4 S4 R4 H5') as [S' R'].
  constructor; assumption.
Qed.

(* UpdateNodeSeg keeps WF: a shrink that leaves the node a pixel, a grow over background in the node's frame *)
Lemma upd_seg_WF st n t idx (added : bool) b st' sg : WF st -> rp_disjoint st -> seg st = Some sg -> is_node st n ->
  do_upd_seg st n (t, idx) added = Ok b st' ->
  (forall i, (i < length (frame_of sg t))%nat -> In (Z.of_nat i) idx -> label_at sg t i = n \/ (added = true /\ label_at sg t i = 0)) ->
  mask_of (EditSeg.paint_arr sg t idx (if added then n else 0)) (time_of st n) n <> [] ->
  (added = true -> t = time_of st n) -> (added = false -> EditSeg.keeps_pixel sg t idx (time_of st n) n) -> WF st'.
Proof.
  intros W Hrp Hs Hn H Hpix Hne Hg Hk. pose proof (EditWFPaint.upd_seg_GWF st n (t, idx) added b st' (EditUDN.WF_GWF st W) Hrp H) as G'.
  assert (Hkt : ~ In KTime (rp_act (ft st))) by (apply Hrp; unfold id_key; auto).
  apply EditWFPaint.GWF_WF; [exact G'| |].
  - destruct added.
    + rewrite (Hg eq_refl) in H, Hpix. apply (EditSeg.W_seg_upd_seg_grow st n idx b st' sg H Hs (w_seg _ W) Hkt Hn).
      intros i Hi Hin. destruct (Hpix i Hi Hin) as [E|[_ E]]; auto.
    + apply (EditSeg.W_seg_upd_seg_shrink st n t idx b st' sg H Hs (w_seg _ W) Hkt Hn); [|now apply Hk].
      intros i Hi Hin. destruct (Hpix i Hi Hin) as [E|[C _]]; [exact E|discriminate C].
  - pose proof (w_fresh _ W) as R. apply EditFresh.W_fresh_split in R. destruct R as [Rr Ri]. apply EditFresh.W_fresh_split.
    destruct (EditFresh.fresh_upd_seg st n t idx added b st' sg H Hs Hn Hkt (EditFresh.W_seg_nodes_sane st sg Hs (w_seg _ W)) Hpix Hne) as [P1 P2].
    split; [now apply P1|apply P2; [apply EditFresh.W_dict_edges_sane, W|exact Ri]].
Qed.

(* ---- the virtual states of a stroke ----
   Undo of a recorded stroke passes through states whose array holds, at the pixels of the groups that are
   still to be undone, the ORIGINAL labels (the caller repaints only at the very end in the forward direction).
   [VI gs s cur Y]: s is the forward mid-stroke state with array cur (groups gs still to be processed);
   Y is the array in which the pixels of the pending groups still carry their old labels and all other
   pixels of the stroke carry background; rs (Some Y) s is a well-formed state. *)
Section StrokeSim.
Variables (t nv : Z) (R : list Z) (k : nat).

Record VI (gs : list (pixels * Z)) (s : state) (cur Y : list (list Z)) : Prop := {
  vi_wf : WF (rs (Some Y) s);
  vi_shape : EditSeg.same_shape Y cur;
  vi_off : forall tm i, 0 <= tm -> ~ (tm = t /\ In (Z.of_nat i) R) -> label_at Y tm i = label_at cur tm i;
  vi_pend : forall g, In g gs -> forall i, (i < length (frame_of cur t))%nat -> In (Z.of_nat i) (snd (fst g)) -> label_at Y t i = snd g;
  vi_done : forall i, (i < length (frame_of cur t))%nat -> In (Z.of_nat i) R -> ~ In (Z.of_nat i) (EditSeg.all_pixels gs) -> label_at Y t i = 0;
  vi_incl : incl (EditSeg.all_pixels gs) R;
  vi_touch : EditFresh.only_touches cur t R nv
}.

Lemma lab_paint2 Y cur idx v tm i : EditSeg.same_shape Y cur -> 0 <= t -> 0 <= tm ->
  label_at (EditSeg.paint_arr Y t idx v) tm i =
  if (tm =? t) && memz (Z.of_nat i) idx && (i <? length (frame_of cur t))%nat then v else label_at Y tm i.
Proof. intros [_ Sh] Ht Htm. rewrite EditSeg.label_at_paint by assumption. now rewrite Sh. Qed.

Lemma paint_mask_off X idx v tm m : 0 <= t -> 0 <= tm -> tm <> t -> mask_of (EditSeg.paint_arr X t idx v) tm m = mask_of X tm m.
Proof.
  intros Ht Htm Hne. destruct (EditSeg.paint_same_shape X t idx v) as [_ Sh]. apply EditSeg.mask_of_ext; [apply Sh|].
  intros i _. rewrite EditSeg.label_at_paint by assumption. apply Z.eqb_neq in Hne. rewrite Hne. cbn [andb]. tauto.
Qed.

Lemma vi_mask_off gs s cur Y tm m : VI gs s cur Y -> 0 <= tm -> tm <> t -> mask_of Y tm m = mask_of cur tm m.
Proof.
  intros V Htm Hne. apply EditSeg.mask_of_ext; [apply (vi_shape _ _ _ _ V)|]. intros i _.
  rewrite (vi_off _ _ _ _ V tm i Htm); [tauto|]. intros [E _]. contradiction.
Qed.

Lemma vi_skip px r s cur Y : VI ((px, 0) :: r) s cur Y -> VI r s cur Y.
Proof.
  intros [V1 V2 V3 V4 V5 V6 V7]. constructor; auto.
  - intros g Hg. apply V4. now right.
  - intros i Hi Hin Hno. destruct (in_dec Z.eq_dec (Z.of_nat i) (snd px)) as [Hp|Hp].
    + apply (V4 (px, 0) (or_introl eq_refl) i Hi Hp).
    + apply V5; auto. unfold EditSeg.all_pixels. cbn [flat_map fst snd]. intros C. apply in_app_or in C. destruct C; contradiction.
  - intros x Hx. apply V6. unfold EditSeg.all_pixels. cbn [flat_map]. apply in_or_app. now right.
Qed.

Lemma vi_lab_R idx old r s cur Y i : VI ((t, idx, old) :: r) s cur Y -> NoDup (old :: map snd r) -> old <> 0 ->
  (i < length (frame_of cur t))%nat -> In (Z.of_nat i) R -> ~ In (Z.of_nat i) idx -> label_at Y t i <> old.
Proof.
  intros [V1 V2 V3 V4 V5 V6 V7] Hnd Hold Hi Hin Hno. inversion Hnd as [|? ? Hni _]; subst.
  destruct (in_dec Z.eq_dec (Z.of_nat i) (EditSeg.all_pixels r)) as [Hp|Hp].
  - unfold EditSeg.all_pixels in Hp. apply in_flat_map in Hp. destruct Hp as (g & Hg & Hp).
    rewrite (V4 g (or_intror Hg) i Hi Hp). intros E. apply Hni. rewrite <- E. now apply in_map.
  - rewrite V5; auto. unfold EditSeg.all_pixels. cbn [flat_map fst snd]. intros C. apply in_app_or in C. destruct C; contradiction.
Qed.

Lemma vi_old_iff idx old r s cur Y i : VI ((t, idx, old) :: r) s cur Y -> NoDup (old :: map snd r) -> old <> 0 -> old <> nv -> 0 <= t ->
  (i < length (frame_of cur t))%nat -> ~ In (Z.of_nat i) idx -> (label_at Y t i = old <-> label_at cur t i = old).
Proof.
  intros V Hnd Hold Hnv H0 Hi Hno. destruct (in_dec Z.eq_dec (Z.of_nat i) R) as [Hin|Hin].
  - pose proof (vi_lab_R idx old r s cur Y i V Hnd Hold Hi Hin Hno) as A.
    destruct (vi_touch _ _ _ _ V i Hi Hin) as [E|E]; split; intros C; congruence.
  - rewrite (vi_off _ _ _ _ V t i); [tauto|exact H0|tauto].
Qed.

Lemma vi_mask_old idx old r s cur Y : VI ((t, idx, old) :: r) s cur Y -> NoDup (old :: map snd r) -> old <> 0 -> old <> nv -> 0 <= t ->
  mask_of (EditSeg.paint_arr Y t idx 0) t old = mask_of (EditSeg.paint_arr cur t idx 0) t old.
Proof.
  intros V Hnd Hold Hnv Ht. pose proof (vi_shape _ _ _ _ V) as Sh.
  destruct (EditSeg.paint_same_shape Y t idx 0) as [_ S1]. destruct (EditSeg.paint_same_shape cur t idx 0) as [_ S2]. pose proof Sh as [_ S3].
  apply EditSeg.mask_of_ext; [now rewrite S1, S2, S3|]. intros i Hi. rewrite S1, S3 in Hi.
  rewrite (lab_paint2 Y cur idx 0 t i Sh Ht Ht), (EditSeg.label_at_paint cur t idx 0 t i Ht Ht).
  rewrite Z.eqb_refl. cbn [andb]. apply Nat.ltb_lt in Hi. rewrite Hi, andb_true_r. apply Nat.ltb_lt in Hi.
  destruct (memz (Z.of_nat i) idx) eqn:Em; [tauto|]. apply memz_false in Em. now apply (vi_old_iff idx old r s cur Y i).
Qed.

Lemma vi_exact idx old r s cur Y : VI ((t, idx, old) :: r) s cur Y -> NoDup (old :: map snd r) -> old <> 0 -> old <> nv -> 0 <= t ->
  mask_of cur t old = [] ->
  forall j, (j < length (frame_of Y t))%nat -> (In (Z.of_nat j) idx <-> label_at Y t j = old).
Proof.
  intros V Hnd Hold Hnv H0 He j Hj. pose proof (vi_shape _ _ _ _ V) as [_ S3]. rewrite S3 in Hj. split.
  - intros Hin. exact (vi_pend _ _ _ _ V (t, idx, old) (or_introl eq_refl) j Hj Hin).
  - intros E. destruct (in_dec Z.eq_dec (Z.of_nat j) idx) as [Hin|Hin]; [exact Hin|]. exfalso.
    apply (vi_old_iff idx old r s cur Y j V Hnd Hold Hnv H0 Hj Hin) in E.
    assert (C : In (Z.of_nat j) (mask_of cur t old)) by (apply mask_of_In; auto). rewrite He in C. destruct C.
Qed.

Lemma vi_paint idx old r s s1 cur Y : VI ((t, idx, old) :: r) s cur Y -> NoDup (old :: map snd r) -> 0 <= t ->
  WF (rs (Some (EditSeg.paint_arr Y t idx 0)) s1) ->
  VI r s1 (EditSeg.paint_arr cur t idx 0) (EditSeg.paint_arr Y t idx 0).
Proof.
  intros V Hnd Ht W1. pose proof V as [V1 V2 V3 V4 V5 V6 V7]. inversion Hnd as [|? ? Hni _]; subst.
  destruct (EditSeg.paint_same_shape cur t idx 0) as [_ S2].
  assert (Hsub : forall x, In x idx -> In x R).
  { intros x Hx. apply V6. unfold EditSeg.all_pixels. cbn [flat_map fst snd]. apply in_or_app. now left. }
  constructor.
  - exact W1.
  - eapply EditSeg.same_shape_trans; [apply EditSeg.paint_same_shape|]. eapply EditSeg.same_shape_trans; [exact V2|].
    apply EditSeg.same_shape_sym, EditSeg.paint_same_shape.
  - intros tm i Htm Hno. rewrite (lab_paint2 Y cur idx 0 tm i V2 Ht Htm), (EditSeg.label_at_paint cur t idx 0 tm i Ht Htm).
    destruct ((tm =? t) && memz (Z.of_nat i) idx && (i <? length (frame_of cur t))%nat); [reflexivity|now apply V3].
  - intros g Hg i Hi Hin. rewrite S2 in Hi. rewrite (lab_paint2 Y cur idx 0 t i V2 Ht Ht).
    destruct ((t =? t) && memz (Z.of_nat i) idx && (i <? length (frame_of cur t))%nat) eqn:Ec; [|apply (V4 g (or_intror Hg) i Hi Hin)].
    exfalso. apply andb_true_iff in Ec. destruct Ec as [Ec _]. apply andb_true_iff in Ec. destruct Ec as [_ Em]. apply memz_In in Em.
    pose proof (V4 (t, idx, old) (or_introl eq_refl) i Hi Em) as E1. pose proof (V4 g (or_intror Hg) i Hi Hin) as E2.
    cbn [snd] in E1. apply Hni. rewrite <- E1, E2. now apply in_map.
  - intros i Hi Hin Hno. rewrite S2 in Hi. rewrite (lab_paint2 Y cur idx 0 t i V2 Ht Ht).
    destruct ((t =? t) && memz (Z.of_nat i) idx && (i <? length (frame_of cur t))%nat) eqn:Ec; [reflexivity|].
    rewrite Z.eqb_refl in Ec. cbn [andb] in Ec. pose proof Hi as Hi'. apply Nat.ltb_lt in Hi'. rewrite Hi', andb_true_r in Ec.
    apply memz_false in Ec. apply V5; auto. unfold EditSeg.all_pixels. cbn [flat_map fst snd]. intros C. apply in_app_or in C. destruct C; contradiction.
  - intros x Hx. apply V6. unfold EditSeg.all_pixels. cbn [flat_map]. apply in_or_app. now right.
  - now apply EditWFPaint.only_touches_paint0.
Qed.


Notation SFx := (EditWFPaint.SF t nv R).
Notation PendOfx := (EditWFPaint.PendOf nv).
Notation grp_okx := (EditWFPaint.grp_ok t nv).

(* the loop over the overwritten labels, run from the virtual state: the same records, and a chain of
   consistent transitions between well-formed states *)
Lemma uus_groups_sim : forall gs s acc cur Y V0 acts s',
  EditUDN.GWF s -> rp_disjoint s -> SFx (PendOfx gs) s cur -> NoDup (map snd gs) -> (forall g, In g gs -> grp_okx s cur g) ->
  VI gs s cur Y -> Chain (ConsN SI k) acc V0 (rs (Some Y) s) ->
  uus_groups gs s acc = Ok acts s' ->
  exists cur' Y', EditUDN.GWF s' /\ rp_disjoint s' /\ SFx (PendOfx []) s' cur' /\ VI [] s' cur' Y' /\
     Chain (ConsN SI k) acts V0 (rs (Some Y') s').
Proof.
  induction gs as [|[px old] r IH]; intros s acc cur Y V0 acts s' W Hrp Hsf Hnd Hg HV HC H.
  - cbn [uus_groups] in H. injection H as <- <-. exists cur, Y. auto.
  - cbn [map snd] in Hnd. pose proof Hnd as Hnd0. inversion Hnd as [|? ? Hni Hnd']; subst.
    destruct (Hg (px, old) (or_introl eq_refl)) as (G1 & G2 & G3 & G4). cbn [fst snd] in G1, G2, G3, G4.
    assert (Hgr : forall g, In g r -> grp_okx s cur g) by (intros g Hin; apply Hg; now right).
    pose proof (EditWFPaint.sf_fok _ _ _ _ _ _ Hsf) as Hfok. pose proof (EditWFPaint.frame_ok_nonneg _ _ Hfok) as Ht0.
    pose proof (EditWFPaint.sf_seg _ _ _ _ _ _ Hsf) as Hseg.
    cbn [uus_groups] in H. destruct (Z.eqb_spec old 0) as [->|Hold].
    { apply (IH s acc cur Y V0 acts s' W Hrp); [|exact Hnd'|exact Hgr|now apply (vi_skip px)|exact HC|exact H].
      apply (EditWFPaint.sf_weaken t nv R (PendOfx ((px, 0) :: r))); [exact Hsf|now apply EditWFPaint.GWF_edges_sane| |].
      + intros m Hm [E|[E|E]]; [now left| |right; exact E]. cbn [snd] in E. subst m.
        destruct (EditWFPaint.sf_sane _ _ _ _ _ _ Hsf 0 Hm) as [C _]. now contradiction C.
      + intros m [E|E]; [now left|right; now right]. }
    specialize (G4 Hold). rewrite Hseg in H. destruct px as [tp idx]. cbn [fst snd] in *. subst tp.
    assert (Pnv : PendOfx ((t, idx, old) :: r) nv) by (now left).
    assert (Pold : PendOfx ((t, idx, old) :: r) old) by (right; now left).
    assert (Pa : forall m, PendOfx r m -> PendOfx ((t, idx, old) :: r) m) by (intros m [E|E]; [now left|right; now right]).
    assert (Pb : forall m, PendOfx ((t, idx, old) :: r) m -> m = old \/ PendOfx r m).
    { intros m [E|[E|E]]; [right; now left|left; now symmetry|right; now right]. }
    assert (Htold : time_of s old = t) by (apply (EditWFPaint.sf_pend_t _ _ _ _ _ _ Hsf); assumption).
    pose proof (vi_wf _ _ _ _ HV) as WV. pose proof (vi_shape _ _ _ _ HV) as Sh.
    assert (HrpV : rp_disjoint (rs (Some Y) s)) by exact Hrp.
    assert (Hnonneg : forall m, is_node s m -> 0 <= time_of s m).
    { intros m Hm. destruct (EditWFPaint.sf_sane _ _ _ _ _ _ Hsf m Hm) as [_ Hf]. now apply (EditWFPaint.frame_ok_nonneg cur). }
    destruct (mask_of cur t old) as [|p0 rest] eqn:Erem.
    + (* all pixels lost: nested UserDeleteNode *)
      match type of H with context [user_delete_node ?x1 ?x2 ?x3 ?x4] => destruct (user_delete_node x1 x2 x3 x4) as [a s1|e s1] eqn:H1u end; cbn [bind] in H; [|discriminate H].
      pose proof H1u as H1. unfold user_delete_node in H1. apply EditSeg.top_wrap_false_ok in H1.
      pose proof (EditUDN.udn_core_GWF s old _ a s1 W H1) as W1.
      destruct (EditUDN.udn_core_ok_unfold s old _ a s1 H1) as (_ & Nold & acts4 & s4 & b & H4 & H5).
      pose proof (EditWFPaint.qstep_ok _ _ _ _ (EditWFPaint.qstep_udn_prefix s old) H4) as Q4.
      destruct (EditUDN.udn_prefix_spec s old (EditUDN.gw_dict _ W) (EditUDN.gw_forest _ W) (EditUDN.gw_trk _ W) (EditUDN.gw_book _ W) Nold)
        as (acts4' & s4' & H4' & Hd4 & _). rewrite H4 in H4'. injection H4' as _ <-.
      pose proof (EditWFPaint.sf_qstep _ _ _ _ _ _ _ Hsf Hrp Q4) as Hsf4.
      pose proof (EditWFPaint.sf_del_node t nv R _ (PendOfx r) s4 cur old idx b s1 Hsf4 (EditFresh.W_dict_edges_sane _ Hd4) Pnv G3 Pold Pa Pb G2 Erem H5) as Hsf1.
      pose proof (EditWFPaint.udn_core_ft _ _ _ _ _ H1) as Hft1.
      assert (HN1 : forall m, is_node s1 m <-> m <> old /\ is_node s m).
      { intros m. destruct (EditSeg.del_node_effect _ _ _ _ _ H5) as (_ & _ & HN & _). rewrite HN.
        destruct Q4 as (_ & _ & N4 & _). now rewrite (EditSeg.nodes_keep_is_node _ _ _ m N4). }
      destruct (udn_core_rs cur Y s old (t, idx) a s1 Hseg Sh) as [EV Hs1]; [|exact H1|].
      { intros m Hm Htm. rewrite Htold in Htm. apply (vi_mask_off _ _ _ _ _ m HV); [now apply Hnonneg|exact Htm]. }
      change (paint_sg Y (t, idx) 0) with (EditSeg.paint_arr Y t idx 0) in EV.
      assert (Hex : del_node_px_exact (rs (Some Y) s) old (Some (t, idx))).
      { intros sg Hsg. unfold rs in Hsg. cbn [seg upd_seg] in Hsg. injection Hsg as <-. cbn [fst snd]. split; [symmetry; exact Htold|].
        exact (vi_exact idx old r s cur Y HV Hnd0 Hold G3 Ht0 Erem). }
      pose proof (udn_core_WF_exact _ _ _ _ _ WV Hex EV) as WV1.
      assert (Cn : ConsN SI k a (rs (Some Y) s) (rs (Some (EditSeg.paint_arr Y t idx 0)) s1)).
      { apply (udn_ConsS k _ old (Some (t, idx)) a _ WV HrpV); [|exact Hex|exact EV]. intros C. unfold rs in C. cbn [seg upd_seg] in C. discriminate C. }
      apply (IH s1 (acc ++ [a]) (EditSeg.paint_arr cur t idx 0) (EditSeg.paint_arr Y t idx 0) V0 acts s' W1 (EditWFNode.rp_disjoint_ft _ _ Hft1 Hrp) Hsf1 Hnd');
        [|exact (vi_paint idx old r s s1 cur Y HV Hnd0 Ht0 WV1)|exact (Chain_snoc SI k acc a V0 _ _ HC Cn)|exact H].
      intros g Hin. destruct (Hgr g Hin) as (B1 & B2 & B3 & B4). split; [exact B1|]. split; [now apply EditWFPaint.only_touches_paint0|]. split; [exact B3|].
      intros Hg0. apply HN1. split; [|now apply B4]. intros E. apply Hni. rewrite <- E. now apply in_map.
    + (* some pixels left: UpdateNodeSeg (shrink) *)
      match type of H with context [do_upd_seg ?x1 ?x2 ?x3 ?x4] => destruct (do_upd_seg x1 x2 x3 x4) as [b s1|e s1] eqn:H1 end; cbn [bind] in H; [|discriminate H].
      pose proof (EditWFPaint.upd_seg_GWF _ _ _ _ _ _ W Hrp H1) as W1.
      assert (Hne : mask_of (EditSeg.paint_arr cur t idx 0) t old <> []).
      { rewrite (EditWFPaint.stroke_mask_other t nv cur idx 0 old t Hfok Ht0 G2 (or_introl eq_refl) Hold G3), Erem. discriminate. }
      pose proof (EditWFPaint.sf_upd_seg t nv R _ (PendOfx r) s cur old idx false b s1 Hsf (EditUDN.gw_dict _ W) Hrp G4 Pold Pa Pb
                    (or_intror (or_introl eq_refl)) ltac:(discriminate) G2 Hne H1) as Hsf1.
      destruct (EditSeg.upd_seg_effect _ _ _ _ _ _ _ _ H1 Hseg) as (_ & _ & Hft1 & Hk1).
      pose proof (vi_mask_old idx old r s cur Y HV Hnd0 Hold G3 Ht0) as Emask.
      destruct (rs_upd_seg cur Y s old (t, idx) false b s1 Hrp Hseg Sh) as [EV Hs1]; [|exact H1|].
      { cbv zeta. change (paint_sg cur (t, idx) 0) with (EditSeg.paint_arr cur t idx 0). change (paint_sg Y (t, idx) 0) with (EditSeg.paint_arr Y t idx 0).
        assert (Hoff : forall m, is_node s m -> time_of s m <> t ->
                  mask_of (EditSeg.paint_arr Y t idx 0) (time_of s m) m = mask_of (EditSeg.paint_arr cur t idx 0) (time_of s m) m).
        { intros m Hm Htm. pose proof (Hnonneg m Hm) as H0. rewrite !paint_mask_off by assumption. now apply (vi_mask_off _ _ _ _ _ m HV). }
        intros m [->|[He|He]].
        - rewrite Htold. exact Emask.
        - destruct (EditWFPaint.GWF_edges_sane _ W m old He) as [Nm _]. apply Hoff; [exact Nm|].
          pose proof (wf_time _ (EditUDN.gw_forest _ W) m old He). lia.
        - destruct (EditWFPaint.GWF_edges_sane _ W old m He) as [_ Nm]. apply Hoff; [exact Nm|].
          pose proof (wf_time _ (EditUDN.gw_forest _ W) old m He). lia. }
      change (paint_sg Y (t, idx) 0) with (EditSeg.paint_arr Y t idx 0) in EV.
      assert (Hpix : forall i, (i < length (frame_of Y t))%nat -> In (Z.of_nat i) idx -> label_at Y t i = old).
      { intros i Hi Hin. destruct Sh as [_ S3]. rewrite S3 in Hi. exact (vi_pend _ _ _ _ HV (t, idx, old) (or_introl eq_refl) i Hi Hin). }
      assert (WV1 : WF (rs (Some (EditSeg.paint_arr Y t idx 0)) s1)).
      { apply (upd_seg_WF (rs (Some Y) s) old t idx false b _ Y WV HrpV eq_refl G4 EV).
        - intros i Hi Hin. left. now apply Hpix.
        - change (time_of (rs (Some Y) s) old) with (time_of s old). rewrite Htold, Emask. exact Hne.
        - discriminate.
        - intros _. change (time_of (rs (Some Y) s) old) with (time_of s old). rewrite Htold.
          assert (Hm : mask_of cur t old <> []) by (rewrite Erem; discriminate). apply EditSeg.mask_nonempty in Hm. destruct Hm as (i & Hi & El).
          assert (Hno : ~ In (Z.of_nat i) idx).
          { intros C. destruct (G2 i Hi C) as [E|E]; congruence. }
          exists i. destruct Sh as [_ S3]. split; [now rewrite S3|]. split; [|tauto].
          now apply (vi_old_iff idx old r s cur Y i HV Hnd0 Hold G3 Ht0 Hi Hno). }
      assert (Cn : ConsN SI k (ABasic b) (rs (Some Y) s) (rs (Some (EditSeg.paint_arr Y t idx 0)) s1)).
      { apply (upd_seg_ConsS k _ old (t, idx) false b _); [|exact EV]. constructor.
        - apply WV.
        - apply WV.
        - exact HrpV.
        - exact G4.
        - apply seg_fresh_at_useg. apply W_fresh_seg_fresh_at; [apply WV|apply WV|exact G4].
        - intros sg i Hsg Hi Hin. unfold rs in Hsg. cbn [seg upd_seg] in Hsg. injection Hsg as <-. cbn [fst snd] in *. now apply Hpix. }
      apply (IH s1 (acc ++ [ABasic b]) (EditSeg.paint_arr cur t idx 0) (EditSeg.paint_arr Y t idx 0) V0 acts s' W1 (EditWFNode.rp_disjoint_ft _ _ Hft1 Hrp) Hsf1 Hnd');
        [|exact (vi_paint idx old r s s1 cur Y HV Hnd0 Ht0 WV1)|exact (Chain_snoc SI k acc _ V0 _ _ HC Cn)|exact H].
      intros g Hin. destruct (Hgr g Hin) as (B1 & B2 & B3 & B4). split; [exact B1|]. split; [now apply EditWFPaint.only_touches_paint0|]. split; [exact B3|].
      intros Hg0. apply (EditSeg.nodes_keep_is_node _ _ _ _ Hk1). now apply B4.
Qed.
End StrokeSim.

(* when the loop is over the two arrays differ only on the stroke's pixels: background in the virtual
   array, background or the new label in the forward one *)
Lemma vi_end_paint t nv R s cur Y v : VI t nv R [] s cur Y -> 0 <= t -> EditSeg.paint_arr Y t R v = EditSeg.paint_arr cur t R v.
Proof.
  intros V Ht. pose proof (vi_shape _ _ _ _ _ _ _ V) as Sh. apply arrays_ext.
  - eapply EditSeg.same_shape_trans; [apply EditSeg.paint_same_shape|]. eapply EditSeg.same_shape_trans; [exact Sh|].
    apply EditSeg.same_shape_sym, EditSeg.paint_same_shape.
  - intros tm i Htm. rewrite (lab_paint2 t Y cur R v tm i Sh Ht Htm), (EditSeg.label_at_paint cur t R v tm i Ht Htm).
    destruct ((tm =? t) && memz (Z.of_nat i) R && (i <? length (frame_of cur t))%nat) eqn:Ec; [reflexivity|].
    destruct (Z.eqb_spec tm t) as [->|Hne]; [|apply (vi_off _ _ _ _ _ _ _ V); [exact Htm|tauto]]. cbn [andb] in Ec.
    destruct (memz (Z.of_nat i) R) eqn:Em; [|apply memz_false in Em; apply (vi_off _ _ _ _ _ _ _ V); [exact Htm|tauto]].
    cbn [andb] in Ec. apply Nat.ltb_ge in Ec. destruct Sh as [_ S3].
    rewrite (EditSeg.label_at_overflow cur t i Ec). apply EditSeg.label_at_overflow. now rewrite S3.
Qed.

Lemma vi_end_zero t R s cur Y : VI t 0 R [] s cur Y -> 0 <= t -> Y = cur.
Proof.
  intros V Ht. pose proof (vi_shape _ _ _ _ _ _ _ V) as Sh. apply arrays_ext; [exact Sh|]. intros tm i Htm.
  destruct (Z.eq_dec tm t) as [->|Hne]; [|apply (vi_off _ _ _ _ _ _ _ V); [exact Htm|tauto]].
  destruct (in_dec Z.eq_dec (Z.of_nat i) R) as [Hin|Hin]; [|apply (vi_off _ _ _ _ _ _ _ V); [exact Htm|tauto]].
  destruct (Nat.lt_ge_cases i (length (frame_of cur t))) as [Hi|Hi].
  - rewrite (vi_done _ _ _ _ _ _ _ V i Hi Hin) by (intros C; destruct C).
    destruct (vi_touch _ _ _ _ _ _ _ V i Hi Hin) as [E|E]; now rewrite E.
  - destruct Sh as [_ S3]. rewrite (EditSeg.label_at_overflow cur t i Hi). apply EditSeg.label_at_overflow. now rewrite S3.
Qed.

Lemma rs_same_obs s cur : seg s = Some cur -> obs_eq (rs (Some cur) s) s.
Proof. intros Hs. apply core_eq_obs. unfold core_eq, rs. cbn [g seg ft bk upd_seg]. auto. Qed.

(* UserUpdateSegmentation from the painted state, seen from the virtual state: a consistent transition *)
Theorem uus_core_ConsS t nv R k s0 cur Y groups T force a pl s1 :
  EditUDN.GWF s0 -> rp_disjoint s0 -> EditWFPaint.SF t nv R (EditWFPaint.PendOf nv groups) s0 cur -> NoDup (map snd groups) ->
  (forall g, In g groups -> EditWFPaint.grp_ok t nv s0 cur g) -> groups <> [] -> R = EditSeg.all_pixels groups ->
  VI t nv R groups s0 cur Y ->
  user_update_seg_core s0 nv groups T force = Ok (a, pl) s1 -> ConsN SI k a (rs (Some Y) s0) s1.
Proof.
  intros W Hrp Hsf Hnd Hg Hne ER HV H. unfold user_update_seg_core in H. rewrite (EditWFPaint.sf_seg _ _ _ _ _ _ Hsf) in H.
  destruct (negb (nv =? 0) && _ && has_node s0 nv && _); [discriminate|].
  apply EditSeg.bind_ok in H. destruct H as (acts & s & H1 & H).
  destruct (uus_groups_sim t nv R k groups s0 [] cur Y (rs (Some Y) s0) acts s W Hrp Hsf Hnd Hg HV (ch_nil _ _ _ (obs_eq_refl _)) H1)
    as (cur' & Y' & W' & Hrp' & Hsf' & HV' & HC).
  pose proof (EditWFPaint.sf_seg _ _ _ _ _ _ Hsf') as Hseg'. pose proof (EditWFPaint.sf_fok _ _ _ _ _ _ Hsf') as Hfok'.
  pose proof (EditWFPaint.frame_ok_nonneg _ _ Hfok') as Ht0.
  pose proof (vi_wf _ _ _ _ _ _ _ HV') as WV. pose proof (vi_shape _ _ _ _ _ _ _ HV') as Sh.
  assert (HrpV : rp_disjoint (rs (Some Y') s)) by exact Hrp'.
  destruct groups as [|[px0 old0] gr]; [now contradiction Hne|].
  assert (Ht : fst px0 = t) by (destruct (Hg (px0, old0) (or_introl eq_refl)) as (G1 & _); exact G1).
  destruct (Z.eqb_spec nv 0) as [Hnv0|Hnv0].
  - (* an erasing stroke *)
    injection H as <- _ <-. subst nv. rewrite (vi_end_zero t R s cur' Y' HV' Ht0) in HC.
    apply group_ConsN. exact (Chain_end_eqvS k acts _ _ s HC (rs_same_obs s cur' Hseg')).
  - cbv zeta in H. rewrite Ht in H. fold (EditSeg.all_pixels ((px0, old0) :: gr)) in H. rewrite <- ER in H.
    assert (Hz : forall i, (i < length (frame_of Y' t))%nat -> In (Z.of_nat i) R -> label_at Y' t i = 0).
    { intros i Hi Hin. destruct Sh as [_ S3]. rewrite S3 in Hi. apply (vi_done _ _ _ _ _ _ _ HV' i Hi Hin). intros C. destruct C. }
    destruct (has_node s nv) eqn:Hh.
    + (* the label exists: it grows *)
      apply EditSeg.bind_ok in H. destruct H as (b & s2 & H2 & H). injection H as <- _ <-. apply has_node_is_node in Hh.
      assert (EV : do_upd_seg (rs (Some Y') s) nv (t, R) true = Ok b s2).
      { rewrite (upd_seg_same_paint cur' Y' s nv (t, R) true Hseg' Hfok' Sh); [exact H2|]. exact (vi_end_paint t nv R s cur' Y' nv HV' Ht0). }
      apply group_ConsN. apply (Chain_snoc SI k acts _ _ _ _ HC). apply (upd_seg_ConsS k _ nv (t, R) true b s2); [|exact EV]. constructor.
      * apply WV.
      * apply WV.
      * exact HrpV.
      * exact Hh.
      * apply seg_fresh_at_useg. apply W_fresh_seg_fresh_at; [apply WV|apply WV|exact Hh].
      * intros sg i Hsg Hi Hin. unfold rs in Hsg. cbn [seg upd_seg] in Hsg. injection Hsg as <-. cbn [fst snd] in *. now apply Hz.
    + (* a new label: nested UserAddNode *)
      assert (Nnv : ~ is_node s nv) by (intros C; apply has_node_is_node in C; congruence).
      match type of H with context [user_add_node ?x1 ?x2 ?x3 ?x4 ?x5 ?x6] =>
        destruct (user_add_node x1 x2 x3 x4 x5 x6) as [x s2|e s2] eqn:H2 end.
      2:{ destruct e; try discriminate H. destruct (rollback _ s2); discriminate H. }
      injection H as <- _ <-. unfold user_add_node in H2. apply EditSeg.top_wrap_false_ok in H2.
      destruct (EditWFPaint.stroke_attrs_ok t T) as (Ao & Hnl & Htm). fold (EditWFPaint.stroke_attrs t T) in H2.
      assert (EV : user_add_node_core (rs (Some Y') s) nv (EditWFPaint.stroke_attrs t T) (Some (t, R)) force = Ok x s2).
      { apply (uan_core_rs cur' Y' s nv _ (t, R) force x s2 Hseg' Sh Hfok'); [|exact H2]. exact (vi_end_paint t nv R s cur' Y' nv HV' Ht0). }
      apply group_ConsN. apply (Chain_snoc SI k acts _ _ _ _ HC).
      apply (uan_ConsS k _ nv _ (Some (t, R)) force x s2 WV HrpV Ao); [|intros _; exact Hnv0| |exact EV].
      * apply add_node_px_ok_intro; [apply WV|exact Nnv|apply Ao|intros _; exact Hnv0|].
        intros sg Hsg. unfold rs in Hsg. cbn [seg upd_seg] in Hsg. injection Hsg as <-. exists t.
        split; [reflexivity|]. split; [now rewrite (EditSeg.frame_ok_shape _ _ _ Sh)|]. split; [reflexivity|]. cbn [snd]. exact Hz.
      * intros C. unfold rs in C. cbn [seg upd_seg] in C. discriminate C.
Qed.

(* an accepted stroke: the core result (before the action is pushed on the history) *)
Theorem paint_core_Consistent st nv t idx T force a st' :
  WF st -> rp_disjoint st -> paint st nv t idx T force = Ok a st' ->
  exists s1 pl, st' = finish_top s1 a pl /\ WF s1 /\ EditFrame.aux_eq st s1 /\ Consistent SI a st s1.
Proof.
  intros W Hrp H. unfold paint in H. destruct (seg st) as [sg|] eqn:Hs.
  2:{ unfold user_update_seg, user_update_seg_core in H. rewrite Hs in H. discriminate H. }
  destruct (frame_ok sg t) eqn:Hfok; [|discriminate H]. cbn [negb] in H. cbv zeta in H.
  fold (EditSeg.all_pixels (paint_groups sg t idx nv)) in H. fold (EditSeg.paint_arr sg t (EditSeg.all_pixels (paint_groups sg t idx nv)) nv) in H.
  set (R := EditSeg.all_pixels (paint_groups sg t idx nv)) in *. set (s0 := upd_seg st (Some (EditSeg.paint_arr sg t R nv))) in *.
  destruct (user_update_seg s0 nv (paint_groups sg t idx nv) T force) as [a0 s2|e s2] eqn:Hu; [|discriminate H].
  injection H as <- <-. unfold user_update_seg in Hu.
  destruct (user_update_seg_core s0 nv (paint_groups sg t idx nv) T force) as [[a1 pl] s1|e s1] eqn:Hc; [|discriminate Hu].
  injection Hu as <- <-. exists s1, pl. split; [reflexivity|].
  pose proof (EditWFPaint.frame_ok_nonneg _ _ Hfok) as Ht0.
  assert (Ax : EditFrame.aux_eq st s1).
  { pose proof (EditFrame.aux_user_update_seg_core' st s0 nv (paint_groups sg t idx nv) T force) as F. rewrite Hc in F. apply F.
    unfold EditFrame.aux_eq, s0. cbn [undo_stack redo_stack rlog nctr ft upd_seg]. auto. }
  split; [|split; [exact Ax|]].
  - (* WF of the core result, as in EditWFPaint.paint_WF *)
    assert (Wf : WF (finish_top s1 a1 pl)).
    { apply (EditWFPaint.paint_WF st nv t idx T force a1 (finish_top s1 a1 pl) W Hrp). unfold paint. rewrite Hs, Hfok. cbn [negb]. cbv zeta.
      fold (EditSeg.all_pixels (paint_groups sg t idx nv)). fold (EditSeg.paint_arr sg t (EditSeg.all_pixels (paint_groups sg t idx nv)) nv).
      fold R. fold s0. unfold user_update_seg. now rewrite Hc. }
    destruct (EditFrame.finish_top_spec s1 a1 pl) as (_ & _ & _ & Eg' & Es' & Ef' & Eb' & _).
    apply (EditWFEdge.WF_same (finish_top s1 a1 pl) s1); congruence.
  - intros k. destruct (paint_groups sg t idx nv) as [|[px0 old0] gr] eqn:Eg.
    + assert (ER : R = []) by reflexivity. unfold s0 in Hc. rewrite ER, (EditWFPaint.paint_arr_nil sg t nv Ht0) in Hc.
      unfold user_update_seg_core in Hc. cbn [seg upd_seg] in Hc. rewrite !andb_false_r in Hc. cbn [andb uus_groups bind] in Hc.
      injection Hc as <- _ <-. apply group_ConsN. constructor. apply core_eq_obs. unfold core_eq. cbn [g seg ft upd_seg]. auto.
    + assert (Ht : fst px0 = t).
      { assert (Hin : In (px0, old0) (paint_groups sg t idx nv)) by (rewrite Eg; now left). apply EditSeg.paint_groups_In in Hin. tauto. }
      assert (Hnvt : is_node st nv -> time_of st nv = t).
      { intros Hn. destruct (Z.eq_dec nv 0) as [->|Hnv0].
        - pose proof (w_seg _ W) as WS. apply (EditSeg.W_seg_iff _ _ Hs) in WS. destruct WS as (_ & _ & I3). now destruct (I3 0 Hn).
        - rewrite <- Ht. exact (EditWFPaint.uus_core_ok_time s0 nv px0 old0 gr T force _ _ Hc Hnv0 Hn). }
      assert (ER : R = EditSeg.all_pixels (paint_groups sg t idx nv)) by (rewrite Eg; reflexivity).
      destruct (EditWFPaint.paint_init t nv R st sg idx W Hs Hfok ER Hnvt) as (W0 & Hsf & Hg & Htouch & Hhit).
      assert (Hnd : NoDup (map snd (paint_groups sg t idx nv))) by apply EditWFPaint.paint_groups_labels_nodup.
      assert (HV : VI t nv R (paint_groups sg t idx nv) s0 (EditSeg.paint_arr sg t R nv) sg).
      { constructor.
        - apply (EditWFEdge.WF_same st); try reflexivity; [cbn [rs seg upd_seg]; now rewrite Hs|exact W].
        - apply EditSeg.same_shape_sym, EditSeg.paint_same_shape.
        - intros tm i Htm Hno. rewrite (EditSeg.label_at_paint sg t R nv tm i Ht0 Htm).
          destruct ((tm =? t) && memz (Z.of_nat i) R && (i <? length (frame_of sg t))%nat) eqn:Ec; [|reflexivity].
          exfalso. apply andb_true_iff in Ec. destruct Ec as [Ec _]. apply andb_true_iff in Ec. destruct Ec as [E1 E2].
          apply Z.eqb_eq in E1. apply memz_In in E2. tauto.
        - intros g Hgin i Hi Hin. destruct (EditSeg.paint_groups_In _ _ _ _ _ Hgin) as (_ & _ & Hpx). apply Hpx in Hin.
          apply EditSeg.io_of_In in Hin. destruct Hin as (j & Ej & _ & _ & El & _). apply Nat2Z.inj in Ej. now subst j.
        - intros i _ Hin Hno. exfalso. apply Hno. rewrite Eg. exact Hin.
        - rewrite Eg. apply incl_refl.
        - exact Htouch. }
      rewrite Eg in Hsf, Hg, Hnd, HV.
      pose proof (uus_core_ConsS t nv R k s0 _ sg ((px0, old0) :: gr) T force a1 pl s1 W0 Hrp Hsf Hnd Hg ltac:(discriminate) eq_refl HV Hc) as C.
      apply (ConsN_eqv SI k a1 (rs (Some sg) s0) st s1 s1); [|apply obs_eq_refl|exact C].
      apply core_eq_obs. unfold core_eq, rs, s0. cbn [g seg ft upd_seg]. auto.
Qed.

(* B: an accepted stroke is a transition between well-formed states whose record is consistent: undo, redo,
   undo, ... of the recorded group alternates between (observational copies of) the two states, however
   often, and from any state that agrees with them on what can be observed *)
Theorem C01_TrW_paint st nv t idx T force a st' : WF st -> reg_ok st -> rp_disjoint st ->
  paint st nv t idx T force = Ok a st' -> TrW a st st'.
Proof.
  intros W Rg P H. destruct (paint_core_Consistent st nv t idx T force a st' W P H) as (s1 & pl & -> & W1 & (_ & _ & _ & _ & Ef) & C).
  destruct (EditFrame.finish_top_spec s1 a pl) as (_ & _ & _ & Eg' & Es' & Ef' & Eb' & _).
  apply TrI_SI_of; auto; [now apply EditWFEdge.WF_finish_top|congruence|].
  intros k. apply (ConsN_eqv SI k a st st s1 (finish_top s1 a pl) (obs_eq_refl st)); [|apply C]. apply core_eq_obs. unfold core_eq. auto.
Qed.

(* one stroke in a session; a refused stroke must be one of those whose refusal involves no rollback of
   sub-actions (EditWFPaint.paint_pre): C11 for the rolled-back refusal is not proved in EditWFPaint *)
Lemma paint_session st tl nv t idx T force : SInv st tl -> EditWFPaint.paint_pre st nv t idx T force ->
  let res := step st (OPaint nv t idx T force) in
  SInv (fst res) (if fst (snd res) =? 0 then A.t_edit _ tl (fst res) else tl).
Proof.
  intros I Pre. pose proof (SInv_WF st tl I) as W. pose proof I as (Ss & _ & _). pose proof (si_rp st Ss) as Hrp.
  cbn [step]. destruct (paint st nv t idx T force) as [a st'|e st'] eqn:H; cbn [fin fst snd].
  - change (0 =? 0) with true. cbv iota.
    destruct (paint_core_Consistent st nv t idx T force a st' W Hrp H) as (s1 & pl & -> & W1 & (Eu & Er & _ & _ & Ef) & C).
    exact (SInv_edit st tl a s1 pl I W1 Ef Eu Er C).
  - assert (Hc : ecode e =? 0 = false) by (apply Z.eqb_neq; apply EditFrame.ecode_not_small). rewrite Hc.
    assert (Hnr : EditWFPaint.paint_no_rollback st nv t idx force).
    { destruct Pre as [(a & s & E)|E]; [rewrite H in E; discriminate E|exact E]. }
    destruct (EditWFPaint.paint_refused_WF_partial st nv t idx T force e st' W Hrp Hnr H) as [U W'].
    pose proof U as (Eg & Es & Ef & Eu & Er & _).
    exact (SInv_same st st' tl I W' Eg Es Ef Eu Er).
Qed.

(* ================================================================== *)
(* C. the session theorems over the whole interface                     *)
(* ================================================================== *)
Definition full_fragment (o : op) : bool := true.

Lemma step_ft_all st o : ft (fst (step st o)) = ft st.
Proof.
  destruct o; try (apply EditWFPaint.step_paint_ft; reflexivity).
  - apply EditWFEdge.step_edge_attr_ft. reflexivity.
  - cbn [step]. unfold undo. cbv zeta. destruct (_ <=? _)%nat; [reflexivity|].
    destruct (nth_error _ _) as [a|]; [|reflexivity].
    pose proof (EditFrame.aux_inv_action st a) as (_ & _ & _ & _ & H). destruct (inv_action st a); cbn in *; exact H.
  - cbn [step]. unfold redo. destruct (rev (redo_stack st)) as [|b r']; [reflexivity|].
    pose proof (EditFrame.aux_inv_action (upd_hist st (undo_stack st) (rev r')) b) as (_ & _ & _ & _ & H).
    destruct (inv_action _ b); cbn in *; exact H.
Qed.

Lemma rp_decl_step st o : rp_decl st -> rp_decl (fst (step st o)).
Proof. unfold rp_decl. now rewrite step_ft_all. Qed.

Definition is_edit_op_full (o : op) : bool :=
  match o with OUpdAttrs _ _ | OPaint _ _ _ _ _ => true | _ => is_edit_op o end.

(* the reference timeline, now for every call *)
Definition tl_step_full (st : state) (t : A.tline state) (o : op) : A.tline state :=
  match o with
  | OUndo => fst (A.t_undo _ t)
  | ORedo => fst (A.t_redo _ t)
  | _ => if is_edit_op_full o && (fst (snd (step st o)) =? 0) then A.t_edit _ t (fst (step st o)) else t
  end.

Lemma tl_step_full_old st t o : session_fragment o = true -> tl_step_full st t o = tl_step st t o.
Proof. destruct o; cbn; try reflexivity; discriminate. Qed.

(* the side conditions: those of UserAddNode (EditWFNode.op_pre), positions when there is no
   segmentation (op_pre2), and for a stroke: accepted, or refused without a rollback (EditWFPaint.paint_pre) *)
Definition op_pre_full (st : state) (o : op) : Prop := EditWFPaint.op_pre_paint st o /\ op_pre2 st o.

Theorem step_session_full st t o : full_fragment o = true -> SInv st t -> rp_decl st -> op_pre_full st o ->
  SInv (fst (step st o)) (tl_step_full st t o) /\ rp_decl (fst (step st o)) /\
  (o = OUndo -> fst (snd (step st o)) = if snd (A.t_undo _ t) then 1 else 2) /\
  (o = ORedo -> fst (snd (step st o)) = if snd (A.t_redo _ t) then 1 else 2).
Proof.
  intros _ I D [P1 P2]. split; [|split; [now apply rp_decl_step|]].
  - destruct (session_fragment o) eqn:Hf.
    + rewrite (tl_step_full_old st t o Hf). apply (step_session st t o Hf I); [|exact P2]. destruct o; try exact P1; discriminate Hf.
    + destruct o; try discriminate Hf; unfold tl_step_full; cbn [is_edit_op_full andb].
      * exact (upd_attrs_session st t n a I D).
      * exact (paint_session st t new_value t0 idx T force I P1).
  - destruct (session_fragment o) eqn:Hf.
    + assert (P1' : EditWFNode.op_pre st o) by (destruct o; try exact P1; discriminate Hf).
      destruct (step_session st t o Hf I P1' P2) as (_ & A1 & A2). auto.
    + split; intros ->; discriminate Hf.
Qed.

Fixpoint tl_run_full (st : state) (t : A.tline state) (ops : list op) : A.tline state :=
  match ops with [] => t | o :: r => tl_run_full (fst (step st o)) (tl_step_full st t o) r end.

Definition pre_along_full (st : state) (ops : list op) : Prop :=
  forall pre o post, ops = pre ++ o :: post -> op_pre_full (run st pre) o.

Lemma pre_along_full_tail st o r : pre_along_full st (o :: r) -> pre_along_full (fst (step st o)) r.
Proof.
  intros H pre o' post E. specialize (H (o :: pre) o' post). cbn [app] in H.
  change (run st (o :: pre)) with (run (fst (step st o)) pre) in H. apply H. now rewrite E.
Qed.

Theorem run_session_full : forall ops st t, forallb full_fragment ops = true -> SInv st t -> rp_decl st -> pre_along_full st ops ->
  SInv (run st ops) (tl_run_full st t ops) /\ rp_decl (run st ops).
Proof.
  induction ops as [|o r IH]; intros st t Hf I D Hpre; [split; assumption|].
  cbn [forallb] in Hf. apply andb_true_iff in Hf. destruct Hf as [Ho Hr].
  pose proof (Hpre [] o r eq_refl) as P. cbn [run fold_left] in P.
  destruct (step_session_full st t o Ho I D P) as (I1 & D1 & _).
  change (run st (o :: r)) with (run (fst (step st o)) r). cbn [tl_run_full].
  apply IH; [exact Hr|exact I1|exact D1|now apply pre_along_full_tail].
Qed.

Lemma full_fragment_all ops : forallb full_fragment ops = true.
Proof. induction ops; [reflexivity|exact IHops]. Qed.

Lemma tl_step_full_grows st t o : exists ext, A.tl _ (tl_step_full st t o) = A.tl _ t ++ ext.
Proof.
  assert (Hid : exists ext, A.tl _ t = A.tl _ t ++ ext) by (exists []; now rewrite app_nil_r).
  assert (Hed : forall s', exists ext, A.tl _ (A.t_edit _ t s') = A.tl _ t ++ ext) by (intros s'; unfold A.t_edit; cbn [A.tl]; eexists; reflexivity).
  destruct o; unfold tl_step_full; try (destruct (_ && _); [apply Hed|exact Hid]); try exact Hid.
  - unfold A.t_undo. destruct (A.c _ t); exact Hid.
  - unfold A.t_redo. destruct (_ <? _)%nat; exact Hid.
Qed.
Lemma tl_run_full_grows : forall ops st t, exists ext, A.tl _ (tl_run_full st t ops) = A.tl _ t ++ ext.
Proof.
  induction ops as [|o r IH]; intros st t; cbn [tl_run_full]; [exists []; now rewrite app_nil_r|].
  destruct (tl_step_full_grows st t o) as [e1 E1]. destruct (IH (fst (step st o)) (tl_step_full st t o)) as [e2 E2].
  exists (e1 ++ e2). now rewrite E2, E1, app_assoc.
Qed.

(* THE SESSION THEOREM, whole interface.  From a well-formed state with an empty history, for every finite
   sequence of UserAddEdge / UserDeleteEdge / UserSwapPredecessors / UserAddNode / UserDeleteNode /
   UserUpdateNodeAttrs calls, paint strokes, queries, undos and redos (side conditions holding when the
   calls are made): (a) every state reached is well formed; (b) the never-forgetting timeline law. *)
Section SessionFull.
  Variables (st0 : state) (ops : list op).
  Hypothesis W0 : WF st0.
  Hypothesis Hreg : reg_ok st0.
  Hypothesis Hrp : rp_disjoint st0.
  Hypothesis Hdecl : rp_decl st0.
  Hypothesis Hu : undo_stack st0 = [].
  Hypothesis Hr : redo_stack st0 = [].
  Hypothesis Hpre : pre_along_full st0 ops.
  Let t0 : A.tline state := {| A.tl := [st0]; A.c := 0 |}.

  Lemma session_full_prefix pre post : ops = pre ++ post -> SInv (run st0 pre) (tl_run_full st0 t0 pre).
  Proof.
    intros E. apply run_session_full; [apply full_fragment_all|now apply SInv_init|exact Hdecl|].
    intros p o q Eq. apply (Hpre p o (q ++ post)). rewrite E, Eq, <- app_assoc. reflexivity.
  Qed.

  Theorem session_full_WF : WF (run st0 ops).
  Proof. apply (SInv_WF _ (tl_run_full st0 t0 ops)). apply (session_full_prefix ops []). now rewrite app_nil_r. Qed.

  Theorem session_full_reachable_WF pre post : ops = pre ++ post -> WF (run st0 pre).
  Proof. intros E. exact (SInv_WF _ _ (session_full_prefix pre post E)). Qed.

  Theorem session_full_timeline (dS : state) :
    let t := tl_run_full st0 t0 ops in
    (A.c _ t < length (A.tl _ t))%nat /\ obs_eq (run st0 ops) (nth (A.c _ t) (A.tl _ t) dS) /\
    Forall WF (A.tl _ t) /\ (exists ext, A.tl _ t = st0 :: ext).
  Proof.
    cbv zeta. assert (I : SInv (run st0 ops) (tl_run_full st0 t0 ops)) by (apply (session_full_prefix ops []); now rewrite app_nil_r).
    destruct (SInv_current _ _ dS I) as [A1 A2]. split; [exact A1|]. split; [exact A2|]. split; [apply I|].
    destruct (tl_run_full_grows ops st0 t0) as [ext E]. exists ext. exact E.
  Qed.

  Theorem session_full_undo_redo pre post :
    (ops = pre ++ OUndo :: post ->
       let t := tl_run_full st0 t0 pre in
       fst (snd (step (run st0 pre) OUndo)) = (if snd (A.t_undo _ t) then 1 else 2) /\
       (snd (A.t_undo _ t) = false <-> A.c _ t = 0%nat)) /\
    (ops = pre ++ ORedo :: post ->
       let t := tl_run_full st0 t0 pre in
       fst (snd (step (run st0 pre) ORedo)) = (if snd (A.t_redo _ t) then 1 else 2) /\
       (snd (A.t_redo _ t) = false <-> (length (A.tl _ t) <= S (A.c _ t))%nat)).
  Proof.
    split; intros E; cbv zeta; pose proof (session_full_prefix pre _ E) as I.
    - destruct (undo_session _ _ I) as [_ C]. split; [exact C|apply A.t_undo_false].
    - destruct (redo_session _ _ I) as [_ C]. split; [exact C|apply A.t_redo_false].
  Qed.
End SessionFull.

(* a decidable sufficient condition for the side conditions along a run *)
Definition op_pre_fullb (st : state) (o : op) : bool := EditWFPaint.op_pre_paintb st o && op_pre2b st o.
Lemma op_pre_fullb_spec st o : op_pre_fullb st o = true -> op_pre_full st o.
Proof.
  unfold op_pre_fullb. intros H. apply andb_true_iff in H. destruct H as [H1 H2].
  split; [now apply EditWFPaint.op_pre_paintb_spec|now apply op_pre2b_spec].
Qed.
Fixpoint pre_along_fullb (st : state) (ops : list op) : bool :=
  match ops with [] => true | o :: r => op_pre_fullb st o && pre_along_fullb (fst (step st o)) r end.
Lemma pre_along_fullb_spec : forall ops st, pre_along_fullb st ops = true -> pre_along_full st ops.
Proof.
  induction ops as [|o r IH]; intros st H pre o' post E; [destruct pre; discriminate E|].
  cbn [pre_along_fullb] in H. apply andb_true_iff in H. destruct H as [H1 Hr].
  destruct pre as [|x pre]; cbn [app] in E; injection E as <- E.
  - cbn [run fold_left]. now apply op_pre_fullb_spec.
  - change (run st (o :: pre)) with (run (fst (step st o)) pre). exact (IH _ Hr pre o' post E).
Qed.

(* ================================================================== *)
(* D. non-vacuity: a session over the whole interface on EditWFEdge.exs  *)
(* ================================================================== *)
Lemma exs_rp_decl : rp_decl EditWFEdge.exs.
Proof. intros k Hk. cbn in *. intuition. Qed.

(* a refused stroke (forceable, background only); grow node 4; set the custom key 100 on node 3; cut 1->3;
   erase all of node 2 (nested UserDeleteNode, bridge 1->4); paint the new label 5 (nested UserAddNode);
   three undos; a new edit (UserAddNode 6 in frame 1), which carries the three undone states over;
   nine undos: through the new edit, the carried-over section and all the way to the initial state;
   a tenth undo (False); five redos *)
Definition ex_full_session : list op :=
  [ OPaint 7 1 [3] 1 false;
    OPaint 4 2 [3] 0 false;
    OUpdAttrs 3 [(100, VTok 7)];
    ODelEdge 1 3;
    OPaint 0 1 [0; 1] 0 false;
    OPaint 5 2 [0] 9 false;
    OUndo; OUndo; OUndo;
    OAddNode 6 [(KTime, VZ 1); (KTrack, VZ 7)] (Some (1, [3])) false;
    OUndo; OUndo; OUndo; OUndo; OUndo; OUndo; OUndo; OUndo; OUndo;
    OUndo;
    ORedo; ORedo; ORedo; ORedo; ORedo ].

Example session_full_nonvacuous :
  let st := run EditWFEdge.exs ex_full_session in
  let t := tl_run_full EditWFEdge.exs {| A.tl := [EditWFEdge.exs]; A.c := 0 |} ex_full_session in
  WF st /\
  codes EditWFEdge.exs ex_full_session = [11; 0; 0; 0; 0; 0; 1; 1; 1; 0; 1; 1; 1; 1; 1; 1; 1; 1; 1; 2; 1; 1; 1; 1; 1] /\
  length (A.tl _ t) = 10%nat /\ A.c _ t = 5%nat /\
  obs_eq st (nth 5 (A.tl _ t) EditWFEdge.exs) /\ Forall WF (A.tl _ t) /\
  (* the state after the five accepted edits: 2 erased, 5 painted, 4 grown and bridged to 1, key 100 set *)
  (seg st, keys (nodes (g st)), all_edges st, attr st 3 100) =
    (Some [[1; 1; 0; 0]; [0; 0; 3; 0]; [5; 4; 4; 4]], [1; 3; 4; 5], [(1, 4)], Some (VTok 7)) /\
  (* after the nineteen first calls everything is undone: the initial state, observably *)
  obs_eq (run EditWFEdge.exs (firstn 19 ex_full_session)) EditWFEdge.exs.
Proof.
  cbv zeta.
  assert (Hp : pre_along_full EditWFEdge.exs ex_full_session) by (apply pre_along_fullb_spec; vm_compute; reflexivity).
  pose proof (session_full_timeline EditWFEdge.exs ex_full_session EditWFEdge.exs_WF exs_reg_ok exs_rp_disjoint exs_rp_decl eq_refl eq_refl Hp EditWFEdge.exs) as T.
  cbv zeta in T. destruct T as (_ & T2 & T3 & _).
  assert (Ec : A.c _ (tl_run_full EditWFEdge.exs {| A.tl := [EditWFEdge.exs]; A.c := 0 |} ex_full_session) = 5%nat) by (vm_compute; reflexivity).
  split; [exact (session_full_WF EditWFEdge.exs ex_full_session EditWFEdge.exs_WF exs_reg_ok exs_rp_disjoint exs_rp_decl eq_refl eq_refl Hp)|].
  split; [vm_compute; reflexivity|]. split; [vm_compute; reflexivity|]. split; [exact Ec|].
  split; [rewrite Ec in T2; exact T2|]. split; [exact T3|]. split; [vm_compute; reflexivity|].
  assert (Hp' : pre_along_full EditWFEdge.exs (firstn 19 ex_full_session)) by (apply pre_along_fullb_spec; vm_compute; reflexivity).
  pose proof (session_full_timeline EditWFEdge.exs (firstn 19 ex_full_session) EditWFEdge.exs_WF exs_reg_ok exs_rp_disjoint exs_rp_decl eq_refl eq_refl Hp' EditWFEdge.exs) as T'.
  cbv zeta in T'. destruct T' as (_ & T2' & _).
  assert (Ec' : A.c _ (tl_run_full EditWFEdge.exs {| A.tl := [EditWFEdge.exs]; A.c := 0 |} (firstn 19 ex_full_session)) = 0%nat) by (vm_compute; reflexivity).
  rewrite Ec' in T2'. destruct (tl_run_full_grows (firstn 19 ex_full_session) EditWFEdge.exs {| A.tl := [EditWFEdge.exs]; A.c := 0 |}) as [ext E].
  rewrite E in T2'. exact T2'.
Qed.

Print Assumptions upd_attrs_ConsS.
Print Assumptions uua_ConsS.
Print Assumptions C01_TrW_update_attrs.
Print Assumptions upd_attrs_session.
Print Assumptions upd_seg_ConsS.
Print Assumptions udn_core_rs.
Print Assumptions uan_core_rs.
Print Assumptions rs_upd_seg.
Print Assumptions udn_core_WF_exact.
Print Assumptions upd_seg_WF.
Print Assumptions uus_groups_sim.
Print Assumptions uus_core_ConsS.
Print Assumptions paint_core_Consistent.
Print Assumptions C01_TrW_paint.
Print Assumptions paint_session.
Print Assumptions step_session_full.
Print Assumptions run_session_full.
Print Assumptions session_full_WF.
Print Assumptions session_full_reachable_WF.
Print Assumptions session_full_timeline.
Print Assumptions session_full_undo_redo.
Print Assumptions session_full_nonvacuous.
