(* C20, exact count: over every session the refresh log grows by exactly one entry per successful
   top-level edit / undo / redo and by nothing else (EditFrame.C20_run bounds it from above only).
   Feature switching never emits, whatever it returns. *)
From Coq Require Import ZArith List Bool Lia.
From FT Require Import Base.Dict Model.Edit Model.EditExec Model.Toggle Model.ToggleExec Proofs.EditInv Proofs.EditFrame
  Proofs.EditInit Proofs.EditSegNone Proofs.EditSessionsToggle.
Import ListNotations.
Open Scope Z_scope.

(* does this call, with this outcome code, count as a successful change? *)
Definition emits (o : op) (code : Z) : bool :=
  match o with
  | OAddEdge _ _ _ | ODelEdge _ _ | ODelNode _ | OSwap _ _ | OUpdAttrs _ _ | OAddNode _ _ _ _ | OPaint _ _ _ _ _ => code =? 0
  | OUndo | ORedo => code =? 1
  | ONeighbors _ _ | OHasTrackAt _ _ | ONewIds _ | ONextIds => false
  end.
Definition b2n (b : bool) : nat := if b then 1%nat else 0%nat.
Fixpoint successes (st : state) (ops : list op) : nat :=
  match ops with
  | [] => 0%nat
  | o :: r => (b2n (emits o (fst (snd (step st o)))) + successes (fst (step st o)) r)%nat
  end.

Lemma step_emits st o : exists e, rlog (fst (step st o)) = rlog st ++ e /\ length e = b2n (emits o (fst (snd (step st o)))).
Proof.
  destruct (step st o) as [st' [code aux]] eqn:E. pose proof (EditFrame.C20_step st o st' code aux E) as H. cbn [fst snd].
  destruct o; cbn [emits];
    try (exists []; rewrite app_nil_r; split; [exact H|reflexivity]);
    try (destruct H as [H0 H1]; destruct (Z.eqb_spec code 0) as [C|C];
         [ first [ destruct (H0 C) as (p & Hp & _); exists [p]; split; [exact Hp|reflexivity]
                 | eexists [_]; split; [exact (H0 C)|reflexivity] ]
         | exists []; rewrite app_nil_r; split; [exact (H1 C)|reflexivity] ]);
    try (destruct H as [H0 H1]; destruct (Z.eqb_spec code 1) as [C|C];
         [ eexists [_]; split; [exact (H0 C)|reflexivity]
         | exists []; rewrite app_nil_r; split; [exact (H1 C)|reflexivity] ]).
Qed.

Theorem refresh_count : forall ops st, exists ext,
  rlog (run st ops) = rlog st ++ ext /\ length ext = successes st ops.
Proof.
  induction ops as [|o r IH]; intros st.
  - exists []. cbn. rewrite app_nil_r. split; reflexivity.
  - change (run st (o :: r)) with (run (fst (step st o)) r).
    destruct (step_emits st o) as (e1 & H1 & L1). destruct (IH (fst (step st o))) as (e2 & H2 & L2).
    exists (e1 ++ e2). rewrite H2, H1, app_assoc. split; [reflexivity|]. rewrite app_length. cbn [successes]. lia.
Qed.

(* feature switching is silent and leaves the history alone, whatever it returns *)
Lemma enable_silent st ks rc ctrk clin : let s := rstate (enable_features st ks rc ctrk clin) in
  rlog s = rlog st /\ undo_stack s = undo_stack st /\ redo_stack s = redo_stack st.
Proof.
  unfold enable_features. destruct (negb _); [cbn; auto|]. destruct rc; [|cbn; auto]. cbn [rstate].
  set (s0 := upd_ft st _).
  destruct (ch_hist _ _ _ (chg_trk_compute (iou_compute (rp_compute s0 ks) ks) ks ctrk clin)) as (A1 & A2 & A3 & _).
  destruct (ch_hist _ _ _ (chg_iou_compute (fun _ => False) (rp_compute s0 ks) ks)) as (B1 & B2 & B3 & _).
  destruct (ch_hist _ _ _ (chg_rp_compute s0 ks)) as (C1 & C2 & C3 & _).
  cbv zeta. rewrite A1, A2, A3, B1, B2, B3, C1, C2, C3. auto.
Qed.
Lemma disable_silent st ks : let s := rstate (disable_features st ks) in
  rlog s = rlog st /\ undo_stack s = undo_stack st /\ redo_stack s = redo_stack st.
Proof. unfold disable_features. destruct (negb _); cbn; auto. Qed.

Theorem switch_silent st o : is_switch o = true ->
  let s := fst (step2 st o) in rlog s = rlog st /\ undo_stack s = undo_stack st /\ redo_stack s = redo_stack st.
Proof.
  destruct o as [e|ks rc ctrk clin|ks]; [discriminate|intros _|intros _]; cbn [step2]; rewrite fst_fin.
  - apply enable_silent.
  - apply disable_silent.
Qed.

Print Assumptions refresh_count.
Print Assumptions switch_silent.
