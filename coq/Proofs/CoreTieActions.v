(* Tie of actions/*.py (Gen/CoreActions_gen.v; it calls Gen/CoreQueries_gen.v and Gen/CoreAnnot_gen.v): __init__ (which
   applies the action), _apply and inverse of the seven basic actions = do_* / inv_basic of Model/Edit.v. *)
From Coq Require Import ZArith List Bool Lia Arith.
From FT Require Import Base.Dict Model.Edit Model.PyRt Model.PyRt3.
From FT Require Import Proofs.DictLemmas Proofs.EditInv Proofs.EditGraph Proofs.EditWalk.
From FT Require Import Gen.CoreQueries_gen Gen.CoreAnnot_gen Gen.CoreActions_gen.
From FT Require Import Proofs.CoreTieBase Proofs.CoreTieQueries Proofs.CoreTieAnnot.
Import ListNotations.
Open Scope Z_scope.

(* ================================================================== *)
(* 4. actions/*.py: constructor (= apply) and inverse of the basic actions *)
(* ================================================================== *)
(* UpdateTrackIDs(tracks, start, tracklet_id, lineage_id) = do_upd_track *)
Theorem gen_UpdateTrackIDs_init_fuel : forall fuel st start newT newL, succ_trk st -> fuel_ok st fuel ->
  gen_UpdateTrackIDs_init fuel st start newT newL = do_upd_track st start newT newL.
Proof.
  intros fuel st start newT newL Hs Hfuel. rewrite do_upd_track_slice. unfold gen_UpdateTrackIDs_init.
  rewrite gen_get_track_id_eq. unfold py_get_track_id.
  destruct (zattr st start KTrack) as [oldT|] eqn:Et; cbn [bind].
  - rewrite (zattr_has_node _ _ _ _ Et). cbn [negb]. rewrite gen_get_lineage_id_eq by (eapply zattr_has_node; eauto). cbn [bind].
    unfold gen_UpdateTrackIDs_apply, py_regionprops_update, py_edge_update. cbn [bind].
    rewrite gen_track_annotator_update_eq.
    + unfold book_track_annotator_update. destruct (negb (trk_act (ft st))); cbn [bind]; [reflexivity|].
      destruct (book_handle_update_track_ids st start oldT newT (zattr st start KLin) newL) as [[] s|e s]; reflexivity.
    + intros ? ? ? ? ? E. inversion E; subst. split; [split; [eexists; eassumption|exact Hs]|exact Hfuel].
  - destruct (negb (has_node st start)); reflexivity.
Qed.
Theorem gen_UpdateTrackIDs_init_eq : forall st start newT newL, succ_trk st ->
  gen_UpdateTrackIDs_init (S (length (nodes (g st)))) st start newT newL = do_upd_track st start newT newL.
Proof. intros. apply gen_UpdateTrackIDs_init_fuel; [assumption|now left]. Qed.
Lemma W_dict_succ_trk st : W_dict st -> succ_trk st.
Proof.
  intros W u v Hv. apply edge_successors in Hv. destruct (wd_edge_nodes st W u v Hv) as [_ Hn].
  destruct (wd_track st W v Hn) as [k Hk]. exists k. now apply zattr_attr.
Qed.
(* with the invariants every property theorem about do_upd_track carries: any fuel from the model's on *)
Corollary gen_UpdateTrackIDs_init_WF : forall fuel st start newT newL, W_dict st -> W_forest st ->
  (S (length (nodes (g st))) <= fuel)%nat ->
  gen_UpdateTrackIDs_init fuel st start newT newL = do_upd_track st start newT newL.
Proof. intros. apply gen_UpdateTrackIDs_init_fuel; [now apply W_dict_succ_trk|right; auto]. Qed.
(* UpdateTrackIDs.inverse(): construct the action with the old ids = inv_basic *)
Theorem gen_UpdateTrackIDs_inverse_eq : forall fuel st start oldT newT oldL newL, succ_trk st -> fuel_ok st fuel ->
  gen_UpdateTrackIDs_inverse fuel st start oldT newT oldL newL = inv_basic st (BUpdTrack start oldT newT oldL newL).
Proof.
  intros. unfold gen_UpdateTrackIDs_inverse. rewrite bind_ret. cbn [inv_basic]. now apply gen_UpdateTrackIDs_init_fuel.
Qed.

(* ---------- frame facts of the pieces the actions are made of ---------- *)
Lemma has_node_sna st n k v m : has_node (set_node_attr st n k v) m = has_node st m.
Proof.
  unfold set_node_attr. destruct (lookup n (nodes (g st))) as [d|] eqn:E; [|reflexivity].
  unfold has_node, haskey. cbn. destruct (Z.eq_dec m n) as [->|Hn]; [now rewrite lookup_set_eq, E|now rewrite lookup_set_neq].
Qed.
Lemma has_node_dna st n k m : has_node (del_node_attr st n k) m = has_node st m.
Proof.
  unfold del_node_attr. destruct (lookup n (nodes (g st))) as [d|] eqn:E; [|reflexivity].
  unfold has_node, haskey. cbn. destruct (Z.eq_dec m n) as [->|Hn]; [now rewrite lookup_set_eq, E|now rewrite lookup_set_neq].
Qed.
Lemma fold_sna_frame n v : forall (l : list Z) st,
  let s' := fold_left (fun s k => set_node_attr s n k v) l st in
  seg s' = seg st /\ ft s' = ft st /\ forall m, has_node s' m = has_node st m.
Proof.
  induction l as [|k r IH]; intros st; cbn [fold_left]; [auto|].
  destruct (IH (set_node_attr st n k v)) as (A & B & C). destruct (sna_rest st n k v) as (R1 & R2 & _).
  cbv zeta. rewrite A, B. repeat split; auto. intros m. now rewrite C, has_node_sna.
Qed.
Lemma rp_update_frame st n :
  seg (rp_update st n) = seg st /\ ft (rp_update st n) = ft st /\ forall m, has_node (rp_update st n) m = has_node st m.
Proof. unfold rp_update. destruct (seg st) as [sg|] eqn:Es; [|auto]. rewrite <- Es. apply fold_sna_frame. Qed.
Lemma rp_update_inactive st n : seg st = None \/ rp_act (ft st) = [] -> rp_update st n = st.
Proof. unfold rp_update. intros [H|H]; rewrite H; [reflexivity|]. destruct (seg st); reflexivity. Qed.
Lemma fold_set_attrs_frame n : forall (a : attrs) st,
  let s' := fold_left (fun s kv => set_node_attr s n (fst kv) (snd kv)) a st in
  seg s' = seg st /\ ft s' = ft st /\ forall m, has_node s' m = has_node st m.
Proof.
  induction a as [|[k v] r IH]; intros st; cbn [fold_left fst snd]; [auto|].
  destruct (IH (set_node_attr st n k v)) as (A & B & C). destruct (sna_rest st n k v) as (R1 & R2 & _).
  cbv zeta. rewrite A, B. repeat split; auto. intros m. now rewrite C, has_node_sna.
Qed.

(* ---------- UpdateNodeSeg(tracks, node, pixels, added) = do_upd_seg ---------- *)
Theorem gen_UpdateNodeSeg_init_eq : forall fuel st n px added,
  gen_UpdateNodeSeg_init fuel st n px added = do_upd_seg st n px added.
Proof.
  intros fuel st n px added. unfold gen_UpdateNodeSeg_init, gen_UpdateNodeSeg_apply, do_upd_seg, set_pixels. cbv zeta.
  destruct (seg st) as [sg|] eqn:Es; [|reflexivity]. destruct (frame_ok sg (fst px)); [|reflexivity]. cbn [bind].
  match goal with |- context [upd_seg st ?x] => set (s1 := upd_seg st x) end.
  assert (Hs1 : seg s1 = Some (upd_frame (Z.to_nat (fst px)) (fun f => write_frame 0 f (snd px) (if added then n else 0)) sg)) by reflexivity.
  unfold py_regionprops_update. rewrite Hs1.
  change (rp_act (ft s1)) with (rp_act (ft st)). change (has_node s1 n) with (has_node st n). change (iou_act (ft s1)) with (iou_act (ft st)).
  destruct (rp_update_frame s1 n) as (F1 & F2 & F3).
  assert (E2 : forall s2, seg s2 = seg s1 -> ft s2 = ft s1 -> has_node s2 n = has_node st n ->
            (do _u, s <- py_edge_update s2 (BUpdSeg n px added); do _u0, s0 <- gen_track_annotator_update fuel s (BUpdSeg n px added); Ok tt s0) =
            (if negb (has_node st n) && iou_act (ft st) then Err ENetworkX s2
             else Ok tt (iou_update_edges s2 (map (fun p => (p, n)) (predecessors s2 n) ++ map (fun c => (n, c)) (successors s2 n))))).
  { intros s2 G1 G2 G3. unfold py_edge_update. rewrite G1, Hs1, G2, G3. change (iou_act (ft s1)) with (iou_act (ft st)).
    destruct (iou_act (ft st)) eqn:Ei; [destruct (has_node st n)|]; cbn [negb andb bind]; rewrite ?andb_false_r;
      try rewrite gen_track_annotator_update_other by exact I; try reflexivity.
    unfold iou_update_edges. rewrite G1, Hs1, G2. change (iou_act (ft s1)) with (iou_act (ft st)). now rewrite Ei. }
  destruct (rp_act (ft st)) as [|k0 ks] eqn:Er.
  - cbn [bind]. rewrite andb_false_r. rewrite (rp_update_inactive s1 n) by (right; exact Er).
    rewrite (E2 s1 eq_refl eq_refl eq_refl). destruct (negb (has_node st n) && iou_act (ft st)); reflexivity.
  - destruct (has_node st n) eqn:Eh; cbn [negb andb bind]; [|reflexivity].
    rewrite (E2 (rp_update s1 n) F1 F2 (eq_trans (F3 n) Eh)). reflexivity.
Qed.
Theorem gen_UpdateNodeSeg_inverse_eq : forall fuel st n px added,
  gen_UpdateNodeSeg_inverse fuel st n px added = inv_basic st (BUpdSeg n px added).
Proof. intros. unfold gen_UpdateNodeSeg_inverse. rewrite bind_ret. apply gen_UpdateNodeSeg_init_eq. Qed.

(* ---------- AddEdge(tracks, edge, attributes) = do_add_edge ---------- *)
Theorem gen_AddEdge_init_eq : forall fuel st u v oa,
  gen_AddEdge_init fuel st (u, v) oa = do_add_edge st u v (match oa with Some a => a | None => [] end).
Proof.
  intros fuel st u v oa. unfold gen_AddEdge_init, gen_AddEdge_apply, do_add_edge. cbn [fst snd py_for].
  destruct (has_node st u); cbn [negb bind]; [|reflexivity].
  destruct (has_node st v); cbn [negb bind]; [|reflexivity].
  unfold py_regionprops_update, py_edge_update. cbn [bind].
  rewrite gen_track_annotator_update_other by exact I. reflexivity.
Qed.

(* ---------- DeleteEdge(tracks, edge) = do_del_edge ----------
   the saved attributes are collected into a dict, key by key of features.edge_features: the model's list
   of pairs is that dict as long as the registry lists no key twice (it is the key list of a Python dict) *)
Definition saved_step (d : attrs) (acc : attrs) (k : Z) : attrs :=
  match lookup k d with Some VNone => acc | Some v => acc ++ [(k, v)] | None => acc end.
Lemma set_notin {V} k (v : V) d : ~ In k (keys d) -> set k v d = d ++ [(k, v)].
Proof.
  induction d as [|[k' w] r IH]; cbn; [reflexivity|]. intros H.
  destruct (k =? k') eqn:E; [apply Z.eqb_eq in E; subst; tauto|]. rewrite IH; [reflexivity|tauto].
Qed.
Lemma saved_loop (F : Z -> attrs -> state -> res attrs) (d : attrs) (s : state) :
  (forall k acc, F k acc s = Ok (match py_opt_value (lookup k d) with Some v => set k v acc | None => acc end) s) ->
  forall reg acc, NoDup reg -> (forall k, In k reg -> ~ In k (keys acc)) ->
  py_for reg acc s F = Ok (fold_left (saved_step d) reg acc) s.
Proof.
  intros HF. induction reg as [|k r IH]; intros acc Hnd Hacc; cbn [py_for fold_left]; [reflexivity|].
  inversion Hnd as [|? ? Hk Hr]; subst. rewrite HF. cbn [bind].
  assert (E : match py_opt_value (lookup k d) with Some v => set k v acc | None => acc end = saved_step d acc k).
  { unfold saved_step, py_opt_value. destruct (lookup k d) as [[]|]; try reflexivity; apply set_notin, Hacc; now left. }
  rewrite E. apply IH; [exact Hr|]. intros k' Hk'. unfold saved_step.
  assert (Hb : ~ In k' (keys acc)) by (apply Hacc; now right).
  destruct (lookup k d) as [[]|]; try exact Hb; unfold keys; rewrite map_app, in_app_iff; cbn; intros [H|[H|[]]]; try tauto; subst; tauto.
Qed.
Lemma saved_attrs_fold reg d : saved_attrs reg d = fold_left (saved_step d) reg [].
Proof. reflexivity. Qed.

Theorem gen_DeleteEdge_init_eq : forall fuel st u v, NoDup (reg_edge (ft st)) ->
  gen_DeleteEdge_init fuel st (u, v) = do_del_edge st u v.
Proof.
  intros fuel st u v Hnd. unfold gen_DeleteEdge_init, do_del_edge. cbn [fst snd].
  destruct (has_edge st u v) eqn:He; cbn [negb]; [|reflexivity].
  match goal with |- context [py_for _ _ _ ?f] => set (F := f) end.
  rewrite (saved_loop F (edge_attrs st u v) st); [|intros k acc; unfold F, py_edge_attr_get; cbn [fst snd]; rewrite He; cbn [bind]; destruct (py_opt_value _); reflexivity|exact Hnd|intros k _ []].
  cbn [bind]. rewrite <- saved_attrs_fold.
  unfold gen_DeleteEdge_apply, nx_remove_edge. cbn [fst snd]. rewrite He. cbn [bind].
  unfold py_regionprops_update, py_edge_update. cbn [bind]. rewrite gen_track_annotator_update_other by exact I. reflexivity.
Qed.
Theorem gen_AddEdge_inverse_eq : forall fuel st u v a, NoDup (reg_edge (ft st)) ->
  gen_AddEdge_inverse fuel st (u, v) a = inv_basic st (BAddEdge u v a).
Proof. intros. unfold gen_AddEdge_inverse. rewrite bind_ret. now apply gen_DeleteEdge_init_eq. Qed.
Theorem gen_DeleteEdge_inverse_eq : forall fuel st u v saved,
  gen_DeleteEdge_inverse fuel st (u, v) saved = inv_basic st (BDelEdge u v saved).
Proof. intros. unfold gen_DeleteEdge_inverse. rewrite bind_ret. apply (gen_AddEdge_init_eq fuel st u v (Some saved)). Qed.

Lemma bind_assoc : forall A B C (r : res A) (f : A -> state -> res B) (h : B -> state -> res C),
  bind (bind r f) h = bind r (fun a s => bind (f a s) h).
Proof. destruct r; reflexivity. Qed.

(* ---------- AddNode(tracks, node, attributes, pixels) = do_add_node ---------- *)
Lemma has_node_nx_add_node st n : has_node (nx_add_node st n) n = true.
Proof.
  unfold nx_add_node, has_node. destruct (haskey n (nodes (g st))) eqn:E; [exact E|].
  cbn. apply haskey_keys. unfold keys. rewrite map_app, in_app_iff. right. now left.
Qed.
Lemma set_attrs_loop (F : Z * value -> unit -> state -> res unit) n :
  (forall kv s, has_node s n = true -> F kv tt s = Ok tt (set_node_attr s n (fst kv) (snd kv))) ->
  forall (a : attrs) s, has_node s n = true ->
  py_for a tt s F = Ok tt (fold_left (fun s kv => set_node_attr s n (fst kv) (snd kv)) a s).
Proof.
  intros HF. induction a as [|kv r IH]; intros s Hs; cbn [py_for fold_left]; [reflexivity|].
  rewrite HF by exact Hs. cbn [bind]. apply IH. now rewrite has_node_sna.
Qed.

Theorem gen_AddNode_init_eq : forall fuel st n a px,
  gen_AddNode_init fuel st n a px = do_add_node st n a px.
Proof.
  intros fuel st n a px. rewrite do_add_node_slice. unfold gen_AddNode_init.
  destruct (negb (haskey KTime a)); [reflexivity|]. destruct (negb (haskey KTrack a)); [reflexivity|].
  (* the position check: one key, or all keys of the list *)
  assert (Hpos : (match px with
                  | Some _ => Ok tt st
                  | None => if pos_is_list st
                            then if forallb (fun k => haskey k a) (pos_keys (ft st)) then Ok tt st else Err EValue st
                            else if negb (haskey (pos_single st) a) then Err EValue st else Ok tt st
                  end) = (if (match px with None => negb (all_in (pos_keys (ft st)) a) | Some _ => false end) then Err EValue st else Ok tt st)).
  { destruct px as [p|]; [reflexivity|]. unfold pos_is_list, pos_single, all_in.
    destruct (pos_keys (ft st)) as [|k [|k2 r]]; cbn [forallb hd negb]; try reflexivity.
    - rewrite andb_true_r. destruct (haskey k a); reflexivity.
    - destruct (haskey k a && (haskey k2 a && forallb (fun k0 => haskey k0 a) r)); reflexivity. }
  rewrite Hpos. destruct (match px with None => negb (all_in (pos_keys (ft st)) a) | Some _ => false end); cbn [bind]; [reflexivity|].
  unfold gen_AddNode_apply.
  assert (Hpx : (match px with Some p => do _u, s <- set_pixels st p n; Ok tt s | None => Ok tt st end) =
                (match px with Some p => set_pixels st p n | None => Ok tt st end))
    by (destruct px; [apply bind_tt|reflexivity]).
  rewrite Hpx, bind_assoc. apply bind_ext_l. intros [] s1. cbv zeta.
  match goal with |- context [py_for _ _ _ ?f] => set (F := f) end.
  change (if haskey n (nodes (g s1)) then s1 else _) with (nx_add_node s1 n).
  rewrite (set_attrs_loop F n); [|intros [k v] s Hs; unfold F, py_set_node_attr; cbn [fst snd]; rewrite Hs; reflexivity|apply has_node_nx_add_node].
  cbn [bind].
  set (s2 := fold_left (fun s kv => set_node_attr s n (fst kv) (snd kv)) a (nx_add_node s1 n)).
  assert (Hn2 : has_node s2 n = true) by (unfold s2; rewrite (proj2 (proj2 (fold_set_attrs_frame n a _))); apply has_node_nx_add_node).
  assert (Hrp : py_regionprops_update s2 (BAddNode n a px) = Ok tt (rp_update s2 n)).
  { unfold py_regionprops_update. destruct (seg s2) eqn:Es; [|now rewrite rp_update_inactive by auto].
    destruct (rp_act (ft s2)) eqn:Er; [now rewrite rp_update_inactive by auto|]. now rewrite Hn2. }
  rewrite Hrp. cbn [bind]. unfold py_edge_update. cbn [bind].
  rewrite gen_track_annotator_update_eq by (intros; discriminate).
  unfold book_track_annotator_update. destruct (negb (trk_act (ft (rp_update s2 n)))); cbn [bind]; [reflexivity|].
  destruct (book_handle_add_node (rp_update s2 n) n) as [[] s|e s]; reflexivity.
Qed.

(* ---------- DeleteNode(tracks, node, pixels) = do_del_node ----------
   The constructor reads the node's attributes key by key of features.node_features: the first read raises
   KeyError for a node that is not in the graph -- if there is a key to read.  The hand model answers KeyError
   at once; with an empty registry and a missing node the Python gets as far as graph.remove_node
   (NetworkXError, after zeroing the pixels it was given): [del_node_needs_registry].  Every configuration the
   property theorems talk about registers the time key (cfg_ok). *)
Theorem gen_DeleteNode_init_eq : forall fuel st n pxo, NoDup (reg_node (ft st)) ->
  has_node st n = true \/ reg_node (ft st) <> [] ->
  gen_DeleteNode_init fuel st n pxo = do_del_node st n pxo.
Proof.
  intros fuel st n pxo Hnd Hreg. rewrite do_del_node_slice. unfold gen_DeleteNode_init.
  match goal with |- context [py_for _ _ _ ?f] => set (F := f) end.
  destruct (lookup n (nodes (g st))) as [d|] eqn:El.
  - assert (Hn : has_node st n = true) by (unfold has_node, haskey; now rewrite El).
    assert (Hd : forall k, attr st n k = lookup k d) by (intros k; unfold attr, node_attrs, getd; now rewrite El).
    rewrite (saved_loop F d st); [|intros k acc; unfold F, py_node_attr_get; rewrite Hn, Hd; cbn [bind]; destruct (py_opt_value _); reflexivity|exact Hnd|intros k _ []].
    cbn [bind]. rewrite <- saved_attrs_fold. cbv zeta.
    set (saved := saved_attrs (reg_node (ft st)) d).
    assert (Epx : (match pxo with Some p => Some p | None => get_pixels st n end) = (match pxo with Some p => Some p | None => get_pixels st n end)) by reflexivity.
    set (px := match pxo with Some p => Some p | None => get_pixels st n end).
    unfold gen_DeleteNode_apply.
    assert (Hpx : (match px with Some p => do _u, s <- set_pixels st p 0; Ok tt s | None => Ok tt st end) =
                  (match px with Some p => set_pixels st p 0 | None => Ok tt st end))
      by (destruct px; [apply bind_tt|reflexivity]).
    rewrite Hpx.
    assert (Hsp : forall u s1, (match px with Some p => set_pixels st p 0 | None => Ok tt st end) = Ok u s1 -> has_node s1 n = true).
    { intros u s1. destruct px as [p|]; [|intros H; inversion H; subst; exact Hn].
      unfold set_pixels. destruct (seg st); [|discriminate]. destruct (frame_ok _ _); [|discriminate]. intros H. inversion H; subst. exact Hn. }
    destruct (match px with Some p => set_pixels st p 0 | None => Ok tt st end) as [[] s1|e s1] eqn:Esp; cbn [bind]; [|reflexivity].
    unfold nx_remove_node. rewrite (Hsp tt s1 eq_refl). cbn [bind].
    unfold py_regionprops_update, py_edge_update. cbn [bind].
    rewrite gen_track_annotator_update_eq by (intros; discriminate).
    unfold book_track_annotator_update.
    match goal with |- context [trk_act ?x] => destruct (negb (trk_act x)) end; cbn [bind]; [reflexivity|].
    match goal with |- context [book_handle_delete_node ?s ?m ?sv] => destruct (book_handle_delete_node s m sv) as [[] s'|e s'] end; reflexivity.
  - assert (Hn : has_node st n = false) by (unfold has_node, haskey; now rewrite El).
    destruct Hreg as [H|H]; [congruence|].
    destruct (reg_node (ft st)) as [|k r]; [congruence|]. cbn [py_for]. unfold F at 1, py_node_attr_get. rewrite Hn. reflexivity.
Qed.
Theorem gen_AddNode_inverse_eq : forall fuel st n a px, NoDup (reg_node (ft st)) ->
  has_node st n = true \/ reg_node (ft st) <> [] ->
  gen_AddNode_inverse fuel st n a px = inv_basic st (BAddNode n a px).
Proof. intros. unfold gen_AddNode_inverse. rewrite bind_ret. now apply gen_DeleteNode_init_eq. Qed.
Theorem gen_DeleteNode_inverse_eq : forall fuel st n saved px,
  gen_DeleteNode_inverse fuel st n saved px = inv_basic st (BDelNode n saved px).
Proof. intros. unfold gen_DeleteNode_inverse. rewrite bind_ret. apply gen_AddNode_init_eq. Qed.

(* ---------- UpdateNodeAttrs(tracks, node, attrs) = do_upd_attrs ----------
   [NoDup (keys new)]: the argument is a Python dict; the previous values are collected into a dict too *)
Lemma protected_keys_eq st : annot_all_features st ++ [KTime] = protected_keys st.
Proof. unfold annot_all_features, protected_keys. now rewrite <- !app_assoc. Qed.
Lemma val_of_opt_value o : val_of_opt (py_opt_value o) = match o with Some v => v | None => VNone end.
Proof. destruct o as [[]|]; reflexivity. Qed.

Theorem gen_UpdateNodeAttrs_init_eq : forall fuel st n new, NoDup (keys new) ->
  gen_UpdateNodeAttrs_init fuel st n new = do_upd_attrs st n new.
Proof.
  intros fuel st n new Hnd. unfold gen_UpdateNodeAttrs_init, do_upd_attrs. cbv zeta. rewrite protected_keys_eq.
  (* the protected keys *)
  assert (L1 : forall (l : attrs) s, py_for (keys l) tt s (fun k (_ : unit) s => if memz k (protected_keys st) then Err EValue s else Ok tt s) =
                 if existsb (fun kv => memz (fst kv) (protected_keys st)) l then Err EValue s else Ok tt s).
  { induction l as [|[k v] r IH]; intros s; cbn [keys map py_for existsb fst]; [reflexivity|].
    destruct (memz k (protected_keys st)); cbn [bind orb]; [reflexivity|apply IH]. }
  rewrite L1. destruct (existsb _ new); cbn [bind]; [reflexivity|].
  destruct (lookup n (nodes (g st))) as [d|] eqn:El.
  - assert (Hn : has_node st n = true) by (unfold has_node, haskey; now rewrite El).
    assert (Hd : forall k, attr st n k = lookup k d) by (intros k; unfold attr, node_attrs, getd; now rewrite El).
    (* the previous values *)
    match goal with |- context [py_for (keys new) [] st ?f] => set (G := f) end.
    assert (L2 : forall (l acc : list (Z * value)), NoDup (keys l) -> (forall k, In k (keys l) -> ~ In k (keys acc)) ->
                   py_for (keys l) acc st G = Ok (acc ++ map (fun kv => (fst kv, match lookup (fst kv) d with Some v => v | None => VNone end)) l) st).
    { induction l as [|[k v] r IH]; intros acc Hl Hacc; cbn [keys map py_for fst]; [now rewrite app_nil_r|].
      inversion Hl as [|? ? Hk Hr]; subst. unfold G at 1, py_node_attr_get. rewrite Hn, Hd. cbn [bind]. rewrite val_of_opt_value.
      rewrite set_notin by (apply Hacc; now left). rewrite (IH _ Hr).
      - now rewrite <- app_assoc.
      - intros k' Hk'. unfold keys. rewrite map_app, in_app_iff. cbn. intros [H|[H|[]]]; [revert H; apply Hacc; now right|subst; contradiction]. }
    rewrite (L2 new [] Hnd (fun k _ H => H)). cbn [bind app].
    (* the new values *)
    unfold gen_UpdateNodeAttrs_apply.
    match goal with |- context [py_for new tt st ?f] => set (H := f) end.
    assert (L3 : forall (l : attrs) s, has_node s n = true -> py_for l tt s H = Ok tt (fold_left (fun s kv => apply_attr s n kv) l s)).
    { induction l as [|[k v] r IH]; intros s Hs; cbn [py_for fold_left]; [reflexivity|].
      unfold H at 1, apply_attr, py_pop_node_attr, py_set_node_attr. cbn [fst snd]. rewrite Hs.
      destruct v; cbn [py_value_is_none bind]; apply IH; rewrite ?has_node_sna, ?has_node_dna; exact Hs. }
    rewrite (L3 new st Hn). cbn [bind]. unfold py_regionprops_update, py_edge_update. cbn [bind].
    rewrite gen_track_annotator_update_other by exact I. reflexivity.
  - assert (Hn : has_node st n = false) by (unfold has_node, haskey; now rewrite El).
    destruct new as [|[k v] r]; cbn [keys map py_for bind].
    + unfold gen_UpdateNodeAttrs_apply. cbn [py_for bind]. unfold py_regionprops_update, py_edge_update. cbn [bind].
      rewrite gen_track_annotator_update_other by exact I. reflexivity.
    + unfold py_node_attr_get. rewrite Hn. reflexivity.
Qed.
Theorem gen_UpdateNodeAttrs_inverse_eq : forall fuel st n prev new, NoDup (keys prev) ->
  gen_UpdateNodeAttrs_inverse fuel st n prev new = inv_basic st (BUpdAttrs n prev new).
Proof. intros. unfold gen_UpdateNodeAttrs_inverse. rewrite bind_ret. now apply gen_UpdateNodeAttrs_init_eq. Qed.

(* ---------- `action.inverse()` for an arbitrary basic action = inv_basic ----------
   Python dispatches on the class of the action; [gen_inverse] is that dispatch over the generated methods. *)
Definition gen_inverse (fuel : nat) (st : state) (b : basic) : res basic :=
  match b with
  | BAddNode n a px => gen_AddNode_inverse fuel st n a px
  | BDelNode n saved px => gen_DeleteNode_inverse fuel st n saved px
  | BAddEdge u v a => gen_AddEdge_inverse fuel st (u, v) a
  | BDelEdge u v saved => gen_DeleteEdge_inverse fuel st (u, v) saved
  | BUpdAttrs n prev new => gen_UpdateNodeAttrs_inverse fuel st n prev new
  | BUpdSeg n px added => gen_UpdateNodeSeg_inverse fuel st n px added
  | BUpdTrack start oldT newT oldL newL => gen_UpdateTrackIDs_inverse fuel st start oldT newT oldL newL
  end.
Definition inverse_dom (st : state) (b : basic) : Prop :=
  match b with
  | BAddNode n _ _ => NoDup (reg_node (ft st)) /\ (has_node st n = true \/ reg_node (ft st) <> [])
  | BAddEdge _ _ _ => NoDup (reg_edge (ft st))
  | BUpdAttrs _ prev _ => NoDup (keys prev)
  | BUpdTrack _ _ _ _ _ => succ_trk st
  | _ => True
  end.
Theorem gen_inverse_eq : forall fuel st b, inverse_dom st b -> fuel_ok st fuel ->
  gen_inverse fuel st b = inv_basic st b.
Proof.
  intros fuel st b H Hfuel. destruct b; cbn [gen_inverse inverse_dom] in *.
  - destruct H. now apply gen_AddNode_inverse_eq.
  - apply gen_DeleteNode_inverse_eq.
  - now apply gen_AddEdge_inverse_eq.
  - apply gen_DeleteEdge_inverse_eq.
  - now apply gen_UpdateNodeAttrs_inverse_eq.
  - apply gen_UpdateNodeSeg_inverse_eq.
  - now apply gen_UpdateTrackIDs_inverse_eq.
Qed.
(* the configuration the property theorems are stated for gives the registry half of [inverse_dom] *)
Lemma cfg_ok_reg_nonempty st : cfg_ok st -> reg_node (ft st) <> [].
Proof. intros (_ & _ & H & _) E. rewrite E in H. destruct H. Qed.

(* the registry hypothesis of DeleteNode is needed: no node-feature key registered, node 7 not in the graph.
   The Python zeroes the pixels it was given and then fails in graph.remove_node (NetworkXError); the hand
   model answers KeyError with the array untouched. *)
Example del_node_needs_registry :
  let st0 := {| g := {| nodes := []; succs := [] |}; seg := Some [[5]];
                ft := {| reg_node := []; reg_edge := []; pos_keys := []; rp_all := []; rp_act := [];
                         iou_avail := false; iou_act := false; trk_act := true; lin_act := true |};
                bk := {| trk_book := []; lin_book := []; max_trk := 0; max_lin := 0 |};
                undo_stack := []; redo_stack := []; rlog := []; nctr := 0 |} in
  (exists s, gen_DeleteNode_init 1 st0 7 (Some (0, [0])) = Err ENetworkX s /\ seg s = Some [[0]]) /\
  do_del_node st0 7 (Some (0, [0])) = Err EKey st0.
Proof. split; [eexists; split|]; vm_compute; reflexivity. Qed.
(* ... and so is "no key twice": the model's saved attributes list the pair twice, a dict cannot *)
Example reg_nodup_needed :
  let st0 := {| g := {| nodes := [(1, []); (2, [])]; succs := [(1, [(2, [(8, VTok 3)])]); (2, [])] |}; seg := None;
                ft := {| reg_node := []; reg_edge := [8; 8]; pos_keys := []; rp_all := []; rp_act := [];
                         iou_avail := false; iou_act := false; trk_act := true; lin_act := true |};
                bk := {| trk_book := []; lin_book := []; max_trk := 0; max_lin := 0 |};
                undo_stack := []; redo_stack := []; rlog := []; nctr := 0 |} in
  (exists s, gen_DeleteEdge_init 1 st0 (1, 2) = Ok (BDelEdge 1 2 [(8, VTok 3)]) s) /\
  (exists s, do_del_edge st0 1 2 = Ok (BDelEdge 1 2 [(8, VTok 3); (8, VTok 3)]) s).
Proof. split; eexists; vm_compute; reflexivity. Qed.

Print Assumptions gen_UpdateTrackIDs_init_eq.
Print Assumptions gen_UpdateTrackIDs_inverse_eq.
Print Assumptions gen_UpdateNodeSeg_init_eq.
Print Assumptions gen_UpdateNodeSeg_inverse_eq.
Print Assumptions gen_AddEdge_init_eq.
Print Assumptions gen_DeleteEdge_init_eq.
Print Assumptions gen_AddEdge_inverse_eq.
Print Assumptions gen_DeleteEdge_inverse_eq.
Print Assumptions gen_AddNode_init_eq.
Print Assumptions gen_DeleteNode_init_eq.
Print Assumptions gen_AddNode_inverse_eq.
Print Assumptions gen_DeleteNode_inverse_eq.
Print Assumptions gen_UpdateNodeAttrs_init_eq.
Print Assumptions gen_UpdateNodeAttrs_inverse_eq.
Print Assumptions gen_inverse_eq.
Print Assumptions del_node_needs_registry.
Print Assumptions reg_nodup_needed.
Print Assumptions gen_UpdateTrackIDs_init_fuel.
Print Assumptions gen_UpdateTrackIDs_init_WF.
