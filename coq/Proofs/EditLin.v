(* C05: lineage ids label exactly the weakly connected components, through the edge actions.
   1. what UpdateTrackIDs does to the lineage attribute (corollary of EditWalk.walk_klin);
   2. descendants on a forward-in-time forest: decidable, unchanged below a cut;
   3. the two abstract relabelling steps (cut a subtree and give it a fresh id / graft a tree
      and give it the id of its new parent) keep W_lin;
   4. UserDeleteEdge / UserAddEdge / UserSwapPredecessors keep the invariant bundle, with the
      exact lineage id of every node afterwards, hence the frame clause. *)
From Coq Require Import ZArith List Bool Lia Relations.
From FT Require Import Base.Dict Model.Edit Proofs.DictLemmas Proofs.EditInv Proofs.EditGraph Proofs.EditWalk
  Proofs.EditBasic Proofs.EditUserEdge Proofs.EditGlobal.
From FT Require Proofs.EditBook.
Import ListNotations.
Open Scope Z_scope.

(* ================================================================== 1. UpdateTrackIDs and the lineage attribute *)
Lemma lin_upd_bk s b m : lin (upd_bk s b) m = lin s m.
Proof. reflexivity. Qed.

Lemma from_single st start m : from st [start] m <-> reach st start m.
Proof.
  unfold from. split.
  - intros (x & [<-|[]] & R). exact R.
  - intros R. exists start. split; [now left|exact R].
Qed.

Theorem do_upd_track_lin st start newT newL b st' :
  W_dict st -> trk_act (ft st) = true -> lin_act (ft st) = true -> is_node st start ->
  do_upd_track st start newT newL = Ok b st' ->
  match newL with
  | Some l => (forall m, reach st start m -> lin st' m = Some l) /\
              (forall m, ~ reach st start m -> lin st' m = lin st m)
  | None => forall m, lin st' m = lin st m
  end.
Proof.
  intros Hd Ct Cl Hn H. unfold do_upd_track in H.
  pose proof Hn as Hn'. apply has_node_is_node in Hn'. rewrite Hn' in H. cbn [negb] in H.
  destruct (zattr st start KTrack) as [oldT|]; [|discriminate].
  rewrite Ct, Cl in H. cbn [negb] in H.
  destruct (walk _ _ _ _ _ _ _ _ _) as [[[st1 tn] ln]|] eqn:W; [|discriminate].
  assert (Hc : forall x, In x [start] -> is_node st x) by (intros x [<-|[]]; exact Hn).
  destruct newL as [l|].
  - injection H as _ <-. split; intros m Hm; rewrite lin_upd_bk; unfold lin, zattr.
    + destruct (walk_klin oldT newT l _ st [start] true [] [] st1 tn ln m Hd Hc W) as [A _].
      rewrite A; [reflexivity|now apply from_single].
    + destruct (walk_klin oldT newT l _ st [start] true [] [] st1 tn ln m Hd Hc W) as [_ A].
      rewrite A; [reflexivity|]. intros F. apply Hm. now apply from_single.
  - injection H as _ <-. intros m. rewrite lin_upd_bk. unfold lin, zattr.
    now rewrite (walk_klin_none oldT newT _ st [start] true [] [] st1 tn ln m W).
Qed.

(* ================================================================== 2. descendants on a forest *)
Lemma reach_ext s s' : (forall a c, edge s' a c <-> edge s a c) -> forall a b, reach s' a b <-> reach s a b.
Proof.
  intros H a b. split; induction 1.
  - apply rt_step. now apply H.
  - apply rt_refl.
  - eapply rt_trans; eauto.
  - apply rt_step. now apply H.
  - apply rt_refl.
  - eapply rt_trans; eauto.
Qed.

Lemma reach_sub s s' : (forall a c, edge s' a c -> edge s a c) -> forall a b, reach s' a b -> reach s a b.
Proof.
  intros H a b. induction 1.
  - apply rt_step. now apply H.
  - apply rt_refl.
  - eapply rt_trans; eauto.
Qed.

Lemma reach_time st : W_forest st -> forall a b, reach st a b -> a = b \/ time_of st a < time_of st b.
Proof.
  intros Hf a b H. induction H as [x y Hxy| |x y z _ IH1 _ IH2].
  - right. now apply (wf_time _ Hf).
  - now left.
  - destruct IH1 as [->|I1]; destruct IH2 as [->|I2]; auto. right. lia.
Qed.

Lemma reach_last st a b : reach st a b -> a = b \/ exists p, reach st a p /\ edge st p b.
Proof.
  intros H. apply clos_rt_rtn1 in H. inversion H as [|y z Hyz Hay]; subst; [now left|].
  right. exists y. split; [now apply clos_rtn1_rt|exact Hyz].
Qed.

Lemma reach_wconn st a b : reach st a b -> wconn st a b.
Proof. induction 1; [now apply rst_step|apply rst_refl|eapply rst_trans; eauto]. Qed.

(* being a descendant is decidable: follow the unique parents upwards *)
Lemma reach_dec st : W_dict st -> W_forest st -> forall a b, reach st a b \/ ~ reach st a b.
Proof.
  intros Hd Hf a b. remember (Z.to_nat (time_of st b - time_of st a)) as k eqn:Hk. revert b Hk.
  induction k as [k IH] using lt_wf_ind. intros b Hk.
  destruct (Z.eq_dec a b) as [->|Hab]; [left; apply rt_refl|].
  destruct (parent_dec st b Hd) as [[p Hp]|Hnone].
  - destruct (Z_lt_le_dec (time_of st a) (time_of st b)) as [Hlt|Hge].
    + pose proof (wf_time _ Hf _ _ Hp) as Hpt.
      destruct (IH (Z.to_nat (time_of st p - time_of st a))) with (b := p) as [R|NR]; [subst k; lia|reflexivity| |].
      * left. eapply rt_trans; [exact R|apply rt_step; exact Hp].
      * right. intros R. apply reach_last in R. destruct R as [E|(q & Rq & Eq)]; [contradiction|].
        assert (q = p) by (apply (wf_in _ Hf q p b); assumption). subst q. contradiction.
    + right. intros R. destruct (reach_time st Hf a b R); [contradiction|lia].
  - right. intros R. apply reach_last in R. destruct R as [E|(q & _ & Eq)]; [contradiction|]. now apply (Hnone q).
Qed.

(* removing the edge (u,v) does not change what lies below v: a path from v never comes back to u *)
Lemma reach_cut_from_v st st' u v : W_forest st ->
  (forall x y, edge st' x y <-> edge st x y /\ ~ (x = u /\ y = v)) ->
  forall m, reach st' v m <-> reach st v m.
Proof.
  intros Hf E' m. split.
  - apply reach_sub. intros a c H. now apply E'.
  - intros H. apply clos_rt_rtn1 in H. induction H as [|y z Hyz Hvy IH]; [apply rt_refl|].
    eapply rt_trans; [exact IH|]. apply rt_step. apply E'. split; [exact Hyz|].
    intros [_ ->]. apply clos_rtn1_rt in Hvy. pose proof (wf_time _ Hf _ _ Hyz) as Ht.
    destruct (reach_time st Hf v y Hvy) as [->|Hlt]; lia.
Qed.

(* a node whose parent is not below v is itself not below v, unless it is v *)
Lemma reach_parent st v x y : W_forest st -> edge st x y -> y <> v -> reach st v y -> reach st v x.
Proof.
  intros Hf Exy Hne R. apply reach_last in R. destruct R as [<-|(p & Rp & Ep)]; [contradiction|].
  assert (p = x) by (apply (wf_in _ Hf p x y); assumption). now subst p.
Qed.

(* ================================================================== 3. the two abstract relabelling steps *)
(* cut: the edge (u,v) disappears, everything below v gets an id l no node carried *)
Theorem cut_W_lin st st' u v l :
  W_dict st -> W_forest st -> W_lin st -> edge st u v ->
  (forall n, is_node st' n <-> is_node st n) ->
  (forall x y, edge st' x y <-> edge st x y /\ ~ (x = u /\ y = v)) ->
  (forall n, is_node st n -> lin st n <> Some l) ->
  (forall m, reach st v m -> lin st' m = Some l) ->
  (forall m, ~ reach st v m -> lin st' m = lin st m) ->
  W_lin st'.
Proof.
  intros Hd Hf Hl He Hn E' Hfresh L1 L2.
  assert (Rvv : reach st v v) by apply rt_refl.
  constructor.
  - intros x y Exy. apply E' in Exy. destruct Exy as [Exy Hne].
    destruct (reach_dec st Hd Hf v x) as [R|NR].
    + rewrite (L1 x R), (L1 y); [reflexivity|]. eapply rt_trans; [exact R|now apply rt_step].
    + assert (~ reach st v y) as NRy.
      { intros R. apply NR. apply (reach_parent st v x y Hf Exy); [|exact R].
        intros ->. apply Hne. split; [apply (wf_in _ Hf x u v); assumption|reflexivity]. }
      rewrite (L2 x NR), (L2 y NRy). now apply (wl1 _ Hl).
  - assert (Hroot : forall a, root st' a -> a <> v -> root st a /\ ~ reach st v a).
    { intros a [Na Ha] Hav. assert (forall p, ~ edge st p a) as Hnp.
      { intros p Ep. apply (Ha p). apply E'. split; [exact Ep|]. intros [_ ->]. now apply Hav. }
      split; [split; [now apply Hn|exact Hnp]|]. intros R. apply reach_last in R.
      destruct R as [<-|(p & _ & Ep)]; [now apply Hav|now apply (Hnp p)]. }
    intros a b Ra Rb Eq.
    destruct (Z.eq_dec a v) as [->|Hav]; destruct (Z.eq_dec b v) as [->|Hbv]; [reflexivity| | |].
    + exfalso. destruct (Hroot b Rb Hbv) as [[Nb _] NRb]. rewrite (L1 v Rvv), (L2 b NRb) in Eq. apply (Hfresh b Nb). now symmetry.
    + exfalso. destruct (Hroot a Ra Hav) as [[Na _] NRa]. rewrite (L1 v Rvv), (L2 a NRa) in Eq. now apply (Hfresh a Na).
    + destruct (Hroot a Ra Hav) as [Ra' NRa]. destruct (Hroot b Rb Hbv) as [Rb' NRb].
      rewrite (L2 a NRa), (L2 b NRb) in Eq. now apply (wl2 _ Hl).
Qed.

(* graft: the root v becomes a child of the earlier node u, everything below v gets the id of u *)
Theorem graft_W_lin st st' u v :
  W_dict st -> W_forest st -> W_lin st ->
  time_of st u < time_of st v -> (forall p, ~ edge st p v) ->
  (forall n, is_node st' n <-> is_node st n) ->
  (forall x y, edge st' x y <-> edge st x y \/ (x = u /\ y = v)) ->
  (forall m, reach st v m -> lin st' m = lin st u) ->
  (forall m, ~ reach st v m -> lin st' m = lin st m) ->
  W_lin st'.
Proof.
  intros Hd Hf Hl Ht Hnp Hn E' L1 L2.
  assert (Rvv : reach st v v) by apply rt_refl.
  assert (NRu : ~ reach st v u) by (intros R; destruct (reach_time st Hf v u R) as [E|Hlt]; [subst; lia|lia]).
  constructor.
  - intros x y Exy. apply E' in Exy. destruct Exy as [Exy|[-> ->]].
    + destruct (reach_dec st Hd Hf v x) as [R|NR].
      * rewrite (L1 x R), (L1 y); [reflexivity|]. eapply rt_trans; [exact R|now apply rt_step].
      * assert (~ reach st v y) as NRy.
        { intros R. apply NR. apply (reach_parent st v x y Hf Exy); [|exact R]. intros ->. now apply (Hnp x). }
        rewrite (L2 x NR), (L2 y NRy). now apply (wl1 _ Hl).
    + now rewrite (L2 u NRu), (L1 v Rvv).
  - assert (Hroot : forall a, root st' a -> root st a /\ ~ reach st v a).
    { intros a [Na Ha].
      assert (forall p, ~ edge st p a) as Hnpa by (intros p Ep; apply (Ha p); apply E'; now left).
      assert (a <> v) as Hav by (intros ->; apply (Ha u); apply E'; now right).
      split; [split; [now apply Hn|exact Hnpa]|]. intros R. apply reach_last in R.
      destruct R as [<-|(p & _ & Ep)]; [now apply Hav|now apply (Hnpa p)]. }
    intros a b Ra Rb Eq. destruct (Hroot a Ra) as [Ra' NRa]. destruct (Hroot b Rb) as [Rb' NRb].
    rewrite (L2 a NRa), (L2 b NRb) in Eq. now apply (wl2 _ Hl).
Qed.

(* ================================================================== 4. the user actions *)
Lemma cfg_ok_ft s s' : ft s' = ft s -> cfg_ok s -> cfg_ok s'.
Proof. intros E. unfold cfg_ok. now rewrite E. Qed.

(* UpdateTrackIDs as a step on well-formed states, now with the lineage ids and the lookups *)
Lemma upd_track_step_lin st start newT newL :
  cfg_ok st -> W_dict st -> W_forest st -> (forall a c, edge st a c -> lin st a = lin st c) -> W_book st ->
  is_node st start ->
  exists b st', do_upd_track st start newT newL = Ok b st' /\ W_dict st' /\ W_forest st' /\ gstep st st' /\
    (forall a c, edge st' a c <-> edge st a c) /\ (forall a, successors st' a = successors st a) /\
    cfg_ok st' /\ W_book st' /\
    max_lin (bk st') = (match newL with Some l => Z.max (max_lin (bk st)) l | None => max_lin (bk st) end) /\
    match newL with
    | Some l => (forall m, reach st start m -> lin st' m = Some l) /\
                (forall m, ~ reach st start m -> lin st' m = lin st m)
    | None => forall m, lin st' m = lin st m
    end.
Proof.
  intros C Hd Hf L1 Hb Hn.
  destruct (upd_track_step st start newT newL Hd Hf Hn) as (b & st' & H & Hd' & Hf' & G & E & S).
  exists b, st'. split; [exact H|]. split; [exact Hd'|]. split; [exact Hf'|]. split; [exact G|].
  split; [exact E|]. split; [exact S|].
  split; [apply (cfg_ok_ft st st' (gs_ft _ _ G) C)|].
  split; [apply (EditBook.upd_track_W_book st start newT newL b st' C Hd Hf L1 Hb H)|].
  split.
  - destruct (EditBook.do_upd_track_inv _ _ _ _ _ _ C H) as (oldT & st1 & tn & ln & Hs & Ht & Hw & ->).
    destruct (EditBook.upd_track_walk _ _ _ _ _ _ _ _ Hd Hs Ht Hw) as (vis & _ & A & _).
    cbn [bk upd_bk max_lin]. rewrite (EditBook.au_bk _ _ A). reflexivity.
  - destruct C as (Ct & Cl & _). apply (do_upd_track_lin st start newT newL b st' Hd Ct Cl Hn H).
Qed.
