(* C05: lineage ids label exactly the weakly connected components, through the edge actions.
   1. what UpdateTrackIDs does to the lineage attribute (corollary of EditWalk.walk_klin);
   2. descendants on a forward-in-time forest: decidable, unchanged below a cut;
   3. the two abstract relabelling steps (cut a subtree and give it a fresh id / graft a tree
      and give it the id of its new parent) keep W_lin;
   4. UserDeleteEdge / UserAddEdge / UserSwapPredecessors keep the invariant bundle, with the
      exact lineage id of every node afterwards, hence the frame clause. *)
From Coq Require Import ZArith List Bool Lia Relations.
From FT Require Import Base.Dict Model.Edit Proofs.DictLemmas Proofs.EditInv Proofs.EditGraph Proofs.EditWalk
  Proofs.EditBasic Proofs.EditUserEdge Proofs.EditGlobal.
From FT Require Proofs.EditBook.
Import ListNotations.
Open Scope Z_scope.

(* ================================================================== 1. UpdateTrackIDs and the lineage attribute *)
Lemma lin_upd_bk s b m : lin (upd_bk s b) m = lin s m.
Proof. reflexivity. Qed.

Lemma from_single st start m : from st [start] m <-> reach st start m.
Proof.
  unfold from. split.
  - intros (x & [<-|[]] & R). exact R.
  - intros R. exists start. split; [now left|exact R].
Qed.

Theorem do_upd_track_lin st start newT newL b st' :
  W_dict st -> trk_act (ft st) = true -> lin_act (ft st) = true -> is_node st start ->
  do_upd_track st start newT newL = Ok b st' ->
  match newL with
  | Some l => (forall m, reach st start m -> lin st' m = Some l) /\
              (forall m, ~ reach st start m -> lin st' m = lin st m)
  | None => forall m, lin st' m = lin st m
  end.
Proof.
  intros Hd Ct Cl Hn H. unfold do_upd_track in H.
  pose proof Hn as Hn'. apply has_node_is_node in Hn'. rewrite Hn' in H. cbn [negb] in H.
  destruct (zattr st start KTrack) as [oldT|]; [|discriminate].
  rewrite Ct, Cl in H. cbn [negb] in H.
  destruct (walk _ _ _ _ _ _ _ _ _) as [[[st1 tn] ln]|] eqn:W; [|discriminate].
  assert (Hc : forall x, In x [start] -> is_node st x) by (intros x [<-|[]]; exact Hn).
  destruct newL as [l|].
  - injection H as _ <-. split; intros m Hm; rewrite lin_upd_bk; unfold lin, zattr.
    + destruct (walk_klin oldT newT l _ st [start] true [] [] st1 tn ln m Hd Hc W) as [A _].
      rewrite A; [reflexivity|now apply from_single].
    + destruct (walk_klin oldT newT l _ st [start] true [] [] st1 tn ln m Hd Hc W) as [_ A].
      rewrite A; [reflexivity|]. intros F. apply Hm. now apply from_single.
  - injection H as _ <-. intros m. rewrite lin_upd_bk. unfold lin, zattr.
    now rewrite (walk_klin_none oldT newT _ st [start] true [] [] st1 tn ln m W).
Qed.

(* ================================================================== 2. descendants on a forest *)
Lemma reach_ext s s' : (forall a c, edge s' a c <-> edge s a c) -> forall a b, reach s' a b <-> reach s a b.
Proof.
  intros H a b. split; induction 1.
  - apply rt_step. now apply H.
  - apply rt_refl.
  - eapply rt_trans; eauto.
  - apply rt_step. now apply H.
  - apply rt_refl.
  - eapply rt_trans; eauto.
Qed.

Lemma reach_sub s s' : (forall a c, edge s' a c -> edge s a c) -> forall a b, reach s' a b -> reach s a b.
Proof.
  intros H a b. induction 1.
  - apply rt_step. now apply H.
  - apply rt_refl.
  - eapply rt_trans; eauto.
Qed.

Lemma reach_time st : W_forest st -> forall a b, reach st a b -> a = b \/ time_of st a < time_of st b.
Proof.
  intros Hf a b H. induction H as [x y Hxy| |x y z _ IH1 _ IH2].
  - right. now apply (wf_time _ Hf).
  - now left.
  - destruct IH1 as [->|I1]; destruct IH2 as [->|I2]; auto. right. lia.
Qed.

Lemma reach_last st a b : reach st a b -> a = b \/ exists p, reach st a p /\ edge st p b.
Proof.
  intros H. apply clos_rt_rtn1 in H. inversion H as [|y z Hyz Hay]; subst; [now left|].
  right. exists y. split; [now apply clos_rtn1_rt|exact Hyz].
Qed.

Lemma reach_wconn st a b : reach st a b -> wconn st a b.
Proof. induction 1; [now apply rst_step|apply rst_refl|eapply rst_trans; eauto]. Qed.

(* being a descendant is decidable: follow the unique parents upwards *)
Lemma reach_dec st : W_dict st -> W_forest st -> forall a b, reach st a b \/ ~ reach st a b.
Proof.
  intros Hd Hf a b. remember (Z.to_nat (time_of st b - time_of st a)) as k eqn:Hk. revert b Hk.
  induction k as [k IH] using lt_wf_ind. intros b Hk.
  destruct (Z.eq_dec a b) as [->|Hab]; [left; apply rt_refl|].
  destruct (parent_dec st b Hd) as [[p Hp]|Hnone].
  - destruct (Z_lt_le_dec (time_of st a) (time_of st b)) as [Hlt|Hge].
    + pose proof (wf_time _ Hf _ _ Hp) as Hpt.
      destruct (IH (Z.to_nat (time_of st p - time_of st a))) with (b := p) as [R|NR]; [subst k; lia|reflexivity| |].
      * left. eapply rt_trans; [exact R|apply rt_step; exact Hp].
      * right. intros R. apply reach_last in R. destruct R as [E|(q & Rq & Eq)]; [contradiction|].
        assert (q = p) by (apply (wf_in _ Hf q p b); assumption). subst q. contradiction.
    + right. intros R. destruct (reach_time st Hf a b R); [contradiction|lia].
  - right. intros R. apply reach_last in R. destruct R as [E|(q & _ & Eq)]; [contradiction|]. now apply (Hnone q).
Qed.

(* removing the edge (u,v) does not change what lies below v: a path from v never comes back to u *)
Lemma reach_cut_from_v st st' u v : W_forest st ->
  (forall x y, edge st' x y <-> edge st x y /\ ~ (x = u /\ y = v)) ->
  forall m, reach st' v m <-> reach st v m.
Proof.
  intros Hf E' m. split.
  - apply reach_sub. intros a c H. now apply E'.
  - intros H. apply clos_rt_rtn1 in H. induction H as [|y z Hyz Hvy IH]; [apply rt_refl|].
    eapply rt_trans; [exact IH|]. apply rt_step. apply E'. split; [exact Hyz|].
    intros [_ ->]. apply clos_rtn1_rt in Hvy. pose proof (wf_time _ Hf _ _ Hyz) as Ht.
    destruct (reach_time st Hf v y Hvy) as [->|Hlt]; lia.
Qed.

(* a node whose parent is not below v is itself not below v, unless it is v *)
Lemma reach_parent st v x y : W_forest st -> edge st x y -> y <> v -> reach st v y -> reach st v x.
Proof.
  intros Hf Exy Hne R. apply reach_last in R. destruct R as [<-|(p & Rp & Ep)]; [contradiction|].
  assert (p = x) by (apply (wf_in _ Hf p x y); assumption). now subst p.
Qed.

(* ================================================================== 3. the two abstract relabelling steps *)
(* cut: the edge (u,v) disappears, everything below v gets an id l no node carried *)
Theorem cut_W_lin st st' u v l :
  W_dict st -> W_forest st -> W_lin st -> edge st u v ->
  (forall n, is_node st' n <-> is_node st n) ->
  (forall x y, edge st' x y <-> edge st x y /\ ~ (x = u /\ y = v)) ->
  (forall n, is_node st n -> lin st n <> Some l) ->
  (forall m, reach st v m -> lin st' m = Some l) ->
  (forall m, ~ reach st v m -> lin st' m = lin st m) ->
  W_lin st'.
Proof.
  intros Hd Hf Hl He Hn E' Hfresh L1 L2.
  assert (Rvv : reach st v v) by apply rt_refl.
  constructor.
  - intros x y Exy. apply E' in Exy. destruct Exy as [Exy Hne].
    destruct (reach_dec st Hd Hf v x) as [R|NR].
    + rewrite (L1 x R), (L1 y); [reflexivity|]. eapply rt_trans; [exact R|now apply rt_step].
    + assert (~ reach st v y) as NRy.
      { intros R. apply NR. apply (reach_parent st v x y Hf Exy); [|exact R].
        intros ->. apply Hne. split; [apply (wf_in _ Hf x u v); assumption|reflexivity]. }
      rewrite (L2 x NR), (L2 y NRy). now apply (wl1 _ Hl).
  - assert (Hroot : forall a, root st' a -> a <> v -> root st a /\ ~ reach st v a).
    { intros a [Na Ha] Hav. assert (forall p, ~ edge st p a) as Hnp.
      { intros p Ep. apply (Ha p). apply E'. split; [exact Ep|]. intros [_ ->]. now apply Hav. }
      split; [split; [now apply Hn|exact Hnp]|]. intros R. apply reach_last in R.
      destruct R as [<-|(p & _ & Ep)]; [now apply Hav|now apply (Hnp p)]. }
    intros a b Ra Rb Eq.
    destruct (Z.eq_dec a v) as [->|Hav]; destruct (Z.eq_dec b v) as [->|Hbv]; [reflexivity| | |].
    + exfalso. destruct (Hroot b Rb Hbv) as [[Nb _] NRb]. rewrite (L1 v Rvv), (L2 b NRb) in Eq. apply (Hfresh b Nb). now symmetry.
    + exfalso. destruct (Hroot a Ra Hav) as [[Na _] NRa]. rewrite (L1 v Rvv), (L2 a NRa) in Eq. now apply (Hfresh a Na).
    + destruct (Hroot a Ra Hav) as [Ra' NRa]. destruct (Hroot b Rb Hbv) as [Rb' NRb].
      rewrite (L2 a NRa), (L2 b NRb) in Eq. now apply (wl2 _ Hl).
Qed.

(* graft: the root v becomes a child of the earlier node u, everything below v gets the id of u *)
Theorem graft_W_lin st st' u v :
  W_dict st -> W_forest st -> W_lin st ->
  time_of st u < time_of st v -> (forall p, ~ edge st p v) ->
  (forall n, is_node st' n <-> is_node st n) ->
  (forall x y, edge st' x y <-> edge st x y \/ (x = u /\ y = v)) ->
  (forall m, reach st v m -> lin st' m = lin st u) ->
  (forall m, ~ reach st v m -> lin st' m = lin st m) ->
  W_lin st'.
Proof.
  intros Hd Hf Hl Ht Hnp Hn E' L1 L2.
  assert (Rvv : reach st v v) by apply rt_refl.
  assert (NRu : ~ reach st v u) by (intros R; destruct (reach_time st Hf v u R) as [E|Hlt]; [subst; lia|lia]).
  constructor.
  - intros x y Exy. apply E' in Exy. destruct Exy as [Exy|[-> ->]].
    + destruct (reach_dec st Hd Hf v x) as [R|NR].
      * rewrite (L1 x R), (L1 y); [reflexivity|]. eapply rt_trans; [exact R|now apply rt_step].
      * assert (~ reach st v y) as NRy.
        { intros R. apply NR. apply (reach_parent st v x y Hf Exy); [|exact R]. intros ->. now apply (Hnp x). }
        rewrite (L2 x NR), (L2 y NRy). now apply (wl1 _ Hl).
    + now rewrite (L2 u NRu), (L1 v Rvv).
  - assert (Hroot : forall a, root st' a -> root st a /\ ~ reach st v a).
    { intros a [Na Ha].
      assert (forall p, ~ edge st p a) as Hnpa by (intros p Ep; apply (Ha p); apply E'; now left).
      assert (a <> v) as Hav by (intros ->; apply (Ha u); apply E'; now right).
      split; [split; [now apply Hn|exact Hnpa]|]. intros R. apply reach_last in R.
      destruct R as [<-|(p & _ & Ep)]; [now apply Hav|now apply (Hnpa p)]. }
    intros a b Ra Rb Eq. destruct (Hroot a Ra) as [Ra' NRa]. destruct (Hroot b Rb) as [Rb' NRb].
    rewrite (L2 a NRa), (L2 b NRb) in Eq. now apply (wl2 _ Hl).
Qed.

(* ================================================================== 4. the user actions *)
Lemma cfg_ok_ft s s' : ft s' = ft s -> cfg_ok s -> cfg_ok s'.
Proof. intros E. unfold cfg_ok. now rewrite E. Qed.

(* UpdateTrackIDs as a step on well-formed states, now with the lineage ids and the lookups *)
Lemma upd_track_step_lin st start newT newL :
  cfg_ok st -> W_dict st -> W_forest st -> (forall a c, edge st a c -> lin st a = lin st c) -> W_book st ->
  is_node st start ->
  exists b st', do_upd_track st start newT newL = Ok b st' /\ W_dict st' /\ W_forest st' /\ gstep st st' /\
    (forall a c, edge st' a c <-> edge st a c) /\ (forall a, successors st' a = successors st a) /\
    cfg_ok st' /\ W_book st' /\
    max_lin (bk st') = (match newL with Some l => Z.max (max_lin (bk st)) l | None => max_lin (bk st) end) /\
    match newL with
    | Some l => (forall m, reach st start m -> lin st' m = Some l) /\
                (forall m, ~ reach st start m -> lin st' m = lin st m)
    | None => forall m, lin st' m = lin st m
    end.
Proof.
  intros C Hd Hf L1 Hb Hn.
  destruct (upd_track_step st start newT newL Hd Hf Hn) as (b & st' & H & Hd' & Hf' & G & E & S).
  exists b, st'. split; [exact H|]. split; [exact Hd'|]. split; [exact Hf'|]. split; [exact G|].
  split; [exact E|]. split; [exact S|].
  split; [apply (cfg_ok_ft st st' (gs_ft _ _ G) C)|].
  split; [apply (EditBook.upd_track_W_book st start newT newL b st' C Hd Hf L1 Hb H)|].
  split.
  - destruct (EditBook.do_upd_track_inv _ _ _ _ _ _ C H) as (oldT & st1 & tn & ln & Hs & Ht & Hw & ->).
    destruct (EditBook.upd_track_walk _ _ _ _ _ _ _ _ Hd Hs Ht Hw) as (vis & _ & A & _).
    cbn [bk upd_bk max_lin]. rewrite (EditBook.au_bk _ _ A). reflexivity.
  - destruct C as (Ct & Cl & _). apply (do_upd_track_lin st start newT newL b st' Hd Ct Cl Hn H).
Qed.

(* the invariants the lineage argument needs, as one bundle *)
Record LWF (st : state) : Prop := {
  l_cfg : cfg_ok st; l_dict : W_dict st; l_forest : W_forest st; l_lin : W_lin st; l_book : W_book st
}.

(* ------------------------------------------------------------------ UserDeleteEdge *)
(* every node below v gets the fresh id next_lin st, every other node keeps its id *)
Theorem ude_core_lin st u v : LWF st -> edge st u v ->
  exists a st', user_delete_edge_core st u v = Ok a st' /\
    W_dict st' /\ W_forest st' /\ gstep st st' /\ cfg_ok st' /\ W_book st' /\
    (forall x y, edge st' x y <-> edge st x y /\ ~ (x = u /\ y = v)) /\
    (forall x, x <> u -> successors st' x = successors st x) /\
    successors st' u = filter (fun x => negb (v =? x)) (successors st u) /\
    (forall m, reach st v m -> lin st' m = Some (next_lin st)) /\
    (forall m, ~ reach st v m -> lin st' m = lin st m).
Proof.
  intros [C Hd Hf Hl Hb] He. unfold user_delete_edge_core. pose proof He as He'. unfold edge in He'. rewrite He'. cbn [negb].
  destruct (do_del_edge_spec st u v He) as (b1 & s1 & H1 & _ & _ & Hs1 & _). rewrite H1. cbn [bind].
  destruct (do_del_edge_WS st u v b1 s1 Hd Hf H1) as (Hd1 & Hf1 & He1 & Hn1 & Ha1 & Hr1).
  assert (gstep st s1) as G1 by (now apply rest_eq_gstep).
  assert (Hb1 : W_book s1) by (apply (EditBook.del_edge_W_book st u v b1 s1 H1 Hb)).
  assert (C1 : cfg_ok s1) by (apply (cfg_ok_ft st s1 (gs_ft _ _ G1) C)).
  assert (Hlin1 : forall m, lin s1 m = lin st m) by (intros m; unfold lin, zattr; now rewrite Ha1).
  assert (L11 : forall a c, edge s1 a c -> lin s1 a = lin s1 c).
  { intros a c E. rewrite !Hlin1. apply (wl1 _ Hl). now apply He1. }
  assert (Hnl1 : next_lin s1 = next_lin st) by (unfold next_lin; destruct Hr1 as (_&_&Hbk&_); now rewrite Hbk).
  assert (Hreach1 : forall m, reach s1 v m <-> reach st v m) by (apply (reach_cut_from_v st s1 u v Hf He1)).
  assert (Nu : is_node s1 u) by (apply (gstep_is_node _ _ _ G1); apply (wd_edge_nodes _ Hd u v He)).
  assert (Nv : is_node s1 v) by (apply (gstep_is_node _ _ _ G1); apply (wd_edge_nodes _ Hd u v He)).
  assert (Hlen : length (successors s1 u) = (length (successors st u) - 1)%nat).
  { rewrite Hs1, Z.eqb_refl. apply filter_remove_length; [apply (wd_adj_nodup _ Hd)|now apply edge_successors]. }
  pose proof (wf_out _ Hf u) as Hout.
  assert (Hs1u : successors s1 u = filter (fun x => negb (v =? x)) (successors st u)) by (now rewrite Hs1, Z.eqb_refl).
  assert (Hs1x : forall x, x <> u -> successors s1 x = successors st x).
  { intros x Hx. rewrite Hs1. destruct (Z.eqb_spec x u); [contradiction|reflexivity]. }
  unfold out_degree. destruct (successors s1 u) as [|sib rest] eqn:Es.
  + cbn [length Z.of_nat Z.eqb].
    destruct (upd_track_step_lin s1 v (next_trk s1) (Some (next_lin s1)) C1 Hd1 Hf1 L11 Hb1 Nv)
      as (b2 & s2 & H2 & Hd2 & Hf2 & G2 & E2 & S2 & C2 & Hb2 & _ & LA & LB).
    rewrite H2. cbn [bind]. eexists _, s2. split; [reflexivity|].
    split; [exact Hd2|]. split; [exact Hf2|]. split; [eapply gstep_trans; eauto|].
    split; [exact C2|]. split; [exact Hb2|]. split; [|split; [|split; [|split]]].
    * intros x y. rewrite E2. apply He1.
    * intros x Hx. rewrite S2. now apply Hs1x.
    * rewrite S2, Es. exact Hs1u.
    * intros m R. rewrite <- Hnl1. apply LA. now apply Hreach1.
    * intros m NR. rewrite LB, Hlin1; [reflexivity|]. intros R. apply NR. now apply Hreach1.
  + destruct rest as [|z rest'].
    * cbn [length]. change (Z.of_nat 1 =? 0) with false. change (Z.of_nat 1 =? 1) with true. cbv iota.
      destruct (wd_track _ Hd1 u Nu) as [t Ht]. apply zattr_attr in Ht. rewrite Ht.
      assert (Nsib : is_node s1 sib).
      { apply (wd_edge_nodes _ Hd1 u sib). apply edge_successors. rewrite Es. now left. }
      destruct (upd_track_step_lin s1 sib t None C1 Hd1 Hf1 L11 Hb1 Nsib)
        as (b2 & s2 & H2 & Hd2 & Hf2 & G2 & E2 & S2 & C2 & Hb2 & M2 & L2).
      rewrite H2. cbn [bind].
      assert (Nv2 : is_node s2 v) by (now apply (gstep_is_node _ _ _ G2)).
      destruct (wd_track _ Hd2 v Nv2) as [tv Htv]. apply zattr_attr in Htv. rewrite Htv.
      assert (L12 : forall a c, edge s2 a c -> lin s2 a = lin s2 c).
      { intros a c E. rewrite !L2. apply L11. now apply E2. }
      assert (Hnl2 : next_lin s2 = next_lin st) by (unfold next_lin in *; rewrite M2; exact Hnl1).
      destruct (upd_track_step_lin s2 v tv (Some (next_lin s2)) C2 Hd2 Hf2 L12 Hb2 Nv2)
        as (b3 & s3 & H3 & Hd3 & Hf3 & G3 & E3 & S3 & C3 & Hb3 & _ & LA & LB).
      rewrite H3. cbn [bind]. eexists _, s3. split; [reflexivity|].
      split; [exact Hd3|]. split; [exact Hf3|]. split; [eapply gstep_trans; [exact G1|eapply gstep_trans; eauto]|].
      split; [exact C3|]. split; [exact Hb3|]. split; [|split; [|split; [|split]]].
      -- intros x y. rewrite E3, E2. apply He1.
      -- intros x Hx. rewrite S3, S2. now apply Hs1x.
      -- rewrite S3, S2, Es. exact Hs1u.
      -- intros m R. rewrite <- Hnl2. apply LA. apply (reach_ext s1 s2 E2). now apply Hreach1.
      -- intros m NR. rewrite LB, L2, Hlin1; [reflexivity|]. intros R. apply NR. apply Hreach1. now apply (reach_ext s1 s2 E2).
    * exfalso. cbn [length] in Hlen. lia.
Qed.

Theorem ude_core_LWF st u v a st' : LWF st -> user_delete_edge_core st u v = Ok a st' -> LWF st'.
Proof.
  intros W H. pose proof W as [C Hd Hf Hl Hb].
  destruct (ude_core_spec st u v Hd Hf) as [Hno _].
  assert (He : edge st u v).
  { destruct (has_edge st u v) eqn:E; [exact E|]. exfalso.
    assert (~ edge st u v) as Hne by (unfold edge; congruence). rewrite (Hno Hne) in H. discriminate. }
  destruct (ude_core_lin st u v W He) as (a0 & s0 & H0 & Hd' & Hf' & G & C' & Hb' & E' & _ & _ & LA & LB).
  rewrite H in H0. injection H0 as <- <-.
  constructor; auto.
  apply (cut_W_lin st st' u v (next_lin st) Hd Hf Hl He); auto.
  - intros n. apply (gstep_is_node _ _ _ G).
  - apply (EditBook.next_lin_fresh st Hb).
Qed.

(* ------------------------------------------------------------------ UserAddEdge *)
(* the part of UserAddEdge after the forced removal of the merge edge *)
Definition uae_tail (pre : list action) (s : state) (u v : Z) : res action :=
  let od := out_degree s u in
  do acts, s <- (if od =? 0 then
                   match zattr s u KTrack with
                   | Some t => do b, s <- do_upd_track s v t (zattr s u KLin); Ok (pre ++ [ABasic b]) s
                   | None => Err EKey s end
                 else if od =? 1 then
                   match successors s u with
                   | c :: _ =>
                       do b, s <- do_upd_track s c (next_trk s) None;
                       match zattr s v KTrack with
                       | Some tv => do b2, s <- do_upd_track s v tv (zattr s u KLin); Ok (pre ++ [ABasic b; ABasic b2]) s
                       | None => Err EKey s end
                   | [] => Err EKey s end
                 else Err (EInvalid false) s);
  do b', s <- do_add_edge s u v [];
  Ok (AGroup (acts ++ [ABasic b'])) s.

Lemma uae_tail_lin pre s u v : LWF s -> is_node s u -> is_node s v -> time_of s u < time_of s v ->
  (forall p, ~ edge s p v) -> (length (successors s u) <= 1)%nat ->
  exists a st', uae_tail pre s u v = Ok a st' /\ LWF st' /\ gstep s st' /\
    (forall x y, edge st' x y <-> edge s x y \/ (x = u /\ y = v)) /\
    (forall m, reach s v m -> lin st' m = lin s u) /\
    (forall m, ~ reach s v m -> lin st' m = lin s m).
Proof.
  intros W Nu Nv Hts Hnp Hod'. pose proof W as [C Hds Hfs Hl Hb].
  destruct (wd_lin _ Hds u Nu) as [lu Hlu]. apply zattr_attr in Hlu.
  assert (L1s : forall a c, edge s a c -> lin s a = lin s c) by apply (wl1 _ Hl).
  unfold uae_tail, out_degree. destruct (successors s u) as [|c rest] eqn:Esu.
  2: destruct rest as [|c2 rest']; [|exfalso; cbn [length] in Hod'; lia].
  all: cbn [length]; try change (Z.of_nat 0 =? 0) with true; try change (Z.of_nat 1 =? 0) with false; try change (Z.of_nat 1 =? 1) with true; cbv iota.
  all: destruct (wd_track _ Hds u Nu) as [t Htk]; apply zattr_attr in Htk.
  - (* join *)
    rewrite Htk, Hlu.
    destruct (upd_track_step_lin s v t (Some lu) C Hds Hfs L1s Hb Nv)
      as (b & s2 & H2 & Hd2 & Hf2 & G2 & E2 & S2 & C2 & Hb2 & _ & LA & LB).
    rewrite H2. cbn [bind].
    assert (Nu2 : is_node s2 u) by (now apply (gstep_is_node _ _ _ G2)).
    assert (Nv2 : is_node s2 v) by (now apply (gstep_is_node _ _ _ G2)).
    destruct (do_add_edge_spec s2 u v [] Nu2 Nv2) as (b' & s3 & H3 & _). rewrite H3. cbn [bind].
    destruct (do_add_edge_WS s2 u v [] b' s3 Hd2 Hf2 H3) as (Hd3 & Hf3 & E3 & N3 & A3 & R3).
    { rewrite !(gstep_time _ _ _ G2). exact Hts. }
    { intros q Hq. apply E2 in Hq. exfalso. now apply (Hnp q). }
    { right. rewrite S2, Esu. cbn. lia. }
    assert (G3 : gstep s s3) by (eapply gstep_trans; [exact G2|now apply rest_eq_gstep]).
    assert (Hlin3 : forall m, lin s3 m = lin s2 m) by (intros m; unfold lin, zattr; now rewrite A3).
    assert (Ed : forall x y, edge s3 x y <-> edge s x y \/ (x = u /\ y = v)) by (intros x y; rewrite E3, E2; tauto).
    assert (LA' : forall m, reach s v m -> lin s3 m = lin s u) by (intros m R; rewrite Hlin3; unfold lin at 2; rewrite Hlu; now apply LA).
    assert (LB' : forall m, ~ reach s v m -> lin s3 m = lin s m) by (intros m R; rewrite Hlin3; now apply LB).
    eexists _, s3. split; [reflexivity|]. split; [|split; [exact G3|split; [exact Ed|split; [exact LA'|exact LB']]]].
    constructor; [apply (cfg_ok_ft s s3 (gs_ft _ _ G3) C)|exact Hd3|exact Hf3| |apply (EditBook.add_edge_W_book s2 u v [] b' s3 H3 Hb2)].
    apply (graft_W_lin s s3 u v Hds Hfs Hl Hts Hnp); auto. intros n. apply (gstep_is_node _ _ _ G3).
  - (* division *)
    assert (Nc : is_node s c) by (apply (wd_edge_nodes _ Hds u c); apply edge_successors; rewrite Esu; now left).
    destruct (upd_track_step_lin s c (next_trk s) None C Hds Hfs L1s Hb Nc)
      as (b & s2 & H2 & Hd2 & Hf2 & G2 & E2 & S2 & C2 & Hb2 & _ & L2).
    rewrite H2. cbn [bind].
    assert (Nu2 : is_node s2 u) by (now apply (gstep_is_node _ _ _ G2)).
    assert (Nv2 : is_node s2 v) by (now apply (gstep_is_node _ _ _ G2)).
    destruct (wd_track _ Hd2 v Nv2) as [tv Htv]. apply zattr_attr in Htv. rewrite Htv.
    assert (Hlu2 : zattr s2 u KLin = Some lu) by (change (lin s2 u = Some lu); rewrite L2; exact Hlu).
    rewrite Hlu2.
    assert (L12 : forall a c, edge s2 a c -> lin s2 a = lin s2 c).
    { intros a c0 E. rewrite !L2. apply L1s. now apply E2. }
    destruct (upd_track_step_lin s2 v tv (Some lu) C2 Hd2 Hf2 L12 Hb2 Nv2)
      as (b2 & s3 & H3 & Hd3 & Hf3 & G3 & E3 & S3 & C3 & Hb3 & _ & LA & LB).
    rewrite H3. cbn [bind].
    assert (Nu3 : is_node s3 u) by (now apply (gstep_is_node _ _ _ G3)).
    assert (Nv3 : is_node s3 v) by (now apply (gstep_is_node _ _ _ G3)).
    destruct (do_add_edge_spec s3 u v [] Nu3 Nv3) as (b' & s4 & H4 & _). rewrite H4. cbn [bind].
    destruct (do_add_edge_WS s3 u v [] b' s4 Hd3 Hf3 H4) as (Hd4 & Hf4 & E4 & N4 & A4 & R4).
    { rewrite !(gstep_time _ _ _ G3), !(gstep_time _ _ _ G2). exact Hts. }
    { intros q Hq. apply E3, E2 in Hq. exfalso. now apply (Hnp q). }
    { right. rewrite S3, S2, Esu. cbn. lia. }
    assert (G4 : gstep s s4) by (eapply gstep_trans; [exact G2|eapply gstep_trans; [exact G3|now apply rest_eq_gstep]]).
    assert (Hlin4 : forall m, lin s4 m = lin s3 m) by (intros m; unfold lin, zattr; now rewrite A4).
    assert (Ed : forall x y, edge s4 x y <-> edge s x y \/ (x = u /\ y = v)) by (intros x y; rewrite E4, E3, E2; tauto).
    assert (LA' : forall m, reach s v m -> lin s4 m = lin s u).
    { intros m R. rewrite Hlin4. unfold lin at 2. rewrite Hlu. apply LA. now apply (reach_ext s s2 E2). }
    assert (LB' : forall m, ~ reach s v m -> lin s4 m = lin s m).
    { intros m R. rewrite Hlin4, LB, L2; [reflexivity|]. intros R'. apply R. now apply (reach_ext s s2 E2). }
    eexists _, s4. split; [reflexivity|]. split; [|split; [exact G4|split; [exact Ed|split; [exact LA'|exact LB']]]].
    constructor; [apply (cfg_ok_ft s s4 (gs_ft _ _ G4) C)|exact Hd4|exact Hf4| |apply (EditBook.add_edge_W_book s3 u v [] b' s4 H4 Hb3)].
    apply (graft_W_lin s s4 u v Hds Hfs Hl Hts Hnp); auto. intros n. apply (gstep_is_node _ _ _ G4).
Qed.

Lemma uae_core_unfold st u v force : user_add_edge_core st u v force =
  if negb (has_node st u) then Err (EInvalid false) st else
  if negb (has_node st v) then Err (EInvalid false) st else
  if time_of st u >=? time_of st v then Err (EInvalid false) st else
  if (out_degree st u - (if has_edge st u v then 1 else 0)) >? 1 then Err (EInvalid false) st else
  do pre, s <- (if in_degree st v >? 0 then
                  if negb force then Err (EInvalid true) st
                  else match predecessors st v with
                       | p :: _ => do a, s <- user_delete_edge st p v false; Ok [a] s
                       | [] => Ok [] st end
                else Ok [] st);
  uae_tail pre s u v.
Proof. reflexivity. Qed.

(* every node below v gets the lineage id of u (also when the old parent of v is cut off first),
   every other node keeps its id *)
Theorem uae_core_lin st u v force : LWF st -> uae_refused st u v force = None ->
  exists a st', user_add_edge_core st u v force = Ok a st' /\ LWF st' /\ gstep st st' /\
    (forall x y, edge st' x y <-> (edge st x y /\ y <> v) \/ (x = u /\ y = v)) /\
    (forall m, reach st v m -> lin st' m = lin st u) /\
    (forall m, ~ reach st v m -> lin st' m = lin st m).
Proof.
  intros W. pose proof W as [C Hd Hf Hl Hb]. rewrite uae_core_unfold. unfold uae_refused.
  destruct (has_node st u) eqn:Eu; cbn [negb]; [|intros X; discriminate X].
  destruct (has_node st v) eqn:Ev; cbn [negb]; [|intros X; discriminate X].
  destruct (time_of st u >=? time_of st v) eqn:Et; [intros X; discriminate X|].
  destruct (out_degree st u - (if has_edge st u v then 1 else 0) >? 1) eqn:Eo; [intros X; discriminate X|].
  apply has_node_is_node in Eu. apply has_node_is_node in Ev.
  assert (Ht : time_of st u < time_of st v) by (rewrite Z.geb_leb in Et; apply Z.leb_gt in Et; lia).
  assert (Ho : out_degree st u - (if has_edge st u v then 1 else 0) <= 1) by (rewrite Z.gtb_ltb in Eo; apply Z.ltb_ge in Eo; lia).
  assert (NRu : ~ reach st v u) by (intros R; destruct (reach_time st Hf v u R) as [E|Hlt]; [subst; lia|lia]).
  destruct (in_degree st v >? 0) eqn:Ei.
  - destruct force; cbn [negb andb]; [intros _|intros X; discriminate X].
    apply in_degree_pos in Ei. destruct Ei as [p0 Hp0].
    destruct (predecessors st v) as [|p r] eqn:Ep; [destruct Hp0|].
    assert (Hpv : is_node st p /\ edge st p v) by (apply in_predecessors; rewrite Ep; now left).
    destruct Hpv as [Np Epv].
    destruct (ude_core_lin st p v W Epv) as (a & s & H & Hds & Hfs & Gs & Cs & Hbs & Es & Sx & Sp & LA & LB).
    assert (Ws : LWF s) by (apply (ude_core_LWF st p v a s W H)).
    unfold user_delete_edge, top_wrap. rewrite H. cbn [bind].
    assert (Eonly : forall x y, edge s x y <-> edge st x y /\ y <> v).
    { intros x y. rewrite Es. split.
      - intros [H1 H2]. split; [exact H1|]. intros ->. apply H2. split; [|reflexivity]. apply (wf_in _ Hf x p v H1 Epv).
      - intros [H1 H2]. split; [exact H1|]. intros [_ ->]. contradiction. }
    assert (Hnp : forall q, ~ edge s q v) by (intros q Hq; apply Eonly in Hq; destruct Hq as [_ Hq]; congruence).
    assert (Hod : (length (successors s u) <= 1)%nat).
    { unfold out_degree in Ho. destruct (Z.eq_dec u p) as [->|Hup].
      - rewrite Sp. rewrite filter_remove_length; [|apply (wd_adj_nodup _ Hd)|now apply edge_successors].
        unfold edge in Epv. rewrite Epv in Ho. lia.
      - rewrite (Sx u Hup). destruct (has_edge st u v) eqn:Euv; [|lia].
        exfalso. apply Hup. apply (wf_in _ Hf u p v); [exact Euv|exact Epv]. }
    destruct (uae_tail_lin [a] s u v Ws) as (a' & st' & H' & W' & G' & E' & LA' & LB'); auto.
    { now apply (gstep_is_node _ _ _ Gs). }
    { now apply (gstep_is_node _ _ _ Gs). }
    { rewrite !(gstep_time _ _ _ Gs). exact Ht. }
    exists a', st'. split; [exact H'|]. split; [exact W'|]. split; [eapply gstep_trans; eauto|].
    assert (Hr : forall m, reach s v m <-> reach st v m) by (apply (reach_cut_from_v st s p v Hf Es)).
    split; [|split].
    + intros x y. rewrite E', Eonly. tauto.
    + intros m R. rewrite LA' by (now apply Hr). now apply LB.
    + intros m NR. rewrite LB' by (intros R; apply NR; now apply Hr). now apply LB.
  - cbn [andb bind]. intros _.
    assert (Hnop : forall p, ~ edge st p v).
    { intros p Hp. assert (In p (predecessors st v)) as Hin by (apply in_predecessors; split; [apply (wd_edge_nodes _ Hd p v Hp)|exact Hp]).
      assert (in_degree st v >? 0 = true) by (apply in_degree_pos; eauto). congruence. }
    assert (Hod : (length (successors st u) <= 1)%nat).
    { unfold out_degree in Ho. destruct (has_edge st u v) eqn:E; [exfalso; now apply (Hnop u)|lia]. }
    destruct (uae_tail_lin [] st u v W Eu Ev Ht Hnop Hod) as (a' & st' & H' & W' & G' & E' & LA' & LB').
    exists a', st'. split; [exact H'|]. split; [exact W'|]. split; [exact G'|]. split; [|split; assumption].
    intros x y. rewrite E'. split; [intros [H1|H1]; [left; split; [exact H1|intros ->; now apply (Hnop x)]|now right]|tauto].
Qed.

Theorem uae_core_LWF st u v force a st' : LWF st -> user_add_edge_core st u v force = Ok a st' -> LWF st'.
Proof.
  intros W H. pose proof W as [C Hd Hf Hl Hb].
  pose proof (uae_core_spec st u v force Hd Hf) as S.
  destruct (uae_refused st u v force) as [e|] eqn:R; [rewrite S in H; discriminate|].
  destruct (uae_core_lin st u v force W R) as (a0 & s0 & H0 & W' & _). rewrite H in H0. injection H0 as <- <-. exact W'.
Qed.

(* ------------------------------------------------------------------ the public entry points (history tail) *)
Lemma finish_top_g s a p : g (finish_top s a p) = g s /\ ft (finish_top s a p) = ft s /\ bk (finish_top s a p) = bk s.
Proof. unfold finish_top, hist_add. destruct (redo_stack s); auto. Qed.

Lemma edge_same_g s s' x y : g s' = g s -> (edge s' x y <-> edge s x y).
Proof. intros E. unfold edge, has_edge, adj. now rewrite E. Qed.
Lemma lin_same_g s s' m : g s' = g s -> lin s' m = lin s m.
Proof. intros E. unfold lin, zattr, attr, node_attrs. now rewrite E. Qed.
Lemma is_node_same_g s s' m : g s' = g s -> (is_node s' m <-> is_node s m).
Proof. intros E. unfold is_node, node_ids. now rewrite E. Qed.
Lemma time_same_g s s' m : g s' = g s -> time_of s' m = time_of s m.
Proof. intros E. unfold time_of, zattr, attr, node_attrs. now rewrite E. Qed.
Lemma successors_same_g s s' m : g s' = g s -> successors s' m = successors s m.
Proof. intros E. unfold successors, adj. now rewrite E. Qed.

Lemma LWF_same s s' : g s' = g s -> ft s' = ft s -> bk s' = bk s -> LWF s -> LWF s'.
Proof.
  intros Eg Ef Eb [C Hd Hf Hl Hb]. constructor.
  - now apply (cfg_ok_ft s s').
  - now apply (EditBook.W_dict_same_g s s').
  - destruct Hf as [A B D]. constructor.
    + intros a a' c E1 E2. apply (A a a' c); now apply (edge_same_g s s').
    + intros a. rewrite (successors_same_g s s' a Eg). apply B.
    + intros a c E. rewrite !(time_same_g s s' _ Eg). apply D. now apply (edge_same_g s s').
  - destruct Hl as [A B]. constructor.
    + intros a c E. rewrite !(lin_same_g s s' _ Eg). apply A. now apply (edge_same_g s s').
    + intros a c [Na Ra] [Nc Rc]. rewrite !(lin_same_g s s' _ Eg). apply B.
      * split; [now apply (is_node_same_g s s')|]. intros p E. apply (Ra p). now apply (edge_same_g s s').
      * split; [now apply (is_node_same_g s s')|]. intros p E. apply (Rc p). now apply (edge_same_g s s').
  - now apply (EditBook.W_book_same_g s s').
Qed.

Lemma top_wrap_inv top p r a st' : top_wrap top p r = Ok a st' ->
  exists s, r = Ok a s /\ g st' = g s /\ ft st' = ft s /\ bk st' = bk s.
Proof.
  unfold top_wrap. destruct r as [a0 s|e s]; [|discriminate]. intros H. injection H as <- <-.
  exists s. split; [reflexivity|]. destruct top; [apply finish_top_g|auto].
Qed.

(* UserDeleteEdge, as called (top level or nested): what an accepted call does *)
Theorem user_delete_edge_lin st u v top a st' : LWF st -> user_delete_edge st u v top = Ok a st' ->
  edge st u v /\ LWF st' /\ (forall n, is_node st' n <-> is_node st n) /\
  (forall x y, edge st' x y <-> edge st x y /\ ~ (x = u /\ y = v)) /\
  (forall m, reach st v m -> lin st' m = Some (next_lin st)) /\
  (forall m, ~ reach st v m -> lin st' m = lin st m).
Proof.
  intros W H. unfold user_delete_edge in H. apply top_wrap_inv in H. destruct H as (s & H & Eg & Ef & Eb).
  pose proof W as [C Hd Hf Hl Hb].
  destruct (ude_core_spec st u v Hd Hf) as [Hno _].
  assert (He : edge st u v).
  { destruct (has_edge st u v) eqn:E; [exact E|]. exfalso.
    assert (~ edge st u v) as Hne by (unfold edge; congruence). rewrite (Hno Hne) in H. discriminate. }
  pose proof (ude_core_LWF st u v a s W H) as Ws.
  destruct (ude_core_lin st u v W He) as (a0 & s0 & H0 & _ & _ & G & _ & _ & E' & _ & _ & LA & LB).
  rewrite H in H0. injection H0 as <- <-.
  split; [exact He|]. split; [now apply (LWF_same s st')|].
  split; [intros n; rewrite (is_node_same_g s st' n Eg); apply (gstep_is_node _ _ _ G)|].
  split; [intros x y; rewrite (edge_same_g s st' x y Eg); apply E'|].
  split; intros m Hm; rewrite (lin_same_g s st' m Eg); auto.
Qed.

(* UserAddEdge, as called: what an accepted call does *)
Theorem user_add_edge_lin st u v force top a st' : LWF st -> user_add_edge st u v force top = Ok a st' ->
  uae_refused st u v force = None /\ LWF st' /\ (forall n, is_node st' n <-> is_node st n) /\
  (forall x y, edge st' x y <-> (edge st x y /\ y <> v) \/ (x = u /\ y = v)) /\
  (forall m, reach st v m -> lin st' m = lin st u) /\
  (forall m, ~ reach st v m -> lin st' m = lin st m).
Proof.
  intros W H. unfold user_add_edge in H. apply top_wrap_inv in H. destruct H as (s & H & Eg & Ef & Eb).
  pose proof W as [C Hd Hf Hl Hb].
  pose proof (uae_core_spec st u v force Hd Hf) as S.
  destruct (uae_refused st u v force) as [e|] eqn:R; [rewrite S in H; discriminate|].
  destruct (uae_core_lin st u v force W R) as (a0 & s0 & H0 & W' & G & E' & LA & LB).
  rewrite H in H0. injection H0 as <- <-.
  split; [reflexivity|]. split; [now apply (LWF_same s st')|].
  split; [intros n; rewrite (is_node_same_g s st' n Eg); apply (gstep_is_node _ _ _ G)|].
  split; [intros x y; rewrite (edge_same_g s st' x y Eg); apply E'|].
  split; intros m Hm; rewrite (lin_same_g s st' m Eg); auto.
Qed.

(* ------------------------------------------------------------------ C05 for the two edge actions *)
Theorem LWF_global st : LWF st ->
  forall n m, is_node st n -> is_node st m -> (lin st n = lin st m <-> wconn st n m).
Proof. intros [C Hd Hf Hl Hb]. now apply lineage_global. Qed.

Lemma not_wconn_not_reach st v m : ~ wconn st m v -> ~ reach st v m.
Proof. intros H R. apply H. apply rst_sym. now apply reach_wconn. Qed.

Theorem delete_edge_step st u v top a st' : LWF st -> user_delete_edge st u v top = Ok a st' ->
  LWF st' /\ forall n m, is_node st' n -> is_node st' m -> (lin st' n = lin st' m <-> wconn st' n m).
Proof.
  intros W H. destruct (user_delete_edge_lin st u v top a st' W H) as (_ & W' & _).
  split; [exact W'|now apply LWF_global].
Qed.

Theorem delete_edge_frame st u v top a st' : LWF st -> user_delete_edge st u v top = Ok a st' ->
  forall m, ~ wconn st m u -> ~ wconn st m v -> lin st' m = lin st m.
Proof.
  intros W H m _ Hv. destruct (user_delete_edge_lin st u v top a st' W H) as (_ & _ & _ & _ & _ & LB).
  apply LB. now apply not_wconn_not_reach.
Qed.

Theorem add_edge_step st u v force top a st' : LWF st -> user_add_edge st u v force top = Ok a st' ->
  LWF st' /\ forall n m, is_node st' n -> is_node st' m -> (lin st' n = lin st' m <-> wconn st' n m).
Proof.
  intros W H. destruct (user_add_edge_lin st u v force top a st' W H) as (_ & W' & _).
  split; [exact W'|now apply LWF_global].
Qed.

Theorem add_edge_frame st u v force top a st' : LWF st -> user_add_edge st u v force top = Ok a st' ->
  forall m, ~ wconn st m u -> ~ wconn st m v -> lin st' m = lin st m.
Proof.
  intros W H m _ Hv. destruct (user_add_edge_lin st u v force top a st' W H) as (_ & _ & _ & _ & _ & LB).
  apply LB. now apply not_wconn_not_reach.
Qed.

(* ------------------------------------------------------------------ UserSwapPredecessors *)
(* a step that keeps the bundle, only creates edges into nodes of D, and only relabels below nodes of D *)
Definition dstep (D : Z -> Prop) (st st' : state) : Prop :=
  LWF st' /\ (forall n, is_node st' n <-> is_node st n) /\
  (forall x y, edge st' x y -> edge st x y \/ D y) /\
  (forall m, (forall d, D d -> ~ reach st d m) -> lin st' m = lin st m).

Lemma reach_D (D : Z -> Prop) st s : (forall x y, edge s x y -> edge st x y \/ D y) ->
  forall a m, reach s a m -> (exists d, D d /\ reach st d a) -> exists d, D d /\ reach st d m.
Proof.
  intros E a m R Ha. apply clos_rt_rtn1 in R. induction R as [|y z Hyz _ IH]; [exact Ha|].
  destruct (E y z Hyz) as [Est|Dz].
  - destruct IH as (d & Dd & Rd). exists d. split; [exact Dd|]. eapply rt_trans; [exact Rd|now apply rt_step].
  - exists z. split; [exact Dz|apply rt_refl].
Qed.

Lemma dstep_refl D st : LWF st -> dstep D st st.
Proof. intros W. split; [exact W|]. split; [tauto|]. split; [auto|auto]. Qed.

Lemma dstep_trans D a b c : dstep D a b -> dstep D b c -> dstep D a c.
Proof.
  intros (W1 & N1 & E1 & L1) (W2 & N2 & E2 & L2). split; [exact W2|]. split; [|split].
  - intros n. rewrite N2. apply N1.
  - intros x y H. destruct (E2 x y H) as [H'|H']; [now apply E1|now right].
  - intros m Hm. rewrite L2, L1; [reflexivity|exact Hm|].
    intros d Dd R. destruct (reach_D D a b E1 d m R) as (d' & Dd' & R'); [exists d; split; [exact Dd|apply rt_refl]|].
    now apply (Hm d').
Qed.

Lemma dstep_delete (D : Z -> Prop) st u v top a st' : D v -> LWF st -> user_delete_edge st u v top = Ok a st' -> dstep D st st'.
Proof.
  intros Dv W H. destruct (user_delete_edge_lin st u v top a st' W H) as (_ & W' & N & E & _ & LB).
  split; [exact W'|]. split; [exact N|]. split.
  - intros x y Hxy. left. now apply E.
  - intros m Hm. apply LB. now apply Hm.
Qed.

Lemma dstep_add (D : Z -> Prop) st u v force top a st' : D v -> LWF st -> user_add_edge st u v force top = Ok a st' -> dstep D st st'.
Proof.
  intros Dv W H. destruct (user_add_edge_lin st u v force top a st' W H) as (_ & W' & N & E & _ & LB).
  split; [exact W'|]. split; [exact N|]. split.
  - intros x y Hxy. apply E in Hxy. destruct Hxy as [[Hxy _]|[_ ->]]; [now left|now right].
  - intros m Hm. apply LB. now apply Hm.
Qed.

Lemma bind_ok {A B} (r : res A) (f : A -> state -> res B) b s : bind r f = Ok b s -> exists x s1, r = Ok x s1 /\ f x s1 = Ok b s.
Proof. destruct r as [x s1|e s1]; cbn [bind]; [eauto|discriminate]. Qed.

Definition swap_body st n1 n2 (p1 p2 : option Z) : res action :=
  do a1, s <- (match p1 with Some p => do a, s <- user_delete_edge st p n1 false; Ok [a] s | None => Ok [] st end);
  do a2, s <- (match p2 with Some p => do a, s <- user_delete_edge s p n2 false; Ok (a1 ++ [a]) s | None => Ok a1 s end);
  do a3, s <- (match p1 with Some p => do a, s <- user_add_edge s p n2 false false; Ok (a2 ++ [a]) s | None => Ok a2 s end);
  do a4, s <- (match p2 with Some p => do a, s <- user_add_edge s p n1 false false; Ok (a3 ++ [a]) s | None => Ok a3 s end);
  Ok (AGroup a4) s.

Lemma opt_delete_dstep (D : Z -> Prop) s po n (f : action -> list action) acc r s' : D n -> LWF s ->
  (match po with Some p => do a, s0 <- user_delete_edge s p n false; Ok (f a) s0 | None => Ok acc s end) = Ok r s' -> dstep D s s'.
Proof.
  intros Dn W H. destruct po as [p|].
  - apply bind_ok in H. destruct H as (x & s1 & H & H2). injection H2 as _ <-. now apply (dstep_delete D s p n false x s1).
  - injection H as _ <-. now apply dstep_refl.
Qed.

Lemma opt_add_dstep (D : Z -> Prop) s po n (f : action -> list action) acc r s' : D n -> LWF s ->
  (match po with Some p => do a, s0 <- user_add_edge s p n false false; Ok (f a) s0 | None => Ok acc s end) = Ok r s' -> dstep D s s'.
Proof.
  intros Dn W H. destruct po as [p|].
  - apply bind_ok in H. destruct H as (x & s1 & H & H2). injection H2 as _ <-. now apply (dstep_add D s p n false false x s1).
  - injection H as _ <-. now apply dstep_refl.
Qed.

Lemma swap_body_dstep st n1 n2 p1 p2 a st' : LWF st -> swap_body st n1 n2 p1 p2 = Ok a st' ->
  dstep (fun d => d = n1 \/ d = n2) st st'.
Proof.
  intros W H. unfold swap_body in H. set (D := fun d => d = n1 \/ d = n2).
  assert (D1 : D n1) by (now left). assert (D2 : D n2) by (now right).
  apply bind_ok in H. destruct H as (a1 & s1 & H1 & H).
  apply bind_ok in H. destruct H as (a2 & s2 & H2 & H).
  apply bind_ok in H. destruct H as (a3 & s3 & H3 & H).
  apply bind_ok in H. destruct H as (a4 & s4 & H4 & H). injection H as _ <-.
  pose proof (opt_delete_dstep D st p1 n1 (fun a => [a]) [] a1 s1 D1 W H1) as S1.
  pose proof (opt_delete_dstep D s1 p2 n2 (fun a => a1 ++ [a]) a1 a2 s2 D2 (proj1 S1) H2) as S2.
  pose proof (opt_add_dstep D s2 p1 n2 (fun a => a2 ++ [a]) a2 a3 s3 D2 (proj1 S2) H3) as S3.
  pose proof (opt_add_dstep D s3 p2 n1 (fun a => a3 ++ [a]) a3 a4 s4 D1 (proj1 S3) H4) as S4.
  eapply dstep_trans; [exact S1|]. eapply dstep_trans; [exact S2|]. eapply dstep_trans; [exact S3|exact S4].
Qed.

Lemma swap_core_body st n1 n2 a st' : user_swap_core st n1 n2 = Ok a st' ->
  exists p1 p2, swap_body st n1 n2 p1 p2 = Ok a st'.
Proof.
  unfold user_swap_core. destruct (negb (has_node st n1) || negb (has_node st n2)); [discriminate|].
  destruct (hd_error (predecessors st n1)) as [p1|]; destruct (hd_error (predecessors st n2)) as [p2|]; cbv zeta.
  - destruct (p1 =? p2); [discriminate|]. destruct (time_of st p1 >=? time_of st n2); [discriminate|].
    destruct (time_of st p2 >=? time_of st n1); [discriminate|]. intros H. exists (Some p1), (Some p2). exact H.
  - destruct (time_of st p1 >=? time_of st n2); [discriminate|]. intros H. exists (Some p1), None. exact H.
  - destruct (time_of st p2 >=? time_of st n1); [discriminate|]. intros H. exists None, (Some p2). exact H.
  - discriminate.
Qed.

Theorem user_swap_lin st n1 n2 a st' : LWF st -> user_swap st n1 n2 = Ok a st' ->
  dstep (fun d => d = n1 \/ d = n2) st st'.
Proof.
  intros W H. unfold user_swap in H. apply top_wrap_inv in H. destruct H as (s & H & Eg & Ef & Eb).
  apply swap_core_body in H. destruct H as (p1 & p2 & H).
  destruct (swap_body_dstep st n1 n2 p1 p2 a s W H) as (W' & N & E & L).
  split; [now apply (LWF_same s st')|]. split; [|split].
  - intros n. rewrite (is_node_same_g s st' n Eg). apply N.
  - intros x y Hxy. apply E. now apply (edge_same_g s st' x y Eg).
  - intros m Hm. rewrite (lin_same_g s st' m Eg). now apply L.
Qed.

Theorem swap_step st n1 n2 a st' : LWF st -> user_swap st n1 n2 = Ok a st' ->
  LWF st' /\ forall n m, is_node st' n -> is_node st' m -> (lin st' n = lin st' m <-> wconn st' n m).
Proof.
  intros W H. destruct (user_swap_lin st n1 n2 a st' W H) as (W' & _).
  split; [exact W'|now apply LWF_global].
Qed.

Theorem swap_frame st n1 n2 a st' : LWF st -> user_swap st n1 n2 = Ok a st' ->
  forall m, ~ wconn st m n1 -> ~ wconn st m n2 -> lin st' m = lin st m.
Proof.
  intros W H m H1 H2. destruct (user_swap_lin st n1 n2 a st' W H) as (_ & _ & _ & L).
  apply L. intros d [->| ->]; now apply not_wconn_not_reach.
Qed.
