(* Generic lemmas about the combinators of Model/NpRt.v against the vocabulary of the hand
   models Model/LabelUtils.v (and, through paint_tie / zeros_like_tie, Model/Relabel.v), and the
   "generic loop body" lemmas used by the tie files.  Nothing here mentions a generated file:
   this file imports only the Coq stdlib, Model/NpRt.v and Model/LabelUtils.v, so that
   Proofs/RelabelTie.v and Proofs/ImportTie.v (properties C12-C14) do not depend on
   Gen/LabelUtils_gen.v (property C19).  Split out of Proofs/LabelUtilsTie.v. *)
From Coq Require Import ZArith List Bool Lia Arith.
From FT Require Import Model.NpRt Model.LabelUtils.
Import ListNotations.
Open Scope Z_scope.

(* ------------------------------------------------------------------ *)
(* NpRt combinators against the vocabulary of the hand model           *)
(* ------------------------------------------------------------------ *)

Lemma py_for_fold {A B : Type} (l : list A) (b : B) (f : A -> B -> B) :
  py_for l b f = fold_left (fun acc x => f x acc) l b.
Proof. reflexivity. Qed.

Lemma set_nth_upd {A : Type} (g : A -> A) (d : A) : forall (l : list A) (i : nat),
  set_nth i (g (nth i l d)) l = upd_nth i g l.
Proof.
  induction l as [|x r IH]; intros [|i]; cbn [set_nth upd_nth nth]; try reflexivity.
  now rewrite IH.
Qed.

Lemma set_nth_nil {A : Type} (i : nat) (x : A) : set_nth i x [] = [].
Proof. destruct i; reflexivity. Qed.

Lemma upd_nth_nil {A : Type} (i : nat) (g : A -> A) : upd_nth i g [] = [].
Proof. destruct i; reflexivity. Qed.

Lemma set_nth_idem {A : Type} (x : A) : forall (l : list A) (i : nat),
  set_nth i x (set_nth i x l) = set_nth i x l.
Proof.
  induction l as [|y r IH]; intros [|i]; cbn [set_nth]; try reflexivity.
  now rewrite IH.
Qed.

Lemma set_nth_middle {A : Type} (x y : A) (r : list A) : forall pre : list A,
  set_nth (length pre) x (pre ++ y :: r) = pre ++ x :: r.
Proof. induction pre as [|z pre IH]; cbn [length app set_nth]; [reflexivity|now rewrite IH]. Qed.

Lemma nth_middle' {A : Type} (y d : A) (r : list A) : forall pre : list A,
  nth (length pre) (pre ++ y :: r) d = y.
Proof. induction pre as [|z pre IH]; cbn [length app nth]; [reflexivity|exact IH]. Qed.

(* newf[oldf == s] = c *)
Lemma mask_assign_paint (s c : Z) : forall newf oldf : list Z,
  np_mask_assign newf (np_eq_mask oldf s) c = paint_frame oldf s c newf.
Proof.
  unfold np_mask_assign, np_eq_mask, paint_frame.
  induction newf as [|x r IH]; intros [|y o]; cbn [map combine]; try reflexivity.
  cbn [fst snd]. now rewrite IH.
Qed.

(* acc[i][old[i] == s] = c *)
Lemma paint_tie (old acc : list (list Z)) (i s c : Z) :
  np_setitem acc i (np_mask_assign (np_getitem acc i) (np_eq_mask (np_getitem old i) s) c)
  = upd_nth (Z.to_nat i) (paint_frame (nth (Z.to_nat i) old []) s c) acc.
Proof.
  unfold np_setitem, np_getitem. rewrite mask_assign_paint.
  exact (set_nth_upd (paint_frame (nth (Z.to_nat i) old []) s c) [] acc (Z.to_nat i)).
Qed.

Lemma zeros_like_tie old : np_zeros_like old = zeros_like old.
Proof. reflexivity. Qed.

(* frame[frame != 0] += m *)
Lemma mask_iadd_shift (m : Z) : forall f : list Z,
  np_mask_iadd f (np_ne_mask f 0) m = shift_frame m f.
Proof.
  unfold np_mask_iadd, np_ne_mask, shift_frame.
  induction f as [|x r IH]; cbn [map combine]; [reflexivity|].
  cbn [fst snd]. rewrite IH. f_equal. unfold shift_label.
  destruct (x =? 0) eqn:E; cbn [negb]; [|reflexivity].
  apply Z.eqb_eq in E. now subst.
Qed.

Lemma max_unsigned_fmax f : np_max_unsigned f = fmax f.
Proof. reflexivity. Qed.

Lemma split01_regroup {A : Type} : forall (s : list nat) (l : list A),
  np_reshape_split01 s l = regroup s l.
Proof. induction s as [|n r IH]; intros l; cbn [np_reshape_split01 regroup]; [reflexivity|now rewrite IH]. Qed.

(* ------------------------------------------------------------------ *)
(* ensure_unique_labels                                                *)
(* ------------------------------------------------------------------ *)

(* any loop body that shifts frame idx by the running maximum and then updates the maximum *)
Lemma eul_loop (F : Z -> list (list Z) * Z -> list (list Z) * Z) :
  (forall idx s m, F idx (s, m) =
     (np_setitem s idx (shift_frame m (np_getitem s idx)),
      Z.max m (fmax (shift_frame m (np_getitem s idx))))) ->
  forall fs pre m,
    fst (fold_left (fun acc x => F x acc) (map Z.of_nat (seq (length pre) (length fs))) (pre ++ fs, m))
    = pre ++ eul m fs.
Proof.
  intros HF. induction fs as [|f r IH]; intros pre m.
  - reflexivity.
  - cbn [length seq map fold_left eul]. rewrite HF.
    unfold np_getitem, np_setitem. rewrite Nat2Z.id, nth_middle', set_nth_middle.
    set (f' := shift_frame m f).
    replace (pre ++ f' :: r) with ((pre ++ [f']) ++ r) by (rewrite <- app_assoc; reflexivity).
    replace (S (length pre)) with (length (pre ++ [f'])) by (rewrite app_length; cbn [length]; lia).
    rewrite IH. rewrite <- app_assoc. reflexivity.
Qed.

Lemma eul_generic (F : Z -> list (list Z) * Z -> list (list Z) * Z) :
  (forall idx s m, F idx (s, m) =
     (np_setitem s idx (shift_frame m (np_getitem s idx)),
      Z.max m (fmax (shift_frame m (np_getitem s idx))))) ->
  forall fs, fst (py_for (py_range (np_shape0 fs)) (fs, 0) F) = ensure_unique_labels fs.
Proof.
  intros HF fs. unfold py_for, py_range, np_shape0, ensure_unique_labels. rewrite Nat2Z.id.
  exact (eul_loop F HF fs [] 0).
Qed.

(* ------------------------------------------------------------------ *)
(* relabel_segmentation_with_track_id                                  *)
(* ------------------------------------------------------------------ *)

Lemma paint_inner_generic (Gf : Z -> list (list Z) -> list (list Z)) (old : list (list Z)) (c : Z) (mk : Z -> tnode) :
  (forall n acc, Gf n acc = paint_node old c acc (mk n)) ->
  forall ns acc, py_for ns acc Gf = fold_left (paint_node old c) (map mk ns) acc.
Proof.
  intros H. unfold py_for. induction ns as [|n r IH]; intros acc; cbn [fold_left map]; [reflexivity|].
  now rewrite H, IH.
Qed.

Lemma paint_outer_generic (F : list Z -> list (list Z) * Z -> list (list Z) * Z) (old : list (list Z)) (mk : Z -> tnode) :
  (forall ns acc c, F ns (acc, c) = (fold_left (paint_node old c) (map mk ns) acc, c + 1)) ->
  forall comps acc c, fst (py_for comps (acc, c) F) = paint_comps old c (map (map mk) comps) acc.
Proof.
  intros H. unfold py_for. induction comps as [|ns r IH]; intros acc c; cbn [fold_left map paint_comps]; [reflexivity|].
  now rewrite H, IH.
Qed.
