(* C11 at the level of whole sessions: anywhere along any session of the public interface (edits of every
   kind, undo, redo, queries; accepted or refused, in any order and number) from a well-formed start, a call
   that is refused - any exception code - leaves a state that is observably equal to the one it was made in
   (nodes, edges, every registered feature value, the array, the feature table) and well formed; so does an
   undo / redo that returns False, and so does every query.  Corollary of the session invariant: the
   reference timeline does not move on such a call, and before and after the state is observably the state
   under the cursor. *)
From Coq Require Import ZArith List Bool Lia.
From FT Require Import Base.Dict Model.Edit Model.EditExec Proofs.EditInv Proofs.EditBook Proofs.EditInverse Proofs.EditInverseNode
  Proofs.EditSessions Proofs.EditSessionsFull Proofs.EditSessionsAll.
Import ListNotations.
Open Scope Z_scope.

(* the calls after which the timeline stays where it was *)
Definition stays (st : state) (t : A.tline state) (o : op) : Prop := tl_step_full st t o = t.

Lemma stays_refused st t o : o <> OUndo -> o <> ORedo -> fst (snd (step st o)) <> 0 -> stays st t o.
Proof.
  intros Hu Hr Hc. apply Z.eqb_neq in Hc. unfold stays, tl_step_full.
  destruct o; try congruence; rewrite Hc, andb_false_r; reflexivity.
Qed.

Lemma stays_query st t o : is_edit_op_full o = false -> o <> OUndo -> o <> ORedo -> stays st t o.
Proof. intros Hq Hu Hr. unfold stays, tl_step_full. destruct o; try congruence; now rewrite Hq. Qed.

Theorem stays_obs st t o : SInv st t -> rp_decl st -> op_pre_all st o -> stays st t o ->
  obs_eq st (fst (step st o)) /\ WF (fst (step st o)).
Proof.
  intros I D P S. destruct (step_session_all st t o I D P) as (I1 & _). rewrite S in I1.
  destruct (SInv_current st t st I) as [_ O0]. destruct (SInv_current _ t st I1) as [_ O1].
  split; [exact (obs_eq_trans _ _ _ O0 (obs_eq_sym _ _ O1))|exact (SInv_WF _ _ I1)].
Qed.

Section SessionRefused.
  Variables (st0 : state) (ops : list op).
  Hypothesis W0 : WF st0.
  Hypothesis Hreg : reg_ok st0.
  Hypothesis Hrp : rp_disjoint st0.
  Hypothesis Hdecl : rp_decl st0.
  Hypothesis Hu : undo_stack st0 = [].
  Hypothesis Hr : redo_stack st0 = [].
  Hypothesis Hpre : pre_along_all st0 ops.
  Let t0 : A.tline state := {| A.tl := [st0]; A.c := 0 |}.

  Theorem session_refused_call_changes_nothing pre o post : ops = pre ++ o :: post ->
    o <> OUndo -> o <> ORedo -> fst (snd (step (run st0 pre) o)) <> 0 ->
    obs_eq (run st0 pre) (fst (step (run st0 pre) o)) /\ WF (fst (step (run st0 pre) o)).
  Proof.
    intros E Ho1 Ho2 Hc.
    pose proof (session_all_prefix st0 ops W0 Hreg Hrp Hdecl Hu Hr Hpre pre (o :: post) E) as I.
    assert (D : rp_decl (run st0 pre)).
    { apply (run_session_all pre st0 t0); [now apply SInv_init|exact Hdecl|].
      intros p x q Eq. apply (Hpre p x (q ++ o :: post)). rewrite E, Eq, <- app_assoc. reflexivity. }
    apply (stays_obs _ (tl_run_full st0 t0 pre)); [exact I|exact D|exact (Hpre pre o post E)|now apply stays_refused].
  Qed.
End SessionRefused.

Print Assumptions session_refused_call_changes_nothing.

(* non-vacuity: the refused, rolled-back stroke inside the session of EditSessionsAll.ex_all_session *)
Example refused_nonvacuous :
  let s1 := run EditWFEdge.exs [OPaint 4 2 [3] 0 false] in
  let o := OPaint 7 2 [1; 2] 1 false in
  fst (snd (step s1 o)) = 11 /\ obs_eq s1 (fst (step s1 o)) /\ WF (fst (step s1 o)).
Proof.
  cbv zeta. split; [vm_compute; reflexivity|].
  assert (Hp : pre_along_all EditWFEdge.exs ex_all_session) by (apply pre_alongb2_all; vm_compute; reflexivity).
  apply (session_refused_call_changes_nothing EditWFEdge.exs ex_all_session EditWFEdge.exs_WF exs_reg_ok exs_rp_disjoint exs_rp_decl
           eq_refl eq_refl Hp [OPaint 4 2 [3] 0 false] (OPaint 7 2 [1; 2] 1 false)
           [ODelEdge 1 3; OUndo; OUndo; OPaint 7 2 [1; 2] 1 false; ORedo; ORedo] eq_refl); try discriminate.
Qed.
