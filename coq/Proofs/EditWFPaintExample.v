(* Non-vacuity of Proofs/EditWFPaint.v on the state EditWFEdge.exs
   (3 frames of 2x2 pixels  1 1 / 0 0   2 2 / 3 0   0 4 / 4 0 ; 1 divides into 2 and 3, 2 continues to 4):
   a run of strokes and calls that contains a refused stroke (forceable, over background), a stroke that
   creates a node (nested UserAddNode), a growing stroke, an erasing stroke that removes a whole node
   (nested UserDeleteNode, which bridges 1 -> 4), a shrinking stroke, a stroke refused because the label
   lives in another frame, and a forced stroke that at once deletes one node, shrinks another and creates
   a third.  Every hypothesis of run_paint_WF is discharged by computation. *)
From Coq Require Import ZArith List Bool Lia.
From FT Require Import Base.Dict Model.Edit Model.EditExec Proofs.EditInv Proofs.EditWFEdge Proofs.EditWFNode
  Proofs.EditWFNodeExample Proofs.EditWFPaint.
From FT Require Proofs.EditUAN.
Import ListNotations.
Open Scope Z_scope.

Definition exp_ops : list op :=
  [ OPaint 7 1 [3] 1 false;        (* refused (forceable): track 1 divided upstream; background only, nothing to roll back *)
    OPaint 5 2 [0] 9 false;        (* new label on background: nested UserAddNode *)
    OPaint 4 2 [3] 0 false;        (* grow node 4 *)
    ODelEdge 1 3;                  (* 1 -> 2 -> 4 is now one track *)
    OPaint 0 1 [0; 1] 0 false;     (* erase all of node 2: nested UserDeleteNode, bridge 1 -> 4 *)
    OPaint 0 2 [1] 0 false;        (* erase one pixel of node 4: shrink *)
    OPaint 1 1 [3] 0 false;        (* refused: label 1 lives in frame 0 *)
    OPaint 8 2 [2; 0] 12 true;     (* forced: deletes 5, shrinks 4, creates 8 *)
    ODelNode 3 ].

Example exp_run_WF : WF (run exs exp_ops).
Proof.
  apply run_paint_WF_check.
  - reflexivity.
  - apply exs_WF.
  - apply exs_rp_disjoint.
  - vm_compute. reflexivity.
Qed.

Example exp_run_pre : forall pre o post, exp_ops = pre ++ o :: post -> op_pre_paint (run exs pre) o.
Proof. apply pre_along_paintb_spec. vm_compute. reflexivity. Qed.

Example exp_run_both : WF (run exs exp_ops) /\ rp_disjoint (run exs exp_ops).
Proof. apply run_paint_WF; [reflexivity|apply exs_WF|apply exs_rp_disjoint|apply exp_run_pre]. Qed.

(* outcome of each call (0 accepted, 10 InvalidActionError, 11 forceable), and what the strokes did *)
Example exp_run_effect :
  let at_ k := run exs (firstn k exp_ops) in
  map (fun k => fst (snd (step (at_ k) (nth k exp_ops ONextIds)))) (seq 0 9) = [11; 0; 0; 0; 0; 0; 10; 0; 0] /\
  (* the refused strokes leave everything in place *)
  (g (at_ 1%nat), seg (at_ 1%nat), bk (at_ 1%nat)) = (g exs, seg exs, bk exs) /\
  (g (at_ 7%nat), seg (at_ 7%nat), bk (at_ 7%nat)) = (g (at_ 6%nat), seg (at_ 6%nat), bk (at_ 6%nat)) /\
  (* created *)
  (keys (nodes (g (at_ 2%nat))), seg (at_ 2%nat)) = ([1; 2; 3; 4; 5], Some [[1; 1; 0; 0]; [2; 2; 3; 0]; [5; 4; 4; 0]]) /\
  (* grown: features and IoU recomputed *)
  (attr (at_ 3%nat) 4 KArea, lookup KIou (edge_attrs (at_ 3%nat) 2 4)) = (Some (VRp [1; 2; 3]), Some (VIou 1 4)) /\
  (* erased with its node; the bridge carries the IoU of its endpoints *)
  (keys (nodes (g (at_ 5%nat))), all_edges (at_ 5%nat), seg (at_ 5%nat), lookup KIou (edge_attrs (at_ 5%nat) 1 4)) =
    ([1; 3; 4; 5], [(1, 4)], Some [[1; 1; 0; 0]; [0; 0; 3; 0]; [5; 4; 4; 4]], Some (VIou 1 4)) /\
  (* shrunk *)
  (attr (at_ 6%nat) 4 KArea, lookup KIou (edge_attrs (at_ 6%nat) 1 4), seg (at_ 6%nat)) =
    (Some (VRp [2; 3]), Some (VIou 0 1), Some [[1; 1; 0; 0]; [0; 0; 3; 0]; [5; 0; 4; 4]]) /\
  (* the forced stroke *)
  (keys (nodes (g (at_ 8%nat))), seg (at_ 8%nat), attr (at_ 8%nat) 4 KArea, attr (at_ 8%nat) 8 KArea) =
    ([1; 3; 4; 8], Some [[1; 1; 0; 0]; [0; 0; 3; 0]; [8; 0; 8; 4]], Some (VRp [3]), Some (VRp [0; 2])) /\
  (* the end *)
  (keys (nodes (g (at_ 9%nat))), all_edges (at_ 9%nat), trk_book (bk (at_ 9%nat)), lin_book (bk (at_ 9%nat))) =
    ([1; 4; 8], [(1, 4)], [(1, [1; 4]); (12, [8])], [(1, [1; 4]); (4, [8])]).
Proof. vm_compute. repeat split. Qed.

(* ---- the refusal the general theorem does not cover: a rolled-back one ---- *)
(* new label 7 in track 1 over the two pixels of node 4: node 4 is deleted, then UserAddNode is refused
   (node 1 divides), then the deletion is rolled back.  paint_no_rollback fails; on this state the
   rollback restores graph, array and lookups exactly, so the result is well formed all the same. *)
Definition exp_rb : op := OPaint 7 2 [1; 2] 1 false.

Example exp_rolled_back :
  let r := step exs exp_rb in
  paint_preb exs 7 2 [1; 2] 1 false = false /\ snd r = (11, []) /\
  g (fst r) = g exs /\ seg (fst r) = seg exs /\ ft (fst r) = ft exs /\ bk (fst r) = bk exs /\ WF (fst r).
Proof.
  cbv zeta.
  assert (E : g (fst (step exs exp_rb)) = g exs /\ seg (fst (step exs exp_rb)) = seg exs /\
              ft (fst (step exs exp_rb)) = ft exs /\ bk (fst (step exs exp_rb)) = bk exs) by (vm_compute; auto).
  destruct E as (E1 & E2 & E3 & E4).
  split; [vm_compute; reflexivity|]. split; [vm_compute; reflexivity|]. repeat (split; [assumption|]).
  apply (WF_same exs); auto. apply exs_WF.
Qed.
