(* Lemmas about Base/Dict.v (insertion-ordered association lists). *)
From Coq Require Import ZArith List Bool Lia.
From FT Require Import Base.Dict.
Import ListNotations.
Open Scope Z_scope.

Section D.
Context {V : Type}.
Implicit Types (d : dict V) (k : Z).

Lemma lookup_set_eq k (v : V) d : lookup k (set k v d) = Some v.
Proof. induction d as [|[k' v'] r IH]; cbn; [now rewrite Z.eqb_refl|]. destruct (Z.eqb_spec k k'); cbn; [now rewrite Z.eqb_refl|]. destruct (Z.eqb_spec k k'); [contradiction|exact IH]. Qed.

Lemma lookup_set_neq k k' (v : V) d : k <> k' -> lookup k (set k' v d) = lookup k d.
Proof.
  intros H. induction d as [|[k2 v2] r IH]; cbn.
  - destruct (Z.eqb_spec k k'); [contradiction|reflexivity].
  - destruct (Z.eqb_spec k' k2) as [->|Hn]; cbn.
    + destruct (Z.eqb_spec k k2); [contradiction|reflexivity].
    + destruct (Z.eqb_spec k k2); [reflexivity|exact IH].
Qed.

Lemma lookup_del_eq k d : lookup k (del k d) = None.
Proof. induction d as [|[k' v'] r IH]; cbn; [reflexivity|]. destruct (Z.eqb_spec k k'); [exact IH|]. cbn. destruct (Z.eqb_spec k k'); [contradiction|exact IH]. Qed.

Lemma lookup_del_neq k k' d : k <> k' -> lookup k (del k' d) = lookup k d.
Proof.
  intros H. induction d as [|[k2 v2] r IH]; cbn; [reflexivity|].
  destruct (Z.eqb_spec k' k2) as [->|Hn]; cbn.
  - destruct (Z.eqb_spec k k2); [contradiction|exact IH].
  - destruct (Z.eqb_spec k k2); [reflexivity|exact IH].
Qed.

Lemma lookup_None_keys k d : lookup k d = None <-> ~ In k (keys d).
Proof.
  induction d as [|[k' v'] r IH]; cbn; [tauto|].
  destruct (Z.eqb_spec k k') as [->|Hn]; [split; [discriminate|intros H; exfalso; apply H; now left]|].
  rewrite IH. split; [intros H [E|H']; [congruence|contradiction]|intros H H'; apply H; now right].
Qed.

Lemma lookup_Some_keys k d (v : V) : lookup k d = Some v -> In k (keys d).
Proof.
  intros H. destruct (in_dec Z.eq_dec k (keys d)) as [Hi|Hn]; [exact Hi|].
  apply lookup_None_keys in Hn. congruence.
Qed.

Lemma haskey_keys k d : haskey k d = true <-> In k (keys d).
Proof.
  unfold haskey. destruct (lookup k d) eqn:E.
  - split; [intros _; eapply lookup_Some_keys; eauto|reflexivity].
  - split; [discriminate|]. intros H. apply lookup_None_keys in E. contradiction.
Qed.

Lemma keys_cons k (v : V) d : keys ((k, v) :: d) = k :: keys d.
Proof. reflexivity. Qed.

Lemma keys_set_in k (v : V) d : In k (keys d) -> keys (set k v d) = keys d.
Proof.
  induction d as [|[k' v'] r IH]; [cbn; tauto|]. cbn [set]. rewrite keys_cons.
  destruct (Z.eqb_spec k k') as [->|Hn]; rewrite !keys_cons; [reflexivity|].
  intros [E|H]; [congruence|]. now rewrite IH.
Qed.

Lemma keys_set_notin k (v : V) d : ~ In k (keys d) -> keys (set k v d) = keys d ++ [k].
Proof.
  induction d as [|[k' v'] r IH]; [reflexivity|]. cbn [set]. rewrite keys_cons.
  destruct (Z.eqb_spec k k') as [->|Hn]; rewrite !keys_cons; [intros H; exfalso; apply H; now left|].
  intros H. rewrite IH; [reflexivity|]. intros H'. apply H. now right.
Qed.

Lemma in_keys_set k k' (v : V) d : In k (keys (set k' v d)) <-> k = k' \/ In k (keys d).
Proof.
  destruct (in_dec Z.eq_dec k' (keys d)) as [Hi|Hn].
  - rewrite keys_set_in by exact Hi. split; [tauto|intros [->|H]; assumption].
  - rewrite keys_set_notin by exact Hn. rewrite in_app_iff. cbn. split; [intros [H|[H|[]]]; auto|intros [->|H]; auto].
Qed.

Lemma keys_del k d : keys (del k d) = filter (fun x => negb (Z.eqb k x)) (keys d).
Proof.
  induction d as [|[k' v'] r IH]; [reflexivity|]. cbn [del]. rewrite keys_cons. cbn [filter].
  destruct (Z.eqb_spec k k'); cbn [negb]; [exact IH|]. rewrite keys_cons. now rewrite IH.
Qed.

Lemma in_keys_del k k' d : In k (keys (del k' d)) <-> k <> k' /\ In k (keys d).
Proof.
  rewrite keys_del, filter_In. split.
  - intros [H1 H2]. split; [|exact H1]. intros ->. now rewrite Z.eqb_refl in H2.
  - intros [H1 H2]. split; [exact H2|]. destruct (Z.eqb_spec k' k); [congruence|reflexivity].
Qed.

Lemma NoDup_snoc (l : list Z) x : NoDup l -> ~ In x l -> NoDup (l ++ [x]).
Proof.
  induction l as [|y r IH]; cbn; intros Hnd Hn; [constructor; [tauto|constructor]|].
  inversion Hnd as [|? ? Hy Hr]; subst. constructor.
  - rewrite in_app_iff. cbn. intros [H|[H|[]]]; [contradiction|subst; apply Hn; now left].
  - apply IH; [exact Hr|]. intros H. apply Hn. now right.
Qed.

Lemma NoDup_keys_set k (v : V) d : NoDup (keys d) -> NoDup (keys (set k v d)).
Proof.
  intros H. destruct (in_dec Z.eq_dec k (keys d)) as [Hi|Hn].
  - now rewrite keys_set_in.
  - rewrite keys_set_notin by exact Hn. apply NoDup_snoc; assumption.
Qed.

Lemma NoDup_filter {A} (f : A -> bool) (l : list A) : NoDup l -> NoDup (filter f l).
Proof.
  induction l as [|x r IH]; cbn; intros H; [constructor|]. inversion H; subst.
  destruct (f x); [constructor; [rewrite filter_In; tauto|auto]|auto].
Qed.

Lemma NoDup_keys_del k d : NoDup (keys d) -> NoDup (keys (del k d)).
Proof. intros H. rewrite keys_del. now apply NoDup_filter. Qed.

Lemma lookup_In k d (v : V) : lookup k d = Some v -> In (k, v) d.
Proof.
  induction d as [|[k' v'] r IH]; cbn; [discriminate|].
  destruct (Z.eqb_spec k k') as [->|Hn]; [intros E; injection E as ->; now left|intros H; right; auto].
Qed.

Lemma In_lookup k d (v : V) : NoDup (keys d) -> In (k, v) d -> lookup k d = Some v.
Proof.
  induction d as [|[k' v'] r IH]; [cbn; tauto|]. rewrite keys_cons. cbn [lookup In]. intros Hnd [E|H].
  - injection E as -> ->. now rewrite Z.eqb_refl.
  - inversion Hnd as [|? ? Hk Hr]; subst. destruct (Z.eqb_spec k k') as [->|Hn]; [|auto].
    exfalso. apply Hk. change k' with (fst (k', v)). unfold keys. now apply in_map.
Qed.

Lemma getd_set_eq k (v dflt : V) d : getd k (set k v d) dflt = v.
Proof. unfold getd. now rewrite lookup_set_eq. Qed.
Lemma getd_set_neq k k' (v dflt : V) d : k <> k' -> getd k (set k' v d) dflt = getd k d dflt.
Proof. intros H. unfold getd. now rewrite lookup_set_neq. Qed.
End D.

Lemma memz_In x l : memz x l = true <-> In x l.
Proof.
  unfold memz. rewrite existsb_exists. split.
  - intros (y & Hy & E). apply Z.eqb_eq in E. now subst.
  - intros H. exists x. split; [exact H|apply Z.eqb_refl].
Qed.

Lemma memz_false x l : memz x l = false <-> ~ In x l.
Proof. rewrite <- memz_In. destruct (memz x l); split; intros; congruence. Qed.

Lemma remove1_notin x l : ~ In x l -> remove1 x l = l.
Proof.
  induction l as [|y r IH]; cbn; [reflexivity|]. intros H.
  destruct (Z.eqb_spec x y) as [->|Hn]; [exfalso; apply H; now left|]. rewrite IH; [reflexivity|tauto].
Qed.

Lemma in_remove1 x y l : In y (remove1 x l) -> In y l.
Proof.
  induction l as [|z r IH]; cbn; [tauto|]. destruct (Z.eqb_spec x z); [tauto|]. cbn. intros [H|H]; auto.
Qed.

Lemma in_remove1_nodup x y l : NoDup l -> (In y (remove1 x l) <-> In y l /\ y <> x).
Proof.
  induction l as [|z r IH]; cbn; intros Hnd; [tauto|]. inversion Hnd as [|? ? Hz Hr]; subst.
  destruct (Z.eqb_spec x z) as [->|Hn].
  - split; [intros H; split; [now right|intros ->; contradiction]|intros [[E|H] Hne]; [congruence|exact H]].
  - cbn. rewrite (IH Hr). split.
    + intros [->|[H Hne]]; [split; [now left|congruence]|split; [now right|exact Hne]].
    + intros [[->|H] Hne]; [now left|right; tauto].
Qed.

Lemma NoDup_remove1 x l : NoDup l -> NoDup (remove1 x l).
Proof.
  induction l as [|z r IH]; cbn; intros Hnd; [constructor|]. inversion Hnd as [|? ? Hz Hr]; subst.
  destruct (Z.eqb_spec x z); [exact Hr|]. constructor; [|auto]. intros H. apply in_remove1 in H. contradiction.
Qed.
