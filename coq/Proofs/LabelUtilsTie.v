(* The definitions translated from the current utils/_segmentation_utils.py
   (Gen/LabelUtils_gen.v, rewritten by harness/translate_numpy_utils.py) ARE the hand-written
   model functions of Model/LabelUtils.v, for ALL inputs (no hypothesis on shapes, labels or
   times).  If the source changes its behaviour, the regenerated definition changes and one of
   the three theorems at the end stops compiling; every C19 theorem is about the right-hand sides.

   The proofs go through "generic" lemmas about an arbitrary loop body F satisfying an equation,
   so that they do not depend on the names or the layout of the generated text. *)
From Coq Require Import ZArith List Bool Lia Arith.
From FT Require Import Model.NpRt Model.LabelUtils Proofs.NpRtLemmas.
From FT Require Gen.LabelUtils_gen.
Import ListNotations.
Open Scope Z_scope.

Module G := FT.Gen.LabelUtils_gen.

(* The generic lemmas (NpRt combinators against the hand model, the loop lemmas eul_generic,
   paint_inner_generic, paint_outer_generic) are in Proofs/NpRtLemmas.v. *)

Theorem gen_ensure_unique_labels_eq : forall fs : list (list Z),
  G.gen_ensure_unique_labels fs = ensure_unique_labels fs.
Proof.
  intros fs. unfold G.gen_ensure_unique_labels, np_astype_uint64. cbv zeta.
  match goal with |- (let '(s, _) := py_for ?l ?i ?F in s) = _ => change (fst (py_for l i F) = ensure_unique_labels fs) end.
  apply eul_generic. intros idx s m. cbv beta iota zeta.
  unfold py_max, py_int. rewrite mask_iadd_shift, max_unsigned_fmax.
  unfold np_setitem. rewrite ?set_nth_idem. reflexivity.   (* `segmentation[idx] = frame` after the write-through of the view is a second, idempotent write *)
Qed.

Theorem gen_ensure_unique_labels_multiseg_eq : forall hs : list (list (list Z)),
  G.gen_ensure_unique_labels_multiseg hs = ensure_unique_labels_multiseg hs.
Proof.
  intros hs. unfold ensure_unique_labels_multiseg. rewrite <- gen_ensure_unique_labels_eq.
  unfold G.gen_ensure_unique_labels_multiseg, G.gen_ensure_unique_labels. cbv zeta.
  unfold np_astype_uint64, np_reshape_merge01, np_shape01.
  match goal with |- context [py_for ?l ?i ?F] => destruct (py_for l i F) as [s m] end.
  apply split01_regroup.
Qed.

Section ByTrackTie.
Variables Graph Edges : Type.
Variable nx_out_degree : Graph -> list (Z * Z).
Variable nx_copy : Graph -> Graph.
Variable nx_out_edges : Graph -> Z -> Edges.
Variable nx_remove_edges_from : Graph -> Edges -> Graph.
Variable nx_weakly_connected_components : Graph -> list (list Z).
Variable nx_node_attr : Graph -> Z -> node_attr -> Z.

(* the (id, time, seg id) row the hand model uses for a node of the solution graph *)
Definition mk_node (g : Graph) (n : Z) : tnode :=
  {| n_id := n; n_time := Z.to_nat (nx_node_attr g n NodeAttr_TIME); n_seg := nx_node_attr g n NodeAttr_SEG_ID |}.

(* the graph handed to the component oracle: a copy of the solution with the out-edges of every
   node of out-degree > 1 removed *)
Definition cut_divisions (g : Graph) : Graph :=
  fold_left (fun c p => nx_remove_edges_from c (nx_out_edges g p))
            (map (fun '(n, _) => n) (filter (fun '(_, d) => d >? 1) (nx_out_degree g)))
            (nx_copy g).

(* the [comps] argument of the hand model *)
Definition comps_of (g : Graph) : list (list tnode) :=
  map (map (mk_node g)) (nx_weakly_connected_components (cut_divisions g)).

Theorem gen_relabel_segmentation_with_track_id_eq : forall (g : Graph) (seg : list (list Z)),
  G.gen_relabel_segmentation_with_track_id Graph Edges nx_out_degree nx_copy nx_out_edges
      nx_remove_edges_from nx_weakly_connected_components nx_node_attr g seg
  = relabel_with_track_id (comps_of g) seg.
Proof.
  intros g seg. unfold G.gen_relabel_segmentation_with_track_id, relabel_with_track_id, comps_of. cbv zeta.
  match goal with |- (let '(s, _) := py_for ?l ?i ?F in s) = ?R => change (fst (py_for l i F) = R) end.
  change (py_for (py_listcomp _ _ (nx_out_degree g)) (nx_copy g) _) with (cut_divisions g).
  rewrite zeros_like_tie.
  apply (paint_outer_generic _ seg (mk_node g)).
  intros ns acc c. cbv beta iota zeta. f_equal.
  apply paint_inner_generic. intros n acc'.
  unfold paint_node, mk_node. cbn [n_time n_seg]. apply paint_tie.
Qed.
End ByTrackTie.

Print Assumptions gen_ensure_unique_labels_eq.
Print Assumptions gen_ensure_unique_labels_multiseg_eq.
Print Assumptions gen_relabel_segmentation_with_track_id_eq.
