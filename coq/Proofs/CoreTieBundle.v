(* The ties of Proofs/CoreTie.v that the property files cite, bundled into one statement:
   the queries, the id counter, undo / redo, and the seven basic actions with their inverses of the
   hand-written model (Model/Edit.v) equal - Leibniz equality including the returned state - the code
   translated on every run from data_model/solution_tracks.py, data_model/tracks.py,
   annotators/_track_annotator.py and actions/*.py (Gen/Core_gen.v, translator harness/translate_core.py).
   Hypotheses: W_dict / W_forest where the relabel walk is involved (fuel sufficiency); NoDup of the
   registered-key lists and of a dict argument's keys (a Python dict has distinct keys). *)
From Coq Require Import ZArith List Bool.
From FT Require Import Base.Dict Model.Edit Model.EditExec Proofs.EditInv Proofs.CoreTie.
From FT Require Gen.Core_gen.
Import ListNotations.
Open Scope Z_scope.

Definition core_tie_statement : Prop :=
  (* queries of SolutionTracks (get_track_neighbors sorts the lookup entry in place, like the model) *)
  (forall st T t, Core_gen.gen_get_track_neighbors st T t = (let '(s', r) := track_neighbors st T t in Ok r s')) /\
  (forall st T t, Core_gen.gen_has_track_id_at_time st T t = Ok (has_track_at st T t) st) /\
  (forall st, Core_gen.gen_get_next_track_id st = Ok (next_trk st) st) /\
  (forall st, Core_gen.gen_get_next_lineage_id st = Ok (next_lin st) st) /\
  (* Tracks._get_new_node_ids (fuel large enough), Tracks.undo / redo *)
  (forall st n fuel, (S (length (nodes (g st))) <= fuel)%nat ->
     Core_gen.gen_get_new_node_ids fuel st (Z.of_nat n) = (let '(s', ids) := get_new_node_ids st n in Ok ids s')) /\
  (forall st, Core_gen.gen_undo st = undo st) /\
  (forall st, Core_gen.gen_redo st = redo st) /\
  (* the seven basic actions: __init__ (with _apply and the annotator notifications inlined) *)
  (forall fuel st start newT newL, W_dict st -> W_forest st -> (S (length (nodes (g st))) <= fuel)%nat ->
     Core_gen.gen_UpdateTrackIDs_init fuel st start newT newL = do_upd_track st start newT newL) /\
  (forall fuel st n px added, Core_gen.gen_UpdateNodeSeg_init fuel st n px added = do_upd_seg st n px added) /\
  (forall fuel st u v oa, Core_gen.gen_AddEdge_init fuel st (u, v) oa =
     do_add_edge st u v (match oa with Some a => a | None => [] end)) /\
  (forall fuel st u v, NoDup (reg_edge (ft st)) -> Core_gen.gen_DeleteEdge_init fuel st (u, v) = do_del_edge st u v) /\
  (forall fuel st n a px, Core_gen.gen_AddNode_init fuel st n a px = do_add_node st n a px) /\
  (forall fuel st n pxo, NoDup (reg_node (ft st)) -> (has_node st n = true \/ reg_node (ft st) <> []) ->
     Core_gen.gen_DeleteNode_init fuel st n pxo = do_del_node st n pxo) /\
  (forall fuel st n new, NoDup (keys new) -> Core_gen.gen_UpdateNodeAttrs_init fuel st n new = do_upd_attrs st n new) /\
  (* ... and every inverse() *)
  (forall fuel st b, inverse_dom st b -> fuel_ok st fuel -> gen_inverse fuel st b = inv_basic st b).

Theorem core_tie : core_tie_statement.
Proof.
  unfold core_tie_statement.
  split; [exact gen_get_track_neighbors_eq|].
  split; [exact gen_has_track_id_at_time_eq|].
  split; [exact gen_get_next_track_id_eq|].
  split; [exact gen_get_next_lineage_id_eq|].
  split; [exact gen_get_new_node_ids_eq|].
  split; [exact gen_undo_eq|].
  split; [exact gen_redo_eq|].
  split; [exact gen_UpdateTrackIDs_init_WF|].
  split; [exact gen_UpdateNodeSeg_init_eq|].
  split; [exact gen_AddEdge_init_eq|].
  split; [exact gen_DeleteEdge_init_eq|].
  split; [exact gen_AddNode_init_eq|].
  split; [exact gen_DeleteNode_init_eq|].
  split; [exact gen_UpdateNodeAttrs_init_eq|].
  exact gen_inverse_eq.
Qed.
Print Assumptions core_tie.
