(* C10: feature switching (Model/Toggle.v: enable_features / disable_features and the bulk
   compute paths of the three annotators) over the edit machine of Model/Edit.v.
   Part 1  unknown keys are refused before anything is touched
   Part 2  every manageable key and the time key are refused by UpdateNodeAttrs
   Part 3  the registry invariant W_reg
   Part 4  disabled features are frozen
   Part 5  enabling with recomputation stores the reference values *)
From Coq Require Import ZArith List Bool Lia.
From FT Require Import Base.Dict Model.Edit Model.EditExec Model.Toggle Model.ToggleExec
  Proofs.DictLemmas Proofs.EditInv Proofs.EditSeg Proofs.EditFresh Proofs.EditFrame.
Import ListNotations.
Open Scope Z_scope.

(* ================================================================== *)
(* Part 1 : validation                                                 *)
(* ================================================================== *)
Lemma all_avail_spec st ks :
  forallb (fun k => memz k (available st)) ks = true <-> (forall k, In k ks -> In k (available st)).
Proof.
  rewrite forallb_forall. split; intros H k Hk; [apply memz_In|apply memz_In]; auto.
Qed.

Lemma all_avail_false st ks k : In k ks -> ~ In k (available st) ->
  forallb (fun k => memz k (available st)) ks = false.
Proof.
  intros Hk Hn. destruct (forallb _ ks) eqn:E; [|reflexivity].
  exfalso. apply Hn. now apply (proj1 (all_avail_spec st ks) E).
Qed.

Theorem unknown_key_refused st ks rc ctrk clin k :
  In k ks -> ~ In k (available st) ->
  enable_features st ks rc ctrk clin = Err EKey st /\ disable_features st ks = Err EKey st.
Proof.
  intros Hk Hn. unfold enable_features, disable_features.
  rewrite (all_avail_false st ks k Hk Hn). cbn. split; reflexivity.
Qed.

Theorem known_keys_accepted st ks rc ctrk clin :
  (forall k, In k ks -> In k (available st)) ->
  (exists st', enable_features st ks rc ctrk clin = Ok tt st') /\
  (exists st', disable_features st ks = Ok tt st').
Proof.
  intros H. apply all_avail_spec in H. unfold enable_features, disable_features. rewrite H. cbn [negb].
  split; [destruct rc|]; eexists; reflexivity.
Qed.

(* the converse reading: a call that returns normally was given available keys only *)
Lemma enable_ok_avail st ks rc ctrk clin st' :
  enable_features st ks rc ctrk clin = Ok tt st' -> forall k, In k ks -> In k (available st).
Proof.
  unfold enable_features. destruct (forallb _ ks) eqn:E; cbn [negb]; [|discriminate].
  intros _. now apply all_avail_spec.
Qed.
Lemma disable_ok_avail st ks st' :
  disable_features st ks = Ok tt st' -> forall k, In k ks -> In k (available st).
Proof.
  unfold disable_features. destruct (forallb _ ks) eqn:E; cbn [negb]; [|discriminate].
  intros _. now apply all_avail_spec.
Qed.

(* ================================================================== *)
(* Part 2 : protected keys                                             *)
(* ================================================================== *)
Lemma protected_available st k : In k (protected_keys st) <-> In k (available st) \/ k = KTime.
Proof.
  unfold protected_keys, available. rewrite !in_app_iff. cbn [In]. intuition.
Qed.

Theorem protected_refused st n new k :
  In k (keys new) -> In k (available st) \/ k = KTime ->
  do_upd_attrs st n new = Err EValue st /\ user_update_attrs st n new = Err EValue st.
Proof.
  intros Hk Hp. apply protected_available in Hp.
  assert (E : existsb (fun kv => memz (fst kv) (protected_keys st)) new = true).
  { unfold keys in Hk. apply in_map_iff in Hk. destruct Hk as (kv & <- & Hin).
    apply existsb_exists. exists kv. split; [exact Hin|now apply memz_In]. }
  assert (E1 : do_upd_attrs st n new = Err EValue st) by (unfold do_upd_attrs; now rewrite E).
  split; [exact E1|]. unfold user_update_attrs, user_update_attrs_core. now rewrite E1.
Qed.

(* ================================================================== *)
(* Part 3 : the registry                                               *)
(* ================================================================== *)
Definition active (st : state) (k : Z) : Prop :=
  In k (rp_act (ft st)) \/ (k = KIou /\ iou_act (ft st) = true) \/
  (k = KTrack /\ trk_act (ft st) = true) \/ (k = KLin /\ lin_act (ft st) = true).
Definition in_reg (st : state) (k : Z) : Prop :=
  if is_edge_key k then In k (reg_edge (ft st)) else In k (reg_node (ft st)).
Definition W_reg (st : state) : Prop :=
  forall k, In k (available st) -> (in_reg st k <-> active st k).
Record cfg_keys (st : state) : Prop := {
  ck_nodup : NoDup (rp_all (ft st));
  ck_rp : forall k, In k (rp_all (ft st)) -> In k [KPos; KArea; KEll; KCirc; KPerim];
  ck_act : forall k, In k (rp_act (ft st)) -> In k (rp_all (ft st));
  ck_iou : iou_act (ft st) = true -> iou_avail (ft st) = true
}.

Lemma rp_key_cases k : In k [KPos; KArea; KEll; KCirc; KPerim] ->
  k <> KIou /\ k <> KTrack /\ k <> KLin /\ k <> KTime.
Proof.
  unfold KPos, KArea, KEll, KCirc, KPerim, KIou, KTrack, KLin, KTime. cbn.
  intros [<-|[<-|[<-|[<-|[<-|[]]]]]]; repeat split; discriminate.
Qed.

Lemma cfg_rp_not_special st k : cfg_keys st -> In k (rp_all (ft st)) ->
  k <> KIou /\ k <> KTrack /\ k <> KLin /\ k <> KTime.
Proof. intros C H. apply rp_key_cases. now apply (ck_rp st C). Qed.

(* the four disjoint classes of available keys *)
Lemma available_cases st k : cfg_keys st -> In k (available st) ->
  (In k (rp_all (ft st)) /\ k <> KIou /\ k <> KTrack /\ k <> KLin) \/
  (k = KIou /\ iou_avail (ft st) = true /\ ~ In k (rp_all (ft st))) \/
  (k = KTrack /\ ~ In k (rp_all (ft st))) \/ (k = KLin /\ ~ In k (rp_all (ft st))).
Proof.
  intros C H. unfold available in H. rewrite !in_app_iff in H. destruct H as [H|[H|H]].
  - left. destruct (cfg_rp_not_special st k C H) as (A & B & D & _). auto.
  - right. left. destruct (iou_avail (ft st)); [|destruct H]. destruct H as [<-|[]].
    split; [reflexivity|]. split; [reflexivity|]. intros H. now destruct (cfg_rp_not_special st _ C H) as (A & _).
  - destruct H as [<-|[<-|[]]]; right; right; [left|right]; (split; [reflexivity|]); intros H;
      destruct (cfg_rp_not_special st _ C H) as (A & B & D & _); congruence.
Qed.

(* ---- set_flags ---- *)
Lemma set_flags_rp_act f ks on k :
  In k (rp_act (set_flags f ks on)) <->
  In k (rp_all f) /\ (if memz k ks then on = true else In k (rp_act f)).
Proof.
  cbn [set_flags rp_act]. rewrite filter_In. split; intros [H1 H2]; (split; [exact H1|]).
  - apply memz_In in H1. rewrite H1, andb_true_r in H2. destruct (memz k ks); [exact H2|now apply memz_In].
  - apply memz_In in H1. rewrite H1, andb_true_r. destruct (memz k ks); [exact H2|now apply memz_In].
Qed.

(* ---- register / unregister ---- *)
Lemma reg_add_In l k x : In x (reg_add l k) <-> In x l \/ x = k.
Proof.
  unfold reg_add. destruct (memz k l) eqn:E.
  - apply memz_In in E. split; [auto|intros [H| ->]; assumption].
  - rewrite in_app_iff. cbn. intuition.
Qed.

Lemma register_node_In f ks x :
  In x (reg_node (register f ks)) <-> In x (reg_node f) \/ (In x ks /\ is_edge_key x = false).
Proof.
  cbn [register reg_node]. generalize (reg_node f) as l. induction ks as [|k r IH]; intros l; cbn [fold_left In].
  - intuition.
  - rewrite IH. destruct (is_edge_key k) eqn:E.
    + split; [intros [H|[H1 H2]]; auto|intros [H|[[->|H1] H2]]; [auto|congruence|auto]].
    + rewrite reg_add_In. split.
      * intros [[H| ->]|[H1 H2]]; auto.
      * intros [H|[[->|H1] H2]]; auto.
Qed.

Lemma register_edge_In f ks x :
  In x (reg_edge (register f ks)) <-> In x (reg_edge f) \/ (In x ks /\ is_edge_key x = true).
Proof.
  cbn [register reg_edge]. generalize (reg_edge f) as l. induction ks as [|k r IH]; intros l; cbn [fold_left In].
  - intuition.
  - rewrite IH. destruct (is_edge_key k) eqn:E.
    + rewrite reg_add_In. split.
      * intros [[H| ->]|[H1 H2]]; auto.
      * intros [H|[[->|H1] H2]]; auto.
    + split; [intros [H|[H1 H2]]; auto|intros [H|[[->|H1] H2]]; [auto|congruence|auto]].
Qed.

Lemma unregister_node_In f ks x :
  In x (reg_node (unregister f ks)) <-> In x (reg_node f) /\ ~ In x ks.
Proof.
  cbn [unregister reg_node]. rewrite filter_In. rewrite negb_true_iff, memz_false. tauto.
Qed.
Lemma unregister_edge_In f ks x :
  In x (reg_edge (unregister f ks)) <-> In x (reg_edge f) /\ ~ In x ks.
Proof.
  cbn [unregister reg_edge]. rewrite filter_In. rewrite negb_true_iff, memz_false. tauto.
Qed.

(* ---- the bulk computations leave the flags and the registry alone ---- *)
Lemma fold_ft {X} (f : state -> X -> state) (l : list X) :
  (forall s x, ft (f s x) = ft s) -> forall s, ft (fold_left f l s) = ft s.
Proof. intros Hf. induction l as [|x r IH]; intros s; cbn [fold_left]; [reflexivity|]. now rewrite IH, Hf. Qed.
Lemma fold_seg {X} (f : state -> X -> state) (l : list X) :
  (forall s x, seg (f s x) = seg s) -> forall s, seg (fold_left f l s) = seg s.
Proof. intros Hf. induction l as [|x r IH]; intros s; cbn [fold_left]; [reflexivity|]. now rewrite IH, Hf. Qed.

Lemma fold_succs {X} (f : state -> X -> state) (l : list X) :
  (forall s x, succs (g (f s x)) = succs (g s)) -> forall s, succs (g (fold_left f l s)) = succs (g s).
Proof. intros Hf. induction l as [|x r IH]; intros s; cbn [fold_left]; [reflexivity|]. now rewrite IH, Hf. Qed.

Lemma rp_compute_frame_ft ks sg st t : ft (rp_compute_frame ks sg st t) = ft st.
Proof.
  unfold rp_compute_frame. apply fold_ft. intros s l. destruct (has_node s l); [|reflexivity].
  apply fold_ft. intros s' k. apply sna_ft.
Qed.
Lemma rp_compute_ft st ks : ft (rp_compute st ks) = ft st.
Proof.
  unfold rp_compute. destruct (seg st) as [sg|]; [|reflexivity].
  destruct (filter _ _) as [|k0 r]; [reflexivity|]. apply fold_ft. intros s t. apply rp_compute_frame_ft.
Qed.
Lemma iou_compute_ft st ks : ft (iou_compute st ks) = ft st.
Proof.
  unfold iou_compute. destruct (seg st) as [sg|]; [|reflexivity].
  destruct (memz KIou ks && iou_act (ft st)); [|reflexivity]. apply fold_ft. intros s e. apply sea_ft.
Qed.
Lemma assign_ids_ft key : forall comps i st book,
  ft (fst (fst (assign_ids key comps i st book))) = ft st.
Proof.
  induction comps as [|c r IH]; intros i st book; cbn [assign_ids]; [reflexivity|].
  rewrite IH. apply fold_ft. intros s n. apply sna_ft.
Qed.
Lemma trk_compute_ft st ks ctrk clin : ft (trk_compute st ks ctrk clin) = ft st.
Proof.
  unfold trk_compute.
  set (s1 := if memz KTrack ks && trk_act (ft st) then _ else st).
  assert (H1 : ft s1 = ft st).
  { unfold s1. destruct (memz KTrack ks && trk_act (ft st)); [|reflexivity].
    pose proof (assign_ids_ft KTrack ctrk 1 st []) as H.
    destruct (assign_ids KTrack ctrk 1 st []) as [[s book] mx]. exact H. }
  destruct (memz KLin ks && lin_act (ft s1)); [|exact H1].
  pose proof (assign_ids_ft KLin clin 1 s1 []) as H.
  destruct (assign_ids KLin clin 1 s1 []) as [[s book] mx]. cbn [fst] in H. cbn [ft upd_bk]. congruence.
Qed.

Lemma enable_ft st ks rc ctrk clin st' : enable_features st ks rc ctrk clin = Ok tt st' ->
  ft st' = register (set_flags (ft st) ks true) ks.
Proof.
  unfold enable_features. destruct (negb _); [discriminate|]. destruct rc; intros H; injection H as <-.
  - now rewrite trk_compute_ft, iou_compute_ft, rp_compute_ft.
  - reflexivity.
Qed.
Lemma disable_ft st ks st' : disable_features st ks = Ok tt st' ->
  ft st' = unregister (set_flags (ft st) ks false) ks.
Proof. unfold disable_features. destruct (negb _); [discriminate|]. intros H; now injection H as <-. Qed.

(* what a switch does to the static part of the configuration: nothing *)
Lemma switch_static f ks on :
  rp_all (set_flags f ks on) = rp_all f /\ iou_avail (set_flags f ks on) = iou_avail f /\
  pos_keys (set_flags f ks on) = pos_keys f /\ reg_node (set_flags f ks on) = reg_node f /\
  reg_edge (set_flags f ks on) = reg_edge f.
Proof. repeat split. Qed.

Lemma cfg_keys_set_flags st st' ks on r :
  ft st' = r (set_flags (ft st) ks on) ->
  rp_all (r (set_flags (ft st) ks on)) = rp_all (ft st) ->
  rp_act (r (set_flags (ft st) ks on)) = rp_act (set_flags (ft st) ks on) ->
  iou_avail (r (set_flags (ft st) ks on)) = iou_avail (ft st) ->
  iou_act (r (set_flags (ft st) ks on)) = iou_act (set_flags (ft st) ks on) ->
  cfg_keys st -> cfg_keys st'.
Proof.
  intros E E1 E2 E3 E4 C. constructor; rewrite E.
  - rewrite E1. apply (ck_nodup st C).
  - rewrite E1. apply (ck_rp st C).
  - intros k. rewrite E1, E2, set_flags_rp_act. tauto.
  - rewrite E3, E4. cbn [set_flags iou_act].
    destruct (memz KIou ks && iou_avail (ft st)) eqn:B.
    + intros _. apply andb_true_iff in B. tauto.
    + apply (ck_iou st C).
Qed.

Theorem enable_registry st ks rc ctrk clin st' :
  cfg_keys st -> W_reg st -> enable_features st ks rc ctrk clin = Ok tt st' ->
  cfg_keys st' /\ W_reg st' /\
  (forall k, In k ks -> in_reg st' k /\ active st' k) /\
  (forall k, ~ In k ks -> (In k (reg_node (ft st')) <-> In k (reg_node (ft st))) /\
                          (In k (reg_edge (ft st')) <-> In k (reg_edge (ft st))) /\
                          (active st' k <-> active st k)).
Proof.
  intros C W H. pose proof (enable_ok_avail _ _ _ _ _ _ H) as Hav. apply enable_ft in H.
  assert (C' : cfg_keys st').
  { eapply (cfg_keys_set_flags st st' ks true (fun f => register f ks)); [exact H|reflexivity..|exact C]. }
  assert (Hin : forall k, In k ks -> in_reg st' k /\ active st' k).
  { intros k Hk. specialize (Hav k Hk). split.
    - unfold in_reg. rewrite H. destruct (is_edge_key k) eqn:E.
      + apply register_edge_In. right. auto.
      + apply register_node_In. right. auto.
    - unfold active. rewrite H. cbn [register rp_act iou_act trk_act lin_act].
      apply memz_In in Hk.
      destruct (available_cases st k C Hav) as [(A & _)|[(-> & A & _)|[(-> & _)|(-> & _)]]].
      + left. apply set_flags_rp_act. rewrite Hk. auto.
      + right. left. split; [reflexivity|]. cbn [set_flags iou_act]. now rewrite Hk, A.
      + right. right. left. split; [reflexivity|]. cbn [set_flags trk_act]. now rewrite Hk.
      + right. right. right. split; [reflexivity|]. cbn [set_flags lin_act]. now rewrite Hk. }
  assert (Hout : forall k, ~ In k ks -> (In k (reg_node (ft st')) <-> In k (reg_node (ft st))) /\
                          (In k (reg_edge (ft st')) <-> In k (reg_edge (ft st))) /\
                          (active st' k <-> active st k)).
  { intros k Hk. rewrite H. split; [|split].
    - rewrite register_node_In. cbn [set_flags reg_node]. tauto.
    - rewrite register_edge_In. cbn [set_flags reg_edge]. tauto.
    - unfold active. rewrite H. cbn [register rp_act iou_act trk_act lin_act].
      rewrite set_flags_rp_act. pose proof Hk as Hm. apply memz_false in Hm. rewrite Hm.
      cbn [set_flags iou_act trk_act lin_act].
      assert (R : In k (rp_all (ft st)) /\ In k (rp_act (ft st)) <-> In k (rp_act (ft st))).
      { split; [tauto|]. intros A. split; [now apply (ck_act st C)|exact A]. }
      rewrite R.
      assert (Q : forall key (b : bool), k = key -> (if memz key ks then true else b) = b).
      { intros key b <-. now rewrite Hm. }
      split; (intros [A|[[A B]|[[A B]|[A B]]]]; [left; exact A|right; left|right; right; left|right; right; right]; (split; [exact A|])).
      + destruct (memz KIou ks) eqn:M; [rewrite <- A, Hm in M; discriminate|exact B].
      + now rewrite (Q KTrack _ A) in B.
      + now rewrite (Q KLin _ A) in B.
      + destruct (memz KIou ks) eqn:M; [rewrite <- A, Hm in M; discriminate|exact B].
      + now rewrite (Q KTrack _ A).
      + now rewrite (Q KLin _ A). }
  split; [exact C'|]. split; [|split; [exact Hin|exact Hout]].
  intros k Hk.
  assert (Hk0 : In k (available st)).
  { unfold available in *. rewrite H in Hk. exact Hk. }
  destruct (in_dec Z.eq_dec k ks) as [Hi|Hn].
  - destruct (Hin k Hi). tauto.
  - destruct (Hout k Hn) as (A & B & D). rewrite D, <- (W k Hk0). unfold in_reg.
    destruct (is_edge_key k); tauto.
Qed.

Theorem disable_registry st ks st' :
  cfg_keys st -> W_reg st -> disable_features st ks = Ok tt st' ->
  cfg_keys st' /\ W_reg st' /\
  (forall k, In k ks -> ~ In k (reg_node (ft st')) /\ ~ In k (reg_edge (ft st')) /\ ~ active st' k) /\
  (forall k, ~ In k ks -> (In k (reg_node (ft st')) <-> In k (reg_node (ft st))) /\
                          (In k (reg_edge (ft st')) <-> In k (reg_edge (ft st))) /\
                          (active st' k <-> active st k)).
Proof.
  intros C W H. pose proof (disable_ok_avail _ _ _ H) as Hav. apply disable_ft in H.
  assert (C' : cfg_keys st').
  { eapply (cfg_keys_set_flags st st' ks false (fun f => unregister f ks)); [exact H|reflexivity..|exact C]. }
  assert (Hin : forall k, In k ks -> ~ In k (reg_node (ft st')) /\ ~ In k (reg_edge (ft st')) /\ ~ active st' k).
  { intros k Hk. specialize (Hav k Hk). rewrite H. split; [|split].
    - rewrite unregister_node_In. tauto.
    - rewrite unregister_edge_In. tauto.
    - unfold active. rewrite H. cbn [unregister rp_act iou_act trk_act lin_act].
      rewrite set_flags_rp_act. pose proof Hk as Hm. apply memz_In in Hm. rewrite Hm.
      cbn [set_flags iou_act trk_act lin_act].
      intros [[_ A]|[[A B]|[[A B]|[A B]]]]; [discriminate|..].
      + subst k. rewrite Hm in B.
        destruct (available_cases st KIou C Hav) as [(_ & A & _)|[(_ & A & _)|[(A & _)|(A & _)]]];
          try (now apply A); try discriminate A.
        rewrite A in B. discriminate.
      + subst k. rewrite Hm in B. discriminate.
      + subst k. rewrite Hm in B. discriminate. }
  assert (Hout : forall k, ~ In k ks -> (In k (reg_node (ft st')) <-> In k (reg_node (ft st))) /\
                          (In k (reg_edge (ft st')) <-> In k (reg_edge (ft st))) /\
                          (active st' k <-> active st k)).
  { intros k Hk. rewrite H. split; [|split].
    - rewrite unregister_node_In. cbn [set_flags reg_node]. tauto.
    - rewrite unregister_edge_In. cbn [set_flags reg_edge]. tauto.
    - unfold active. rewrite H. cbn [unregister rp_act iou_act trk_act lin_act].
      rewrite set_flags_rp_act. pose proof Hk as Hm. apply memz_false in Hm. rewrite Hm.
      cbn [set_flags iou_act trk_act lin_act].
      assert (R : In k (rp_all (ft st)) /\ In k (rp_act (ft st)) <-> In k (rp_act (ft st))).
      { split; [tauto|]. intros A. split; [now apply (ck_act st C)|exact A]. }
      rewrite R.
      assert (Q : forall key (b : bool), k = key -> (if memz key ks then false else b) = b).
      { intros key b <-. now rewrite Hm. }
      split; (intros [A|[[A B]|[[A B]|[A B]]]]; [left; exact A|right; left|right; right; left|right; right; right]; (split; [exact A|])).
      + destruct (memz KIou ks) eqn:M; [rewrite <- A, Hm in M; discriminate|exact B].
      + now rewrite (Q KTrack _ A) in B.
      + now rewrite (Q KLin _ A) in B.
      + destruct (memz KIou ks) eqn:M; [rewrite <- A, Hm in M; discriminate|exact B].
      + now rewrite (Q KTrack _ A).
      + now rewrite (Q KLin _ A). }
  split; [exact C'|]. split; [|split; [exact Hin|exact Hout]].
  intros k Hk.
  assert (Hk0 : In k (available st)).
  { unfold available in *. rewrite H in Hk. exact Hk. }
  destruct (in_dec Z.eq_dec k ks) as [Hi|Hn].
  - destruct (Hin k Hi) as (A & B & D). unfold in_reg. destruct (is_edge_key k); tauto.
  - destruct (Hout k Hn) as (A & B & D). rewrite D, <- (W k Hk0). unfold in_reg.
    destruct (is_edge_key k); tauto.
Qed.

(* ---- no edit operation touches the flags or the registry ---- *)
Lemma aux_ft s s' : aux_eq s s' -> ft s' = ft s.
Proof. intros (_ & _ & _ & _ & H). exact H. Qed.

Lemma top_wrap_ft st top p (r : res action) : ft (rstate r) = ft st -> ft (rstate (top_wrap top p r)) = ft st.
Proof.
  intros H. destruct r as [a s|e s]; cbn [rstate top_wrap] in *; [|exact H]. destruct top; [|exact H].
  destruct (finish_top_spec s a p) as (_ & _ & _ & _ & _ & F & _). congruence.
Qed.

Lemma user_update_seg_ft st nv groups T force : ft (rstate (user_update_seg st nv groups T force)) = ft st.
Proof.
  unfold user_update_seg. pose proof (aux_ft _ _ (aux_user_update_seg_core st nv groups T force)) as H.
  destruct (user_update_seg_core st nv groups T force) as [[a p] s|e s]; cbn [rstate] in *; [|exact H].
  destruct (finish_top_spec s a p) as (_ & _ & _ & _ & _ & F & _). congruence.
Qed.

Lemma paint_ft st nv t idx T force : ft (rstate (paint st nv t idx T force)) = ft st.
Proof.
  unfold paint. destruct (seg st) as [sg|]; [|apply user_update_seg_ft].
  destruct (negb (frame_ok sg t)); [reflexivity|]. cbv zeta.
  set (painted := upd_seg st _). set (gs := paint_groups sg t idx nv).
  pose proof (user_update_seg_ft painted nv gs T force) as H.
  destruct (user_update_seg painted nv gs T force) as [a s|e s]; cbn in *; [exact H|].
  destruct (seg s); exact H.
Qed.

Theorem step_ft st o : ft (fst (step st o)) = ft st.
Proof.
  destruct o; cbn [step].
  - unfold user_add_edge. pose proof (top_wrap_ft st true None _ (aux_ft _ _ (aux_user_add_edge_core st u v force))) as H.
    destruct (top_wrap _ _ _); exact H.
  - unfold user_delete_edge. pose proof (top_wrap_ft st true None _ (aux_ft _ _ (aux_user_delete_edge_core st u v))) as H.
    destruct (top_wrap _ _ _); exact H.
  - unfold user_add_node. pose proof (top_wrap_ft st true (Some n) _ (aux_ft _ _ (aux_user_add_node_core st n a px force))) as H.
    destruct (top_wrap _ _ _); exact H.
  - unfold user_delete_node. pose proof (top_wrap_ft st true None _ (aux_ft _ _ (aux_user_delete_node_core st n None))) as H.
    destruct (top_wrap _ _ _); exact H.
  - unfold user_swap. pose proof (top_wrap_ft st true None _ (aux_ft _ _ (aux_user_swap_core st a b))) as H.
    destruct (top_wrap _ _ _); exact H.
  - unfold user_update_attrs. pose proof (top_wrap_ft st true None _ (aux_ft _ _ (aux_user_update_attrs_core st n a))) as H.
    destruct (top_wrap _ _ _); exact H.
  - pose proof (paint_ft st new_value t idx T force) as H. destruct (paint _ _ _ _ _ _); exact H.
  - unfold undo. cbv zeta. destruct (_ <=? _)%nat; [reflexivity|].
    destruct (nth_error _ _) as [a|]; [|reflexivity].
    pose proof (aux_ft _ _ (aux_inv_action st a)) as H. destruct (inv_action st a); cbn in *; exact H.
  - unfold redo. destruct (rev (redo_stack st)) as [|b r']; [reflexivity|].
    pose proof (aux_ft _ _ (aux_inv_action (upd_hist st (undo_stack st) (rev r')) b)) as H.
    destruct (inv_action _ b); cbn in *; exact H.
  - pose proof (aux_ft _ _ (aux_track_neighbors st T t)) as H.
    destruct (track_neighbors st T t) as [s [p c]]. exact H.
  - reflexivity.
  - pose proof (get_new_node_ids_frame st n) as H. destruct (get_new_node_ids st n) as [s ids]. cbn. apply H.
  - reflexivity.
Qed.

Lemma cfg_keys_ft s s' : ft s' = ft s -> cfg_keys s -> cfg_keys s'.
Proof. intros E C. constructor; rewrite E; apply C. Qed.
Lemma W_reg_ft s s' : ft s' = ft s -> W_reg s -> W_reg s'.
Proof. intros E W k. unfold available, in_reg, active. rewrite E. apply W. Qed.

Theorem registry_step2 st o :
  cfg_keys st -> W_reg st -> cfg_keys (fst (step2 st o)) /\ W_reg (fst (step2 st o)).
Proof.
  intros C W. destruct o as [o|ks rc ctrk clin|ks]; cbn [step2].
  - pose proof (step_ft st o) as E. split; [eapply cfg_keys_ft|eapply W_reg_ft]; eauto.
  - destruct (enable_features st ks rc ctrk clin) as [[] s|e s] eqn:E; cbn [fin fst].
    + destruct (enable_registry _ _ _ _ _ _ C W E) as (A & B & _). auto.
    + unfold enable_features in E. destruct (negb _); [injection E as _ <-; auto|destruct rc; discriminate].
  - destruct (disable_features st ks) as [[] s|e s] eqn:E; cbn [fin fst].
    + destruct (disable_registry _ _ _ C W E) as (A & B & _). auto.
    + unfold disable_features in E. destruct (negb _); [injection E as _ <-; auto|discriminate].
Qed.

Theorem registry_run2 ops : forall st,
  cfg_keys st -> W_reg st ->
  let st' := fold_left (fun s o => fst (step2 s o)) ops st in cfg_keys st' /\ W_reg st'.
Proof.
  induction ops as [|o r IH]; intros st C W; cbn [fold_left]; [auto|].
  destruct (registry_step2 st o C W) as [C' W']. now apply IH.
Qed.

(* ================================================================== *)
(* Part 4 : disabled features are frozen                               *)
(* ================================================================== *)
(* [frz k X s s']: the flags and registry are the same, and outside [X] (the nodes the action
   itself adds or deletes) the node set is the same and the value of node key [k] is the same *)
Lemma has_node_ids s s' n : node_ids s' = node_ids s -> has_node s' n = has_node s n.
Proof.
  intros E. destruct (has_node s n) eqn:H.
  - apply is_node_haskey. unfold is_node. rewrite E. now apply is_node_haskey.
  - destruct (has_node s' n) eqn:H'; [|reflexivity]. apply is_node_haskey in H'. unfold is_node in H'. rewrite E in H'.
    apply is_node_haskey in H'. congruence.
Qed.
Definition frz (k : Z) (X : Z -> Prop) (s s' : state) : Prop :=
  ft s' = ft s /\ (forall n, ~ X n -> has_node s' n = has_node s n) /\
  (forall n, ~ X n -> attr s' n k = attr s n k).
(* a regionprops key that is switched off *)
Definition disabled_rp (st : state) (k : Z) : Prop :=
  In k (rp_all (ft st)) /\ ~ In k (rp_act (ft st)) /\ k <> KTrack /\ k <> KLin.

Lemma disabled_rp_intro st k : cfg_keys st -> In k (rp_all (ft st)) -> ~ In k (rp_act (ft st)) -> disabled_rp st k.
Proof. intros C H1 H2. destruct (cfg_rp_not_special st k C H1) as (_ & A & B & _). repeat split; assumption. Qed.

Lemma frz_refl k X s : frz k X s s.
Proof. repeat split; reflexivity. Qed.
Lemma frz_trans k X a b c : frz k X a b -> frz k X b c -> frz k X a c.
Proof.
  intros (A1 & A2 & A3) (B1 & B2 & B3). split; [congruence|]. split; intros n Hn; [rewrite B2, A2|rewrite B3, A3]; auto.
Qed.
Lemma frz_weaken k (X Y : Z -> Prop) a b : (forall n, X n -> Y n) -> frz k X a b -> frz k Y a b.
Proof. intros H (A1 & A2 & A3). split; [exact A1|]. split; intros n Hn; [apply A2|apply A3]; auto. Qed.
Lemma frz_keep k X (K : Z -> Prop) s s' : ft s' = ft s -> nodes_keep K s s' -> ~ K k -> frz k X s s'.
Proof. intros E [H0 H] Hk. split; [exact E|]. split; intros n _; [now apply has_node_ids|now apply H]. Qed.
Lemma frz_nodes k X s s' : ft s' = ft s -> nodes (g s') = nodes (g s) -> frz k X s s'.
Proof.
  intros E H. split; [exact E|]. split; intros n _; [unfold has_node|unfold attr, node_attrs]; now rewrite H.
Qed.
Lemma disabled_rp_ft s s' k : ft s' = ft s -> disabled_rp s k -> disabled_rp s' k.
Proof. intros E. unfold disabled_rp. now rewrite E. Qed.

(* the relation that composes along a sequence of sub-actions *)
Definition frozen (k : Z) (X : Z -> Prop) (s s' : state) : Prop := disabled_rp s k -> frz k X s s'.
Lemma frozen_refl k X s : frozen k X s s.
Proof. intros _. apply frz_refl. Qed.
Lemma frozen_trans k X a b c : frozen k X a b -> frozen k X b c -> frozen k X a c.
Proof.
  intros A B D. pose proof (A D) as A'. eapply frz_trans; [exact A'|]. apply B.
  eapply disabled_rp_ft; [apply A'|exact D].
Qed.
Lemma frozen_weaken k (X Y : Z -> Prop) a b : (forall n, X n -> Y n) -> frozen k X a b -> frozen k Y a b.
Proof. intros H A D. eapply frz_weaken; [exact H|now apply A]. Qed.
Lemma frozen_bind {A B} k X (r : res A) (f : A -> state -> res B) st :
  frozen k X st (rstate r) -> (forall a s, r = Ok a s -> frozen k X s (rstate (f a s))) ->
  frozen k X st (rstate (bind r f)).
Proof. apply bind_rel. apply frozen_trans. Qed.

(* ---- writes ---- *)
Lemma set_pixels_g st px v : g (rstate (set_pixels st px v)) = g st /\ ft (rstate (set_pixels st px v)) = ft st.
Proof. unfold set_pixels. destruct (seg st) as [sg|]; [|auto]. destruct (frame_ok sg (fst px)); auto. Qed.

Lemma frozen_rp_update k X st n : frozen k X st (rp_update st n).
Proof.
  intros (_ & D & _). destruct (rp_update_graph_only st n) as (_ & E & _).
  eapply frz_keep; [exact E|apply rp_update_keep|exact D].
Qed.

Lemma frozen_upd_seg k X st n px added : frozen k X st (rstate (do_upd_seg st n px added)).
Proof.
  unfold do_upd_seg. apply frozen_bind.
  - intros _. destruct (set_pixels_g st px (if added then n else 0)) as [G F].
    apply frz_nodes; [exact F|now rewrite G].
  - intros [] s _. destruct (negb (has_node s n) && _); [apply frozen_refl|].
    destruct (negb (has_node s n) && _); [apply frozen_refl|]. cbn [rstate].
    eapply frozen_trans; [apply frozen_rp_update|]. intros _.
    apply frz_nodes; [apply iou_update_ft|apply iou_update_nodes].
Qed.

Lemma frozen_add_edge k X st u v a : frozen k X st (rstate (do_add_edge st u v a)).
Proof. intros _. destruct (add_edge_effect st u v a) as (_ & F & N). now apply frz_nodes. Qed.
Lemma frozen_del_edge k X st u v : frozen k X st (rstate (do_del_edge st u v)).
Proof. intros _. destruct (del_edge_effect st u v) as (_ & F & N). now apply frz_nodes. Qed.

Lemma frozen_upd_track k X st start newT newL : frozen k X st (rstate (do_upd_track st start newT newL)).
Proof.
  intros (_ & _ & D1 & D2). destruct (upd_track_effect st start newT newL) as ((_ & F & _) & K).
  eapply frz_keep; [exact F|exact K|]. tauto.
Qed.

Lemma frozen_upd_attrs k X st n new : frozen k X st (rstate (do_upd_attrs st n new)).
Proof.
  intros (D & _). destruct (upd_attrs_effect st n new) as ((_ & F & _) & K).
  eapply frz_keep; [exact F|exact K|]. intros [_ H]. apply memz_false in H. apply H.
  apply protected_available. left. unfold available. apply in_app_iff. now left.
Qed.

(* AddNode / DeleteNode write one node only - whatever the flags *)
Definition nd_of (s : state) (n : Z) : option attrs := lookup n (nodes (g s)).
Lemma nd_of_attr s s' n k : nd_of s' n = nd_of s n -> attr s' n k = attr s n k.
Proof. unfold nd_of, attr, node_attrs, getd. now intros ->. Qed.
Lemma nd_of_has_node s s' n : nd_of s' n = nd_of s n -> has_node s' n = has_node s n.
Proof. unfold nd_of, has_node, haskey. now intros ->. Qed.

Lemma sna_nd_other st m k v n : n <> m -> nd_of (set_node_attr st m k v) n = nd_of st n.
Proof.
  intros Hn. unfold nd_of, set_node_attr. destruct (lookup m (nodes (g st))); [|reflexivity].
  cbn [g nodes upd_g]. now apply lookup_set_neq.
Qed.
Lemma fold_nd_other {X} (f : state -> X -> state) n (l : list X) :
  (forall s x, nd_of (f s x) n = nd_of s n) -> forall s, nd_of (fold_left f l s) n = nd_of s n.
Proof. intros Hf. induction l as [|x r IH]; intros s; cbn [fold_left]; [reflexivity|]. now rewrite IH, Hf. Qed.

Lemma add_node_core_nd st m a n : n <> m -> nd_of (add_node_core st m a) n = nd_of st n.
Proof.
  intros Hn. unfold add_node_core.
  set (s2 := if haskey m (nodes (g st)) then st else _).
  assert (H2 : nd_of s2 n = nd_of st n).
  { unfold s2. destruct (haskey m (nodes (g st))); [reflexivity|].
    unfold nd_of. cbn [g nodes upd_g]. rewrite lookup_snoc.
    destruct (lookup n (nodes (g st))); [reflexivity|]. destruct (Z.eqb_spec n m); [contradiction|reflexivity]. }
  rewrite <- H2. set (s3 := set_attrs s2 m a).
  assert (H3 : nd_of s3 n = nd_of s2 n).
  { unfold s3, set_attrs. apply fold_nd_other. intros s kv. now apply sna_nd_other. }
  rewrite <- H3. unfold rp_update. destruct (seg s3) as [sg|]; [|reflexivity].
  apply fold_nd_other. intros s kk. now apply sna_nd_other.
Qed.

Lemma do_add_node_nd st m a px n : n <> m -> nd_of (rstate (do_add_node st m a px)) n = nd_of st n.
Proof.
  intros Hn. unfold do_add_node.
  destruct (negb (haskey KTime a)); [reflexivity|]. destruct (negb (haskey KTrack a)); [reflexivity|].
  destruct (match px with None => negb (all_in (pos_keys (ft st)) a) | Some _ => false end); [reflexivity|].
  assert (G : g (rstate (match px with Some p => set_pixels st p m | None => Ok tt st end)) = g st).
  { destruct px as [p|]; [apply set_pixels_g|reflexivity]. }
  destruct (match px with Some p => set_pixels st p m | None => Ok tt st end) as [[] st1|e st1]; cbn [bind rstate] in *.
  2:{ unfold nd_of. now rewrite G. }
  fold (set_attrs (if haskey m (nodes (g st1)) then st1 else upd_g st1 {| nodes := nodes (g st1) ++ [(m, [])]; succs := set m (getd m (succs (g st1)) []) (succs (g st1)) |}) m a).
  change (rp_update (set_attrs (if haskey m (nodes (g st1)) then st1 else upd_g st1 {| nodes := nodes (g st1) ++ [(m, [])]; succs := set m (getd m (succs (g st1)) []) (succs (g st1)) |}) m a) m) with (add_node_core st1 m a).
  set (s4 := add_node_core st1 m a).
  assert (H4 : nd_of s4 n = nd_of st n).
  { unfold s4. rewrite add_node_core_nd by exact Hn. unfold nd_of. now rewrite G. }
  destruct (negb (trk_act (ft s4))); [exact H4|].
  destruct (zattr s4 m KTrack) as [t|]; [|exact H4].
  destruct (if lin_act (ft s4) then _ else _) as [lb ml]. exact H4.
Qed.

Lemma do_del_node_nd st m pxo n : n <> m -> nd_of (rstate (do_del_node st m pxo)) n = nd_of st n.
Proof.
  intros Hn. unfold do_del_node. destruct (lookup m (nodes (g st))) as [d|]; [|reflexivity].
  set (px := match pxo with Some p => Some p | None => get_pixels st m end).
  assert (G : g (rstate (match px with Some p => set_pixels st p 0 | None => Ok tt st end)) = g st).
  { destruct px as [p|]; [apply set_pixels_g|reflexivity]. }
  destruct (match px with Some p => set_pixels st p 0 | None => Ok tt st end) as [[] st1|e st1]; cbn [bind rstate] in *.
  2:{ unfold nd_of. now rewrite G. }
  set (s2 := upd_g st1 _).
  assert (H2 : nd_of s2 n = nd_of st n).
  { unfold nd_of, s2. cbn [g nodes upd_g]. rewrite lookup_del_neq by exact Hn. now rewrite G. }
  destruct (negb (trk_act (ft s2))); exact H2.
Qed.

Lemma do_add_node_other st m a px n k : n <> m -> attr (rstate (do_add_node st m a px)) n k = attr st n k.
Proof. intros H. now apply nd_of_attr, do_add_node_nd. Qed.
Lemma do_del_node_other st m pxo n k : n <> m -> attr (rstate (do_del_node st m pxo)) n k = attr st n k.
Proof. intros H. now apply nd_of_attr, do_del_node_nd. Qed.

Lemma frozen_add_node k st m a px : frozen k (eq m) st (rstate (do_add_node st m a px)).
Proof.
  intros _. split; [apply aux_ft, aux_do_add_node|].
  split; intros n Hn; [apply nd_of_has_node|apply nd_of_attr]; apply do_add_node_nd; congruence.
Qed.
Lemma frozen_del_node k st m pxo : frozen k (eq m) st (rstate (do_del_node st m pxo)).
Proof.
  intros _. split; [apply aux_ft, aux_do_del_node|].
  split; intros n Hn; [apply nd_of_has_node|apply nd_of_attr]; apply do_del_node_nd; congruence.
Qed.

(* ---- undo / redo of a basic action ---- *)
Definition basic_nodes (b : basic) (n : Z) : Prop :=
  match b with BAddNode m _ _ | BDelNode m _ _ => n = m | _ => False end.

Lemma frozen_inv_basic k st b : frozen k (basic_nodes b) st (rstate (inv_basic st b)).
Proof.
  destruct b; cbn [inv_basic].
  - eapply frozen_weaken; [|apply frozen_del_node]. cbn. auto.
  - eapply frozen_weaken; [|apply frozen_add_node]. cbn. auto.
  - apply frozen_del_edge.
  - apply frozen_add_edge.
  - apply frozen_upd_attrs.
  - apply frozen_upd_seg.
  - apply frozen_upd_track.
Qed.

(* ---- undo / redo of a recorded action ---- *)
Fixpoint action_nodes (a : action) (n : Z) : Prop :=
  match a with
  | ABasic b => basic_nodes b n
  | AGroup l => (fix go (l : list action) : Prop := match l with [] => False | x :: r => action_nodes x n \/ go r end) l
  end.
Fixpoint actions_nodes (l : list action) (n : Z) : Prop :=
  match l with [] => False | x :: r => action_nodes x n \/ actions_nodes r n end.
Lemma action_nodes_group l n : action_nodes (AGroup l) n = actions_nodes l n.
Proof. cbn. induction l as [|x r IH]; [reflexivity|]. now rewrite IH. Qed.

(* continuation form (as in Proofs/EditFrame.v): [s0] is the state the whole action started from *)
Lemma frozen_lift k X s0 st st' : frozen k X st st' -> frozen k X s0 st -> frozen k X s0 st'.
Proof. intros A B. eapply frozen_trans; eauto. Qed.
Lemma frozen_bind' {A B} k X s0 (r : res A) (f : A -> state -> res B) :
  frozen k X s0 (rstate r) -> (forall a s, frozen k X s0 s -> frozen k X s0 (rstate (f a s))) ->
  frozen k X s0 (rstate (bind r f)).
Proof. intros Hr Hf. destruct r as [a s|e s]; cbn in *; [now apply Hf|exact Hr]. Qed.

Lemma frozen_inv_action' k (X : Z -> Prop) : forall a s0 st, (forall n, action_nodes a n -> X n) ->
  frozen k X s0 st -> frozen k X s0 (rstate (inv_action st a)).
Proof.
  induction a as [b|l IHl] using action_ind2; intros s0 st HX H.
  - cbn [inv_action]. apply frozen_bind'; [|intros; assumption].
    eapply frozen_lift; [|exact H]. eapply frozen_weaken; [|apply frozen_inv_basic]. exact HX.
  - rewrite inv_action_group. apply frozen_bind'; [|intros; assumption].
    assert (HX' : forall n, actions_nodes l n -> X n) by (intros n Hn; apply HX; now rewrite action_nodes_group).
    clear HX. revert st H. induction IHl as [|a r Ha Hr IH]; intros st H.
    + exact H.
    + change (inv_list (a :: r) st)
        with (do accr, s <- inv_list r st; do a', s2 <- inv_action s a; Ok (accr ++ [a']) s2).
      apply frozen_bind'; [apply IH; [intros n Hn; apply HX'; now right|exact H]|]. intros accr s Hs.
      apply frozen_bind'; [apply Ha; [intros n Hn; apply HX'; now left|exact Hs]|intros; assumption].
Qed.

Theorem frozen_inv_action k st a : frozen k (action_nodes a) st (rstate (inv_action st a)).
Proof. apply frozen_inv_action'; [auto|apply frozen_refl]. Qed.

(* ---- the user actions ---- *)
Lemma frozen_upd_hist k X s0 s u r : frozen k X s0 s -> frozen k X s0 (upd_hist s u r).
Proof. intros H D. exact (H D). Qed.
Lemma frozen_emit k X s0 s p : frozen k X s0 s -> frozen k X s0 (emit s p).
Proof. intros H D. exact (H D). Qed.
Lemma frozen_finish_top k X s0 s a p : frozen k X s0 s -> frozen k X s0 (finish_top s a p).
Proof. intros H. unfold finish_top, hist_add. apply frozen_emit. destruct (redo_stack s); now apply frozen_upd_hist. Qed.
Lemma frozen_top_wrap' k X s0 top p r : frozen k X s0 (rstate r) -> frozen k X s0 (rstate (top_wrap top p r)).
Proof. intros H. destruct r as [a s|e s]; cbn [top_wrap rstate] in *; [|exact H]. destruct top; [now apply frozen_finish_top|exact H]. Qed.
Lemma frozen_track_neighbors' k X s0 st T t : frozen k X s0 st -> frozen k X s0 (fst (track_neighbors st T t)).
Proof.
  apply frozen_lift. intros _. destruct (track_neighbors_frame st T t) as (G & _ & A).
  apply frz_nodes; [now apply aux_ft|now rewrite G].
Qed.

Lemma frozen_del_edge' k X s0 st u v : frozen k X s0 st -> frozen k X s0 (rstate (do_del_edge st u v)).
Proof. apply frozen_lift, frozen_del_edge. Qed.
Lemma frozen_add_edge' k X s0 st u v a : frozen k X s0 st -> frozen k X s0 (rstate (do_add_edge st u v a)).
Proof. apply frozen_lift, frozen_add_edge. Qed.
Lemma frozen_upd_track' k X s0 st a b c : frozen k X s0 st -> frozen k X s0 (rstate (do_upd_track st a b c)).
Proof. apply frozen_lift, frozen_upd_track. Qed.
Lemma frozen_upd_attrs' k X s0 st n new : frozen k X s0 st -> frozen k X s0 (rstate (do_upd_attrs st n new)).
Proof. apply frozen_lift, frozen_upd_attrs. Qed.
Lemma frozen_upd_seg' k X s0 st n px added : frozen k X s0 st -> frozen k X s0 (rstate (do_upd_seg st n px added)).
Proof. apply frozen_lift, frozen_upd_seg. Qed.
Lemma frozen_add_node' k (X : Z -> Prop) s0 st m a px : X m -> frozen k X s0 st -> frozen k X s0 (rstate (do_add_node st m a px)).
Proof. intros Hm. apply frozen_lift. eapply frozen_weaken; [|apply frozen_add_node]. now intros n <-. Qed.
Lemma frozen_del_node' k (X : Z -> Prop) s0 st m pxo : X m -> frozen k X s0 st -> frozen k X s0 (rstate (do_del_node st m pxo)).
Proof. intros Hm. apply frozen_lift. eapply frozen_weaken; [|apply frozen_del_node]. now intros n <-. Qed.

Ltac fz_lem := first [ apply frozen_del_edge' | apply frozen_add_edge' | apply frozen_upd_track'
  | apply frozen_upd_attrs' | apply frozen_upd_seg' ].
Ltac fz_step :=
  lazymatch goal with
  | |- forall _, _ => intro
  | H : frozen ?k ?X ?a ?b |- frozen ?k ?X ?a ?b => exact H
  | |- frozen _ _ ?a ?a => apply frozen_refl
  | H : frozen ?k ?X ?s0 ?s |- frozen ?k ?X ?s0 (rstate (match track_neighbors ?s ?T ?t with _ => _ end)) =>
      let Hn := fresh "Hn" in
      pose proof (frozen_track_neighbors' k X s0 s T t H) as Hn;
      destruct (track_neighbors s T t) as [? [? ?]] eqn:?; cbn [fst] in Hn
  | |- frozen _ _ _ (rstate (top_wrap _ _ _)) => apply frozen_top_wrap'
  | |- frozen _ _ _ (rstate (bind _ _)) => apply frozen_bind'
  | |- frozen _ _ _ (rstate (Ok _ _)) => cbn [rstate]
  | |- frozen _ _ _ (rstate (Err _ _)) => cbn [rstate]
  | |- frozen ?k ?X ?s0 (rstate (match ?c with _ => _ end)) =>
      lazymatch type of c with
      | res _ => let H := fresh "Hc" in
                 assert (H : frozen k X s0 (rstate c));
                 [ | destruct c eqn:?; cbn [rstate] in H ]
      | _ => destruct c eqn:?
      end
  | |- frozen _ _ _ (match ?c with _ => _ end) => destruct c eqn:?
  | |- frozen _ _ _ ((fun _ => _) _) => cbv beta
  | |- frozen _ _ _ (rstate ((fun _ => _) _)) => cbv beta
  | |- frozen _ _ _ _ => fz_lem
  end.
Ltac fz := repeat fz_step.

Lemma frozen_ude_core' k X s0 st u v : frozen k X s0 st -> frozen k X s0 (rstate (user_delete_edge_core st u v)).
Proof. intros H. unfold user_delete_edge_core. cbv zeta. fz. Qed.
Lemma frozen_ude' k X s0 st u v top : frozen k X s0 st -> frozen k X s0 (rstate (user_delete_edge st u v top)).
Proof. intros H. unfold user_delete_edge. apply frozen_top_wrap', frozen_ude_core', H. Qed.
Ltac fz_lem ::= first [ apply frozen_del_edge' | apply frozen_add_edge' | apply frozen_upd_track'
  | apply frozen_upd_attrs' | apply frozen_upd_seg' | apply frozen_ude_core' | apply frozen_ude' ].

Lemma frozen_uae_core' k X s0 st u v force : frozen k X s0 st -> frozen k X s0 (rstate (user_add_edge_core st u v force)).
Proof. intros H. unfold user_add_edge_core. cbv zeta. fz. Qed.
Lemma frozen_uae' k X s0 st u v force top : frozen k X s0 st -> frozen k X s0 (rstate (user_add_edge st u v force top)).
Proof. intros H. unfold user_add_edge. apply frozen_top_wrap', frozen_uae_core', H. Qed.

Lemma frozen_udn_preds' k X n ps : forall s0 s acc, frozen k X s0 s -> frozen k X s0 (rstate (udn_preds n ps s acc)).
Proof. induction ps as [|p r IH]; intros s0 s acc H; cbn [udn_preds]; cbv zeta; fz. apply IH. fz. Qed.
Lemma frozen_udn_succs' k X n cs : forall s0 s acc, frozen k X s0 s -> frozen k X s0 (rstate (udn_succs n cs s acc)).
Proof. induction cs as [|c r IH]; intros s0 s acc H; cbn [udn_succs]; fz. apply IH. fz. Qed.
Lemma frozen_udn_orphans' k X os : forall s0 s acc, frozen k X s0 s -> frozen k X s0 (rstate (udn_orphans os s acc)).
Proof. induction os as [|o r IH]; intros s0 s acc H; cbn [udn_orphans]; fz. apply IH. fz. Qed.
Ltac fz_lem ::= first [ apply frozen_del_edge' | apply frozen_add_edge' | apply frozen_upd_track'
  | apply frozen_upd_attrs' | apply frozen_upd_seg' | apply frozen_ude_core' | apply frozen_ude'
  | apply frozen_uae_core' | apply frozen_uae'
  | apply frozen_udn_preds' | apply frozen_udn_succs' | apply frozen_udn_orphans'
  | (apply frozen_del_node'; [assumption|]) | (apply frozen_add_node'; [assumption|]) ].

Lemma frozen_udn_core' k (X : Z -> Prop) s0 st n pxo : X n ->
  frozen k X s0 st -> frozen k X s0 (rstate (user_delete_node_core st n pxo)).
Proof. intros Hn H. unfold user_delete_node_core. cbv zeta. fz. Qed.
Lemma frozen_udn' k (X : Z -> Prop) s0 st n pxo top : X n ->
  frozen k X s0 st -> frozen k X s0 (rstate (user_delete_node st n pxo top)).
Proof. intros Hn H. unfold user_delete_node. now apply frozen_top_wrap', frozen_udn_core'. Qed.

Lemma frozen_uan_conflicts' k X s0 st pred succ force : frozen k X s0 st -> frozen k X s0 (rstate (uan_conflicts st pred succ force)).
Proof. intros H. now rewrite uan_conflicts_state. Qed.
Lemma frozen_uan_cut' k X es : forall s0 s acc, frozen k X s0 s -> frozen k X s0 (rstate (uan_cut es s acc)).
Proof. induction es as [|e r IH]; intros s0 s acc H; cbn [uan_cut]; fz. apply IH. fz. Qed.
Ltac fz_lem ::= first [ apply frozen_del_edge' | apply frozen_add_edge' | apply frozen_upd_track'
  | apply frozen_upd_attrs' | apply frozen_upd_seg' | apply frozen_ude_core' | apply frozen_ude'
  | apply frozen_uae_core' | apply frozen_uae'
  | apply frozen_udn_preds' | apply frozen_udn_succs' | apply frozen_udn_orphans'
  | apply frozen_uan_conflicts' | apply frozen_uan_cut'
  | (apply frozen_del_node'; [assumption|]) | (apply frozen_add_node'; [assumption|]) ].

Lemma frozen_uan_core' k (X : Z -> Prop) s0 st n a px force : X n ->
  frozen k X s0 st -> frozen k X s0 (rstate (user_add_node_core st n a px force)).
Proof. intros Hn H. unfold user_add_node_core. cbv zeta. fz. Qed.
Lemma frozen_uan' k (X : Z -> Prop) s0 st n a px force top : X n ->
  frozen k X s0 st -> frozen k X s0 (rstate (user_add_node st n a px force top)).
Proof. intros Hn H. unfold user_add_node. now apply frozen_top_wrap', frozen_uan_core'. Qed.

Lemma frozen_swap_core' k X s0 st n1 n2 : frozen k X s0 st -> frozen k X s0 (rstate (user_swap_core st n1 n2)).
Proof. intros H. unfold user_swap_core. cbv zeta. fz. Qed.
Lemma frozen_uua_core' k X s0 st n new : frozen k X s0 st -> frozen k X s0 (rstate (user_update_attrs_core st n new)).
Proof. intros H. unfold user_update_attrs_core. fz. Qed.

(* ---- a paint stroke: UserUpdateSegmentation and its rollback ---- *)
Definition bn_in (X : Z -> Prop) (b : basic) : Prop := forall m, basic_nodes b m -> X m.
Definition an_in (X : Z -> Prop) (l : list action) : Prop := forall m, actions_nodes l m -> X m.
Lemma actions_nodes_app l1 l2 m : actions_nodes (l1 ++ l2) m <-> actions_nodes l1 m \/ actions_nodes l2 m.
Proof. induction l1 as [|x r IH]; cbn [app actions_nodes]; [tauto|]. rewrite IH. tauto. Qed.
Lemma an_in_nil X : an_in X [].
Proof. intros m []. Qed.
Lemma an_in_snoc (X : Z -> Prop) l x : an_in X l -> (forall m, action_nodes x m -> X m) -> an_in X (l ++ [x]).
Proof. intros H1 H2 m Hm. apply actions_nodes_app in Hm. cbn in Hm. destruct Hm as [Hm|[Hm|[]]]; auto. Qed.
Lemma an_in_snoc_basic (X : Z -> Prop) l b : an_in X l -> bn_in X b -> an_in X (l ++ [ABasic b]).
Proof. intros H1 H2. apply an_in_snoc; [exact H1|exact H2]. Qed.
Lemma an_in_rev (X : Z -> Prop) l : an_in X l -> an_in X (rev l).
Proof.
  induction l as [|x r IH]; cbn [rev]; [auto|]. intros H. apply an_in_snoc.
  - apply IH. intros m Hm. apply H. now right.
  - intros m Hm. apply H. now left.
Qed.

Lemma upd_track_out X st s t l b st' : do_upd_track st s t l = Ok b st' -> bn_in X b.
Proof.
  unfold do_upd_track. destruct (negb (has_node st s)); [discriminate|]. destruct (zattr st s KTrack); [|discriminate].
  destruct (negb (trk_act (ft st))); [intros H; injection H as <- _; intros m []|].
  destruct (walk _ _ _ _ _ _ _ _ _) as [[[st1 tn] ln]|]; [|discriminate].
  destruct (match (if lin_act (ft st) then l else None) with Some _ => _ | None => _ end). intros H; injection H as <- _; intros m [].
Qed.
Lemma del_edge_out X st u v b st' : do_del_edge st u v = Ok b st' -> bn_in X b.
Proof. unfold do_del_edge. destruct (negb (has_edge st u v)); [discriminate|]. intros H; injection H as <- _; intros m []. Qed.
Lemma add_edge_out X st u v a b st' : do_add_edge st u v a = Ok b st' -> bn_in X b.
Proof.
  unfold do_add_edge. destruct (negb (has_node st u)); [discriminate|]. destruct (negb (has_node st v)); [discriminate|].
  intros H; injection H as <- _; intros m [].
Qed.
Lemma del_node_out (X : Z -> Prop) st n pxo b st' : do_del_node st n pxo = Ok b st' -> X n -> bn_in X b.
Proof.
  unfold do_del_node. destruct (lookup n (nodes (g st))); [|discriminate].
  destruct (match (match pxo with Some p => Some p | None => get_pixels st n end) with Some p => set_pixels st p 0 | None => Ok tt st end) as [[] st1|]; [|discriminate].
  cbn [bind ft upd_g]. intros H Hx.
  destruct (negb (trk_act (ft st1))); injection H as <- _; intros m Hm; cbn in Hm; now subst.
Qed.
Lemma upd_seg_out X st n p added b st' : do_upd_seg st n p added = Ok b st' -> bn_in X b.
Proof.
  unfold do_upd_seg. destruct (set_pixels _ _ _) as [[] st1|]; [|discriminate]. cbn [bind].
  destruct (negb (has_node st1 n) && _); [discriminate|]. destruct (negb (has_node st1 n) && _); [discriminate|].
  intros H. injection H as <- _. intros m [].
Qed.

Lemma udn_preds_out X n ps : forall s acc acts s', udn_preds n ps s acc = Ok acts s' -> an_in X acc -> an_in X acts.
Proof.
  induction ps as [|p r IH]; intros s acc acts s' H Hacc; cbn [udn_preds] in H; [injection H as <- _; exact Hacc|].
  ok_step H acc1 s1 H1. ok_step H b s2 H2. eapply IH; [exact H|]. apply an_in_snoc_basic; [|eapply del_edge_out; eauto].
  destruct (length (successors s p) =? 2)%nat; [|injection H1 as <- _; exact Hacc].
  destruct (remove1 n (successors s p)); [discriminate|]. destruct (zattr s p KTrack); [|discriminate].
  ok_step H1 b0 s0 H0. injection H1 as <- _. apply an_in_snoc_basic; [exact Hacc|eapply upd_track_out; eauto].
Qed.
Lemma udn_succs_out X n cs : forall s acc acts s', udn_succs n cs s acc = Ok acts s' -> an_in X acc -> an_in X acts.
Proof.
  induction cs as [|c r IH]; intros s acc acts s' H Hacc; cbn [udn_succs] in H; [injection H as <- _; exact Hacc|].
  ok_step H b s1 H1. eapply IH; [exact H|]. apply an_in_snoc_basic; [exact Hacc|eapply del_edge_out; eauto].
Qed.
Lemma udn_orphans_out X os : forall s acc acts s', udn_orphans os s acc = Ok acts s' -> an_in X acc -> an_in X acts.
Proof.
  induction os as [|o r IH]; intros s acc acts s' H Hacc; cbn [udn_orphans] in H; [injection H as <- _; exact Hacc|].
  destruct (zattr s o KTrack); [|discriminate]. ok_step H b s1 H1. eapply IH; [exact H|].
  apply an_in_snoc_basic; [exact Hacc|eapply upd_track_out; eauto].
Qed.

Lemma udn_core_out (X : Z -> Prop) st n pxo a s' : user_delete_node_core st n pxo = Ok a s' -> X n ->
  forall m, action_nodes a m -> X m.
Proof.
  unfold user_delete_node_core. intros H Hx. destruct (px_check st pxo); [discriminate|]. destruct (negb (has_node st n)); [discriminate|].
  ok_step H acts1 s1 H1. apply (udn_preds_out X) in H1; [|apply an_in_nil].
  ok_step H acts2 s2 H2. apply (udn_succs_out X) in H2; [|exact H1].
  ok_step H ao s3 H3. destruct ao as [acts3 orphans].
  assert (A3 : an_in X acts3).
  { destruct (zattr s2 n KTrack) as [T|]; [|discriminate]. destruct (track_neighbors s2 T (time_of s2 n)) as [s2' [pp cc]].
    destruct pp as [pp|]; [destruct cc as [cc|]|].
    - ok_step H3 b0 s4 H4. injection H3 as <- _ _. apply an_in_snoc_basic; [exact H2|eapply add_edge_out; eauto].
    - injection H3 as <- _ _. exact H2.
    - injection H3 as <- _ _. exact H2. }
  ok_step H acts4 s4 H4. apply (udn_orphans_out X) in H4; [|exact A3].
  ok_step H b s5 H5. injection H as <- _. intros m. rewrite action_nodes_group.
  apply (an_in_snoc_basic X acts4 b H4). eapply del_node_out; eauto.
Qed.

Lemma uus_groups_out (X : Z -> Prop) gs : forall s acc acts s', uus_groups gs s acc = Ok acts s' ->
  (forall g, In g gs -> snd g <> 0 -> X (snd g)) -> an_in X acc -> an_in X acts.
Proof.
  induction gs as [|[px old] r IH]; intros s acc acts s' H Hg Hacc; cbn [uus_groups] in H; [injection H as <- _; exact Hacc|].
  assert (Hr : forall g, In g r -> snd g <> 0 -> X (snd g)) by (intros g Hin; apply Hg; now right).
  destruct (Z.eqb_spec old 0) as [->|Hold]; [eapply IH; eauto|].
  assert (Hx : X old) by (apply (Hg (px, old)); [now left|exact Hold]).
  destruct (match seg s with Some sg0 => mask_of sg0 (fst px) old | None => [] end).
  - ok_step H a s1 H1. unfold user_delete_node in H1. apply top_wrap_false_ok in H1.
    eapply IH; [exact H|exact Hr|]. apply an_in_snoc; [exact Hacc|eapply udn_core_out; eauto].
  - ok_step H b s1 H1. eapply IH; [exact H|exact Hr|]. apply an_in_snoc_basic; [exact Hacc|eapply upd_seg_out; eauto].
Qed.

Lemma frozen_uus_groups' k (X : Z -> Prop) gs : (forall g, In g gs -> snd g <> 0 -> X (snd g)) ->
  forall s0 s acc, frozen k X s0 s -> frozen k X s0 (rstate (uus_groups gs s acc)).
Proof.
  induction gs as [|[px old] r IH]; intros Hg s0 s acc H; cbn [uus_groups]; [exact H|].
  assert (Hr : forall g, In g r -> snd g <> 0 -> X (snd g)) by (intros g Hin; apply Hg; now right).
  destruct (Z.eqb_spec old 0) as [->|Hold]; [now apply IH|].
  assert (Hx : X old) by (apply (Hg (px, old)); [now left|exact Hold]).
  destruct (match seg s with Some sg0 => mask_of sg0 (fst px) old | None => [] end).
  - apply frozen_bind'; [now apply frozen_udn'|]. intros a s1 H1. now apply IH.
  - apply frozen_bind'; [now apply frozen_upd_seg'|]. intros b s1 H1. now apply IH.
Qed.

Lemma frozen_rollback' k (X : Z -> Prop) l : an_in X l ->
  forall s0 s, frozen k X s0 s -> frozen k X s0 (rstate (rollback l s)).
Proof.
  induction l as [|x r IH]; intros Hl s0 s H; cbn [rollback]; [exact H|].
  apply frozen_bind'.
  - apply frozen_inv_action'; [intros n Hn; apply Hl; now left|exact H].
  - intros _i s1 H1. apply IH; [intros n Hn; apply Hl; now right|exact H1].
Qed.

Lemma frozen_uus_core k (X : Z -> Prop) st nv groups T force :
  (forall n, X n \/ ~ X n) ->
  (forall g, In g groups -> snd g <> 0 -> X (snd g)) -> (has_node st nv = false -> X nv) ->
  frozen k X st (rstate (user_update_seg_core st nv groups T force)).
Proof.
  intros Xdec Hg Hnv. unfold user_update_seg_core. destruct (seg st) eqn:Hs; [|apply frozen_refl].
  destruct (negb (nv =? 0) && _ && has_node st nv && _); [apply frozen_refl|].
  pose proof (frozen_uus_groups' k X groups Hg st st [] (frozen_refl _ _ _)) as Hfz.
  destruct (uus_groups groups st []) as [acts s1|e s1] eqn:Hu; cbn [bind rstate] in Hfz |- *; [|exact Hfz].
  apply (uus_groups_out X) in Hu; [|exact Hg|apply an_in_nil].
  destruct groups as [|[px0 old0] gr] eqn:Eg; [exact Hfz|].
  destruct (nv =? 0); [exact Hfz|]. cbv zeta.
  destruct (has_node s1 nv) eqn:Hh.
  - apply frozen_bind'; [now apply frozen_upd_seg'|]. intros b s2 H2. exact H2.
  - intros D.
    assert (Xnv : X nv).
    { destruct (Xdec nv) as [Hx|Hx]; [exact Hx|]. apply Hnv. destruct (Hfz D) as (_ & A & _).
      rewrite <- (A nv Hx). exact Hh. }
    revert D. change (frozen k X st (rstate (
      match user_add_node s1 nv [(KTime, VZ (fst px0)); (KTrack, VZ T)] (Some (fst px0, flat_map (fun g0 => snd (fst g0)) ((px0, old0) :: gr))) force false with
      | Ok x s => Ok (AGroup (acts ++ [x]), Some nv) s
      | Err (EInvalid f) s => match rollback (rev acts) s with Ok _ s' => Err (EInvalid f) s' | Err e s' => Err e s' end
      | Err e s => Err e s end))).
    pose proof (frozen_uan' k X st s1 nv [(KTime, VZ (fst px0)); (KTrack, VZ T)] (Some (fst px0, flat_map (fun g0 => snd (fst g0)) ((px0, old0) :: gr))) force false Xnv Hfz) as Hadd.
    destruct (user_add_node s1 nv _ _ force false) as [x s2|e s2]; cbn [rstate] in Hadd |- *; [exact Hadd|].
    destruct e; try exact Hadd.
    pose proof (frozen_rollback' k X (rev acts) (an_in_rev X _ Hu) st s2 Hadd) as Hrb.
    destruct (rollback (rev acts) s2); cbn [rstate] in *; exact Hrb.
Qed.

Definition paint_nodes (st : state) (nv t : Z) (idx : list Z) (n : Z) : Prop :=
  (n = nv /\ has_node st nv = false) \/
  match seg st with Some sg => In n (map snd (paint_groups sg t idx nv)) | None => False end.

Lemma paint_nodes_dec st nv t idx n : paint_nodes st nv t idx n \/ ~ paint_nodes st nv t idx n.
Proof.
  unfold paint_nodes. destruct (Z.eq_dec n nv) as [->|Hn].
  - destruct (has_node st nv); [|left; left; auto].
    destruct (seg st) as [sg|]; [|right; intros [[_ H]|[]]; discriminate H].
    destruct (in_dec Z.eq_dec nv (map snd (paint_groups sg t idx nv))) as [Hi|Hi]; [left; now right|].
    right. intros [[_ H]|H]; [discriminate H|contradiction].
  - destruct (seg st) as [sg|]; [|right; intros [[H _]|[]]; contradiction].
    destruct (in_dec Z.eq_dec n (map snd (paint_groups sg t idx nv))) as [Hi|Hi]; [left; now right|].
    right. intros [[H _]|H]; contradiction.
Qed.

Lemma frozen_user_update_seg k (X : Z -> Prop) st nv groups T force :
  (forall n, X n \/ ~ X n) ->
  (forall g, In g groups -> snd g <> 0 -> X (snd g)) -> (has_node st nv = false -> X nv) ->
  frozen k X st (rstate (user_update_seg st nv groups T force)).
Proof.
  intros Xdec Hg Hnv. unfold user_update_seg. pose proof (frozen_uus_core k X st nv groups T force Xdec Hg Hnv) as H.
  destruct (user_update_seg_core st nv groups T force) as [[a p] s|e s]; cbn [rstate] in *; [|exact H].
  now apply frozen_finish_top.
Qed.

Theorem frozen_paint k st nv t idx T force :
  frozen k (paint_nodes st nv t idx) st (rstate (paint st nv t idx T force)).
Proof.
  unfold paint. destruct (seg st) as [sg|] eqn:Hs.
  - destruct (negb (frame_ok sg t)); [apply frozen_refl|]. cbv zeta.
    set (painted := upd_seg st _). set (gs := paint_groups sg t idx nv).
    assert (Hp : frozen k (paint_nodes st nv t idx) st painted) by (intros _; apply frz_nodes; reflexivity).
    assert (Hu : frozen k (paint_nodes st nv t idx) painted (rstate (user_update_seg painted nv gs T force))).
    { apply frozen_user_update_seg; [apply paint_nodes_dec| |].
      - intros g0 Hin _. right. rewrite Hs. now apply in_map.
      - intros H. left. auto. }
    pose proof (frozen_trans _ _ _ _ _ Hp Hu) as H.
    destruct (user_update_seg painted nv gs T force) as [a s|e s]; cbn [rstate] in *; [exact H|].
    destruct (seg s); [|exact H]. intros D. destruct (H D) as (A & B & C). repeat split; assumption.
  - apply frozen_user_update_seg; [apply paint_nodes_dec|intros g0 []|]. intros H. left. auto.
Qed.

(* ---- one call of the public API ---- *)
Definition op_nodes (st : state) (o : op) (n : Z) : Prop :=
  match o with
  | OAddNode m _ _ _ | ODelNode m => n = m
  | OUndo => match nth_error (undo_stack st) (length (undo_stack st) - length (redo_stack st) - 1) with
             | Some a => action_nodes a n | None => False end
  | ORedo => match rev (redo_stack st) with b :: _ => action_nodes b n | [] => False end
  | OPaint nv t idx _ _ => paint_nodes st nv t idx n
  | _ => False
  end.

Lemma frozen_fin {A} k X st (r : res A) : frozen k X st (rstate r) -> frozen k X st (fst (fin r)).
Proof. destruct r; exact (fun H => H). Qed.
Lemma frozen_finb k X st (r : res bool) : frozen k X st (rstate r) -> frozen k X st (fst (finb r)).
Proof. destruct r; exact (fun H => H). Qed.

Theorem frozen_step k st o : frozen k (op_nodes st o) st (fst (step st o)).
Proof.
  destruct o; unfold op_nodes; cbn [step].
  - apply frozen_fin, frozen_uae', frozen_refl.
  - apply frozen_fin, frozen_ude', frozen_refl.
  - apply frozen_fin, frozen_uan'; [reflexivity|apply frozen_refl].
  - apply frozen_fin, frozen_udn'; [reflexivity|apply frozen_refl].
  - apply frozen_fin. unfold user_swap. apply frozen_top_wrap', frozen_swap_core', frozen_refl.
  - apply frozen_fin. unfold user_update_attrs. apply frozen_top_wrap', frozen_uua_core', frozen_refl.
  - apply frozen_fin, frozen_paint.
  - apply frozen_finb. unfold undo. cbv zeta. destruct (_ <=? _)%nat; [apply frozen_refl|].
    destruct (nth_error _ _) as [a|]; [|apply frozen_refl].
    apply frozen_bind'; [apply frozen_inv_action|]. intros b s H. cbn [rstate]. now apply frozen_emit, frozen_upd_hist.
  - apply frozen_finb. unfold redo. destruct (rev (redo_stack st)) as [|b r']; [apply frozen_refl|].
    apply frozen_bind'.
    + apply frozen_inv_action'; [auto|]. apply frozen_upd_hist, frozen_refl.
    + intros x s H. cbn [rstate]. now apply frozen_emit.
  - pose proof (frozen_track_neighbors' k (fun _ => False) st st T t (frozen_refl _ _ _)) as H.
    destruct (track_neighbors st T t) as [s [p c]]. exact H.
  - apply frozen_refl.
  - pose proof (get_new_node_ids_frame st n) as (G & _ & F & _). destruct (get_new_node_ids st n) as [s ids].
    cbn [fst] in *. intros _. apply frz_nodes; [exact F|now rewrite G].
  - apply frozen_refl.
Qed.

(* ---- the edge feature ---- *)
Theorem iou_disabled_no_update st es : iou_act (ft st) = false -> iou_update_edges st es = st.
Proof. intros H. apply iou_update_inactive. now right. Qed.

(* [efrz E s s']: flags the same, the attribute dictionary of every edge outside E the same *)
Definition efrz (E : Z -> Z -> Prop) (s s' : state) : Prop :=
  ft s' = ft s /\ forall a b, ~ E a b -> edge_attrs s' a b = edge_attrs s a b.
Definition efrozen (E : Z -> Z -> Prop) (s s' : state) : Prop := iou_act (ft s) = false -> efrz E s s'.

Lemma efrz_succs E s s' : ft s' = ft s -> succs (g s') = succs (g s) -> efrz E s s'.
Proof. intros F H. split; [exact F|]. intros a b _. now apply edge_attrs_succs. Qed.

Lemma efrozen_upd_seg E st n px added : efrozen E st (rstate (do_upd_seg st n px added)).
Proof.
  intros Hi. unfold do_upd_seg. destruct (set_pixels_g st px (if added then n else 0)) as [G F].
  destruct (set_pixels st px (if added then n else 0)) as [[] s|e s]; cbn [bind rstate] in *.
  2:{ apply efrz_succs; [exact F|now rewrite G]. }
  assert (Hs : efrz E st s) by (apply efrz_succs; [exact F|now rewrite G]).
  destruct (negb (has_node s n) && _); [exact Hs|].
  destruct (negb (has_node s n) && _); [exact Hs|]. cbn [rstate].
  destruct (rp_update_graph_only s n) as (_ & F2 & S2).
  rewrite iou_disabled_no_update by (rewrite F2, F; exact Hi).
  apply efrz_succs; [congruence|]. now rewrite S2, G.
Qed.

Lemma efrozen_add_edge st u v a : efrozen (fun x y => x = u /\ y = v) st (rstate (do_add_edge st u v a)).
Proof.
  intros Hi. unfold do_add_edge. destruct (negb (has_node st u)); [apply efrz_succs; reflexivity|].
  destruct (negb (has_node st v)); [apply efrz_succs; reflexivity|]. cbn [rstate].
  rewrite iou_disabled_no_update by exact Hi. split; [reflexivity|]. intros x y Hxy.
  set (st' := upd_g st _).
  assert (Hs : succs (g st') = set u (set v (update (edge_attrs st u v) a) (adj st u)) (succs (g st))) by reflexivity.
  destruct (edge_put _ _ _ _ _ Hs) as [_ H2]. rewrite H2.
  destruct (Z.eqb_spec x u) as [->|]; [|reflexivity]. destruct (Z.eqb_spec y v) as [->|]; [|reflexivity]. tauto.
Qed.

Lemma efrozen_del_edge st u v : efrozen (fun x y => x = u /\ y = v) st (rstate (do_del_edge st u v)).
Proof.
  intros _. unfold do_del_edge. destruct (negb (has_edge st u v)); [apply efrz_succs; reflexivity|]. cbn [rstate].
  split; [reflexivity|]. intros x y Hxy. set (st' := upd_g st _).
  assert (Hs : succs (g st') = set u (del v (adj st u)) (succs (g st))) by reflexivity.
  destruct (edge_drop _ _ _ _ Hs) as [_ H2]. now apply H2.
Qed.

Lemma efrozen_upd_track E st start newT newL : efrozen E st (rstate (do_upd_track st start newT newL)).
Proof. intros _. destruct (upd_track_effect st start newT newL) as ((_ & F & S) & _). now apply efrz_succs. Qed.
Lemma efrozen_upd_attrs E st n new : efrozen E st (rstate (do_upd_attrs st n new)).
Proof. intros _. destruct (upd_attrs_effect st n new) as ((_ & F & S) & _). now apply efrz_succs. Qed.

Lemma add_node_core_adj st m a u : adj (add_node_core st m a) u = adj st u.
Proof.
  unfold add_node_core. set (s2 := if haskey m (nodes (g st)) then st else _).
  destruct (rp_update_graph_only (set_attrs s2 m a) m) as (_ & _ & S4).
  destruct (set_attrs_graph_only s2 m a) as (_ & _ & S3).
  unfold adj. rewrite S4, S3. unfold s2. destruct (haskey m (nodes (g st))); [reflexivity|]. cbn [g succs upd_g].
  destruct (Z.eq_dec u m) as [->|Hu]; [now rewrite getd_set_eq|now rewrite getd_set_neq].
Qed.

Lemma efrozen_add_node E st m a px : efrozen E st (rstate (do_add_node st m a px)).
Proof.
  intros _. split; [apply aux_ft, aux_do_add_node|]. intros x y _. unfold do_add_node.
  destruct (negb (haskey KTime a)); [reflexivity|]. destruct (negb (haskey KTrack a)); [reflexivity|].
  destruct (match px with None => negb (all_in (pos_keys (ft st)) a) | Some _ => false end); [reflexivity|].
  assert (G : g (rstate (match px with Some p => set_pixels st p m | None => Ok tt st end)) = g st).
  { destruct px as [p|]; [apply set_pixels_g|reflexivity]. }
  destruct (match px with Some p => set_pixels st p m | None => Ok tt st end) as [[] st1|e st1]; cbn [bind rstate] in *.
  2:{ unfold edge_attrs, adj. now rewrite G. }
  fold (set_attrs (if haskey m (nodes (g st1)) then st1 else upd_g st1 {| nodes := nodes (g st1) ++ [(m, [])]; succs := set m (getd m (succs (g st1)) []) (succs (g st1)) |}) m a).
  change (rp_update (set_attrs (if haskey m (nodes (g st1)) then st1 else upd_g st1 {| nodes := nodes (g st1) ++ [(m, [])]; succs := set m (getd m (succs (g st1)) []) (succs (g st1)) |}) m a) m) with (add_node_core st1 m a).
  set (s4 := add_node_core st1 m a).
  assert (H4 : edge_attrs s4 x y = edge_attrs st x y).
  { unfold edge_attrs, s4. rewrite add_node_core_adj. unfold adj. now rewrite G. }
  destruct (negb (trk_act (ft s4))); [exact H4|].
  destruct (zattr s4 m KTrack) as [t|]; [|exact H4].
  destruct (if lin_act (ft s4) then _ else _) as [lb ml]. exact H4.
Qed.

Lemma efrozen_del_node st m pxo : efrozen (fun x y => x = m \/ y = m) st (rstate (do_del_node st m pxo)).
Proof.
  intros _. split; [apply aux_ft, aux_do_del_node|]. intros x y Hxy. unfold do_del_node.
  destruct (lookup m (nodes (g st))) as [d|]; [|reflexivity].
  set (px := match pxo with Some p => Some p | None => get_pixels st m end).
  assert (G : g (rstate (match px with Some p => set_pixels st p 0 | None => Ok tt st end)) = g st).
  { destruct px as [p|]; [apply set_pixels_g|reflexivity]. }
  destruct (match px with Some p => set_pixels st p 0 | None => Ok tt st end) as [[] st1|e st1]; cbn [bind rstate] in *.
  2:{ unfold edge_attrs, adj. now rewrite G. }
  set (s2 := upd_g st1 _).
  assert (H2 : edge_attrs s2 x y = edge_attrs st x y).
  { unfold edge_attrs, adj, getd, s2. cbn [g succs upd_g]. rewrite (lookup_map_snd (del m)), G.
    destruct (Z.eq_dec x m) as [->|Hx]; [tauto|]. rewrite lookup_del_neq by exact Hx.
    destruct (lookup x (succs (g st))) as [row|]; cbn [option_map]; [|reflexivity].
    rewrite lookup_del_neq; [reflexivity|]. intros ->. tauto. }
  destruct (negb (trk_act (ft s2))); exact H2.
Qed.

(* ================================================================== *)
(* Part 5 : enabling with recomputation stores the reference values    *)
(* ================================================================== *)
Lemma labels_of_In_gen f : forall acc y,
  In y (fold_left (fun acc x => if x =? 0 then acc else insert_sorted x acc) f acc) <-> In y acc \/ (In y f /\ y <> 0).
Proof.
  induction f as [|x r IH]; intros acc y; cbn [fold_left In]; [tauto|].
  rewrite IH. destruct (Z.eqb_spec x 0) as [->|Hx].
  - split; [intros [H|[H1 H2]]; auto|intros [H|[[<-|H1] H2]]; [auto|congruence|auto]].
  - rewrite insert_sorted_In. split.
    + intros [[->|H]|[H1 H2]]; auto.
    + intros [H|[[<-|H1] H2]]; auto.
Qed.
Lemma labels_of_In f y : In y (labels_of f) <-> In y f /\ y <> 0.
Proof. unfold labels_of. rewrite labels_of_In_gen. cbn [In]. tauto. Qed.

Lemma fold_establish {X} (f : state -> X -> state) (I D : state -> Prop) (l : list X) (x : X) :
  (forall s y, In y l -> I s -> I (f s y)) ->
  (forall s y, In y l -> I s -> D s -> D (f s y)) ->
  (forall s, I s -> D (f s x)) ->
  In x l -> forall s, I s -> I (fold_left f l s) /\ D (fold_left f l s).
Proof.
  intros HI HD Hx. 
  assert (Hpres : forall l', incl l' l -> forall s, I s -> (I (fold_left f l' s)) /\ (D s -> D (fold_left f l' s))).
  { induction l' as [|y r IH]; intros Hl s Hs; cbn [fold_left]; [auto|].
    assert (Hy : In y l) by (apply Hl; now left). assert (Hr : incl r l) by (intros z Hz; apply Hl; now right).
    destruct (IH Hr (f s y) (HI s y Hy Hs)) as [A B]. split; [exact A|]. intros Hd. apply B. now apply HD. }
  assert (Hgen : forall l', incl l' l -> In x l' -> forall s, I s -> D (fold_left f l' s)).
  { induction l' as [|y r IH]; intros Hl Hin s Hs; [destruct Hin|]. cbn [fold_left].
    assert (Hy : In y l) by (apply Hl; now left). assert (Hr : incl r l) by (intros z Hz; apply Hl; now right).
    destruct Hin as [->|Hin].
    - apply (Hpres r Hr (f s x) (HI s x Hy Hs)). now apply Hx.
    - apply IH; [exact Hr|exact Hin|]. now apply HI. }
  intros Hin s Hs. split; [apply (Hpres l (incl_refl l) s Hs)|apply Hgen; auto using incl_refl].
Qed.

Lemma fold_preserve {X} (f : state -> X -> state) (I : state -> Prop) (l : list X) :
  (forall s y, In y l -> I s -> I (f s y)) -> forall s, I s -> I (fold_left f l s).
Proof.
  intros HI. assert (H : forall l', incl l' l -> forall s, I s -> I (fold_left f l' s)).
  { induction l' as [|y r IH]; intros Hl s Hs; cbn [fold_left]; [exact Hs|].
    apply IH; [intros z Hz; apply Hl; now right|]. apply HI; [apply Hl; now left|exact Hs]. }
  apply H, incl_refl.
Qed.

Section RpCompute.
Variables (st : state) (sg : list (list Z)) (ks' : list Z).
Hypothesis Hseg : seg st = Some sg.
Hypothesis HW : W_seg st.

Let K (k : Z) : Prop := In k ks'.
Let I (s : state) : Prop := nodes_keep K st s.
Let D (n : Z) (s : state) : Prop := forall k, In k ks' -> attr s n k = Some (VRp (mask_of sg (time_of st n) n)).
Let stepl (t : Z) (s : state) (l : Z) : state :=
  if has_node s l then fold_left (fun s' k => set_node_attr s' l k (VRp (mask_of sg t l))) ks' s else s.

Lemma rpc_label_time t l : frame_ok sg t = true -> In l (labels_of (frame_of sg t)) -> is_node st l /\ time_of st l = t.
Proof.
  intros Hf Hl. apply labels_of_In in Hl. destruct Hl as [Hin Hl0].
  apply (In_nth _ _ 0) in Hin. destruct Hin as (i & _ & Hi).
  destruct (proj1 (W_seg_iff _ _ Hseg) HW) as (_ & W2 & _).
  specialize (W2 t i Hf). unfold label_at in W2. rewrite Hi in W2. now apply W2.
Qed.

Lemma rpc_node_label n : is_node st n ->
  frame_ok sg (time_of st n) = true /\ In n (labels_of (frame_of sg (time_of st n))).
Proof.
  intros Hn. destruct (proj1 (W_seg_iff _ _ Hseg) HW) as (W1 & _ & W3).
  destruct (W1 n Hn) as [Hf Hm]. split; [exact Hf|]. apply labels_of_In. split; [|now apply W3].
  apply mask_nonempty in Hm. destruct Hm as (i & Hi & E). unfold label_at in E.
  pose proof (nth_In _ 0 Hi) as H. rewrite E in H. exact H.
Qed.

Lemma rpc_stepl_I t s l : I s -> I (stepl t s l).
Proof.
  intros Hs. unfold stepl. destruct (has_node s l); [|exact Hs].
  eapply nodes_keep_trans; [exact Hs|]. apply (set_keys_keep s l ks').
Qed.

Lemma rpc_stepl_D t s l n : (is_node st l -> time_of st l = t) -> I s -> D n s -> D n (stepl t s l).
Proof.
  intros Ht Hs Hd k Hk. unfold stepl. destruct (has_node s l) eqn:Hh; [|now apply Hd].
  fold (set_keys s l ks' (VRp (mask_of sg t l))). rewrite set_keys_attr, Hh, andb_true_r.
  destruct (Z.eqb_spec n l) as [->|Hne]; cbn [andb]; [|now apply Hd].
  apply memz_In in Hk. rewrite Hk. rewrite Ht; [reflexivity|].
  apply (nodes_keep_is_node _ _ _ l Hs). now apply is_node_haskey.
Qed.

Lemma rpc_stepl_est t s l : is_node st l -> time_of st l = t -> I s -> D l (stepl t s l).
Proof.
  intros Hl Ht Hs k Hk. unfold stepl.
  assert (Hh : has_node s l = true) by (apply is_node_haskey; now apply (nodes_keep_is_node _ _ _ l Hs)).
  rewrite Hh. fold (set_keys s l ks' (VRp (mask_of sg t l))). rewrite set_keys_attr, Hh, Z.eqb_refl.
  apply memz_In in Hk. rewrite Hk. cbn [andb]. now rewrite Ht.
Qed.

Lemma rpc_frame_I t s : I s -> I (rp_compute_frame ks' sg s t).
Proof. intros Hs. unfold rp_compute_frame. apply (fold_preserve (stepl t) I); [|exact Hs]. intros s' y _. apply rpc_stepl_I. Qed.

Lemma rpc_frame_D t s n : frame_ok sg t = true -> I s -> D n s -> D n (rp_compute_frame ks' sg s t).
Proof.
  intros Hf Hs Hd. unfold rp_compute_frame.
  apply (fold_preserve (stepl t) (fun s => I s /\ D n s)); [|auto].
  intros s' y Hy [A B]. split; [now apply rpc_stepl_I|]. apply rpc_stepl_D; auto.
  intros _. now apply (rpc_label_time t y Hf Hy).
Qed.

Lemma rpc_frame_est s n : is_node st n -> I s -> D n (rp_compute_frame ks' sg s (time_of st n)).
Proof.
  intros Hn Hs. destruct (rpc_node_label n Hn) as [Hf Hl]. unfold rp_compute_frame.
  apply (fold_establish (stepl (time_of st n)) I (D n) _ n); auto.
  - intros s' y _. apply rpc_stepl_I.
  - intros s' y Hy A B. apply rpc_stepl_D; auto. intros _. now apply (rpc_label_time _ y Hf Hy).
  - intros s' A. now apply rpc_stepl_est.
Qed.

Lemma rpc_frames_In t : In t (map Z.of_nat (seq 0 (length sg))) <-> frame_ok sg t = true.
Proof.
  rewrite frame_ok_range, in_map_iff. split.
  - intros (i & <- & Hi). apply in_seq in Hi. lia.
  - intros Ht. exists (Z.to_nat t). split; [lia|]. apply in_seq. lia.
Qed.

Lemma rpc_all : let s' := fold_left (rp_compute_frame ks' sg) (map Z.of_nat (seq 0 (length sg))) st in
  nodes_keep K st s' /\ forall n, is_node st n -> D n s'.
Proof.
  cbv zeta. split.
  - apply (fold_preserve (rp_compute_frame ks' sg) I); [|apply nodes_keep_refl]. intros s t _. apply rpc_frame_I.
  - intros n Hn. destruct (rpc_node_label n Hn) as [Hf _].
    apply (fold_establish (rp_compute_frame ks' sg) I (D n) _ (time_of st n)).
    + intros s t _. apply rpc_frame_I.
    + intros s t Ht. apply rpc_frame_D. now apply rpc_frames_In.
    + intros s. now apply rpc_frame_est.
    + now apply rpc_frames_In.
    + apply nodes_keep_refl.
Qed.
End RpCompute.

(* rp_compute as a whole: only the requested active keys are written, each with the value of the
   node's mask in the node's own frame *)
Theorem rp_compute_spec st sg ks : seg st = Some sg -> W_seg st ->
  let s' := rp_compute st ks in
  seg s' = Some sg /\ ft s' = ft st /\ succs (g s') = succs (g st) /\
  nodes_keep (fun k => In k ks /\ In k (rp_act (ft st))) st s' /\
  forall n k, is_node st n -> In k ks -> In k (rp_act (ft st)) ->
    attr s' n k = Some (VRp (mask_of sg (time_of st n) n)).
Proof.
  intros Hs HW. cbv zeta.
  assert (Hg : seg (rp_compute st ks) = Some sg /\ succs (g (rp_compute st ks)) = succs (g st)).
  { unfold rp_compute. rewrite Hs. destruct (filter _ _) as [|k0 r]; [auto|]. split.
    - rewrite <- Hs. apply fold_seg. intros s t. unfold rp_compute_frame. apply fold_seg. intros s' l.
      destruct (has_node s' l); [|reflexivity]. apply fold_seg. intros s'' k. apply sna_seg.
    - apply fold_succs. intros s t. unfold rp_compute_frame. apply fold_succs. intros s' l.
      destruct (has_node s' l); [|reflexivity]. apply fold_succs. intros s'' k. apply sna_succs. }
  destruct Hg as [Hg1 Hg2]. split; [exact Hg1|]. split; [apply rp_compute_ft|]. split; [exact Hg2|].
  set (ks' := filter (fun k => memz k ks) (rp_act (ft st))).
  assert (Hin : forall k, In k ks' <-> In k ks /\ In k (rp_act (ft st))).
  { intros k. unfold ks'. rewrite filter_In, memz_In. tauto. }
  destruct (rpc_all st sg ks' Hs HW) as [A B].
  unfold rp_compute. rewrite Hs. fold ks'. destruct ks' as [|k0 r] eqn:E.
  - split; [apply nodes_keep_refl|]. intros n k _ H1 H2. exfalso. apply (proj2 (Hin k)). auto.
  - rewrite <- E in *. split.
    + eapply nodes_keep_weaken; [|exact A]. intros k. apply Hin.
    + intros n k Hn H1 H2. apply (B n Hn). apply Hin. auto.
Qed.

(* ---- iou_compute ---- *)
Lemma has_edge_in_all_edges st u v : has_edge st u v = true -> In (u, v) (all_edges st).
Proof.
  unfold has_edge, adj, getd, all_edges. destruct (lookup u (succs (g st))) as [d|] eqn:E; [|discriminate].
  intros H. apply haskey_keys in H. apply lookup_In in E. apply in_flat_map. exists (u, d). split; [exact E|].
  cbn [fst snd]. apply in_map_iff. exists v. auto.
Qed.

Theorem iou_compute_spec st sg ks : seg st = Some sg -> In KIou ks -> iou_act (ft st) = true ->
  let s' := iou_compute st ks in
  seg s' = Some sg /\ ft s' = ft st /\ nodes (g s') = nodes (g st) /\
  (forall a b, has_edge s' a b = has_edge st a b) /\
  forall u v, edge st u v -> 0 <= time_of st u < Z.of_nat (length sg) - 1 ->
    lookup KIou (edge_attrs s' u v) = Some (iou_of st sg u v).
Proof.
  intros Hs Hk Ha. cbv zeta.
  set (es := filter (fun e => (0 <=? time_of st (fst e)) && (time_of st (fst e) <? Z.of_nat (length sg) - 1)) (all_edges st)).
  assert (E : iou_compute st ks = iou_update_edges st es).
  { unfold iou_compute, iou_update_edges. rewrite Hs, Ha. apply memz_In in Hk. rewrite Hk. reflexivity. }
  rewrite E. split; [now rewrite iou_update_seg|]. split; [apply iou_update_ft|]. split; [apply iou_update_nodes|].
  destruct (iou_update_spec st sg es Hs Ha) as (H1 & H2 & _). split; [exact H1|].
  intros u v He Ht. apply H2; [|exact He]. unfold es. apply filter_In. split; [now apply has_edge_in_all_edges|].
  cbn [fst]. apply andb_true_iff. split; [apply Z.leb_le|apply Z.ltb_lt]; lia.
Qed.

Lemma iou_compute_frame st ks : let s' := iou_compute st ks in
  seg s' = seg st /\ ft s' = ft st /\ nodes (g s') = nodes (g st) /\ (forall a b, has_edge s' a b = has_edge st a b).
Proof.
  cbv zeta. unfold iou_compute. destruct (seg st) as [sg|] eqn:Hs; [|rewrite Hs; auto].
  destruct (memz KIou ks && iou_act (ft st)) eqn:B; [|rewrite Hs; auto].
  apply andb_true_iff in B. destruct B as [B1 B2].
  set (es := filter _ (all_edges st)).
  assert (E : fold_left (fun s e => set_edge_attr s (fst e) (snd e) KIou (iou_of s sg (fst e) (snd e))) es st = iou_update_edges st es).
  { unfold iou_update_edges. now rewrite Hs, B2. }
  rewrite E. split; [now rewrite iou_update_seg|]. split; [apply iou_update_ft|]. split; [apply iou_update_nodes|].
  apply (iou_update_spec st sg es Hs B2).
Qed.

(* ---- trk_compute writes the two id attributes and the lookups, nothing else ---- *)
Lemma trk_only_fold key (Hk : key = KTrack \/ key = KLin) v : forall c st,
  trk_only st (fold_left (fun s n => set_node_attr s n key v) c st).
Proof.
  induction c as [|n r IH]; intros st; cbn [fold_left]; [apply trk_only_refl|].
  eapply trk_only_trans; [|apply IH]. apply sna_trk_only. exact Hk.
Qed.
Lemma assign_ids_trk_only key (Hk : key = KTrack \/ key = KLin) : forall comps i st book,
  trk_only st (fst (fst (assign_ids key comps i st book))).
Proof.
  induction comps as [|c r IH]; intros i st book; cbn [assign_ids]; [apply trk_only_refl|].
  eapply trk_only_trans; [apply (trk_only_fold key Hk)|apply IH].
Qed.
Lemma trk_only_upd_bk st b : trk_only st (upd_bk st b).
Proof. split; [repeat split|apply nodes_keep_eq; reflexivity]. Qed.

Lemma trk_compute_trk_only st ks ctrk clin : trk_only st (trk_compute st ks ctrk clin).
Proof.
  unfold trk_compute.
  set (s1 := if memz KTrack ks && trk_act (ft st) then _ else st).
  assert (H1 : trk_only st s1).
  { unfold s1. destruct (memz KTrack ks && trk_act (ft st)); [|apply trk_only_refl].
    pose proof (assign_ids_trk_only KTrack (or_introl eq_refl) ctrk 1 st []) as H.
    destruct (assign_ids KTrack ctrk 1 st []) as [[s book] mx]. cbn [fst] in H.
    eapply trk_only_trans; [exact H|apply trk_only_upd_bk]. }
  destruct (memz KLin ks && lin_act (ft s1)); [|exact H1].
  pose proof (assign_ids_trk_only KLin (or_intror eq_refl) clin 1 s1 []) as H.
  destruct (assign_ids KLin clin 1 s1 []) as [[s book] mx]. cbn [fst] in H.
  eapply trk_only_trans; [exact H1|]. eapply trk_only_trans; [exact H|apply trk_only_upd_bk].
Qed.

(* ---- enable_features with recomputation, unfolded into its three stages ---- *)
Lemma enable_true_unfold st ks ctrk clin st' : enable_features st ks true ctrk clin = Ok tt st' ->
  let s0 := upd_ft st (register (set_flags (ft st) ks true) ks) in
  st' = trk_compute (iou_compute (rp_compute s0 ks) ks) ks ctrk clin.
Proof. unfold enable_features. destruct (negb _); [discriminate|]. intros H; now injection H as <-. Qed.

Lemma enabled_rp_active st ks k : In k ks -> In k (rp_all (ft st)) ->
  In k (rp_act (register (set_flags (ft st) ks true) ks)).
Proof.
  intros H1 H2. cbn [register rp_act]. apply set_flags_rp_act. apply memz_In in H1. rewrite H1. auto.
Qed.

Section EnableFresh.
Variables (st : state) (sg : list (list Z)) (ks : list Z) (ctrk clin : list (list Z)) (st' : state).
Hypothesis Hcfg : cfg_keys st.
Hypothesis Hseg : seg st = Some sg.
Hypothesis HW : W_seg st.
Hypothesis Hen : enable_features st ks true ctrk clin = Ok tt st'.

Let f' := register (set_flags (ft st) ks true) ks.
Let s0 := upd_ft st f'.
Let s1 := rp_compute s0 ks.
Let s2 := iou_compute s1 ks.

Lemma ef_st' : st' = trk_compute s2 ks ctrk clin.
Proof. exact (enable_true_unfold _ _ _ _ _ Hen). Qed.

Lemma ef_rp_act_all k : In k (rp_act f') -> In k (rp_all (ft st)).
Proof. unfold f'. cbn [register rp_act]. rewrite set_flags_rp_act. tauto. Qed.

Lemma ef_stage1 : seg s1 = Some sg /\ ft s1 = f' /\ succs (g s1) = succs (g st) /\
  nodes_keep (fun k => In k ks /\ In k (rp_act f')) st s1 /\
  forall n k, is_node st n -> In k ks -> In k (rp_act f') -> attr s1 n k = Some (VRp (mask_of sg (time_of st n) n)).
Proof. exact (rp_compute_spec s0 sg ks Hseg HW). Qed.

Lemma ef_not_rp k : k = KTime \/ k = KTrack \/ k = KLin \/ k = KIou -> ~ (In k ks /\ In k (rp_act f')).
Proof.
  intros Hk [_ H]. apply ef_rp_act_all in H. destruct (cfg_rp_not_special st k Hcfg H) as (A & B & C & D).
  destruct Hk as [E|[E|[E|E]]]; congruence.
Qed.

Lemma ef_frame : seg st' = Some sg /\ ft st' = f' /\ succs (g st') = succs (g s2) /\
  (forall n, is_node st' n <-> is_node st n) /\ (forall n, time_of st' n = time_of st n) /\
  (forall n k, k <> KTrack -> k <> KLin -> attr st' n k = attr s1 n k) /\
  (forall a b, has_edge st' a b = has_edge st a b).
Proof.
  destruct ef_stage1 as (A1 & A2 & A3 & A4 & _).
  destruct (iou_compute_frame s1 ks) as (B1 & B2 & B3 & B4). fold s2 in B1, B2, B3, B4.
  destruct (trk_compute_trk_only s2 ks ctrk clin) as ((C1 & C2 & C3) & C4). rewrite <- ef_st' in C1, C2, C3, C4.
  split; [congruence|]. split; [congruence|]. split; [exact C3|].
  assert (T1 : forall n, time_of s1 n = time_of st n).
  { intros n. apply (nodes_keep_time _ _ _ n (ef_not_rp KTime (or_introl eq_refl)) A4). }
  assert (T2 : forall n, time_of s2 n = time_of s1 n) by (intros n; unfold time_of, zattr, attr, node_attrs; now rewrite B3).
  split; [|split; [|split]].
  - intros n. rewrite (nodes_keep_is_node _ _ _ n C4). unfold is_node, node_ids. rewrite B3.
    apply (nodes_keep_is_node _ _ _ n A4).
  - intros n. rewrite (nodes_keep_time _ _ _ n KTime_not_trk C4). now rewrite T2, T1.
  - intros n k H1 H2. destruct C4 as [_ C4]. rewrite C4 by tauto. unfold attr, node_attrs. now rewrite B3.
  - intros a b. rewrite (has_edge_succs st' s2 a b C3), B4. now apply has_edge_succs.
Qed.

Theorem enable_fresh_rp_thm :
  seg st' = Some sg /\ (forall n, is_node st' n <-> is_node st n) /\ (forall n, time_of st' n = time_of st n) /\
  forall n k, is_node st' n -> In k ks -> In k (rp_all (ft st)) ->
    In k (rp_act (ft st')) /\ attr st' n k = Some (VRp (mask_of sg (time_of st' n) n)).
Proof.
  destruct ef_frame as (F1 & F2 & _ & F4 & F5 & F6 & _). destruct ef_stage1 as (_ & _ & _ & _ & A5).
  split; [exact F1|]. split; [exact F4|]. split; [exact F5|]. intros n k Hn H1 H2.
  pose proof (enabled_rp_active st ks k H1 H2) as Hact. fold f' in Hact. rewrite F2. split; [exact Hact|].
  destruct (cfg_rp_not_special st k Hcfg H2) as (_ & B & C & _).
  rewrite F6 by assumption. rewrite F5. apply A5; [now apply F4|exact H1|exact Hact].
Qed.

(* the whole node half of W_fresh is re-established / kept *)
Theorem enable_rp_fresh_thm : rp_fresh st -> rp_fresh st'.
Proof.
  intros Hf. destruct ef_frame as (F1 & F2 & _ & F4 & F5 & F6 & _). destruct ef_stage1 as (_ & _ & _ & A4 & A5).
  unfold rp_fresh in *. rewrite F1. rewrite Hseg in Hf. intros n k Hn Hk. rewrite F2 in Hk.
  pose proof (ef_rp_act_all k Hk) as Hall. destruct (cfg_rp_not_special st k Hcfg Hall) as (_ & B & C & _).
  rewrite F6 by assumption. rewrite F5. apply F4 in Hn.
  destruct (in_dec Z.eq_dec k ks) as [Hi|Hni].
  - now apply A5.
  - destruct A4 as [_ A4]. rewrite A4 by tauto. change (attr s0 n k) with (attr st n k). apply Hf; [exact Hn|].
    unfold f' in Hk. cbn [register rp_act] in Hk. apply set_flags_rp_act in Hk. apply memz_false in Hni. rewrite Hni in Hk. tauto.
Qed.

Theorem enable_fresh_iou_thm : In KIou ks ->
  iou_act (ft st') = true /\ (forall u v, edge st' u v <-> edge st u v) /\
  forall u v, edge st' u v -> 0 <= time_of st' u < Z.of_nat (length sg) - 1 ->
    lookup KIou (edge_attrs st' u v) = Some (iou_of st' sg u v).
Proof.
  intros Hk. destruct ef_frame as (F1 & F2 & F3 & F4 & F5 & F6 & F7). destruct ef_stage1 as (A1 & A2 & A3 & A4 & _).
  pose proof (enable_ok_avail _ _ _ _ _ _ Hen KIou Hk) as Hav.
  assert (Hia : iou_avail (ft st) = true).
  { destruct (available_cases st KIou Hcfg Hav) as [(_ & A & _)|[(_ & A & _)|[(A & _)|(A & _)]]]; try (now elim A); try discriminate A; exact A. }
  assert (Hact : iou_act f' = true).
  { unfold f'. cbn [register iou_act set_flags]. apply memz_In in Hk. now rewrite Hk, Hia. }
  split; [now rewrite F2|]. split; [intros u v; unfold edge; now rewrite F7|].
  intros u v He Ht. unfold edge in He. rewrite F7 in He. rewrite !F5 in Ht.
  assert (Hact1 : iou_act (ft s1) = true) by now rewrite A2.
  destruct (iou_compute_spec s1 sg ks A1 Hk Hact1) as (_ & _ & _ & _ & B5). fold s2 in B5.
  assert (T1 : forall n, time_of s1 n = time_of st n).
  { intros n. apply (nodes_keep_time _ _ _ n (ef_not_rp KTime (or_introl eq_refl)) A4). }
  rewrite (edge_attrs_succs st' s2 u v F3). rewrite B5.
  - f_equal. apply iou_of_ext; rewrite ?T1, ?F5; reflexivity.
  - unfold edge. now rewrite (has_edge_succs s1 st u v A3).
  - now rewrite T1.
Qed.

(* with a forest over the array every edge meets the range condition of the bulk computation *)
Theorem enable_iou_fresh_thm : In KIou ks -> W_dict st -> W_forest st -> iou_fresh st'.
Proof.
  intros Hk Hd Hfo. destruct (enable_fresh_iou_thm Hk) as (_ & E2 & E3).
  destruct ef_frame as (F1 & _ & _ & _ & F5 & _).
  unfold iou_fresh. rewrite F1. intros _ u v He. apply E3; [exact He|]. rewrite F5.
  apply E2 in He. destruct (wd_edge_nodes st Hd u v He) as [Hu Hv].
  destruct (proj1 (W_seg_iff _ _ Hseg) HW) as (W1 & _).
  destruct (W1 u Hu) as [Fu _]. destruct (W1 v Hv) as [Fv _].
  apply frame_ok_range in Fu. apply frame_ok_range in Fv. pose proof (wf_time st Hfo u v He). lia.
Qed.
End EnableFresh.

(* ---- track / lineage ids from the components the oracle returned ---- *)
Lemma has_node_sna st n k v m : has_node (set_node_attr st n k v) m = has_node st m.
Proof.
  destruct (has_node st m) eqn:E.
  - apply is_node_haskey. unfold is_node. rewrite sna_node_ids. now apply is_node_haskey.
  - destruct (has_node (set_node_attr st n k v) m) eqn:E'; [|reflexivity].
    apply is_node_haskey in E'. unfold is_node in E'. rewrite sna_node_ids in E'. apply is_node_haskey in E'. congruence.
Qed.

Lemma fold_set_other key v n k : forall c st, (k <> key \/ ~ In n c) ->
  attr (fold_left (fun s m => set_node_attr s m key v) c st) n k = attr st n k.
Proof.
  induction c as [|m r IH]; intros st H; cbn [fold_left]; [reflexivity|].
  rewrite IH by (destruct H as [H|H]; [now left|right; intros H'; apply H; now right]).
  rewrite sna_attr. destruct (Z.eqb_spec n m) as [->|Hn]; [|reflexivity].
  destruct (Z.eqb_spec k key) as [->|Hk]; [|reflexivity].
  destruct H as [H|H]; [congruence|]. exfalso. apply H. now left.
Qed.

Lemma fold_set_keep key v n : forall c st, attr st n key = Some v ->
  attr (fold_left (fun s m => set_node_attr s m key v) c st) n key = Some v.
Proof.
  induction c as [|m r IH]; intros st H; cbn [fold_left]; [exact H|]. apply IH. rewrite sna_attr.
  destruct ((n =? m) && (key =? key) && has_node st m); [reflexivity|exact H].
Qed.

Lemma fold_set_in key v n : forall c st, has_node st n = true -> In n c ->
  attr (fold_left (fun s m => set_node_attr s m key v) c st) n key = Some v.
Proof.
  induction c as [|m r IH]; intros st Hn Hin; [destruct Hin|]. cbn [fold_left]. destruct Hin as [->|Hin].
  - apply fold_set_keep. rewrite sna_attr, !Z.eqb_refl, Hn. reflexivity.
  - apply IH; [now rewrite has_node_sna|exact Hin].
Qed.

Lemma fold_set_has_node key v m : forall c st,
  has_node (fold_left (fun s n => set_node_attr s n key v) c st) m = has_node st m.
Proof. induction c as [|n r IH]; intros st; cbn [fold_left]; [reflexivity|]. now rewrite IH, has_node_sna. Qed.

Lemma assign_ids_other key n k : forall comps i st book, (k <> key \/ forall c, In c comps -> ~ In n c) ->
  attr (fst (fst (assign_ids key comps i st book))) n k = attr st n k.
Proof.
  induction comps as [|c r IH]; intros i st book H; cbn [assign_ids]; [reflexivity|].
  rewrite IH by (destruct H as [H|H]; [now left|right; intros d Hd; apply H; now right]).
  apply fold_set_other. destruct H as [H|H]; [now left|right; apply H; now left].
Qed.

Definition comps_disjoint (comps : list (list Z)) : Prop :=
  forall i j c d n, nth_error comps i = Some c -> nth_error comps j = Some d -> In n c -> In n d -> i = j.

Lemma comps_disjoint_tail c r : comps_disjoint (c :: r) -> comps_disjoint r /\ forall n d, In n c -> In d r -> ~ In n d.
Proof.
  intros H. split.
  - intros i j a b n Ha Hb H1 H2. assert (E : S i = S j) by (eapply (H (S i) (S j)); eauto). now injection E.
  - intros n d Hn Hd Hnd. apply In_nth_error in Hd. destruct Hd as [j Hj].
    assert (E : O = S j) by (eapply (H O (S j)); [reflexivity|exact Hj|exact Hn|exact Hnd]). discriminate.
Qed.

Lemma assign_ids_spec key : forall comps i st book,
  comps_disjoint comps ->
  let r := assign_ids key comps i st book in
  snd r = i + Z.of_nat (length comps) - 1 /\
  (forall m, has_node (fst (fst r)) m = has_node st m) /\
  (forall j c n, nth_error comps j = Some c -> In n c -> has_node st n = true ->
       attr (fst (fst r)) n key = Some (VZ (i + Z.of_nat j))) /\
  (forall x, x < i -> lookup x (snd (fst r)) = lookup x book) /\
  (forall j c, nth_error comps j = Some c -> lookup (i + Z.of_nat j) (snd (fst r)) = Some c) /\
  ((forall x, In x (keys book) -> x < i) ->
     keys (snd (fst r)) = keys book ++ map (fun j => i + Z.of_nat j) (seq 0 (length comps))).
Proof.
  induction comps as [|c r IH]; intros i st book Hdj; cbv zeta; cbn [assign_ids].
  - cbn [fst snd length]. split; [lia|]. split; [reflexivity|]. split; [intros [|j] ? ? H; discriminate H|].
    split; [reflexivity|]. split; [intros [|j] ? H; discriminate H|]. intros _. cbn. now rewrite app_nil_r.
  - destruct (comps_disjoint_tail c r Hdj) as [Hdr Hcr].
    set (st1 := fold_left (fun s n => set_node_attr s n key (VZ i)) c st).
    destruct (IH (i + 1) st1 (set i c book) Hdr) as (I1 & I2 & I3 & I4 & I5 & I6). cbv zeta in *.
    split; [rewrite I1; cbn [length]; lia|].
    split; [intros m; rewrite I2; apply fold_set_has_node|]. split; [|split; [|split]].
    + intros [|j] d n Hj Hn Hh; cbn [nth_error] in Hj.
      * injection Hj as <-. rewrite assign_ids_other by (right; intros d Hd; now apply Hcr).
        replace (i + Z.of_nat 0) with i by lia. now apply fold_set_in.
      * replace (i + Z.of_nat (S j)) with (i + 1 + Z.of_nat j) by lia. eapply I3; eauto.
        unfold st1. now rewrite fold_set_has_node.
    + intros x Hx. rewrite I4 by lia. apply lookup_set_neq. lia.
    + intros [|j] d Hj; cbn [nth_error] in Hj.
      * injection Hj as <-. replace (i + Z.of_nat 0) with i by lia. rewrite I4 by lia. apply lookup_set_eq.
      * replace (i + Z.of_nat (S j)) with (i + 1 + Z.of_nat j) by lia. now apply I5.
    + intros Hb. assert (Hni : ~ In i (keys book)) by (intros H; apply Hb in H; lia).
      rewrite I6.
      * rewrite keys_set_notin by exact Hni. rewrite <- app_assoc. f_equal. cbn [length seq map app].
        f_equal; [lia|]. rewrite <- seq_shift, map_map. apply map_ext. intros j. lia.
      * intros x Hx. apply in_keys_set in Hx. destruct Hx as [->|Hx]; [lia|]. apply Hb in Hx. lia.
Qed.

Lemma assign_ids_bk key : forall comps i st book, bk (fst (fst (assign_ids key comps i st book))) = bk st.
Proof.
  induction comps as [|c r IH]; intros i st book; cbn [assign_ids]; [reflexivity|]. rewrite IH.
  generalize st as sb. induction c as [|x c' IHc]; intros sb; cbn [fold_left]; [reflexivity|]. rewrite IHc.
  unfold set_node_attr. destruct (lookup x (nodes (g sb))); reflexivity.
Qed.

Section EnableIds.
Variables (st : state) (ks : list Z) (ctrk clin : list (list Z)) (st' : state).
Hypothesis Hen : enable_features st ks true ctrk clin = Ok tt st'.

(* every available key other than the id keys keeps out of the way *)
Lemma ei_stage2 : let s2 := iou_compute (rp_compute (upd_ft st (register (set_flags (ft st) ks true) ks)) ks) ks in
  st' = trk_compute s2 ks ctrk clin /\ ft s2 = register (set_flags (ft st) ks true) ks /\
  (forall m, has_node s2 m = has_node st m).
Proof.
  cbv zeta. split; [exact (enable_true_unfold _ _ _ _ _ Hen)|]. split; [now rewrite iou_compute_ft, rp_compute_ft|].
  intros m. set (s0 := upd_ft st _). set (s1 := rp_compute s0 ks).
  destruct (iou_compute_frame s1 ks) as (_ & _ & B3 & _).
  transitivity (has_node s1 m); [unfold has_node; now rewrite B3|]. change (has_node st m) with (has_node s0 m).
  assert (H : node_ids s1 = node_ids s0).
  { unfold s1, rp_compute. destruct (seg s0) as [sg|]; [|reflexivity]. destruct (filter _ _) as [|k0 r]; [reflexivity|].
    generalize (map Z.of_nat (seq 0 (length sg))) as l. intros l. generalize s0 as s.
    induction l as [|t l' IH]; intros s; cbn [fold_left]; [reflexivity|]. rewrite IH.
    unfold rp_compute_frame. generalize (labels_of (frame_of sg t)) as ll. intros ll. generalize s as sa.
    induction ll as [|x rr IH2]; intros sa; cbn [fold_left]; [reflexivity|]. rewrite IH2.
    destruct (has_node sa x); [|reflexivity]. apply (set_keys_node_ids sa x (k0 :: r)). }
  destruct (has_node s0 m) eqn:E.
  - apply is_node_haskey. unfold is_node. rewrite H. now apply is_node_haskey.
  - destruct (has_node s1 m) eqn:E'; [|reflexivity]. apply is_node_haskey in E'. unfold is_node in E'. rewrite H in E'.
    apply is_node_haskey in E'. congruence.
Qed.

Theorem enable_ids_trk_thm : In KTrack ks -> comps_disjoint ctrk ->
  trk_act (ft st') = true /\
  (forall j c n, nth_error ctrk j = Some c -> In n c -> is_node st n -> attr st' n KTrack = Some (VZ (1 + Z.of_nat j))) /\
  (forall j c, nth_error ctrk j = Some c -> lookup (1 + Z.of_nat j) (trk_book (bk st')) = Some c) /\
  keys (trk_book (bk st')) = map (fun j => 1 + Z.of_nat j) (seq 0 (length ctrk)) /\
  max_trk (bk st') = Z.of_nat (length ctrk).
Proof.
  intros Hk Hdj. destruct ei_stage2 as (E & F & Hh). cbv zeta in *. set (s2 := iou_compute _ ks) in *.
  assert (Ht : trk_act (ft s2) = true).
  { rewrite F. cbn [register trk_act set_flags]. apply memz_In in Hk. now rewrite Hk. }
  split; [rewrite E, trk_compute_ft; exact Ht|].
  rewrite E. unfold trk_compute. apply memz_In in Hk. rewrite Hk, Ht. cbn [andb].
  destruct (assign_ids_spec KTrack ctrk 1 s2 [] Hdj) as (A1 & A2 & A3 & _ & A5 & A6). cbv zeta in *.
  destruct (assign_ids KTrack ctrk 1 s2 []) as [[s book] mx]. cbn [fst snd] in *.
  set (s3 := upd_bk s _).
  assert (Hfin : forall sf, (sf = s3 \/ exists b m, sf = upd_bk (fst (fst (assign_ids KLin clin 1 s3 []))) 
                   {| trk_book := trk_book (bk (fst (fst (assign_ids KLin clin 1 s3 [])))); lin_book := b;
                      max_trk := max_trk (bk (fst (fst (assign_ids KLin clin 1 s3 [])))); max_lin := m |}) ->
     (forall n, attr sf n KTrack = attr s n KTrack) /\ trk_book (bk sf) = book /\ max_trk (bk sf) = mx).
  { intros sf [->|(b & m & ->)]; [repeat split|].
    pose proof (assign_ids_bk KLin clin 1 s3 []) as Hb.
    split; [|cbn [bk upd_bk trk_book max_trk]; rewrite Hb; split; reflexivity].
    intros n. change (attr (upd_bk ?a ?b) n KTrack) with (attr a n KTrack).
    rewrite assign_ids_other by (left; discriminate). reflexivity. }
  assert (Hsf : exists sf, (if memz KLin ks && lin_act (ft s3)
      then let '(s4, book0, mx0) := assign_ids KLin clin 1 s3 [] in
           upd_bk s4 {| trk_book := trk_book (bk s4); lin_book := book0; max_trk := max_trk (bk s4); max_lin := mx0 |}
      else s3) = sf /\ (forall n, attr sf n KTrack = attr s n KTrack) /\ trk_book (bk sf) = book /\ max_trk (bk sf) = mx).
  { destruct (memz KLin ks && lin_act (ft s3)).
    - specialize (Hfin (upd_bk (fst (fst (assign_ids KLin clin 1 s3 [])))
                   {| trk_book := trk_book (bk (fst (fst (assign_ids KLin clin 1 s3 [])))); lin_book := snd (fst (assign_ids KLin clin 1 s3 []));
                      max_trk := max_trk (bk (fst (fst (assign_ids KLin clin 1 s3 [])))); max_lin := snd (assign_ids KLin clin 1 s3 []) |})).
      destruct (assign_ids KLin clin 1 s3 []) as [[s4 b4] m4]. cbn [fst snd] in Hfin. eexists. split; [reflexivity|].
      apply Hfin. right. eauto.
    - exists s3. split; [reflexivity|]. apply Hfin. now left. }
  destruct Hsf as (sf & -> & S1 & S2 & S3).
  split; [|split; [|split]].
  - intros j c n Hj Hn Hnode. rewrite S1. eapply A3; eauto. rewrite Hh. now apply is_node_haskey.
  - intros j c Hj. rewrite S2. now apply A5.
  - rewrite S2, A6; [reflexivity|intros x []].
  - rewrite S3, A1. lia.
Qed.

Theorem enable_ids_lin_thm : In KLin ks -> comps_disjoint clin ->
  lin_act (ft st') = true /\
  (forall j c n, nth_error clin j = Some c -> In n c -> is_node st n -> attr st' n KLin = Some (VZ (1 + Z.of_nat j))) /\
  (forall j c, nth_error clin j = Some c -> lookup (1 + Z.of_nat j) (lin_book (bk st')) = Some c) /\
  keys (lin_book (bk st')) = map (fun j => 1 + Z.of_nat j) (seq 0 (length clin)) /\
  max_lin (bk st') = Z.of_nat (length clin).
Proof.
  intros Hk Hdj. destruct ei_stage2 as (E & F & Hh). cbv zeta in *. set (s2 := iou_compute _ ks) in *.
  assert (Hl : lin_act (ft s2) = true).
  { rewrite F. cbn [register lin_act set_flags]. apply memz_In in Hk. now rewrite Hk. }
  split; [rewrite E, trk_compute_ft; exact Hl|].
  rewrite E. unfold trk_compute.
  set (s3 := if memz KTrack ks && trk_act (ft s2) then _ else s2).
  assert (H3 : ft s3 = ft s2 /\ forall m, has_node s3 m = has_node s2 m).
  { unfold s3. destruct (memz KTrack ks && trk_act (ft s2)); [|auto].
    pose proof (assign_ids_ft KTrack ctrk 1 s2 []) as H1.
    pose proof (assign_ids_trk_only KTrack (or_introl eq_refl) ctrk 1 s2 []) as (_ & H2 & _).
    destruct (assign_ids KTrack ctrk 1 s2 []) as [[s book] mx]. cbn [fst] in *. split; [exact H1|].
    intros m. unfold has_node. cbn [g upd_bk]. destruct (haskey m (nodes (g s2))) eqn:E2.
    - apply haskey_keys. unfold node_ids in H2. rewrite H2. now apply haskey_keys.
    - destruct (haskey m (nodes (g s))) eqn:E3; [|reflexivity]. apply haskey_keys in E3. unfold node_ids in H2. rewrite H2 in E3.
      apply haskey_keys in E3. congruence. }
  destruct H3 as [F3 Hh3]. apply memz_In in Hk. rewrite Hk, F3, Hl. cbn [andb].
  destruct (assign_ids_spec KLin clin 1 s3 [] Hdj) as (A1 & A2 & A3 & _ & A5 & A6). cbv zeta in *.
  destruct (assign_ids KLin clin 1 s3 []) as [[s book] mx]. cbn [fst snd] in *.
  split; [|split; [|split]].
  - intros j c n Hj Hn Hnode. change (attr (upd_bk ?a ?b) n KLin) with (attr a n KLin). eapply A3; eauto.
    rewrite Hh3, Hh. now apply is_node_haskey.
  - intros j c Hj. cbn [bk upd_bk lin_book]. now apply A5.
  - cbn [bk upd_bk lin_book]. rewrite A6; [reflexivity|intros x []].
  - cbn [bk upd_bk max_lin]. rewrite A1. lia.
Qed.
End EnableIds.

(* ================================================================== *)
(* Summaries quoted by Props/C10.v                                     *)
(* ================================================================== *)
Definition nobody (n : Z) : Prop := False.
Definition noedge (a b : Z) : Prop := False.

Theorem frozen_basic_summary st k : cfg_keys st -> In k (rp_all (ft st)) -> ~ In k (rp_act (ft st)) ->
  (forall n, frz k nobody st (rp_update st n)) /\
  (forall n px added, frz k nobody st (rstate (do_upd_seg st n px added))) /\
  (forall u v a, frz k nobody st (rstate (do_add_edge st u v a))) /\
  (forall u v, frz k nobody st (rstate (do_del_edge st u v))) /\
  (forall s T L, frz k nobody st (rstate (do_upd_track st s T L))) /\
  (forall n new, frz k nobody st (rstate (do_upd_attrs st n new))) /\
  (forall m a px, frz k (eq m) st (rstate (do_add_node st m a px))) /\
  (forall m pxo, frz k (eq m) st (rstate (do_del_node st m pxo))) /\
  (forall b, frz k (basic_nodes b) st (rstate (inv_basic st b))) /\
  (forall a, frz k (action_nodes a) st (rstate (inv_action st a))).
Proof.
  intros C H1 H2. pose proof (disabled_rp_intro st k C H1 H2) as D.
  split; [intros; now apply frozen_rp_update|]. split; [intros; now apply frozen_upd_seg|].
  split; [intros; now apply frozen_add_edge|]. split; [intros; now apply frozen_del_edge|].
  split; [intros; now apply frozen_upd_track|]. split; [intros; now apply frozen_upd_attrs|].
  split; [intros; now apply frozen_add_node|]. split; [intros; now apply frozen_del_node|].
  split; [intros; now apply frozen_inv_basic|]. intros; now apply frozen_inv_action.
Qed.

Theorem frozen_user_summary st k : cfg_keys st -> In k (rp_all (ft st)) -> ~ In k (rp_act (ft st)) ->
  (forall u v top, frz k nobody st (rstate (user_delete_edge st u v top))) /\
  (forall u v force top, frz k nobody st (rstate (user_add_edge st u v force top))) /\
  (forall n pxo top, frz k (eq n) st (rstate (user_delete_node st n pxo top))) /\
  (forall n a px force top, frz k (eq n) st (rstate (user_add_node st n a px force top))) /\
  (forall a b, frz k nobody st (rstate (user_swap st a b))) /\
  (forall n new, frz k nobody st (rstate (user_update_attrs st n new))).
Proof.
  intros C H1 H2. pose proof (disabled_rp_intro st k C H1 H2) as D.
  split; [intros; now apply (frozen_ude' k nobody st st u v top (frozen_refl _ _ _))|].
  split; [intros; now apply (frozen_uae' k nobody st st u v force top (frozen_refl _ _ _))|].
  split; [intros; now apply (frozen_udn' k (eq n) st st n pxo top eq_refl (frozen_refl _ _ _))|].
  split; [intros; now apply (frozen_uan' k (eq n) st st n a px force top eq_refl (frozen_refl _ _ _))|].
  split; intros; [unfold user_swap|unfold user_update_attrs]; apply frozen_top_wrap'; auto.
  - apply frozen_swap_core', frozen_refl.
  - apply frozen_uua_core', frozen_refl.
Qed.

Theorem frozen_step_attr st o k n : cfg_keys st -> In k (rp_all (ft st)) -> ~ In k (rp_act (ft st)) ->
  ~ op_nodes st o n ->
  has_node (fst (step st o)) n = has_node st n /\ attr (fst (step st o)) n k = attr st n k /\
  ~ In k (rp_act (ft (fst (step st o)))).
Proof.
  intros C H1 H2 Hn. destruct (frozen_step k st o (disabled_rp_intro st k C H1 H2)) as (F & A & B).
  split; [now apply A|]. split; [now apply B|now rewrite F].
Qed.

Theorem frozen_paint_cfg k st nv t idx T force :
  cfg_keys st -> In k (rp_all (ft st)) -> ~ In k (rp_act (ft st)) ->
  frz k (paint_nodes st nv t idx) st (rstate (paint st nv t idx T force)).
Proof. intros C H1 H2. apply frozen_paint. now apply disabled_rp_intro. Qed.

(* a whole history of edits: the value survives as long as the node is not added / deleted on the way *)
Theorem frozen_run k n : forall ops st, cfg_keys st -> In k (rp_all (ft st)) -> ~ In k (rp_act (ft st)) ->
  (forall pre o post, ops = pre ++ o :: post -> ~ op_nodes (run st pre) o n) ->
  has_node (run st ops) n = has_node st n /\ attr (run st ops) n k = attr st n k.
Proof.
  induction ops as [|o r IH]; intros st C H1 H2 Hx; [split; reflexivity|].
  change (run st (o :: r)) with (run (fst (step st o)) r).
  destruct (frozen_step_attr st o k n C H1 H2 (Hx [] o r eq_refl)) as (A & B & D).
  pose proof (step_ft st o) as F.
  destruct (IH (fst (step st o))) as [I1 I2].
  - eapply cfg_keys_ft; [exact F|exact C].
  - now rewrite F.
  - exact D.
  - intros pre o' post E. apply (Hx (o :: pre) o' post). now rewrite E.
  - split; congruence.
Qed.

Theorem iou_frozen_summary st : iou_act (ft st) = false ->
  (forall es, iou_update_edges st es = st) /\
  (forall n px added, efrz noedge st (rstate (do_upd_seg st n px added))) /\
  (forall u v a, efrz (fun x y => x = u /\ y = v) st (rstate (do_add_edge st u v a))) /\
  (forall u v, efrz (fun x y => x = u /\ y = v) st (rstate (do_del_edge st u v))) /\
  (forall s T L, efrz noedge st (rstate (do_upd_track st s T L))) /\
  (forall n new, efrz noedge st (rstate (do_upd_attrs st n new))) /\
  (forall m a px, efrz noedge st (rstate (do_add_node st m a px))) /\
  (forall m pxo, efrz (fun x y => x = m \/ y = m) st (rstate (do_del_node st m pxo))).
Proof.
  intros H. split; [intros; now apply iou_disabled_no_update|]. split; [intros; now apply efrozen_upd_seg|].
  split; [intros; now apply efrozen_add_edge|]. split; [intros; now apply efrozen_del_edge|].
  split; [intros; now apply efrozen_upd_track|]. split; [intros; now apply efrozen_upd_attrs|].
  split; [intros; now apply efrozen_add_node|]. intros; now apply efrozen_del_node.
Qed.
