(* C10: feature switching (Model/Toggle.v: enable_features / disable_features and the bulk
   compute paths of the three annotators) over the edit machine of Model/Edit.v.
   Part 1  unknown keys are refused before anything is touched
   Part 2  every manageable key and the time key are refused by UpdateNodeAttrs
   Part 3  the registry invariant W_reg
   Part 4  disabled features are frozen
   Part 5  enabling with recomputation stores the reference values *)
From Coq Require Import ZArith List Bool Lia.
From FT Require Import Base.Dict Model.Edit Model.EditExec Model.Toggle Model.ToggleExec
  Proofs.DictLemmas Proofs.EditInv Proofs.EditSeg Proofs.EditFresh Proofs.EditFrame.
Import ListNotations.
Open Scope Z_scope.

(* ================================================================== *)
(* Part 1 : validation                                                 *)
(* ================================================================== *)
Lemma all_avail_spec st ks :
  forallb (fun k => memz k (available st)) ks = true <-> (forall k, In k ks -> In k (available st)).
Proof.
  rewrite forallb_forall. split; intros H k Hk; [apply memz_In|apply memz_In]; auto.
Qed.

Lemma all_avail_false st ks k : In k ks -> ~ In k (available st) ->
  forallb (fun k => memz k (available st)) ks = false.
Proof.
  intros Hk Hn. destruct (forallb _ ks) eqn:E; [|reflexivity].
  exfalso. apply Hn. now apply (proj1 (all_avail_spec st ks) E).
Qed.

Theorem unknown_key_refused st ks rc ctrk clin k :
  In k ks -> ~ In k (available st) ->
  enable_features st ks rc ctrk clin = Err EKey st /\ disable_features st ks = Err EKey st.
Proof.
  intros Hk Hn. unfold enable_features, disable_features.
  rewrite (all_avail_false st ks k Hk Hn). cbn. split; reflexivity.
Qed.

Theorem known_keys_accepted st ks rc ctrk clin :
  (forall k, In k ks -> In k (available st)) ->
  (exists st', enable_features st ks rc ctrk clin = Ok tt st') /\
  (exists st', disable_features st ks = Ok tt st').
Proof.
  intros H. apply all_avail_spec in H. unfold enable_features, disable_features. rewrite H. cbn [negb].
  split; [destruct rc|]; eexists; reflexivity.
Qed.

(* the converse reading: a call that returns normally was given available keys only *)
Lemma enable_ok_avail st ks rc ctrk clin st' :
  enable_features st ks rc ctrk clin = Ok tt st' -> forall k, In k ks -> In k (available st).
Proof.
  unfold enable_features. destruct (forallb _ ks) eqn:E; cbn [negb]; [|discriminate].
  intros _. now apply all_avail_spec.
Qed.
Lemma disable_ok_avail st ks st' :
  disable_features st ks = Ok tt st' -> forall k, In k ks -> In k (available st).
Proof.
  unfold disable_features. destruct (forallb _ ks) eqn:E; cbn [negb]; [|discriminate].
  intros _. now apply all_avail_spec.
Qed.

(* ================================================================== *)
(* Part 2 : protected keys                                             *)
(* ================================================================== *)
Lemma protected_available st k : In k (protected_keys st) <-> In k (available st) \/ k = KTime.
Proof.
  unfold protected_keys, available. rewrite !in_app_iff. cbn [In]. intuition.
Qed.

Theorem protected_refused st n new k :
  In k (keys new) -> In k (available st) \/ k = KTime ->
  do_upd_attrs st n new = Err EValue st /\ user_update_attrs st n new = Err EValue st.
Proof.
  intros Hk Hp. apply protected_available in Hp.
  assert (E : existsb (fun kv => memz (fst kv) (protected_keys st)) new = true).
  { unfold keys in Hk. apply in_map_iff in Hk. destruct Hk as (kv & <- & Hin).
    apply existsb_exists. exists kv. split; [exact Hin|now apply memz_In]. }
  assert (E1 : do_upd_attrs st n new = Err EValue st) by (unfold do_upd_attrs; now rewrite E).
  split; [exact E1|]. unfold user_update_attrs, user_update_attrs_core. now rewrite E1.
Qed.

(* ================================================================== *)
(* Part 3 : the registry                                               *)
(* ================================================================== *)
Definition active (st : state) (k : Z) : Prop :=
  In k (rp_act (ft st)) \/ (k = KIou /\ iou_act (ft st) = true) \/
  (k = KTrack /\ trk_act (ft st) = true) \/ (k = KLin /\ lin_act (ft st) = true).
Definition in_reg (st : state) (k : Z) : Prop :=
  if is_edge_key k then In k (reg_edge (ft st)) else In k (reg_node (ft st)).
Definition W_reg (st : state) : Prop :=
  forall k, In k (available st) -> (in_reg st k <-> active st k).
Record cfg_keys (st : state) : Prop := {
  ck_nodup : NoDup (rp_all (ft st));
  ck_rp : forall k, In k (rp_all (ft st)) -> In k [KPos; KArea; KEll; KCirc; KPerim];
  ck_act : forall k, In k (rp_act (ft st)) -> In k (rp_all (ft st));
  ck_iou : iou_act (ft st) = true -> iou_avail (ft st) = true
}.

Lemma rp_key_cases k : In k [KPos; KArea; KEll; KCirc; KPerim] ->
  k <> KIou /\ k <> KTrack /\ k <> KLin /\ k <> KTime.
Proof.
  unfold KPos, KArea, KEll, KCirc, KPerim, KIou, KTrack, KLin, KTime. cbn.
  intros [<-|[<-|[<-|[<-|[<-|[]]]]]]; repeat split; discriminate.
Qed.

Lemma cfg_rp_not_special st k : cfg_keys st -> In k (rp_all (ft st)) ->
  k <> KIou /\ k <> KTrack /\ k <> KLin /\ k <> KTime.
Proof. intros C H. apply rp_key_cases. now apply (ck_rp st C). Qed.

(* the four disjoint classes of available keys *)
Lemma available_cases st k : cfg_keys st -> In k (available st) ->
  (In k (rp_all (ft st)) /\ k <> KIou /\ k <> KTrack /\ k <> KLin) \/
  (k = KIou /\ iou_avail (ft st) = true /\ ~ In k (rp_all (ft st))) \/
  (k = KTrack /\ ~ In k (rp_all (ft st))) \/ (k = KLin /\ ~ In k (rp_all (ft st))).
Proof.
  intros C H. unfold available in H. rewrite !in_app_iff in H. destruct H as [H|[H|H]].
  - left. destruct (cfg_rp_not_special st k C H) as (A & B & D & _). auto.
  - right. left. destruct (iou_avail (ft st)); [|destruct H]. destruct H as [<-|[]].
    split; [reflexivity|]. split; [reflexivity|]. intros H. now destruct (cfg_rp_not_special st _ C H) as (A & _).
  - destruct H as [<-|[<-|[]]]; right; right; [left|right]; (split; [reflexivity|]); intros H;
      destruct (cfg_rp_not_special st _ C H) as (A & B & D & _); congruence.
Qed.

(* ---- set_flags ---- *)
Lemma set_flags_rp_act f ks on k :
  In k (rp_act (set_flags f ks on)) <->
  In k (rp_all f) /\ (if memz k ks then on = true else In k (rp_act f)).
Proof.
  cbn [set_flags rp_act]. rewrite filter_In. split; intros [H1 H2]; (split; [exact H1|]).
  - apply memz_In in H1. rewrite H1, andb_true_r in H2. destruct (memz k ks); [exact H2|now apply memz_In].
  - apply memz_In in H1. rewrite H1, andb_true_r. destruct (memz k ks); [exact H2|now apply memz_In].
Qed.

(* ---- register / unregister ---- *)
Lemma reg_add_In l k x : In x (reg_add l k) <-> In x l \/ x = k.
Proof.
  unfold reg_add. destruct (memz k l) eqn:E.
  - apply memz_In in E. split; [auto|intros [H| ->]; assumption].
  - rewrite in_app_iff. cbn. intuition.
Qed.

Lemma register_node_In f ks x :
  In x (reg_node (register f ks)) <-> In x (reg_node f) \/ (In x ks /\ is_edge_key x = false).
Proof.
  cbn [register reg_node]. generalize (reg_node f) as l. induction ks as [|k r IH]; intros l; cbn [fold_left In].
  - intuition.
  - rewrite IH. destruct (is_edge_key k) eqn:E.
    + split; [intros [H|[H1 H2]]; auto|intros [H|[[->|H1] H2]]; [auto|congruence|auto]].
    + rewrite reg_add_In. split.
      * intros [[H| ->]|[H1 H2]]; auto.
      * intros [H|[[->|H1] H2]]; auto.
Qed.

Lemma register_edge_In f ks x :
  In x (reg_edge (register f ks)) <-> In x (reg_edge f) \/ (In x ks /\ is_edge_key x = true).
Proof.
  cbn [register reg_edge]. generalize (reg_edge f) as l. induction ks as [|k r IH]; intros l; cbn [fold_left In].
  - intuition.
  - rewrite IH. destruct (is_edge_key k) eqn:E.
    + rewrite reg_add_In. split.
      * intros [[H| ->]|[H1 H2]]; auto.
      * intros [H|[[->|H1] H2]]; auto.
    + split; [intros [H|[H1 H2]]; auto|intros [H|[[->|H1] H2]]; [auto|congruence|auto]].
Qed.

Lemma unregister_node_In f ks x :
  In x (reg_node (unregister f ks)) <-> In x (reg_node f) /\ ~ In x ks.
Proof.
  cbn [unregister reg_node]. rewrite filter_In. rewrite negb_true_iff, memz_false. tauto.
Qed.
Lemma unregister_edge_In f ks x :
  In x (reg_edge (unregister f ks)) <-> In x (reg_edge f) /\ ~ In x ks.
Proof.
  cbn [unregister reg_edge]. rewrite filter_In. rewrite negb_true_iff, memz_false. tauto.
Qed.

(* ---- the bulk computations leave the flags and the registry alone ---- *)
Lemma fold_ft {X} (f : state -> X -> state) (l : list X) :
  (forall s x, ft (f s x) = ft s) -> forall s, ft (fold_left f l s) = ft s.
Proof. intros Hf. induction l as [|x r IH]; intros s; cbn [fold_left]; [reflexivity|]. now rewrite IH, Hf. Qed.
Lemma fold_seg {X} (f : state -> X -> state) (l : list X) :
  (forall s x, seg (f s x) = seg s) -> forall s, seg (fold_left f l s) = seg s.
Proof. intros Hf. induction l as [|x r IH]; intros s; cbn [fold_left]; [reflexivity|]. now rewrite IH, Hf. Qed.

Lemma rp_compute_frame_ft ks sg st t : ft (rp_compute_frame ks sg st t) = ft st.
Proof.
  unfold rp_compute_frame. apply fold_ft. intros s l. destruct (has_node s l); [|reflexivity].
  apply fold_ft. intros s' k. apply sna_ft.
Qed.
Lemma rp_compute_ft st ks : ft (rp_compute st ks) = ft st.
Proof.
  unfold rp_compute. destruct (seg st) as [sg|]; [|reflexivity].
  destruct (filter _ _) as [|k0 r]; [reflexivity|]. apply fold_ft. intros s t. apply rp_compute_frame_ft.
Qed.
Lemma iou_compute_ft st ks : ft (iou_compute st ks) = ft st.
Proof.
  unfold iou_compute. destruct (seg st) as [sg|]; [|reflexivity].
  destruct (memz KIou ks && iou_act (ft st)); [|reflexivity]. apply fold_ft. intros s e. apply sea_ft.
Qed.
Lemma assign_ids_ft key : forall comps i st book,
  ft (fst (fst (assign_ids key comps i st book))) = ft st.
Proof.
  induction comps as [|c r IH]; intros i st book; cbn [assign_ids]; [reflexivity|].
  rewrite IH. apply fold_ft. intros s n. apply sna_ft.
Qed.
Lemma trk_compute_ft st ks ctrk clin : ft (trk_compute st ks ctrk clin) = ft st.
Proof.
  unfold trk_compute.
  set (s1 := if memz KTrack ks && trk_act (ft st) then _ else st).
  assert (H1 : ft s1 = ft st).
  { unfold s1. destruct (memz KTrack ks && trk_act (ft st)); [|reflexivity].
    pose proof (assign_ids_ft KTrack ctrk 1 st []) as H.
    destruct (assign_ids KTrack ctrk 1 st []) as [[s book] mx]. exact H. }
  destruct (memz KLin ks && lin_act (ft s1)); [|exact H1].
  pose proof (assign_ids_ft KLin clin 1 s1 []) as H.
  destruct (assign_ids KLin clin 1 s1 []) as [[s book] mx]. cbn [fst] in H. cbn [ft upd_bk]. congruence.
Qed.

Lemma enable_ft st ks rc ctrk clin st' : enable_features st ks rc ctrk clin = Ok tt st' ->
  ft st' = register (set_flags (ft st) ks true) ks.
Proof.
  unfold enable_features. destruct (negb _); [discriminate|]. destruct rc; intros H; injection H as <-.
  - now rewrite trk_compute_ft, iou_compute_ft, rp_compute_ft.
  - reflexivity.
Qed.
Lemma disable_ft st ks st' : disable_features st ks = Ok tt st' ->
  ft st' = unregister (set_flags (ft st) ks false) ks.
Proof. unfold disable_features. destruct (negb _); [discriminate|]. intros H; now injection H as <-. Qed.

(* what a switch does to the static part of the configuration: nothing *)
Lemma switch_static f ks on :
  rp_all (set_flags f ks on) = rp_all f /\ iou_avail (set_flags f ks on) = iou_avail f /\
  pos_keys (set_flags f ks on) = pos_keys f /\ reg_node (set_flags f ks on) = reg_node f /\
  reg_edge (set_flags f ks on) = reg_edge f.
Proof. repeat split. Qed.

Lemma cfg_keys_set_flags st st' ks on r :
  ft st' = r (set_flags (ft st) ks on) ->
  rp_all (r (set_flags (ft st) ks on)) = rp_all (ft st) ->
  rp_act (r (set_flags (ft st) ks on)) = rp_act (set_flags (ft st) ks on) ->
  iou_avail (r (set_flags (ft st) ks on)) = iou_avail (ft st) ->
  iou_act (r (set_flags (ft st) ks on)) = iou_act (set_flags (ft st) ks on) ->
  cfg_keys st -> cfg_keys st'.
Proof.
  intros E E1 E2 E3 E4 C. constructor; rewrite E.
  - rewrite E1. apply (ck_nodup st C).
  - rewrite E1. apply (ck_rp st C).
  - intros k. rewrite E1, E2, set_flags_rp_act. tauto.
  - rewrite E3, E4. cbn [set_flags iou_act].
    destruct (memz KIou ks && iou_avail (ft st)) eqn:B.
    + intros _. apply andb_true_iff in B. tauto.
    + apply (ck_iou st C).
Qed.

Theorem enable_registry st ks rc ctrk clin st' :
  cfg_keys st -> W_reg st -> enable_features st ks rc ctrk clin = Ok tt st' ->
  cfg_keys st' /\ W_reg st' /\
  (forall k, In k ks -> in_reg st' k /\ active st' k) /\
  (forall k, ~ In k ks -> (In k (reg_node (ft st')) <-> In k (reg_node (ft st))) /\
                          (In k (reg_edge (ft st')) <-> In k (reg_edge (ft st))) /\
                          (active st' k <-> active st k)).
Proof.
  intros C W H. pose proof (enable_ok_avail _ _ _ _ _ _ H) as Hav. apply enable_ft in H.
  assert (C' : cfg_keys st').
  { eapply (cfg_keys_set_flags st st' ks true (fun f => register f ks)); [exact H|reflexivity..|exact C]. }
  assert (Hin : forall k, In k ks -> in_reg st' k /\ active st' k).
  { intros k Hk. specialize (Hav k Hk). split.
    - unfold in_reg. rewrite H. destruct (is_edge_key k) eqn:E.
      + apply register_edge_In. right. auto.
      + apply register_node_In. right. auto.
    - unfold active. rewrite H. cbn [register rp_act iou_act trk_act lin_act].
      apply memz_In in Hk.
      destruct (available_cases st k C Hav) as [(A & _)|[(-> & A & _)|[(-> & _)|(-> & _)]]].
      + left. apply set_flags_rp_act. rewrite Hk. auto.
      + right. left. split; [reflexivity|]. cbn [set_flags iou_act]. now rewrite Hk, A.
      + right. right. left. split; [reflexivity|]. cbn [set_flags trk_act]. now rewrite Hk.
      + right. right. right. split; [reflexivity|]. cbn [set_flags lin_act]. now rewrite Hk. }
  assert (Hout : forall k, ~ In k ks -> (In k (reg_node (ft st')) <-> In k (reg_node (ft st))) /\
                          (In k (reg_edge (ft st')) <-> In k (reg_edge (ft st))) /\
                          (active st' k <-> active st k)).
  { intros k Hk. rewrite H. split; [|split].
    - rewrite register_node_In. cbn [set_flags reg_node]. tauto.
    - rewrite register_edge_In. cbn [set_flags reg_edge]. tauto.
    - unfold active. rewrite H. cbn [register rp_act iou_act trk_act lin_act].
      rewrite set_flags_rp_act. pose proof Hk as Hm. apply memz_false in Hm. rewrite Hm.
      cbn [set_flags iou_act trk_act lin_act].
      assert (R : In k (rp_all (ft st)) /\ In k (rp_act (ft st)) <-> In k (rp_act (ft st))).
      { split; [tauto|]. intros A. split; [now apply (ck_act st C)|exact A]. }
      rewrite R.
      assert (Q : forall key (b : bool), k = key -> (if memz key ks then true else b) = b).
      { intros key b <-. now rewrite Hm. }
      split; (intros [A|[[A B]|[[A B]|[A B]]]]; [left; exact A|right; left|right; right; left|right; right; right]; (split; [exact A|])).
      + destruct (memz KIou ks) eqn:M; [rewrite <- A, Hm in M; discriminate|exact B].
      + now rewrite (Q KTrack _ A) in B.
      + now rewrite (Q KLin _ A) in B.
      + destruct (memz KIou ks) eqn:M; [rewrite <- A, Hm in M; discriminate|exact B].
      + now rewrite (Q KTrack _ A).
      + now rewrite (Q KLin _ A). }
  split; [exact C'|]. split; [|split; [exact Hin|exact Hout]].
  intros k Hk.
  assert (Hk0 : In k (available st)).
  { unfold available in *. rewrite H in Hk. exact Hk. }
  destruct (in_dec Z.eq_dec k ks) as [Hi|Hn].
  - destruct (Hin k Hi). tauto.
  - destruct (Hout k Hn) as (A & B & D). rewrite D, <- (W k Hk0). unfold in_reg.
    destruct (is_edge_key k); tauto.
Qed.

Theorem disable_registry st ks st' :
  cfg_keys st -> W_reg st -> disable_features st ks = Ok tt st' ->
  cfg_keys st' /\ W_reg st' /\
  (forall k, In k ks -> ~ In k (reg_node (ft st')) /\ ~ In k (reg_edge (ft st')) /\ ~ active st' k) /\
  (forall k, ~ In k ks -> (In k (reg_node (ft st')) <-> In k (reg_node (ft st))) /\
                          (In k (reg_edge (ft st')) <-> In k (reg_edge (ft st))) /\
                          (active st' k <-> active st k)).
Proof.
  intros C W H. pose proof (disable_ok_avail _ _ _ H) as Hav. apply disable_ft in H.
  assert (C' : cfg_keys st').
  { eapply (cfg_keys_set_flags st st' ks false (fun f => unregister f ks)); [exact H|reflexivity..|exact C]. }
  assert (Hin : forall k, In k ks -> ~ In k (reg_node (ft st')) /\ ~ In k (reg_edge (ft st')) /\ ~ active st' k).
  { intros k Hk. specialize (Hav k Hk). rewrite H. split; [|split].
    - rewrite unregister_node_In. tauto.
    - rewrite unregister_edge_In. tauto.
    - unfold active. rewrite H. cbn [unregister rp_act iou_act trk_act lin_act].
      rewrite set_flags_rp_act. pose proof Hk as Hm. apply memz_In in Hm. rewrite Hm.
      cbn [set_flags iou_act trk_act lin_act].
      intros [[_ A]|[[A B]|[[A B]|[A B]]]]; [discriminate|..].
      + subst k. rewrite Hm in B.
        destruct (available_cases st KIou C Hav) as [(_ & A & _)|[(_ & A & _)|[(A & _)|(A & _)]]];
          try (now apply A); try discriminate A.
        rewrite A in B. discriminate.
      + subst k. rewrite Hm in B. discriminate.
      + subst k. rewrite Hm in B. discriminate. }
  assert (Hout : forall k, ~ In k ks -> (In k (reg_node (ft st')) <-> In k (reg_node (ft st))) /\
                          (In k (reg_edge (ft st')) <-> In k (reg_edge (ft st))) /\
                          (active st' k <-> active st k)).
  { intros k Hk. rewrite H. split; [|split].
    - rewrite unregister_node_In. cbn [set_flags reg_node]. tauto.
    - rewrite unregister_edge_In. cbn [set_flags reg_edge]. tauto.
    - unfold active. rewrite H. cbn [unregister rp_act iou_act trk_act lin_act].
      rewrite set_flags_rp_act. pose proof Hk as Hm. apply memz_false in Hm. rewrite Hm.
      cbn [set_flags iou_act trk_act lin_act].
      assert (R : In k (rp_all (ft st)) /\ In k (rp_act (ft st)) <-> In k (rp_act (ft st))).
      { split; [tauto|]. intros A. split; [now apply (ck_act st C)|exact A]. }
      rewrite R.
      assert (Q : forall key (b : bool), k = key -> (if memz key ks then false else b) = b).
      { intros key b <-. now rewrite Hm. }
      split; (intros [A|[[A B]|[[A B]|[A B]]]]; [left; exact A|right; left|right; right; left|right; right; right]; (split; [exact A|])).
      + destruct (memz KIou ks) eqn:M; [rewrite <- A, Hm in M; discriminate|exact B].
      + now rewrite (Q KTrack _ A) in B.
      + now rewrite (Q KLin _ A) in B.
      + destruct (memz KIou ks) eqn:M; [rewrite <- A, Hm in M; discriminate|exact B].
      + now rewrite (Q KTrack _ A).
      + now rewrite (Q KLin _ A). }
  split; [exact C'|]. split; [|split; [exact Hin|exact Hout]].
  intros k Hk.
  assert (Hk0 : In k (available st)).
  { unfold available in *. rewrite H in Hk. exact Hk. }
  destruct (in_dec Z.eq_dec k ks) as [Hi|Hn].
  - destruct (Hin k Hi) as (A & B & D). unfold in_reg. destruct (is_edge_key k); tauto.
  - destruct (Hout k Hn) as (A & B & D). rewrite D, <- (W k Hk0). unfold in_reg.
    destruct (is_edge_key k); tauto.
Qed.

(* ---- no edit operation touches the flags or the registry ---- *)
Lemma aux_ft s s' : aux_eq s s' -> ft s' = ft s.
Proof. intros (_ & _ & _ & _ & H). exact H. Qed.

Lemma top_wrap_ft st top p (r : res action) : ft (rstate r) = ft st -> ft (rstate (top_wrap top p r)) = ft st.
Proof.
  intros H. destruct r as [a s|e s]; cbn [rstate top_wrap] in *; [|exact H]. destruct top; [|exact H].
  destruct (finish_top_spec s a p) as (_ & _ & _ & _ & _ & F & _). congruence.
Qed.

Lemma user_update_seg_ft st nv groups T force : ft (rstate (user_update_seg st nv groups T force)) = ft st.
Proof.
  unfold user_update_seg. pose proof (aux_ft _ _ (aux_user_update_seg_core st nv groups T force)) as H.
  destruct (user_update_seg_core st nv groups T force) as [[a p] s|e s]; cbn [rstate] in *; [|exact H].
  destruct (finish_top_spec s a p) as (_ & _ & _ & _ & _ & F & _). congruence.
Qed.

Lemma paint_ft st nv t idx T force : ft (rstate (paint st nv t idx T force)) = ft st.
Proof.
  unfold paint. destruct (seg st) as [sg|]; [|apply user_update_seg_ft].
  destruct (negb (frame_ok sg t)); [reflexivity|]. cbv zeta.
  set (painted := upd_seg st _). set (gs := paint_groups sg t idx nv).
  pose proof (user_update_seg_ft painted nv gs T force) as H.
  destruct (user_update_seg painted nv gs T force) as [a s|e s]; cbn in *; [exact H|].
  destruct (seg s); exact H.
Qed.

Theorem step_ft st o : ft (fst (step st o)) = ft st.
Proof.
  destruct o; cbn [step].
  - unfold user_add_edge. pose proof (top_wrap_ft st true None _ (aux_ft _ _ (aux_user_add_edge_core st u v force))) as H.
    destruct (top_wrap _ _ _); exact H.
  - unfold user_delete_edge. pose proof (top_wrap_ft st true None _ (aux_ft _ _ (aux_user_delete_edge_core st u v))) as H.
    destruct (top_wrap _ _ _); exact H.
  - unfold user_add_node. pose proof (top_wrap_ft st true (Some n) _ (aux_ft _ _ (aux_user_add_node_core st n a px force))) as H.
    destruct (top_wrap _ _ _); exact H.
  - unfold user_delete_node. pose proof (top_wrap_ft st true None _ (aux_ft _ _ (aux_user_delete_node_core st n None))) as H.
    destruct (top_wrap _ _ _); exact H.
  - unfold user_swap. pose proof (top_wrap_ft st true None _ (aux_ft _ _ (aux_user_swap_core st a b))) as H.
    destruct (top_wrap _ _ _); exact H.
  - unfold user_update_attrs. pose proof (top_wrap_ft st true None _ (aux_ft _ _ (aux_user_update_attrs_core st n a))) as H.
    destruct (top_wrap _ _ _); exact H.
  - pose proof (paint_ft st new_value t idx T force) as H. destruct (paint _ _ _ _ _ _); exact H.
  - unfold undo. cbv zeta. destruct (_ <=? _)%nat; [reflexivity|].
    destruct (nth_error _ _) as [a|]; [|reflexivity].
    pose proof (aux_ft _ _ (aux_inv_action st a)) as H. destruct (inv_action st a); cbn in *; exact H.
  - unfold redo. destruct (rev (redo_stack st)) as [|b r']; [reflexivity|].
    pose proof (aux_ft _ _ (aux_inv_action (upd_hist st (undo_stack st) (rev r')) b)) as H.
    destruct (inv_action _ b); cbn in *; exact H.
  - pose proof (aux_ft _ _ (aux_track_neighbors st T t)) as H.
    destruct (track_neighbors st T t) as [s [p c]]. exact H.
  - reflexivity.
  - pose proof (get_new_node_ids_frame st n) as H. destruct (get_new_node_ids st n) as [s ids]. cbn. apply H.
  - reflexivity.
Qed.

Lemma cfg_keys_ft s s' : ft s' = ft s -> cfg_keys s -> cfg_keys s'.
Proof. intros E C. constructor; rewrite E; apply C. Qed.
Lemma W_reg_ft s s' : ft s' = ft s -> W_reg s -> W_reg s'.
Proof. intros E W k. unfold available, in_reg, active. rewrite E. apply W. Qed.

Theorem registry_step2 st o :
  cfg_keys st -> W_reg st -> cfg_keys (fst (step2 st o)) /\ W_reg (fst (step2 st o)).
Proof.
  intros C W. destruct o as [o|ks rc ctrk clin|ks]; cbn [step2].
  - pose proof (step_ft st o) as E. split; [eapply cfg_keys_ft|eapply W_reg_ft]; eauto.
  - destruct (enable_features st ks rc ctrk clin) as [[] s|e s] eqn:E; cbn [fin fst].
    + destruct (enable_registry _ _ _ _ _ _ C W E) as (A & B & _). auto.
    + unfold enable_features in E. destruct (negb _); [injection E as _ <-; auto|destruct rc; discriminate].
  - destruct (disable_features st ks) as [[] s|e s] eqn:E; cbn [fin fst].
    + destruct (disable_registry _ _ _ C W E) as (A & B & _). auto.
    + unfold disable_features in E. destruct (negb _); [injection E as _ <-; auto|discriminate].
Qed.

Theorem registry_run2 ops : forall st,
  cfg_keys st -> W_reg st ->
  let st' := fold_left (fun s o => fst (step2 s o)) ops st in cfg_keys st' /\ W_reg st'.
Proof.
  induction ops as [|o r IH]; intros st C W; cbn [fold_left]; [auto|].
  destruct (registry_step2 st o C W) as [C' W']. now apply IH.
Qed.
