(* The complete invariant WF (Proofs/EditInv.v) is preserved by the node-level user actions
   UserDeleteNode and UserAddNode (cores and top-level calls, accepted and refused), and hence by
   every run of the executable step function over the fragment
     edge_fragment + ODelNode + OAddNode
   of the API (no bound on the length of the run).

   The six graph-and-id conjuncts come from Proofs/EditUDN.v (GWF) and Proofs/EditUAN.v
   (user_add_node_keeps_all); what is new here is W_seg and W_fresh:
     - both composites are "edge steps" (EditWFEdge.estep) around ONE node-level basic action:
         UserDeleteNode = [edge / track sub-actions] ; DeleteNode
         UserAddNode    = [get_track_neighbors ; UserDeleteEdge* ; DeleteEdge?] ; AddNode ; [AddEdge? ; AddEdge?]
     - the edge steps keep W_seg / W_fresh (EditWFEdge.estep_W_seg, estep_W_fresh),
     - DeleteNode / AddNode keep them by the basic-action lemmas of Proofs/EditSeg.v, EditFresh.v.
   No axioms are used. *)
From Coq Require Import ZArith List Bool Lia Permutation.
From FT Require Import Base.Dict Model.Edit Model.EditExec Proofs.DictLemmas Proofs.EditInv Proofs.EditGraph
  Proofs.EditWalk Proofs.EditBasic Proofs.EditUserEdge Proofs.EditUserEdgeCor.
From FT Require Proofs.BookLemmas Proofs.EditBook Proofs.EditTrk Proofs.EditLin Proofs.EditFrame Proofs.EditInverse
  Proofs.EditNodeBasic Proofs.EditUDN Proofs.EditUAN.
From FT Require Import Proofs.EditSeg Proofs.EditFresh Proofs.EditWFEdge.
Import ListNotations.
Open Scope Z_scope.

(* ================================================================== *)
(* 0. the configuration hypothesis and small facts                      *)
(* ================================================================== *)
Notation rp_disjoint := EditBook.rp_disjoint.

Lemma rp_disjoint_ft s s' : ft s' = ft s -> rp_disjoint s -> rp_disjoint s'.
Proof. intros E H. unfold EditBook.rp_disjoint. now rewrite E. Qed.

Lemma rp_disjoint_time st : rp_disjoint st -> ~ In KTime (rp_act (ft st)).
Proof. intros H. apply H. left. reflexivity. Qed.

Lemma estep_ft s s' : estep s s' -> ft s' = ft s.
Proof. intros (_ & E & _). exact E. Qed.
Lemma estep_seg s s' : estep s s' -> seg s' = seg s.
Proof. intros (E & _). exact E. Qed.
Lemma estep_is_node s s' m : estep s s' -> (is_node s' m <-> is_node s m).
Proof. intros (_ & _ & N & _). apply (nodes_keep_is_node _ _ _ m N). Qed.

(* W_fresh across an edge step, from the configuration hypothesis instead of W_dict *)
Lemma estep_W_fresh_rpd s s' : estep s s' -> rp_disjoint s -> W_fresh s -> W_fresh s'.
Proof.
  intros (Es & Ef & N & Hio) Hrp HW. apply W_fresh_split in HW. destruct HW as [Hr Hi].
  apply W_fresh_split. split; [|now apply Hio].
  unfold rp_fresh in *. rewrite Es, Ef. destruct (seg s) as [sg|]; [|exact I].
  intros n k Hn Hk. apply (nodes_keep_is_node _ _ _ n N) in Hn.
  assert (K1 : k <> KTrack) by (intros ->; apply (Hrp KTrack); [right; left; reflexivity|exact Hk]).
  assert (K2 : k <> KLin) by (intros ->; apply (Hrp KLin); [right; right; reflexivity|exact Hk]).
  rewrite (proj2 N n k) by (intros [?|?]; contradiction).
  rewrite (nodes_keep_time _ _ _ n KTime_not_trk N). now apply Hr.
Qed.

Lemma estep_track_neighbors s T t : estep s (fst (track_neighbors s T t)).
Proof.
  pose proof (EditUDN.track_neighbors_state s T t) as F. cbv zeta in F. destruct F as (Eg & Es & Ef & _).
  now apply estep_core.
Qed.

(* ================================================================== *)
(* 1. UserDeleteNode                                                    *)
(* ================================================================== *)
Lemma estep_udn_preds n : forall ps s acc, estep s (rstate (udn_preds n ps s acc)).
Proof.
  induction ps as [|p r IH]; intros s acc; cbn [udn_preds]; [es_step|]. cbv zeta.
  es_bind.
  - destruct (length (successors s p) =? 2)%nat; [|es_step].
    destruct (remove1 n (successors s p)); [es_step|]. destruct (zattr s p KTrack); [|es_step].
    es_bind; [es_step|intros; es_step].
  - intros acc1 s1 _. es_bind; [es_step|]. intros b s2 _. apply IH.
Qed.

Lemma estep_udn_succs n : forall cs s acc, estep s (rstate (udn_succs n cs s acc)).
Proof.
  induction cs as [|c r IH]; intros s acc; cbn [udn_succs]; [es_step|].
  es_bind; [es_step|]. intros b s1 _. apply IH.
Qed.

Lemma estep_udn_orphans : forall os s acc, estep s (rstate (udn_orphans os s acc)).
Proof.
  induction os as [|o r IH]; intros s acc; cbn [udn_orphans]; [es_step|].
  destruct (zattr s o KTrack); [|es_step]. es_bind; [es_step|]. intros b s1 _. apply IH.
Qed.

(* everything UserDeleteNode does before DeleteNode is an edge step *)
Lemma estep_udn_prefix st n : estep st (rstate (EditUDN.udn_prefix st n)).
Proof.
  unfold EditUDN.udn_prefix. cbv zeta.
  es_bind; [apply estep_udn_preds|]. intros acts1 s1 _.
  es_bind; [apply estep_udn_succs|]. intros acts2 s2 _.
  es_bind.
  - destruct (zattr s2 n KTrack) as [T|]; [|es_step].
    pose proof (estep_track_neighbors s2 T (time_of s2 n)) as E3.
    destruct (track_neighbors s2 T (time_of s2 n)) as [s3 [p c]]. cbn [fst] in E3.
    destruct p as [p|]; [destruct c as [c|]|]; try exact E3.
    eapply estep_trans; [exact E3|]. es_bind; [es_step|intros; es_step].
  - intros [acts3 orphans] s3 _. apply estep_udn_orphans.
Qed.

(* the two new conjuncts across DeleteNode of the node's own mask *)
Lemma del_node_own_seg_fresh s n b s' : W_dict s -> W_seg s -> W_fresh s ->
  do_del_node s n None = Ok b s' -> W_seg s' /\ W_fresh s'.
Proof.
  intros Hd Ws Wf H. split; [exact (W_seg_del_node s n b s' H Ws)|].
  apply W_fresh_split in Wf. destruct Wf as [Hr Hi]. apply W_fresh_split.
  destruct (fresh_del_node_own s n b s' H Ws) as [P1 P2].
  split; [now apply P1|apply P2; [now apply W_dict_edges_sane|exact Hi]].
Qed.

(* passing exactly the pixels DeleteNode would compute itself gives the same state *)
Lemma del_node_own_px s n p b s' : get_pixels s n = Some p ->
  do_del_node s n (Some p) = Ok b s' -> exists b', do_del_node s n None = Ok b' s'.
Proof.
  intros E H. unfold do_del_node in *. rewrite E. destruct (lookup n (nodes (g s))) as [d|]; [|discriminate].
  cbv zeta in *. destruct (set_pixels s p 0) as [u s1|e s1]; cbn [bind] in *; [|discriminate].
  destruct (negb (trk_act (ft (upd_g s1 _)))); injection H as _ <-; eauto.
Qed.

(* the pixels a caller may pass: none (the public call), or exactly the mask of the node *)
Definition udn_px_own (st : state) (n : Z) (pxo : option pixels) : Prop := pxo = None \/ pxo = get_pixels st n.

Theorem udn_core_WF st n pxo a st' : WF st -> udn_px_own st n pxo ->
  user_delete_node_core st n pxo = Ok a st' -> WF st'.
Proof.
  intros W Hpx H. pose proof (EditUDN.udn_core_GWF st n pxo a st' (EditUDN.WF_GWF st W) H) as [C' D' F' T' L' B'].
  destruct W as [C D F T L B S R].
  destruct (EditUDN.udn_core_ok_unfold st n pxo a st' H) as (_ & Nn & acts & s4 & b & H4 & H5).
  pose proof (estep_ok _ _ _ _ (estep_udn_prefix st n) H4) as E4.
  destruct (EditUDN.udn_prefix_spec st n D F T B Nn) as (acts' & s4' & H4' & Hd4 & _ & G4 & _).
  rewrite H4 in H4'. injection H4' as _ <-.
  pose proof (estep_W_seg st s4 E4 S) as S4. pose proof (estep_W_fresh st s4 E4 D R) as R4.
  assert (Hnone : exists b', do_del_node s4 n None = Ok b' st').
  { destruct Hpx as [->| ->]; [eauto|].
    assert (Egp : get_pixels st n = get_pixels s4 n).
    { unfold get_pixels. rewrite (estep_seg _ _ E4). destruct (seg st); [|reflexivity]. now rewrite (gstep_time _ _ n G4). }
    rewrite Egp in H5. destruct (get_pixels s4 n) as [p|] eqn:Ep; [eapply del_node_own_px; eauto|eauto]. }
  destruct Hnone as (b' & H5').
  destruct (del_node_own_seg_fresh s4 n b' st' Hd4 S4 R4 H5') as [S' R'].
  constructor; assumption.
Qed.

(* Deliverable 1 *)
Theorem udn_WF_px st n pxo top a st' : WF st -> udn_px_own st n pxo ->
  user_delete_node st n pxo top = Ok a st' -> WF st'.
Proof.
  intros W Hpx H. unfold user_delete_node in H. apply top_wrap_WF in H. destruct H as (s & H & K).
  apply K. eapply udn_core_WF; eauto.
Qed.

Theorem udn_WF st n top a st' : WF st -> user_delete_node st n None top = Ok a st' -> WF st'.
Proof. intros W. apply udn_WF_px; [exact W|now left]. Qed.

(* a refused deletion returns the state it was given *)
Theorem udn_refused_WF st n pxo top e st' : WF st -> user_delete_node st n pxo top = Err e st' -> st' = st /\ WF st'.
Proof.
  intros W H.
  assert (st' = st) as ->; [|auto].
  exact (EditUDN.udn_top_refused_unchanged_wseg st n pxo top e st' (w_dict _ W) (w_forest _ W) (w_trk _ W) (w_book _ W) (w_seg _ W) H).
Qed.

Corollary udn_call_WF st n top : WF st -> WF (rstate (user_delete_node st n None top)).
Proof.
  intros W. destruct (user_delete_node st n None top) as [a s|e s] eqn:E; cbn [rstate].
  - eapply udn_WF; eauto.
  - now apply (udn_refused_WF st n None top e s).
Qed.

(* ================================================================== *)
(* 2. UserAddNode: W_seg and W_fresh                                    *)
(* ================================================================== *)
Lemma estep_uan_cut : forall es s acc, estep s (rstate (uan_cut es s acc)).
Proof.
  induction es as [|e r IH]; intros s acc; cbn [uan_cut]; [es_step|].
  es_bind; [apply estep_ude|]. intros x s1 _. apply IH.
Qed.

Lemma estep_uan_skip s pred succ acts : estep s (rstate (EditUAN.uan_skip s pred succ acts)).
Proof.
  unfold EditUAN.uan_skip. destruct pred as [p|]; [destruct succ as [c|]|]; try es_step.
  es_bind; [es_step|intros; es_step].
Qed.

Lemma uan_skip_W_dict s pred succ acts r s' : EditUAN.uan_skip s pred succ acts = Ok r s' -> W_dict s -> W_dict s'.
Proof.
  unfold EditUAN.uan_skip. intros H Hd. destruct pred as [p|]; [destruct succ as [c|]|]; try (injection H as _ <-; exact Hd).
  ok_step H b s1 H1. injection H as _ <-. exact (EditBook.del_edge_W_dict s p c b s1 H1 Hd).
Qed.

Lemma estep_uan_link_pred s n pred b acts : estep s (rstate (EditUAN.uan_link_pred s n pred b acts)).
Proof. unfold EditUAN.uan_link_pred. destruct pred as [p|]; [|es_step]. es_bind; [es_step|intros; es_step]. Qed.

Lemma estep_uan_link_succ s n succ acts : estep s (rstate (EditUAN.uan_link_succ s n succ acts)).
Proof. unfold EditUAN.uan_link_succ. destruct succ as [c|]; [|es_step]. es_bind; [es_step|intros; es_step]. Qed.

Lemma add_node_ft st n a px b st' : do_add_node st n a px = Ok b st' -> ft st' = ft st.
Proof.
  intros H. apply do_add_node_ok in H. destruct H as (st1 & Hsp & _ & _ & Hft).
  rewrite Hft, (proj2 (add_node_core_seg st1 n a)).
  destruct px as [p|]; [|now injection Hsp as <-].
  apply set_pixels_ok in Hsp. destruct Hsp as (sg & _ & _ & ->). reflexivity.
Qed.

(* The documented precondition on the pixels of UserAddNode, on a state with a segmentation:
   the caller passes the pixels of the new label; they lie in the frame of the node's time, at least one
   of them inside the frame, all of them currently background; and the label is not the background value.
   Without a segmentation nothing is asked (W_seg and W_fresh are trivial there). *)
Definition uan_px_pre (st : state) (n : Z) (a : attrs) (px : option pixels) : Prop :=
  match seg st with
  | None => True
  | Some sg =>
    n <> 0 /\
    exists idx, px = Some (EditUAN.uan_time a, idx) /\ hits sg (EditUAN.uan_time a) idx /\
      (forall i, (i < length (frame_of sg (EditUAN.uan_time a)))%nat -> In (Z.of_nat i) idx ->
                 label_at sg (EditUAN.uan_time a) i = 0)
  end.

Lemma W_seg_fresh_noseg s : seg s = None -> W_seg s /\ W_fresh s.
Proof. intros E. unfold W_seg, W_fresh. rewrite E. auto. Qed.

Theorem uan_core_seg_fresh st n a px force act st' :
  WF st -> rp_disjoint st -> EditUAN.attrs_ok a -> uan_px_pre st n a px ->
  user_add_node_core st n a px force = Ok act st' -> W_seg st' /\ W_fresh st'.
Proof.
  intros [C Hd Hf Ht Hl Wb S R] Hrp Ao Hpre H.
  pose proof (proj1 (EditUAN.uan_core_ok_iff st n a px force Hd Hf Ht Wb Hrp Ao) (ex_intro _ act (ex_intro _ st' H))) as Rf.
  destruct (seg st) as [sg|] eqn:Hs.
  2:{ (* no segmentation: none afterwards *)
    destruct (EditUAN.uan_core_spec st n a px force Hd Hf Ht Wb Hrp Ao Rf) as (act0 & s0 & H0 & Rest). cbv zeta in Rest.
    rewrite H in H0. injection H0 as _ <-.
    destruct Rest as (_ & _ & _ & _ & _ & _ & _ & _ & _ & _ & Sg & _).
    apply W_seg_fresh_noseg. rewrite Sg. now apply EditNodeBasic.seg_after_none. }
  unfold uan_px_pre in Hpre. rewrite Hs in Hpre. destruct Hpre as (Hn0 & idx & -> & Hhit & Hbg).
  destruct (EditUAN.uan_after_cuts st n a _ force Hd Hf Ht Wb Rf)
    as (acts & s2 & Hcut & Hc & Hd2 & Hf2 & G & Hn2 & _ & HP & HS & _ & _ & _ & Hkt & Hkk & _). cbv zeta in *.
  set (t := EditUAN.uan_time a) in *. set (pred := EditUAN.uan_pred st a) in *. set (succ := EditUAN.uan_succ st a) in *.
  (* the attributes AddNode receives *)
  destruct (EditUAN.uan_attrs_facts st a Ao Hkt Hkk) as (A0 & _ & And & Alin & _ & _).
  destruct (EditUAN.uan_lin_attrs_facts s2 (EditUAN.uan_attrs st a) pred succ Hd2 And) as (L & _ & Lnd & Loth & _).
  { rewrite Alin. apply (EditUAN.ao_lin _ Ao). }
  { intros p Hp. apply (HP p Hp). }
  { intros c Hc'. apply (HS c Hc'). }
  cbv zeta in *. set (a2 := EditUAN.uan_lin_attrs s2 (EditUAN.uan_attrs st a) pred succ) in *.
  assert (B0 : lookup KTime a2 = Some (VZ t)).
  { rewrite Loth; [exact A0|]. unfold KTime, KLin. lia. }
  (* up to AddNode: an edge step *)
  assert (E1 : estep st (EditUAN.uan_sorted st a)) by apply estep_track_neighbors.
  pose proof (estep_ok _ _ _ _ (estep_uan_cut _ _ _) Hcut) as E2.
  rewrite Hc in H. unfold EditUAN.uan_splice in H.
  ok_step H r1 s3 H1. ok_step H b s4 H2. ok_step H r3 s5 H3. ok_step H r4 s6 H4. injection H as _ <-.
  pose proof (estep_ok _ _ _ _ (estep_uan_skip _ _ _ _) H1) as E3.
  pose proof (estep_trans _ _ _ (estep_trans _ _ _ E1 E2) E3) as E03.
  assert (S3 : W_seg s3) by (apply (estep_W_seg st s3 E03); exact S).
  assert (R3 : W_fresh s3) by (apply (estep_W_fresh st s3 E03 Hd); exact R).
  assert (Hs3 : seg s3 = Some sg) by (now rewrite (estep_seg _ _ E03)).
  assert (Hrp3 : rp_disjoint s3) by (apply (rp_disjoint_ft st); [apply (estep_ft _ _ E03)|exact Hrp]).
  assert (Hn3 : ~ is_node s3 n) by (rewrite (estep_is_node _ _ n E3); exact Hn2).
  assert (Hd3 : W_dict s3) by (eapply uan_skip_W_dict; eauto).
  (* AddNode *)
  assert (S4 : W_seg s4).
  { apply (W_seg_add_node s3 n a2 t idx b s4 sg H2 Hs3 S3 Hn3 Hn0 Lnd B0 (rp_disjoint_time _ Hrp3) Hhit Hbg). }
  assert (R4 : W_fresh s4).
  { apply W_fresh_split in R3. destruct R3 as [Rr Ri]. apply W_fresh_split.
    destruct (fresh_add_node s3 n a2 t idx b s4 sg H2 Hs3 Hn3 Hn0 Lnd B0 (rp_disjoint_time _ Hrp3) Hhit) as [P1 P2].
    - now apply W_seg_nodes_sane.
    - intros i Hi Hin. left. now apply Hbg.
    - split; [now apply P1|apply P2; [now apply W_dict_edges_sane|exact Ri]]. }
  assert (Hrp4 : rp_disjoint s4) by (apply (rp_disjoint_ft s3); [eapply add_node_ft; eauto|exact Hrp3]).
  (* the two new edges: an edge step *)
  pose proof (estep_ok _ _ _ _ (estep_uan_link_pred _ _ _ _ _) H3) as E5.
  pose proof (estep_ok _ _ _ _ (estep_uan_link_succ _ _ _ _) H4) as E6.
  pose proof (estep_trans _ _ _ E5 E6) as E46.
  split; [apply (estep_W_seg s4 s6 E46 S4)|apply (estep_W_fresh_rpd s4 s6 E46 Hrp4 R4)].
Qed.

(* ================================================================== *)
(* 3. UserAddNode keeps WF                                              *)
(* ================================================================== *)
Theorem uan_core_WF st n a px force act st' :
  WF st -> rp_disjoint st -> EditUAN.attrs_ok a -> haskey KLin a = false -> uan_px_pre st n a px ->
  user_add_node_core st n a px force = Ok act st' -> WF st'.
Proof.
  intros W Hrp Ao Hnl Hpre H.
  destruct (EditUAN.uan_core_keeps_ids st n a px force act st' (WF_LWF st W) (w_trk _ W) Hrp Ao Hnl H) as [LW' T'].
  destruct (uan_core_seg_fresh st n a px force act st' W Hrp Ao Hpre H) as [S' R'].
  now apply WF_intro.
Qed.

(* Deliverable 2 *)
Theorem uan_WF st n a px force top act st' :
  WF st -> rp_disjoint st -> EditUAN.attrs_ok a -> haskey KLin a = false -> uan_px_pre st n a px ->
  user_add_node st n a px force top = Ok act st' -> WF st'.
Proof.
  intros W Hrp Ao Hnl Hpre H. unfold user_add_node in H. apply top_wrap_WF in H. destruct H as (s & H & K).
  apply K. eapply uan_core_WF; eauto.
Qed.

(* ---- refusals: the state is the given one up to the order inside the entries of the track lookup ---- *)
Lemma bok_perm_all (P : Z -> Prop) (b b' : dict (list Z)) idof mx :
  keys b' = keys b ->
  (forall T l, lookup T b = Some l -> exists l', lookup T b' = Some l' /\ Permutation l l') ->
  BookLemmas.bok P b idof mx -> BookLemmas.bok P b' idof mx.
Proof.
  intros Ek Hp (B1 & B2 & B3). split; [now rewrite Ek|]. split.
  - intros T l' Hl'.
    assert (Hin : In T (keys b)) by (rewrite <- Ek; eapply lookup_Some_keys; eauto).
    destruct (lookup T b) as [l|] eqn:El; [|apply lookup_None_keys in El; contradiction].
    destruct (Hp T l El) as (l'' & El'' & Pm). rewrite Hl' in El''. injection El'' as <-.
    destruct (B2 T l El) as (N1 & N2 & N3). split; [|split].
    + intros ->. apply Permutation_sym, Permutation_nil in Pm. contradiction.
    + eapply Permutation_NoDup; eauto.
    + intros m. rewrite <- N3. split; apply Permutation_in; [now apply Permutation_sym|exact Pm].
  - intros m T Hm Hi. destruct (B3 m T Hm Hi) as [Hk Hmx]. split; [|exact Hmx].
    apply haskey_keys. rewrite Ek. now apply haskey_keys.
Qed.

(* WF does not see the order inside a lookup entry, nor history, log, counter *)
Lemma WF_untouched st st' : EditUAN.untouched st st' -> WF st -> WF st'.
Proof.
  intros (Eg & Es & Ef & _ & _ & _ & _ & Elb & Emt & Eml & Ek & Hp) W.
  apply (WF_same_core st st' Eg Es Ef); [|exact W].
  assert (Hn : forall m, is_node st m <-> is_node st' m) by (intros m; unfold is_node, node_ids; now rewrite Eg).
  destruct (w_book _ W) as [Bt Bl]. unfold W_book. rewrite !EditBook.book_ok_bok in *. split.
  - rewrite Emt. apply (bok_perm_all _ (trk_book (bk st))); [exact Ek|exact Hp|].
    eapply EditBook.bok_ext_simple; [exact Hn| |exact Bt]. intros m _. unfold trk, zattr, attr, node_attrs. now rewrite Eg.
  - rewrite Elb, Eml. eapply EditBook.bok_ext_simple; [exact Hn| |exact Bl].
    intros m _. unfold lin, zattr, attr, node_attrs. now rewrite Eg.
Qed.

Theorem uan_refused_WF st n a px force top e st' :
  WF st -> rp_disjoint st -> EditUAN.attrs_ok a ->
  user_add_node st n a px force top = Err e st' -> EditUAN.untouched st st' /\ WF st'.
Proof.
  intros W Hrp Ao H.
  destruct (EditUAN.user_add_node_refused_unchanged st n a px force top e st'
              (w_dict _ W) (w_forest _ W) (w_trk _ W) (w_book _ W) Hrp Ao H) as [_ U].
  split; [exact U|now apply (WF_untouched st)].
Qed.

Corollary uan_call_WF st n a px force top :
  WF st -> rp_disjoint st -> EditUAN.attrs_ok a -> haskey KLin a = false -> uan_px_pre st n a px ->
  WF (rstate (user_add_node st n a px force top)).
Proof.
  intros W Hrp Ao Hnl Hpre. destruct (user_add_node st n a px force top) as [act s|e s] eqn:E; cbn [rstate].
  - eapply uan_WF; eauto.
  - now apply (uan_refused_WF st n a px force top e s).
Qed.

(* ================================================================== *)
(* 4. the configuration is never touched                                *)
(* ================================================================== *)
Lemma ft_top_wrap top p (r : res action) : ft (rstate (top_wrap top p r)) = ft (rstate r).
Proof.
  destruct r as [a s|e s]; cbn [top_wrap rstate]; [|reflexivity]. destruct top; [|reflexivity].
  now destruct (EditFrame.finish_top_spec s a p) as (_ & _ & _ & _ & _ & Ef & _).
Qed.

Lemma udn_ft st n pxo top : ft (rstate (user_delete_node st n pxo top)) = ft st.
Proof.
  unfold user_delete_node. rewrite ft_top_wrap.
  now destruct (EditFrame.aux_user_delete_node_core st n pxo) as (_ & _ & _ & _ & Ef).
Qed.

Lemma uan_ft st n a px force top : ft (rstate (user_add_node st n a px force top)) = ft st.
Proof.
  unfold user_add_node. rewrite ft_top_wrap.
  now destruct (EditFrame.aux_user_add_node_core st n a px force) as (_ & _ & _ & _ & Ef).
Qed.

(* ================================================================== *)
(* 5. the interpreter over the node fragment                            *)
(* ================================================================== *)
Definition node_fragment (o : op) : bool :=
  match o with
  | ODelNode _ | OAddNode _ _ _ _ => true
  | _ => edge_fragment o
  end.

(* the side conditions of UserAddNode (section 2 and Proofs/EditUAN.v); nothing for the other calls *)
Definition op_pre (st : state) (o : op) : Prop :=
  match o with
  | OAddNode n a px _ => EditUAN.attrs_ok a /\ haskey KLin a = false /\ uan_px_pre st n a px
  | _ => True
  end.

Lemma edge_fragment_attr o : edge_fragment o = true -> edge_attr_fragment o = true.
Proof. destruct o; cbn; congruence. Qed.

(* Deliverable 3: no call of the fragment changes the feature configuration (no invariant needed) *)
Theorem step_node_ft st o : node_fragment o = true -> ft (fst (step st o)) = ft st.
Proof.
  intros Hf. destruct o; try (apply step_edge_attr_ft, edge_fragment_attr; exact Hf); try discriminate Hf; cbn [step]; rewrite fst_fin.
  - apply uan_ft.
  - apply udn_ft.
Qed.

Corollary step_node_rp_disjoint st o : node_fragment o = true -> rp_disjoint st -> rp_disjoint (fst (step st o)).
Proof. intros Hf. apply rp_disjoint_ft. now apply step_node_ft. Qed.

(* Deliverable 4 *)
Theorem step_node_WF st o : node_fragment o = true -> op_pre st o -> WF st -> rp_disjoint st ->
  WF (fst (step st o)) /\ rp_disjoint (fst (step st o)).
Proof.
  intros Hf Hpre W Hrp. split; [|now apply step_node_rp_disjoint].
  destruct o; try (apply step_edge_WF; [exact Hf|exact W]); try discriminate Hf; cbn [step]; rewrite fst_fin.
  - destruct Hpre as (Ao & Hnl & Hpx). now apply uan_call_WF.
  - now apply udn_call_WF.
Qed.

Lemma run_app st l1 l2 : run st (l1 ++ l2) = run (run st l1) l2.
Proof. unfold run. apply fold_left_app. Qed.

Theorem run_node_WF : forall ops st, forallb node_fragment ops = true -> WF st -> rp_disjoint st ->
  (forall pre o post, ops = pre ++ o :: post -> op_pre (run st pre) o) ->
  WF (run st ops).
Proof.
  assert (Gen : forall ops st, forallb node_fragment ops = true -> WF st -> rp_disjoint st ->
    (forall pre o post, ops = pre ++ o :: post -> op_pre (run st pre) o) ->
    WF (run st ops) /\ rp_disjoint (run st ops)).
  { induction ops as [|o r IH]; intros st Hf W Hrp Hpre; [split; assumption|].
    cbn [forallb] in Hf. apply andb_true_iff in Hf. destruct Hf as [Ho Hr].
    assert (P0 : op_pre st o) by (apply (Hpre [] o r); reflexivity).
    destruct (step_node_WF st o Ho P0 W Hrp) as [W1 Hrp1].
    change (run st (o :: r)) with (run (fst (step st o)) r).
    apply IH; [exact Hr|exact W1|exact Hrp1|].
    intros pre o' post E. specialize (Hpre (o :: pre) o' post). cbn [app] in Hpre.
    change (run st (o :: pre)) with (run (fst (step st o)) pre) in Hpre. apply Hpre. now rewrite E. }
  intros ops st Hf W Hrp Hpre. exact (proj1 (Gen ops st Hf W Hrp Hpre)).
Qed.

(* the configuration hypothesis along the run *)
Corollary run_node_rp_disjoint ops st : forallb node_fragment ops = true -> rp_disjoint st -> rp_disjoint (run st ops).
Proof.
  revert st. induction ops as [|o r IH]; intros st Hf Hrp; [exact Hrp|].
  cbn [forallb] in Hf. apply andb_true_iff in Hf. destruct Hf as [Ho Hr].
  change (run st (o :: r)) with (run (fst (step st o)) r). apply IH; [exact Hr|now apply step_node_rp_disjoint].
Qed.

(* the pixel condition only matters for the calls that are accepted *)
Corollary uan_call_WF_guarded st n a px force top :
  WF st -> rp_disjoint st -> EditUAN.attrs_ok a -> haskey KLin a = false ->
  (EditUAN.uan_refused st n a px force = None -> uan_px_pre st n a px) ->
  WF (rstate (user_add_node st n a px force top)).
Proof.
  intros W Hrp Ao Hnl Hpre. destruct (user_add_node st n a px force top) as [act s|e s] eqn:E; cbn [rstate].
  - eapply uan_WF; eauto. apply Hpre.
    apply (EditUAN.user_add_node_ok_iff st n a px force top (w_dict _ W) (w_forest _ W) (w_trk _ W) (w_book _ W) Hrp Ao). eauto.
  - now apply (uan_refused_WF st n a px force top e s).
Qed.

(* ================================================================== *)
(* 6. the side conditions, decidably (for concrete runs)                *)
(* ================================================================== *)
Fixpoint nodupb (l : list Z) : bool := match l with [] => true | x :: r => negb (memz x r) && nodupb r end.
Lemma nodupb_NoDup l : nodupb l = true -> NoDup l.
Proof.
  induction l as [|x r IH]; cbn [nodupb]; intros H; [constructor|].
  apply andb_true_iff in H. destruct H as [H1 H2]. constructor; [|now apply IH].
  apply memz_false. now apply negb_true_iff.
Qed.

Definition int_or_absent (k : Z) (a : attrs) : bool :=
  match lookup k a with Some (VZ _) | None => true | _ => false end.
Definition attrs_okb (a : attrs) : bool :=
  nodupb (keys a) && int_or_absent KTime a && int_or_absent KTrack a && int_or_absent KLin a.

Lemma int_or_absent_spec k a : int_or_absent k a = true -> forall v, lookup k a = Some v -> exists z, v = VZ z.
Proof. unfold int_or_absent. intros H v E. rewrite E in H. destruct v; try discriminate H. eauto. Qed.

Lemma attrs_okb_spec a : attrs_okb a = true -> EditUAN.attrs_ok a.
Proof.
  unfold attrs_okb. intros H. apply andb_true_iff in H. destruct H as [H H4]. apply andb_true_iff in H. destruct H as [H H3].
  apply andb_true_iff in H. destruct H as [H1 H2].
  constructor; [now apply nodupb_NoDup|now apply int_or_absent_spec|now apply int_or_absent_spec|now apply int_or_absent_spec].
Qed.

Definition in_frame (sg : list (list Z)) (t p : Z) : bool := (0 <=? p) && (p <? Z.of_nat (length (frame_of sg t))).
Definition uan_px_preb (st : state) (n : Z) (a : attrs) (px : option pixels) : bool :=
  match seg st with
  | None => true
  | Some sg =>
    negb (n =? 0) &&
    match px with
    | Some (t, idx) =>
        (t =? EditUAN.uan_time a) && existsb (in_frame sg t) idx &&
        forallb (fun p => if in_frame sg t p then label_at sg t (Z.to_nat p) =? 0 else true) idx
    | None => false
    end
  end.

Lemma uan_px_preb_spec st n a px : uan_px_preb st n a px = true -> uan_px_pre st n a px.
Proof.
  unfold uan_px_preb, uan_px_pre. destruct (seg st) as [sg|]; [|auto]. intros H.
  apply andb_true_iff in H. destruct H as [H0 H]. destruct px as [[t idx]|]; [|discriminate H].
  apply andb_true_iff in H. destruct H as [H H3]. apply andb_true_iff in H. destruct H as [H1 H2].
  apply Z.eqb_eq in H1. subst t. split; [intros ->; discriminate H0|]. exists idx. split; [reflexivity|]. split.
  - apply existsb_exists in H2. destruct H2 as (p & Hin & Hp). unfold in_frame in Hp. apply andb_true_iff in Hp.
    destruct Hp as [P1 P2]. apply Z.leb_le in P1. apply Z.ltb_lt in P2.
    exists (Z.to_nat p). split; [lia|]. now rewrite Z2Nat.id.
  - intros i Hi Hin. rewrite forallb_forall in H3. specialize (H3 _ Hin). cbv beta in H3.
    assert (Hf : in_frame sg (EditUAN.uan_time a) (Z.of_nat i) = true).
    { unfold in_frame. apply andb_true_iff. split; [apply Z.leb_le; lia|apply Z.ltb_lt; lia]. }
    rewrite Hf, Nat2Z.id in H3. now apply Z.eqb_eq.
Qed.

Definition op_preb (st : state) (o : op) : bool :=
  match o with
  | OAddNode n a px _ => attrs_okb a && negb (haskey KLin a) && uan_px_preb st n a px
  | _ => true
  end.

Lemma op_preb_spec st o : op_preb st o = true -> op_pre st o.
Proof.
  destruct o; cbn [op_preb op_pre]; auto. intros H.
  apply andb_true_iff in H. destruct H as [H H3]. apply andb_true_iff in H. destruct H as [H1 H2].
  split; [now apply attrs_okb_spec|]. split; [now apply negb_true_iff|now apply uan_px_preb_spec].
Qed.

(* the side conditions checked along the run, each in the state its call starts from *)
Fixpoint pre_alongb (st : state) (ops : list op) : bool :=
  match ops with [] => true | o :: r => op_preb st o && pre_alongb (fst (step st o)) r end.

Lemma pre_alongb_spec : forall ops st, pre_alongb st ops = true ->
  forall pre o post, ops = pre ++ o :: post -> op_pre (run st pre) o.
Proof.
  induction ops as [|o1 r IH]; intros st H pre o post E; [destruct pre; discriminate E|].
  cbn [pre_alongb] in H. apply andb_true_iff in H. destruct H as [H1 H2].
  destruct pre as [|o2 pre]; cbn [app] in E; injection E as <- E.
  - now apply op_preb_spec.
  - change (run st (o1 :: pre)) with (run (fst (step st o1)) pre). eapply IH; eauto.
Qed.

Corollary run_node_WF_check ops st : forallb node_fragment ops = true -> WF st -> rp_disjoint st ->
  pre_alongb st ops = true -> WF (run st ops).
Proof. intros Hf W Hrp H. apply run_node_WF; auto. now apply pre_alongb_spec. Qed.
