(* The whole-history theorem transported to the definitions generated from the current
   actions/action_history.py, and the tie of the edit-machine model's history operations
   (Model/Edit.v: hist_add, undo, redo) to those generated definitions. *)
From Coq Require Import List Arith Bool ZArith Lia.
From FT Require Import Base.Dict Model.Edit Proofs.EditInv Proofs.EditFrame.
From FT Require Gen.History_gen Proofs.HistoryGeneric Proofs.HistoryTie.
Import ListNotations.

Module G := FT.Gen.History_gen.
Module A := FT.Proofs.HistoryGeneric.
Module T := FT.Proofs.HistoryTie.

Section GenRun.
Variables (St Act : Type).
Variable eqv : St -> St -> Prop.
Hypothesis eqv_refl : forall s, eqv s s.
Hypothesis eqv_trans : forall a b c, eqv a b -> eqv b c -> eqv a c.
Variable inv : St -> Act -> St * Act.
Variable Tr : Act -> St -> St -> Prop.
Hypothesis Tr_inv : forall a x y s, Tr a x y -> eqv s y -> eqv (fst (inv s a)) x /\ Tr (snd (inv s a)) y x.
Hypothesis Tr_src : forall a x x' y, Tr a x y -> eqv x x' -> Tr a x' y.
Variables (dA : Act) (dS : St).

Notation hop := (A.hop St Act).
Notation g2a := (T.g2a St Act).

(* one call of the generated mechanism *)
Definition gstep (h : G.hist St Act) (o : hop) : G.hist St Act * bool :=
  match o with
  | A.HEdit _ _ a s' => (fst (G.add_new_action St Act h a s'), true)
  | A.HUndo _ _ => G.undo St Act inv dA h
  | A.HRedo _ _ => G.redo St Act inv dA h
  end.
Fixpoint grun (h : G.hist St Act) (ops : list hop) : G.hist St Act * list bool :=
  match ops with [] => (h, []) | o :: r => let '(h', b) := gstep h o in let '(h'', bs) := grun h' r in (h'', b :: bs) end.

Lemma gstep_tie h o : (g2a (fst (gstep h o)), snd (gstep h o)) = A.hstep St Act inv dA (g2a h) o.
Proof.
  destruct o as [a s'| |]; cbn [gstep A.hstep fst snd].
  - now rewrite T.add_tie.
  - apply T.undo_tie.
  - apply T.redo_tie.
Qed.

Lemma grun_tie : forall ops h, (g2a (fst (grun h ops)), snd (grun h ops)) = A.hrun St Act inv dA (g2a h) ops.
Proof.
  induction ops as [|o r IH]; intros h; cbn [grun A.hrun]; [reflexivity|].
  pose proof (gstep_tie h o) as E. destruct (gstep h o) as [h' b]. cbn [fst snd] in E. rewrite <- E.
  specialize (IH h'). destruct (grun h' r) as [h'' bs]. cbn [fst snd] in *. rewrite <- IH. reflexivity.
Qed.

(* C02 on the generated definitions: every finite sequence over {edit, undo, redo} *)
Theorem gen_history_refines_timeline : forall ops s0,
  A.valid St Act inv Tr dA (g2a (G.init St Act s0)) ops ->
  let hr := grun (G.init St Act s0) ops in
  let tr := A.trun St Act {| A.tl := [s0]; A.c := 0 |} ops in
  snd hr = snd tr /\
  eqv (G.cur St Act (fst hr)) (nth (A.c St (fst tr)) (A.tl St (fst tr)) dS) /\
  (exists ext, A.tl St (fst tr) = [s0] ++ ext).
Proof.
  intros ops s0 V hr tr.
  pose proof (grun_tie ops (G.init St Act s0)) as E. fold hr in E.
  pose proof (A.run_ok St Act eqv eqv_refl inv Tr Tr_inv dA dS Tr_src ops (g2a (G.init St Act s0)) {| A.tl := [s0]; A.c := 0 |}) as R.
  assert (A.Inv St Act eqv Tr (g2a (G.init St Act s0)) {| A.tl := [s0]; A.c := 0 |}) as I0.
  { unfold T.g2a, G.init. cbn. apply (A.init_inv St Act eqv eqv_refl Tr s0). }
  destruct (R I0 V) as [R1 R2]. rewrite <- E in R1, R2. cbn [fst snd] in R1, R2. fold tr in R1, R2.
  split; [exact R1|]. split.
  - exact (A.inv_current St Act eqv Tr dS _ _ R2).
  - apply A.trun_grows.
Qed.
End GenRun.

(* ---------- the edit machine's own history code is the generated code ---------- *)
Definition inv_total (s : state) (a : action) : state * action :=
  match inv_action s a with Ok b s' => (s', b) | Err _ s' => (s', a) end.
Definition to_hist (st : state) : G.hist state action :=
  {| G.cur := st; G.undo_stack := undo_stack st; G.redo_stack := redo_stack st |}.

Lemma edit_hist_add_tie st a :
  let h := fst (G.add_new_action state action (to_hist st) a st) in
  undo_stack (hist_add st a) = G.undo_stack _ _ h /\ redo_stack (hist_add st a) = G.redo_stack _ _ h.
Proof.
  unfold hist_add, G.add_new_action, to_hist. cbn [G.redo_stack G.undo_stack].
  destruct (redo_stack st) as [|r rs] eqn:E; cbn [length].
  - cbn. split; reflexivity.
  - destruct (Z.gtb_spec (Z.of_nat (S (length rs))) 0) as [_|H]; [|lia]. cbn. split; reflexivity.
Qed.

(* undo: same decision, same selected action, same stack update (when the inverse does not raise) *)
Lemma edit_undo_tie st dA :
  let gr := G.undo state action inv_total dA (to_hist st) in
  match undo st with
  | Ok b s' => snd gr = b /\ undo_stack s' = G.undo_stack _ _ (fst gr) /\ redo_stack s' = G.redo_stack _ _ (fst gr)
  | Err _ _ => True
  end.
Proof.
  unfold undo, G.undo, G.undo_pointer, to_hist. cbn [G.undo_stack G.redo_stack G.cur].
  set (lu := length (undo_stack st)). set (lr := length (redo_stack st)).
  destruct (Nat.leb_spec lu lr) as [Hle|Hgt].
  - destruct (Z.ltb_spec (Z.of_nat lu - Z.of_nat lr - 1) 0) as [_|H]; [|lia]. cbn. auto.
  - destruct (Z.ltb_spec (Z.of_nat lu - Z.of_nat lr - 1) 0) as [H|_]; [lia|].
    replace (Z.to_nat (Z.of_nat lu - Z.of_nat lr - 1)) with (lu - lr - 1)%nat by lia.
    destruct (nth_error (undo_stack st) (lu - lr - 1)) as [a|] eqn:En.
    + rewrite (nth_error_nth _ _ dA En). unfold inv_total.
      destruct (inv_action st a) as [b s1|e s1] eqn:Ei; cbn [bind]; [|exact I].
      pose proof (aux_inv_action st a) as F. rewrite Ei in F. cbn [rstate] in F. destruct F as (F1 & F2 & _).
      cbn. rewrite F1, F2. auto.
    + apply nth_error_None in En. fold lu in En. lia.
Qed.
