(* Follow-up to Proofs/EditSessionsToggle.v: how much of its hypothesis transport_along can be discharged.

   transport_ok o st t (there) = (a) the recorded transitions in the two stacks stay consistent between the
   switched timeline states  /\  (b) a switch respects obs_eq between the current state and its timeline state.
   Configuration fact (faithful to the implementation, necessary by session_toggle_refuted_noseg):
     noseg_cfg st := seg st = None -> rp_all (ft st) = [] /\ iou_avail (ft st) = false.

   PROVED
   1. (b) in full: sw_obs (enable_obs, disable_obs): for a switch call o with switch_ok o, WF st, WF e, cfg_keys st,
      noseg_cfg st:  obs_eq st e -> obs_eq (sw o st) (sw o e).  Newly registered regionprops keys / the IoU are
      overwritten with functions of the array and the times on both sides (W_fresh of the switched states,
      which are WF by enable_step_WF); keys that are not written keep their values; disabling only shrinks
      the registry.  noseg_cfg is needed exactly when seg = None: there an accepted non-id switch names no key.
   2. session_toggle_reachable_WF_modulo_a: the fully mixed theorem (undo / redo after switches) from (a)
      ALONE (transport_a), given noseg_cfg at the switch calls (noseg_cfg_of_seg: any state with an array).
   3. UNCONDITIONAL without annotator features: session_toggle_reachable_WF_noannot (rp_all = [], iou_avail = false,
      rp_act = []), and in the requested form session_toggle_reachable_WF_noseg:
        WF st0 -> reg_ok st0 -> rp_disjoint st0 -> rp_decl st0 -> empty stacks -> seg st0 = None -> noseg_cfg st0 ->
        Forall switch_ok ops -> pre_along2 st0 ops -> forall pre post, ops = pre ++ post -> WF (run2 st0 pre).
      There every accepted non-id switch is the identity (noannot_switch_id), so the run is the run of its
      edit calls (run2_noannot) and Proofs/EditSessionsAll.v applies.  No preservation of "seg = None" along
      steps is needed for this (no such lemma exists in the development; every user action would have to be
      traversed): rp_all, iou_avail, rp_act are fields of ft, which no edit call changes.
   4. mixed_sessions_with_array_evidence: on exs, four sessions (52 calls) that undo / redo node deletions,
      strokes, edge actions and UpdateNodeAttrs ACROSS disable / enable of KPos, KArea, KPerim, KIou: every call
      returns a non-error code and W_fresh (as the check freshb) holds after every call.  In particular the
      re-added node of an undone DeleteNode that was recorded while the area was disabled is measured on the
      mask just written (do_add_node runs rp_update after set_pixels).  No counterexample with an array.

   NOT PROVED: (a) with a label array, for any kind of action.  Reasons, precisely:
   - TrW a x y in the invariant of Proofs/EditSessions.v is ABSTRACT (Consistent SI a x y: inv_action on every SI
     state that looks like y), all user actions record GROUPS, and group consistency cannot be split into its
     members; so a per-basic-action transport lemma has no group lifting.
   - transporting the abstract statement: for a state s' of the new table that looks like sw o y one needs a state
     s of the old table that looks like y and a simulation of inv_action between s and s'.  For an enable,
     s = upd_ft s' (old ft) works if registered managed keys are active (W_reg), and then the two runs differ only
     in ft; but the result s1' must be FRESH on the newly enabled keys at the nodes the action did not touch, i.e.
     mask x m = mask y m there, which abstract consistency yields only through its depth-2 instance (a stolen
     pixel would not come back on redo).  For a disable, s has to be s' with the disabled keys recomputed, and
     the simulation is between different graphs (UpdateTrackIDs' walk under attribute perturbation).
   - re-establishing TrW from the *_ConsS laws needs `core (sw o x) args = Ok a _` with the SAME a; the recorded a
     differs from the one the switched state would record (saved_attrs reads reg_node / reg_edge).
   What would close it: a provenance-carrying invariant (each recorded action together with the call and the WF
   state that produced it) and a forward simulation of the seven cores across a switch; or the R-simulation of
   inv_basic sketched above plus a freshness-preservation lemma for inverse actions. *)
From Coq Require Import ZArith List Bool Lia.
From FT Require Import Base.Dict Model.Edit Model.EditExec Model.Toggle Model.ToggleExec Proofs.DictLemmas Proofs.EditInv
  Proofs.EditBook Proofs.EditFresh Proofs.EditInverse Proofs.EditInverseNode Proofs.EditSessions Proofs.EditSessionsFull Proofs.EditSessionsAll
  Proofs.ToggleProofs Proofs.EditInit Proofs.EditSessionsToggle.
From FT Require Proofs.EditSeg Proofs.EditFrame Proofs.HistoryGeneric Proofs.EditWFEdge.
Import ListNotations.
Open Scope Z_scope.

(* ================================================================== *)
(* 1. (b): a switch respects observational equality                     *)
(* ================================================================== *)
(* the configuration fact the refutation of Proofs/EditSessionsToggle.v shows to be necessary: without a label
   array there is no regionprops annotator and no edge annotator *)
Definition noseg_cfg (st : state) : Prop := seg st = None -> rp_all (ft st) = [] /\ iou_avail (ft st) = false.

Lemma attr_non_node x n k : ~ is_node x n -> attr x n k = None.
Proof.
  intros H. unfold is_node, node_ids in H. apply lookup_None_keys in H. unfold attr, node_attrs, getd. now rewrite H.
Qed.
Lemma eattr_non_edge x u v k : has_edge x u v = false -> lookup k (edge_attrs x u v) = None.
Proof.
  unfold has_edge, edge_attrs, getd, haskey. destruct (lookup v (adj x u)); [discriminate|reflexivity].
Qed.
Lemma chg_has_edge K x x' u v : chg K x x' -> has_edge x' u v = has_edge x u v.
Proof.
  intros C. apply eq_true_iff_eq. exact (chg_edge K x x' u v C).
Qed.
Lemma available_ft x y : ft y = ft x -> available y = available x.
Proof. intros E. unfold available. now rewrite E. Qed.

Lemma noseg_cfg_of_seg st : seg st <> None -> noseg_cfg st.
Proof. intros H E. contradiction. Qed.

(* without an array (and so without annotators) an accepted non-id switch names no key at all *)
Lemma noseg_no_keys st ks : noseg_cfg st -> seg st = None -> (forall k, In k ks -> In k (available st)) ->
  ~ In KTrack ks -> ~ In KLin ks -> ks = [].
Proof.
  intros N Hs Hav HT HL. destruct (N Hs) as [E1 E2]. destruct ks as [|k r]; [reflexivity|]. exfalso.
  specialize (Hav k (or_introl eq_refl)). unfold available in Hav. rewrite E1, E2 in Hav. cbn in Hav.
  destruct Hav as [<-|[<-|[]]]; [apply HT|apply HL]; now left.
Qed.

Section EnableObs.
Variables (st e : state) (ks : list Z) (ctrk clin : list (list Z)) (st' e' : state).
Hypothesis O : obs_eq st e.
Hypothesis Wst : WF st.
Hypothesis We : WF e.
Hypothesis C : cfg_keys st.
Hypothesis N : noseg_cfg st.
Hypothesis HT : ~ In KTrack ks.
Hypothesis HL : ~ In KLin ks.
Hypothesis Hst : enable_features st ks true ctrk clin = Ok tt st'.
Hypothesis He : enable_features e ks true ctrk clin = Ok tt e'.

Let Ef : ft e = ft st := oe_ft _ _ O.
Let Ce : cfg_keys e := cfg_keys_ft st e Ef C.
Let Cst := en_chg st ks ctrk clin st' Hst.
Let Che := en_chg e ks ctrk clin e' He.
Let Wst' : WF st' := enable_step_WF st ks ctrk clin st' C Hst HT HL Wst.
Let We' : WF e' := enable_step_WF e ks ctrk clin e' Ce He HT HL We.
Let Cfg : cfg_ok st := w_cfg st Wst.

Lemma eo_time n : time_of e' n = time_of st' n.
Proof.
  assert (K : forall k, In k ks -> k <> KTime) by (intros k Hk; now destruct (en_keys st ks ctrk clin st' C Hst HT HL k Hk)).
  rewrite (chg_time e e' n (chg_weaken _ _ _ _ K Che)), (chg_time st st' n (chg_weaken _ _ _ _ K Cst)).
  exact (obs_time st e O Cfg n).
Qed.

Lemma eo_ft : ft e' = ft st'.
Proof. rewrite (en_ft e ks ctrk clin e' He), (en_ft st ks ctrk clin st' Hst). now rewrite Ef. Qed.

Lemma eo_seg : seg e' = seg st'.
Proof. rewrite (ch_seg _ _ _ Che), (ch_seg _ _ _ Cst). exact (oe_seg _ _ O). Qed.

(* a node attribute outside the regionprops keys is not written *)
Lemma en_attr_keep x x' sg n k : cfg_keys x -> seg x = Some sg -> W_seg x -> enable_features x ks true ctrk clin = Ok tt x' ->
  ~ In k (rp_all (ft x)) -> attr x' n k = attr x n k.
Proof.
  intros Cx Hs Ws Hx Hk.
  destruct (in_dec Z.eq_dec k ks) as [Hin|Hni]; [|exact (ch_attr _ _ _ (en_chg x ks ctrk clin x' Hx) n k Hni)].
  destruct (en_keys x ks ctrk clin x' Cx Hx HT HL k Hin) as (_ & K2 & K3).
  destruct (ef_frame x sg ks ctrk clin x' Cx Hs Ws Hx) as (_ & _ & _ & _ & _ & F6 & _).
  destruct (ef_stage1 x sg ks Hs Ws) as (_ & _ & _ & A4 & _).
  rewrite F6 by assumption. destruct A4 as [_ A4]. apply A4. intros [_ H]. apply Hk.
  exact (ef_rp_act_all x ks k H).
Qed.

Theorem enable_obs : obs_eq st' e'.
Proof.
  constructor.
  - intros n. rewrite (chg_is_node _ e e' n Che), (chg_is_node _ st st' n Cst). apply (oe_nodes _ _ O).
  - intros u v. rewrite (chg_has_edge _ e e' u v Che), (chg_has_edge _ st st' u v Cst). apply (oe_edges _ _ O).
  - intros n k Hk. rewrite (en_ft st ks ctrk clin st' Hst) in Hk. apply register_node_In in Hk. cbn [set_flags reg_node] in Hk.
    destruct (in_dec Z.eq_dec k ks) as [Hin|Hni].
    2:{ unfold attr_obs. rewrite (ch_attr _ _ _ Che n k Hni), (ch_attr _ _ _ Cst n k Hni).
        destruct Hk as [Hk|[Hk _]]; [exact (oe_nattr _ _ O n k Hk)|contradiction]. }
    destruct (seg st) as [sg|] eqn:Hs.
    2:{ exfalso. rewrite (noseg_no_keys st ks N Hs (enable_ok_avail _ _ _ _ _ _ Hst) HT HL) in Hin. destruct Hin. }
    assert (Hse : seg e = Some sg) by (rewrite (oe_seg _ _ O); exact Hs).
    destruct (in_dec Z.eq_dec k (rp_all (ft st))) as [Hall|Hnall].
    + (* a regionprops key of the call: fresh on both sides *)
      destruct (in_dec Z.eq_dec n (node_ids st')) as [Hn|Hn]; fold (is_node st' n) in Hn.
      * assert (Hne : is_node e' n).
        { apply (chg_is_node _ e e' n Che). apply (oe_nodes _ _ O). now apply (chg_is_node _ st st' n Cst). }
        pose proof (w_fresh _ Wst') as F. pose proof (w_fresh _ We') as Fe. unfold W_fresh in F, Fe.
        rewrite (ch_seg _ _ _ Cst), Hs in F. rewrite (ch_seg _ _ _ Che), Hse in Fe.
        assert (Ha : In k (rp_act (ft st'))) by (rewrite (en_ft st ks ctrk clin st' Hst); now apply enabled_rp_active).
        unfold attr_obs. rewrite (proj1 F n k Hn Ha). rewrite (proj1 Fe n k Hne); [|now rewrite eo_ft]. now rewrite eo_time.
      * assert (Hne : ~ is_node e' n).
        { intros H. apply Hn. apply (chg_is_node _ st st' n Cst). apply (oe_nodes _ _ O). now apply (chg_is_node _ e e' n Che). }
        unfold attr_obs. now rewrite (attr_non_node st' n k Hn), (attr_non_node e' n k Hne).
    + (* not a regionprops key (the IoU key used as a node key): not written *)
      assert (Hnalle : ~ In k (rp_all (ft e))) by now rewrite Ef.
      unfold attr_obs. rewrite (en_attr_keep e e' sg n k Ce Hse (w_seg _ We) He Hnalle), (en_attr_keep st st' sg n k C Hs (w_seg _ Wst) Hst Hnall).
      destruct Hk as [Hk|[_ Hk]]; [exact (oe_nattr _ _ O n k Hk)|].
      exfalso. destruct (available_cases st k C (enable_ok_avail _ _ _ _ _ _ Hst k Hin)) as [(A & _)|[(-> & _)|[(-> & _)|(-> & _)]]];
        [contradiction|discriminate Hk|now apply HT|now apply HL].
  - intros u v k Hk. rewrite (en_ft st ks ctrk clin st' Hst) in Hk. apply register_edge_In in Hk. cbn [set_flags reg_edge] in Hk.
    destruct (Z.eq_dec k KIou) as [->|Hki].
    2:{ unfold eattr_obs. rewrite (ch_eattr _ _ _ Che u v k Hki), (ch_eattr _ _ _ Cst u v k Hki).
        destruct Hk as [Hk|[_ Hk]]; [exact (oe_eattr _ _ O u v k Hk)|]. unfold is_edge_key in Hk. apply Z.eqb_eq in Hk. contradiction. }
    destruct (in_dec Z.eq_dec KIou ks) as [Hin|Hni].
    2:{ assert (E1 : edge_attrs e' u v = edge_attrs e u v) by (unfold edge_attrs, adj; now rewrite (enable_succs_noiou _ _ _ _ _ He Hni)).
        assert (E2 : edge_attrs st' u v = edge_attrs st u v) by (unfold edge_attrs, adj; now rewrite (enable_succs_noiou _ _ _ _ _ Hst Hni)).
        unfold eattr_obs. rewrite E1, E2. destruct Hk as [Hk|[Hk _]]; [exact (oe_eattr _ _ O u v KIou Hk)|contradiction]. }
    destruct (seg st) as [sg|] eqn:Hs.
    2:{ exfalso. rewrite (noseg_no_keys st ks N Hs (enable_ok_avail _ _ _ _ _ _ Hst) HT HL) in Hin. destruct Hin. }
    assert (Hse : seg e = Some sg) by (rewrite (oe_seg _ _ O); exact Hs).
    destruct (has_edge st' u v) eqn:Hed.
    + assert (Hede : has_edge e' u v = true).
      { rewrite (chg_has_edge _ e e' u v Che), (oe_edges _ _ O), <- (chg_has_edge _ st st' u v Cst). exact Hed. }
      pose proof (w_fresh _ Wst') as F. pose proof (w_fresh _ We') as Fe. unfold W_fresh in F, Fe.
      rewrite (ch_seg _ _ _ Cst), Hs in F. rewrite (ch_seg _ _ _ Che), Hse in Fe.
      assert (Ha : iou_act (ft st') = true).
      { rewrite (en_ft st ks ctrk clin st' Hst). cbn [register iou_act set_flags]. apply memz_In in Hin. rewrite Hin.
        destruct (available_cases st KIou C (enable_ok_avail _ _ _ _ _ _ Hst KIou (proj1 (memz_In _ _) Hin))) as [(_ & A & _)|[(_ & A & _)|[(A & _)|(A & _)]]];
          try (now elim A); try discriminate A. now rewrite A. }
      unfold eattr_obs. rewrite (proj2 F Ha u v Hed). rewrite (proj2 Fe); [|now rewrite eo_ft|exact Hede].
      f_equal. f_equal. apply iou_of_ext; try reflexivity; apply eo_time.
    + assert (Hede : has_edge e' u v = false).
      { rewrite (chg_has_edge _ e e' u v Che), (oe_edges _ _ O), <- (chg_has_edge _ st st' u v Cst). exact Hed. }
      unfold eattr_obs. now rewrite (eattr_non_edge st' u v KIou Hed), (eattr_non_edge e' u v KIou Hede).
  - exact eo_seg.
  - exact eo_ft.
Qed.
End EnableObs.

Lemma enable_accept_ft x y ks rc ctrk clin x' : ft y = ft x -> enable_features x ks rc ctrk clin = Ok tt x' ->
  exists y', enable_features y ks rc ctrk clin = Ok tt y'.
Proof.
  intros E. unfold enable_features. rewrite (available_ft x y E). destruct (negb _); [discriminate|]. intros _.
  destruct rc; eexists; reflexivity.
Qed.
Lemma disable_accept_ft x y ks x' : ft y = ft x -> disable_features x ks = Ok tt x' -> exists y', disable_features y ks = Ok tt y'.
Proof.
  intros E. unfold disable_features. rewrite (available_ft x y E). destruct (negb _); [discriminate|]. intros _. eexists; reflexivity.
Qed.

Lemma disable_obs st e ks st' e' : obs_eq st e -> disable_features st ks = Ok tt st' -> disable_features e ks = Ok tt e' -> obs_eq st' e'.
Proof.
  intros O H1 H2. rewrite (dis_eq st ks st' H1), (dis_eq e ks e' H2). rewrite (oe_ft _ _ O).
  set (f' := unregister (set_flags (ft st) ks false) ks). constructor; cbn [ft upd_ft].
  - exact (oe_nodes _ _ O).
  - exact (oe_edges _ _ O).
  - intros n k Hk. apply unregister_node_In in Hk. destruct Hk as [Hk _]. exact (oe_nattr _ _ O n k Hk).
  - intros u v k Hk. apply unregister_edge_In in Hk. destruct Hk as [Hk _]. exact (oe_eattr _ _ O u v k Hk).
  - exact (oe_seg _ _ O).
  - reflexivity.
Qed.

(* (b) of transport_ok, for every switch call *)
Theorem sw_obs o st e : is_switch o = true -> switch_ok o -> WF st -> WF e -> cfg_keys st -> noseg_cfg st ->
  obs_eq st e -> obs_eq (sw o st) (sw o e).
Proof.
  intros Hs Hok W We C N O. pose proof (oe_ft _ _ O) as Ef.
  destruct o as [o|ks rc ctrk clin|ks]; [discriminate Hs| |]; unfold sw; cbn [step2 switch_ok] in *.
  - destruct Hok as (-> & HT & HL).
    destruct (enable_features st ks true ctrk clin) as [[] s|er s] eqn:E1; destruct (enable_features e ks true ctrk clin) as [[] s2|er2 s2] eqn:E2; cbn [fin fst].
    + exact (enable_obs st e ks ctrk clin s s2 O W We C N HT HL E1 E2).
    + destruct (enable_accept_ft st e ks true ctrk clin s Ef E1) as [y' Hy]. congruence.
    + destruct (enable_accept_ft e st ks true ctrk clin s2 (eq_sym Ef) E2) as [y' Hy]. congruence.
    + rewrite (enable_refused _ _ _ _ _ _ _ E1), (enable_refused _ _ _ _ _ _ _ E2). exact O.
  - destruct (disable_features st ks) as [[] s|er s] eqn:E1; destruct (disable_features e ks) as [[] s2|er2 s2] eqn:E2; cbn [fin fst].
    + exact (disable_obs st e ks s s2 O E1 E2).
    + destruct (disable_accept_ft st e ks s Ef E1) as [y' Hy]. congruence.
    + destruct (disable_accept_ft e st ks s2 (eq_sym Ef) E2) as [y' Hy]. congruence.
    + rewrite (disable_refused _ _ _ _ E1), (disable_refused _ _ _ _ E2). exact O.
Qed.

(* ================================================================== *)
(* 2. the mixed session theorem modulo (a) alone                        *)
(* ================================================================== *)
(* (a) of transport_ok: what remains open with a label array *)
Definition transport_a (o : op2) (st : state) (t : A.tline state) : Prop :=
  forall a x y, In a (undo_stack st ++ redo_stack st) -> In x (A.tl _ t) -> In y (A.tl _ t) -> TrW a x y ->
                Consistent SI a (sw o x) (sw o y).

Lemma transport_ok_of_a o st t : is_switch o = true -> switch_ok o -> SInv2 st t -> noseg_cfg st -> transport_a o st t ->
  transport_ok o st t.
Proof.
  intros Hs Hok I2 N Ha. split; [exact Ha|]. intros e He Oe.
  pose proof (SInv_WF st t (proj1 I2)) as W. destruct I2 as ((_ & _ & Hall) & (C & _) & _).
  rewrite Forall_forall in Hall. exact (sw_obs o st e Hs Hok W (Hall e He) C N Oe).
Qed.

Theorem step2_session_a st t o : SInv2 st t -> switch_ok o -> op2_pre st o ->
  (is_switch o = true -> noseg_cfg st /\ transport_a o st t) -> SInv2 (fst (step2 st o)) (tl_step2 st t o).
Proof.
  intros I2 Hok Hpre H. apply step2_session; try assumption. intros Hs. destruct (H Hs) as [N Ha].
  now apply transport_ok_of_a.
Qed.

Definition switch_along (P : op2 -> state -> A.tline state -> Prop) (st : state) (t : A.tline state) (ops : list op2) : Prop :=
  forall pre o post, ops = pre ++ o :: post -> is_switch o = true -> P o (run2 st pre) (tl_run2 st t pre).

Lemma switch_along_tail P st t o r : switch_along P st t (o :: r) -> switch_along P (fst (step2 st o)) (tl_step2 st t o) r.
Proof.
  intros H pre o' post E Hs. specialize (H (o :: pre) o' post). cbn [app] in H. rewrite run2_cons in H. cbn [tl_run2] in H.
  apply H; [now rewrite E|exact Hs].
Qed.

Theorem run2_session_a : forall ops st t, SInv2 st t -> Forall switch_ok ops -> pre_along2 st ops ->
  switch_along (fun o s t => noseg_cfg s /\ transport_a o s t) st t ops -> SInv2 (run2 st ops) (tl_run2 st t ops).
Proof.
  induction ops as [|o r IH]; intros st t I2 Hok Hpre HT; [exact I2|].
  inversion Hok as [|? ? Ho Hr]; subst. rewrite run2_cons. cbn [tl_run2]. apply IH.
  - apply step2_session_a; [exact I2|exact Ho|exact (Hpre [] o r eq_refl)|exact (HT [] o r eq_refl)].
  - exact Hr.
  - now apply pre_along2_tail.
  - now apply switch_along_tail.
Qed.

Section SessionToggleModuloA.
  Variables (st0 : state) (ops : list op2).
  Hypothesis W0 : WF st0.
  Hypothesis S0 : side_ok st0.
  Hypothesis Hu : undo_stack st0 = [].
  Hypothesis Hr : redo_stack st0 = [].
  Hypothesis Hok : Forall switch_ok ops.
  Hypothesis Hpre : pre_along2 st0 ops.
  Let t0 : A.tline state := {| A.tl := [st0]; A.c := 0 |}.
  (* at every switch call: no annotator features without an array (e.g. because there is an array) *)
  Hypothesis Hns : switch_along (fun _ s _ => noseg_cfg s) st0 t0 ops.
  (* NOT PROVED: (a) *)
  Hypothesis Ha : switch_along transport_a st0 t0 ops.

  Theorem session_toggle_reachable_WF_modulo_a pre post : ops = pre ++ post -> WF (run2 st0 pre).
  Proof.
    intros E. destruct S0 as (C0 & R0 & P0 & D0).
    assert (I0 : SInv2 st0 t0).
    { split; [now apply SInv_init|]. split; [exact S0|]. cbn. constructor; [exact S0|constructor]. }
    assert (I : SInv2 (run2 st0 pre) (tl_run2 st0 t0 pre)).
    { apply run2_session_a; [exact I0| | |].
      - rewrite E in Hok. apply Forall_app in Hok. tauto.
      - intros p o q Eq. apply (Hpre p o (q ++ post)). rewrite E, Eq, <- app_assoc. reflexivity.
      - intros p o q Eq Hs. assert (Eo : ops = p ++ o :: q ++ post) by (rewrite E, Eq, <- app_assoc; reflexivity).
        split; [exact (Hns p o (q ++ post) Eo Hs)|exact (Ha p o (q ++ post) Eo Hs)]. }
    exact (SInv_WF _ _ (proj1 I)).
  Qed.
End SessionToggleModuloA.

(* ================================================================== *)
(* 3. UNCONDITIONAL: the configuration without annotator features       *)
(* ================================================================== *)
(* what  seg st0 = None  gives under the faithful hypothesis  noseg_cfg st0 *)
Definition noannot (st : state) : Prop := rp_all (ft st) = [] /\ iou_avail (ft st) = false /\ rp_act (ft st) = [].

Lemma noseg_noannot st : noseg_cfg st -> seg st = None -> rp_decl st -> noannot st.
Proof.
  intros N Hs D. destruct (N Hs) as [A B]. split; [exact A|]. split; [exact B|].
  unfold rp_decl in D. rewrite A in D. now apply incl_l_nil.
Qed.

Lemma noannot_no_keys st ks : noannot st -> (forall k, In k ks -> In k (available st)) -> ~ In KTrack ks -> ~ In KLin ks -> ks = [].
Proof.
  intros (E1 & E2 & _) Hav HT HL. destruct ks as [|k r]; [reflexivity|]. exfalso.
  specialize (Hav k (or_introl eq_refl)). unfold available in Hav. rewrite E1, E2 in Hav. cbn in Hav.
  destruct Hav as [<-|[<-|[]]]; [apply HT|apply HL]; now left.
Qed.

Lemma filter_all {X} (p : X -> bool) l : (forall x, p x = true) -> filter p l = l.
Proof. intros H. induction l as [|x r IH]; cbn; [reflexivity|]. now rewrite H, IH. Qed.

Lemma upd_ft_same st : upd_ft st (ft st) = st.
Proof. now destruct st. Qed.

Lemma noannot_flags f on : rp_all f = [] -> rp_act f = [] -> set_flags f [] on = f.
Proof. destruct f as [a b c d e i j k l]. cbn. intros -> ->. reflexivity. Qed.
Lemma register_nil f : register f [] = f.
Proof. now destruct f. Qed.
Lemma unregister_nil f : unregister f [] = f.
Proof. destruct f as [a b c d e i j k l]. unfold unregister. cbn. now rewrite !filter_all by reflexivity. Qed.

(* an accepted non-id switch is the identity there (a refused one always is) *)
Theorem noannot_switch_id o st : is_switch o = true -> switch_ok o -> noannot st -> fst (step2 st o) = st.
Proof.
  intros Hs Hok NA. pose proof NA as (E1 & E2 & E3).
  destruct o as [o|ks rc ctrk clin|ks]; [discriminate Hs| |]; cbn [step2 switch_ok] in *.
  - destruct Hok as (-> & HT & HL).
    destruct (enable_features st ks true ctrk clin) as [[] s|er s] eqn:E; cbn [fin fst]; [|exact (enable_refused _ _ _ _ _ _ _ E)].
    pose proof (noannot_no_keys st ks NA (enable_ok_avail _ _ _ _ _ _ E) HT HL) as ->.
    rewrite (enable_true_unfold _ _ _ _ _ E). rewrite (noannot_flags _ true E1 E3), register_nil, upd_ft_same.
    assert (R1 : rp_compute st [] = st).
    { unfold rp_compute. destruct (seg st); [|reflexivity]. rewrite E3. reflexivity. }
    assert (R2 : iou_compute st [] = st) by (unfold iou_compute; destruct (seg st); reflexivity).
    rewrite R1, R2. reflexivity.
  - destruct Hok as (HT & HL).
    destruct (disable_features st ks) as [[] s|er s] eqn:E; cbn [fin fst]; [|exact (disable_refused _ _ _ _ E)].
    pose proof (noannot_no_keys st ks NA (disable_ok_avail _ _ _ E) HT HL) as ->.
    rewrite (dis_eq st [] s E). now rewrite (noannot_flags _ false E1 E3), unregister_nil, upd_ft_same.
Qed.

Definition edits_of (ops : list op2) : list op := flat_map (fun o => match o with OEdit e => [e] | _ => [] end) ops.
Lemma edits_of_app l1 l2 : edits_of (l1 ++ l2) = edits_of l1 ++ edits_of l2.
Proof. apply flat_map_app. Qed.

Lemma noannot_ft s s' : ft s' = ft s -> noannot s -> noannot s'.
Proof. intros E. unfold noannot. now rewrite E. Qed.

(* the switches of such a run are no-ops: the run is the run of its edit calls *)
Lemma run2_noannot : forall ops st, noannot st -> Forall switch_ok ops -> run2 st ops = run st (edits_of ops).
Proof.
  induction ops as [|o r IH]; intros st NA Hok; [reflexivity|]. inversion Hok as [|? ? Ho Hr]; subst. rewrite run2_cons.
  destruct o as [e|ks rc ctrk clin|ks].
  - cbn [step2 edits_of flat_map app]. change (run st (e :: edits_of r)) with (run (fst (step st e)) (edits_of r)).
    apply IH; [|exact Hr]. exact (noannot_ft st _ (step_ft st e) NA).
  - rewrite (noannot_switch_id (OEnable ks rc ctrk clin) st eq_refl Ho NA). cbn [edits_of flat_map app]. now apply IH.
  - rewrite (noannot_switch_id (ODisable ks) st eq_refl Ho NA). cbn [edits_of flat_map app]. now apply IH.
Qed.

Section SessionNoAnnot.
  Variables (st0 : state) (ops : list op2).
  Hypothesis W0 : WF st0.
  Hypothesis Hreg : reg_ok st0.
  Hypothesis Hrp : rp_disjoint st0.
  Hypothesis Hdecl : rp_decl st0.
  Hypothesis Hu : undo_stack st0 = [].
  Hypothesis Hr : redo_stack st0 = [].
  Hypothesis NA : noannot st0.
  Hypothesis Hok : Forall switch_ok ops.
  Hypothesis Hpre : pre_along2 st0 ops.

  Lemma sna_pre : pre_along_all st0 (edits_of ops).
  Proof.
    intros p e q E.
    (* locate the edit call in ops *)
    assert (G : forall l st, noannot st -> Forall switch_ok l -> pre_along2 st l -> forall p e q, edits_of l = p ++ e :: q -> op_pre_all (run st p) e).
    { clear. induction l as [|o r IH]; intros st NA Hok Hpre p e q E; [destruct p; discriminate E|].
      inversion Hok as [|? ? Ho Hr]; subst. pose proof (pre_along2_tail st o r Hpre) as Ht.
      destruct o as [e0|ks rc ctrk clin|ks].
      - cbn [edits_of flat_map app] in E. destruct p as [|x p]; cbn [app] in E; injection E as <- E.
        + exact (Hpre [] (OEdit e0) r eq_refl).
        + change (run st (e0 :: p)) with (run (fst (step st e0)) p). cbn [step2] in Ht.
          exact (IH _ (noannot_ft st _ (step_ft st e0) NA) Hr Ht p e q E).
      - cbn [edits_of flat_map app] in E. rewrite (noannot_switch_id (OEnable ks rc ctrk clin) st eq_refl Ho NA) in Ht. exact (IH st NA Hr Ht p e q E).
      - cbn [edits_of flat_map app] in E. rewrite (noannot_switch_id (ODisable ks) st eq_refl Ho NA) in Ht. exact (IH st NA Hr Ht p e q E). }
    exact (G ops st0 NA Hok Hpre p e q E).
  Qed.

  (* the fully mixed theorem, undo / redo after switches included, no condition left *)
  Theorem session_toggle_reachable_WF_noannot pre post : ops = pre ++ post -> WF (run2 st0 pre).
  Proof.
    intros E. assert (Hok1 : Forall switch_ok pre) by (rewrite E in Hok; apply Forall_app in Hok; tauto).
    rewrite (run2_noannot pre st0 NA Hok1).
    apply (session_all_reachable_WF st0 (edits_of ops) W0 Hreg Hrp Hdecl Hu Hr sna_pre (edits_of pre) (edits_of post)).
    now rewrite E, edits_of_app.
  Qed.
End SessionNoAnnot.

(* in the form asked for: no label array, and the faithful configuration hypothesis *)
Corollary session_toggle_reachable_WF_noseg st0 ops : WF st0 -> reg_ok st0 -> rp_disjoint st0 -> rp_decl st0 ->
  undo_stack st0 = [] -> redo_stack st0 = [] -> seg st0 = None -> noseg_cfg st0 -> Forall switch_ok ops -> pre_along2 st0 ops ->
  forall pre post, ops = pre ++ post -> WF (run2 st0 pre).
Proof.
  intros W R P D Eu Er Hs N Hok Hpre. apply (session_toggle_reachable_WF_noannot st0 ops W R P D Eu Er); try assumption.
  now apply noseg_noannot.
Qed.

(* ================================================================== *)
(* 4. computed evidence WITH a label array (no proof of (a); no counterexample either) *)
(* ================================================================== *)
Definition veqb (a b : value) : bool :=
  match a, b with
  | VZ x, VZ y => x =? y | VTok x, VTok y => x =? y
  | VRp m, VRp m' => (length m =? length m')%nat && forallb (fun p => fst p =? snd p) (combine m m')
  | VIou a b, VIou c d => (a =? c) && (b =? d) | VNone, VNone => true | _, _ => false end.
Definition oveqb (a : option value) (b : value) := match a with Some x => veqb x b | None => false end.
(* W_fresh as a check *)
Definition freshb (st : state) : bool :=
  match seg st with None => true | Some sg =>
    forallb (fun n => forallb (fun k => oveqb (attr st n k) (VRp (mask_of sg (time_of st n) n))) (rp_act (ft st))) (keys (nodes (g st)))
    && (if iou_act (ft st) then forallb (fun e => oveqb (lookup KIou (edge_attrs st (fst e) (snd e))) (iou_of st sg (fst e) (snd e))) (all_edges st) else true)
  end.
(* outcome code and freshness after every call *)
Fixpoint trace2 (st : state) (ops : list op2) : list (Z * bool) :=
  match ops with [] => [] | o :: r => let s := fst (step2 st o) in (fst (snd (step2 st o)), freshb s) :: trace2 s r end.
Definition all_fine (l : list (Z * bool)) : bool := forallb (fun p => (fst p <? 10) && snd p) l.

Definition E := OEdit.
(* DeleteNode recorded while the area is disabled, undone after it is enabled again; strokes; redo across disable *)
Definition ev1 : list op2 :=
  [ODisable [KArea]; E (OPaint 4 2 [3] 0 false); E (ODelNode 3); OEnable [KArea] true [] []; E OUndo; E OUndo; E ORedo; E ORedo;
   ODisable [KIou; KPos]; E OUndo; E OUndo; OEnable [KIou; KPos; KPerim] true [] []; E ORedo; E ORedo; E OUndo].
(* a new node painted, its creation undone / redone across switches of every feature *)
Definition ev2 : list op2 :=
  [E (OPaint 7 2 [0] 9 false); ODisable [KArea; KIou]; E OUndo; OEnable [KArea; KIou] true [] []; E ORedo; E OUndo; ODisable [KPos];
   E ORedo; OEnable [KPos] true [] []; E OUndo].
(* edge actions with the IoU switched off and on in between *)
Definition ev3 : list op2 :=
  [E (ODelEdge 1 3); ODisable [KIou]; E (ODelEdge 2 4); OEnable [KIou] true [] []; E OUndo; E OUndo; E ORedo; ODisable [KIou]; E ORedo;
   E OUndo; OEnable [KIou] true [] []; E OUndo; E ORedo; E ORedo].
(* UpdateNodeAttrs and a stroke that moves pixels between nodes, undone across switches *)
Definition ev4 : list op2 :=
  [E (OUpdAttrs 3 [(100, VTok 5)]); E (OPaint 2 1 [2] 9 false); ODisable [KArea; KIou; KPos]; E (OPaint 4 2 [0; 3] 9 false); E OUndo; E OUndo;
   E OUndo; OEnable [KArea; KIou; KPos] true [] []; E ORedo; E ORedo; E ORedo; E OUndo; E OUndo].

Example mixed_sessions_with_array_evidence :
  all_fine (trace2 EditWFEdge.exs ev1) = true /\ all_fine (trace2 EditWFEdge.exs ev2) = true /\
  all_fine (trace2 EditWFEdge.exs ev3) = true /\ all_fine (trace2 EditWFEdge.exs ev4) = true.
Proof. vm_compute. repeat split. Qed.

Print Assumptions enable_obs.
Print Assumptions sw_obs.
Print Assumptions run2_session_a.
Print Assumptions session_toggle_reachable_WF_modulo_a.
Print Assumptions noannot_switch_id.
Print Assumptions session_toggle_reachable_WF_noannot.
Print Assumptions session_toggle_reachable_WF_noseg.
Print Assumptions mixed_sessions_with_array_evidence.
