(* The definition translated from the current import_export/_import_segmentation.py
   (Gen/Relabel_gen.v, rewritten by harness/translate_numpy_utils.py) IS the hand-written
   relabel_segmentation of Model/Relabel.v, for ALL row lists, arrays and graphs.

   Calling convention (that of harness/props/c13.py): the three parallel arrays node_ids /
   seg_ids / time_values are the columns of one row list [rows] (so they have equal lengths --
   Python raises otherwise), times are naturals (n_time : nat, passed as Z.of_nat), and the
   graph is the list of its node ids.  No other hypothesis: in particular times need not be in
   range (both sides skip such rows; Python raises IndexError -- the C13 theorems assume times
   in range) and (time, seg id) pairs may repeat.  If the source changes its behaviour, the
   regenerated definition changes and the theorem stops compiling. *)
From Coq Require Import ZArith List Bool Lia Arith.
From FT Require Import Model.NpRt Model.LabelUtils Model.Relabel Proofs.NpRtLemmas.
From FT Require Gen.Relabel_gen.
Import ListNotations.
Open Scope Z_scope.

Module GR := FT.Gen.Relabel_gen.

(* the time column as the Python sees it *)
Definition tz (r : tnode) : Z := Z.of_nat (n_time r).

(* ------------------------------------------------------------------ *)
(* NpRt combinators against the vocabulary of the hand model           *)
(* ------------------------------------------------------------------ *)

(* np.unique *)
Lemma insert_tie (t : nat) : forall l : list nat,
  insert_sorted (Z.of_nat t) (map Z.of_nat l) = map Z.of_nat (insert_u t l).
Proof.
  induction l as [|x r IH]; cbn [map insert_sorted insert_u]; [reflexivity|].
  destruct (Z.ltb_spec (Z.of_nat t) (Z.of_nat x)) as [H|H]; destruct (Nat.ltb_spec t x) as [H'|H']; try lia.
  - reflexivity.
  - destruct (Z.eqb_spec (Z.of_nat t) (Z.of_nat x)) as [E|E]; destruct (Nat.eqb_spec t x) as [E'|E']; try lia.
    + reflexivity.
    + cbn [map]. now rewrite IH.
Qed.

Lemma unique_tie : forall l : list nat,
  np_unique (map Z.of_nat l) = map Z.of_nat (fold_right insert_u [] l).
Proof.
  unfold np_unique. induction l as [|x r IH]; cbn [map fold_right]; [reflexivity|].
  now rewrite IH, insert_tie.
Qed.

(* a[time_values == t] *)
Lemma bool_index_filter (f : tnode -> Z) (t : nat) : forall rows : list tnode,
  np_bool_index (map f rows) (np_eq_mask (map tz rows) (Z.of_nat t))
  = map f (filter (fun r => Nat.eqb (n_time r) t) rows).
Proof.
  unfold np_bool_index, np_eq_mask.
  induction rows as [|r rs IH]; cbn [map combine filter]; [reflexivity|].
  cbn [snd]. unfold tz at 1.
  destruct (Z.eqb_spec (Z.of_nat (n_time r)) (Z.of_nat t)) as [E|E]; destruct (Nat.eqb_spec (n_time r) t) as [E'|E']; try lia.
  - cbn [map fst]. now rewrite IH.
  - exact IH.
Qed.

(* zip of two columns *)
Lemma zip_columns {A : Type} (f g : A -> Z) : forall l : list A,
  py_zip_strict (map f l) (map g l) = map (fun r => (f r, g r)) l.
Proof. unfold py_zip_strict. induction l as [|x r IH]; cbn [map combine]; [reflexivity|now rewrite IH]. Qed.

(* dict *)
Lemma setitem_tie (k v : Z) : forall d, py_dict_setitem d k v = dict_set k v d.
Proof.
  induction d as [|[a b] r IH]; cbn [py_dict_setitem dict_set]; [reflexivity|].
  destruct (a =? k); [reflexivity|now rewrite IH].
Qed.

Lemma dict_tie : forall kvs, py_dict kvs = dict_zip kvs.
Proof.
  unfold py_dict, dict_zip. intros kvs. generalize (@nil (Z * Z)).
  induction kvs as [|kv r IH]; intros d; cbn [fold_left]; [reflexivity|].
  now rewrite setitem_tie, IH.
Qed.

Lemma get_setitem (k v k' : Z) : forall d,
  py_dict_get (py_dict_setitem d k v) k' = if k =? k' then Some v else py_dict_get d k'.
Proof.
  induction d as [|[a b] r IH]; cbn [py_dict_setitem py_dict_get].
  - reflexivity.
  - destruct (Z.eqb_spec a k) as [->|Hak]; cbn [py_dict_get].
    + destruct (k =? k'); reflexivity.
    + destruct (Z.eqb_spec a k') as [->|Hak'].
      * destruct (Z.eqb_spec k k'); [congruence|reflexivity].
      * exact IH.
Qed.

(* {x: f x for x in l}[n] *)
Lemma get_dict_comp (f : Z -> Z) (n : Z) : forall l d,
  py_dict_get (fold_left (fun d kv => py_dict_setitem d (fst kv) (snd kv)) (map (fun x => (x, f x)) l) d) n
  = if existsb (Z.eqb n) l then Some (f n) else py_dict_get d n.
Proof.
  induction l as [|x r IH]; intros d; cbn [map fold_left existsb]; [reflexivity|].
  rewrite IH. cbn [fst snd]. destruct (existsb (Z.eqb n) r); [now rewrite orb_true_r|].
  rewrite orb_false_r, get_setitem, (Z.eqb_sym n x).
  destruct (Z.eqb_spec x n) as [->|]; reflexivity.
Qed.

(* nx.relabel_nodes(graph, {old: old + off for old in graph.nodes()}, copy=False) *)
Lemma relabel_nodes_tie (off : Z) (g : list Z) :
  nx_relabel_nodes g (py_dict_comp (fun x => (x, x + off)) (nx_nodes g)) = map (fun n => n + off) g.
Proof.
  unfold nx_relabel_nodes, py_dict_comp, py_dict, nx_nodes. apply map_ext_in. intros n Hn.
  rewrite (get_dict_comp (fun x => x + off)).
  replace (existsb (Z.eqb n) g) with true; [reflexivity|].
  symmetry. apply existsb_exists. exists n. split; [exact Hn|apply Z.eqb_refl].
Qed.

(* columns of the shifted rows *)
Lemma ids_shift off rows : np_add_scalar (map n_id rows) off = map n_id (shift_rows off rows).
Proof. unfold np_add_scalar, shift_rows. rewrite !map_map. reflexivity. Qed.
Lemma ids_shift0 rows : map n_id rows = map n_id (shift_rows 0 rows).
Proof. unfold shift_rows. rewrite map_map. apply map_ext. intros r. cbn. lia. Qed.
Lemma segs_shift off rows : map n_seg rows = map n_seg (shift_rows off rows).
Proof. unfold shift_rows. rewrite map_map. reflexivity. Qed.
Lemma times_shift off rows : map tz rows = map tz (shift_rows off rows).
Proof. unfold shift_rows. rewrite map_map. reflexivity. Qed.
Lemma unique_times_shift off rows : unique_times rows = unique_times (shift_rows off rows).
Proof. unfold unique_times, shift_rows. rewrite map_map. reflexivity. Qed.

(* seg_to_node of frame t *)
Lemma frame_dict_tie (rows : list tnode) (t : nat) :
  py_dict (py_zip_strict (np_bool_index (map n_seg rows) (np_eq_mask (map tz rows) (Z.of_nat t)))
                         (np_bool_index (map n_id rows) (np_eq_mask (map tz rows) (Z.of_nat t))))
  = frame_dict rows t.
Proof. rewrite !bool_index_filter, zip_columns, dict_tie. reflexivity. Qed.

(* ------------------------------------------------------------------ *)
(* the two loops, for an arbitrary body satisfying the model's equation *)
(* ------------------------------------------------------------------ *)

Lemma frame_loop_generic (Gf : Z * Z -> list (list Z) -> list (list Z)) (old : list (list Z)) (t : nat) :
  (forall sn acc, Gf sn acc = upd_nth t (paint_frame (nth t old []) (fst sn) (snd sn)) acc) ->
  forall d acc, py_for (py_dict_items d) acc Gf = relabel_frame old t d acc.
Proof.
  intros H. unfold py_for, py_dict_items, relabel_frame.
  induction d as [|sn r IH]; intros acc; cbn [fold_left]; [reflexivity|].
  now rewrite H, IH.
Qed.

Lemma time_loop_generic (F : Z -> list (list Z) -> list (list Z)) (old : list (list Z)) (rows : list tnode) :
  (forall t acc, F (Z.of_nat t) acc = relabel_frame old t (frame_dict rows t) acc) ->
  forall acc, py_for (np_unique (map tz rows)) acc F = relabel_loop old rows (unique_times rows) acc.
Proof.
  intros H acc. unfold relabel_loop, unique_times, py_for.
  replace (map tz rows) with (map Z.of_nat (map n_time rows)) by (rewrite map_map; reflexivity).
  rewrite unique_tie. generalize (fold_right insert_u [] (map n_time rows)) as ts. intros ts. revert acc.
  induction ts as [|t r IH]; intros acc; cbn [map fold_left]; [reflexivity|].
  now rewrite H, IH.
Qed.

(* ------------------------------------------------------------------ *)
(* relabel_segmentation                                                *)
(* ------------------------------------------------------------------ *)

Theorem gen_relabel_segmentation_eq : forall (rows : list tnode) (old : list (list Z)) (g : list Z),
  GR.gen_relabel_segmentation old g (map n_id rows) (map n_seg rows) (map tz rows)
  = (fst (relabel_segmentation rows old), map (fun n => n + offset rows) g).
Proof.
  intros rows old g.
  unfold GR.gen_relabel_segmentation, relabel_segmentation, offset, node_ids.
  unfold np_asarray, da_compute_if_dask, np_astype_uint64, np_contains. cbv zeta. cbn [fst].
  destruct (existsb (Z.eqb 0) (map n_id rows)); cbv beta iota.
  - (* node id 0 present: offset 1 *)
    change (py_truthy_int 1) with true. cbv iota.
    rewrite relabel_nodes_tie, ids_shift, zeros_like_tie. f_equal.
    rewrite (segs_shift 1 rows), (times_shift 1 rows), (unique_times_shift 1 rows).
    apply time_loop_generic. intros t acc. rewrite frame_dict_tie.
    apply frame_loop_generic. intros [s n] acc'. cbn [fst snd].
    rewrite paint_tie, Nat2Z.id. reflexivity.
  - (* offset 0 *)
    change (py_truthy_int 0) with false. cbv iota.
    rewrite zeros_like_tie. f_equal.
    + rewrite (ids_shift0 rows), (segs_shift 0 rows), (times_shift 0 rows), (unique_times_shift 0 rows).
      apply time_loop_generic. intros t acc. rewrite frame_dict_tie.
      apply frame_loop_generic. intros [s n] acc'. cbn [fst snd].
      rewrite paint_tie, Nat2Z.id. reflexivity.
    + rewrite <- (map_id g) at 1. apply map_ext. intros n. lia.
Qed.

(* the graph whose nodes are the rows' ids (the convention of harness/props/c13.py): the second
   component is the id column of the rows the hand model returns *)
Corollary gen_relabel_segmentation_rows_eq : forall (rows : list tnode) (old : list (list Z)),
  GR.gen_relabel_segmentation old (map n_id rows) (map n_id rows) (map n_seg rows) (map tz rows)
  = (fst (relabel_segmentation rows old), map n_id (snd (relabel_segmentation rows old))).
Proof.
  intros rows old. rewrite gen_relabel_segmentation_eq. f_equal.
  unfold relabel_segmentation, shift_rows. cbn [snd]. rewrite !map_map. reflexivity.
Qed.

Print Assumptions gen_relabel_segmentation_eq.
Print Assumptions gen_relabel_segmentation_rows_eq.
