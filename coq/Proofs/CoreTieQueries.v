(* Tie of data_model/solution_tracks.py (Gen/CoreQueries_gen.v, harness/translate_core.py): get_next_track_id,
   get_next_lineage_id, get_track_id, get_lineage_id, get_track_neighbors, has_track_id_at_time = the queries of
   Model/Edit.v.  Imports no other generated file (documentation: Proofs/CoreTie.v). *)
From Coq Require Import ZArith List Bool Lia Arith.
From FT Require Import Base.Dict Model.Edit Model.PyRt Model.PyRt3.
From FT Require Import Gen.CoreQueries_gen.
From FT Require Import Proofs.CoreTieBase.
Import ListNotations.
Open Scope Z_scope.

(* ================================================================== *)
(* 1. data_model/solution_tracks.py                                    *)
(* ================================================================== *)
Theorem gen_get_next_track_id_eq : forall st, gen_get_next_track_id st = Ok (next_trk st) st.
Proof. reflexivity. Qed.
Theorem gen_get_next_lineage_id_eq : forall st, gen_get_next_lineage_id st = Ok (next_lin st) st.
Proof. reflexivity. Qed.

(* the model of tracks.get_track_id is PyRt.py_get_track_id (what the user-action translator maps it to) *)
Theorem gen_get_track_id_eq : forall st n, gen_get_track_id st n = py_get_track_id st n.
Proof.
  intros. unfold gen_get_track_id, py_get_track_id, py_node_attr_req_z, key_is_none.
  destruct (zattr st n KTrack); reflexivity.
Qed.

(* the model of tracks.get_lineage_id(n) is [zattr st n KLin] *)
Theorem gen_get_lineage_id_char : forall st n,
  gen_get_lineage_id st n = if has_node st n then Ok (zattr st n KLin) st else Err EKey st.
Proof.
  intros. unfold gen_get_lineage_id, py_node_attr_get_z, key_is_none. destruct (has_node st n); reflexivity.
Qed.
Theorem gen_get_lineage_id_eq : forall st n, has_node st n = true -> gen_get_lineage_id st n = Ok (zattr st n KLin) st.
Proof. intros st n H. rewrite gen_get_lineage_id_char, H. reflexivity. Qed.

(* list.sort(key=get_time) is the model's stable insertion sort *)
Lemma py_insert_by_time st x l : py_insert_by (fun n => time_of st n) x l = insert_by_time st x l.
Proof. induction l as [|y r IH]; cbn; [reflexivity|]. now rewrite IH. Qed.
Lemma py_sorted_by_time st l : py_sorted_by (fun n => time_of st n) l = sort_by_time st l.
Proof.
  unfold py_sorted_by, sort_by_time. generalize (@nil Z) as acc.
  induction l as [|x r IH]; intros acc; cbn [fold_left]; [reflexivity|]. now rewrite py_insert_by_time, IH.
Qed.

Theorem gen_get_track_neighbors_eq : forall st T t,
  gen_get_track_neighbors st T t = let '(s', r) := track_neighbors st T t in Ok r s'.
Proof.
  intros st T t. unfold gen_get_track_neighbors, track_neighbors, haskey, py_getitem.
  destruct (lookup T (trk_book (bk st))) as [l|] eqn:E; cbn [negb bind]; [|reflexivity].
  rewrite len_eq0. destruct l as [|x r]; [reflexivity|]. cbn [bind]. rewrite E. cbn [bind].
  rewrite py_sorted_by_time.
  set (l' := sort_by_time st (x :: r)).
  set (s' := set_trk_book st (set T l' (trk_book (bk st)))).
  match goal with |- context [py_for_brk _ _ _ ?f] => set (F := f) end.
  assert (L : forall l p, py_for_brk l (p, None) s' F = Ok (scan_neighbors st t l p) s').
  { induction l as [|c q IH]; intros p; cbn [py_for_brk scan_neighbors]; [reflexivity|].
    unfold F at 1. change (time_of s' c) with (time_of st c).
    destruct (time_of st c <? t); cbn [bind fst snd]; [apply IH|].
    destruct (time_of st c >? t); cbn [bind fst snd]; [reflexivity|apply IH]. }
  rewrite L. cbn [bind]. destruct (scan_neighbors st t l' None). reflexivity.
Qed.

Lemma memz_map_time (f : Z -> Z) t l : memz t (map f l) = existsb (fun n => f n =? t) l.
Proof. unfold memz. induction l as [|x r IH]; cbn; [reflexivity|]. now rewrite IH, Z.eqb_sym. Qed.

Theorem gen_has_track_id_at_time_eq : forall st T t,
  gen_has_track_id_at_time st T t = Ok (has_track_at st T t) st.
Proof.
  intros. unfold gen_has_track_id_at_time, has_track_at.
  destruct (lookup T (trk_book (bk st))) as [[|x r]|]; try reflexivity.
  now rewrite memz_map_time.
Qed.

Print Assumptions gen_get_next_track_id_eq.
Print Assumptions gen_get_next_lineage_id_eq.
Print Assumptions gen_get_track_id_eq.
Print Assumptions gen_get_lineage_id_char.
Print Assumptions gen_get_lineage_id_eq.
Print Assumptions gen_get_track_neighbors_eq.
Print Assumptions gen_has_track_id_at_time_eq.
