(* Sessions: every state reachable by user calls INCLUDING undo / redo is well formed and obeys
   the timeline law.

   The C01 laws of Proofs/EditInverseNode.v are stated for edits made on a WF state.  After an
   undo the current state is only known to be observably equal (obs_eq) to a well-formed state of
   the timeline; what obs_eq does not see are the id lookups [bk].  So:

   1. the session invariant [SI] = what is not a function of the observables (cfg_ok, W_dict,
      W_book) plus two configuration facts about the feature table, which no call changes;
      [WF_obs]: the other conjuncts of WF transfer along obs_eq between SI states;
   2. the robust C01 laws with the invariant SI in place of W_dict: every inverse basic action
      keeps W_book; [TrW] = a recorded transition between well-formed states that can be undone and
      redone for ever from SI states, for the five user actions;
   3. one call of the interpreter (Model/EditExec.v) - an edit, a refused edit, a query, OUndo,
      ORedo - keeps the history invariant of Proofs/HistoryGeneric.v between the model's own two
      stacks and a list+cursor timeline of well-formed states;
   4. every finite session; 5. a concrete session. *)
From Coq Require Import ZArith List Bool Lia Relations.
From FT Require Import Base.Dict Model.Edit Model.EditExec Proofs.DictLemmas Proofs.EditInv Proofs.BookLemmas Proofs.EditBook
  Proofs.EditInverse Proofs.EditInverseNode.
From FT Require Proofs.EditWalk Proofs.EditLin Proofs.EditTrk Proofs.EditBasic Proofs.EditGraph Proofs.EditUserEdge
  Proofs.EditSwap Proofs.EditWFEdge Proofs.EditUDN Proofs.EditNodeBasic Proofs.EditUAN Proofs.EditWFNode Proofs.EditFrame
  Proofs.HistoryGeneric.
Import ListNotations.
Open Scope Z_scope.

(* ================================================================== *)
(* 1. the session invariant; WF is a function of it and the observables  *)
(* ================================================================== *)
(* the active managed features are registered features (they are entries of tracks.features) *)
Definition reg_ok (st : state) : Prop :=
  incl (rp_act (ft st)) (reg_node (ft st)) /\ (iou_act (ft st) = true -> In KIou (reg_edge (ft st))).

Record SI (s : state) : Prop := {
  si_cfg : cfg_ok s; si_dict : W_dict s; si_book : W_book s; si_reg : reg_ok s; si_rp : rp_disjoint s }.

Lemma SI_ft s s' : ft s' = ft s -> W_dict s' -> W_book s' -> SI s -> SI s'.
Proof.
  intros Ef WD WB [C _ _ R P]. constructor; [unfold cfg_ok; now rewrite Ef|exact WD|exact WB|unfold reg_ok; now rewrite Ef|unfold rp_disjoint; now rewrite Ef].
Qed.
Lemma WF_SI st : WF st -> reg_ok st -> rp_disjoint st -> SI st.
Proof. intros W R P. constructor; try assumption; apply W. Qed.

Lemma iou_of_not_none st sg u v : iou_of st sg u v <> VNone.
Proof.
  unfold iou_of. destruct (mask_of sg (time_of st u) u); [discriminate|]. destruct (mask_of sg (time_of st v) v); [discriminate|].
  destruct (inter_count _ _ =? 0); discriminate.
Qed.

Theorem WF_obs x s : WF x -> SI s -> obs_eq x s -> WF s.
Proof.
  intros [Cfg WD WFo WT WL WB WS WFr] [Cfgs WDs WBs [Rn Re] Rp] O.
  assert (Rnx : incl (rp_act (ft x)) (reg_node (ft x))) by (now rewrite <- (oe_ft _ _ O)).
  assert (Hdiv : forall u, divides s u <-> divides x u) by (intros u; unfold divides; now rewrite (obs_succ_len x s O WD WDs)).
  assert (Hhead : forall a, head s a -> head x a).
  { intros a [Na Pa]. split; [now apply (oe_nodes _ _ O)|]. intros p Hp. apply Hdiv, Pa. now apply (obs_edge x s O). }
  assert (Hroot : forall a, root s a -> root x a).
  { intros a [Na Pa]. split; [now apply (oe_nodes _ _ O)|]. intros p Hp. apply (Pa p). now apply (obs_edge x s O). }
  constructor; try assumption.
  - exact (obs_W_forest x s O Cfg WD WDs WFo).
  - constructor.
    + intros u v He Hnd. rewrite !(obs_trk x s O Cfg). apply (wt1 x WT); [now apply (obs_edge x s O)|]. intros D. apply Hnd. now apply Hdiv.
    + intros a b Ha Hb E. rewrite !(obs_trk x s O Cfg) in E. apply (wt2 x WT); auto.
  - constructor.
    + intros u v He. rewrite !(obs_lin x s O Cfg). apply (wl1 x WL). now apply (obs_edge x s O).
    + intros a b Ha Hb E. rewrite !(obs_lin x s O Cfg) in E. apply (wl2 x WL); auto.
  - unfold W_seg in *. rewrite (oe_seg _ _ O). destruct (seg x) as [sg|]; [|exact I]. destruct WS as (S1 & S2 & S3). split; [|split].
    + intros n Hn. rewrite (obs_time x s O Cfg). apply S1. now apply (oe_nodes _ _ O).
    + intros t i Hf Hl. destruct (S2 t i Hf Hl) as [A B]. split; [now apply (oe_nodes _ _ O)|now rewrite (obs_time x s O Cfg)].
    + intros n Hn. apply S3. now apply (oe_nodes _ _ O).
  - unfold W_fresh in *. rewrite (oe_seg _ _ O). destruct (seg x) as [sg|]; [|exact I]. destruct WFr as [F1 F2]. split.
    + intros n k Hn Hk. rewrite (oe_ft _ _ O) in Hk. rewrite (obs_time x s O Cfg).
      assert (Hnx : is_node x n) by (now apply (oe_nodes _ _ O)).
      pose proof (oe_nattr _ _ O n k (Rnx k Hk)) as Q. unfold attr_obs in Q. symmetry in Q.
      apply (obsv_Some _ _ _ Q (F1 n k Hnx Hk)). discriminate.
    + intros Ha u v He. rewrite (oe_ft _ _ O) in Ha. rewrite (obs_iou_of x s O Cfg).
      assert (Hex : edge x u v) by (now apply (obs_edge x s O)).
      assert (Hreg : In KIou (reg_edge (ft x))) by (rewrite <- (oe_ft _ _ O); apply Re; now rewrite (oe_ft _ _ O)).
      pose proof (oe_eattr _ _ O u v KIou Hreg) as Q. unfold eattr_obs in Q. symmetry in Q.
      apply (obsv_Some _ _ _ Q (F2 Ha u v Hex)). apply iou_of_not_none.
Qed.

(* ================================================================== *)
(* 2. the robust laws with the lookups: every inverse basic action keeps W_book *)
(* ================================================================== *)
Lemma SI_step s b b' s' : inv_basic s b = Ok b' s' -> SI s -> W_dict s' -> W_book s' -> SI s'.
Proof.
  intros H Ss WD' WB'. pose proof (EditFrame.aux_inv_basic s b) as A. rewrite H in A. cbn [rstate] in A.
  destruct A as (_ & _ & _ & _ & Ef). exact (SI_ft s s' Ef WD' WB' Ss).
Qed.

(* UpdateTrackIDs keeps the lookups when the lineage id is uniform below the start node *)
Lemma upd_track_W_book_down st start newT newL b st' :
  cfg_ok st -> W_dict st -> W_forest st -> lin_down st start -> W_book st ->
  do_upd_track st start newT newL = Ok b st' -> W_book st'.
Proof.
  intros C WD WF Hl WB H. apply (upd_track_W_book_vis st start newT newL b st' C WD WB H).
  intros vis Eb.
  destruct (bfs_forest st WD (wf_in st WF) (wf_time st WF) (S (length (nodes (g st)))) [start] vis
      ltac:(constructor; [intros []|constructor]) ltac:(intros a b' [<-|[]] [<-|[]] _; reflexivity) Eb) as [Hnd Hreach].
  split; [exact Hnd|]. intros _ n Hn. destruct (Hreach n Hn) as (c & [<-|[]] & R). apply Hl. now apply reach_conv.
Qed.

Theorem upd_track_ConsS : forall n st start newT newL b st1,
  cfg_ok st -> W_dict st -> W_forest st -> lin_down st start -> P_trk st start newT ->
  do_upd_track st start newT newL = Ok b st1 -> ConsN SI n (ABasic b) st st1.
Proof.
  induction n as [|k IH]; intros st start newT newL b st1 Cfg WD WF Hlin HP H; [exact Logic.I|].
  cbn [ConsN]. intros s Ss Os. pose proof (si_dict s Ss) as WDs.
  destruct (upd_track_undo_obs st start newT newL b st1 s Cfg WD WF Hlin HP H WDs Os) as (b' & s' & I2 & WD' & O').
  pose proof I2 as I2o.
  cut (SI s' /\ ConsN SI k (ABasic b') s s').
  { intros [Ss' Ck]. exists (ABasic b'), s'. rewrite inv_action_basic, I2o. cbn [bind]. split; [reflexivity|]. split; [exact Ss'|]. split; [exact O'|].
    exact (ConsN_eqv SI k (ABasic b') s st1 s' st Os O' Ck). }
  (* the inverse is an UpdateTrackIDs run in s, and its preconditions hold there *)
  pose proof (EditWalk.do_upd_track_struct st start newT newL _ eq_refl) as SS. rewrite H in SS. cbn [rstate] in SS.
  pose proof SS as (_ & _ & _ & _ & _ & S6 & _).
  assert (Cfg1 : cfg_ok st1) by (unfold cfg_ok; now rewrite S6).
  pose proof (upd_track_W_dict _ _ _ _ _ _ Cfg WD H) as WD1.
  pose proof (EditWalk.same_struct_W_forest _ _ SS WF) as WF1.
  destruct (do_upd_track_char _ _ _ _ _ _ Cfg H) as (oldT & _ & _ & _ & Hs & Ht & Eb & _). subst b.
  destruct (wd_lin st WD start Hs) as [o Eo]. apply zattr_VZ in Eo. rewrite Eo in I2. cbn [inv_basic] in I2.
  pose proof (obs_eq_sym _ _ Os) as Os'.
  destruct (P_trk_flip st start newT newL _ st1 oldT Cfg WD WF Ht HP H) as [_ HP1].
  assert (WFs : W_forest s) by exact (obs_W_forest st1 s Os' Cfg1 WD1 WDs WF1).
  assert (Hls : lin_down s start) by (apply (lin_down_obs st1 s start Os' Cfg1); exact (lin_down_after st start newT newL _ st1 Cfg WD WF Hlin H)).
  split; [exact (SI_step s _ b' s' I2o Ss WD' (upd_track_W_book_down s start oldT (Some o) b' s' (si_cfg s Ss) WDs WFs Hls (si_book s Ss) I2))|].
  apply (IH s start oldT (Some o) b' s'); [exact (obs_cfg st1 s Os' Cfg1)|exact WDs|exact (obs_W_forest st1 s Os' Cfg1 WD1 WDs WF1)| | |exact I2].
  - apply (lin_down_obs st1 s start Os' Cfg1). exact (lin_down_after st start newT newL _ st1 Cfg WD WF Hlin H).
  - exact (P_trk_obs st1 s start oldT Os' Cfg1 WD1 WDs HP1).
Qed.

Theorem edge_ConsS : forall n,
  (forall st u v b st1, cfg_ok st -> W_dict st -> iou_fresh_reg st u v -> do_del_edge st u v = Ok b st1 -> ConsN SI n (ABasic b) st st1) /\
  (forall st u v a b st1, cfg_ok st -> W_dict st -> has_edge st u v = false -> do_add_edge st u v a = Ok b st1 -> ConsN SI n (ABasic b) st st1).
Proof.
  induction n as [|k [IHd IHa]]; [split; intros; exact Logic.I|]. split.
  - intros st u v b st1 Cfg WD Hio H. cbn [ConsN]. intros s Ss Os. pose proof (si_dict s Ss) as WDs.
    destruct (del_edge_undo_obs st u v b st1 s Cfg WD Hio H WDs Os) as (b' & s' & I2 & WD' & O').
    pose proof I2 as I2o.
    cut (SI s' /\ ConsN SI k (ABasic b') s s').
    { intros [Ss' Ck]. exists (ABasic b'), s'. rewrite inv_action_basic, I2o. cbn [bind]. split; [reflexivity|]. split; [exact Ss'|]. split; [exact O'|].
      exact (ConsN_eqv SI k (ABasic b') s st1 s' st Os O' Ck). }
    destruct (del_edge_char _ _ _ _ _ H) as (-> & _ & _ & _ & Ef & _ & Esu). cbn [inv_basic] in I2.
    destruct (succs_drop st st1 u v Esu) as [D1 _].
    assert (Cfg1 : cfg_ok st1) by (unfold cfg_ok; now rewrite Ef).
    split; [exact (SI_step s _ b' s' I2o Ss WD' (add_edge_W_book _ _ _ _ _ _ I2 (si_book s Ss)))|].
    eapply (IHa s u v _ b' s'); [exact (obs_cfg st1 s (obs_eq_sym _ _ Os) Cfg1)|exact WDs| |exact I2].
    rewrite <- (oe_edges _ _ Os), D1, !Z.eqb_refl. reflexivity.
  - intros st u v a b st1 Cfg WD Hne H. cbn [ConsN]. intros s Ss Os. pose proof (si_dict s Ss) as WDs.
    destruct (add_edge_undo_obs st u v a b st1 s WD Hne H WDs Os) as (b' & s' & I2 & WD' & O').
    pose proof I2 as I2o.
    cut (SI s' /\ ConsN SI k (ABasic b') s s').
    { intros [Ss' Ck]. exists (ABasic b'), s'. rewrite inv_action_basic, I2o. cbn [bind]. split; [reflexivity|]. split; [exact Ss'|]. split; [exact O'|].
      exact (ConsN_eqv SI k (ABasic b') s st1 s' st Os O' Ck). }
    pose proof (add_edge_iou_fresh_at _ _ _ _ _ _ H) as Hfr1.
    destruct (add_edge_char _ _ _ _ _ _ H) as (-> & _ & _ & _ & _ & Ef & _). cbn [inv_basic] in I2.
    assert (Cfg1 : cfg_ok st1) by (unfold cfg_ok; now rewrite Ef).
    pose proof (obs_eq_sym _ _ Os) as Os'.
    split; [exact (SI_step s _ b' s' I2o Ss WD' (del_edge_W_book _ _ _ _ _ I2 (si_book s Ss)))|].
    apply (IHd s u v b' s'); [exact (obs_cfg st1 s Os' Cfg1)|exact WDs| |exact I2].
    intros Hreg sg Hs Ha. rewrite (oe_seg _ _ Os') in Hs. rewrite (oe_ft _ _ Os') in Ha.
    pose proof (oe_eattr _ _ Os u v KIou Hreg) as Q. unfold eattr_obs in Q. rewrite (Hfr1 sg Hs Ha) in Q. cbn [obsv] in Q.
    rewrite (obs_iou_of st1 s Os' Cfg1 sg u v). apply obsv_some_inv. rewrite <- Q. unfold iou_of.
    destruct (mask_of sg (time_of st1 u) u); [reflexivity|]. destruct (mask_of sg (time_of st1 v) v); [reflexivity|].
    destruct (inter_count _ _ =? 0); reflexivity.
Qed.

Definition del_edge_ConsS n := proj1 (edge_ConsS n).
Definition add_edge_ConsS n := proj2 (edge_ConsS n).

Theorem node_ConsS : forall k,
  (forall st n pxo b st1, pre_del st n pxo -> do_del_node st n pxo = Ok b st1 -> ConsN SI k (ABasic b) st st1) /\
  (forall st n a px b st1, pre_add st n a px -> do_add_node st n a px = Ok b st1 -> ConsN SI k (ABasic b) st st1).
Proof.
  induction k as [|k [IHd IHa]]; [split; intros; exact Logic.I|]. split.
  - (* DeleteNode: the undo is an AddNode *)
    intros st n pxo b st1 [Cfg WD WF Hrp Hiso Hfr Hex Hpos Hn0] H. cbn [ConsN]. intros s Ss Os. pose proof (si_dict s Ss) as WDs.
    assert (Hpx : del_node_px_ok st n pxo).
    { unfold del_node_px_ok. destruct pxo as [p|]; [|exact I]. intros sg j Hs Hj Hin. destruct (Hex sg Hs) as [_ X]. now apply X. }
    destruct (del_node_undo_obs st n pxo b st1 s WD WF Cfg Hrp Hiso Hfr Hpx Hpos H WDs Os) as (b' & s' & I2 & WD' & O').
    pose proof I2 as I2o.
    cut (SI s' /\ ConsN SI k (ABasic b') s s').
    { intros [Ss' Ck]. exists (ABasic b'), s'. rewrite inv_action_basic, I2o. cbn [bind]. split; [reflexivity|]. split; [exact Ss'|]. split; [exact O'|].
      exact (ConsN_eqv SI k (ABasic b') s st1 s' st Os O' Ck). }
    destruct (EditNodeBasic.do_del_node_WS st n pxo b st1 WD WF H) as (WD1 & WF1 & N1 & _ & _ & _ & _ & Nn & _ & S1 & Hh & _ & _ & Eb).
    subst b. cbn [inv_basic] in I2.
    set (saved := saved_attrs (reg_node (ft st)) (node_attrs st n)) in *. set (px := EditNodeBasic.del_px st n pxo) in *.
    assert (Ef1 : ft st1 = ft st) by apply Hh.
    assert (Cfg1 : cfg_ok st1) by (unfold cfg_ok; now rewrite Ef1).
    pose proof (obs_eq_sym _ _ Os) as Os'.
    assert (Hseg0 : seg st1 = None -> seg st = None).
    { rewrite S1. unfold EditNodeBasic.seg_after. destruct (seg st); [|reflexivity]. destruct (EditNodeBasic.del_px st n pxo); discriminate. }
    assert (Hsin : forall k0 v, In (k0, v) saved -> lookup k0 (node_attrs st n) = Some v /\ v <> VNone /\ In k0 (reg_node (ft st))).
    { intros k0 v Hin. apply saved_attrs_in in Hin. tauto. }
    destruct Cfg as (Cta & Cla & Crt & Crk & Crl).
    destruct (wd_time st WD n Nn) as [t Et]. destruct (wd_track st WD n Nn) as [T ET]. destruct (wd_lin st WD n Nn) as [L EL].
    assert (Hns : ~ is_node s n) by (rewrite (oe_nodes _ _ Os'), N1; tauto).
    split; [exact (SI_step s _ b' s' I2o Ss WD' (add_node_W_book s n saved px b' s' (si_cfg s Ss) Hns I2 (si_book s Ss)))|].
    apply (IHa s n saved px b' s'); [|exact I2]. constructor.
    + exact (obs_cfg st1 s Os' Cfg1).
    + exact WDs.
    + exact (obs_W_forest st1 s Os' Cfg1 WD1 WDs WF1).
    + apply (obs_rp_disjoint st1 s Os'). unfold rp_disjoint. now rewrite Ef1.
    + rewrite (oe_nodes _ _ Os'), N1. tauto.
    + apply (add_node_px_ok_seg st1 s n saved px (oe_seg _ _ Os')).
      apply (del_node_then_px_ok st n pxo saved px st1 WD Hex Hn0); [|exact H].
      intros v Hin. destruct (Hsin KTime v Hin) as (E & _). exact E.
    + intros k0 v v' E Hin. apply lookup_In in E. destruct (Hsin k0 v E) as (A & _). destruct (Hsin k0 v' Hin) as (A' & _). congruence.
    + exists t. apply saved_attrs_lookup; [exact Crt|exact Et|discriminate].
    + exists T. apply saved_attrs_lookup; [exact Crk|exact ET|discriminate].
    + exists L. apply saved_attrs_lookup; [exact Crl|exact EL|discriminate].
    + intros Hs k0 Hk0. rewrite (oe_seg _ _ Os') in Hs. rewrite (oe_ft _ _ Os'), Ef1 in Hk0 |- *.
      destruct (Hpos (Hseg0 Hs) k0 Hk0) as (Hr & v & Ev & Hv). split; [exact Hr|]. exists v. split; [|exact Hv].
      now apply saved_attrs_lookup.
    + intros Hs. apply Hn0. intros Hs0. apply Hs. rewrite (oe_seg _ _ Os'), S1. unfold EditNodeBasic.seg_after. rewrite Hs0. now destruct (EditNodeBasic.del_px st n pxo).
  - (* AddNode: the undo is a DeleteNode *)
    intros st n a px b st1 P H. pose proof P as [Cfg WD WF Hrp Hn Hpx Hcons Htm Htk Hli Hpos Hn0]. cbn [ConsN]. intros s Ss Os. pose proof (si_dict s Ss) as WDs.
    pose proof (pre_add_W_dict st n a px b st1 P H) as WD1.
    pose proof (add_node_W_forest st n a px b st1 WD Hn Hrp H WF) as WF1.
    destruct (add_node_undo_obs st n a px b st1 s Cfg WD Hn Hrp Hpx WD1 WF1 H WDs Os) as (b' & s' & I2 & WD' & O').
    pose proof I2 as I2o.
    cut (SI s' /\ ConsN SI k (ABasic b') s s').
    { intros [Ss' Ck]. exists (ABasic b'), s'. rewrite inv_action_basic, I2o. cbn [bind]. split; [reflexivity|]. split; [exact Ss'|]. split; [exact O'|].
      exact (ConsN_eqv SI k (ABasic b') s st1 s' st Os O' Ck). }
    destruct (add_node_effect _ _ _ _ _ _ WD Hn Hrp H) as (-> & Ef & Hn1 & Hsn & Hadj & Hplain & Hrpv). cbn [inv_basic] in I2.
    assert (Cfg1 : cfg_ok st1) by (unfold cfg_ok; now rewrite Ef).
    pose proof (obs_eq_sym _ _ Os) as Os'.
    split; [exact (SI_step s _ b' s' I2o Ss WD' (del_node_W_book s n None b' s' (si_cfg s Ss) WDs I2 (si_book s Ss)))|].
    apply (IHd s n None b' s'); [|exact I2]. constructor.
    + exact (obs_cfg st1 s Os' Cfg1).
    + exact WDs.
    + exact (obs_W_forest st1 s Os' Cfg1 WD1 WDs WF1).
    + apply (obs_rp_disjoint st1 s Os'). unfold rp_disjoint. now rewrite Ef.
    + intros m. rewrite <- !(oe_edges _ _ Os). destruct (isolated_non_node st n WD Hn m) as [A B]. unfold has_edge in *. now rewrite !Hadj.
    + intros sg Hs k0 Hi Hk0. rewrite (oe_seg _ _ Os') in Hs. rewrite (oe_ft _ _ Os') in Hi, Hk0.
      pose proof (oe_nattr _ _ Os' n k0 Hk0) as Q. unfold attr_obs in Q. rewrite Q. rewrite Ef in Hi.
      rewrite (Hrpv sg k0 Hs Hi). now rewrite (obs_time st1 s Os' Cfg1).
    + exact I.
    + intros Hs k0 Hk0. rewrite (oe_seg _ _ Os') in Hs. rewrite (oe_ft _ _ Os'), Ef in Hk0 |- *.
      destruct (Hpos (proj1 Hsn Hs) k0 Hk0) as (Hr & v & Ev & Hv). split; [exact Hr|]. exists v. split; [|exact Hv].
      assert (E1 : attr st1 n k0 = Some v).
      { rewrite Hplain by (now right). apply last_binding_const; [intros v' Hv'; exact (Hcons k0 v v' Ev Hv')|eapply lookup_Some_keys; eauto]. }
      assert (Hk1 : In k0 (reg_node (ft st1))) by (now rewrite Ef).
      pose proof (oe_nattr _ _ Os' n k0 Hk1) as Q. unfold attr_obs in Q. symmetry in Q. exact (obsv_Some _ _ v Q E1 Hv).
    + intros Hs. apply Hn0. intros Hs0. apply Hs. rewrite (oe_seg _ _ Os'). now apply Hsn.
Qed.

Definition del_node_ConsS k := proj1 (node_ConsS k).
Definition add_node_ConsS k := proj2 (node_ConsS k).

(* ---- the composites: the proofs of Proofs/EditInverseNode.v with the invariant SI (the composition
        principle and the chains do not depend on the invariant; only the basic laws do) ---- *)
Theorem ude_ConsS n st u v a st' : WF st -> user_delete_edge_core st u v = Ok a st' -> ConsN SI n a st st'.
Proof.
  intros [Cfg WD WFo WT WL WB WS WFr] H. unfold user_delete_edge_core in H.
  destruct (has_edge st u v) eqn:He; [|discriminate]. cbn [negb] in H.
  destruct (do_del_edge st u v) as [b1 s1|e1 s1] eqn:H1; [|discriminate]. cbn [bind] in H.
  destruct (EditBasic.do_del_edge_WS st u v b1 s1 WD WFo H1) as (WD1 & WF1 & E1 & N1 & A1 & (_ & Rft & _)).
  assert (Cfg1 : cfg_ok s1) by (unfold cfg_ok; now rewrite Rft).
  pose proof (del_edge_W_book _ _ _ _ _ H1 WB) as WB1.
  assert (Htrk1 : forall m, trk s1 m = trk st m) by (intros m; unfold trk, zattr; now rewrite A1).
  assert (Hlin1 : forall m, lin s1 m = lin st m) by (intros m; unfold lin, zattr; now rewrite A1).
  assert (Htime1 : forall m, time_of s1 m = time_of st m) by (intros m; unfold time_of, zattr; now rewrite A1).
  assert (Hsub1 : forall x y, edge s1 x y -> edge st x y) by (intros x y Hac; now apply E1 in Hac).
  assert (Hld1 : forall x, lin_down s1 x) by (intros x; now apply (lin_down_sub st s1 x WL Hsub1 Hlin1)).
  destruct (wd_edge_nodes st WD u v He) as [Nu Nv].
  assert (Hio : iou_fresh_reg st u v) by (intros _; exact (W_fresh_iou_at st u v WFr He)).
  assert (Hch1 : forall c, edge st u c -> forall a, In a (EditTrk.chain s1 (length (nodes (g s1))) c) -> successors s1 a = successors st a).
  { intros c Huc a0 Ha. apply (del_edge_succ_other _ _ _ _ _ _ H1). intros ->.
    pose proof (wf_time st WFo u c Huc). destruct (EditTrk.chain_time s1 WF1 _ c u Ha) as [E|T]; [subst; lia|rewrite !Htime1 in T; lia]. }
  pose proof (del_edge_ConsS n st u v b1 s1 Cfg WD Hio H1) as K1.
  destruct (out_degree s1 u =? 0) eqn:Eod.
  - destruct (do_upd_track s1 v (next_trk s1) (Some (next_lin s1))) as [b2 s2|e2 s2] eqn:H2; [|discriminate].
    cbn [bind] in H. injection H as <- <-.
    assert (HP : P_trk s1 v (next_trk s1)).
    { right. apply (trk_pre_sub st s1 v _ WD WFo WT WF1 Htrk1 Htime1 (Hch1 v He) Nv).
      intros c R _. apply (next_trk_fresh s1 WB1 c). apply (EditWalk.reach_is_node s1 v c WD1); [unfold is_node; now rewrite N1|exact R]. }
    apply group_ConsN. apply ch_cons with (m := s1); [exact K1|].
    apply ch_cons with (m := s2); [exact (upd_track_ConsS n s1 v _ _ b2 s2 Cfg1 WD1 WF1 (Hld1 v) HP H2)|constructor; apply obs_eq_refl].
  - destruct (out_degree s1 u =? 1) eqn:Eod1; [|discriminate].
    destruct (successors s1 u) as [|sib rest] eqn:Es; [discriminate|]. destruct (zattr s1 u KTrack) as [t|] eqn:Et; [|discriminate].
    destruct (do_upd_track s1 sib t None) as [b2 s2|e2 s2] eqn:H2; [|discriminate]. cbn [bind] in H.
    destruct (zattr s2 v KTrack) as [tv|] eqn:Etv; [|discriminate].
    destruct (do_upd_track s2 v tv (Some (next_lin s2))) as [b3 s3|e3 s3] eqn:H3; [|discriminate].
    cbn [bind] in H. injection H as <- <-.
    assert (Hsib1 : edge s1 u sib) by (apply edge_successors; rewrite Es; now left).
    assert (Hsib : edge st u sib /\ sib <> v).
    { apply E1 in Hsib1. destruct Hsib1 as [A B]. split; [exact A|]. intros ->. apply B. auto. }
    assert (Hdiv : divides st u).
    { unfold divides. apply (two_in_length (successors st u) v sib); [now apply edge_successors|apply edge_successors; apply Hsib|]. intros E. now apply (proj2 Hsib). }
    assert (HP2 : P_trk s1 sib t).
    { right. apply (trk_pre_sub st s1 sib t WD WFo WT WF1 Htrk1 Htime1 (Hch1 sib (proj1 Hsib)) (proj2 (wd_edge_nodes st WD u sib (proj1 Hsib)))).
      intros c R _ Hc. apply (trk_below_division st u sib c WD WFo WT (proj1 Hsib) Hdiv); [now apply (EditLin.reach_sub st s1 Hsub1)|].
      rewrite <- !Htrk1. rewrite Hc. symmetry. exact Et. }
    destruct (upd_track_keeps _ _ _ _ _ _ Cfg1 WD1 WF1 H2) as (Cfg2 & WD2 & WF2 & Ei2 & Es2 & _ & L2).
    assert (Hsub2 : forall x y, edge s2 x y -> edge st x y) by (intros x y Hac; apply Hsub1; unfold edge, has_edge, adj in *; now rewrite <- Es2).
    assert (Hlin2 : forall m, lin s2 m = lin st m) by (intros m; rewrite <- Hlin1; now apply L2).
    assert (HP3 : P_trk s2 v tv) by (left; exact Etv).
    apply group_ConsN. apply ch_cons with (m := s1); [exact K1|].
    apply ch_cons with (m := s2); [exact (upd_track_ConsS n s1 sib t None b2 s2 Cfg1 WD1 WF1 (Hld1 sib) HP2 H2)|].
    apply ch_cons with (m := s3); [|constructor; apply obs_eq_refl].
    exact (upd_track_ConsS n s2 v tv _ b3 s3 Cfg2 WD2 WF2 (lin_down_sub st s2 v WL Hsub2 Hlin2) HP3 H3).
Qed.

Lemma uae_tail_ConsS n pre s u v a sf :
  cfg_ok s -> W_dict s -> W_forest s -> W_trk s -> W_lin s -> EditTrk.trk_bounded s ->
  is_node s u -> is_node s v -> time_of s u < time_of s v -> (forall p, ~ edge s p v) ->
  EditLin.uae_tail pre s u v = Ok a sf ->
  exists tail, a = AGroup (pre ++ tail) /\ Chain (ConsN SI n) tail s sf.
Proof.
  intros Cfg WD WF WT WL Hb Nu Nv Ht Hnp H. unfold EditLin.uae_tail in H. cbv zeta in H.
  assert (Hld : forall x, lin_down s x) by (intros x; now apply lin_down_of_W_lin).
  assert (Hsame : forall c newT, is_node s c -> (forall m, EditWalk.reach s c m -> m <> c -> trk s m <> Some newT) -> P_trk s c newT).
  { intros c newT Nc Hn. right. apply (trk_pre_sub s s c newT WD WF WT WF); auto. }
  destruct (out_degree s u =? 0) eqn:Eod.
  - destruct (zattr s u KTrack) as [t|] eqn:Et; [|discriminate].
    destruct (do_upd_track s v t (zattr s u KLin)) as [b s2|e s2] eqn:H2; [|discriminate]. cbn [bind] in H.
    destruct (do_add_edge s2 u v []) as [b' s3|e s3] eqn:H3; [|discriminate]. cbn [bind] in H. injection H as <- <-.
    exists [ABasic b; ABasic b']. split; [now rewrite <- app_assoc|].
    destruct (upd_track_keeps _ _ _ _ _ _ Cfg WD WF H2) as (Cfg2 & WD2 & WF2 & Ei2 & Es2 & _).
    assert (Hne : has_edge s2 u v = false).
    { destruct (has_edge s2 u v) eqn:E; [|reflexivity]. exfalso. apply (Hnp u). unfold edge, has_edge, adj in *. now rewrite <- Es2. }
    assert (HP : P_trk s v t).
    { apply Hsame; [exact Nv|]. intros m R _ Hm. apply (trk_join_pre s u v m WD WF WT Nu Nv Ht Hnp R). rewrite Hm. symmetry. exact Et. }
    apply ch_cons with (m := s2); [exact (upd_track_ConsS n s v t _ b s2 Cfg WD WF (Hld v) HP H2)|].
    apply ch_cons with (m := s3); [exact (add_edge_ConsS n s2 u v [] b' s3 Cfg2 WD2 Hne H3)|constructor; apply obs_eq_refl].
  - destruct (out_degree s u =? 1) eqn:Eod1; [|discriminate].
    destruct (successors s u) as [|c rest] eqn:Es; [discriminate|].
    destruct (do_upd_track s c (next_trk s) None) as [b s2|e s2] eqn:H2; [|discriminate]. cbn [bind] in H.
    destruct (zattr s2 v KTrack) as [tv|] eqn:Etv; [|discriminate].
    destruct (do_upd_track s2 v tv (zattr s2 u KLin)) as [b2 s3|e s3] eqn:H3; [|discriminate]. cbn [bind] in H.
    destruct (do_add_edge s3 u v []) as [b' s4|e s4] eqn:H4; [|discriminate]. cbn [bind] in H. injection H as <- <-.
    exists [ABasic b; ABasic b2; ABasic b']. split; [now rewrite <- app_assoc|].
    destruct (upd_track_keeps _ _ _ _ _ _ Cfg WD WF H2) as (Cfg2 & WD2 & WF2 & Ei2 & Es2 & F2 & L2).
    destruct (upd_track_keeps _ _ _ _ _ _ Cfg2 WD2 WF2 H3) as (Cfg3 & WD3 & WF3 & Ei3 & Es3 & _).
    assert (Hne : has_edge s3 u v = false).
    { destruct (has_edge s3 u v) eqn:E; [|reflexivity]. exfalso. apply (Hnp u). unfold edge, has_edge, adj in *. now rewrite <- Es2, <- Es3. }
    assert (HP3 : P_trk s2 v tv) by (left; exact Etv).
    assert (Hld2 : lin_down s2 v).
    { apply (lin_down_sub s s2 v WL); [|now apply L2]. intros x y Hxy. unfold edge, has_edge, adj in *. now rewrite <- Es2. }
    assert (Nc : is_node s c).
    { apply (wd_edge_nodes s WD u c). apply edge_successors. rewrite Es. now left. }
    assert (HP2 : P_trk s c (next_trk s)).
    { apply Hsame; [exact Nc|]. intros m R _. apply (EditTrk.trk_bounded_fresh s Hb m). now apply (EditWalk.reach_is_node s c m WD Nc). }
    apply ch_cons with (m := s2); [exact (upd_track_ConsS n s c _ None b s2 Cfg WD WF (Hld c) HP2 H2)|].
    apply ch_cons with (m := s3); [exact (upd_track_ConsS n s2 v tv _ b2 s3 Cfg2 WD2 WF2 Hld2 HP3 H3)|].
    apply ch_cons with (m := s4); [exact (add_edge_ConsS n s3 u v [] b' s4 Cfg3 WD3 Hne H4)|constructor; apply obs_eq_refl].
Qed.

Theorem uae_ConsS n st u v force a st' : WF st -> user_add_edge_core st u v force = Ok a st' -> ConsN SI n a st st'.
Proof.
  intros W H. pose proof W as [Cfg WD WFo WT WL WB WS WFr]. rewrite EditLin.uae_core_unfold in H.
  destruct (has_node st u) eqn:Hu; [|discriminate]. destruct (has_node st v) eqn:Hv; [|discriminate]. cbn [negb] in H.
  destruct (time_of st u >=? time_of st v) eqn:Et; [discriminate|].
  destruct (out_degree st u - (if has_edge st u v then 1 else 0) >? 1); [discriminate|].
  apply has_node_is_node in Hu. apply has_node_is_node in Hv.
  assert (Ht : time_of st u < time_of st v) by (rewrite Z.geb_leb in Et; apply Z.leb_gt in Et; lia).
  destruct (in_degree st v >? 0) eqn:Ein.
  - destruct force; cbn [negb] in H; [|discriminate].
    destruct (predecessors st v) as [|p r] eqn:Ep.
    { exfalso. unfold in_degree in Ein. rewrite Ep in Ein. discriminate. }
    assert (Hpv : is_node st p /\ edge st p v) by (apply EditGraph.in_predecessors; rewrite Ep; now left).
    destruct Hpv as [Np Epv].
    unfold user_delete_edge in H. rewrite top_wrap_false in H.
    destruct (user_delete_edge_core st p v) as [a0 s|e s] eqn:Hude; [|discriminate]. cbn [bind] in H.
    destruct (EditUserEdge.ude_core_spec st p v WD WFo) as [_ Hy]. destruct (Hy Epv) as (a0' & s0 & H0 & WDs & WFs & Gs & Es & _).
    rewrite Hude in H0. injection H0 as <- <-.
    destruct (EditLin.ude_core_LWF st p v a0 s (EditLin.Build_LWF st Cfg WD WFo WL WB) Hude) as [Cfgs _ _ WLs WBs].
    destruct (EditTrk.ude_trk st p v WD WFo WT (EditTrk.W_book_trk_bounded st WB) (proj1 Cfg) Epv) as (a1 & s1 & H1 & WTs & Hbs & _).
    rewrite Hude in H1. injection H1 as <- <-.
    assert (Nus : is_node s u) by (now apply (EditUserEdge.gstep_is_node _ _ _ Gs)).
    assert (Nvs : is_node s v) by (now apply (EditUserEdge.gstep_is_node _ _ _ Gs)).
    assert (Hts : time_of s u < time_of s v) by (rewrite !(EditUserEdge.gstep_time _ _ _ Gs); exact Ht).
    assert (Hnp : forall q, ~ edge s q v).
    { intros q Hq. apply Es in Hq. destruct Hq as [Hq Hn]. apply Hn. split; [|reflexivity]. apply (wf_in st WFo q p v Hq Epv). }
    destruct (uae_tail_ConsS n [a0] s u v a st' Cfgs WDs WFs WTs WLs Hbs Nus Nvs Hts Hnp H) as (tail & -> & Ctail).
    apply group_ConsN. cbn [app]. apply ch_cons with (m := s); [exact (ude_ConsS n st p v a0 s W Hude)|exact Ctail].
  - assert (Hnp : forall q, ~ edge st q v).
    { intros q Hq. assert (In q (predecessors st v)) as Hin by (apply EditGraph.in_predecessors; split; [apply (wd_edge_nodes st WD q v Hq)|exact Hq]).
      assert (in_degree st v >? 0 = true) by (apply EditUserEdge.in_degree_pos; eauto). congruence. }
    cbn [bind] in H.
    destruct (uae_tail_ConsS n [] st u v a st' Cfg WD WFo WT WL (EditTrk.W_book_trk_bounded st WB) Hu Hv Ht Hnp H) as (tail & -> & Ctail).
    apply group_ConsN. exact Ctail.
Qed.

Lemma opt_cut_chainS k s0 s po n acc r s' : WF s -> Chain (ConsN SI k) acc s0 s ->
  EditSwap.opt_cut s po n acc = Ok r s' -> WF s' /\ Chain (ConsN SI k) r s0 s'.
Proof.
  intros W C H. unfold EditSwap.opt_cut in H. destruct po as [p|]; [|injection H as <- <-; auto].
  unfold user_delete_edge in H. rewrite top_wrap_false in H.
  destruct (user_delete_edge_core s p n) as [a s1|e s1] eqn:Hc; [|discriminate]. cbn [bind] in H. injection H as <- <-.
  split; [exact (EditWFEdge.ude_core_WF _ _ _ _ _ W Hc)|]. apply Chain_snoc with (m := s); [exact C|]. exact (ude_ConsS k _ _ _ _ _ W Hc).
Qed.

Lemma opt_add_chainS k s0 s po n acc r s' : WF s -> Chain (ConsN SI k) acc s0 s ->
  EditSwap.opt_add s po n acc = Ok r s' -> WF s' /\ Chain (ConsN SI k) r s0 s'.
Proof.
  intros W C H. unfold EditSwap.opt_add in H. destruct po as [p|]; [|injection H as <- <-; auto].
  unfold user_add_edge in H. rewrite top_wrap_false in H.
  destruct (user_add_edge_core s p n false) as [a s1|e s1] eqn:Hc; [|discriminate]. cbn [bind] in H. injection H as <- <-.
  split; [exact (EditWFEdge.uae_core_WF _ _ _ _ _ _ W Hc)|]. apply Chain_snoc with (m := s); [exact C|]. exact (uae_ConsS k _ _ _ _ _ _ W Hc).
Qed.

Theorem swap_ConsS k st n1 n2 a st' : WF st -> user_swap_core st n1 n2 = Ok a st' -> ConsN SI k a st st'.
Proof.
  intros W H. pose proof (EditSwap.swap_core_cases st n1 n2) as C.
  destruct (EditSwap.swap_refused st n1 n2) as [e|]; [congruence|]. destruct C as (Hc & _). rewrite Hc in H. clear Hc.
  unfold EditSwap.swap_steps in H.
  destruct (EditSwap.opt_cut st (EditSwap.pred1 st n1) n1 []) as [a1 s1|e s1] eqn:H1; [|discriminate]. cbn [bind] in H.
  destruct (EditSwap.opt_cut s1 (EditSwap.pred1 st n2) n2 a1) as [a2 s2|e s2] eqn:H2; [|discriminate]. cbn [bind] in H.
  destruct (EditSwap.opt_add s2 (EditSwap.pred1 st n1) n2 a2) as [a3 s3|e s3] eqn:H3; [|discriminate]. cbn [bind] in H.
  destruct (EditSwap.opt_add s3 (EditSwap.pred1 st n2) n1 a3) as [a4 s4|e s4] eqn:H4; [|discriminate]. cbn [bind] in H.
  injection H as <- <-.
  destruct (opt_cut_chainS k st st _ _ _ _ _ W (ch_nil _ st st (obs_eq_refl st)) H1) as [W1 C1].
  destruct (opt_cut_chainS k st s1 _ _ _ _ _ W1 C1 H2) as [W2 C2].
  destruct (opt_add_chainS k st s2 _ _ _ _ _ W2 C2 H3) as [W3 C3].
  destruct (opt_add_chainS k st s3 _ _ _ _ _ W3 C3 H4) as [W4 C4].
  now apply group_ConsN.
Qed.

Lemma Chain_end_eqvS n l x y y' : Chain (ConsN SI n) l x y -> obs_eq y y' -> Chain (ConsN SI n) l x y'.
Proof.
  intros C. revert y'. induction C as [x y Hxy|a l x m y Ha C IH]; intros y' Hy; [constructor; eapply obs_eq_trans; eauto|econstructor; eauto].
Qed.

Lemma udn_succs_chainS k n s0 : forall cs s acc acts s', J s -> (forall c, In c cs -> edge s n c) -> NoDup cs ->
  Chain (ConsN SI k) acc s0 s -> udn_succs n cs s acc = Ok acts s' -> Chain (ConsN SI k) acts s0 s' /\ J s'.
Proof.
  induction cs as [|c r IH]; intros s acc acts s' Js He Hnd C H; cbn [udn_succs] in H.
  - injection H as <- <-. auto.
  - destruct (do_del_edge s n c) as [b s1|e s1] eqn:H1; [|discriminate]. cbn [bind] in H.
    inversion Hnd as [|? ? Hc Hr]; subst.
    assert (Ec : edge s n c) by (apply He; now left).
    pose proof (EditWFEdge.estep_del_edge s n c) as E. rewrite H1 in E. cbn [rstate] in E.
    pose proof (del_edge_W_dict _ _ _ _ _ H1 (j_dict s Js)) as WD1.
    apply (IH s1 (acc ++ [ABasic b]) acts s'); [exact (J_estep s s1 E WD1 Js)| |exact Hr| |exact H].
    + intros c0 Hc0. destruct (del_edge_char _ _ _ _ _ H1) as (_ & _ & _ & _ & _ & _ & Esu). destruct (succs_drop s s1 n c Esu) as [D1 _].
      unfold edge. rewrite D1. assert (Hne : c0 <> c) by (intros ->; contradiction).
      destruct (Z.eqb_spec c0 c); [contradiction|]. rewrite andb_false_r. cbn [negb andb]. apply He. now right.
    + apply Chain_snoc with (m := s); [exact C|]. exact (del_edge_ConsS k s n c b s1 (j_cfg s Js) (j_dict s Js) (fun _ => W_fresh_iou_at s n c (j_fresh s Js) Ec) H1).
Qed.

Lemma udn_orphans_chainS k s0 : forall os s acc acts s', J s -> W_forest s -> (forall a c, edge s a c -> lin s a = lin s c) ->
  (forall o, In o os -> is_node s o /\ forall q, ~ edge s q o) ->
  Chain (ConsN SI k) acc s0 s -> udn_orphans os s acc = Ok acts s' -> Chain (ConsN SI k) acts s0 s' /\ J s'.
Proof.
  induction os as [|o r IH]; intros s acc acts s' Js WF L1 Hroot C H; cbn [udn_orphans] in H.
  - injection H as <- <-. auto.
  - destruct (zattr s o KTrack) as [t|] eqn:Et; [|discriminate].
    destruct (do_upd_track s o t (Some (next_lin s))) as [b s1|e s1] eqn:H1; [|discriminate]. cbn [bind] in H.
    pose proof Js as [Cfg WD WFr WS]. destruct (Hroot o (or_introl eq_refl)) as [No Ro].
    destruct (upd_track_keeps _ _ _ _ _ _ Cfg WD WF H1) as (Cfg1 & WD1 & WF1 & Ei1 & Es1 & _).
    assert (E1 : forall x y, edge s1 x y <-> edge s x y) by (intros x y; unfold edge, has_edge, adj; now rewrite Es1).
    pose proof (EditWFEdge.estep_upd_track s o t (Some (next_lin s))) as E. rewrite H1 in E. cbn [rstate] in E.
    destruct (EditLin.do_upd_track_lin s o t (Some (next_lin s)) b s1 WD (proj1 Cfg) (proj1 (proj2 Cfg)) No H1) as [Lin1 Lout1].
    assert (L11 : forall a c, edge s1 a c -> lin s1 a = lin s1 c).
    { intros a c Hac. apply E1 in Hac. destruct (EditLin.reach_dec s WD WF o a) as [Ra|Ra].
      - rewrite (Lin1 a Ra), (Lin1 c); [reflexivity|]. eapply rt_trans; [exact Ra|now apply rt_step].
      - assert (Rc : ~ EditWalk.reach s o c).
        { intros Rc. destruct (EditLin.reach_last s o c Rc) as [->|(p & Rp & Hp)]; [exact (Ro a Hac)|].
          apply Ra. now rewrite (wf_in s WF a p c Hac Hp). }
        rewrite (Lout1 a Ra), (Lout1 c Rc). now apply L1. }
    apply (IH s1 (acc ++ [ABasic b]) acts s'); [exact (J_estep s s1 E WD1 Js)|exact WF1|exact L11| | |exact H].
    + intros o' Ho'. destruct (Hroot o' (or_intror Ho')) as [A B]. split; [unfold is_node; now rewrite Ei1|].
      intros q Hq. apply (B q). now apply E1.
    + apply Chain_snoc with (m := s); [exact C|]. exact (upd_track_ConsS k s o t _ b s1 Cfg WD WF (lin_down_of_L1 s o L1) (or_introl Et) H1).
Qed.

Lemma udn_preds_chainS k st n acts s1 : WF st -> is_node st n -> udn_preds n (predecessors st n) st [] = Ok acts s1 ->
  Chain (ConsN SI k) acts st s1 /\ J s1.
Proof.
  intros W Nn H. pose proof (WF_J st W) as Js. pose proof W as [Cfg WD WFo WT WL WB WS WFr].
  destruct (EditUDN.preds_cases st n WD WFo) as [[Ep Hno]|(p & Ep & Hp & Hall)]; rewrite Ep in H; cbn [udn_preds] in H.
  - injection H as <- <-. split; [constructor; apply obs_eq_refl|exact Js].
  - cbv zeta in H.
    assert (Hcut : forall s acc b2 s2, J s -> edge s p n -> Chain (ConsN SI k) acc st s -> do_del_edge s p n = Ok b2 s2 ->
              Chain (ConsN SI k) (acc ++ [ABasic b2]) st s2 /\ J s2).
    { intros s acc b2 s2 Jss Eps C H2.
      pose proof (EditWFEdge.estep_del_edge s p n) as E. rewrite H2 in E. cbn [rstate] in E.
      pose proof (del_edge_W_dict _ _ _ _ _ H2 (j_dict s Jss)) as WD2.
      split; [|exact (J_estep s s2 E WD2 Jss)]. apply Chain_snoc with (m := s); [exact C|]. exact (del_edge_ConsS k s p n b2 s2 (j_cfg s Jss) (j_dict s Jss) (fun _ => W_fresh_iou_at s p n (j_fresh s Jss) Eps) H2). }
    destruct (Nat.eqb_spec (length (successors st p)) 2) as [L2|L2].
    + destruct (EditUDN.remove1_sibling st p n WD Hp L2) as (sib & r & Er & Hps & Hsn & Honly). rewrite Er in H.
      destruct (zattr st p KTrack) as [t|] eqn:Et; [|discriminate].
      destruct (do_upd_track st sib t None) as [b sa|e sa] eqn:Ha; [|discriminate]. cbn [bind] in H.
      destruct (do_del_edge sa p n) as [b2 s2|e s2] eqn:H2; [|discriminate]. cbn [bind udn_preds] in H. injection H as <- <-.
      destruct (upd_track_keeps _ _ _ _ _ _ Cfg WD WFo Ha) as (Cfga & WDa & WFa & Eia & Esa & _).
      pose proof (EditWFEdge.estep_upd_track st sib t None) as E. rewrite Ha in E. cbn [rstate] in E.
      assert (Dp : divides st p) by (unfold divides; lia).
      assert (Ns : is_node st sib) by apply (wd_edge_nodes st WD p sib Hps).
      assert (HP : P_trk st sib t).
      { right. apply (trk_pre_sub st st sib t WD WFo WT WFo); auto.
        intros c R _ Hc. apply (trk_below_division st p sib c WD WFo WT Hps Dp R). rewrite Hc. symmetry. exact Et. }
      apply (Hcut sa ([] ++ [ABasic b]) b2 s2 (J_estep st sa E WDa Js)); [unfold edge, has_edge, adj; rewrite Esa; exact Hp| |exact H2].
      apply Chain_snoc with (m := st); [constructor; apply obs_eq_refl|]. exact (upd_track_ConsS k st sib t None b sa Cfg WD WFo (lin_down_of_W_lin st sib WL) HP Ha).
    + cbn [bind] in H. destruct (do_del_edge st p n) as [b2 s2|e s2] eqn:H2; [|discriminate]. cbn [bind udn_preds] in H. injection H as <- <-.
      apply (Hcut st [] b2 s2 Js Hp); [constructor; apply obs_eq_refl|exact H2].
Qed.

Lemma udn_prefix_chainS k st n acts s4 : WF st -> is_node st n -> EditUDN.udn_prefix st n = Ok acts s4 ->
  Chain (ConsN SI k) acts st s4 /\ J s4.
Proof.
  intros W Nn H. pose proof W as [Cfg Hd Hf Ht WL Wb WS WFr]. unfold EditUDN.udn_prefix in H. cbv zeta in H.
  (* phase 1 *)
  destruct (udn_preds n (predecessors st n) st []) as [acts1 s1|e s1] eqn:H1; [|discriminate]. cbn [bind] in H.
  destruct (udn_preds_chainS k st n acts1 s1 W Nn H1) as [C1 J1].
  destruct (EditUDN.udn_preds_spec st n Hd Hf Nn) as (acts1' & s1' & H1' & Hd1 & Hf1 & G1 & E1 & S1 & A1 & B1).
  rewrite H1 in H1'. injection H1' as <- <-.
  pose (LBst := EditUDN.Build_LB st Cfg Hd Hf (wl1 st WL) Wb).
  destruct (EditUDN.udn_preds_rich st n acts1 s1 LBst Nn H1) as (_ & _ & Lin1 & _).
  (* phase 2 *)
  assert (Ecs : successors s1 n = successors st n).
  { rewrite S1. apply EditUDN.filter_neq_notin. intros Hi. apply edge_successors in Hi. exact (EditUDN.edge_irrefl st n Hf Hi). }
  rewrite Ecs in H. pose proof (wd_adj_nodup st Hd n) as Hcsnd.
  destruct (udn_succs n (successors st n) s1 acts1) as [acts2 s2|e s2] eqn:H2; [|discriminate]. cbn [bind] in H.
  assert (Hcs1 : forall c, In c (successors st n) -> edge s1 n c).
  { intros c Hc. apply E1. split; [now apply edge_successors|]. intros ->. apply edge_successors in Hc. exact (EditUDN.edge_irrefl st n Hf Hc). }
  destruct (udn_succs_chainS k n st (successors st n) s1 acts1 acts2 s2 J1 Hcs1 Hcsnd C1 H2) as [C2 J2].
  destruct (EditUDN.udn_succs_spec n (successors st n) s1 acts1 Hd1 Hf1 Hcsnd Hcs1) as (acts2' & s2' & H2' & Hd2 & Hf2 & Hn2 & Ha2 & Hr2 & E2 & S2).
  rewrite H2 in H2'. injection H2' as <- <-.
  assert (G2 : EditUserEdge.gstep st s2) by (eapply EditUserEdge.gstep_trans; [exact G1|now apply EditUserEdge.rest_eq_gstep]).
  assert (E2' : forall x y, edge s2 x y <-> edge st x y /\ x <> n /\ y <> n).
  { intros x y. rewrite E2, E1, <- edge_successors. split.
    - intros [[A B] X]. split; [exact A|split; [|exact B]]. intros ->. apply X. now split.
    - intros (A & B & X). split; [now split|]. intros [D _]. contradiction. }
  (* phase 3 *)
  destruct (wd_track st Hd n Nn) as [T ET]. assert (En : trk st n = Some T) by (now apply zattr_VZ).
  assert (En2 : zattr s2 n KTrack = Some T) by (apply zattr_VZ; now rewrite Ha2, A1).
  rewrite En2 in H.
  destruct (track_neighbors s2 T (time_of s2 n)) as [s3 [p' c']] eqn:Etn.
  assert (Esnd : snd (track_neighbors st T (time_of st n)) = (p', c')).
  { rewrite <- (EditUserEdge.gstep_time _ _ n G2). rewrite <- (EditUDN.track_neighbors_ext st s2 T (time_of s2 n)); [now rewrite Etn| |intros m; apply (EditUserEdge.gstep_time _ _ m G2)].
    destruct Hr2 as (_ & _ & Eb & _). rewrite Eb. apply B1. now apply EditUDN.udn_T_other. }
  destruct (EditUDN.neighbors_of_node st n T p' c' Hd Hf Ht Wb En Esnd) as [HP HC].
  pose proof (EditUDN.track_neighbors_state s2 T (time_of s2 n)) as F3. rewrite Etn in F3. cbv zeta in F3. cbn [fst] in F3.
  destruct F3 as (Eg3 & Es3 & Ef3 & Eu3 & Er3 & El3 & Ec3 & _).
  assert (Cq3 : core_eq s2 s3) by (unfold core_eq; auto).
  pose proof (J_core s2 s3 Cq3 J2) as J3.
  pose proof (Chain_end_eqvS k acts2 st s2 s3 C2 (core_eq_obs s2 s3 Cq3)) as C3.
  assert (Hd3 : W_dict s3) by apply J3.
  assert (Hf3 : W_forest s3) by (now apply (core_W_forest s2 s3)).
  assert (G3 : EditUserEdge.gstep st s3) by (eapply EditUserEdge.gstep_trans; [exact G2|now apply EditUDN.gstep_same_g]).
  assert (E3 : forall x y, edge s3 x y <-> edge st x y /\ x <> n /\ y <> n).
  { intros x y. rewrite (EditLin.edge_same_g s2 s3 x y Eg3). apply E2'. }
  assert (Lin3 : forall m, lin s3 m = lin st m).
  { intros m. rewrite (EditLin.lin_same_g s2 s3 m Eg3), <- Lin1. unfold lin, zattr. now rewrite Ha2. }
  assert (L13 : forall a c, edge s3 a c -> lin s3 a = lin s3 c).
  { intros a c Hac. apply E3 in Hac. rewrite !Lin3. apply (wl1 st WL). tauto. }
  assert (Hroots : forall o, In o (successors st n) -> is_node s3 o /\ forall q, ~ edge s3 q o).
  { intros o Ho. apply edge_successors in Ho. split; [apply (EditUserEdge.gstep_is_node _ _ _ G3); apply (wd_edge_nodes st Hd n o Ho)|].
    intros q Hq. apply E3 in Hq. destruct Hq as (Hq & Hqn & _). apply Hqn. exact (wf_in st Hf q n o Hq Ho). }
  assert (Hnobridge : forall os, (forall o, In o os -> In o (successors st n)) -> udn_orphans os s3 acts2 = Ok acts s4 ->
            Chain (ConsN SI k) acts st s4 /\ J s4).
  { intros os Hos H4. apply (udn_orphans_chainS k st os s3 acts2 acts s4 J3 Hf3 L13); [|exact C3|exact H4].
    intros o Ho. apply Hroots. now apply Hos. }
  assert (Htl : forall (l : list Z) o, In o (if match predecessors st n with [] => false | _ :: _ => true end then l else tl l) -> In o l).
  { intros l o. destruct (predecessors st n); [destruct l; [tauto|now right]|tauto]. }
  destruct p' as [pp|]; destruct c' as [cc|]; cbn [bind] in H;
    try (apply (Hnobridge _ (fun o Ho => Htl _ o Ho) H)).
  (* both neighbours exist: the bridge, and no orphan to relabel *)
  destruct (proj1 (HP pp) eq_refl) as [Hpn Hnd]. pose proof (proj1 (HC cc) eq_refl) as Hsn.
  assert (Hnc : edge st n cc) by (apply edge_successors; rewrite Hsn; now left).
  assert (Hppn : pp <> n) by (intros ->; exact (EditUDN.edge_irrefl st n Hf Hpn)).
  destruct (do_add_edge s3 pp cc []) as [b s3'|e s3'] eqn:H3; [|discriminate]. cbn [bind] in H.
  rewrite Hsn in H. cbn [filter] in H. rewrite Z.eqb_refl in H. cbn [negb] in H.
  assert (Enil : (if match predecessors st n with [] => false | _ :: _ => true end then @nil Z else tl []) = []) by (destruct (predecessors st n); reflexivity).
  rewrite Enil in H. cbn [udn_orphans] in H. injection H as <- <-.
  pose proof (EditWFEdge.estep_add_edge s3 pp cc []) as E. rewrite H3 in E. cbn [rstate] in E.
  pose proof (add_edge_W_dict _ _ _ _ _ _ H3 Hd3) as Hd3'.
  split; [|exact (J_estep s3 s3' E Hd3' J3)].
  apply Chain_snoc with (m := s3); [exact C3|].
  assert (Hne : has_edge s3 pp cc = false).
  { destruct (has_edge s3 pp cc) eqn:Ee; [|reflexivity]. exfalso. apply E3 in Ee. destruct Ee as (Ee & _). apply Hppn. exact (wf_in st Hf pp n cc Ee Hnc). }
  exact (add_edge_ConsS k s3 pp cc [] b s3' (j_cfg s3 J3) Hd3 Hne H3).
Qed.

Lemma udn_ConsS_step k st n pxo a st' : WF st -> user_delete_node_core st n pxo = Ok a st' ->
  exists s4 b, J s4 /\ W_forest s4 /\ EditUserEdge.gstep st s4 /\ is_node s4 n /\ isolated s4 n /\
    do_del_node s4 n pxo = Ok b st' /\ (ConsN SI k (ABasic b) s4 st' -> ConsN SI k a st st').
Proof.
  intros W H. pose proof W as [Cfg Hd Hf Ht WL Wb WS WFr].
  rewrite EditUDN.udn_core_unfold in H. destruct (px_check st pxo); [discriminate|].
  destruct (has_node st n) eqn:Nn; [|discriminate]. cbn [negb] in H. apply has_node_is_node in Nn.
  destruct (EditUDN.udn_prefix st n) as [acts s4|e s4] eqn:H4; [|discriminate]. cbn [bind] in H.
  destruct (do_del_node s4 n pxo) as [b s5|e s5] eqn:H5; [|discriminate]. cbn [bind] in H. injection H as <- <-.
  destruct (udn_prefix_chainS k st n acts s4 W Nn H4) as [C4 J4].
  destruct (EditUDN.udn_prefix_spec st n Hd Hf Ht Wb Nn) as (acts' & s4' & H4' & Hd4 & Hf4 & G4 & E4).
  rewrite H4 in H4'. injection H4' as <- <-.
  assert (Nn4 : is_node s4 n) by (now apply (EditUserEdge.gstep_is_node _ _ _ G4)).
  exists s4, b. split; [exact J4|]. split; [exact Hf4|]. split; [exact G4|]. split; [exact Nn4|]. split; [|split; [exact H5|]].
  - assert (Hno : forall x y, edge s4 x y -> x <> n /\ y <> n).
    { intros x y Hxy. apply E4 in Hxy. destruct Hxy as [(_ & A & B)|B]; [now split|]. destruct (EditUDN.bridge_ends st n x y Hf B) as (A & B' & _). now split. }
    intros m. split.
    + destruct (has_edge s4 n m) eqn:E; [|reflexivity]. exfalso. destruct (Hno n m E) as [A _]. now apply A.
    + destruct (has_edge s4 m n) eqn:E; [|reflexivity]. exfalso. destruct (Hno m n E) as [_ A]. now apply A.
  - intros K. apply group_ConsN. apply Chain_snoc with (m := s4); [exact C4|exact K].
Qed.

Theorem udn_ConsS k st n pxo a st' :
  WF st -> rp_disjoint st -> pos_ok st n -> del_node_px_exact st n pxo ->
  user_delete_node_core st n pxo = Ok a st' -> ConsN SI k a st st'.
Proof.
  intros W Hrp Hpos Hpx H.
  destruct (udn_ConsS_step k st n pxo a st' W H) as (s4 & b & J4 & Hf4 & G4 & Nn4 & Hiso & H5 & K).
  apply K. apply (del_node_ConsS k s4 n pxo b st'); [|exact H5]. constructor.
  - apply J4.
  - apply J4.
  - exact Hf4.
  - unfold rp_disjoint. rewrite (EditUserEdge.gs_ft _ _ G4). exact Hrp.
  - exact Hiso.
  - apply seg_fresh_at_obs. exact (W_fresh_seg_fresh_at s4 n (j_fresh s4 J4) (j_seg s4 J4) Nn4).
  - unfold del_node_px_exact in *. destruct pxo as [p|]; [|exact I]. rewrite (EditUserEdge.gs_seg _ _ G4), (EditUserEdge.gstep_time _ _ n G4). exact Hpx.
  - exact (pos_ok_gstep st s4 n G4 (j_dict s4 J4) Nn4 Hpos).
  - intros Hs. pose proof (j_seg s4 J4) as WS4. unfold W_seg in WS4. destruct (seg s4) as [sg|]; [|congruence]. destruct WS4 as (_ & _ & W3). now apply W3.
Qed.

Lemma uan_cut_chainS k s0 : forall es s acc r s', WF s -> Chain (ConsN SI k) acc s0 s ->
  uan_cut es s acc = Ok r s' -> WF s' /\ Chain (ConsN SI k) r s0 s'.
Proof.
  induction es as [|e rr IH]; intros s acc r s' W C H; cbn [uan_cut] in H.
  - injection H as <- <-. auto.
  - unfold user_delete_edge in H. rewrite top_wrap_false in H.
    destruct (user_delete_edge_core s (fst e) (snd e)) as [x s1|er s1] eqn:Hc; [|discriminate]. cbn [bind] in H.
    apply (IH s1 (acc ++ [x]) r s'); [exact (EditWFEdge.ude_core_WF _ _ _ _ _ W Hc)| |exact H].
    apply Chain_snoc with (m := s); [exact C|exact (ude_ConsS k _ _ _ _ _ W Hc)].
Qed.

Lemma uan_skip_chainS k s0 s pred succ acts r s' : J s -> (forall p c, pred = Some p -> succ = Some c -> edge s p c) ->
  Chain (ConsN SI k) acts s0 s -> EditUAN.uan_skip s pred succ acts = Ok r s' -> Chain (ConsN SI k) r s0 s' /\ J s'.
Proof.
  intros Js He C H. unfold EditUAN.uan_skip in H. destruct pred as [p|]; [destruct succ as [c|]|]; try (injection H as <- <-; auto).
  destruct (do_del_edge s p c) as [b s1|e s1] eqn:H1; [|discriminate]. cbn [bind] in H. injection H as <- <-.
  pose proof (EditWFEdge.estep_del_edge s p c) as E. rewrite H1 in E. cbn [rstate] in E.
  pose proof (del_edge_W_dict _ _ _ _ _ H1 (j_dict s Js)) as WD1.
  split; [|exact (J_estep s s1 E WD1 Js)]. apply Chain_snoc with (m := s); [exact C|]. exact (del_edge_ConsS k s p c b s1 (j_cfg s Js) (j_dict s Js) (fun _ => W_fresh_iou_at s p c (j_fresh s Js) (He p c eq_refl eq_refl)) H1).
Qed.

Lemma uan_link_pred_chainS k s0 s n pred b acts r s' : cfg_ok s -> W_dict s -> (forall p, pred = Some p -> has_edge s p n = false) ->
  Chain (ConsN SI k) (acts ++ [ABasic b]) s0 s -> EditUAN.uan_link_pred s n pred b acts = Ok r s' ->
  Chain (ConsN SI k) r s0 s' /\ cfg_ok s' /\ W_dict s' /\
  (forall x y, has_edge s' x y = true -> has_edge s x y = true \/ (pred = Some x /\ y = n)).
Proof.
  intros Cfg WD Hne C H. unfold EditUAN.uan_link_pred in H. destruct pred as [p|]; [|injection H as <- <-; auto].
  destruct (do_add_edge s p n []) as [b' s1|e s1] eqn:H1; [|discriminate]. cbn [bind] in H. injection H as <- <-.
  split; [|split; [|split; [exact (add_edge_W_dict _ _ _ _ _ _ H1 WD)|]]].
  - change (acts ++ [ABasic b; ABasic b']) with (acts ++ ([ABasic b] ++ [ABasic b'])). rewrite app_assoc.
    apply Chain_snoc with (m := s); [exact C|]. exact (add_edge_ConsS k s p n [] b' s1 Cfg WD (Hne p eq_refl) H1).
  - destruct (add_edge_char _ _ _ _ _ _ H1) as (_ & _ & _ & _ & _ & Ef & _). unfold cfg_ok. now rewrite Ef.
  - intros x y Hxy. rewrite (add_edge_has_edge _ _ _ _ _ _ x y H1) in Hxy. apply orb_true_iff in Hxy. destruct Hxy as [Hxy|Hxy]; [right|now left].
    apply andb_true_iff in Hxy. destruct Hxy as [A B]. apply Z.eqb_eq in A, B. now subst.
Qed.

Lemma uan_link_succ_chainS k s0 s n succ acts r s' : cfg_ok s -> W_dict s -> (forall c, succ = Some c -> has_edge s n c = false) ->
  Chain (ConsN SI k) acts s0 s -> EditUAN.uan_link_succ s n succ acts = Ok r s' ->
  Chain (ConsN SI k) r s0 s' /\ W_dict s'.
Proof.
  intros Cfg WD Hne C H. unfold EditUAN.uan_link_succ in H. destruct succ as [c|]; [|injection H as <- <-; auto].
  destruct (do_add_edge s n c []) as [b' s1|e s1] eqn:H1; [|discriminate]. cbn [bind] in H. injection H as <- <-.
  split; [|exact (add_edge_W_dict _ _ _ _ _ _ H1 WD)].
  apply Chain_snoc with (m := s); [exact C|]. exact (add_edge_ConsS k s n c [] b' s1 Cfg WD (Hne c eq_refl) H1).
Qed.

Lemma uan_ConsS_step k st n a px force act st' :
  WF st -> rp_disjoint st -> EditUAN.attrs_ok a -> user_add_node_core st n a px force = Ok act st' ->
  exists s3 a2 b s4, J s3 /\ W_forest s3 /\ ~ is_node s3 n /\ seg s3 = seg st /\ ft s3 = ft st /\
    NoDup (keys a2) /\ (exists t, lookup KTime a2 = Some (VZ t)) /\ (exists T, lookup KTrack a2 = Some (VZ T)) /\
    (exists L, lookup KLin a2 = Some (VZ L)) /\ (forall k0, k0 <> KTrack -> k0 <> KLin -> lookup k0 a2 = lookup k0 a) /\
    W_dict s4 /\ W_forest s4 /\ do_add_node s3 n a2 px = Ok b s4 /\
    (ConsN SI k (ABasic b) s3 s4 -> ConsN SI k act st st').
Proof.
  intros W Hrp Ao H. pose proof W as [Cfg Hd Hf Ht WL Wb WS WFr].
  pose proof (EditUAN.uan_core_cases st n a px force) as C.
  destruct (EditUAN.uan_refused st n a px force) as [e|] eqn:R; [rewrite C in H; discriminate|]. clear C.
  destruct (EditUAN.uan_after_cuts st n a px force Hd Hf Ht Wb R)
    as (acts & s2 & Hcut & Hc & Hd2 & Hf2 & G & Hn2 & Ed & HP & HS & Hboth & Hpy & Hcq & Hkt & Hkk & Hpos & _ & Hpx). cbv zeta in *.
  rewrite Hc in H. clear Hc.
  (* the cuts *)
  assert (W1 : WF (EditUAN.uan_sorted st a)) by (unfold EditUAN.uan_sorted; now apply EditWFEdge.track_neighbors_WF).
  destruct (EditUAN.uan_sorted_frame st a) as (Eg1 & Es1 & Ef1).
  assert (C1 : Chain (ConsN SI k) [] st (EditUAN.uan_sorted st a)) by (constructor; apply core_eq_obs; unfold core_eq; auto).
  destruct (uan_cut_chainS k st _ _ [] acts s2 W1 C1 Hcut) as [W2 C2].
  pose proof (WF_J s2 W2) as J2.
  (* the attributes of the new node *)
  destruct (EditUAN.uan_attrs_facts st a Ao Hkt Hkk) as (A0 & A1 & And & Alin & Aoth & Aall).
  destruct (EditUAN.uan_lin_attrs_facts s2 (EditUAN.uan_attrs st a) (EditUAN.uan_pred st a) (EditUAN.uan_succ st a) Hd2 And) as (L & L1 & Lnd & Loth & Lall & Llin).
  { rewrite Alin. apply (EditUAN.ao_lin _ Ao). }
  { intros p Hp. apply (HP p Hp). }
  { intros c Hs. apply (HS c Hs). }
  cbv zeta in *. destruct EditUAN.K_distinct as (D1 & D2 & D3).
  remember (EditUAN.uan_pred st a) as pred eqn:EP. remember (EditUAN.uan_succ st a) as succ eqn:ES.
  remember (EditUAN.uan_lin_attrs s2 (EditUAN.uan_attrs st a) pred succ) as a2 eqn:Ea2.
  assert (B0 : lookup KTime a2 = Some (VZ (EditUAN.uan_time a))) by (rewrite Loth by exact D2; exact A0).
  assert (B1 : lookup KTrack a2 = Some (VZ (EditUAN.uan_tid st a))) by (rewrite Loth by exact D3; exact A1).
  unfold EditUAN.uan_splice in H.
  (* 1. the skip edge *)
  destruct (EditUAN.uan_skip s2 pred succ acts) as [r1 s3|e s3] eqn:H1; [|discriminate]. cbn [bind] in H.
  destruct (EditUAN.uan_skip_step s2 pred succ acts Hd2 Hf2 Hboth) as (r1' & s3' & H1' & Hd3 & Hf3 & E3 & Ed3 & _).
  rewrite H1 in H1'. injection H1' as <- <-.
  destruct (uan_skip_chainS k st s2 pred succ acts r1 s3 J2 Hboth C2 H1) as [C3 J3].
  assert (Hn3 : ~ is_node s3 n) by (rewrite (EditUAN.estep_is_node _ _ _ E3); exact Hn2).
  assert (Ef3 : ft s3 = ft st) by (rewrite (EditUAN.estep_ft _ _ E3); apply (EditUserEdge.gs_ft _ _ G)).
  assert (Es3 : seg s3 = seg st) by (rewrite (EditUAN.estep_seg _ _ E3); apply (EditUserEdge.gs_seg _ _ G)).
  assert (Hrp3 : rp_disjoint s3) by (unfold rp_disjoint; now rewrite Ef3).
  (* 2. the node *)
  destruct (do_add_node s3 n a2 px) as [b s4|e s4] eqn:H2; [|discriminate]. cbn [bind] in H.
  destruct (EditNodeBasic.do_add_node_WS s3 n a2 px b s4 _ _ L Hd3 Hf3 Hn3 Hrp3 Lnd B0 B1 L1 H2)
    as (Hd4 & Hf4 & Nd4 & _ & _ & Ed4 & Sn4 & Nin4 & _).
  destruct (add_node_effect _ _ _ _ _ _ Hd3 Hn3 Hrp3 H2) as (_ & Ef4 & _).
  assert (Cfg4 : cfg_ok s4) by (unfold cfg_ok; rewrite Ef4; apply J3).
  (* 3. pred -> n, 4. n -> succ *)
  destruct (EditUAN.uan_link_pred s4 n pred b r1) as [r3 s5|e s5] eqn:H3; [|discriminate]. cbn [bind] in H.
  destruct (EditUAN.uan_link_succ s5 n succ r3) as [r4 s6|e s6] eqn:H4; [|discriminate]. cbn [bind] in H. injection H as <- <-.
  exists s3, a2, b, s4. split; [exact J3|]. split; [exact Hf3|]. split; [exact Hn3|]. split; [exact Es3|]. split; [exact Ef3|].
  split; [exact Lnd|]. split; [eauto|]. split; [eauto|]. split; [eauto|].
  split; [intros k0 K1 K2; rewrite (Loth k0 K2); exact (Aoth k0 K1)|].
  split; [exact Hd4|]. split; [exact Hf4|]. split; [exact H2|]. intros K.
  assert (C4 : Chain (ConsN SI k) (r1 ++ [ABasic b]) st s4) by (apply Chain_snoc with (m := s3); [exact C3|exact K]).
  destruct (uan_link_pred_chainS k st s4 n pred b r1 r3 s5 Cfg4 Hd4) as (C5 & Cfg5 & Hd5 & Ed5); [|exact C4|exact H3|].
  { intros p _. destruct (has_edge s4 p n) eqn:E; [|reflexivity]. exfalso. exact (Nin4 p E). }
  destruct (uan_link_succ_chainS k st s5 n succ r3 r4 s6 Cfg5 Hd5) as (C6 & _); [|exact C5|exact H4|].
  { intros c _. destruct (has_edge s5 n c) eqn:E; [|reflexivity]. exfalso. destruct (Ed5 n c E) as [E4|[Hp _]].
    - apply edge_successors in E4. rewrite Sn4 in E4. destruct E4.
    - destruct (HP n Hp) as [Nn _]. contradiction. }
  now apply group_ConsN.
Qed.

Theorem uan_ConsS k st n a px force act st' :
  WF st -> rp_disjoint st -> EditUAN.attrs_ok a -> add_node_px_ok st n a px -> (seg st <> None -> n <> 0) ->
  (seg st = None -> forall k0, In k0 (pos_keys (ft st)) -> In k0 (reg_node (ft st)) /\ exists v, lookup k0 a = Some v /\ v <> VNone) ->
  user_add_node_core st n a px force = Ok act st' -> ConsN SI k act st st'.
Proof.
  intros W Hrp Ao Hpxok Hn0 Hpos H.
  destruct (uan_ConsS_step k st n a px force act st' W Hrp Ao H)
    as (s3 & a2 & b & s4 & J3 & Hf3 & Hn3 & Es3 & Ef3 & Lnd & Htm & Htk & Hli & Loth & Hd4 & Hf4 & H2 & K).
  apply K. apply (add_node_ConsS k s3 n a2 px b s4); [|exact H2].
  destruct EditUAN.K_distinct as (D1 & D2 & D3). constructor; try assumption.
  - apply J3.
  - apply J3.
  - unfold rp_disjoint. now rewrite Ef3.
  - intros sg Hs. rewrite Es3 in Hs. destruct (Hpxok sg Hs) as (t & Htm' & Hfr & Hno & Hp). exists t. split; [|auto].
    intros v Hin. apply Htm'. apply lookup_In. rewrite <- (Loth KTime D1 D2). now apply In_lookup.
  - intros k0 v v' E Hin. apply (In_lookup k0 a2 v' Lnd) in Hin. congruence.
  - intros Hs k0 Hk0. rewrite Es3 in Hs. rewrite Ef3 in Hk0 |- *. destruct (Hpos Hs k0 Hk0) as (Hr & v & Ev & Hv). split; [exact Hr|].
    destruct (Z.eq_dec k0 KTrack) as [->|K1]; [destruct Htk as [T ET]; exists (VZ T); split; [exact ET|discriminate]|].
    destruct (Z.eq_dec k0 KLin) as [->|K2]; [destruct Hli as [L EL]; exists (VZ L); split; [exact EL|discriminate]|].
    exists v. split; [now rewrite (Loth k0 K1 K2)|exact Hv].
  - now rewrite Es3.
Qed.

(* ================================================================== *)
(* 3. recorded transitions between well-formed states; the history invariant *)
(* ================================================================== *)
Module A := FT.Proofs.HistoryGeneric.

(* a recorded transition from x to y, both well formed, that can be undone / redone for ever from SI states *)
Definition TrW (a : action) (x y : state) : Prop := WF x /\ WF y /\ TrI SI a x y.

Lemma TrW_inv a x y s : TrW a x y -> eqvI SI s y -> eqvI SI (fst (inv_tot s a)) x /\ TrW (snd (inv_tot s a)) y x.
Proof.
  intros (Wx & Wy & T) E. destruct (TrI_inv SI a x y s T E) as [E' T']. split; [exact E'|]. split; [exact Wy|]. split; [exact Wx|exact T'].
Qed.
Lemma TrW_src a x x' y : TrW a x y -> eqvI SI x x' -> TrW a x' y.
Proof.
  intros (Wx & Wy & T) E. pose proof T as (Sx & _). destruct E as [O Hi].
  split; [apply (WF_obs x x' Wx (proj1 Hi Sx) O)|]. split; [exact Wy|]. exact (TrI_src SI a x x' y T (conj O Hi)).
Qed.

(* states that differ in the history, the log and the counter only *)
Lemma core_bk_SI s s' : g s' = g s -> seg s' = seg s -> ft s' = ft s -> bk s' = bk s -> SI s -> SI s'.
Proof.
  intros Eg Es Ef Eb Ss. apply (SI_ft s s' Ef); [apply (W_dict_same_g s s' Eg), Ss| |exact Ss].
  apply (W_book_same_g s s' Eg Eb), Ss.
Qed.
Lemma core_eqvI s s' : g s' = g s -> seg s' = seg s -> ft s' = ft s -> bk s' = bk s -> eqvI SI s' s.
Proof.
  intros Eg Es Ef Eb. split; [apply obs_eq_sym, core_eq_obs; unfold core_eq; auto|].
  split; [apply core_bk_SI; congruence|now apply core_bk_SI].
Qed.
Lemma eqvI_sym s s' : eqvI SI s s' -> eqvI SI s' s.
Proof. intros [O Hi]. split; [now apply obs_eq_sym|tauto]. Qed.

(* the model's own two stacks as the abstract mechanism of Proofs/HistoryGeneric.v *)
Definition hof (st : state) : A.hist state action := {| A.cur := st; A.U := undo_stack st; A.R := redo_stack st |}.
Notation HInv := (A.Inv state action (eqvI SI) TrW).

Lemma HInv_cur h h' t : HInv h t -> A.U _ _ h' = A.U _ _ h -> A.R _ _ h' = A.R _ _ h -> eqvI SI (A.cur _ _ h') (A.cur _ _ h) -> HInv h' t.
Proof.
  intros (s0 & Ud & Uu & tld & tlu & e & HU & Ht & Hc & C1 & C2 & E) EU ER Ec.
  exists s0, Ud, Uu, tld, tlu, e. rewrite EU, ER. split; [exact HU|]. split; [exact Ht|]. split; [exact Hc|]. split; [exact C1|]. split; [exact C2|].
  exact (eqvI_trans SI _ _ _ Ec E).
Qed.

Lemma last_In_cons {X} (x : X) l d : In (last (x :: l) d) (x :: l).
Proof. revert x. induction l as [|y r IH]; intros x; [now left|]. right. apply (IH y). Qed.

(* the session invariant: SI, the history invariant, and a timeline of well-formed states *)
Definition SInv (st : state) (t : A.tline state) : Prop := SI st /\ HInv (hof st) t /\ Forall WF (A.tl _ t).

Theorem SInv_WF st t : SInv st t -> WF st.
Proof.
  intros (Ss & (s0 & Ud & Uu & tld & tlu & e & HU & Ht & Hc & C1 & C2 & E) & Hall).
  assert (He : In e (A.tl _ t)).
  { rewrite Ht, (A.chain_last _ _ TrW _ _ _ _ st C1). change (s0 :: tld ++ tlu) with ((s0 :: tld) ++ tlu). apply in_or_app. left. apply last_In_cons. }
  rewrite Forall_forall in Hall. destruct E as [O _]. exact (WF_obs e st (Hall e He) Ss (obs_eq_sym _ _ O)).
Qed.

Theorem SInv_current st t dS : SInv st t -> (A.c _ t < length (A.tl _ t))%nat /\ obs_eq st (nth (A.c _ t) (A.tl _ t) dS).
Proof.
  intros (Ss & I & _). split.
  - destruct I as (s0 & Ud & Uu & tld & tlu & e & HU & Ht & Hc & _). rewrite Ht, Hc. cbn [length]. rewrite app_length. lia.
  - exact (proj1 (A.inv_current state action (eqvI SI) TrW dS _ _ I)).
Qed.

Lemma SInv_init st : WF st -> reg_ok st -> rp_disjoint st -> undo_stack st = [] -> redo_stack st = [] ->
  SInv st {| A.tl := [st]; A.c := 0 |}.
Proof.
  intros W R P Eu Er. split; [now apply WF_SI|]. split; [|cbn; constructor; [exact W|constructor]].
  unfold hof. rewrite Eu, Er. apply (A.init_inv state action (eqvI SI) (eqvI_refl SI) TrW st).
Qed.

(* ---- the five user actions are consistent transitions between SI states (TrI SI), and between
        well-formed states (TrW) ---- *)
Lemma TrI_SI_of st st' a : WF st -> WF st' -> ft st' = ft st -> reg_ok st -> rp_disjoint st ->
  (forall k, ConsN SI k a st st') -> TrW a st st'.
Proof.
  intros W W' Ef R P C. pose proof (WF_SI st W R P) as Ss.
  split; [exact W|]. split; [exact W'|]. split; [exact Ss|]. split; [|exact C]. apply (SI_ft st st' Ef); [apply W'|apply W'|exact Ss].
Qed.

Theorem C01_TrW_delete_edge st u v a st' : WF st -> reg_ok st -> rp_disjoint st ->
  user_delete_edge_core st u v = Ok a st' -> TrW a st st'.
Proof.
  intros W R P H. pose proof (EditFrame.aux_user_delete_edge_core st u v) as F. rewrite H in F. destruct F as (_ & _ & _ & _ & Ef).
  apply TrI_SI_of; auto; [exact (EditWFEdge.ude_core_WF _ _ _ _ _ W H)|intros k; exact (ude_ConsS k st u v a st' W H)].
Qed.
Theorem C01_TrW_add_edge st u v force a st' : WF st -> reg_ok st -> rp_disjoint st ->
  user_add_edge_core st u v force = Ok a st' -> TrW a st st'.
Proof.
  intros W R P H. pose proof (EditFrame.aux_user_add_edge_core st u v force) as F. rewrite H in F. destruct F as (_ & _ & _ & _ & Ef).
  apply TrI_SI_of; auto; [exact (EditWFEdge.uae_core_WF _ _ _ _ _ _ W H)|intros k; exact (uae_ConsS k st u v force a st' W H)].
Qed.
Theorem C01_TrW_swap st n1 n2 a st' : WF st -> reg_ok st -> rp_disjoint st ->
  user_swap_core st n1 n2 = Ok a st' -> TrW a st st'.
Proof.
  intros W R P H. pose proof (EditFrame.aux_user_swap_core st n1 n2) as F. rewrite H in F. destruct F as (_ & _ & _ & _ & Ef).
  apply TrI_SI_of; auto; [exact (EditWFEdge.swap_core_WF _ _ _ _ _ W H)|intros k; exact (swap_ConsS k st n1 n2 a st' W H)].
Qed.
Theorem C01_TrW_delete_node st n a st' : WF st -> reg_ok st -> rp_disjoint st -> pos_ok st n ->
  user_delete_node_core st n None = Ok a st' -> TrW a st st'.
Proof.
  intros W R P Hpos H. pose proof (EditFrame.aux_user_delete_node_core st n None) as F. rewrite H in F. destruct F as (_ & _ & _ & _ & Ef).
  apply TrI_SI_of; auto; [exact (EditWFNode.udn_core_WF st n None a st' W (or_introl eq_refl) H)|intros k; exact (udn_ConsS k st n None a st' W P Hpos Logic.I H)].
Qed.
Theorem C01_TrW_add_node st n a px force act st' : WF st -> reg_ok st -> rp_disjoint st ->
  EditUAN.attrs_ok a -> haskey KLin a = false -> EditWFNode.uan_px_pre st n a px -> add_node_px_ok st n a px -> (seg st <> None -> n <> 0) ->
  (seg st = None -> forall k0, In k0 (pos_keys (ft st)) -> In k0 (reg_node (ft st)) /\ exists v, lookup k0 a = Some v /\ v <> VNone) ->
  user_add_node_core st n a px force = Ok act st' -> TrW act st st'.
Proof.
  intros W R P Ao Hnl Hpre Hok Hn0 Hpos H. pose proof (EditFrame.aux_user_add_node_core st n a px force) as F. rewrite H in F. destruct F as (_ & _ & _ & _ & Ef).
  apply TrI_SI_of; auto; [exact (EditWFNode.uan_core_WF st n a px force act st' W P Ao Hnl Hpre H)|intros k; exact (uan_ConsS k st n a px force act st' W P Ao Hok Hn0 Hpos H)].
Qed.

(* the hypotheses of C02_timeline for the edit machine with the invariant SI and well-formed timeline states *)
Theorem C02_hypotheses_SI :
  (forall s, eqvI SI s s) /\ (forall a b c, eqvI SI a b -> eqvI SI b c -> eqvI SI a c) /\
  (forall a x y s, TrW a x y -> eqvI SI s y -> eqvI SI (fst (inv_tot s a)) x /\ TrW (snd (inv_tot s a)) y x) /\
  (forall a x x' y, TrW a x y -> eqvI SI x x' -> TrW a x' y).
Proof. exact (conj (eqvI_refl SI) (conj (eqvI_trans SI) (conj TrW_inv TrW_src))). Qed.

(* ================================================================== *)
(* 4. Tracks.undo / Tracks.redo of the model keep the session invariant  *)
(* ================================================================== *)
Lemma inv_action_stacks s a b s' : inv_action s a = Ok b s' -> undo_stack s' = undo_stack s /\ redo_stack s' = redo_stack s.
Proof.
  intros H. pose proof (EditFrame.aux_inv_action s a) as F. rewrite H in F. cbn [rstate] in F. destruct F as (F1 & F2 & _). auto.
Qed.

Theorem undo_session st t : SInv st t ->
  SInv (fst (step st OUndo)) (fst (A.t_undo _ t)) /\ fst (snd (step st OUndo)) = (if snd (A.t_undo _ t) then 1 else 2).
Proof.
  intros (Ss & (s0 & Ud & Uu & tld & tlu & e & HU & Ht & Hc & C1 & C2 & E) & Hall). cbn [hof A.U A.R A.cur] in *.
  pose proof (A.chain_len _ _ TrW _ _ _ _ C1) as L1. destruct (A.chain2_len _ _ TrW _ _ _ _ C2) as [L2 L3]. rewrite rev_length in L3.
  cbn [step]. unfold undo, A.t_undo. cbv zeta. rewrite HU, app_length.
  destruct (rev Ud) as [|a rUd'] eqn:ER.
  - assert (Ud = []) by (apply (f_equal (@rev _)) in ER; rewrite rev_involutive in ER; auto). subst Ud.
    cbn [length] in *. destruct (Nat.leb_spec (0 + length Uu) (length (redo_stack st))); [|lia].
    assert (Ec : A.c _ t = 0%nat) by lia. rewrite Ec. cbn. split; [|reflexivity].
    split; [exact Ss|]. split; [|exact Hall]. exists s0, [], Uu, tld, tlu, e. cbn [hof A.U A.R A.cur]. auto 10.
  - assert (EU : Ud = rev rUd' ++ [a]) by (apply (f_equal (@rev _)) in ER; rewrite rev_involutive in ER; auto).
    set (Ud' := rev rUd') in *. subst Ud. rewrite app_length in *. cbn [length] in *.
    destruct (Nat.leb_spec (length Ud' + 1 + length Uu) (length (redo_stack st))); [lia|].
    replace (length Ud' + 1 + length Uu - length (redo_stack st) - 1)%nat with (length Ud') by lia.
    assert (N : nth_error ((Ud' ++ [a]) ++ Uu) (length Ud') = Some a).
    { rewrite nth_error_app1 by (rewrite app_length; cbn; lia). rewrite nth_error_app2 by lia. now rewrite Nat.sub_diag. }
    rewrite N.
    apply A.chain_snoc_inv in C1. destruct C1 as (tld' & m & -> & C1 & T).
    pose proof T as (Wm & We & (Sm & Se & Cons)).
    destruct (Cons 1%nat st Ss (proj1 E)) as (b & s1 & E1 & Ss1 & O1 & _). rewrite E1. cbn [bind finb fst snd].
    destruct (TrW_inv a m e st T E) as [_ T']. unfold inv_tot in T'. rewrite E1 in T'. cbn [snd] in T'.
    destruct (inv_action_stacks _ _ _ _ E1) as [Eu Er].
    rewrite app_length in Hc. cbn [length] in Hc. replace (A.c _ t) with (S (length tld')) by lia. cbn [fst snd].
    split; [|reflexivity].
    set (st' := emit (upd_hist s1 (undo_stack s1) (redo_stack s1 ++ [b])) None).
    assert (Ss' : SI st') by (apply (core_bk_SI s1 st'); auto).
    split; [exact Ss'|]. split; [|exact Hall].
    exists s0, Ud', (a :: Uu), tld', (e :: tlu), m. cbn [hof A.U A.R A.cur A.tl A.c st' undo_stack redo_stack emit upd_hist].
    rewrite Eu, Er, HU, rev_app_distr. cbn [rev app].
    split; [now rewrite <- app_assoc|]. split; [rewrite Ht, <- app_assoc; reflexivity|]. split; [reflexivity|].
    split; [exact C1|]. split; [constructor; assumption|].
    split; [eapply obs_eq_trans; [apply obs_eq_sym, core_eq_obs; unfold core_eq, st'; cbn; auto|exact O1]|]. split; [intros _; exact Sm|intros _; exact Ss'].
Qed.

Theorem redo_session st t : SInv st t ->
  SInv (fst (step st ORedo)) (fst (A.t_redo _ t)) /\ fst (snd (step st ORedo)) = (if snd (A.t_redo _ t) then 1 else 2).
Proof.
  intros (Ss & (s0 & Ud & Uu & tld & tlu & e & HU & Ht & Hc & C1 & C2 & E) & Hall). cbn [hof A.U A.R A.cur] in *.
  destruct (A.chain2_len _ _ TrW _ _ _ _ C2) as [L2 L3]. rewrite rev_length in L3.
  cbn [step]. unfold redo, A.t_redo. rewrite Ht, Hc. cbn [length]. rewrite app_length.
  destruct (rev (redo_stack st)) as [|b rR'] eqn:ER.
  - assert (RN : redo_stack st = []) by (apply (f_equal (@rev _)) in ER; rewrite rev_involutive in ER; auto).
    rewrite RN in *. cbn in L3. destruct tlu; [|discriminate]. cbn [length].
    destruct (Nat.ltb_spec (S (length tld)) (S (length tld + 0))); [lia|]. cbn. split; [|reflexivity].
    split; [exact Ss|]. split; [|exact Hall]. exists s0, Ud, Uu, tld, [], e. cbn [hof A.U A.R A.cur]. rewrite RN. auto 10.
  - assert (RN : redo_stack st = rev rR' ++ [b]) by (apply (f_equal (@rev _)) in ER; rewrite rev_involutive in ER; auto).
    inversion C2 as [|? u r0 t0 us rs ts T1 T2 C2']; subst.
    set (sr := upd_hist st (undo_stack st) (rev rR')).
    assert (Ssr : SI sr) by (apply (core_bk_SI st sr); auto).
    assert (Osr : obs_eq sr e) by (eapply obs_eq_trans; [apply obs_eq_sym, core_eq_obs; unfold core_eq, sr; cbn; auto|exact (proj1 E)]).
    pose proof T2 as (_ & _ & (St0 & _ & Cons)).
    destruct (Cons 1%nat sr Ssr Osr) as (x & s2 & E2 & Ss2 & O2 & _). rewrite E2. cbn [bind finb fst snd length].
    destruct (inv_action_stacks _ _ _ _ E2) as [Eu Er].
    destruct (Nat.ltb_spec (S (length tld)) (S (length tld + S (length ts)))); [|lia]. cbn [fst snd].
    split; [|reflexivity].
    assert (Ss' : SI (emit s2 None)) by (apply (core_bk_SI s2 (emit s2 None)); auto).
    split; [exact Ss'|]. split; [|cbn [A.tl]; rewrite <- Ht; exact Hall].
    exists s0, (Ud ++ [u]), us, (tld ++ [t0]), ts, t0. cbn [hof A.U A.R A.cur A.tl A.c undo_stack redo_stack emit].
    rewrite Eu, Er. unfold sr. cbn [undo_stack redo_stack upd_hist]. rewrite rev_involutive, HU.
    split; [now rewrite <- app_assoc|]. split; [now rewrite <- app_assoc|]. split; [rewrite app_length; cbn; lia|].
    split; [eapply A.chain_app; [exact C1|]; constructor; [exact T1|constructor]|]. split; [exact C2'|].
    split; [eapply obs_eq_trans; [apply obs_eq_sym, core_eq_obs; unfold core_eq; cbn; auto|exact O2]|]. split; [intros _; exact St0|intros _; exact Ss'].
Qed.

(* ================================================================== *)
(* 5. one call of the interpreter                                       *)
(* ================================================================== *)
(* a call that leaves graph, array, features and the two stacks alone (refusals, queries) *)
Lemma SInv_same st st' t : SInv st t -> WF st' -> g st' = g st -> seg st' = seg st -> ft st' = ft st ->
  undo_stack st' = undo_stack st -> redo_stack st' = redo_stack st -> SInv st' t.
Proof.
  intros (Ss & I & Hall) W' Eg Es Ef Eu Er.
  assert (Ss' : SI st') by (apply (SI_ft st st' Ef); [apply W'|apply W'|exact Ss]).
  split; [exact Ss'|]. split; [|exact Hall].
  apply (HInv_cur (hof st) (hof st') t I); [exact Eu|exact Er|]. cbn [hof A.cur].
  split; [apply obs_eq_sym, core_eq_obs; unfold core_eq; auto|tauto].
Qed.

Lemma In_removelast {X} (x : X) l : In x (removelast l) -> In x l.
Proof. induction l as [|y [|z r] IH]; cbn; [tauto|tauto|]. intros [->|H]; [now left|right; now apply IH]. Qed.
Lemma In_skipn {X} (x : X) n l : In x (skipn n l) -> In x l.
Proof. intros H. rewrite <- (firstn_skipn n l). apply in_or_app. now right. Qed.

(* an accepted top-level edit: the core recorded a consistent transition st --a--> s *)
Lemma SInv_edit st t a s p : SInv st t -> WF s -> ft s = ft st -> undo_stack s = undo_stack st -> redo_stack s = redo_stack st ->
  Consistent SI a st s -> SInv (finish_top s a p) (A.t_edit _ t (finish_top s a p)).
Proof.
  intros Inv0 Ws Ef Eu Er Cons. pose proof (SInv_WF st t Inv0) as W. destruct Inv0 as (Ss & I & Hall).
  set (st' := finish_top s a p).
  destruct (EditFrame.finish_top_spec s a p) as (_ & Fr & Fu & Eg' & Es' & Ef' & Eb' & _). fold st' in Fr, Fu, Eg', Es', Ef', Eb'.
  assert (W' : WF st') by (now apply EditWFEdge.WF_finish_top).
  assert (Ss' : SI st') by (apply (SI_ft st st'); [congruence|apply W'|apply W'|exact Ss]).
  assert (T : TrW a st st').
  { split; [exact W|]. split; [exact W'|]. split; [exact Ss|]. split; [exact Ss'|]. intros k.
    apply (ConsN_eqv SI k a st st s st' (obs_eq_refl st)); [|apply Cons]. apply core_eq_obs. unfold core_eq. auto. }
  pose proof (A.edit_ok state action (eqvI SI) (eqvI_refl SI) TrW st TrW_src (hof st) t a st' I T) as I'.
  split; [exact Ss'|]. split.
  - apply (HInv_cur _ (hof st') _ I'); [| |apply eqvI_refl].
    + rewrite A.add_U. cbn [hof A.U A.R]. rewrite Fu, Eu, Er. now rewrite app_assoc.
    + cbn [hof A.R A.add_new_action]. exact Fr.
  - unfold A.t_edit. cbn [A.tl]. rewrite Forall_forall in *. intros x Hx.
    apply in_app_or in Hx. destruct Hx as [Hx|Hx]; [now apply Hall|]. apply in_app_or in Hx. destruct Hx as [Hx|[<-|[]]]; [|exact W'].
    apply in_rev, In_removelast, In_skipn in Hx. now apply Hall.
Qed.

Definition is_edit_op (o : op) : bool :=
  match o with OAddEdge _ _ _ | ODelEdge _ _ | OSwap _ _ | OAddNode _ _ _ _ | ODelNode _ => true | _ => false end.

(* the reference timeline, driven by the outcome of the model's call *)
Definition tl_step (st : state) (t : A.tline state) (o : op) : A.tline state :=
  match o with
  | OUndo => fst (A.t_undo _ t)
  | ORedo => fst (A.t_redo _ t)
  | _ => if is_edit_op o && (fst (snd (step st o)) =? 0) then A.t_edit _ t (fst (step st o)) else t
  end.

(* a top-level edit, accepted or refused *)
Lemma edit_call st t p (r : res action) : SInv st t -> EditFrame.aux_eq st (rstate r) ->
  (forall a s, r = Ok a s -> WF s /\ Consistent SI a st s) ->
  (forall e s, r = Err e s -> WF s /\ g s = g st /\ seg s = seg st) ->
  let res := fin (top_wrap true p r) in
  SInv (fst res) (if fst (snd res) =? 0 then A.t_edit _ t (fst res) else t).
Proof.
  intros I (Eu & Er & _ & _ & Ef) Hok Herr. cbv zeta. destruct r as [a s|e s]; cbn [top_wrap fin fst snd rstate] in *.
  - destruct (Hok a s eq_refl) as [Ws Cons]. change (0 =? 0) with true. cbv iota. exact (SInv_edit st t a s p I Ws Ef Eu Er Cons).
  - destruct (Herr e s eq_refl) as (Ws & Eg & Es).
    assert (Hc : ecode e =? 0 = false) by (apply Z.eqb_neq; apply EditFrame.ecode_not_small).
    rewrite Hc. exact (SInv_same st s t I Ws Eg Es Ef Eu Er).
Qed.

(* the pixel precondition of the AddNode law, from the one the WF-preservation theorem asks for *)
Lemma uan_px_ok_of_pre st n a px f act s : WF st -> EditUAN.attrs_ok a -> EditWFNode.uan_px_pre st n a px ->
  user_add_node_core st n a px f = Ok act s -> add_node_px_ok st n a px /\ (seg st <> None -> n <> 0).
Proof.
  intros W Ao Hpre H. pose proof (EditUAN.uan_core_cases st n a px f) as C.
  destruct (EditUAN.uan_refused st n a px f) as [e|]; [rewrite C in H; discriminate|].
  destruct C as (_ & Hkt & _ & Hnn & _ & _ & Hpc).
  unfold EditWFNode.uan_px_pre in Hpre. destruct (seg st) as [sg|] eqn:Hs.
  2:{ split; [intros sg Hs'; congruence|intros X; now elim X]. }
  destruct Hpre as (Hn0 & idx & -> & Hhit & Hbg). split; [|intros _; exact Hn0].
  apply add_node_px_ok_intro; [apply W|now apply has_node_false|apply Ao|intros _; exact Hn0|].
  intros sg' Hs'. rewrite Hs in Hs'. injection Hs' as <-. exists (EditUAN.uan_time a).
  destruct (haskey_lookup _ _ Hkt) as [v Ev]. destruct (EditUAN.ao_time _ Ao v Ev) as [t0 ->].
  assert (Et : EditUAN.uan_time a = t0) by (unfold EditUAN.uan_time, getd; now rewrite Ev).
  split; [now rewrite Et|]. split; [|split; [reflexivity|exact Hbg]].
  unfold px_check in Hpc. rewrite Hs in Hpc. cbn [fst] in Hpc. destruct (frame_ok sg (EditUAN.uan_time a)); [reflexivity|discriminate].
Qed.

(* what the C01 laws need beyond [EditWFNode.op_pre]: positions when there is no segmentation *)
Definition op_pre2 (st : state) (o : op) : Prop :=
  match o with
  | ODelNode n => pos_ok st n
  | OAddNode n a px _ => seg st = None -> forall k0, In k0 (pos_keys (ft st)) -> In k0 (reg_node (ft st)) /\ exists v, lookup k0 a = Some v /\ v <> VNone
  | _ => True
  end.

Definition session_fragment (o : op) : bool :=
  match o with OUndo | ORedo => true | _ => EditWFNode.node_fragment o end.

Theorem step_session st t o : session_fragment o = true -> SInv st t -> EditWFNode.op_pre st o -> op_pre2 st o ->
  SInv (fst (step st o)) (tl_step st t o) /\
  (o = OUndo -> fst (snd (step st o)) = if snd (A.t_undo _ t) then 1 else 2) /\
  (o = ORedo -> fst (snd (step st o)) = if snd (A.t_redo _ t) then 1 else 2).
Proof.
  intros Hf I P1 P2. pose proof (SInv_WF st t I) as W. pose proof I as (Ss & _ & _). pose proof (si_rp st Ss) as Hrp.
  destruct o; try discriminate Hf; unfold tl_step; cbn [is_edit_op andb].
  - (* UserAddEdge *)
    split; [|split; discriminate]. cbn [step]. unfold user_add_edge.
    apply (edit_call st t None (user_add_edge_core st u v force) I (EditFrame.aux_user_add_edge_core st u v force)).
    + intros a s H. split; [exact (EditWFEdge.uae_core_WF _ _ _ _ _ _ W H)|intros k; exact (uae_ConsS k st u v force a s W H)].
    + intros e s H. destruct (EditWFEdge.uae_core_refused_WF st u v force e s W H) as [-> Ws]. auto.
  - (* UserDeleteEdge *)
    split; [|split; discriminate]. cbn [step]. unfold user_delete_edge.
    apply (edit_call st t None (user_delete_edge_core st u v) I (EditFrame.aux_user_delete_edge_core st u v)).
    + intros a s H. split; [exact (EditWFEdge.ude_core_WF _ _ _ _ _ W H)|intros k; exact (ude_ConsS k st u v a s W H)].
    + intros e s H. destruct (EditWFEdge.ude_core_refused_WF st u v e s W H) as [-> Ws]. auto.
  - (* UserAddNode *)
    split; [|split; discriminate]. cbn [step]. unfold user_add_node. destruct P1 as (Ao & Hnl & Hpx).
    apply (edit_call st t (Some n) (user_add_node_core st n a px force) I (EditFrame.aux_user_add_node_core st n a px force)).
    + intros act s H. split; [exact (EditWFNode.uan_core_WF st n a px force act s W Hrp Ao Hnl Hpx H)|].
      destruct (uan_px_ok_of_pre st n a px force act s W Ao Hpx H) as [Hok Hn0].
      intros k. exact (uan_ConsS k st n a px force act s W Hrp Ao Hok Hn0 P2 H).
    + intros e s H. destruct (EditUAN.uan_error_is_refusal st n a px force e s (w_dict _ W) (w_forest _ W) (w_trk _ W) (w_book _ W) Hrp Ao H) as [_ U].
      split; [exact (EditWFNode.WF_untouched st s U W)|]. destruct U as (Eg & Es & _). auto.
  - (* UserDeleteNode *)
    split; [|split; discriminate]. cbn [step]. unfold user_delete_node.
    apply (edit_call st t None (user_delete_node_core st n None) I (EditFrame.aux_user_delete_node_core st n None)).
    + intros a s H. split; [exact (EditWFNode.udn_core_WF st n None a s W (or_introl eq_refl) H)|].
      intros k. exact (udn_ConsS k st n None a s W Hrp P2 Logic.I H).
    + intros e s H. assert (H' : user_delete_node st n None false = Err e s) by (unfold user_delete_node; now rewrite top_wrap_false).
      destruct (EditWFNode.udn_refused_WF st n None false e s W H') as [-> Ws]. auto.
  - (* UserSwapPredecessors *)
    split; [|split; discriminate]. cbn [step]. unfold user_swap.
    apply (edit_call st t None (user_swap_core st a b) I (EditFrame.aux_user_swap_core st a b)).
    + intros x s H. split; [exact (EditWFEdge.swap_core_WF _ _ _ _ _ W H)|intros k; exact (swap_ConsS k st a b x s W H)].
    + intros e s H. destruct (EditWFEdge.swap_core_refused_WF st a b e s W H) as [-> Ws]. auto.
  - (* undo *) destruct (undo_session st t I) as [A1 A2]. split; [exact A1|]. split; [intros _; exact A2|discriminate].
  - (* redo *) destruct (redo_session st t I) as [A1 A2]. split; [exact A1|]. split; [discriminate|intros _; exact A2].
  - (* get_track_neighbors *)
    split; [|split; discriminate]. cbn [step].
    pose proof (EditWFEdge.track_neighbors_WF st T t0 W) as W'. pose proof (EditUDN.track_neighbors_state st T t0) as F. cbv zeta in F.
    destruct (track_neighbors st T t0) as [s [p c]]. cbn [fst] in *. destruct F as (Eg & Es & Ef & Eu & Er & _). now apply (SInv_same st s t).
  - split; [|split; discriminate]. cbn [step fst]. exact I.
  - split; [|split; discriminate]. cbn [step].
    pose proof (EditWFEdge.get_new_node_ids_WF st n W) as W'. pose proof (EditFrame.get_new_node_ids_frame st n) as F. cbv zeta in F.
    destruct (get_new_node_ids st n) as [s ids]. cbn [fst] in *. destruct F as (Eg & Es & Ef & _ & Eu & Er & _). now apply (SInv_same st s t).
  - split; [|split; discriminate]. cbn [step fst]. exact I.
Qed.

(* ================================================================== *)
(* 6. every finite session                                              *)
(* ================================================================== *)
Fixpoint tl_run (st : state) (t : A.tline state) (ops : list op) : A.tline state :=
  match ops with [] => t | o :: r => tl_run (fst (step st o)) (tl_step st t o) r end.

(* the preconditions of the calls, each in the state the call is made in *)
Definition pre_along (st : state) (ops : list op) : Prop :=
  forall pre o post, ops = pre ++ o :: post -> EditWFNode.op_pre (run st pre) o /\ op_pre2 (run st pre) o.

Lemma pre_along_tail st o r : pre_along st (o :: r) -> pre_along (fst (step st o)) r.
Proof.
  intros H pre o' post E. specialize (H (o :: pre) o' post). cbn [app] in H.
  change (run st (o :: pre)) with (run (fst (step st o)) pre) in H. apply H. now rewrite E.
Qed.

Lemma tl_run_app : forall l1 st t l2, tl_run st t (l1 ++ l2) = tl_run (run st l1) (tl_run st t l1) l2.
Proof.
  induction l1 as [|o r IH]; intros st t l2; [reflexivity|]. cbn [app tl_run].
  change (run st (o :: r)) with (run (fst (step st o)) r). apply IH.
Qed.

Theorem run_session : forall ops st t, forallb session_fragment ops = true -> SInv st t -> pre_along st ops ->
  SInv (run st ops) (tl_run st t ops).
Proof.
  induction ops as [|o r IH]; intros st t Hf I Hpre; [exact I|].
  cbn [forallb] in Hf. apply andb_true_iff in Hf. destruct Hf as [Ho Hr].
  destruct (Hpre [] o r eq_refl) as [P1 P2]. cbn [run fold_left] in P1, P2.
  destruct (step_session st t o Ho I P1 P2) as [I1 _].
  change (run st (o :: r)) with (run (fst (step st o)) r). cbn [tl_run].
  apply IH; [exact Hr|exact I1|now apply pre_along_tail].
Qed.

Lemma tl_step_grows st t o : exists ext, A.tl _ (tl_step st t o) = A.tl _ t ++ ext.
Proof.
  assert (Hid : exists ext, A.tl _ t = A.tl _ t ++ ext) by (exists []; now rewrite app_nil_r).
  assert (Hed : forall s', exists ext, A.tl _ (A.t_edit _ t s') = A.tl _ t ++ ext) by (intros s'; unfold A.t_edit; cbn [A.tl]; eexists; reflexivity).
  destruct o; unfold tl_step; try (destruct (_ && _); [apply Hed|exact Hid]); try exact Hid.
  - unfold A.t_undo. destruct (A.c _ t); exact Hid.
  - unfold A.t_redo. destruct (_ <? _)%nat; exact Hid.
Qed.
Lemma tl_run_grows : forall ops st t, exists ext, A.tl _ (tl_run st t ops) = A.tl _ t ++ ext.
Proof.
  induction ops as [|o r IH]; intros st t; cbn [tl_run]; [exists []; now rewrite app_nil_r|].
  destruct (tl_step_grows st t o) as [e1 E1]. destruct (IH (fst (step st o)) (tl_step st t o)) as [e2 E2].
  exists (e1 ++ e2). now rewrite E2, E1, app_assoc.
Qed.

(* THE SESSION THEOREM.  From a well-formed state with an empty history, for every finite sequence of
   UserAddEdge / UserDeleteEdge / UserSwapPredecessors / UserAddNode / UserDeleteNode calls, queries,
   undos and redos (the preconditions of the node calls holding when they are made):
   (a) every state reached is well formed;
   (b) there is a never-forgetting timeline (list of well-formed states + cursor: undo = cursor - 1,
       redo = cursor + 1, an accepted edit after k undos appends the k undone states in reverse and then
       the new state) such that the current state is observably the state under the cursor, and undo /
       redo report True / False exactly as the timeline does - False exactly at its two ends. *)
Section Session.
  Variables (st0 : state) (ops : list op).
  Hypothesis Hfrag : forallb session_fragment ops = true.
  Hypothesis W0 : WF st0.
  Hypothesis Hreg : reg_ok st0.
  Hypothesis Hrp : rp_disjoint st0.
  Hypothesis Hu : undo_stack st0 = [].
  Hypothesis Hr : redo_stack st0 = [].
  Hypothesis Hpre : pre_along st0 ops.
  Let t0 : A.tline state := {| A.tl := [st0]; A.c := 0 |}.

  Lemma session_prefix pre post : ops = pre ++ post -> SInv (run st0 pre) (tl_run st0 t0 pre).
  Proof.
    intros E. apply run_session; [|now apply SInv_init|].
    - rewrite E, forallb_app in Hfrag. now apply andb_true_iff in Hfrag.
    - intros p o q Eq. apply (Hpre p o (q ++ post)). rewrite E, Eq, <- app_assoc. reflexivity.
  Qed.

  Theorem session_WF : WF (run st0 ops).
  Proof. apply (SInv_WF _ (tl_run st0 t0 ops)). apply (session_prefix ops []). now rewrite app_nil_r. Qed.

  Theorem session_reachable_WF pre post : ops = pre ++ post -> WF (run st0 pre).
  Proof. intros E. exact (SInv_WF _ _ (session_prefix pre post E)). Qed.

  Theorem session_timeline (dS : state) :
    let t := tl_run st0 t0 ops in
    (A.c _ t < length (A.tl _ t))%nat /\ obs_eq (run st0 ops) (nth (A.c _ t) (A.tl _ t) dS) /\
    Forall WF (A.tl _ t) /\ (exists ext, A.tl _ t = st0 :: ext).
  Proof.
    cbv zeta. assert (I : SInv (run st0 ops) (tl_run st0 t0 ops)) by (apply (session_prefix ops []); now rewrite app_nil_r).
    destruct (SInv_current _ _ dS I) as [A1 A2]. split; [exact A1|]. split; [exact A2|]. split; [apply I|].
    destruct (tl_run_grows ops st0 t0) as [ext E]. exists ext. exact E.
  Qed.

  Theorem session_undo_redo pre post :
    (ops = pre ++ OUndo :: post ->
       let t := tl_run st0 t0 pre in
       fst (snd (step (run st0 pre) OUndo)) = (if snd (A.t_undo _ t) then 1 else 2) /\
       (snd (A.t_undo _ t) = false <-> A.c _ t = 0%nat)) /\
    (ops = pre ++ ORedo :: post ->
       let t := tl_run st0 t0 pre in
       fst (snd (step (run st0 pre) ORedo)) = (if snd (A.t_redo _ t) then 1 else 2) /\
       (snd (A.t_redo _ t) = false <-> (length (A.tl _ t) <= S (A.c _ t))%nat)).
  Proof.
    split; intros E; cbv zeta; pose proof (session_prefix pre _ E) as I.
    - destruct (undo_session _ _ I) as [_ C]. split; [exact C|apply A.t_undo_false].
    - destruct (redo_session _ _ I) as [_ C]. split; [exact C|apply A.t_redo_false].
  Qed.
End Session.

(* ================================================================== *)
(* 7. non-vacuity: a session on the example state of Proofs/EditWFEdge.v  *)
(* ================================================================== *)
(* a decidable sufficient condition for the preconditions along a run (states with a segmentation) *)
Definition op_pre2b (st : state) (o : op) : bool :=
  match o with
  | ODelNode _ | OAddNode _ _ _ _ => match seg st with Some _ => true | None => false end
  | _ => true
  end.
Lemma op_pre2b_spec st o : op_pre2b st o = true -> op_pre2 st o.
Proof.
  destruct o; cbn [op_pre2b op_pre2]; try (intros _; exact Logic.I); destruct (seg st) eqn:E; try (intros C; discriminate C); intros _.
  - intros C. discriminate C.
  - unfold pos_ok. intros C. congruence.
Qed.
Fixpoint pre_alongb2 (st : state) (ops : list op) : bool :=
  match ops with [] => true | o :: r => EditWFNode.op_preb st o && op_pre2b st o && pre_alongb2 (fst (step st o)) r end.
Lemma pre_alongb2_spec : forall ops st, pre_alongb2 st ops = true -> pre_along st ops.
Proof.
  induction ops as [|o r IH]; intros st H pre o' post E; [destruct pre; discriminate E|].
  cbn [pre_alongb2] in H. apply andb_true_iff in H. destruct H as [H Hr]. apply andb_true_iff in H. destruct H as [H1 H2].
  destruct pre as [|x pre]; cbn [app] in E; injection E as <- E.
  - cbn [run fold_left]. split; [now apply EditWFNode.op_preb_spec|now apply op_pre2b_spec].
  - change (run st (o :: pre)) with (run (fst (step st o)) pre). exact (IH _ Hr pre o' post E).
Qed.

Fixpoint codes (st : state) (ops : list op) : list Z :=
  match ops with [] => [] | o :: r => fst (snd (step st o)) :: codes (fst (step st o)) r end.

Lemma exs_reg_ok : reg_ok EditWFEdge.exs.
Proof. split; [intros k Hk; cbn in *; intuition|intros _; cbn; auto]. Qed.

(* cut 2->4; add node 5 (track 3, time 2, painted on a background pixel); undo both; delete node 3;
   undo three times (back through the delete and the two states walked over); redo twice *)
Definition ex_session : list op :=
  [ODelEdge 2 4; OAddNode 5 [(KTime, VZ 2); (KTrack, VZ 3)] (Some (2, [0])) false; OUndo; OUndo;
   ODelNode 3; OUndo; OUndo; OUndo; ORedo; ORedo].

Example session_nonvacuous :
  let t := tl_run EditWFEdge.exs {| A.tl := [EditWFEdge.exs]; A.c := 0 |} ex_session in
  WF (run EditWFEdge.exs ex_session) /\
  codes EditWFEdge.exs ex_session = [0; 0; 1; 1; 0; 1; 1; 1; 1; 1] /\
  length (A.tl _ t) = 6%nat /\ A.c _ t = 4%nat /\
  obs_eq (run EditWFEdge.exs ex_session) (nth 4 (A.tl _ t) EditWFEdge.exs) /\ Forall WF (A.tl _ t) /\
  has_node (run EditWFEdge.exs ex_session) 5 = false /\ has_edge (run EditWFEdge.exs ex_session) 2 4 = true.
Proof.
  cbv zeta.
  assert (Hf : forallb session_fragment ex_session = true) by reflexivity.
  assert (Hp : pre_along EditWFEdge.exs ex_session) by (apply pre_alongb2_spec; vm_compute; reflexivity).
  pose proof (session_timeline EditWFEdge.exs ex_session Hf EditWFEdge.exs_WF exs_reg_ok exs_rp_disjoint eq_refl eq_refl Hp EditWFEdge.exs) as T.
  cbv zeta in T. destruct T as (_ & T2 & T3 & _).
  assert (Ec : A.c _ (tl_run EditWFEdge.exs {| A.tl := [EditWFEdge.exs]; A.c := 0 |} ex_session) = 4%nat) by (vm_compute; reflexivity).
  split; [exact (session_WF EditWFEdge.exs ex_session Hf EditWFEdge.exs_WF exs_reg_ok exs_rp_disjoint eq_refl eq_refl Hp)|].
  split; [vm_compute; reflexivity|]. split; [vm_compute; reflexivity|]. split; [exact Ec|].
  split; [rewrite Ec in T2; exact T2|]. split; [exact T3|]. split; vm_compute; reflexivity.
Qed.

Print Assumptions WF_obs.
Print Assumptions ude_ConsS.
Print Assumptions uae_ConsS.
Print Assumptions swap_ConsS.
Print Assumptions udn_ConsS.
Print Assumptions uan_ConsS.
Print Assumptions undo_session.
Print Assumptions redo_session.
Print Assumptions step_session.
Print Assumptions run_session.
Print Assumptions session_WF.
Print Assumptions session_reachable_WF.
Print Assumptions session_timeline.
Print Assumptions session_undo_redo.
Print Assumptions session_nonvacuous.
Print Assumptions C01_TrW_delete_edge.
Print Assumptions C01_TrW_add_edge.
Print Assumptions C01_TrW_swap.
Print Assumptions C01_TrW_delete_node.
Print Assumptions C01_TrW_add_node.
Print Assumptions C02_hypotheses_SI.
