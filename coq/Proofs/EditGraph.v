(* How the primitive state updates and the basic actions change the *views* of the graph that
   the invariants talk about: node set, edge relation, times, track / lineage ids. *)
From Coq Require Import ZArith List Bool Lia.
From FT Require Import Base.Dict Model.Edit Proofs.DictLemmas Proofs.EditInv.
Import ListNotations.
Open Scope Z_scope.

Ltac inv H := inversion H; subst; clear H.

(* ------------------------------------------------------------------ reads *)
Lemma has_node_is_node st n : has_node st n = true <-> is_node st n.
Proof. unfold has_node, is_node, node_ids. apply haskey_keys. Qed.

Lemma has_node_false st n : has_node st n = false <-> ~ is_node st n.
Proof. rewrite <- has_node_is_node. destruct (has_node st n); split; intros; congruence. Qed.

Lemma edge_successors st u v : edge st u v <-> In v (successors st u).
Proof. unfold edge, has_edge, successors. apply haskey_keys. Qed.

Lemma in_predecessors st u v : In u (predecessors st v) <-> is_node st u /\ edge st u v.
Proof. unfold predecessors. rewrite filter_In. unfold is_node, node_ids, edge. tauto. Qed.

Lemma zattr_attr st n k z : zattr st n k = Some z <-> attr st n k = Some (VZ z).
Proof.
  unfold zattr. destruct (attr st n k) as [[| | | |]|]; split; intros H; try discriminate; try congruence.
Qed.

Lemma time_of_attr st n t : attr st n KTime = Some (VZ t) -> time_of st n = t.
Proof. intros H. unfold time_of. apply zattr_attr in H. now rewrite H. Qed.

(* ------------------------------------------------------------------ set_node_attr *)
Section SNA.
Variables (st : state) (n k : Z) (v : value).
Let st' := set_node_attr st n k v.

Lemma sna_node_ids : node_ids st' = node_ids st.
Proof.
  unfold st', set_node_attr, node_ids. destruct (lookup n (nodes (g st))) eqn:E; [|reflexivity].
  cbn. apply keys_set_in. eapply lookup_Some_keys; eauto.
Qed.

Lemma sna_is_node m : is_node st' m <-> is_node st m.
Proof. unfold is_node. now rewrite sna_node_ids. Qed.

Lemma sna_succs : succs (g st') = succs (g st).
Proof. unfold st', set_node_attr. destruct (lookup n (nodes (g st))); reflexivity. Qed.

Lemma sna_rest : seg st' = seg st /\ ft st' = ft st /\ bk st' = bk st /\ undo_stack st' = undo_stack st /\
                 redo_stack st' = redo_stack st /\ rlog st' = rlog st /\ nctr st' = nctr st.
Proof. unfold st', set_node_attr. destruct (lookup n (nodes (g st))); repeat split; reflexivity. Qed.

Lemma sna_attr_same : is_node st n -> attr st' n k = Some v.
Proof.
  intros H. unfold st', set_node_attr, attr, node_attrs, getd.
  apply has_node_is_node in H. unfold has_node, haskey in H.
  destruct (lookup n (nodes (g st))) eqn:E; [|discriminate]. cbn.
  rewrite lookup_set_eq. apply lookup_set_eq.
Qed.

Lemma sna_attr_other m j : m <> n \/ j <> k -> attr st' m j = attr st m j.
Proof.
  intros H. unfold st', set_node_attr, attr, node_attrs, getd.
  destruct (lookup n (nodes (g st))) eqn:E; [|reflexivity]. cbn.
  destruct (Z.eq_dec m n) as [->|Hn].
  - rewrite lookup_set_eq, E. destruct H as [H|H]; [congruence|]. now apply lookup_set_neq.
  - now rewrite lookup_set_neq.
Qed.

Lemma sna_adj u : adj st' u = adj st u.
Proof. unfold adj. now rewrite sna_succs. Qed.
Lemma sna_successors u : successors st' u = successors st u.
Proof. unfold successors. now rewrite sna_adj. Qed.
Lemma sna_has_edge u w : has_edge st' u w = has_edge st u w.
Proof. unfold has_edge. now rewrite sna_adj. Qed.
Lemma sna_edge u w : edge st' u w <-> edge st u w.
Proof. unfold edge. now rewrite sna_has_edge. Qed.
Lemma sna_edge_attrs u w : edge_attrs st' u w = edge_attrs st u w.
Proof. unfold edge_attrs. now rewrite sna_adj. Qed.

Lemma sna_zattr_other m j : m <> n \/ j <> k -> zattr st' m j = zattr st m j.
Proof. intros H. unfold zattr. now rewrite sna_attr_other. Qed.

Lemma sna_time m : k <> KTime -> time_of st' m = time_of st m.
Proof. intros H. unfold time_of. rewrite sna_zattr_other; [reflexivity|right; congruence]. Qed.

Lemma sna_node_attr_keys m : NoDup (keys (node_attrs st m)) -> NoDup (keys (node_attrs st' m)).
Proof.
  intros H. unfold st', set_node_attr, node_attrs, getd in *.
  destruct (lookup n (nodes (g st))) eqn:E; [|exact H]. cbn.
  destruct (Z.eq_dec m n) as [->|Hn].
  - rewrite lookup_set_eq. rewrite E in H. now apply NoDup_keys_set.
  - now rewrite lookup_set_neq.
Qed.
End SNA.

(* folds of set_node_attr over a list of (key, value) pairs on one node *)
Lemma fold_sna_node_ids n : forall (l : list (Z * value)) st,
  node_ids (fold_left (fun s kv => set_node_attr s n (fst kv) (snd kv)) l st) = node_ids st.
Proof. induction l as [|[k v] r IH]; intros st; cbn [fold_left]; [reflexivity|]. rewrite IH. apply sna_node_ids. Qed.

Lemma fold_sna_succs n : forall (l : list (Z * value)) st,
  succs (g (fold_left (fun s kv => set_node_attr s n (fst kv) (snd kv)) l st)) = succs (g st).
Proof. induction l as [|[k v] r IH]; intros st; cbn [fold_left]; [reflexivity|]. rewrite IH. apply sna_succs. Qed.

Lemma fold_sna_attr_other n m j : forall (l : list (Z * value)) st, (m <> n \/ ~ In j (keys l)) ->
  attr (fold_left (fun s kv => set_node_attr s n (fst kv) (snd kv)) l st) m j = attr st m j.
Proof.
  induction l as [|[k v] r IH]; intros st H; cbn [fold_left]; [reflexivity|].
  rewrite IH.
  - apply sna_attr_other. destruct H as [H|H]; [now left|right]. intros ->. apply H. now left.
  - destruct H as [H|H]; [now left|right]. intros H'. apply H. now right.
Qed.

(* the last binding of a key wins *)
Lemma fold_sna_attr_in n : forall (l : list (Z * value)) st j v, is_node st n -> NoDup (keys l) -> In (j, v) l ->
  attr (fold_left (fun s kv => set_node_attr s n (fst kv) (snd kv)) l st) n j = Some v.
Proof.
  induction l as [|[k w] r IH]; intros st j v Hn Hnd Hin; [destruct Hin|].
  cbn [fold_left fst snd]. rewrite keys_cons in Hnd. inversion Hnd as [|? ? Hk Hr]; subst.
  destruct Hin as [E|Hin].
  - injection E as -> ->. rewrite fold_sna_attr_other by (right; exact Hk). now apply sna_attr_same.
  - apply IH; [now apply sna_is_node|exact Hr|exact Hin].
Qed.

(* ------------------------------------------------------------------ adjacency updates *)
Lemma adj_set_succs st u (x : dict attrs) a :
  getd a (set u x (succs (g st))) [] = if a =? u then x else adj st a.
Proof.
  unfold adj. destruct (Z.eqb_spec a u) as [->|Hn]; [apply getd_set_eq|now apply getd_set_neq].
Qed.

(* ------------------------------------------------------------------ set_edge_attr / iou_update_edges *)
Lemma sea_nodes st u v k x : nodes (g (set_edge_attr st u v k x)) = nodes (g st).
Proof. unfold set_edge_attr. destruct (has_edge st u v); reflexivity. Qed.

Lemma sea_rest st u v k x :
  let st' := set_edge_attr st u v k x in
  seg st' = seg st /\ ft st' = ft st /\ bk st' = bk st /\ undo_stack st' = undo_stack st /\
  redo_stack st' = redo_stack st /\ rlog st' = rlog st /\ nctr st' = nctr st.
Proof. unfold set_edge_attr. destruct (has_edge st u v); repeat split; reflexivity. Qed.

Lemma sea_adj_keys st u v k x a : keys (adj (set_edge_attr st u v k x) a) = keys (adj st a).
Proof.
  unfold set_edge_attr. destruct (has_edge st u v) eqn:E; [|reflexivity].
  unfold adj at 1. cbn [g succs upd_g]. rewrite adj_set_succs.
  destruct (Z.eqb_spec a u) as [->|Hn]; [|reflexivity].
  apply keys_set_in. apply haskey_keys. exact E.
Qed.

Lemma sea_succs_keys st u v k x : keys (succs (g (set_edge_attr st u v k x))) = keys (succs (g st)).
Proof.
  unfold set_edge_attr. destruct (has_edge st u v) eqn:E; [|reflexivity]. cbn [g succs upd_g].
  apply keys_set_in. unfold has_edge, adj, haskey, getd in E.
  destruct (lookup u (succs (g st))) eqn:L; [eapply lookup_Some_keys; eauto|discriminate].
Qed.

Lemma sea_successors st u v k x a : successors (set_edge_attr st u v k x) a = successors st a.
Proof. unfold successors. apply sea_adj_keys. Qed.
Lemma sea_has_edge st u v k x a c : has_edge (set_edge_attr st u v k x) a c = has_edge st a c.
Proof.
  destruct (has_edge st a c) eqn:E.
  - apply haskey_keys. rewrite sea_adj_keys. apply haskey_keys. exact E.
  - destruct (has_edge (set_edge_attr st u v k x) a c) eqn:E'; [|reflexivity].
    apply haskey_keys in E'. rewrite sea_adj_keys in E'. apply haskey_keys in E'. unfold has_edge in E. congruence.
Qed.

(* "same graph": node dictionary identical, edge relation and adjacency order identical
   (edge attributes may differ), everything else except the edge attributes identical *)
Definition same_graph (s s' : state) : Prop :=
  nodes (g s') = nodes (g s) /\ keys (succs (g s')) = keys (succs (g s)) /\
  (forall a, successors s' a = successors s a) /\
  seg s' = seg s /\ ft s' = ft s /\ bk s' = bk s /\ undo_stack s' = undo_stack s /\
  redo_stack s' = redo_stack s /\ rlog s' = rlog s /\ nctr s' = nctr s.

Lemma same_graph_refl s : same_graph s s.
Proof. unfold same_graph. repeat split; auto. Qed.
Lemma same_graph_trans a b c : same_graph a b -> same_graph b c -> same_graph a c.
Proof.
  unfold same_graph. intros (A1&A2&A3&A4&A5&A6&A7&A8&A9&A10) (B1&B2&B3&B4&B5&B6&B7&B8&B9&B10).
  repeat split; try congruence. all: intros x; now rewrite B3.
Qed.
Lemma same_graph_sea st u v k x : same_graph st (set_edge_attr st u v k x).
Proof.
  destruct (sea_rest st u v k x) as (R1&R2&R3&R4&R5&R6&R7).
  unfold same_graph. repeat split; auto using sea_nodes, sea_succs_keys, sea_successors.
Qed.
Lemma same_graph_has_edge s s' a c : same_graph s s' -> has_edge s' a c = has_edge s a c.
Proof.
  intros (_&_&H&_). specialize (H a). unfold successors in H.
  destruct (has_edge s a c) eqn:E.
  - apply haskey_keys. rewrite H. apply haskey_keys. exact E.
  - destruct (has_edge s' a c) eqn:E'; [|reflexivity].
    apply haskey_keys in E'. rewrite H in E'. apply haskey_keys in E'. unfold has_edge in E. congruence.
Qed.
Lemma same_graph_attr s s' n k : same_graph s s' -> attr s' n k = attr s n k.
Proof. intros (H&_). unfold attr, node_attrs. now rewrite H. Qed.
Lemma same_graph_node_ids s s' : same_graph s s' -> node_ids s' = node_ids s.
Proof. intros (H&_). unfold node_ids. now rewrite H. Qed.

Lemma iou_update_edges_same st es : same_graph st (iou_update_edges st es).
Proof.
  unfold iou_update_edges. destruct (seg st) as [sg|]; [|apply same_graph_refl].
  destruct (iou_act (ft st)); [|apply same_graph_refl].
  revert st. induction es as [|e r IH]; intros st; cbn [fold_left]; [apply same_graph_refl|].
  eapply same_graph_trans; [apply same_graph_sea|apply IH].
Qed.

(* W_dict and W_forest only look at what same_graph preserves *)
Lemma same_graph_W_dict s s' : same_graph s s' -> W_dict s -> W_dict s'.
Proof.
  intros H Hd. pose proof H as (H1&H2&H3&_).
  assert (forall n, is_node s' n <-> is_node s n) as Hn by (intros n; unfold is_node; now rewrite (same_graph_node_ids _ _ H)).
  assert (forall a c, edge s' a c <-> edge s a c) as He by (intros a c; unfold edge; now rewrite (same_graph_has_edge _ _ _ _ H)).
  constructor.
  - rewrite (same_graph_node_ids _ _ H). apply (wd_nodup _ Hd).
  - rewrite H2. apply (wd_succ_nodup _ Hd).
  - intros n. rewrite Hn, <- (wd_succ_keys _ Hd n). rewrite !haskey_keys, H2. tauto.
  - intros u. rewrite H3. apply (wd_adj_nodup _ Hd).
  - intros u v E. rewrite !Hn. apply (wd_edge_nodes _ Hd). now apply He.
  - intros n Hin. rewrite (same_graph_attr _ _ _ _ H). apply (wd_time _ Hd). now apply Hn.
  - intros n Hin. rewrite (same_graph_attr _ _ _ _ H). apply (wd_track _ Hd). now apply Hn.
  - intros n Hin. rewrite (same_graph_attr _ _ _ _ H). apply (wd_lin _ Hd). now apply Hn.
  - intros n. unfold node_attrs. rewrite H1. apply (wd_attr_nodup _ Hd).
Qed.

Lemma same_graph_time s s' n : same_graph s s' -> time_of s' n = time_of s n.
Proof. intros H. unfold time_of, zattr. now rewrite (same_graph_attr _ _ _ _ H). Qed.

Lemma same_graph_W_forest s s' : same_graph s s' -> W_forest s -> W_forest s'.
Proof.
  intros H Hf. pose proof H as (_&_&H3&_).
  assert (forall a c, edge s' a c <-> edge s a c) as He by (intros a c; unfold edge; now rewrite (same_graph_has_edge _ _ _ _ H)).
  constructor.
  - intros u u' v E1 E2. apply (wf_in _ Hf u u' v); now apply He.
  - intros u. rewrite H3. apply (wf_out _ Hf).
  - intros u v E. rewrite !(same_graph_time _ _ _ H). apply (wf_time _ Hf). now apply He.
Qed.
