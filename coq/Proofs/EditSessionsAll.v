(* The session theorems over the whole interface WITHOUT a side condition on strokes.

   Proofs/EditSessionsFull.v asks of a refused stroke that its refusal involves no rollback of sub-actions
   (EditWFPaint.paint_pre), because Proofs/EditWFPaint.v leaves the rolled-back refusal open.
   Proofs/EditWFPaintRollback.v closes it (paint_refused_WF: every refused stroke leaves a well-formed,
   observably unchanged state with the same history).  Combined here: the side conditions that remain are
   those of Proofs/EditSessions.v (the attribute / pixel conditions of UserAddNode, positions when there is
   no segmentation) and the configuration fact rp_decl. *)
From Coq Require Import ZArith List Bool Lia.
From FT Require Import Base.Dict Model.Edit Model.EditExec Proofs.EditInv Proofs.EditBook Proofs.EditInverse Proofs.EditInverseNode
  Proofs.EditSessions Proofs.EditSessionsFull.
From FT Require Proofs.EditSeg Proofs.EditFrame Proofs.EditWFEdge Proofs.EditWFNode Proofs.EditWFPaint Proofs.EditWFPaintRollback Proofs.HistoryGeneric.
Import ListNotations.
Open Scope Z_scope.

(* the session invariant only depends on what can be observed of the current state *)
Lemma SInv_obs st st' t : SInv st t -> WF st' -> obs_eq st st' ->
  undo_stack st' = undo_stack st -> redo_stack st' = redo_stack st -> SInv st' t.
Proof.
  intros (Ss & I & Hall) W' O Eu Er. pose proof (oe_ft _ _ O) as Ef.
  assert (Ss' : SI st') by (apply (SI_ft st st'); [congruence|apply W'|apply W'|exact Ss]).
  split; [exact Ss'|]. split; [|exact Hall].
  apply (HInv_cur (hof st) (hof st') t I); [exact Eu|exact Er|]. cbn [hof A.cur].
  split; [now apply obs_eq_sym|tauto].
Qed.

(* one stroke in a session, accepted or refused in any way *)
Lemma paint_session_all st tl nv t idx T force : SInv st tl ->
  let res := step st (OPaint nv t idx T force) in
  SInv (fst res) (if fst (snd res) =? 0 then A.t_edit _ tl (fst res) else tl).
Proof.
  intros I. pose proof (SInv_WF st tl I) as W. pose proof I as (Ss & _ & _). pose proof (si_rp st Ss) as Hrp.
  cbn [step]. destruct (paint st nv t idx T force) as [a st'|e st'] eqn:H; cbn [fin fst snd].
  - change (0 =? 0) with true. cbv iota.
    destruct (paint_core_Consistent st nv t idx T force a st' W Hrp H) as (s1 & pl & -> & W1 & (Eu & Er & _ & _ & Ef) & C).
    exact (SInv_edit st tl a s1 pl I W1 Ef Eu Er C).
  - assert (Hc : ecode e =? 0 = false) by (apply Z.eqb_neq; apply EditFrame.ecode_not_small). rewrite Hc.
    destruct (EditWFPaintRollback.paint_refused_WF st nv t idx T force e st' W Hrp (si_reg st Ss) H) as [W' O].
    destruct (EditWFPaintRollback.paint_refused_aux st nv t idx T force e st' H) as (Eu & Er & _).
    exact (SInv_obs st st' tl I W' O Eu Er).
Qed.

Definition op_pre_all (st : state) (o : op) : Prop := EditWFNode.op_pre st o /\ op_pre2 st o.

Theorem step_session_all st t o : SInv st t -> rp_decl st -> op_pre_all st o ->
  SInv (fst (step st o)) (tl_step_full st t o) /\ rp_decl (fst (step st o)) /\
  (o = OUndo -> fst (snd (step st o)) = if snd (A.t_undo _ t) then 1 else 2) /\
  (o = ORedo -> fst (snd (step st o)) = if snd (A.t_redo _ t) then 1 else 2).
Proof.
  intros I D [P1 P2].
  assert (Hother : (forall nv t0 idx T f, o <> OPaint nv t0 idx T f) -> op_pre_full st o).
  { intros Hno. split; [|exact P2]. destruct o; try exact P1. exfalso. now apply (Hno new_value t0 idx T force). }
  destruct o; try (apply (step_session_full st t _ eq_refl I D); apply Hother; intros; discriminate).
  split; [exact (paint_session_all st t new_value t0 idx T force I)|]. split; [now apply rp_decl_step|]. split; discriminate.
Qed.

Definition pre_along_all (st : state) (ops : list op) : Prop :=
  forall pre o post, ops = pre ++ o :: post -> op_pre_all (run st pre) o.

Lemma pre_along_all_tail st o r : pre_along_all st (o :: r) -> pre_along_all (fst (step st o)) r.
Proof.
  intros H pre o' post E. specialize (H (o :: pre) o' post). cbn [app] in H.
  change (run st (o :: pre)) with (run (fst (step st o)) pre) in H. apply H. now rewrite E.
Qed.

Theorem run_session_all : forall ops st t, SInv st t -> rp_decl st -> pre_along_all st ops ->
  SInv (run st ops) (tl_run_full st t ops) /\ rp_decl (run st ops).
Proof.
  induction ops as [|o r IH]; intros st t I D Hpre; [split; assumption|].
  pose proof (Hpre [] o r eq_refl) as P. cbn [run fold_left] in P.
  destruct (step_session_all st t o I D P) as (I1 & D1 & _).
  change (run st (o :: r)) with (run (fst (step st o)) r). cbn [tl_run_full].
  apply IH; [exact I1|exact D1|now apply pre_along_all_tail].
Qed.

(* THE SESSION THEOREM, whole interface, no condition on strokes *)
Section SessionAll.
  Variables (st0 : state) (ops : list op).
  Hypothesis W0 : WF st0.
  Hypothesis Hreg : reg_ok st0.
  Hypothesis Hrp : rp_disjoint st0.
  Hypothesis Hdecl : rp_decl st0.
  Hypothesis Hu : undo_stack st0 = [].
  Hypothesis Hr : redo_stack st0 = [].
  Hypothesis Hpre : pre_along_all st0 ops.
  Let t0 : A.tline state := {| A.tl := [st0]; A.c := 0 |}.

  Lemma session_all_prefix pre post : ops = pre ++ post -> SInv (run st0 pre) (tl_run_full st0 t0 pre).
  Proof.
    intros E. apply run_session_all; [now apply SInv_init|exact Hdecl|].
    intros p o q Eq. apply (Hpre p o (q ++ post)). rewrite E, Eq, <- app_assoc. reflexivity.
  Qed.

  Theorem session_all_WF : WF (run st0 ops).
  Proof. apply (SInv_WF _ (tl_run_full st0 t0 ops)). apply (session_all_prefix ops []). now rewrite app_nil_r. Qed.

  Theorem session_all_reachable_WF pre post : ops = pre ++ post -> WF (run st0 pre).
  Proof. intros E. exact (SInv_WF _ _ (session_all_prefix pre post E)). Qed.

  Theorem session_all_timeline (dS : state) :
    let t := tl_run_full st0 t0 ops in
    (A.c _ t < length (A.tl _ t))%nat /\ obs_eq (run st0 ops) (nth (A.c _ t) (A.tl _ t) dS) /\
    Forall WF (A.tl _ t) /\ (exists ext, A.tl _ t = st0 :: ext).
  Proof.
    cbv zeta. assert (I : SInv (run st0 ops) (tl_run_full st0 t0 ops)) by (apply (session_all_prefix ops []); now rewrite app_nil_r).
    destruct (SInv_current _ _ dS I) as [A1 A2]. split; [exact A1|]. split; [exact A2|]. split; [apply I|].
    destruct (tl_run_full_grows ops st0 t0) as [ext E]. exists ext. exact E.
  Qed.

  Theorem session_all_undo_redo pre post :
    (ops = pre ++ OUndo :: post ->
       let t := tl_run_full st0 t0 pre in
       fst (snd (step (run st0 pre) OUndo)) = (if snd (A.t_undo _ t) then 1 else 2) /\
       (snd (A.t_undo _ t) = false <-> A.c _ t = 0%nat)) /\
    (ops = pre ++ ORedo :: post ->
       let t := tl_run_full st0 t0 pre in
       fst (snd (step (run st0 pre) ORedo)) = (if snd (A.t_redo _ t) then 1 else 2) /\
       (snd (A.t_redo _ t) = false <-> (length (A.tl _ t) <= S (A.c _ t))%nat)).
  Proof.
    split; intros E; cbv zeta; pose proof (session_all_prefix pre _ E) as I.
    - destruct (undo_session _ _ I) as [_ C]. split; [exact C|apply A.t_undo_false].
    - destruct (redo_session _ _ I) as [_ C]. split; [exact C|apply A.t_redo_false].
  Qed.
End SessionAll.

(* the decidable sufficient condition of Proofs/EditSessions.v serves *)
Lemma pre_alongb2_all ops st : pre_alongb2 st ops = true -> pre_along_all st ops.
Proof. intros H pre o post E. exact (pre_alongb2_spec ops st H pre o post E). Qed.

(* non-vacuity: the stroke of Proofs/EditWFPaintExample.v whose refusal is rolled back (7 over pixels of
   node 4 and background in frame 2, track 1 divided upstream: the shrink of 4 is undone), inside a session *)
Definition ex_all_session : list op :=
  [ OPaint 4 2 [3] 0 false; OPaint 7 2 [1; 2] 1 false; ODelEdge 1 3; OUndo; OUndo; OPaint 7 2 [1; 2] 1 false; ORedo; ORedo ].

Example session_all_nonvacuous :
  let st := run EditWFEdge.exs ex_all_session in
  let t := tl_run_full EditWFEdge.exs {| A.tl := [EditWFEdge.exs]; A.c := 0 |} ex_all_session in
  let s1 := run EditWFEdge.exs [OPaint 4 2 [3] 0 false] in
  WF st /\ codes EditWFEdge.exs ex_all_session = [0; 11; 0; 1; 1; 11; 1; 1] /\
  length (A.tl _ t) = 3%nat /\ A.c _ t = 2%nat /\ obs_eq st (nth 2 (A.tl _ t) EditWFEdge.exs) /\
  (* the second call is outside the domain of Proofs/EditSessionsFull.v *)
  ~ EditWFPaint.paint_pre s1 7 2 [1; 2] 1 false.
Proof.
  cbv zeta.
  assert (Hp : pre_along_all EditWFEdge.exs ex_all_session) by (apply pre_alongb2_all; vm_compute; reflexivity).
  pose proof (session_all_timeline EditWFEdge.exs ex_all_session EditWFEdge.exs_WF exs_reg_ok exs_rp_disjoint exs_rp_decl eq_refl eq_refl Hp EditWFEdge.exs) as T.
  cbv zeta in T. destruct T as (_ & T2 & _).
  assert (Ec : A.c _ (tl_run_full EditWFEdge.exs {| A.tl := [EditWFEdge.exs]; A.c := 0 |} ex_all_session) = 2%nat) by (vm_compute; reflexivity).
  split; [exact (session_all_WF EditWFEdge.exs ex_all_session EditWFEdge.exs_WF exs_reg_ok exs_rp_disjoint exs_rp_decl eq_refl eq_refl Hp)|].
  split; [vm_compute; reflexivity|]. split; [vm_compute; reflexivity|]. split; [exact Ec|].
  split; [rewrite Ec in T2; exact T2|].
  intros [(a & s & E)|[C|[C|[C|C]]]].
  - vm_compute in E. discriminate E.
  - discriminate C.
  - discriminate C.
  - apply EditSeg.is_node_haskey in C. vm_compute in C. discriminate C.
  - specialize (C [[1; 1; 0; 0]; [2; 2; 3; 0]; [0; 4; 4; 4]] 1%nat).
    assert (Hs : seg (run EditWFEdge.exs [OPaint 4 2 [3] 0 false]) = Some [[1; 1; 0; 0]; [2; 2; 3; 0]; [0; 4; 4; 4]]) by (vm_compute; reflexivity).
    assert (H1 : (1 < length (frame_of [[1; 1; 0; 0]; [2; 2; 3; 0]; [0; 4; 4; 4]]%Z 2%Z))%nat) by (apply Nat.ltb_lt; reflexivity).
    assert (H2 : In (Z.of_nat 1) [1; 2]) by (left; reflexivity).
    specialize (C Hs H1 H2). vm_compute in C. destruct C as [C|C]; discriminate C.
Qed.

Print Assumptions SInv_obs.
Print Assumptions paint_session_all.
Print Assumptions step_session_all.
Print Assumptions run_session_all.
Print Assumptions session_all_WF.
Print Assumptions session_all_reachable_WF.
Print Assumptions session_all_timeline.
Print Assumptions session_all_undo_redo.
Print Assumptions session_all_nonvacuous.
