(* Frame lemmas of the edit machine: which functions of Model/Edit.v can touch the history
   stacks, the refresh log, the id counter and the feature flags (none but the top-level
   tails, undo/redo and get_new_node_ids), and the skeleton theorems that C02 / C20 rest on. *)
From Coq Require Import ZArith List Bool Lia.
From FT Require Import Base.Dict Model.Edit Model.EditExec Proofs.EditInv.
Import ListNotations.
Open Scope Z_scope.

(* ================================================================== *)
(* Part 1 : the frame                                                  *)
(* ================================================================== *)

Definition aux_eq (s s' : state) : Prop :=
  undo_stack s' = undo_stack s /\ redo_stack s' = redo_stack s /\ rlog s' = rlog s /\
  nctr s' = nctr s /\ ft s' = ft s.

Lemma aux_refl : forall s, aux_eq s s.
Proof. intros s. unfold aux_eq. repeat split. Qed.

Lemma aux_trans : forall s1 s2 s3, aux_eq s1 s2 -> aux_eq s2 s3 -> aux_eq s1 s3.
Proof.
  intros s1 s2 s3 (H1 & H2 & H3 & H4 & H5) (K1 & K2 & K3 & K4 & K5). unfold aux_eq.
  repeat split; congruence.
Qed.

(* the generic bind lemma *)
Lemma aux_bind : forall A B (st : state) (r : res A) (f : A -> state -> res B),
  aux_eq st (rstate r) -> (forall a s, aux_eq s (rstate (f a s))) -> aux_eq st (rstate (bind r f)).
Proof.
  intros A B st r f Hr Hf. destruct r as [a s | e s]; cbn in *.
  - eapply aux_trans; [exact Hr | apply Hf].
  - exact Hr.
Qed.

(* the same in "continuation" form: this is the shape every lemma below is proved in
   (suffix [']), the plain form [aux_eq st (rstate (F st ..))] is its instance at reflexivity *)
Lemma aux_bind' : forall A B (s0 : state) (r : res A) (f : A -> state -> res B),
  aux_eq s0 (rstate r) -> (forall a s, aux_eq s0 s -> aux_eq s0 (rstate (f a s))) ->
  aux_eq s0 (rstate (bind r f)).
Proof.
  intros A B s0 r f Hr Hf. destruct r as [a s | e s]; cbn in *.
  - apply Hf. exact Hr.
  - exact Hr.
Qed.

Lemma aux_fold' : forall X (f : state -> X -> state) (l : list X) s0 s,
  (forall s x, aux_eq s0 s -> aux_eq s0 (f s x)) -> aux_eq s0 s -> aux_eq s0 (fold_left f l s).
Proof.
  intros X f l s0. induction l as [| x r IH]; intros s Hf Hs; cbn.
  - exact Hs.
  - apply IH; [exact Hf | apply Hf; exact Hs].
Qed.

(* record updates that stay inside the frame *)
Lemma aux_upd_g' : forall s0 s x, aux_eq s0 s -> aux_eq s0 (upd_g s x).
Proof. intros s0 s x H. exact H. Qed.
Lemma aux_upd_seg' : forall s0 s x, aux_eq s0 s -> aux_eq s0 (upd_seg s x).
Proof. intros s0 s x H. exact H. Qed.
Lemma aux_upd_bk' : forall s0 s x, aux_eq s0 s -> aux_eq s0 (upd_bk s x).
Proof. intros s0 s x H. exact H. Qed.

(* The workhorse: walk down the term, one bind / match / record update at a time.
   [fr_lem] is extended (::=) with the primed lemma of every function once it is proved. *)
Ltac fr_lem := first [ apply aux_upd_g' | apply aux_upd_seg' | apply aux_upd_bk' ].

Ltac fr_step :=
  lazymatch goal with
  | |- forall _, _ => intro
  | |- aux_eq ?a ?a => apply aux_refl
  | H : aux_eq ?a ?b |- aux_eq ?a ?b => exact H
  | |- aux_eq _ (rstate (bind _ _)) => apply aux_bind'
  | |- aux_eq _ (rstate (Ok _ _)) => cbn [rstate]
  | |- aux_eq _ (rstate (Err _ _)) => cbn [rstate]
  | |- aux_eq _ (fold_left _ _ _) => apply aux_fold'
  | |- aux_eq ?s0 (rstate (match ?c with _ => _ end)) =>
      lazymatch type of c with
      | res _ => let H := fresh "Hc" in
                 assert (H : aux_eq s0 (rstate c));
                 [ | destruct c eqn:?; cbn [rstate] in H ]
      | _ => destruct c eqn:?
      end
  | |- aux_eq _ (match ?c with _ => _ end) => destruct c eqn:?
  | |- aux_eq _ ((fun _ => _) _) => cbv beta
  | |- aux_eq _ (rstate ((fun _ => _) _)) => cbv beta
  | |- aux_eq _ _ => fr_lem
  end.
Ltac fr := repeat fr_step.

(* ---------- graph / segmentation writes ---------- *)
Lemma aux_set_node_attr' : forall s0 st n k v, aux_eq s0 st -> aux_eq s0 (set_node_attr st n k v).
Proof. intros s0 st n k v H. unfold set_node_attr. fr. Qed.
Lemma aux_set_node_attr : forall st n k v, aux_eq st (set_node_attr st n k v).
Proof. intros. apply aux_set_node_attr', aux_refl. Qed.

Lemma aux_del_node_attr' : forall s0 st n k, aux_eq s0 st -> aux_eq s0 (del_node_attr st n k).
Proof. intros s0 st n k H. unfold del_node_attr. fr. Qed.
Lemma aux_del_node_attr : forall st n k, aux_eq st (del_node_attr st n k).
Proof. intros. apply aux_del_node_attr', aux_refl. Qed.

Lemma aux_apply_attr' : forall s0 st n kv, aux_eq s0 st -> aux_eq s0 (apply_attr st n kv).
Proof.
  intros s0 st n kv H. unfold apply_attr.
  destruct (snd kv); first [apply aux_del_node_attr' | apply aux_set_node_attr']; exact H.
Qed.
Lemma aux_apply_attr : forall st n kv, aux_eq st (apply_attr st n kv).
Proof. intros. apply aux_apply_attr', aux_refl. Qed.

Lemma aux_set_edge_attr' : forall s0 st u v k x, aux_eq s0 st -> aux_eq s0 (set_edge_attr st u v k x).
Proof. intros s0 st u v k x H. unfold set_edge_attr. fr. Qed.
Lemma aux_set_edge_attr : forall st u v k x, aux_eq st (set_edge_attr st u v k x).
Proof. intros. apply aux_set_edge_attr', aux_refl. Qed.

Lemma aux_set_pixels' : forall s0 st px v, aux_eq s0 st -> aux_eq s0 (rstate (set_pixels st px v)).
Proof. intros s0 st px v H. unfold set_pixels. fr. Qed.
Lemma aux_set_pixels : forall st px v, aux_eq st (rstate (set_pixels st px v)).
Proof. intros. apply aux_set_pixels', aux_refl. Qed.

Ltac fr_lem ::= first [ apply aux_upd_g' | apply aux_upd_seg' | apply aux_upd_bk'
  | apply aux_set_node_attr' | apply aux_del_node_attr' | apply aux_apply_attr'
  | apply aux_set_edge_attr' | apply aux_set_pixels' ].

Lemma aux_rp_update' : forall s0 st n, aux_eq s0 st -> aux_eq s0 (rp_update st n).
Proof. intros s0 st n H. unfold rp_update. cbv zeta. fr. Qed.
Lemma aux_rp_update : forall st n, aux_eq st (rp_update st n).
Proof. intros. apply aux_rp_update', aux_refl. Qed.

Lemma aux_iou_update_edges' : forall s0 st es, aux_eq s0 st -> aux_eq s0 (iou_update_edges st es).
Proof. intros s0 st es H. unfold iou_update_edges. fr. Qed.
Lemma aux_iou_update_edges : forall st es, aux_eq st (iou_update_edges st es).
Proof. intros. apply aux_iou_update_edges', aux_refl. Qed.

Ltac fr_lem ::= first [ apply aux_upd_g' | apply aux_upd_seg' | apply aux_upd_bk'
  | apply aux_set_node_attr' | apply aux_del_node_attr' | apply aux_apply_attr'
  | apply aux_set_edge_attr' | apply aux_set_pixels'
  | apply aux_rp_update' | apply aux_iou_update_edges' ].

(* ---------- basic actions ---------- *)
Lemma aux_do_add_node' : forall s0 st n a px, aux_eq s0 st -> aux_eq s0 (rstate (do_add_node st n a px)).
Proof. intros s0 st n a px H. unfold do_add_node. cbv zeta. fr. Qed.
Lemma aux_do_add_node : forall st n a px, aux_eq st (rstate (do_add_node st n a px)).
Proof. intros. apply aux_do_add_node', aux_refl. Qed.

Lemma aux_do_del_node' : forall s0 st n px, aux_eq s0 st -> aux_eq s0 (rstate (do_del_node st n px)).
Proof. intros s0 st n px H. unfold do_del_node. cbv zeta. fr. Qed.
Lemma aux_do_del_node : forall st n px, aux_eq st (rstate (do_del_node st n px)).
Proof. intros. apply aux_do_del_node', aux_refl. Qed.

Lemma aux_do_add_edge' : forall s0 st u v a, aux_eq s0 st -> aux_eq s0 (rstate (do_add_edge st u v a)).
Proof. intros s0 st u v a H. unfold do_add_edge. cbv zeta. fr. Qed.
Lemma aux_do_add_edge : forall st u v a, aux_eq st (rstate (do_add_edge st u v a)).
Proof. intros. apply aux_do_add_edge', aux_refl. Qed.

Lemma aux_do_del_edge' : forall s0 st u v, aux_eq s0 st -> aux_eq s0 (rstate (do_del_edge st u v)).
Proof. intros s0 st u v H. unfold do_del_edge. cbv zeta. fr. Qed.
Lemma aux_do_del_edge : forall st u v, aux_eq st (rstate (do_del_edge st u v)).
Proof. intros. apply aux_do_del_edge', aux_refl. Qed.

Lemma aux_do_upd_attrs' : forall s0 st n new, aux_eq s0 st -> aux_eq s0 (rstate (do_upd_attrs st n new)).
Proof. intros s0 st n new H. unfold do_upd_attrs. cbv zeta. fr. Qed.
Lemma aux_do_upd_attrs : forall st n new, aux_eq st (rstate (do_upd_attrs st n new)).
Proof. intros. apply aux_do_upd_attrs', aux_refl. Qed.

Lemma aux_do_upd_seg' : forall s0 st n px added, aux_eq s0 st -> aux_eq s0 (rstate (do_upd_seg st n px added)).
Proof. intros s0 st n px added H. unfold do_upd_seg. cbv zeta. fr. Qed.
Lemma aux_do_upd_seg : forall st n px added, aux_eq st (rstate (do_upd_seg st n px added)).
Proof. intros. apply aux_do_upd_seg', aux_refl. Qed.

(* one BFS level and the whole walk of UpdateTrackIDs: state component of the accumulator *)
Definition acc_st (acc : state * bool * list Z * list Z * list Z) : state :=
  let '(s, _, _, _, _) := acc in s.

Lemma aux_visit' : forall s0 oldT newT newL acc n,
  aux_eq s0 (acc_st acc) -> aux_eq s0 (acc_st (visit oldT newT newL acc n)).
Proof.
  intros s0 oldT newT newL acc n H. destruct acc as [[[[s fl] tn] ln] nx]. cbn [acc_st] in H.
  unfold visit. destruct newL as [l |]; destruct fl;
    repeat match goal with |- context [if ?c then _ else _] => destruct c eqn:? end;
    cbn [acc_st]; fr.
Qed.
Lemma aux_visit : forall oldT newT newL acc n, aux_eq (acc_st acc) (acc_st (visit oldT newT newL acc n)).
Proof. intros. apply aux_visit', aux_refl. Qed.

Lemma aux_visit_fold' : forall s0 oldT newT newL curr acc,
  aux_eq s0 (acc_st acc) -> aux_eq s0 (acc_st (fold_left (visit oldT newT newL) curr acc)).
Proof.
  intros s0 oldT newT newL curr. induction curr as [| n r IH]; intros acc H; cbn [fold_left].
  - exact H.
  - apply IH, aux_visit', H.
Qed.

Lemma aux_walk' : forall s0 fuel oldT newT newL st curr fl tn ln st1 tn1 ln1,
  aux_eq s0 st -> walk fuel oldT newT newL st curr fl tn ln = Some (st1, tn1, ln1) -> aux_eq s0 st1.
Proof.
  intros s0 fuel oldT newT newL. induction fuel as [| f IH]; intros st curr fl tn ln st1 tn1 ln1 H Hw.
  - destruct curr as [| c r]; cbn in Hw; [| discriminate]. inversion Hw; subst. exact H.
  - destruct curr as [| c r]; [cbn in Hw; inversion Hw; subst; exact H |].
    cbn [walk] in Hw.
    pose proof (aux_visit_fold' s0 oldT newT newL (c :: r) (st, fl, tn, ln, []) H) as Hv.
    destruct (fold_left (visit oldT newT newL) (c :: r) (st, fl, tn, ln, [])) as [[[[s2 f2] tn2] ln2] nx2].
    cbn [acc_st] in Hv. eapply IH; [exact Hv | exact Hw].
Qed.
Lemma aux_walk : forall fuel oldT newT newL st curr fl tn ln st1 tn1 ln1,
  walk fuel oldT newT newL st curr fl tn ln = Some (st1, tn1, ln1) -> aux_eq st st1.
Proof. intros. eapply aux_walk'; [apply aux_refl | eassumption]. Qed.

Lemma aux_do_upd_track' : forall s0 st start newT newL,
  aux_eq s0 st -> aux_eq s0 (rstate (do_upd_track st start newT newL)).
Proof.
  intros s0 st start newT newL H. unfold do_upd_track. cbv zeta.
  repeat lazymatch goal with
  | |- aux_eq _ (rstate (match walk ?f ?a ?b ?c ?s ?cu ?fl ?tn ?ln with _ => _ end)) =>
      destruct (walk f a b c s cu fl tn ln) as [[[st1 tn1] ln1] |] eqn:Hw;
      [ pose proof (aux_walk' s0 _ _ _ _ _ _ _ _ _ _ _ _ H Hw) |]
  | _ => fr_step
  end.
Qed.
Lemma aux_do_upd_track : forall st start newT newL, aux_eq st (rstate (do_upd_track st start newT newL)).
Proof. intros. apply aux_do_upd_track', aux_refl. Qed.

Ltac fr_lem ::= first [ apply aux_upd_g' | apply aux_upd_seg' | apply aux_upd_bk'
  | apply aux_set_node_attr' | apply aux_del_node_attr' | apply aux_apply_attr'
  | apply aux_set_edge_attr' | apply aux_set_pixels'
  | apply aux_rp_update' | apply aux_iou_update_edges'
  | apply aux_do_add_node' | apply aux_do_del_node' | apply aux_do_add_edge' | apply aux_do_del_edge'
  | apply aux_do_upd_attrs' | apply aux_do_upd_seg' | apply aux_do_upd_track' ].

(* ---------- inverses ---------- *)
Lemma aux_inv_basic' : forall s0 st b, aux_eq s0 st -> aux_eq s0 (rstate (inv_basic st b)).
Proof. intros s0 st b H. destruct b; cbn [inv_basic]; fr. Qed.
Lemma aux_inv_basic : forall st b, aux_eq st (rstate (inv_basic st b)).
Proof. intros. apply aux_inv_basic', aux_refl. Qed.

(* strong induction principle of the nested type [action] *)
Fixpoint action_ind2 (P : action -> Prop)
  (HB : forall b, P (ABasic b)) (HG : forall l, Forall P l -> P (AGroup l)) (a : action) {struct a} : P a :=
  match a with
  | ABasic b => HB b
  | AGroup l => HG l ((fix go (l : list action) : Forall P l :=
                         match l with
                         | [] => Forall_nil P
                         | x :: r => Forall_cons x (action_ind2 P HB HG x) (go r)
                         end) l)
  end.

(* the loop of ActionGroup.inverse, named *)
Definition inv_list : list action -> state -> res (list action) :=
  fix go (l : list action) (st : state) {struct l} : res (list action) :=
    match l with
    | [] => Ok [] st
    | a :: r => do accr, s <- go r st; do a', s2 <- inv_action s a; Ok (accr ++ [a']) s2
    end.
Lemma inv_action_group : forall st l,
  inv_action st (AGroup l) = (do l', s <- inv_list l st; Ok (AGroup l') s).
Proof. reflexivity. Qed.

Lemma aux_inv_action' : forall a s0 st, aux_eq s0 st -> aux_eq s0 (rstate (inv_action st a)).
Proof.
  induction a as [b | l IHl] using action_ind2; intros s0 st H.
  - cbn [inv_action]. fr. apply aux_inv_basic'. exact H.
  - rewrite inv_action_group. apply aux_bind'; [| fr].
    revert st H. induction IHl as [| a r Ha Hr IH]; intros st H.
    + cbn. exact H.
    + change (inv_list (a :: r) st)
        with (do accr, s <- inv_list r st; do a', s2 <- inv_action s a; Ok (accr ++ [a']) s2).
      apply aux_bind'; [apply IH; exact H |]. intros accr s Hs.
      apply aux_bind'; [apply Ha; exact Hs | fr].
Qed.
Lemma aux_inv_action : forall st a, aux_eq st (rstate (inv_action st a)).
Proof. intros. apply aux_inv_action', aux_refl. Qed.

Ltac fr_lem ::= first [ apply aux_upd_g' | apply aux_upd_seg' | apply aux_upd_bk'
  | apply aux_set_node_attr' | apply aux_del_node_attr' | apply aux_apply_attr'
  | apply aux_set_edge_attr' | apply aux_set_pixels'
  | apply aux_rp_update' | apply aux_iou_update_edges'
  | apply aux_do_add_node' | apply aux_do_del_node' | apply aux_do_add_edge' | apply aux_do_del_edge'
  | apply aux_do_upd_attrs' | apply aux_do_upd_seg' | apply aux_do_upd_track'
  | apply aux_inv_basic' | apply aux_inv_action' ].

(* ---------- queries that return a state ---------- *)
(* get_track_neighbors sorts a lookup list in place: only [bk] can change *)
Lemma track_neighbors_frame : forall st T t,
  let s := fst (track_neighbors st T t) in
  g s = g st /\ seg s = seg st /\ aux_eq st s.
Proof.
  intros st T t. unfold track_neighbors.
  destruct (lookup T (trk_book (bk st))) as [[| x l] |]; cbn; repeat split.
Qed.
Lemma aux_track_neighbors' : forall s0 st T t, aux_eq s0 st -> aux_eq s0 (fst (track_neighbors st T t)).
Proof. intros s0 st T t H. eapply aux_trans; [exact H | apply track_neighbors_frame]. Qed.
Lemma aux_track_neighbors : forall st T t, aux_eq st (fst (track_neighbors st T t)).
Proof. intros. apply aux_track_neighbors', aux_refl. Qed.

(* _get_new_node_ids advances the counter and nothing else *)
Lemma get_new_node_ids_frame : forall st n,
  let s := fst (get_new_node_ids st n) in
  g s = g st /\ seg s = seg st /\ ft s = ft st /\ bk s = bk st /\
  undo_stack s = undo_stack st /\ redo_stack s = redo_stack st /\ rlog s = rlog st.
Proof.
  intros st n. unfold get_new_node_ids.
  destruct (new_ids_loop st _ _) as [ids' c]. cbn. repeat split.
Qed.

(* ---------- user actions: cores, loops, nested (top = false) calls ---------- *)
Lemma aux_top_wrap_false' : forall s0 p r, aux_eq s0 (rstate r) -> aux_eq s0 (rstate (top_wrap false p r)).
Proof. intros s0 p r H. destruct r; exact H. Qed.
Lemma aux_top_wrap_false : forall p r, aux_eq (rstate r) (rstate (top_wrap false p r)).
Proof. intros. apply aux_top_wrap_false', aux_refl. Qed.

(* [fr] extended with the destructuring of a [track_neighbors] call *)
Ltac fu_step :=
  lazymatch goal with
  | H : aux_eq ?s0 ?s |- aux_eq ?s0 (rstate (match track_neighbors ?s ?T ?t with _ => _ end)) =>
      let Hn := fresh "Hn" in
      pose proof (aux_track_neighbors' s0 s T t H) as Hn;
      destruct (track_neighbors s T t) as [? [? ?]] eqn:?; cbn [fst] in Hn
  | |- aux_eq _ (rstate (top_wrap false _ _)) => apply aux_top_wrap_false'
  | _ => fr_step
  end.
Ltac fu := repeat fu_step.

Lemma aux_user_delete_edge_core' : forall s0 st u v,
  aux_eq s0 st -> aux_eq s0 (rstate (user_delete_edge_core st u v)).
Proof. intros s0 st u v H. unfold user_delete_edge_core. cbv zeta. fu. Qed.
Lemma aux_user_delete_edge_core : forall st u v, aux_eq st (rstate (user_delete_edge_core st u v)).
Proof. intros. apply aux_user_delete_edge_core', aux_refl. Qed.
Lemma aux_user_delete_edge_nested' : forall s0 st u v,
  aux_eq s0 st -> aux_eq s0 (rstate (user_delete_edge st u v false)).
Proof. intros s0 st u v H. unfold user_delete_edge. apply aux_top_wrap_false', aux_user_delete_edge_core', H. Qed.

Ltac fr_lem ::= first [ apply aux_upd_g' | apply aux_upd_seg' | apply aux_upd_bk'
  | apply aux_set_node_attr' | apply aux_del_node_attr' | apply aux_apply_attr'
  | apply aux_set_edge_attr' | apply aux_set_pixels'
  | apply aux_rp_update' | apply aux_iou_update_edges'
  | apply aux_do_add_node' | apply aux_do_del_node' | apply aux_do_add_edge' | apply aux_do_del_edge'
  | apply aux_do_upd_attrs' | apply aux_do_upd_seg' | apply aux_do_upd_track'
  | apply aux_inv_basic' | apply aux_inv_action'
  | apply aux_user_delete_edge_core' | apply aux_user_delete_edge_nested' ].

Lemma aux_user_add_edge_core' : forall s0 st u v force,
  aux_eq s0 st -> aux_eq s0 (rstate (user_add_edge_core st u v force)).
Proof. intros s0 st u v force H. unfold user_add_edge_core. cbv zeta. fu. Qed.
Lemma aux_user_add_edge_core : forall st u v force, aux_eq st (rstate (user_add_edge_core st u v force)).
Proof. intros. apply aux_user_add_edge_core', aux_refl. Qed.
Lemma aux_user_add_edge_nested' : forall s0 st u v force,
  aux_eq s0 st -> aux_eq s0 (rstate (user_add_edge st u v force false)).
Proof. intros s0 st u v force H. unfold user_add_edge. apply aux_top_wrap_false', aux_user_add_edge_core', H. Qed.

Lemma aux_udn_preds' : forall n ps s0 s acc, aux_eq s0 s -> aux_eq s0 (rstate (udn_preds n ps s acc)).
Proof. intros n ps. induction ps as [| p r IH]; intros s0 s acc H; cbn [udn_preds]; cbv zeta; fu. apply IH. fu. Qed.
Lemma aux_udn_preds : forall n ps s acc, aux_eq s (rstate (udn_preds n ps s acc)).
Proof. intros. apply aux_udn_preds', aux_refl. Qed.

Lemma aux_udn_succs' : forall n cs s0 s acc, aux_eq s0 s -> aux_eq s0 (rstate (udn_succs n cs s acc)).
Proof. intros n cs. induction cs as [| c r IH]; intros s0 s acc H; cbn [udn_succs]; fu. apply IH. fu. Qed.
Lemma aux_udn_succs : forall n cs s acc, aux_eq s (rstate (udn_succs n cs s acc)).
Proof. intros. apply aux_udn_succs', aux_refl. Qed.

Lemma aux_udn_orphans' : forall os s0 s acc, aux_eq s0 s -> aux_eq s0 (rstate (udn_orphans os s acc)).
Proof. intros os. induction os as [| o r IH]; intros s0 s acc H; cbn [udn_orphans]; fu. apply IH. fu. Qed.
Lemma aux_udn_orphans : forall os s acc, aux_eq s (rstate (udn_orphans os s acc)).
Proof. intros. apply aux_udn_orphans', aux_refl. Qed.

Ltac fr_lem ::= first [ apply aux_upd_g' | apply aux_upd_seg' | apply aux_upd_bk'
  | apply aux_set_node_attr' | apply aux_del_node_attr' | apply aux_apply_attr'
  | apply aux_set_edge_attr' | apply aux_set_pixels'
  | apply aux_rp_update' | apply aux_iou_update_edges'
  | apply aux_do_add_node' | apply aux_do_del_node' | apply aux_do_add_edge' | apply aux_do_del_edge'
  | apply aux_do_upd_attrs' | apply aux_do_upd_seg' | apply aux_do_upd_track'
  | apply aux_inv_basic' | apply aux_inv_action'
  | apply aux_user_delete_edge_core' | apply aux_user_delete_edge_nested'
  | apply aux_user_add_edge_core' | apply aux_user_add_edge_nested'
  | apply aux_udn_preds' | apply aux_udn_succs' | apply aux_udn_orphans' ].

Lemma aux_user_delete_node_core' : forall s0 st n pxo,
  aux_eq s0 st -> aux_eq s0 (rstate (user_delete_node_core st n pxo)).
Proof. intros s0 st n pxo H. unfold user_delete_node_core. cbv zeta. fu. Qed.
Lemma aux_user_delete_node_core : forall st n pxo, aux_eq st (rstate (user_delete_node_core st n pxo)).
Proof. intros. apply aux_user_delete_node_core', aux_refl. Qed.
Lemma aux_user_delete_node_nested' : forall s0 st n pxo,
  aux_eq s0 st -> aux_eq s0 (rstate (user_delete_node st n pxo false)).
Proof. intros s0 st n pxo H. unfold user_delete_node. apply aux_top_wrap_false', aux_user_delete_node_core', H. Qed.

Lemma aux_uan_conflicts' : forall s0 st pred succ force,
  aux_eq s0 st -> aux_eq s0 (rstate (uan_conflicts st pred succ force)).
Proof. intros s0 st pred succ force H. unfold uan_conflicts. cbv zeta. fu. Qed.

Lemma aux_uan_cut' : forall es s0 s acc, aux_eq s0 s -> aux_eq s0 (rstate (uan_cut es s acc)).
Proof. intros es. induction es as [| e r IH]; intros s0 s acc H; cbn [uan_cut]; fu. apply IH. fu. Qed.
Lemma aux_uan_cut : forall es s acc, aux_eq s (rstate (uan_cut es s acc)).
Proof. intros. apply aux_uan_cut', aux_refl. Qed.

Ltac fr_lem ::= first [ apply aux_upd_g' | apply aux_upd_seg' | apply aux_upd_bk'
  | apply aux_set_node_attr' | apply aux_del_node_attr' | apply aux_apply_attr'
  | apply aux_set_edge_attr' | apply aux_set_pixels'
  | apply aux_rp_update' | apply aux_iou_update_edges'
  | apply aux_do_add_node' | apply aux_do_del_node' | apply aux_do_add_edge' | apply aux_do_del_edge'
  | apply aux_do_upd_attrs' | apply aux_do_upd_seg' | apply aux_do_upd_track'
  | apply aux_inv_basic' | apply aux_inv_action'
  | apply aux_user_delete_edge_core' | apply aux_user_delete_edge_nested'
  | apply aux_user_add_edge_core' | apply aux_user_add_edge_nested'
  | apply aux_udn_preds' | apply aux_udn_succs' | apply aux_udn_orphans'
  | apply aux_user_delete_node_core' | apply aux_user_delete_node_nested'
  | apply aux_uan_conflicts' | apply aux_uan_cut' ].

Lemma aux_user_add_node_core' : forall s0 st n a px force,
  aux_eq s0 st -> aux_eq s0 (rstate (user_add_node_core st n a px force)).
Proof. intros s0 st n a px force H. unfold user_add_node_core. cbv zeta. fu. Qed.
Lemma aux_user_add_node_core : forall st n a px force, aux_eq st (rstate (user_add_node_core st n a px force)).
Proof. intros. apply aux_user_add_node_core', aux_refl. Qed.
Lemma aux_user_add_node_nested' : forall s0 st n a px force,
  aux_eq s0 st -> aux_eq s0 (rstate (user_add_node st n a px force false)).
Proof. intros s0 st n a px force H. unfold user_add_node. apply aux_top_wrap_false', aux_user_add_node_core', H. Qed.

Lemma aux_user_swap_core' : forall s0 st n1 n2, aux_eq s0 st -> aux_eq s0 (rstate (user_swap_core st n1 n2)).
Proof. intros s0 st n1 n2 H. unfold user_swap_core. cbv zeta. fu. Qed.
Lemma aux_user_swap_core : forall st n1 n2, aux_eq st (rstate (user_swap_core st n1 n2)).
Proof. intros. apply aux_user_swap_core', aux_refl. Qed.

Lemma aux_user_update_attrs_core' : forall s0 st n new,
  aux_eq s0 st -> aux_eq s0 (rstate (user_update_attrs_core st n new)).
Proof. intros s0 st n new H. unfold user_update_attrs_core. fu. Qed.
Lemma aux_user_update_attrs_core : forall st n new, aux_eq st (rstate (user_update_attrs_core st n new)).
Proof. intros. apply aux_user_update_attrs_core', aux_refl. Qed.

Ltac fr_lem ::= first [ apply aux_upd_g' | apply aux_upd_seg' | apply aux_upd_bk'
  | apply aux_set_node_attr' | apply aux_del_node_attr' | apply aux_apply_attr'
  | apply aux_set_edge_attr' | apply aux_set_pixels'
  | apply aux_rp_update' | apply aux_iou_update_edges'
  | apply aux_do_add_node' | apply aux_do_del_node' | apply aux_do_add_edge' | apply aux_do_del_edge'
  | apply aux_do_upd_attrs' | apply aux_do_upd_seg' | apply aux_do_upd_track'
  | apply aux_inv_basic' | apply aux_inv_action'
  | apply aux_user_delete_edge_core' | apply aux_user_delete_edge_nested'
  | apply aux_user_add_edge_core' | apply aux_user_add_edge_nested'
  | apply aux_udn_preds' | apply aux_udn_succs' | apply aux_udn_orphans'
  | apply aux_user_delete_node_core' | apply aux_user_delete_node_nested'
  | apply aux_uan_conflicts' | apply aux_uan_cut'
  | apply aux_user_add_node_core' | apply aux_user_add_node_nested' ].

Lemma aux_uus_groups' : forall gs s0 s acc, aux_eq s0 s -> aux_eq s0 (rstate (uus_groups gs s acc)).
Proof.
  intros gs. induction gs as [| [px old] r IH]; intros s0 s acc H; cbn [uus_groups]; cbv zeta; fu;
    apply IH; fu.
Qed.
Lemma aux_uus_groups : forall gs s acc, aux_eq s (rstate (uus_groups gs s acc)).
Proof. intros. apply aux_uus_groups', aux_refl. Qed.

Lemma aux_rollback' : forall l s0 s, aux_eq s0 s -> aux_eq s0 (rstate (rollback l s)).
Proof. intros l. induction l as [| x r IH]; intros s0 s H; cbn [rollback]; fu. apply IH. fu. Qed.
Lemma aux_rollback : forall l s, aux_eq s (rstate (rollback l s)).
Proof. intros. apply aux_rollback', aux_refl. Qed.

Ltac fr_lem ::= first [ apply aux_upd_g' | apply aux_upd_seg' | apply aux_upd_bk'
  | apply aux_set_node_attr' | apply aux_del_node_attr' | apply aux_apply_attr'
  | apply aux_set_edge_attr' | apply aux_set_pixels'
  | apply aux_rp_update' | apply aux_iou_update_edges'
  | apply aux_do_add_node' | apply aux_do_del_node' | apply aux_do_add_edge' | apply aux_do_del_edge'
  | apply aux_do_upd_attrs' | apply aux_do_upd_seg' | apply aux_do_upd_track'
  | apply aux_inv_basic' | apply aux_inv_action'
  | apply aux_user_delete_edge_core' | apply aux_user_delete_edge_nested'
  | apply aux_user_add_edge_core' | apply aux_user_add_edge_nested'
  | apply aux_udn_preds' | apply aux_udn_succs' | apply aux_udn_orphans'
  | apply aux_user_delete_node_core' | apply aux_user_delete_node_nested'
  | apply aux_uan_conflicts' | apply aux_uan_cut'
  | apply aux_user_add_node_core' | apply aux_user_add_node_nested'
  | apply aux_uus_groups' | apply aux_rollback' ].

Lemma aux_user_update_seg_core' : forall s0 st nv groups T force,
  aux_eq s0 st -> aux_eq s0 (rstate (user_update_seg_core st nv groups T force)).
Proof. intros s0 st nv groups T force H. unfold user_update_seg_core. cbv zeta. fu. Qed.
Lemma aux_user_update_seg_core : forall st nv groups T force,
  aux_eq st (rstate (user_update_seg_core st nv groups T force)).
Proof. intros. apply aux_user_update_seg_core', aux_refl. Qed.

(* ================================================================== *)
(* Part 2 : the skeleton                                               *)
(* ================================================================== *)

(* (a) the top-level tail runs exactly on success *)
Theorem top_wrap_ok : forall (p : option Z) (r : res action),
  (forall a s', top_wrap true p r = Ok a s' <-> exists s, r = Ok a s /\ s' = finish_top s a p) /\
  (forall e s', top_wrap true p r = Err e s' <-> r = Err e s').
Proof.
  intros p r. split.
  - intros a s'. destruct r as [a0 s0 | e0 s0]; cbn; split.
    + intros Heq. inversion Heq; subst. exists s0. split; reflexivity.
    + intros (s & Hr & Hs). inversion Hr; subst. reflexivity.
    + intros Heq. discriminate Heq.
    + intros (s & Hr & _). discriminate Hr.
  - intros e s'. destruct r as [a0 s0 | e0 s0]; cbn; split; intros Heq; try discriminate Heq; exact Heq.
Qed.

(* (b) what the tail does *)
Theorem finish_top_spec : forall s a p,
  rlog (finish_top s a p) = rlog s ++ [p] /\
  redo_stack (finish_top s a p) = [] /\
  undo_stack (finish_top s a p) = (undo_stack s ++ redo_stack s) ++ [a] /\
  g (finish_top s a p) = g s /\ seg (finish_top s a p) = seg s /\ ft (finish_top s a p) = ft s /\
  bk (finish_top s a p) = bk s /\ nctr (finish_top s a p) = nctr s.
Proof.
  intros s a p. unfold finish_top, hist_add.
  destruct (redo_stack s) as [| x r] eqn:Hr; cbn; rewrite ?Hr, ?app_nil_r; repeat split.
Qed.

Lemma ecode_not_small : forall e, ecode e <> 0 /\ ecode e <> 1 /\ ecode e <> 2.
Proof. intros e. destruct e as [[|] | | | | |]; cbn; repeat split; discriminate. Qed.

(* the effect of one top-level call on the frame, given that its core stays inside it *)
Definition top_effect (st st' : state) (code : Z) (P : option Z -> Prop) : Prop :=
  (code = 0 -> (exists p, rlog st' = rlog st ++ [p] /\ P p) /\
               (exists a, undo_stack st' = (undo_stack st ++ redo_stack st) ++ [a]) /\
               redo_stack st' = []) /\
  (code <> 0 -> aux_eq st st').

Lemma top_step : forall st p (r : res action) st' code aux,
  aux_eq st (rstate r) -> fin (top_wrap true p r) = (st', (code, aux)) ->
  top_effect st st' code (fun q => q = p).
Proof.
  intros st p r st' code aux Hr Hs. destruct r as [a s | e s]; cbn in Hr, Hs; inversion Hs; subst; clear Hs.
  - destruct Hr as (Hu & Hd & Hl & _ & _).
    destruct (finish_top_spec s a p) as (Fl & Fr & Fu & _).
    split; [intros _ | intros Hc; exfalso; apply Hc; reflexivity].
    split; [exists p; split; [rewrite Fl, Hl; reflexivity | reflexivity] |].
    split; [exists a; rewrite Fu, Hu, Hd; reflexivity | exact Fr].
  - split; [intros Hc; exfalso; exact (proj1 (ecode_not_small e) Hc) | intros _; exact Hr].
Qed.

(* the payload of UserUpdateSegmentation: the new label when it created the node, else None *)
Definition pay_ok (nv : Z) (r : res (action * option Z)) : Prop :=
  match r with Ok (_, p) _ => p = None \/ p = Some nv | Err _ _ => True end.
Lemma pay_bind : forall nv A (r : res A) f, (forall a s, pay_ok nv (f a s)) -> pay_ok nv (bind r f).
Proof. intros nv A r f Hf. destruct r; cbn; [apply Hf | exact I]. Qed.
Lemma user_update_seg_core_payload : forall st nv groups T force,
  pay_ok nv (user_update_seg_core st nv groups T force).
Proof.
  intros st nv groups T force. unfold user_update_seg_core. cbv zeta.
  repeat lazymatch goal with
  | |- forall _, _ => intro
  | |- pay_ok _ (bind _ _) => apply pay_bind
  | |- pay_ok _ (match ?c with _ => _ end) => destruct c eqn:?
  | |- pay_ok _ (Ok _ _) => cbn [pay_ok]
  | |- pay_ok _ (Err _ _) => exact I
  | |- ?x = ?x \/ _ => left; reflexivity
  | |- _ \/ ?x = ?x => right; reflexivity
  end.
Qed.

Lemma uus_step : forall st0 st nv groups T force st' code aux,
  aux_eq st0 st -> fin (user_update_seg st nv groups T force) = (st', (code, aux)) ->
  top_effect st0 st' code (fun q => q = None \/ q = Some nv).
Proof.
  intros st0 st nv groups T force st' code aux H0 Hs. unfold user_update_seg in Hs.
  pose proof (aux_user_update_seg_core' st0 st nv groups T force H0) as Hr.
  pose proof (user_update_seg_core_payload st nv groups T force) as Hp.
  destruct (user_update_seg_core st nv groups T force) as [[a p] s | e s];
    cbn in Hr, Hp, Hs; inversion Hs; subst; clear Hs.
  - destruct Hr as (Hu & Hd & Hl & _ & _).
    destruct (finish_top_spec s a p) as (Fl & Fr & Fu & _).
    split; [intros _ | intros Hc; exfalso; apply Hc; reflexivity].
    split; [exists p; split; [rewrite Fl, Hl; reflexivity | exact Hp] |].
    split; [exists a; rewrite Fu, Hu, Hd; reflexivity | exact Fr].
  - split; [intros Hc; exfalso; exact (proj1 (ecode_not_small e) Hc) | intros _; exact Hr].
Qed.

Lemma paint_step : forall st nv t idx T force st' code aux,
  fin (paint st nv t idx T force) = (st', (code, aux)) ->
  top_effect st st' code (fun q => q = None \/ q = Some nv).
Proof.
  intros st nv t idx T force st' code aux Hs. unfold paint in Hs.
  destruct (seg st) as [sg |] eqn:Hseg.
  - destruct (negb (frame_ok sg t)) eqn:Hf.
    + cbn in Hs. inversion Hs; subst. split; [intros Hc; discriminate Hc | intros _; apply aux_refl].
    + cbv zeta in Hs.
      set (painted := upd_seg st _) in Hs.
      assert (Hp : aux_eq st painted) by (apply aux_upd_seg', aux_refl).
      set (gs := paint_groups sg t idx nv) in Hs.
      pose proof (uus_step st painted nv gs T force) as Hu.
      destruct (user_update_seg painted nv gs T force) as [a s | e s]; cbn [fin] in Hs, Hu.
      * inversion Hs; subst. eapply Hu; [exact Hp | reflexivity].
      * inversion Hs; subst. specialize (Hu s (ecode e) [] Hp eq_refl).
        split; [intros Hc; exfalso; exact (proj1 (ecode_not_small e) Hc) | intros Hc].
        destruct Hu as [_ Hu]. specialize (Hu Hc).
        destruct (seg s); [apply aux_upd_seg' |]; exact Hu.
  - eapply uus_step; [apply aux_refl | exact Hs].
Qed.

(* undo / redo *)
Lemma undo_step : forall st st' code aux, finb (undo st) = (st', (code, aux)) ->
  (code = 1 -> rlog st' = rlog st ++ [None] /\ undo_stack st' = undo_stack st /\
               exists b, redo_stack st' = redo_stack st ++ [b]) /\
  (code = 2 -> st' = st) /\
  (code <> 1 -> code <> 2 -> aux_eq st st').
Proof.
  intros st st' code aux Hs. unfold undo in Hs. cbv zeta in Hs.
  assert (Hno : forall s c x, finb (Ok false st) = (s, (c, x)) ->
     (c = 1 -> rlog s = rlog st ++ [None] /\ undo_stack s = undo_stack st /\
               exists b, redo_stack s = redo_stack st ++ [b]) /\
     (c = 2 -> s = st) /\ (c <> 1 -> c <> 2 -> aux_eq st s)).
  { intros s c x Hx. cbn in Hx. inversion Hx; subst.
    split; [intros Hc; discriminate Hc |]. split; [reflexivity | intros _ _; apply aux_refl]. }
  destruct (length (undo_stack st) <=? length (redo_stack st))%nat; [exact (Hno _ _ _ Hs) |].
  destruct (nth_error (undo_stack st) _) as [a |]; [| exact (Hno _ _ _ Hs)].
  pose proof (aux_inv_action st a) as Hi.
  destruct (inv_action st a) as [b s | e s]; cbn in Hi, Hs; inversion Hs; subst; clear Hs.
  - destruct Hi as (Hu & Hd & Hl & _ & _). cbn.
    split; [intros _ |].
    + split; [rewrite Hl; reflexivity |]. split; [exact Hu | exists b; rewrite Hd; reflexivity].
    + split; [intros Hc; discriminate Hc | intros Hc; exfalso; apply Hc; reflexivity].
  - destruct (ecode_not_small e) as (_ & E1 & E2).
    split; [intros Hc; exfalso; exact (E1 Hc) |]. split; [intros Hc; exfalso; exact (E2 Hc) |].
    intros _ _. exact Hi.
Qed.

Lemma redo_step : forall st st' code aux, finb (redo st) = (st', (code, aux)) ->
  (code = 1 -> rlog st' = rlog st ++ [None]) /\
  (code = 2 -> st' = st) /\
  (code <> 1 -> rlog st' = rlog st) /\
  (code <> 2 -> undo_stack st' = undo_stack st /\ redo_stack st' = removelast (redo_stack st)).
Proof.
  intros st st' code aux Hs. unfold redo in Hs.
  destruct (rev (redo_stack st)) as [| b r'] eqn:Hrev.
  - cbn in Hs. inversion Hs; subst.
    split; [intros Hc; discriminate Hc |]. split; [reflexivity |].
    split; [reflexivity | intros Hc; exfalso; apply Hc; reflexivity].
  - assert (Hr : redo_stack st = rev r' ++ [b]).
    { rewrite <- (rev_involutive (redo_stack st)), Hrev. reflexivity. }
    pose proof (aux_inv_action (upd_hist st (undo_stack st) (rev r')) b) as Hi.
    destruct (inv_action _ b) as [x s | e s]; cbn in Hi, Hs; inversion Hs; subst; clear Hs;
      destruct Hi as (Hu & Hd & Hl & _ & _); cbn.
    + split; [intros _; rewrite Hl; reflexivity |].
      split; [intros Hc; discriminate Hc |].
      split; [intros Hc; exfalso; apply Hc; reflexivity |].
      intros _. rewrite Hu, Hd, Hr, removelast_last. split; reflexivity.
    + destruct (ecode_not_small e) as (_ & E1 & E2).
      split; [intros Hc; exfalso; exact (E1 Hc) |]. split; [intros Hc; exfalso; exact (E2 Hc) |].
      split; [intros _; exact Hl |].
      intros _. rewrite Hu, Hd, Hr, removelast_last. split; reflexivity.
Qed.

(* every edit op, uniformly *)
Definition edit_payload (o : op) (p : option Z) : Prop :=
  match o with
  | OAddNode n _ _ _ => p = Some n
  | OPaint nv _ _ _ _ => p = None \/ p = Some nv
  | _ => p = None
  end.
Definition is_edit (o : op) : bool :=
  match o with
  | OAddEdge _ _ _ | ODelEdge _ _ | OAddNode _ _ _ _ | ODelNode _ | OSwap _ _ | OUpdAttrs _ _
  | OPaint _ _ _ _ _ => true
  | _ => false
  end.
Lemma edit_step : forall st o st' code aux, is_edit o = true -> step st o = (st', (code, aux)) ->
  top_effect st st' code (edit_payload o).
Proof.
  intros st o st' code aux He Hs. destruct o; try discriminate He; cbn [step edit_payload] in *.
  - eapply top_step; [apply aux_user_add_edge_core | exact Hs].
  - eapply top_step; [apply aux_user_delete_edge_core | exact Hs].
  - eapply top_step; [apply aux_user_add_node_core | exact Hs].
  - eapply top_step; [apply aux_user_delete_node_core | exact Hs].
  - eapply top_step; [apply aux_user_swap_core | exact Hs].
  - eapply top_step; [apply aux_user_update_attrs_core | exact Hs].
  - eapply paint_step; exact Hs.
Qed.

(* (c) exactly one refresh per successful change, none otherwise *)
Theorem C20_step : forall st o st' code aux, step st o = (st', (code, aux)) ->
  match o with
  | OAddEdge _ _ _ | ODelEdge _ _ | ODelNode _ | OSwap _ _ | OUpdAttrs _ _ =>
      (code = 0 -> rlog st' = rlog st ++ [None]) /\ (code <> 0 -> rlog st' = rlog st)
  | OAddNode n _ _ _ =>
      (code = 0 -> rlog st' = rlog st ++ [Some n]) /\ (code <> 0 -> rlog st' = rlog st)
  | OPaint new_value _ _ _ _ =>
      (code = 0 -> exists p, rlog st' = rlog st ++ [p] /\ (p = None \/ p = Some new_value)) /\
      (code <> 0 -> rlog st' = rlog st)
  | OUndo | ORedo =>
      (code = 1 -> rlog st' = rlog st ++ [None]) /\ (code <> 1 -> rlog st' = rlog st)
  | ONeighbors _ _ | OHasTrackAt _ _ | ONewIds _ | ONextIds => rlog st' = rlog st
  end.
Proof.
  intros st o st' code aux Hs.
  destruct (is_edit o) eqn:He.
  - destruct (edit_step st o st' code aux He Hs) as [H0 Hn].
    assert (Hn' : code <> 0 -> rlog st' = rlog st) by (intros Hc; apply (Hn Hc)).
    destruct o; try discriminate He; (split; [intros Hc | exact Hn']);
      destruct (H0 Hc) as ((p & Hl & Hp) & _); cbn [edit_payload] in Hp;
      try (subst p; exact Hl).
    exists p. split; [exact Hl | exact Hp].
  - destruct o; try discriminate He; cbn [step] in Hs.
    + destruct (undo_step st st' code aux Hs) as (H1 & H2 & H3).
      split; [intros Hc; apply (H1 Hc) | intros Hc].
      destruct (Z.eq_dec code 2) as [E | E]; [rewrite (H2 E); reflexivity | apply (H3 Hc E)].
    + destruct (redo_step st st' code aux Hs) as (H1 & _ & H3 & _). split; assumption.
    + pose proof (aux_track_neighbors st T t) as Hn.
      destruct (track_neighbors st T t) as [s [p c]]. inversion Hs; subst. apply Hn.
    + inversion Hs; subst. reflexivity.
    + pose proof (get_new_node_ids_frame st n) as Hn.
      destruct (get_new_node_ids st n) as [s ids]. inversion Hs; subst. apply Hn.
    + inversion Hs; subst. reflexivity.
Qed.

(* (d) the effect of one call on the two history stacks *)
Theorem one_step_history : forall st o st' code aux, step st o = (st', (code, aux)) ->
  match o with
  | OAddEdge _ _ _ | ODelEdge _ _ | OAddNode _ _ _ _ | ODelNode _ | OSwap _ _ | OUpdAttrs _ _
  | OPaint _ _ _ _ _ =>
      (code = 0 -> exists a, undo_stack st' = (undo_stack st ++ redo_stack st) ++ [a] /\ redo_stack st' = []) /\
      (code <> 0 -> undo_stack st' = undo_stack st /\ redo_stack st' = redo_stack st)
  | OUndo =>
      (code = 1 -> undo_stack st' = undo_stack st /\ exists b, redo_stack st' = redo_stack st ++ [b]) /\
      (code = 2 -> st' = st) /\
      (code <> 1 -> code <> 2 -> undo_stack st' = undo_stack st /\ redo_stack st' = redo_stack st)
  | ORedo =>
      (code = 1 -> undo_stack st' = undo_stack st /\ redo_stack st' = removelast (redo_stack st)) /\
      (code = 2 -> st' = st) /\
      (code <> 1 -> code <> 2 ->
         undo_stack st' = undo_stack st /\ redo_stack st' = removelast (redo_stack st))
  | ONeighbors _ _ | OHasTrackAt _ _ | ONewIds _ | ONextIds =>
      undo_stack st' = undo_stack st /\ redo_stack st' = redo_stack st
  end.
Proof.
  intros st o st' code aux Hs.
  destruct (is_edit o) eqn:He.
  - destruct (edit_step st o st' code aux He Hs) as [H0 Hn].
    assert (R : (code = 0 -> exists a, undo_stack st' = (undo_stack st ++ redo_stack st) ++ [a] /\ redo_stack st' = []) /\
                (code <> 0 -> undo_stack st' = undo_stack st /\ redo_stack st' = redo_stack st)).
    { split; intros Hc.
      - destruct (H0 Hc) as (_ & (a & Ha) & Hr). exists a. split; assumption.
      - destruct (Hn Hc) as (Hu & Hd & _). split; assumption. }
    destruct o; try discriminate He; exact R.
  - destruct o; try discriminate He; cbn [step] in Hs.
    + destruct (undo_step st st' code aux Hs) as (H1 & H2 & H3).
      split; [intros Hc; apply (H1 Hc) |]. split; [exact H2 |].
      intros C1 C2. destruct (H3 C1 C2) as (Hu & Hd & _). split; assumption.
    + destruct (redo_step st st' code aux Hs) as (_ & H2 & _ & H4).
      split; [intros Hc; apply H4; rewrite Hc; discriminate |]. split; [exact H2 |].
      intros _ C2. apply (H4 C2).
    + pose proof (aux_track_neighbors st T t) as Hn.
      destruct (track_neighbors st T t) as [s [p c]]. inversion Hs; subst.
      destruct Hn as (Hu & Hd & _). split; assumption.
    + inversion Hs; subst. split; reflexivity.
    + pose proof (get_new_node_ids_frame st n) as Hn.
      destruct (get_new_node_ids st n) as [s ids]. inversion Hs; subst. cbn [fst] in Hn.
      destruct Hn as (_ & _ & _ & _ & Hu & Hd & _). split; assumption.
    + inversion Hs; subst. split; reflexivity.
Qed.

(* (e) the log is append-only over whole runs, at most one entry per call *)
Lemma step_rlog_ext : forall st o, exists ext,
  rlog (fst (step st o)) = rlog st ++ ext /\ (length ext <= 1)%nat.
Proof.
  intros st o. destruct (step st o) as [st' [code aux]] eqn:Hs. cbn [fst].
  pose proof (C20_step st o st' code aux Hs) as H.
  assert (Hsame : rlog st' = rlog st -> exists ext, rlog st' = rlog st ++ ext /\ (length ext <= 1)%nat).
  { intros E. exists []. rewrite app_nil_r. split; [exact E | cbn; lia]. }
  assert (Hone : forall p, rlog st' = rlog st ++ [p] -> exists ext, rlog st' = rlog st ++ ext /\ (length ext <= 1)%nat).
  { intros p E. exists [p]. split; [exact E | cbn; lia]. }
  destruct o;
    try (apply Hsame; exact H);
    try (destruct H as [H0 Hn]; destruct (Z.eq_dec code 0) as [E | E];
         [ first [ exact (Hone _ (H0 E)) | destruct (H0 E) as (p & Hp & _); exact (Hone p Hp) ]
         | exact (Hsame (Hn E)) ]);
    (destruct H as [H1 Hn]; destruct (Z.eq_dec code 1) as [E | E];
         [ exact (Hone _ (H1 E)) | exact (Hsame (Hn E)) ]).
Qed.

Theorem C20_run : forall ops st, exists ext,
  rlog (run st ops) = rlog st ++ ext /\ (length ext <= length ops)%nat.
Proof.
  intros ops. induction ops as [| o r IH]; intros st.
  - exists []. cbn. rewrite app_nil_r. split; [reflexivity | lia].
  - change (run st (o :: r)) with (run (fst (step st o)) r).
    destruct (step_rlog_ext st o) as (e1 & H1 & L1).
    destruct (IH (fst (step st o))) as (e2 & H2 & L2).
    exists (e1 ++ e2). rewrite H2, H1, app_assoc. split; [reflexivity |].
    rewrite app_length. cbn [length]. lia.
Qed.

(* nested user actions and all cores are silent, whatever the outcome *)
Theorem nested_silent : forall st,
  (forall u v, rlog (rstate (user_delete_edge_core st u v)) = rlog st) /\
  (forall u v force, rlog (rstate (user_add_edge_core st u v force)) = rlog st) /\
  (forall n pxo, rlog (rstate (user_delete_node_core st n pxo)) = rlog st) /\
  (forall n a px force, rlog (rstate (user_add_node_core st n a px force)) = rlog st) /\
  (forall n1 n2, rlog (rstate (user_swap_core st n1 n2)) = rlog st) /\
  (forall n new, rlog (rstate (user_update_attrs_core st n new)) = rlog st) /\
  (forall nv groups T force, rlog (rstate (user_update_seg_core st nv groups T force)) = rlog st) /\
  (forall u v, rlog (rstate (user_delete_edge st u v false)) = rlog st) /\
  (forall u v force, rlog (rstate (user_add_edge st u v force false)) = rlog st) /\
  (forall n pxo, rlog (rstate (user_delete_node st n pxo false)) = rlog st) /\
  (forall n a px force, rlog (rstate (user_add_node st n a px force false)) = rlog st).
Proof.
  intros st. repeat split; intros.
  - apply aux_user_delete_edge_core.
  - apply aux_user_add_edge_core.
  - apply aux_user_delete_node_core.
  - apply aux_user_add_node_core.
  - apply aux_user_swap_core.
  - apply aux_user_update_attrs_core.
  - apply aux_user_update_seg_core.
  - apply (aux_user_delete_edge_nested' st st), aux_refl.
  - apply (aux_user_add_edge_nested' st st), aux_refl.
  - apply (aux_user_delete_node_nested' st st), aux_refl.
  - apply (aux_user_add_node_nested' st st), aux_refl.
Qed.
