(* The definitions translated from the current actions/action_history.py
   (Gen/History_gen.v, rewritten by harness/translate_history.py on every run) ARE the
   abstract mechanism of Proofs/HistoryGeneric.v.  If the source changes its behaviour,
   one of these equalities stops being provable and every C02 theorem below it is unhooked. *)
From Coq Require Import List Arith Bool ZArith Lia.
From FT Require Gen.History_gen Proofs.HistoryGeneric.
Import ListNotations.

Module G := FT.Gen.History_gen.
Module A := FT.Proofs.HistoryGeneric.

Section Tie.
Variables (St Act : Type) (inv : St -> Act -> St * Act) (dA : Act).

Definition g2a (h : G.hist St Act) : A.hist St Act :=
  {| A.cur := G.cur St Act h; A.U := G.undo_stack St Act h; A.R := G.redo_stack St Act h |}.

Lemma add_tie h a s' :
  g2a (fst (G.add_new_action St Act h a s')) = A.add_new_action St Act (g2a h) a s'.
Proof.
  unfold G.add_new_action, A.add_new_action, g2a. cbn [A.R A.U A.cur].
  destruct (G.redo_stack St Act h) as [|r rs] eqn:E; cbn [length].
  - cbn. reflexivity.
  - destruct (Z.gtb_spec (Z.of_nat (S (length rs))) 0) as [_|H]; [|lia]. cbn. reflexivity.
Qed.

Lemma undo_tie h :
  (g2a (fst (G.undo St Act inv dA h)), snd (G.undo St Act inv dA h)) = A.undo St Act inv dA (g2a h).
Proof.
  unfold G.undo, A.undo, G.undo_pointer, g2a. cbn [A.R A.U A.cur G.undo_stack G.redo_stack G.cur].
  set (lu := length (G.undo_stack St Act h)). set (lr := length (G.redo_stack St Act h)).
  destruct (Nat.leb_spec lu lr) as [Hle|Hgt].
  - destruct (Z.ltb_spec (Z.of_nat lu - Z.of_nat lr - 1) 0) as [_|H]; [|lia]. reflexivity.
  - destruct (Z.ltb_spec (Z.of_nat lu - Z.of_nat lr - 1) 0) as [H|_]; [lia|].
    replace (Z.to_nat (Z.of_nat lu - Z.of_nat lr - 1)) with (lu - lr - 1)%nat by lia.
    destruct (inv (G.cur St Act h) _) as [s b]. reflexivity.
Qed.

Lemma redo_tie h :
  (g2a (fst (G.redo St Act inv dA h)), snd (G.redo St Act inv dA h)) = A.redo St Act inv dA (g2a h).
Proof.
  unfold G.redo, A.redo, g2a. cbn [A.R A.U A.cur].
  destruct (G.redo_stack St Act h) as [|r rs] eqn:E; cbn [length].
  - cbn. reflexivity.
  - destruct (Z.eqb_spec (Z.of_nat (S (length rs))) 0) as [H|_]; [lia|].
    destruct (inv (G.cur St Act h) _) as [s b]. reflexivity.
Qed.
End Tie.
