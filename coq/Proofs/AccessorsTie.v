(* Source tie for the ACCESSOR methods of Tracks (data_model/tracks.py) that the other translators take as primitives.

   The definitions translated from the current funtracks sources (Gen/Accessors_gen.v, rewritten by
   harness/translate_accessors.py) are tied to the hand model of Model/Edit.v (attr / zattr / time_of / set_node_attr /
   get_pixels / set_pixels / mask_of / frame_of) and to the primitives of Model/PyRt3.v that translate_core.py emits for
   calls of these methods (py_node_attr_get, py_node_attr_get_z, py_node_attr_req_z, py_set_node_attr).
   Equalities are Leibniz equalities of the whole result -- value or error kind, and state.

   Where the Python raises and the model is total the domain is stated, and the error cases are proved separately:

     get_node_attr(n, k, required)   full characterisation, no hypothesis                      [gen_get_node_attr_char]
                                     = the three PyRt3 primitives, no hypothesis               [py_node_attr_*_generated]
                                     default required = False                                  [get_node_attr_default]
     get_nodes_attr(ns, k, required) = Ok (map (node_attr_val s . k) ns)   when every n of ns is in the graph and (required) carries k
     get_times(ns)                   = Ok (map (fun n => VZ (time_of s n)) ns)   when every n of ns has an integer time
     get_time(n)                     full characterisation, no hypothesis                      [gen_get_time_char]
                                     = Ok (time_of s n)                    when zattr s n KTime = Some t
                                     = Err EKey                            when n is not in the graph / has no time
                                     (the model's time_of reads 0 there: "KeyError NOT modelled")
     get_pixels(n)                   = Ok (option_map px_index (get_pixels s n))
                                                                           when seg s = None, or zattr s n KTime = Some t and frame t exists
                                     = Err EKey / Err EIndex               node missing / frame out of range (the model is total there:
                                                                           it answers (time 0 / t, mask of an empty frame))
     set_pixels(px_index px, v)      = set_pixels s px v                   when seg s = None (both EValue), or frame (fst px) exists and
                                                                           every index of snd px is inside the frame
                                     = Err EIndex = the model              frame out of range and snd px <> []
                                     NOT equal outside: an out-of-range spatial index (Python IndexError, the model ignores it), and an
                                     out-of-range frame with no pixel at all (Python writes nothing, the model answers EIndex)
     _set_node_attr(n, k, v)         = nx_node_setitem s n k (np_array_to_list v) = py_set_node_attr s n k v     no hypothesis
                                     (np_array_to_list is the identity of the abstract values: PyRt10.v)
     _set_nodes_attr(ns, k, vs)      = the loop of py_set_node_attr over zip(ns, vs)            no hypothesis
                                     = Ok tt (fold_left set_node_attr ..)                       when every n of ns is in the graph
   px_index (PyRt10.v) is the numpy index tuple a model [pixels] value (t, idx) stands for: (t repeated, idx). *)
From Coq Require Import ZArith List Bool Lia.
From FT Require Import Base.Dict Model.Edit Model.PyRt Model.PyRt3 Model.PyRt9 Model.PyRt10 Proofs.DictLemmas.
From FT Require Model.NpRt.
From FT Require Import Gen.Accessors_gen.
Import ListNotations.
Open Scope Z_scope.

(* ================================================================== *)
(* 0. generalities                                                     *)
(* ================================================================== *)
Lemma bind_ret (r : res unit) : bind r (fun _ s => Ok tt s) = r.
Proof. destruct r as [[] s|e s]; reflexivity. Qed.
Lemma bind_ret_any {A} (r : res A) : bind r (fun a s => Ok a s) = r.
Proof. destruct r as [a s|e s]; reflexivity. Qed.
Lemma py_for_ext {A B : Type} (f f' : A -> B -> state -> res B) :
  (forall x b s, f x b s = f' x b s) -> forall l b s, py_for l b s f = py_for l b s f'.
Proof.
  intros E. induction l as [|x l IH]; intros b s; cbn [py_for]; [reflexivity|].
  rewrite E. destruct (f' x b s) as [b' s'|e s']; cbn [bind]; [apply IH|reflexivity].
Qed.
Lemma attr_has_node s n k v : attr s n k = Some v -> has_node s n = true.
Proof.
  unfold attr, node_attrs, getd, has_node, haskey. destruct (lookup n (nodes (g s))); [reflexivity|discriminate].
Qed.
Lemma zattr_attr s n k z : zattr s n k = Some z -> attr s n k = Some (VZ z).
Proof. unfold zattr. destruct (attr s n k) as [[x|x|x|x y|]|]; intros H; try discriminate H. now injection H as ->. Qed.

(* what Python sees when it reads attribute k of node n with .get(k, None) *)
Definition node_attr_val (s : state) (n k : Z) : value := match attr s n k with Some v => v | None => VNone end.

(* ================================================================== *)
(* 1. get_node_attr                                                    *)
(* ================================================================== *)
Theorem gen_get_node_attr_char : forall s n k r,
  gen_Tracks_get_node_attr s n k r =
  if has_node s n
  then if r then match attr s n k with Some v => Ok v s | None => Err EKey s end
       else Ok (node_attr_val s n k) s
  else Err EKey s.
Proof.
  intros s n k r. unfold gen_Tracks_get_node_attr, nx_node_view, node_attr_val.
  destruct r; destruct (has_node s n); cbn [bind]; try reflexivity.
  - unfold py_getitem, attr. destruct (lookup k (node_attrs s n)); reflexivity.
Qed.
Theorem get_node_attr_default : gen_Tracks_get_node_attr_default_required = false /\ gen_Tracks_get_nodes_attr_default_required = false.
Proof. split; reflexivity. Qed.

(* the primitives translate_core.py / translate_ctor.py emit for calls of get_node_attr ARE the translated body *)
Theorem py_node_attr_get_generated : forall s n k,
  py_node_attr_get s n k = (do v, s' <- gen_Tracks_get_node_attr s n k false; Ok (py_opt_value (Some v)) s').
Proof.
  intros s n k. rewrite gen_get_node_attr_char. unfold py_node_attr_get, node_attr_val.
  destruct (has_node s n); cbn [bind]; [|reflexivity]. destruct (attr s n k) as [[x|x|x|x y|]|]; reflexivity.
Qed.
Theorem py_node_attr_get_z_generated : forall s n k,
  py_node_attr_get_z s n k = (do v, s' <- gen_Tracks_get_node_attr s n k false; Ok (match v with VZ z => Some z | _ => None end) s').
Proof.
  intros s n k. rewrite gen_get_node_attr_char. unfold py_node_attr_get_z, node_attr_val, zattr.
  destruct (has_node s n); cbn [bind]; [|reflexivity]. destruct (attr s n k) as [[x|x|x|x y|]|]; reflexivity.
Qed.
Theorem py_node_attr_req_z_generated : forall s n k,
  py_node_attr_req_z s n k = (do v, s' <- gen_Tracks_get_node_attr s n k true; match v with VZ z => Ok z s' | _ => Err EKey s' end).
Proof.
  intros s n k. rewrite gen_get_node_attr_char. unfold py_node_attr_req_z, zattr.
  destruct (has_node s n) eqn:H; cbn [bind].
  - destruct (attr s n k) as [[x|x|x|x y|]|]; reflexivity.
  - destruct (attr s n k) as [v|] eqn:A; [|reflexivity]. apply attr_has_node in A. congruence.
Qed.

(* ================================================================== *)
(* 2. get_nodes_attr / get_times                                       *)
(* ================================================================== *)
Lemma collect_ok (s : state) (k : Z) (r : bool) (f : Z -> value) : forall ns acc,
  (forall n, In n ns -> gen_Tracks_get_node_attr s n k r = Ok (f n) s) ->
  py_for ns acc s (fun n acc s' => do v, s'' <- gen_Tracks_get_node_attr s' n k r; Ok (acc ++ [v]) s'') = Ok (acc ++ map f ns) s.
Proof.
  induction ns as [|n ns IH]; intros acc H; cbn [py_for map]; [now rewrite app_nil_r|].
  rewrite (H n (or_introl eq_refl)). cbn [bind]. rewrite IH by (intros m Hm; apply H; now right).
  now rewrite <- app_assoc.
Qed.

Theorem gen_get_nodes_attr_ok : forall s ns k r,
  (forall n, In n ns -> has_node s n = true /\ (r = true -> attr s n k <> None)) ->
  gen_Tracks_get_nodes_attr s ns k r = Ok (map (fun n => node_attr_val s n k) ns) s.
Proof.
  intros s ns k r H. unfold gen_Tracks_get_nodes_attr.
  rewrite (collect_ok s k r (fun n => node_attr_val s n k)); [reflexivity|].
  intros n Hn. destruct (H n Hn) as [Hh Ha]. rewrite gen_get_node_attr_char, Hh. unfold node_attr_val.
  destruct r; [|reflexivity]. destruct (attr s n k); [reflexivity|]. now destruct (Ha eq_refl).
Qed.
(* the first node that cannot be read raises: here for the head of the list (get_time reads one node) *)
Theorem gen_get_nodes_attr_head_err : forall s n ns k r e,
  gen_Tracks_get_node_attr s n k r = Err e s -> gen_Tracks_get_nodes_attr s (n :: ns) k r = Err e s.
Proof. intros s n ns k r e H. unfold gen_Tracks_get_nodes_attr. cbn [py_for]. rewrite H. reflexivity. Qed.

Theorem gen_get_times_eq : forall s ns, gen_Tracks_get_times s ns = gen_Tracks_get_nodes_attr s ns KTime true.
Proof. intros. unfold gen_Tracks_get_times. apply bind_ret_any. Qed.
Theorem gen_get_times_ok : forall s ns,
  (forall n, In n ns -> exists t, zattr s n KTime = Some t) ->
  gen_Tracks_get_times s ns = Ok (map (fun n => VZ (time_of s n)) ns) s.
Proof.
  intros s ns H. rewrite gen_get_times_eq, gen_get_nodes_attr_ok.
  - f_equal. apply map_ext_in. intros n Hn. destruct (H n Hn) as [t Ht]. unfold node_attr_val, time_of.
    rewrite Ht, (zattr_attr _ _ _ _ Ht). reflexivity.
  - intros n Hn. destruct (H n Hn) as [t Ht]. apply zattr_attr in Ht. split; [eapply attr_has_node; exact Ht|]. intros _. congruence.
Qed.

(* ================================================================== *)
(* 3. get_time                                                         *)
(* ================================================================== *)
Theorem gen_get_time_char : forall s n,
  gen_Tracks_get_time s n =
  if has_node s n
  then match attr s n KTime with
       | None => Err EKey s
       | Some (VZ z) => Ok z s
       | Some _ => Err EValue s
       end
  else Err EKey s.
Proof.
  intros s n. unfold gen_Tracks_get_time, gen_Tracks_get_times, gen_Tracks_get_nodes_attr. cbn [py_for bind].
  rewrite gen_get_node_attr_char. destruct (has_node s n); cbn [bind]; [|reflexivity].
  destruct (attr s n KTime) as [[x|x|x|x y|]|]; reflexivity.
Qed.
Theorem gen_get_time_eq : forall s n t, zattr s n KTime = Some t -> gen_Tracks_get_time s n = Ok (time_of s n) s.
Proof.
  intros s n t H. rewrite gen_get_time_char. unfold time_of. rewrite H. apply zattr_attr in H.
  rewrite (attr_has_node _ _ _ _ H), H. reflexivity.
Qed.
Theorem gen_get_time_missing : forall s n, has_node s n = false -> gen_Tracks_get_time s n = Err EKey s.
Proof. intros s n H. rewrite gen_get_time_char, H. reflexivity. Qed.
Theorem gen_get_time_no_time : forall s n, attr s n KTime = None -> gen_Tracks_get_time s n = Err EKey s.
Proof. intros s n H. rewrite gen_get_time_char, H. destruct (has_node s n); reflexivity. Qed.

(* ================================================================== *)
(* 4. get_pixels                                                       *)
(* ================================================================== *)
Lemma nonzero_eq_mask f n : forall i, nonzero_from i (NpRt.np_eq_mask f n) = positions_from i f n.
Proof.
  induction f as [|x f IH]; intros i; cbn [NpRt.np_eq_mask map nonzero_from positions_from]; [reflexivity|].
  unfold NpRt.np_eq_mask in IH. rewrite IH. reflexivity.
Qed.
Lemma ones_mul l t : np_mul_scalar (np_ones_like_axis0 l) t = repeat t (length l).
Proof.
  unfold np_mul_scalar, np_ones_like_axis0. induction l as [|x l IH]; cbn [map length repeat]; [reflexivity|].
  rewrite IH. f_equal. destruct t; reflexivity.
Qed.
Lemma in_range_frame_ok sg t : np_in_range (length sg) t = frame_ok sg t.
Proof. reflexivity. Qed.

Theorem gen_get_pixels_none : forall s n, seg s = None -> gen_Tracks_get_pixels s n = Ok (option_map px_index (get_pixels s n)) s.
Proof. intros s n H. unfold gen_Tracks_get_pixels, seg_is_none, get_pixels. rewrite H. reflexivity. Qed.
Theorem gen_get_pixels_eq : forall s n t,
  zattr s n KTime = Some t -> (forall sg, seg s = Some sg -> frame_ok sg t = true) ->
  gen_Tracks_get_pixels s n = Ok (option_map px_index (get_pixels s n)) s.
Proof.
  intros s n t Ht Hf. destruct (seg s) as [sg|] eqn:S; [|now apply gen_get_pixels_none].
  unfold gen_Tracks_get_pixels, seg_is_none, get_pixels. rewrite S.
  rewrite (gen_get_time_eq _ _ _ Ht). cbn [bind]. cbv zeta.
  assert (E : time_of s n = t) by (unfold time_of; now rewrite Ht). rewrite E.
  unfold py_seg_frame. rewrite S, in_range_frame_ok, (Hf sg eq_refl). cbn [bind option_map].
  unfold np_index_cons, px_index, np_nonzero, mask_of. cbn [fst snd].
  rewrite ones_mul. change (NpRt.np_getitem sg t) with (frame_of sg t). rewrite nonzero_eq_mask. reflexivity.
Qed.
(* the cases in which the Python raises (the model is total: it answers for time 0 / for an empty frame) *)
Theorem gen_get_pixels_missing : forall s n sg, seg s = Some sg -> has_node s n = false -> gen_Tracks_get_pixels s n = Err EKey s.
Proof. intros s n sg S H. unfold gen_Tracks_get_pixels, seg_is_none. rewrite S, (gen_get_time_missing _ _ H). reflexivity. Qed.
Theorem gen_get_pixels_no_frame : forall s n sg t,
  seg s = Some sg -> zattr s n KTime = Some t -> frame_ok sg t = false -> gen_Tracks_get_pixels s n = Err EIndex s.
Proof.
  intros s n sg t S Ht F. unfold gen_Tracks_get_pixels, seg_is_none. rewrite S, (gen_get_time_eq _ _ _ Ht). cbn [bind]. cbv zeta.
  assert (E : time_of s n = t) by (unfold time_of; now rewrite Ht). rewrite E.
  unfold py_seg_frame. rewrite S, in_range_frame_ok, F. reflexivity.
Qed.

(* ================================================================== *)
(* 5. set_pixels                                                       *)
(* ================================================================== *)
Lemma set_nth_upd_frame (h : list Z -> list Z) : forall sg k, NpRt.set_nth k (h (nth k sg [])) sg = upd_frame k h sg.
Proof.
  induction sg as [|f sg IH]; intros k; destruct k; cbn [NpRt.set_nth upd_frame nth]; try reflexivity.
  now rewrite IH.
Qed.
Lemma upd_frame_id : forall sg k, upd_frame k (fun f => f) sg = sg.
Proof. induction sg as [|f sg IH]; intros k; destruct k; cbn [upd_frame]; try reflexivity. now rewrite IH. Qed.
Lemma upd_frame_comp (h1 h2 : list Z -> list Z) : forall sg k, upd_frame k h2 (upd_frame k h1 sg) = upd_frame k (fun f => h2 (h1 f)) sg.
Proof. induction sg as [|f sg IH]; intros k; destruct k; cbn [upd_frame]; try reflexivity. now rewrite IH. Qed.
Lemma upd_frame_ext_at (h h' : list Z -> list Z) : forall sg k, h (nth k sg []) = h' (nth k sg []) -> upd_frame k h sg = upd_frame k h' sg.
Proof.
  induction sg as [|f sg IH]; intros k H; destruct k; cbn [upd_frame nth] in *; try reflexivity.
  - now rewrite H.
  - now rewrite (IH k H).
Qed.
Lemma combine_repeat {A} (t : Z) (l : list A) : combine (repeat t (length l)) l = map (fun j => (t, j)) l.
Proof. induction l as [|x l IH]; cbn [length repeat combine map]; [reflexivity|now rewrite IH]. Qed.

Lemma puts_one_frame (v t : Z) : forall js sg,
  fold_left (np_put1 v) (map (fun j => (t, j)) js) sg =
  upd_frame (Z.to_nat t) (fun f => fold_left (fun f j => NpRt.set_nth (Z.to_nat j) v f) js f) sg.
Proof.
  induction js as [|j js IH]; intros sg; cbn [map fold_left]; [now rewrite upd_frame_id|].
  rewrite IH. unfold np_put1. cbn [fst snd]. unfold NpRt.np_setitem, NpRt.np_getitem.
  rewrite (set_nth_upd_frame (fun f => NpRt.set_nth (Z.to_nat j) v f)). rewrite upd_frame_comp. reflexivity.
Qed.

Lemma write_frame_nil v : forall f i, write_frame i f [] v = f.
Proof. induction f as [|x f IH]; intros i; cbn [write_frame memz existsb]; [reflexivity|now rewrite IH]. Qed.
Lemma write_frame_below v : forall f i j js, j < i -> write_frame i f (j :: js) v = write_frame i f js v.
Proof.
  induction f as [|x f IH]; intros i j js H; cbn [write_frame]; [reflexivity|].
  rewrite (IH (i + 1) j js) by lia. unfold memz. cbn [existsb]. replace (i =? j) with false by (symmetry; apply Z.eqb_neq; lia). reflexivity.
Qed.
Lemma write_frame_cons v : forall f i j js, i <= j ->
  write_frame i f (j :: js) v = write_frame i (NpRt.set_nth (Z.to_nat (j - i)) v f) js v.
Proof.
  induction f as [|x f IH]; intros i j js H; [destruct (Z.to_nat (j - i)); reflexivity|].
  destruct (Z.eq_dec i j) as [->|N].
  - replace (j - j) with 0 by lia. cbn [Z.to_nat NpRt.set_nth write_frame].
    rewrite write_frame_below by lia. unfold memz. cbn [existsb]. rewrite Z.eqb_refl. cbn [orb].
    destruct (existsb (Z.eqb j) js); reflexivity.
  - assert (E : Z.to_nat (j - i) = S (Z.to_nat (j - (i + 1)))) by lia. rewrite E. cbn [NpRt.set_nth write_frame].
    rewrite (IH (i + 1) j js) by lia. unfold memz. cbn [existsb]. replace (i =? j) with false by (symmetry; apply Z.eqb_neq; lia). reflexivity.
Qed.
Lemma writes_write_frame v : forall js f, (forall j, In j js -> 0 <= j) ->
  fold_left (fun f j => NpRt.set_nth (Z.to_nat j) v f) js f = write_frame 0 f js v.
Proof.
  induction js as [|j js IH]; intros f H; cbn [fold_left]; [now rewrite write_frame_nil|].
  rewrite IH by (intros m Hm; apply H; now right).
  rewrite (write_frame_cons v f 0 j js) by (apply H; now left). now rewrite Z.sub_0_r.
Qed.

Theorem gen_set_pixels_none : forall s px v, seg s = None -> gen_Tracks_set_pixels s (px_index px) v = set_pixels s px v.
Proof. intros s px v S. unfold gen_Tracks_set_pixels, seg_is_none, set_pixels. rewrite S. reflexivity. Qed.

Theorem gen_set_pixels_eq : forall s sg px v,
  seg s = Some sg -> frame_ok sg (fst px) = true ->
  (forall j, In j (snd px) -> 0 <= j < Z.of_nat (length (frame_of sg (fst px)))) ->
  gen_Tracks_set_pixels s (px_index px) v = set_pixels s px v.
Proof.
  intros s sg [t js] v S F R. cbn [fst snd] in *.
  unfold gen_Tracks_set_pixels, seg_is_none, set_pixels, py_seg_setitem. rewrite S. cbn [fst snd]. rewrite F.
  unfold np_index_put, px_index. cbn [fst snd]. rewrite repeat_length, Nat.eqb_refl, combine_repeat. cbn [andb].
  assert (A : forallb (np_index_ok sg) (map (fun j => (t, j)) js) = true).
  { apply forallb_forall. intros tj Hin. apply in_map_iff in Hin. destruct Hin as (j & <- & Hj).
    unfold np_index_ok. cbn [fst snd]. rewrite in_range_frame_ok, F. cbn [andb].
    change (NpRt.np_getitem sg t) with (frame_of sg t). unfold np_in_range. specialize (R j Hj).
    apply andb_true_iff. split; [apply Z.leb_le|apply Z.ltb_lt]; lia. }
  rewrite A, puts_one_frame. cbn [bind]. do 3 f_equal.
  apply upd_frame_ext_at. apply writes_write_frame. intros j Hj. specialize (R j Hj). lia.
Qed.

Theorem gen_set_pixels_no_frame : forall s sg px v,
  seg s = Some sg -> frame_ok sg (fst px) = false -> snd px <> [] ->
  gen_Tracks_set_pixels s (px_index px) v = set_pixels s px v /\ set_pixels s px v = Err EIndex s.
Proof.
  intros s sg [t js] v S F N. cbn [fst snd] in *.
  unfold gen_Tracks_set_pixels, seg_is_none, set_pixels, py_seg_setitem. rewrite S. cbn [fst snd]. rewrite F. split; [|reflexivity].
  unfold np_index_put, px_index. cbn [fst snd]. rewrite repeat_length, Nat.eqb_refl, combine_repeat. cbn [andb].
  destruct js as [|j js]; [now destruct N|]. cbn [map forallb]. unfold np_index_ok at 1. cbn [fst snd].
  rewrite in_range_frame_ok, F. reflexivity.
Qed.

(* the pixels get_pixels answers are inside the domain of the set_pixels tie: writing them back is the model's write *)
Lemma positions_from_range : forall f i n j, In j (positions_from i f n) -> i <= j < i + Z.of_nat (length f).
Proof.
  induction f as [|x f IH]; intros i n j H; cbn [positions_from length] in *; [destruct H|].
  destruct (x =? n).
  - destruct H as [<-|H]; [lia|]. apply IH in H. lia.
  - apply IH in H. lia.
Qed.
Theorem gen_set_pixels_of_get_pixels : forall s sg n px v,
  seg s = Some sg -> frame_ok sg (time_of s n) = true -> get_pixels s n = Some px ->
  gen_Tracks_set_pixels s (px_index px) v = set_pixels s px v.
Proof.
  intros s sg n px v S F G. unfold get_pixels in G. rewrite S in G. injection G as <-.
  apply (gen_set_pixels_eq s sg); [exact S|exact F|]. cbn [fst snd]. intros j Hj. unfold mask_of in Hj.
  apply positions_from_range in Hj. lia.
Qed.

(* ================================================================== *)
(* 6. _set_node_attr / _set_nodes_attr                                 *)
(* ================================================================== *)
Lemma nx_node_setitem_eq s n k v : nx_node_setitem s n k v = py_set_node_attr s n k v.
Proof.
  unfold nx_node_setitem, py_set_node_attr, set_node_attr, has_node, haskey. destruct (lookup n (nodes (g s))); reflexivity.
Qed.
(* the conversion `if isinstance(value, np.ndarray): value = list(value)`: the model's values are abstract and the
   conversion is the identity on them (PyRt10.np_array_to_list_id), so the STATEMENTS below hold with or without it; only
   the proof scripts of gen_set_node_attr_eq / gen_set_nodes_attr_eq notice its absence (their `rewrite
   np_array_to_list_id` must make progress).  That ndarray values are never stored is checked by the harness, not here. *)
Theorem gen_set_node_attr_conv : forall s n k v, gen_Tracks_set_node_attr s n k v = nx_node_setitem s n k (np_array_to_list v).
Proof. intros. unfold gen_Tracks_set_node_attr. cbv zeta. apply bind_ret. Qed.
Theorem gen_set_node_attr_eq : forall s n k v, gen_Tracks_set_node_attr s n k v = py_set_node_attr s n k v.
Proof.
  intros. unfold gen_Tracks_set_node_attr. cbv zeta. rewrite bind_ret.
  rewrite np_array_to_list_id.      (* fails when the conversion statement is not in the source *)
  apply nx_node_setitem_eq.
Qed.
Theorem gen_set_node_attr_ok : forall s n k v, has_node s n = true -> gen_Tracks_set_node_attr s n k v = Ok tt (set_node_attr s n k v).
Proof. intros s n k v H. rewrite gen_set_node_attr_eq. unfold py_set_node_attr. now rewrite H. Qed.

Theorem gen_set_nodes_attr_eq : forall s ns k vs,
  gen_Tracks_set_nodes_attr s ns k vs =
  bind (py_for (combine ns vs) tt s (fun nv _ s => py_set_node_attr s (fst nv) k (snd nv))) (fun _ s => Ok tt s).
Proof.
  intros s ns k vs. unfold gen_Tracks_set_nodes_attr, py_zip. f_equal. apply py_for_ext.
  intros [n v] [] s'. cbv zeta. cbn [fst snd]. rewrite bind_ret, np_array_to_list_id. apply nx_node_setitem_eq.
Qed.

Lemma has_node_set_node_attr s n k v m : has_node (set_node_attr s n k v) m = has_node s m.
Proof.
  unfold set_node_attr. destruct (lookup n (nodes (g s))) as [d|] eqn:L; [|reflexivity].
  unfold has_node, haskey. cbn [g upd_g nodes]. destruct (Z.eq_dec m n) as [->|N].
  - now rewrite lookup_set_eq, L.
  - now rewrite lookup_set_neq by exact N.
Qed.
Theorem gen_set_nodes_attr_ok : forall ns vs s k,
  (forall n, In n ns -> has_node s n = true) ->
  gen_Tracks_set_nodes_attr s ns k vs = Ok tt (fold_left (fun s nv => set_node_attr s (fst nv) k (snd nv)) (combine ns vs) s).
Proof.
  intros ns vs s k H. rewrite gen_set_nodes_attr_eq.
  enough (E : py_for (combine ns vs) tt s (fun nv (_ : unit) s => py_set_node_attr s (fst nv) k (snd nv))
              = Ok tt (fold_left (fun s nv => set_node_attr s (fst nv) k (snd nv)) (combine ns vs) s)) by now rewrite E.
  revert vs s H. induction ns as [|n ns IH]; intros vs s H; [reflexivity|].
  destruct vs as [|v vs]; [reflexivity|]. cbn [combine py_for fold_left fst snd].
  unfold py_set_node_attr at 1. rewrite (H n (or_introl eq_refl)). cbn [bind].
  apply IH. intros m Hm. rewrite has_node_set_node_attr. apply H. now right.
Qed.

(* ================================================================== *)
(* 7. the bundle                                                       *)
(* ================================================================== *)
Definition accessors_tie_statement : Prop :=
  (* get_node_attr *)
  (forall s n k r, gen_Tracks_get_node_attr s n k r =
     if has_node s n
     then if r then match attr s n k with Some v => Ok v s | None => Err EKey s end else Ok (node_attr_val s n k) s
     else Err EKey s) /\
  (gen_Tracks_get_node_attr_default_required = false /\ gen_Tracks_get_nodes_attr_default_required = false) /\
  (forall s n k, py_node_attr_get s n k = (do v, s' <- gen_Tracks_get_node_attr s n k false; Ok (py_opt_value (Some v)) s')) /\
  (forall s n k, py_node_attr_get_z s n k =
     (do v, s' <- gen_Tracks_get_node_attr s n k false; Ok (match v with VZ z => Some z | _ => None end) s')) /\
  (forall s n k, py_node_attr_req_z s n k =
     (do v, s' <- gen_Tracks_get_node_attr s n k true; match v with VZ z => Ok z s' | _ => Err EKey s' end)) /\
  (* get_nodes_attr / get_times *)
  (forall s ns k r, (forall n, In n ns -> has_node s n = true /\ (r = true -> attr s n k <> None)) ->
     gen_Tracks_get_nodes_attr s ns k r = Ok (map (fun n => node_attr_val s n k) ns) s) /\
  (forall s ns, (forall n, In n ns -> exists t, zattr s n KTime = Some t) ->
     gen_Tracks_get_times s ns = Ok (map (fun n => VZ (time_of s n)) ns) s) /\
  (* get_time *)
  (forall s n t, zattr s n KTime = Some t -> gen_Tracks_get_time s n = Ok (time_of s n) s) /\
  (forall s n, has_node s n = false -> gen_Tracks_get_time s n = Err EKey s) /\
  (forall s n, attr s n KTime = None -> gen_Tracks_get_time s n = Err EKey s) /\
  (* get_pixels *)
  (forall s n, seg s = None -> gen_Tracks_get_pixels s n = Ok (option_map px_index (get_pixels s n)) s) /\
  (forall s n t, zattr s n KTime = Some t -> (forall sg, seg s = Some sg -> frame_ok sg t = true) ->
     gen_Tracks_get_pixels s n = Ok (option_map px_index (get_pixels s n)) s) /\
  (forall s n sg, seg s = Some sg -> has_node s n = false -> gen_Tracks_get_pixels s n = Err EKey s) /\
  (forall s n sg t, seg s = Some sg -> zattr s n KTime = Some t -> frame_ok sg t = false -> gen_Tracks_get_pixels s n = Err EIndex s) /\
  (* set_pixels *)
  (forall s px v, seg s = None -> gen_Tracks_set_pixels s (px_index px) v = set_pixels s px v) /\
  (forall s sg px v, seg s = Some sg -> frame_ok sg (fst px) = true ->
     (forall j, In j (snd px) -> 0 <= j < Z.of_nat (length (frame_of sg (fst px)))) ->
     gen_Tracks_set_pixels s (px_index px) v = set_pixels s px v) /\
  (forall s sg px v, seg s = Some sg -> frame_ok sg (fst px) = false -> snd px <> [] ->
     gen_Tracks_set_pixels s (px_index px) v = set_pixels s px v /\ set_pixels s px v = Err EIndex s) /\
  (forall s sg n px v, seg s = Some sg -> frame_ok sg (time_of s n) = true -> get_pixels s n = Some px ->
     gen_Tracks_set_pixels s (px_index px) v = set_pixels s px v) /\
  (* _set_node_attr / _set_nodes_attr *)
  (forall s n k v, gen_Tracks_set_node_attr s n k v = nx_node_setitem s n k (np_array_to_list v)) /\
  (forall s n k v, gen_Tracks_set_node_attr s n k v = py_set_node_attr s n k v) /\
  (forall s ns k vs, gen_Tracks_set_nodes_attr s ns k vs =
     bind (py_for (combine ns vs) tt s (fun nv _ s => py_set_node_attr s (fst nv) k (snd nv))) (fun _ s => Ok tt s)) /\
  (forall ns vs s k, (forall n, In n ns -> has_node s n = true) ->
     gen_Tracks_set_nodes_attr s ns k vs = Ok tt (fold_left (fun s nv => set_node_attr s (fst nv) k (snd nv)) (combine ns vs) s)).

Theorem accessors_tie : accessors_tie_statement.
Proof.
  unfold accessors_tie_statement. repeat match goal with |- _ /\ _ => split end.
  - exact gen_get_node_attr_char.
  - exact (proj1 get_node_attr_default).
  - exact (proj2 get_node_attr_default).
  - exact py_node_attr_get_generated.
  - exact py_node_attr_get_z_generated.
  - exact py_node_attr_req_z_generated.
  - exact gen_get_nodes_attr_ok.
  - exact gen_get_times_ok.
  - exact gen_get_time_eq.
  - exact gen_get_time_missing.
  - exact gen_get_time_no_time.
  - exact gen_get_pixels_none.
  - exact gen_get_pixels_eq.
  - exact gen_get_pixels_missing.
  - exact gen_get_pixels_no_frame.
  - exact gen_set_pixels_none.
  - exact gen_set_pixels_eq.
  - exact gen_set_pixels_no_frame.
  - exact gen_set_pixels_of_get_pixels.
  - exact gen_set_node_attr_conv.
  - exact gen_set_node_attr_eq.
  - exact gen_set_nodes_attr_eq.
  - exact gen_set_nodes_attr_ok.
Qed.

(* the domains are not vacuous: one node 5 at time 1 in a two-frame segmentation *)
Example domain_inhabited :
  let s := {| g := {| nodes := [(5, [(KTime, VZ 1)])]; succs := [] |}; seg := Some [[0; 0]; [5; 0]];
              ft := {| reg_node := []; reg_edge := []; pos_keys := [KPos]; rp_all := []; rp_act := []; iou_avail := false; iou_act := false;
                       trk_act := false; lin_act := false |};
              bk := {| trk_book := []; lin_book := []; max_trk := 0; max_lin := 0 |};
              undo_stack := []; redo_stack := []; rlog := []; nctr := 1 |} in
  gen_Tracks_get_pixels s 5 = Ok (Some ([1], [0])) s /\
  (exists s', gen_Tracks_set_pixels s ([1], [0]) 7 = Ok tt s' /\ seg s' = Some [[0; 0]; [7; 0]]).
Proof. cbv zeta. split; [reflexivity|]. eexists. split; reflexivity. Qed.

Print Assumptions gen_get_node_attr_char.
Print Assumptions py_node_attr_get_generated.
Print Assumptions py_node_attr_get_z_generated.
Print Assumptions py_node_attr_req_z_generated.
Print Assumptions gen_get_nodes_attr_ok.
Print Assumptions gen_get_times_ok.
Print Assumptions gen_get_time_char.
Print Assumptions gen_get_time_eq.
Print Assumptions gen_get_pixels_eq.
Print Assumptions gen_get_pixels_no_frame.
Print Assumptions gen_set_pixels_eq.
Print Assumptions gen_set_pixels_no_frame.
Print Assumptions gen_set_pixels_of_get_pixels.
Print Assumptions gen_set_node_attr_eq.
Print Assumptions gen_set_nodes_attr_eq.
Print Assumptions gen_set_nodes_attr_ok.
Print Assumptions accessors_tie.
