(* The definitions translated on every run from the current
     import_export/_tracks_builder.py, csv/_import.py, _validation.py
   (Gen/ImportPipeline_gen.v, written by harness/translate_import.py; fail closed) ARE the
   hand-written models Model/Relabel.v (handle_segmentation) and Model/ImportTable.v (the CSV /
   in-memory import pipeline), for ALL arguments.  If the source changes its behaviour, the
   regenerated definitions change and these theorems stop compiling.

   Oracles: the generated file takes the library answers the hand models take as arguments
   (pandas dtype inference, geff's tracklet / lineage validators) and the operations that are
   not represented at all (array ndim, default scale, node attribute presence,
   validate_graph_seg_match, the geff metadata constructors) as Section variables; the theorems
   hold for EVERY instance of them.  Exceptions: ValueErr of the model is Raise ValueError,
   OtherErr 1 is Raise KeyError. *)
From Coq Require Import ZArith List Bool Lia Arith.
From FT Require Import Base.Dict Model.NpRt Model.LabelUtils Model.Relabel Model.ImportTable Model.PyRt6.
From FT Require Import Proofs.DictLemmas Proofs.NpRtLemmas Proofs.RelabelTie.
From FT Require Gen.Relabel_gen Gen.ImportPipeline_gen.
Import ListNotations.
Open Scope Z_scope.

Module G := FT.Gen.ImportPipeline_gen.

(* ================================================================== *)
(* 1. TracksBuilder.handle_segmentation  =  Relabel.handle_segmentation *)
(* ================================================================== *)

(* np.unique keeps exactly the entries *)
Lemma in_insert_sorted x y : forall l, In y (insert_sorted x l) <-> y = x \/ In y l.
Proof.
  induction l as [|z r IH]; cbn [insert_sorted].
  - cbn. intuition.
  - destruct (x <? z).
    + cbn. intuition.
    + destruct (Z.eqb_spec x z) as [->|Hne].
      * cbn. intuition.
      * cbn [In]. rewrite IH. intuition.
Qed.

Lemma in_np_unique y : forall a, In y (np_unique a) <-> In y a.
Proof.
  unfold np_unique. induction a as [|x r IH]; cbn [fold_right].
  - reflexivity.
  - rewrite in_insert_sorted, IH. cbn. intuition.
Qed.

Lemma forallb_ext_in {A} (f : A -> bool) (l1 l2 : list A) :
  (forall x, In x l1 <-> In x l2) -> forallb f l1 = forallb f l2.
Proof.
  intros H. apply eq_true_iff_eq. rewrite !forallb_forall. split; intros Hf x Hx; apply Hf, H, Hx.
Qed.

Lemma np_all_isin (a b : list Z) : np_all (np_isin a b) = forallb (fun x => existsb (Z.eqb x) b) a.
Proof. unfold np_all, np_isin. induction a as [|x r IH]; cbn; [reflexivity|now rewrite IH]. Qed.

(* np.array_equal(seg_ids, node_ids) on two columns of the same rows *)
Lemma array_equal_tie : forall rows : list tnode,
  np_array_equal (map n_seg rows) (map n_id rows) = ids_equal rows.
Proof.
  unfold ids_equal. induction rows as [|r rs IH]; cbn [map np_array_equal forallb]; [reflexivity|now rewrite IH].
Qed.

(* the test of one frame *)
Lemma frame_test_tie (rows : list tnode) (old : list (list Z)) (t : nat) :
  np_all (np_isin (np_unique (np_getitem old (Z.of_nat t)))
                  (np_append (np_bool_index (np_asarray (map n_id rows)) (np_eq_mask (map tz rows) (Z.of_nat t))) 0))
  = frame_labels_ok rows t (nth t old []).
Proof.
  unfold frame_labels_ok, np_append, np_asarray, np_getitem, node_ids.
  rewrite np_all_isin, bool_index_filter, Nat2Z.id.
  apply forallb_ext_in. intros x. apply in_np_unique.
Qed.

(* all(.. for t in range(computed.shape[0])) *)
Lemma frames_tie_gen (rows : list tnode) (F : Z -> bool) : forall (fs pre : list (list Z)),
  (forall t, F (Z.of_nat t) = frame_labels_ok rows t (nth t (pre ++ fs) [])) ->
  forallb F (map Z.of_nat (seq (length pre) (length fs))) = frames_ok rows (length pre) fs.
Proof.
  induction fs as [|f r IH]; intros pre HF; cbn [length seq map forallb frames_ok]; [reflexivity|].
  rewrite HF, app_nth2, Nat.sub_diag by lia. cbn [nth]. f_equal.
  specialize (IH (pre ++ [f])). rewrite app_length in IH. cbn [length] in IH.
  replace (length pre + 1)%nat with (S (length pre)) in IH by lia.
  apply IH. intros t. rewrite <- app_assoc. cbn [app]. apply HF.
Qed.

Lemma frames_tie (rows : list tnode) (old : list (list Z)) :
  py_all (fun t => np_all (np_isin (np_unique (np_getitem old t))
                                   (np_append (np_bool_index (np_asarray (map n_id rows)) (np_eq_mask (map tz rows) t)) 0)))
         (py_range (np_shape0 old))
  = frames_ok rows 0 old.
Proof.
  unfold py_all, py_range, np_shape0. rewrite Nat2Z.id.
  apply (frames_tie_gen rows _ old []). intros t. apply frame_test_tie.
Qed.

Section HandleSegmentation.
Variables Scale Metadata : Type.
Variable np_ndim : list (list Z) -> Z.
Variable scale_ones : Z -> Scale.
Variable nx_node_has_attr : list Z -> Z -> Z -> bool.
Variable validate_graph_seg_match : list Z -> list (list Z) -> Scale -> list Z -> res bool.

Notation gen_hs := (G.gen_handle_segmentation Scale Metadata np_ndim scale_ones nx_node_has_attr validate_graph_seg_match).

(* the axis names handed to validate_graph_seg_match *)
Definition axis_names (d : Z) : list Z := if d =? 4 then [k_z; k_y; k_x] else [k_y; k_x].

Theorem gen_axis_names_eq : forall nd,
  G.gen_axis_names nd = ROk (match nd with None => [k_z; k_y; k_x] | Some d => axis_names d end).
Proof. intros [d|]; unfold G.gen_axis_names, axis_names; [destruct (d =? 4)|]; reflexivity. Qed.

(* The whole method, for every builder state whose InMemoryGeff holds the rows (id, time, seg id) as
   its node_ids / "time" / "seg_id" arrays (the calling convention of harness/props/c13.py); any
   metadata, edges, other properties, graph node list g, scale and ndim.  What the hand model does
   not cover is spelled out: the dimension check, the StopIteration of an empty graph, and the
   answer of validate_graph_seg_match (consulted exactly when the first node has a "pos"). *)
Theorem gen_handle_segmentation_spec :
  forall (rows : list tnode) (old : list (list Z)) (g : list Z) (meta : Metadata) (es : list (Z * Z))
         (np ep : dict (list Z)) (scale : option Scale) (nd : option Z),
  lookup k_seg_id np = Some (map n_seg rows) ->
  lookup k_time np = Some (map tz rows) ->
  gen_hs (Some (mk_img meta (map n_id rows) es np ep)) nd g (Some old) scale
  = match nd with
    | None => Raise ValueError
    | Some d =>
      if negb (np_ndim old =? d) then Raise ValueError else
      let sc := match scale with Some s => s | None => scale_ones d end in
      match g with
      | [] => Raise StopIteration
      | n :: _ =>
        rbind (if nx_node_has_attr g n k_pos then validate_graph_seg_match g old sc (axis_names d) else ROk true)
              (fun _ => ROk ((Some (fst (handle_segmentation rows old)), Some sc),
                             if shortcut_ok rows old then g else map (fun x => x + offset rows) g))
      end
    end.
Proof.
  intros rows old g meta es np ep scale nd Hseg Htime.
  unfold G.gen_handle_segmentation. cbn [run]. unfold io_load_segmentation.
  destruct nd as [d|]; cbn [py_eq_int_opt negb]; [|reflexivity].
  destruct (np_ndim old =? d); cbn [negb]; [|reflexivity].
  assert (Hs : forall S' R (k : Scale -> ctl S' R),
    pseq (match scale with
         | None => bind (as_some (Some d)) (fun t3 => let v_scale := scale_ones t3 in Cont v_scale)
         | Some v_scale => Cont v_scale end) k
    = k (match scale with Some s => s | None => scale_ones d end)).
  { intros. destruct scale; reflexivity. }
  rewrite Hs. clear Hs. cbv zeta.
  unfold nx_nodes. destruct g as [|n g']; cbn [py_next_iter bind]; [reflexivity|].
  set (sc := match scale with Some s => s | None => scale_ones d end).
  set (gg := n :: g').
  rewrite gen_axis_names_eq. cbn [bind].
  assert (Hk : haskey k_seg_id np = true) by (unfold haskey; now rewrite Hseg).
  cbn [img_node_props img_node_ids]. rewrite Hk. cbn [negb].
  unfold dict_get. rewrite Hseg, Htime. cbn [bind]. unfold da_compute.
  rewrite array_equal_tie.
  change (np_asarray (map tz rows)) with (map tz rows).
  rewrite frames_tie.
  change (ids_equal rows && frames_ok rows 0 old) with (shortcut_ok rows old).
  unfold handle_segmentation.
  rewrite (gen_relabel_segmentation_eq rows old gg).
  destruct (nx_node_has_attr gg n k_pos).
  - destruct (validate_graph_seg_match gg old sc (axis_names d)) as [b|e]; cbn [bind pseq rbind]; [|reflexivity].
    destruct (shortcut_ok rows old); reflexivity.
  - cbn [pseq rbind]. destruct (shortcut_ok rows old); reflexivity.
Qed.

(* without a segmentation nothing is done *)
Theorem gen_handle_segmentation_none : forall img nd g scale,
  gen_hs img nd g None scale = ROk ((None, scale), g).
Proof. reflexivity. Qed.

(* the case the C13 theorems are about: dimensions agree, the graph has the rows' nodes, the
   position check passes (or is not made) *)
Corollary gen_handle_segmentation_eq :
  forall (rows : list tnode) (old : list (list Z)) (meta : Metadata) (es : list (Z * Z))
         (np ep : dict (list Z)) (scale : Scale) (d : Z),
  lookup k_seg_id np = Some (map n_seg rows) ->
  lookup k_time np = Some (map tz rows) ->
  np_ndim old = d -> rows <> [] ->
  (forall n, nx_node_has_attr (map n_id rows) n k_pos = true ->
             exists b, validate_graph_seg_match (map n_id rows) old scale (axis_names d) = ROk b) ->
  gen_hs (Some (mk_img meta (map n_id rows) es np ep)) (Some d) (map n_id rows) (Some old) (Some scale)
  = ROk ((Some (fst (handle_segmentation rows old)), Some scale), map n_id (snd (handle_segmentation rows old))).
Proof.
  intros rows old meta es np ep scale d Hseg Htime Hd Hne Hv.
  rewrite (gen_handle_segmentation_spec rows old _ meta es np ep (Some scale) (Some d) Hseg Htime).
  rewrite Hd, Z.eqb_refl. cbn [negb]. cbv zeta.
  assert (Hg : (if shortcut_ok rows old then map n_id rows else map (fun x => x + offset rows) (map n_id rows))
               = map n_id (snd (handle_segmentation rows old))).
  { unfold handle_segmentation. destruct (shortcut_ok rows old); [reflexivity|].
    unfold relabel_segmentation, shift_rows. cbn [snd]. rewrite !map_map. reflexivity. }
  rewrite Hg. clear Hg.
  remember (map n_id rows) as g eqn:Eg in *.
  destruct g as [|n g']; [destruct rows; [congruence|discriminate]|].
  destruct (nx_node_has_attr (n :: g') n k_pos) eqn:Hp; [|reflexivity].
  destruct (Hv _ Hp) as [b Hb]. rewrite Hb. reflexivity.
Qed.

End HandleSegmentation.


(* ================================================================== *)
(* 2. generic facts about the control combinators and dicts            *)
(* ================================================================== *)
From FT Require Import Proofs.ImportTableProofs.

(* a loop whose body neither raises nor breaks is a fold *)
Lemma forM_cont {A S S' R} (f : A -> S -> S) (body : A -> S -> ctl S R) (k : S -> ctl S' R) :
  (forall x s, body x s = Cont (f x s)) ->
  forall l s, forM l s body k = k (fold_left (fun s x => f x s) l s).
Proof. intros H. induction l as [|x r IH]; intros s; cbn [forM fold_left]; [reflexivity|]. rewrite H. apply IH. Qed.

Lemma fold_app_flat_map {A B} (f : A -> list B) : forall l acc,
  fold_left (fun s x => s ++ f x) l acc = acc ++ flat_map f l.
Proof.
  induction l as [|x r IH]; intros acc; cbn [fold_left flat_map]; [now rewrite app_nil_r|].
  now rewrite IH, app_assoc.
Qed.

Lemma set_same {V} k (v : V) : forall d, lookup k d = Some v -> set k v d = d.
Proof.
  induction d as [|[k' v'] r IH]; cbn [lookup set]; [discriminate|].
  destruct (Z.eqb_spec k k') as [->|Hne]; intros H; [now inversion H|now rewrite IH].
Qed.

Lemma del_set_same {V} k (v : V) : forall d, del k (set k v d) = del k d.
Proof.
  induction d as [|[k' v'] r IH]; cbn [set del]; [now rewrite Z.eqb_refl|].
  destruct (Z.eqb_spec k k') as [->|Hne]; cbn [del].
  - now rewrite Z.eqb_refl.
  - destruct (Z.eqb_spec k k'); [congruence|]. now rewrite IH.
Qed.

Lemma del_set_neq {V} k k' (v : V) : k <> k' -> forall d, del k (set k' v d) = set k' v (del k d).
Proof.
  intros Hne. induction d as [|[a b] r IH]; cbn [set del].
  - destruct (Z.eqb_spec k k'); [congruence|reflexivity].
  - destruct (Z.eqb_spec k' a) as [->|Hka]; cbn [del].
    + destruct (Z.eqb_spec k a); [congruence|]. cbn [set]. now rewrite Z.eqb_refl.
    + destruct (Z.eqb_spec k a) as [->|Hk]; [exact IH|]. cbn [set].
      destruct (Z.eqb_spec k' a); [congruence|]. now rewrite IH.
Qed.

(* ================================================================== *)
(* 3. flatten_name_map  =  ImportTable.flatten                         *)
(* ================================================================== *)
Theorem gen_flatten_name_map_eq : forall nm : name_map, G.gen_flatten_name_map nm = ROk (flatten nm).
Proof.
  intros nm. unfold G.gen_flatten_name_map. cbv zeta.
  rewrite (forM_cont (fun (kv : Z * src) acc => acc ++ flatten_entry kv)).
  - cbn [run]. rewrite fold_app_flat_map. reflexivity.
  - intros [k [c|cs]] acc; unfold src_is_none, flatten_entry; cbn [fst snd].
    + reflexivity.
    + rewrite (forM_cont (fun c acc => acc ++ [(c, c)])) by reflexivity.
      cbn [pseq]. f_equal.
      rewrite (fold_app_flat_map (fun c => [(c, c)])). f_equal.
Qed.

(* ================================================================== *)
(* 4. _ensure_integer_ids                                              *)
(* ================================================================== *)
(* what the model does at this point (cut out of ImportTable.import_csv_body), on a DataFrame *)
Definition ensure_ids_model (ityp : bool) (df : frame) : res frame :=
  match lookup k_id df with
  | None => Raise KeyError
  | Some ids =>
    if ityp then ROk df else
    let m := id_mapping ids in
    let df1 := set k_id (map (map_cell m) ids) df in
    match lookup k_parent df1 with
    | None => Raise KeyError
    | Some ps => if existsb (is_unknown m) ps then Raise ValueError
                 else ROk (set k_parent (map (map_cell m) ps) df1)
    end
  end.

Lemma uniq_from_fresh : forall l seen c, In c (uniq_from seen l) -> ~ In c seen.
Proof.
  induction l as [|x r IH]; intros seen c; cbn [uniq_from]; [intros []|].
  destruct (memc x seen) eqn:Hm.
  - apply IH.
  - intros [<-|Hin]; [now apply memc_false|].
    intros Hs. apply (IH _ _ Hin). now right.
Qed.

Lemma uniq_from_NoDup : forall l seen, NoDup (uniq_from seen l).
Proof.
  induction l as [|x r IH]; intros seen; cbn [uniq_from]; [constructor|].
  destruct (memc x seen); [apply IH|].
  constructor; [|apply IH]. intros Hin. apply (uniq_from_fresh _ _ _ Hin). now left.
Qed.

Lemma cellmap_set_fresh k v : forall d, ~ In k (map fst d) -> cellmap_set k v d = d ++ [(k, v)].
Proof.
  induction d as [|[a b] r IH]; cbn [cellmap_set map fst In app]; [reflexivity|].
  intros Hn. destruct (cell_eqb_spec a k) as [->|Hne]; [exfalso; apply Hn; now left|].
  rewrite IH; [reflexivity|]. intros Hin. apply Hn. now right.
Qed.

Lemma cellmap_enum : forall (l : list cell) (k : Z) (d : list (cell * Z)),
  NoDup l -> (forall c, In c l -> ~ In c (map fst d)) ->
  fold_left (fun d x => cellmap_set (fst ((fun '(new_id, original_id) => (original_id, new_id)) x))
                                    (snd ((fun '(new_id, original_id) => (original_id, new_id)) x)) d)
            (py_enumerate_from k l) d
  = d ++ enum_from k l.
Proof.
  induction l as [|x r IH]; intros k d Hnd Hfr; cbn [py_enumerate_from fold_left enum_from].
  - now rewrite app_nil_r.
  - cbn [fst snd]. rewrite cellmap_set_fresh by (apply Hfr; now left).
    inversion Hnd as [|? ? Hx Hr]; subst.
    rewrite IH; [now rewrite <- app_assoc| exact Hr |].
    intros c Hc. rewrite map_app. cbn [map fst]. rewrite in_app_iff. cbn [In].
    intros [Hin|[<-|[]]]; [apply (Hfr c); [now right|exact Hin]|contradiction].
Qed.

Lemma id_mapping_tie ids :
  cellmap_comp (fun '(new_id, original_id) => (original_id, new_id)) (py_enumerate_from 1 (pd_unique ids)) = id_mapping ids.
Proof.
  unfold cellmap_comp, pd_unique, id_mapping, uniq.
  rewrite cellmap_enum; [reflexivity|apply uniq_from_NoDup|intros c _ []].
Qed.

Lemma unknown_tie m : forall ps,
  mask_any (mask_and (mask_and (pd_notna ps) (mask_not (pd_isin_keys ps m))) (mask_not (pd_isin ps [empty_str; CInt (-1)])))
  = existsb (is_unknown m) ps.
Proof.
  unfold mask_any, pd_notna, mask_not, pd_isin_keys, pd_isin.
  induction ps as [|p r IH]; cbn [map mask_and existsb]; [reflexivity|].
  rewrite IH. f_equal. unfold is_unknown, pd_isna, memc at 2. cbn [existsb].
  destruct (cell_eqb p CNone), (memc p (map fst m)), (cell_eqb p empty_str), (cell_eqb p (CInt (-1))); reflexivity.
Qed.

Theorem gen_ensure_integer_ids_eq : forall (isint : list cell -> bool) (df : frame),
  G.gen_ensure_integer_ids isint df
  = match lookup k_id df with Some ids => ensure_ids_model (isint ids) df | None => Raise KeyError end.
Proof.
  intros isint df. unfold G.gen_ensure_integer_ids, ensure_ids_model, dict_get.
  destruct (lookup k_id df) as [ids|] eqn:Hid; cbn [bind run]; [|reflexivity].
  destruct (isint ids); cbn [negb pseq run]; [reflexivity|].
  cbv zeta. rewrite id_mapping_tie. unfold pd_map_dict, pd_astype_Int64.
  destruct (lookup k_parent (set k_id (map (map_cell (id_mapping ids)) ids) df)) as [ps|]; cbn [bind pseq run]; [|reflexivity].
  rewrite unknown_tie.
  destruct (existsb (is_unknown (id_mapping ids)) ps); reflexivity.
Qed.

(* ================================================================== *)
(* 5. CSVTracksBuilder.load_source                                     *)
(* ================================================================== *)
(* a DataFrame as a property dict (every column a 1-D array without "missing") *)
Definition mkp (v : list cell) : prop := mk_prop (PS v) None.
Definition fp (d : frame) : props := map (fun kv => (fst kv, mkp (snd kv))) d.
(* the table of the hand model as a DataFrame *)
Definition table_frame (t : table) : frame := map (fun c => (c, column t c)) (t_cols t).

Lemma fp_table t : fp (table_frame t) = table_props t.
Proof. unfold fp, table_frame, table_props. rewrite map_map. reflexivity. Qed.

Lemma lookup_fp k : forall d : frame, lookup k (fp d) = option_map mkp (lookup k d).
Proof.
  induction d as [|[a v] r IH]; cbn [fp map lookup fst snd option_map]; [reflexivity|].
  destruct (k =? a); [reflexivity|exact IH].
Qed.
Lemma haskey_fp k (d : frame) : haskey k (fp d) = haskey k d.
Proof. unfold haskey. rewrite lookup_fp. destruct (lookup k d); reflexivity. Qed.
Lemma fp_set k v : forall d : frame, fp (set k v d) = set k (mkp v) (fp d).
Proof.
  induction d as [|[a w] r IH]; cbn [fp map set fst snd]; [reflexivity|].
  destruct (k =? a); cbn [map fst snd]; [reflexivity|]. f_equal. exact IH.
Qed.
Lemma fp_del k : forall d : frame, fp (del k d) = del k (fp d).
Proof.
  induction d as [|[a w] r IH]; cbn [fp map del fst snd]; [reflexivity|].
  destruct (k =? a); cbn [map fst snd]; [exact IH|]. f_equal. exact IH.
Qed.
Lemma keys_fp (d : frame) : keys (fp d) = keys d.
Proof. unfold keys, fp. rewrite map_map. reflexivity. Qed.

(* the renaming loop, on DataFrames *)
Definition rename_frame_step (df acc : frame) (ts : Z * Z) : frame :=
  match lookup (snd ts) df with
  | Some s => if haskey (fst ts) acc then acc else set (fst ts) s acc
  | None => acc
  end.
Definition rename_frame (df : frame) (nm : name_map) : frame := fold_left (rename_frame_step df) (flatten nm) [].

Lemma fp_rename df nm : fp (rename_frame df nm) = rename (fp df) nm.
Proof.
  unfold rename_frame, rename. change (@nil (Z * prop)) with (fp []). generalize (@nil (Z * list cell)) as acc.
  induction (flatten nm) as [|ts l IH]; intros acc; cbn [fold_left]; [reflexivity|].
  rewrite IH. f_equal. unfold rename_frame_step, rename_step. rewrite lookup_fp, haskey_fp.
  destruct (lookup (snd ts) df); cbn [option_map]; [|reflexivity].
  destruct (haskey (fst ts) acc); [reflexivity|apply fp_set].
Qed.

Lemma rename_frame_nodup df nm : NoDup (keys (rename_frame df nm)).
Proof.
  unfold rename_frame. assert (H : NoDup (keys (@nil (Z * list cell)))) by constructor.
  revert H. generalize (@nil (Z * list cell)) as acc.
  induction (flatten nm) as [|ts l IH]; intros acc H; cbn [fold_left]; [exact H|].
  apply IH. unfold rename_frame_step. destruct (lookup (snd ts) df); [|exact H].
  destruct (haskey (fst ts) acc); [exact H|now apply NoDup_keys_set].
Qed.

Lemma rename_loop {S' R} (df : frame) (k : frame -> ctl S' R) : forall l acc,
  forM l acc
    (fun '(v_target_key, v_source_col) v_new_df_data =>
       pseq (if haskey v_source_col df && negb (haskey v_target_key v_new_df_data)
             then bind (dict_get v_source_col df) (fun t10 =>
                    let v_new_df_data := set v_target_key (pd_copy t10) v_new_df_data in Cont v_new_df_data)
             else Cont v_new_df_data)
            (fun v_new_df_data => Cont v_new_df_data)) k
  = k (fold_left (rename_frame_step df) l acc).
Proof.
  intros l acc.
  rewrite (forM_cont (fun ts acc => rename_frame_step df acc ts)); [reflexivity|].
  intros [tk sc] a. unfold rename_frame_step, haskey, dict_get, pd_copy. cbn [fst snd].
  destruct (lookup sc df); cbn [andb]; [|reflexivity].
  destruct (lookup tk a); reflexivity.
Qed.

(* the literal_eval loop over the unmapped columns changes nothing *)
Lemma lit_loop {S' R} (nm : name_map) (k : frame -> ctl S' R) (df : frame) : forall cols,
  (forall c, In c cols -> In c (keys df)) ->
  forM cols df
    (fun v_col v_df =>
       pseq (if negb (haskey v_col nm)
             then bind (dict_get v_col v_df) (fun t24 =>
                    let v_df := set v_col (pd_apply_literal_eval t24) v_df in Cont v_df)
             else Cont v_df)
            (fun v_df => Cont v_df)) k
  = k df.
Proof.
  induction cols as [|c r IH]; intros Hin; cbn [forM]; [reflexivity|].
  destruct (In_lookup_exists c df (Hin c (or_introl eq_refl))) as [v Hv].
  unfold dict_get, pd_apply_literal_eval. rewrite Hv.
  destruct (negb (haskey c nm)); cbn [bind pseq].
  - rewrite (set_same c v df Hv). apply IH. intros x Hx. apply Hin. now right.
  - apply IH. intros x Hx. apply Hin. now right.
Qed.

(* node_props built column by column *)
Lemma props_loop {S' R} (k : props -> ctl S' R) : forall (d : frame) (acc : props),
  NoDup (keys acc ++ keys d) ->
  forM d acc
    (fun '(v_prop_name, v_values) v_node_props =>
       let v_node_props := set v_prop_name (mk_prop (PS (np_array1 v_values)) None) v_node_props in Cont v_node_props) k
  = k (acc ++ fp d).
Proof.
  induction d as [|[c v] r IH]; intros acc Hnd; cbn [forM fp map]; [now rewrite app_nil_r|].
  cbv zeta. unfold np_array1.
  assert (Hc : ~ In c (keys acc)).
  { intros Hin. apply NoDup_app_iff in Hnd. destruct Hnd as (_ & _ & Hd). apply (Hd c Hin). now left. }
  rewrite (set_fresh c _ acc Hc).
  rewrite IH.
  - rewrite <- app_assoc. reflexivity.
  - rewrite keys_app. cbn [keys map fst app]. rewrite <- app_assoc. exact Hnd.
Qed.

(* the edge comprehension followed by the conversion of the id array *)
Definition edge_cond : cell * cell -> bool :=
  fun '(v_parent_id, v_child_id) => negb (pd_isna v_parent_id) && cell_ne_int v_parent_id (-1).
Definition edge_elt : cell * cell -> res (Z * Z) :=
  fun '(v_parent_id, v_child_id) => rbind (cell_int v_parent_id) (fun t27 => rbind (cell_int v_child_id) (fun t28 => ROk (t27, t28))).

Lemma edges_spec : forall (pars idc : list cell),
  match mapM_if edge_cond edge_elt (py_zip_strict pars idc), ints_of idc with
  | ROk es, Some ids => edge_tuples pars ids = Some es
  | Raise e, Some ids => e = ValueError /\ edge_tuples pars ids = None
  | ROk es, None => True
  | Raise e, None => e = ValueError
  end.
Proof.
  unfold py_zip_strict.
  induction pars as [|p pr IH]; intros idc; cbn [combine mapM_if].
  - destruct (ints_of idc); reflexivity || exact I.
  - destruct idc as [|c cr]; [reflexivity|]. cbn [combine mapM_if ints_of].
    specialize (IH cr).
    destruct (mapM_if edge_cond edge_elt (combine pr cr)) as [es|e]; destruct (ints_of cr) as [ids|];
      destruct p as [z| | |]; destruct c as [i| | |];
      unfold edge_cond, edge_elt, pd_isna, cell_ne_int, cell_int;
      cbn [cell_eqb negb andb int_of_cell rbind edge_tuples];
      try (destruct (Z.eqb_spec z (-1))); cbn [negb andb rbind];
      repeat match goal with H : _ /\ _ |- _ => destruct H end; subst;
      try match goal with H : edge_tuples _ _ = _ |- _ => rewrite H end;
      auto.
Qed.

(* what the hand model does between the validation of the name map and _combine_multi_value_props
   (cut out of ImportTable.import_csv_body; [df] is the renamed DataFrame as a property dict) *)
Definition csv_load_model (ityp : bool) (nm : name_map) (nd0 : option nat) (df : props)
  : res (nat * list Z * list (Z * Z) * props) :=
  if negb (match lookup k_id df with Some pi => nodup_cells (cells_of pi) | None => true end) then Raise ValueError else
  match lookup k_id df, lookup k_parent df with
  | Some pi, Some pp =>
    let m := id_mapping (cells_of pi) in
    if negb ityp && existsb (is_unknown m) (cells_of pp) then Raise ValueError else
    let idc := if ityp then cells_of pi else map (map_cell m) (cells_of pi) in
    let parc := if ityp then cells_of pp else map (map_cell m) (cells_of pp) in
    let ndim := match nd0 with
                | Some n => n
                | None => match lookup k_pos nm with
                          | Some (Multi cs) => S (length cs)
                          | Some (Single _) => if haskey k_z df then 4%nat else 3%nat
                          | None => 1%nat
                          end
                end in
    match ints_of idc with
    | Some ids => match edge_tuples parc ids with
                  | Some es => ROk (ndim, ids, es, del k_parent (del k_id df))
                  | None => Raise ValueError
                  end
    | None => Raise ValueError
    end
  | _, _ => Raise KeyError
  end.

(* ... and that cut is faithful: import_csv_body is validate_name_map ; csv_load_model ; combine ; finish *)
Theorem import_csv_body_decomp : forall t ityp trk lin nm0,
  import_csv_body t ityp trk lin nm0 =
  let nm := preprocess nm0 in
  if negb (validate_name_map csv_required (t_cols t) (ndim_of_map nm0) nm) then ValueErr else
  match csv_load_model ityp nm (ndim_of_map nm0) (rename (table_props t) nm) with
  | ROk (nd, ids, es, ps) => finish (Some nd) trk lin ids es (combine_multi nm ps)
  | Raise KeyError => OtherErr 1
  | Raise _ => ValueErr
  end.
Proof.
  intros t ityp trk lin nm0. unfold import_csv_body, csv_load_model. cbv zeta.
  destruct (negb (validate_name_map csv_required (t_cols t) (ndim_of_map nm0) (preprocess nm0))); [reflexivity|].
  set (df := rename (table_props t) (preprocess nm0)).
  destruct (negb match lookup k_id df with Some pi => nodup_cells (cells_of pi) | None => true end); [reflexivity|].
  destruct (lookup k_id df) as [pi|]; [|reflexivity].
  destruct (lookup k_parent df) as [pp|]; [|reflexivity].
  destruct (negb ityp && existsb (is_unknown (id_mapping (cells_of pi))) (cells_of pp)); [reflexivity|].
  destruct (ints_of (if ityp then cells_of pi else map (map_cell (id_mapping (cells_of pi))) (cells_of pi))) as [ids|]; [|reflexivity].
  destruct (edge_tuples _ ids) as [es|]; [|reflexivity].
  f_equal. destruct (ndim_of_map nm0); [reflexivity|].
  destruct (lookup k_pos (preprocess nm0)) as [[c|cs]|]; reflexivity.
Qed.

Definition rmap {A B} (f : A -> B) (r : res A) : res B :=
  match r with ROk a => ROk (f a) | Raise e => Raise e end.

(* the two outcomes of _ensure_integer_ids written uniformly *)
Definition ens_frame (ityp : bool) (df : frame) (ids ps : list cell) : frame :=
  if ityp then df
  else set k_parent (map (map_cell (id_mapping ids)) ps) (set k_id (map (map_cell (id_mapping ids)) ids) df).

Lemma k_id_parent : k_id <> k_parent. Proof. discriminate. Qed.
Lemma k_parent_id : k_parent <> k_id. Proof. discriminate. Qed.

Lemma ensure_uniform ityp df ids ps : lookup k_id df = Some ids -> lookup k_parent df = Some ps ->
  ensure_ids_model ityp df
  = if negb ityp && existsb (is_unknown (id_mapping ids)) ps then Raise ValueError else ROk (ens_frame ityp df ids ps).
Proof.
  intros Hi Hp. unfold ensure_ids_model, ens_frame. rewrite Hi. destruct ityp; cbn [negb andb]; [reflexivity|].
  cbv zeta. rewrite (lookup_set_neq _ _ _ _ k_parent_id), Hp. reflexivity.
Qed.

Lemma ens_frame_facts ityp df ids ps : NoDup (keys df) -> lookup k_id df = Some ids -> lookup k_parent df = Some ps ->
  let D := ens_frame ityp df ids ps in
  NoDup (keys D) /\
  lookup k_id D = Some (if ityp then ids else map (map_cell (id_mapping ids)) ids) /\
  lookup k_parent D = Some (if ityp then ps else map (map_cell (id_mapping ids)) ps) /\
  haskey k_z D = haskey k_z df /\
  del k_parent (del k_id D) = del k_parent (del k_id df).
Proof.
  intros Hnd Hi Hp. unfold ens_frame. destruct ityp; cbv zeta; [auto|].
  repeat split.
  - now apply NoDup_keys_set, NoDup_keys_set.
  - now rewrite (lookup_set_neq _ _ _ _ k_id_parent), lookup_set_eq.
  - now rewrite lookup_set_eq.
  - unfold haskey. rewrite !lookup_set_neq by discriminate. reflexivity.
  - rewrite (del_set_neq _ _ _ k_id_parent), del_set_same, del_set_same. reflexivity.
Qed.

Lemma edge_ids_tie (es : list (Z * Z)) :
  (if negb (is_nil es) then np_array_pairs es else np_empty_pairs) = es.
Proof. destruct es; reflexivity. Qed.

Section CsvLoad.
Variables Metadata PropMeta : Type.
Variable isint : list cell -> bool.
Variable newmeta : Metadata.
Variable propsmeta : Z -> prop -> PropMeta.
Variable addmeta : Metadata -> list PropMeta -> Metadata.
Variable settrack : Metadata -> dict Z -> Metadata.

Notation gen_ls := (G.gen_csv_load_source Metadata PropMeta isint newmeta propsmeta addmeta settrack).

(* what load_source leaves in the builder, without the (opaque) metadata *)
Definition img_core {M P} (g : img M P) := (img_node_ids g, img_edge_ids g, img_node_props g, img_edge_props g).
Definition ls_view (r : unit * option Z * option (img Metadata props)) := (snd (fst r), option_map img_core (snd r)).
Definition ls_model_view (r : nat * list Z * list (Z * Z) * props) :=
  let '(nd, ids, es, ps) := r in (Some (Z.of_nat nd), Some (ids, es, ps, @nil (Z * prop))).

Theorem gen_csv_load_source_eq :
  forall (src : frame) (nm : name_map) (nd0 : option nat) (img0 : option (img Metadata props)),
  let DF := rename_frame src nm in
  let ityp := match lookup k_id DF with Some ids => isint ids | None => true end in
  rmap ls_view (gen_ls (option_map Z.of_nat nd0) img0 src nm)
  = rmap ls_model_view (csv_load_model ityp nm nd0 (fp DF)).
Proof.
  intros src nm nd0 img0 DF ityp.
  unfold G.gen_csv_load_source. cbv zeta.
  unfold pd_source_frame, pd_DataFrame, pd_nan_to_none, pd_to_dict_list, pd_columns.
  rewrite gen_flatten_name_map_eq. cbn [bind].
  rewrite rename_loop. change (fold_left (rename_frame_step src) (flatten nm) []) with DF.
  pose proof (rename_frame_nodup src nm) as Hnd. change (rename_frame src nm) with DF in Hnd.
  unfold csv_load_model. rewrite !lookup_fp.
  destruct (lookup k_id DF) as [ids|] eqn:Hid; cbn [option_map].
  2:{ (* no id column: KeyError at pop *)
    assert (Hk : haskey k_id DF = false) by (unfold haskey; now rewrite Hid).
    rewrite Hk. cbn [bind andb pseq negb].
    rewrite lit_loop by auto.
    unfold dict_pop. rewrite Hid. reflexivity. }
  assert (Hk : haskey k_id DF = true) by (unfold haskey; now rewrite Hid).
  rewrite Hk. unfold dict_get at 1. rewrite Hid. cbn [rbind bind andb].
  unfold pd_is_unique. change (cells_of (mkp ids)) with ids.
  destruct (nodup_cells ids); cbn [negb]; [|reflexivity].
  destruct (lookup k_parent DF) as [ps|] eqn:Hpar; cbn [option_map].
  2:{ (* no parent_id column: KeyError at the second pop *)
    assert (Hkp : haskey k_parent DF = false) by (unfold haskey; now rewrite Hpar).
    rewrite Hkp. cbn [pseq].
    rewrite lit_loop by auto.
    unfold dict_pop. rewrite Hid. cbn [bind].
    rewrite (lookup_del_neq _ _ _ k_parent_id), Hpar. reflexivity. }
  assert (Hkp : haskey k_parent DF = true) by (unfold haskey; now rewrite Hpar).
  rewrite Hkp. rewrite gen_ensure_integer_ids_eq, Hid.
  change (cells_of (mkp ps)) with ps.
  rewrite (ensure_uniform _ _ _ _ Hid Hpar). fold ityp.
  destruct (negb ityp && existsb (is_unknown (id_mapping ids)) ps); [reflexivity|].
  cbn [bind pseq].
  destruct (ens_frame_facts ityp DF ids ps Hnd Hid Hpar) as (HndD & HiD & HpD & HzD & HdelD).
  set (D := ens_frame ityp DF ids ps) in *.
  set (idc := if ityp then ids else map (map_cell (id_mapping ids)) ids) in *.
  set (parc := if ityp then ps else map (map_cell (id_mapping ids)) ps) in *.
  rewrite lit_loop by auto.
  unfold dict_pop, np_array1. rewrite HiD. cbn [bind].
  rewrite (lookup_del_neq _ _ _ k_parent_id), HpD. cbn [bind].
  rewrite (props_loop _ (del k_parent (del k_id D)) []) by (cbn [keys map app]; now apply NoDup_keys_del, NoDup_keys_del).
  cbn [app].
  change (mapM_if _ _ (py_zip_strict parc idc)) with (mapM_if edge_cond edge_elt (py_zip_strict parc idc)).
  pose proof (edges_spec parc idc) as He.
  rewrite HdelD, fp_del, fp_del.
  destruct (mapM_if edge_cond edge_elt (py_zip_strict parc idc)) as [es|e]; destruct (ints_of idc) as [zs|] eqn:Hz; cbn [bind].
  - rewrite He, edge_ids_tie. unfold np_ids_of_cells. rewrite Hz. cbn [bind run rmap].
    unfold ls_view, ls_model_view, img_core. cbn [fst snd option_map img_node_ids img_edge_ids img_node_props img_edge_props].
    f_equal. f_equal.
    destruct nd0 as [n|]; cbn [option_map]; [reflexivity|].
    unfold getd. rewrite haskey_fp, HzD.
    destruct (lookup k_pos nm) as [[c|cs]|]; [destruct (haskey k_z DF); reflexivity| |reflexivity].
    unfold py_len. f_equal. lia.
  - unfold np_ids_of_cells. rewrite Hz. reflexivity.
  - destruct He as [-> ->]. reflexivity.
  - subst e. reflexivity.
Qed.

(* for the table of the hand model *)
Corollary gen_csv_load_source_table :
  forall (t : table) (nm : name_map) (nd0 : option nat) (img0 : option (img Metadata props)),
  let df := rename (table_props t) nm in
  let ityp := match lookup k_id df with Some pi => isint (cells_of pi) | None => true end in
  rmap ls_view (gen_ls (option_map Z.of_nat nd0) img0 (table_frame t) nm)
  = rmap ls_model_view (csv_load_model ityp nm nd0 df).
Proof.
  intros t nm nd0 img0 df ityp.
  unfold ityp, df. rewrite <- fp_table, <- fp_rename, lookup_fp.
  rewrite gen_csv_load_source_eq.
  destruct (lookup k_id (rename_frame (table_frame t) nm)); reflexivity.
Qed.

End CsvLoad.

(* ================================================================== *)
(* 6. _combine_multi_value_props  =  ImportTable.combine_multi         *)
(* ================================================================== *)
Lemma del_absent {V} k : forall d : dict V, haskey k d = false -> del k d = d.
Proof.
  unfold haskey. induction d as [|[a b] r IH]; cbn [lookup del]; [reflexivity|].
  destruct (k =? a); [discriminate|]. intros H. now rewrite IH.
Qed.

Lemma missing_cols_tie (ps : props) : forall cs,
  is_nil (py_listcomp (fun c : Z => c) (fun c => negb (haskey c ps)) cs) = forallb (fun c => haskey c ps) cs.
Proof.
  unfold py_listcomp. induction cs as [|c r IH]; cbn [filter map forallb]; [reflexivity|].
  destruct (haskey c ps); cbn [negb andb map is_nil]; [exact IH|reflexivity].
Qed.

Lemma mapM_get {B} (f : prop -> B) (ps : props) : forall cs, forallb (fun c => haskey c ps) cs = true ->
  mapM (fun c => rbind (dict_get c ps) (fun t => ROk (f t))) cs = ROk (map (fun c => f (getd c ps no_prop)) cs).
Proof.
  induction cs as [|c r IH]; cbn [forallb mapM map]; [reflexivity|].
  intros H. apply andb_true_iff in H. destruct H as [Hc Hr]. rewrite (IH Hr).
  unfold dict_get, getd, haskey in *. destruct (lookup c ps); [reflexivity|discriminate].
Qed.

Theorem gen_combine_multi_value_props_eq : forall (ps : props) (nm : name_map),
  G.gen_combine_multi_value_props ps nm = ROk (tt, combine_multi nm ps).
Proof.
  intros ps nm. unfold G.gen_combine_multi_value_props, combine_multi.
  rewrite (forM_cont (fun kv ps => combine_entry ps kv)); [reflexivity|].
  clear ps. intros [k [c|cs]] ps; unfold combine_entry; cbn [fst snd]; [reflexivity|].
  destruct cs as [|c0 cs0]; [reflexivity|].
  set (cs := c0 :: cs0).
  replace (py_len cs =? 0) with false by (unfold py_len, cs; cbn [length]; symmetry; apply Z.eqb_neq; lia).
  cbv zeta. rewrite missing_cols_tie.
  destruct (forallb (fun c => haskey c ps) cs) eqn:Hall; cbn [negb]; [|reflexivity].
  rewrite (mapM_get p_vals ps cs Hall). cbn [bind].
  rewrite (mapM_get p_miss ps cs Hall). cbn [bind].
  unfold comb_of. cbv zeta. rewrite !map_map.
  set (stacked := column_stack (map (fun c => p_vals (getd c ps no_prop)) cs)).
  set (ms := map (fun c => p_miss (getd c ps no_prop)) cs).
  assert (Hm : forall S' R (K : option (list bool) -> ctl S' R),
    pseq (if py_any (fun v_m => is_some v_m) ms
          then forM ms (np_zeros_bool (np_len stacked))
                 (fun v_m v_combined_missing =>
                    Cont (match v_m with Some v_m0 => np_ior v_combined_missing v_m0 | None => v_combined_missing end))
                 (fun v_combined_missing => Cont (Some v_combined_missing))
          else Cont None) K
    = K (combine_missing (length (rows_of stacked)) ms)).
  { intros. unfold combine_missing, py_any. destruct (existsb is_some ms); [|reflexivity].
    rewrite (forM_cont (fun m acc => match m with Some l => orb_list acc l | None => acc end)) by reflexivity.
    cbn [pseq]. unfold np_zeros_bool, np_len. rewrite Nat2Z.id. reflexivity. }
  rewrite Hm. clear Hm.
  rewrite (forM_cont (fun c acc => if c =? k then acc else del c acc)).
  - reflexivity.
  - intros c acc. unfold dict_del. destruct (haskey c acc) eqn:Hc; cbn [andb].
    + destruct (c =? k); reflexivity.
    + cbn [pseq]. destruct (c =? k); [reflexivity|]. now rewrite del_absent.
Qed.

(* ================================================================== *)
(* 7. validate_in_memory_geff, construct_graph  =  ImportTable.finish  *)
(* ================================================================== *)
Section Validate.
Variable Metadata : Type.
Variables trkf linf : list Z -> list (Z * Z) -> pcol -> bool.

Notation gen_val := (G.gen_validate_in_memory_geff Metadata trkf linf).

(* the answers of geff's tracklet / lineage validators on this InMemoryGeff (true when the property is absent) *)
Definition trk_answer (ids : list Z) (es : list (Z * Z)) (ps : props) : bool :=
  match lookup k_track ps with Some p => trkf ids es (p_vals p) | None => true end.
Definition lin_answer (ids : list Z) (es : list (Z * Z)) (ps : props) : bool :=
  match lookup k_lineage ps with Some p => linf ids es (p_vals p) | None => true end.

Theorem gen_validate_in_memory_geff_eq : forall (meta : Metadata) ids es (ps eps : props),
  gen_val (mk_img meta ids es ps eps)
  = if negb (structure_ok ids es) then Raise ValueError
    else ROk (tt, mk_img meta ids es (drop_invalid (trk_answer ids es ps) (lin_answer ids es ps) ps) eps).
Proof.
  intros meta ids es ps eps. unfold G.gen_validate_in_memory_geff, structure_ok.
  cbn [img_node_ids img_edge_ids img_node_props]. cbv zeta.
  unfold geff_validate_unique_node_ids, geff_validate_nodes_for_edges, geff_validate_no_self_edges, geff_validate_no_repeated_edges.
  destruct (nodup_z ids); cbn [negb andb]; [|reflexivity].
  destruct (edges_known ids es); cbn [negb andb]; [|reflexivity].
  destruct (no_self_edges es); cbn [negb andb]; [|reflexivity].
  destruct (nodup_pairs es); cbn [negb andb]; [|reflexivity].
  unfold drop_invalid, trk_answer, lin_answer, dict_get, dict_del, haskey, img_set_node_props.
  cbn [img_metadata img_node_ids img_edge_ids img_edge_props].
  assert (Hl : forall d : props, lookup k_lineage (del k_track d) = lookup k_lineage d)
    by (intros d; apply lookup_del_neq; discriminate).
  destruct (lookup k_track ps) as [pt|] eqn:Ht; cbn [bind andb pseq].
  - destruct (trkf ids es (p_vals pt)); cbn [negb bind pseq andb]; rewrite ?Ht; cbn [bind pseq]; rewrite ?Hl;
      (destruct (lookup k_lineage ps) as [pl|] eqn:Hlin; cbn [bind andb pseq]; [|reflexivity]);
      (destruct (linf ids es (p_vals pl)); cbn [negb bind pseq andb]; rewrite ?Hl, ?Hlin; reflexivity).
  - destruct (lookup k_lineage ps) as [pl|] eqn:Hlin; cbn [bind andb pseq]; [|reflexivity].
    destruct (linf ids es (p_vals pl)); cbn [negb bind pseq andb]; rewrite ?Hlin; reflexivity.
Qed.

Theorem gen_construct_graph_eq : forall (g : option (img Metadata props)),
  G.gen_construct_graph Metadata g
  = match g with
    | None => Raise ValueError
    | Some g => ROk (construct (img_node_ids g) (img_edge_ids g) (img_node_props g))
    end.
Proof. intros [g|]; reflexivity. Qed.

(* steps 3b-4 of build(): validate_in_memory_geff, then construct_graph, are the model's [finish]
   (after its spatial-dimension check) *)
Corollary validate_construct_is_finish : forall (meta : Metadata) ids es (ps eps : props) nd,
  spatial_props_ok nd ps = true ->
  rbind (gen_val (mk_img meta ids es ps eps)) (fun r => G.gen_construct_graph Metadata (Some (snd r)))
  = match finish nd (trk_answer ids es ps) (lin_answer ids es ps) ids es ps with
    | Ok g => ROk g
    | ValueErr => Raise ValueError
    | OtherErr _ => Raise KeyError
    end.
Proof.
  intros meta ids es ps eps nd Hsp. rewrite gen_validate_in_memory_geff_eq. unfold finish. rewrite Hsp. cbn [negb].
  destruct (negb (structure_ok ids es)); reflexivity.
Qed.

End Validate.

(* ================================================================== *)
(* 8. validate_spatial_dims, TracksBuilder.validate                    *)
(* ================================================================== *)
(* a loop that only checks: every element passes, or ValueError *)
Lemma forM_check {A S' R} (ok : A -> bool) (body : A -> unit -> ctl unit R) (k : unit -> ctl S' R) :
  (forall x, body x tt = if ok x then Cont tt else Exn ValueError) ->
  forall l, forM l tt body k = if forallb ok l then k tt else Exn ValueError.
Proof.
  intros H. induction l as [|x r IH]; cbn [forM forallb]; [reflexivity|].
  rewrite H. destruct (ok x); cbn [andb]; [exact IH|reflexivity].
Qed.

(* what the model assumes about get_default_key_to_feature_mapping: exactly Position and EllipsoidAxes
   have spatial_dims=True (ImportTable.sd_keys) *)
Definition feats_spec (feats : dict bool) : Prop :=
  forall k, match lookup k feats with Some b => feat_spatial_dims b | None => false end = memz k sd_keys.

Lemma actual_dims_tie (v : pcol) : (if np_ndim_is2 v then np_shape1 v else 1) = Z.of_nat (width_of v).
Proof. destruct v; reflexivity. Qed.

Lemma dims_eqb (w n : nat) : (1 <= n)%nat -> (Z.of_nat w =? Z.of_nat n - 1) = Nat.eqb w (n - 1).
Proof.
  intros Hn. destruct (Nat.eqb_spec w (n - 1)) as [->|Hne]; [apply Z.eqb_eq; lia|apply Z.eqb_neq; lia].
Qed.

Theorem gen_validate_spatial_dims_eq : forall (Metadata : Type) (g : img Metadata props) (feats : dict bool) (nd : option nat),
  feats_spec feats -> (forall n, nd = Some n -> (1 <= n)%nat) ->
  G.gen_validate_spatial_dims Metadata g feats (option_map Z.of_nat nd)
  = if spatial_props_ok nd (img_node_props g) then ROk tt else Raise ValueError.
Proof.
  intros Metadata g feats nd Hf Hn. unfold G.gen_validate_spatial_dims, spatial_props_ok.
  destruct nd as [n|]; cbn [option_map]; [|reflexivity].
  specialize (Hn n eq_refl). cbv zeta.
  rewrite (forM_check (fun kp : Z * prop => if memz (fst kp) sd_keys then Nat.eqb (width_of (p_vals (snd kp))) (n - 1) else true)).
  - match goal with |- run (if ?b then _ else _) = (if ?b' then _ else _) => change b' with b; destruct b; reflexivity end.
  - intros [key p]. cbn [fst snd]. rewrite <- (Hf key).
    destruct (lookup key feats) as [b|]; [|reflexivity].
    cbn [negb]. destruct (feat_spatial_dims b); cbn [negb]; [|reflexivity].
    rewrite actual_dims_tie, dims_eqb by exact Hn.
    destruct (Nat.eqb (width_of (p_vals p)) (n - 1)); reflexivity.
Qed.

Section ValidateMethod.
Variable Metadata : Type.
Variables trkf linf : list Z -> list (Z * Z) -> pcol -> bool.

(* TracksBuilder.validate = the model's [finish] up to the construction of the graph *)
Theorem gen_validate_eq : forall (meta : Metadata) ids es (ps eps : props) (feats : dict bool) (nd : option nat),
  feats_spec feats -> (forall n, nd = Some n -> (1 <= n)%nat) ->
  G.gen_validate Metadata trkf linf (Some (mk_img meta ids es ps eps)) feats (option_map Z.of_nat nd)
  = if negb (spatial_props_ok nd ps) then Raise ValueError
    else if negb (structure_ok ids es) then Raise ValueError
    else ROk (tt, Some (mk_img meta ids es (drop_invalid (trk_answer trkf ids es ps) (lin_answer linf ids es ps) ps) eps)).
Proof.
  intros meta ids es ps eps feats nd Hf Hn. unfold G.gen_validate.
  rewrite (gen_validate_spatial_dims_eq Metadata _ feats nd Hf Hn). cbn [img_node_props].
  destruct (spatial_props_ok nd ps); cbn [negb bind run]; [|reflexivity].
  rewrite gen_validate_in_memory_geff_eq.
  destruct (negb (structure_ok ids es)); reflexivity.
Qed.

Theorem gen_validate_none : forall feats nd, G.gen_validate Metadata trkf linf None feats nd = Raise ValueError.
Proof. reflexivity. Qed.
End ValidateMethod.

(* ================================================================== *)
(* 9. _preprocess_name_map  =  ImportTable.preprocess                  *)
(* ================================================================== *)
Lemma del_filter {V} k : forall d : dict V, del k d = filter (fun kv => negb (k =? fst kv)) d.
Proof.
  induction d as [|[a b] r IH]; cbn [del filter fst]; [reflexivity|].
  destruct (k =? a); cbn [negb]; [exact IH|now rewrite IH].
Qed.

Lemma filter_filter {A} (f g : A -> bool) : forall l, filter f (filter g l) = filter (fun x => g x && f x) l.
Proof.
  induction l as [|x r IH]; cbn [filter]; [reflexivity|].
  destruct (g x); cbn [filter andb]; [destruct (f x); now rewrite IH|exact IH].
Qed.

Lemma del_fold_filter {V} : forall ks (d : dict V),
  fold_left (fun acc c => del c acc) ks d = filter (fun kv => negb (memz (fst kv) ks)) d.
Proof.
  induction ks as [|k r IH]; intros d; cbn [fold_left].
  - cbn. induction d as [|x d' IHd]; cbn [filter]; [reflexivity|now rewrite <- IHd].
  - rewrite IH, del_filter, filter_filter. apply filter_ext. intros [a b]. cbn [fst memz existsb].
    rewrite (Z.eqb_sym a k). destruct (k =? a); reflexivity.
Qed.

(* for k in ks: del d[k]   (every key present, no key twice: no KeyError) *)
Lemma del_loop {V S' R} (K : dict V -> ctl S' R) : forall ks (d : dict V),
  NoDup ks -> (forall k, In k ks -> In k (keys d)) ->
  forM ks d (fun v_k v_d => bind (dict_del v_k v_d) (fun t => let v_d := t in Cont v_d)) K
  = K (fold_left (fun acc c => del c acc) ks d).
Proof.
  induction ks as [|k r IH]; intros d Hnd Hin; cbn [forM fold_left]; [reflexivity|].
  unfold dict_del. replace (haskey k d) with true by (symmetry; apply haskey_keys, Hin; now left).
  cbn [bind]. inversion Hnd as [|? ? Hk Hr]; subst. apply IH; [exact Hr|].
  intros x Hx. apply in_keys_del. split; [intros ->; contradiction|apply Hin; now right].
Qed.

Lemma ge2_tie (l : list Z) : (py_len l >=? 2) = (2 <=? length l)%nat.
Proof.
  unfold py_len. destruct (Nat.leb_spec 2 (length l)); [apply Z.geb_le|rewrite Z.geb_leb; apply Z.leb_gt]; lia.
Qed.

Lemma legacy_fold_nodup : forall l (st : name_map * list Z), NoDup (keys (fst st)) -> NoDup (keys (fst (fold_left legacy_step l st))).
Proof.
  induction l as [|c r IH]; intros st H; cbn [fold_left]; [exact H|]. apply IH.
  unfold legacy_step. destruct (lookup c (fst st)) as [[x|xs]|]; cbn [fst]; [now apply NoDup_keys_del|now apply NoDup_keys_del|exact H].
Qed.

Lemma legacy_pos_nodup nm : NoDup (keys nm) -> NoDup (keys (legacy_pos nm)).
Proof.
  intros H. unfold legacy_pos. destruct (haskey k_pos nm); [exact H|].
  pose proof (legacy_fold_nodup [k_z; k_y; k_x] (nm, []) H) as H'.
  cbv zeta. match goal with |- context [if ?b then _ else _] => destruct b end; [now apply NoDup_keys_set|exact H'].
Qed.

(* the keys with an empty mapping, deleted one by one = filter nonempty_src *)
Lemma remove_empty_tie (d : name_map) : NoDup (keys d) ->
  fold_left (fun acc c => del c acc)
            (py_listcomp (fun '(v_k, v_v) => v_k) (fun '(v_k, v_v) => src_is_none v_v || src_eq_nil v_v) d) d
  = filter nonempty_src d.
Proof.
  intros Hnd. rewrite del_fold_filter. apply filter_ext_in. intros [k v] Hin. cbn [fst].
  unfold py_listcomp, nonempty_src. cbn [snd].
  set (bad := fun kv : Z * src => let '(_, v_v) := kv in src_is_none v_v || src_eq_nil v_v).
  assert (Hm : memz k (map (fun '(v_k, _) => v_k) (filter bad d)) = bad (k, v)).
  { apply eq_true_iff_eq. rewrite memz_In, in_map_iff. split.
    - intros ([k' v'] & <- & Hf). apply filter_In in Hf. destruct Hf as [Hin' Hb].
      assert (v' = v).
      { apply (In_lookup _ _ _ Hnd) in Hin. apply (In_lookup _ _ _ Hnd) in Hin'. congruence. }
      now subst.
    - intros Hb. exists (k, v). split; [reflexivity|]. apply filter_In. now split. }
  rewrite Hm. unfold bad, src_is_none, src_eq_nil. destruct v as [c|[|c cs]]; reflexivity.
Qed.

Theorem gen_preprocess_name_map_eq : forall nm : name_map, NoDup (keys nm) ->
  G.gen_preprocess_name_map nm None = ROk (tt, preprocess nm, None).
Proof.
  intros nm Hnd. unfold G.gen_preprocess_name_map.
  assert (Hlp : forall S' R (K : name_map -> ctl S' R),
    pseq (if negb (haskey k_pos nm)
          then forM [k_z; k_y; k_x] (nm, [])
                 (fun v_coord '(v_self_node_name_map, v_pos_components) =>
                    pseq (if haskey v_coord v_self_node_name_map
                          then bind (dict_get v_coord v_self_node_name_map) (fun v_source_col =>
                                 let v_pos_components :=
                                   if negb (src_is_none v_source_col)
                                   then match v_source_col with
                                        | Single v_source_col0 => v_pos_components ++ [v_source_col0]
                                        | Multi _ => v_pos_components
                                        end
                                   else v_pos_components in
                                 bind (dict_del v_coord v_self_node_name_map) (fun t30 =>
                                 let v_self_node_name_map := t30 in Cont (v_self_node_name_map, v_pos_components)))
                          else Cont (v_self_node_name_map, v_pos_components))
                         (fun '(v_self_node_name_map, v_pos_components) => Cont (v_self_node_name_map, v_pos_components)))
                 (fun '(v_self_node_name_map, v_pos_components) =>
                    let v_self_node_name_map :=
                      if py_len v_pos_components >=? 2 then set k_pos (Multi v_pos_components) v_self_node_name_map
                      else v_self_node_name_map in
                    Cont v_self_node_name_map)
          else Cont nm) K
    = K (legacy_pos nm)).
  { intros. unfold legacy_pos. destruct (haskey k_pos nm); cbn [negb]; [reflexivity|].
    rewrite (forM_cont (fun coord st => legacy_step st coord)).
    - change (fold_left (fun s x => legacy_step s x) [k_z; k_y; k_x] (nm, [])) with (fold_left legacy_step [k_z; k_y; k_x] (nm, [])).
      destruct (fold_left legacy_step [k_z; k_y; k_x] (nm, [])) as [a b]. cbn [fst snd pseq]. cbv zeta.
      now rewrite ge2_tie.
    - intros coord [a b]. unfold legacy_step, haskey, dict_get, dict_del, haskey, src_is_none. cbn [fst snd].
      destruct (lookup coord a) as [[c|cs]|]; reflexivity. }
  cbv zeta. rewrite Hlp. clear Hlp.
  pose proof (legacy_pos_nodup nm Hnd) as Hnd1. set (nm1 := legacy_pos nm) in *.
  rewrite del_loop.
  - rewrite remove_empty_tie by exact Hnd1. reflexivity.
  - unfold py_listcomp. apply NoDup_map_inj_in.
    + intros [k1 v1] [k2 v2] H1 H2 Hk. apply filter_In in H1, H2. destruct H1 as [H1 _], H2 as [H2 _]. subst k2.
      f_equal. apply (In_lookup _ _ _ Hnd1) in H1, H2. congruence.
    + apply NoDup_filter. clear - Hnd1. induction nm1 as [|[k v] r IH]; [constructor|].
      cbn [keys map fst] in Hnd1. inversion Hnd1 as [|? ? Hk Hr]; subst. constructor; [|now apply IH].
      intros Hin. apply Hk. apply (in_map fst) in Hin. exact Hin.
  - intros k Hk. unfold py_listcomp in Hk. apply in_map_iff in Hk. destruct Hk as ([k' v'] & <- & Hf).
    apply filter_In in Hf. destruct Hf as [Hin _]. apply (in_map fst) in Hin. exact Hin.
Qed.

(* ================================================================== *)
(* 10. validation of the name map  =  ImportTable.validate_name_map    *)
(* ================================================================== *)
Lemma len_eqb (a b : list Z) : (py_len a =? py_len b) = Nat.eqb (length a) (length b).
Proof.
  unfold py_len. destruct (Nat.eqb_spec (length a) (length b)) as [->|H]; [apply Z.eqb_refl|apply Z.eqb_neq; lia].
Qed.

Theorem gen_validate_spatial_dims_in_name_map_eq : forall (nm : name_map) (feats : dict bool) (nd : option nat),
  feats_spec feats -> (forall n, nd = Some n -> (1 <= n)%nat) ->
  G.gen_validate_spatial_dims_in_name_map nm feats (option_map Z.of_nat nd)
  = if spatial_map_ok nd nm then ROk tt else Raise ValueError.
Proof.
  intros nm feats nd Hf Hn. unfold G.gen_validate_spatial_dims_in_name_map, spatial_map_ok. cbv zeta.
  destruct nd as [n|]; cbn [option_map pseq].
  - specialize (Hn n eq_refl).
    rewrite (forM_check (spatial_entry_ok false (n - 1))).
    + match goal with |- run (if ?b then _ else _) = _ => destruct b; reflexivity end.
    + intros [key m]. unfold spatial_entry_ok. cbn [fst snd andb]. rewrite andb_false_r, <- (Hf key).
      destruct (lookup key feats) as [b|]; [|reflexivity].
      cbn [negb]. destruct (feat_spatial_dims b); cbn [negb]; [|reflexivity].
      destruct m as [c|cs]; [reflexivity|].
      unfold py_len. rewrite dims_eqb by exact Hn. destruct (Nat.eqb (length cs) (n - 1)); reflexivity.
  - unfold haskey, dict_get. destruct (lookup k_pos nm) as [[c|cs]|]; cbn [bind pseq]; [reflexivity| |reflexivity].
    rewrite (forM_check (spatial_entry_ok true (length cs))).
    + match goal with |- run (if ?b then _ else _) = _ => destruct b; reflexivity end.
    + intros [key m]. unfold spatial_entry_ok. cbn [fst snd andb]. rewrite andb_true_r.
      destruct (key =? k_pos); [reflexivity|]. rewrite <- (Hf key).
      destruct (lookup key feats) as [b|]; [|reflexivity].
      cbn [negb]. destruct (feat_spatial_dims b); cbn [negb]; [|reflexivity].
      destruct m as [c|ms]; [reflexivity|].
      rewrite len_eqb. destruct (Nat.eqb (length ms) (length cs)); reflexivity.
Qed.

Lemma listcomp_missing {A} (f : A -> bool) : forall l,
  is_nil (py_listcomp (fun x => x) (fun x => negb (f x)) l) = forallb f l.
Proof.
  unfold py_listcomp. induction l as [|x r IH]; cbn [filter map forallb]; [reflexivity|].
  destruct (f x); cbn [negb andb map is_nil]; [exact IH|reflexivity].
Qed.

(* the messages collected for the sources that do not exist *)
Definition bad_sources (cols : list Z) (kv : Z * src) : list unit :=
  map (fun _ => tt) (filter (fun c => negb (memz c cols)) (sources (snd kv))).

Lemma bad_sources_nil cols : forall nm : name_map,
  is_nil (flat_map (bad_sources cols) nm) = forallb (fun kv => forallb (fun c => memz c cols) (sources (snd kv))) nm.
Proof.
  induction nm as [|kv r IH]; cbn [flat_map forallb]; [reflexivity|].
  rewrite <- IH. unfold bad_sources at 1.
  induction (sources (snd kv)) as [|c cs IHc]; cbn [filter map app forallb]; [reflexivity|].
  destruct (memz c cols); cbn [negb map app is_nil andb]; [exact IHc|reflexivity].
Qed.

Theorem gen_validate_node_name_map_eq :
  forall (nm : name_map) (cols req : list Z) (feats : dict bool) (nd : option nat),
  feats_spec feats -> (forall n, nd = Some n -> (1 <= n)%nat) ->
  G.gen_validate_node_name_map nm cols req (Some feats) (option_map Z.of_nat nd)
  = if validate_name_map req cols nd nm then ROk tt else Raise ValueError.
Proof.
  intros nm cols req feats nd Hf Hn. unfold G.gen_validate_node_name_map, validate_name_map. cbv zeta.
  replace (py_listcomp (fun v_key => v_key) (fun v_key => negb (is_some (lookup v_key nm))) req)
    with (py_listcomp (fun v_key => v_key) (fun v_key => negb (haskey v_key nm)) req) by reflexivity.
  rewrite !(listcomp_missing (fun k => haskey k nm)). fold (required_ok req nm).
  destruct (required_ok req nm); cbn [negb andb]; [|reflexivity].
  (* position *)
  assert (Hp : forall S' R (K : unit -> ctl S' R),
    pseq (if haskey k_pos nm
          then bind (dict_get k_pos nm) (fun v_pos_mapping =>
                 pseq (match v_pos_mapping with
                       | Multi v_pos_mapping0 => if py_len v_pos_mapping0 <? 2 then Exn ValueError else Cont tt
                       | Single _ => Cont tt
                       end) (fun _ => Cont tt))
          else Exn ValueError) K
    = if pos_ok nm then K tt else Exn ValueError).
  { intros. unfold pos_ok, haskey, dict_get. destruct (lookup k_pos nm) as [[c|cs]|]; cbn [bind pseq]; [reflexivity| |reflexivity].
    unfold py_len. destruct (Nat.leb_spec 2 (length cs)) as [H|H].
    - replace (Z.of_nat (length cs) <? 2) with false by (symmetry; apply Z.ltb_ge; lia). reflexivity.
    - replace (Z.of_nat (length cs) <? 2) with true by (symmetry; apply Z.ltb_lt; lia). reflexivity. }
  rewrite Hp. clear Hp. destruct (pos_ok nm); cbn [andb]; [|reflexivity].
  (* sources *)
  assert (Hs : forall S' R (K : unit -> ctl S' R),
    pseq (if negb (is_nil cols)
          then forM nm []
                 (fun '(v_std_key, v_source_prop) v_invalid_mappings =>
                    pseq (match v_source_prop with
                          | Multi v_source_prop0 =>
                              forM v_source_prop0 v_invalid_mappings
                                (fun v_prop v_invalid_mappings0 =>
                                   let v_invalid_mappings1 :=
                                     if negb (memz v_prop cols) then v_invalid_mappings0 ++ [tt] else v_invalid_mappings0 in
                                   Cont v_invalid_mappings1)
                                (fun v_invalid_mappings0 => Cont v_invalid_mappings0)
                          | Single v_source_prop0 =>
                              let v_invalid_mappings0 :=
                                if negb (memz v_source_prop0 cols) then v_invalid_mappings ++ [tt] else v_invalid_mappings in
                              Cont v_invalid_mappings0
                          end) (fun v_invalid_mappings0 => Cont v_invalid_mappings0))
                 (fun v_invalid_mappings => if negb (is_nil v_invalid_mappings) then Exn ValueError else Cont tt)
          else Cont tt) K
    = if sources_ok cols nm then K tt else Exn ValueError).
  { intros. unfold sources_ok. destruct cols as [|c0 cols0]; [reflexivity|]. cbn [is_nil negb]. set (cols := c0 :: cols0).
    rewrite (forM_cont (fun kv acc => acc ++ bad_sources cols kv)).
    - rewrite fold_app_flat_map. cbn [app]. rewrite bad_sources_nil.
      match goal with |- pseq (if negb (forallb ?f ?l) then _ else _) _ = _ => destruct (forallb f l); reflexivity end.
    - intros [k [c|cs]] acc; unfold bad_sources; cbn [snd sources filter map]; cbv zeta.
      + destruct (memz c cols); cbn [negb map pseq]; [now rewrite app_nil_r|reflexivity].
      + rewrite (forM_cont (fun c acc => if negb (memz c cols) then acc ++ [tt] else acc)) by reflexivity.
        cbn [pseq]. f_equal. revert acc. induction cs as [|c r IH]; intros acc; cbn [fold_left filter map]; [now rewrite app_nil_r|].
        rewrite IH. destruct (memz c cols); cbn [negb map]; [reflexivity|now rewrite <- app_assoc]. }
  rewrite Hs. clear Hs. destruct (sources_ok cols nm); cbn [andb]; [|reflexivity].
  cbn [pseq]. rewrite (gen_validate_spatial_dims_in_name_map_eq nm feats nd Hf Hn).
  destruct (spatial_map_ok nd nm); reflexivity.
Qed.

Theorem gen_validate_name_map_eq :
  forall (nm : name_map) (cols req : list Z) (feats : dict bool) (nd : option nat),
  NoDup (keys nm) -> feats_spec feats -> (forall n, nd = Some n -> (1 <= n)%nat) ->
  G.gen_validate_name_map nm cols req feats (option_map Z.of_nat nd)
  = if validate_name_map req cols nd (preprocess nm) then ROk (tt, preprocess nm) else Raise ValueError.
Proof.
  intros nm cols req feats nd Hnd Hf Hn. unfold G.gen_validate_name_map.
  rewrite (gen_preprocess_name_map_eq nm Hnd). cbn [bind].
  rewrite (gen_validate_node_name_map_eq _ cols req feats nd Hf Hn).
  destruct (validate_name_map req cols nd (preprocess nm)); reflexivity.
Qed.

(* ================================================================== *)
(* 11. TracksBuilder.build on a CSV builder  =  ImportTable.import_csv *)
(* ================================================================== *)
Definition res_of_outcome {A} (o : outcome A) : res A :=
  match o with Ok a => ROk a | ValueErr => Raise ValueError | OtherErr _ => Raise KeyError end.

Lemma ls_result {M} (x : res (unit * option Z * option (img M props))) (y : res (nat * list Z * list (Z * Z) * props)) :
  rmap (fun r => (snd (fst r), option_map img_core (snd r))) x = rmap ls_model_view y ->
  match y with
  | ROk (nd, ids, es, ps) => exists meta, x = ROk (tt, Some (Z.of_nat nd), Some (mk_img meta ids es ps []))
  | Raise e => x = Raise e
  end.
Proof.
  destruct x as [[[u ndo] imgo]|e]; destruct y as [[[[nd ids] es] ps]|e']; cbn [rmap ls_model_view fst snd]; intros H; try discriminate.
  - inversion H as [[H1 H2]]. destruct u. destruct imgo as [[m i e p ep]|]; cbn [option_map] in H2; [|discriminate].
    unfold img_core in H2. cbn in H2. inversion H2; subst. now exists m.
  - now inversion H.
Qed.

Lemma csv_load_model_nd_pos ityp nm nd0 df nd ids es ps :
  (forall n, nd0 = Some n -> (1 <= n)%nat) ->
  csv_load_model ityp nm nd0 df = ROk (nd, ids, es, ps) -> (1 <= nd)%nat.
Proof.
  intros Hn. unfold csv_load_model.
  destruct (negb _); [discriminate|].
  destruct (lookup k_id df); [|discriminate]. destruct (lookup k_parent df); [|discriminate].
  destruct (negb ityp && _); [discriminate|]. cbv zeta.
  destruct (ints_of _); [|discriminate]. destruct (edge_tuples _ _); [|discriminate].
  intros H. inversion H; subst. destruct nd0 as [n|]; [now apply Hn|].
  destruct (lookup k_pos nm) as [[c|cs]|]; [destruct (haskey k_z df)|..]; lia.
Qed.

Lemma csv_load_model_errors ityp nm nd0 df e : csv_load_model ityp nm nd0 df = Raise e -> e = ValueError \/ e = KeyError.
Proof.
  unfold csv_load_model.
  destruct (negb _); [intros H; inversion H; auto|].
  destruct (lookup k_id df); [|intros H; inversion H; auto]. destruct (lookup k_parent df); [|intros H; inversion H; auto].
  destruct (negb ityp && _); [intros H; inversion H; auto|]. cbv zeta.
  destruct (ints_of _); [|intros H; inversion H; auto]. destruct (edge_tuples _ _); intros H; inversion H; auto.
Qed.

Lemma csv_load_model_ityp_irrelevant a b nm nd0 df : lookup k_id df = None ->
  csv_load_model a nm nd0 df = csv_load_model b nm nd0 df.
Proof. intros H. unfold csv_load_model. now rewrite H. Qed.

Lemma drop_invalid_answers (trk lin : bool) ids es (ps : props) :
  drop_invalid (trk_answer (fun _ _ _ => trk) ids es ps) (lin_answer (fun _ _ _ => lin) ids es ps) ps = drop_invalid trk lin ps.
Proof.
  unfold drop_invalid, trk_answer, lin_answer, haskey.
  assert (Hl : lookup k_lineage (del k_track ps) = lookup k_lineage ps) by (apply lookup_del_neq; discriminate).
  destruct (lookup k_track ps); destruct (lookup k_lineage ps) eqn:E; destruct trk; cbn [negb andb]; rewrite ?Hl, ?E; reflexivity.
Qed.

Section CsvBuild.
Variables Scale Metadata PropMeta : Type.
Variables ityp trk lin : bool.                      (* the oracle answers the hand model takes *)
Variable newmeta : Metadata.
Variable propsmeta : Z -> prop -> PropMeta.
Variable addmeta : Metadata -> list PropMeta -> Metadata.
Variable settrack : Metadata -> dict Z -> Metadata.
Variable default_features : Z -> dict bool.

Notation gen_build := (G.gen_csv_build Scale Metadata PropMeta (fun _ => ityp) (fun _ _ _ => trk) (fun _ _ _ => lin)
                                       newmeta propsmeta addmeta settrack default_features).

(* the graph handed to SolutionTracks *)
Definition build_graph (r : tracks_args Scale * dict src * option Z * dict bool * option (img Metadata props)) : graph :=
  ta_graph (fst (fst (fst (fst r)))).

(* A fresh CSVTracksBuilder (ndim None, no data loaded, edge_name_map None, required_features
   ["time", "id", "parent_id"], importable_node_props = the columns) whose node_name_map is nm0, built
   from the DataFrame of the table without segmentation / node_features / edge_features: every step up to
   the SolutionTracks constructor.  Hypotheses: a Python dict has pairwise distinct keys; the feature
   tables answer spatial_dims as the model assumes (Position and EllipsoidAxes only). *)
Theorem gen_csv_build_eq : forall (t : table) (nm0 : name_map) (feats0 : dict bool) (scale : option Scale),
  NoDup (keys nm0) -> feats_spec feats0 -> (forall n, feats_spec (default_features n)) ->
  rmap build_graph (gen_build nm0 None feats0 (t_cols t) csv_required None (table_frame t) scale)
  = res_of_outcome (import_csv t ityp trk lin nm0).
Proof.
  intros t nm0 feats0 scale Hnd Hf0 Hfd.
  unfold import_csv. destruct nm0 as [|kv0 r0]; [reflexivity|]. set (nm0 := kv0 :: r0) in *.
  rewrite import_csv_body_decomp. cbv zeta.
  unfold G.gen_csv_build. change (is_nil nm0) with false. cbn [negb].
  (* ndim and the feature table *)
  assert (Hnd0 : forall S' R (K : option Z * dict bool -> ctl S' R),
    pseq (pseq (if haskey k_pos nm0
                then bind (dict_get k_pos nm0) (fun v_pos_mapping =>
                       let v_self_ndim := match v_pos_mapping with
                                          | Multi v_pos_mapping0 => Some (py_len v_pos_mapping0 + 1)
                                          | Single _ => None
                                          end in Cont v_self_ndim)
                else Cont None)
               (fun v_self_ndim =>
                  let v_self_available_computed_features :=
                    match v_self_ndim with Some v_self_ndim0 => default_features v_self_ndim0 | None => feats0 end in
                  Cont (v_self_ndim, v_self_available_computed_features))) K
    = K (option_map Z.of_nat (ndim_of_map nm0),
         match ndim_of_map nm0 with Some n => default_features (Z.of_nat n) | None => feats0 end)).
  { intros. unfold ndim_of_map, haskey, dict_get. destruct (lookup k_pos nm0) as [[c|cs]|]; cbn [bind pseq option_map]; try reflexivity.
    unfold py_len. replace (Z.of_nat (length cs) + 1) with (Z.of_nat (S (length cs))) by lia. reflexivity. }
  rewrite Hnd0. clear Hnd0.
  set (nd0 := ndim_of_map nm0).
  set (feats := match nd0 with Some n => default_features (Z.of_nat n) | None => feats0 end).
  assert (Hf : feats_spec feats) by (unfold feats; destruct nd0; auto).
  assert (Hn0 : forall n, nd0 = Some n -> (1 <= n)%nat).
  { unfold nd0, ndim_of_map. intros n. destruct (lookup k_pos nm0) as [[c|cs]|]; intros H; inversion H; lia. }
  rewrite (gen_validate_name_map_eq nm0 (t_cols t) csv_required feats nd0 Hnd Hf Hn0).
  destruct (validate_name_map csv_required (t_cols t) nd0 (preprocess nm0)); cbn [negb bind]; [|reflexivity].
  set (nm := preprocess nm0).
  (* load_source *)
  match goal with |- context [bind ?X _] =>
    match X with G.gen_csv_load_source _ _ _ _ _ _ _ _ _ _ _ => set (LS := X) end end.
  set (df := rename (table_props t) nm).
  assert (Hls : match csv_load_model (match lookup k_id df with Some _ => ityp | None => true end) nm nd0 df with
                | ROk (nd, ids, es, ps) => exists meta, LS = ROk (tt, Some (Z.of_nat nd), Some (mk_img meta ids es ps []))
                | Raise e => LS = Raise e
                end).
  { apply ls_result. unfold LS, df.
    exact (gen_csv_load_source_table Metadata PropMeta (fun _ => ityp) newmeta propsmeta addmeta settrack t nm nd0 None). }
  clearbody LS.
  assert (Hm : csv_load_model (match lookup k_id df with Some _ => ityp | None => true end) nm nd0 df = csv_load_model ityp nm nd0 df).
  { destruct (lookup k_id df) eqn:E; [reflexivity|now apply csv_load_model_ityp_irrelevant]. }
  rewrite Hm in Hls. clear Hm.
  destruct (csv_load_model ityp nm nd0 df) as [[[[nd ids] es] ps]|e] eqn:Hmodel.
  2:{ rewrite Hls. cbn [bind run rmap]. destruct (csv_load_model_errors _ _ _ _ _ Hmodel) as [-> | ->]; reflexivity. }
  destruct Hls as [meta Hls]. rewrite Hls. cbn [bind].
  pose proof (csv_load_model_nd_pos _ _ _ _ _ _ _ _ Hn0 Hmodel) as Hnd1.
  (* combine, validate, construct, (no) segmentation, SolutionTracks *)
  rewrite gen_combine_multi_value_props_eq. cbn [bind img_node_props]. unfold img_set_node_props.
  cbn [img_metadata img_node_ids img_edge_ids img_edge_props].
  assert (Hv := gen_validate_eq Metadata (fun _ _ _ => trk) (fun _ _ _ => lin) meta ids es (combine_multi nm ps) [] feats (Some nd) Hf).
  cbn [option_map] in Hv. unfold props in Hv. rewrite Hv by (intros n H; inversion H; subst; exact Hnd1). clear Hv.
  unfold finish.
  destruct (negb (spatial_props_ok (Some nd) (combine_multi nm ps))); cbn [bind run rmap]; [reflexivity|].
  destruct (negb (structure_ok ids es)); cbn [bind run rmap]; [reflexivity|].
  rewrite gen_construct_graph_eq. cbn [bind img_node_ids img_edge_ids img_node_props].
  unfold G.gen_handle_segmentation_no_seg. cbn [run bind rmap res_of_outcome].
  unfold build_graph. cbn [fst ta_graph]. rewrite drop_invalid_answers. reflexivity.
Qed.

End CsvBuild.

(* ================================================================== *)
(* 12. the GEFF path: import_graph_from_geff, GeffTracksBuilder.load_source, build = import_geff *)
(* ================================================================== *)
(* the property filter handed to read_to_memory *)
Definition node_filter (nm : name_map) : list Z :=
  fold_left (fun s p => match p with Multi l => py_set_update s l | Single c => py_set_add s c end) (py_values nm) [].
(* the legacy coordinate keys present in the map *)
Definition legacy_coords (nm : name_map) : list Z := filter (fun k => haskey k nm) [k_z; k_y; k_x].

Lemma succ_len (n : nat) : Z.of_nat n + 1 = Z.of_nat (S n).
Proof. lia. Qed.

Lemma prop_eta (p : prop) : mk_prop (np_copy (p_vals p)) (p_miss p) = p.
Proof. destruct p; reflexivity. Qed.

Lemma dictM_if_total (nm : name_map) : forall l acc,
  exists d, dictM_if (fun k => haskey k nm) (fun k => rbind (dict_get k nm) (fun t => ROk t)) l acc = ROk d.
Proof.
  induction l as [|k r IH]; intros acc; cbn [dictM_if]; [now exists acc|].
  unfold haskey, dict_get. destruct (lookup k nm); cbn [rbind]; apply IH.
Qed.

Lemma any_src_none (l : list src) : py_any (fun v => src_is_none v) l = false.
Proof. unfold py_any, src_is_none. induction l; cbn; auto. Qed.

Section Geff.
Variables Metadata Dir : Type.
Variable rd : Dir -> list Z -> option (list Z) -> img Metadata props.

Notation gen_igg := (G.gen_import_graph_from_geff Metadata Dir rd).

(* what import_graph_from_geff returns, in the vocabulary of the model (rename) *)
Definition igg_model (dir : Dir) (nm : name_map) : res (img Metadata props * list Z * Z) :=
  let g := rd dir (node_filter nm) None in
  let ps0 := rename (img_node_props g) nm in
  let g' := img_set_node_props g ps0 in
  match lookup k_pos nm with
  | Some (Multi cs) => ROk (g', cs, Z.of_nat (S (length cs)))
  | Some (Single c) => match lookup k_pos ps0 with
                       | Some p => ROk (g', [c], Z.of_nat (match p_vals p with PV w _ => S w | PS _ => 2%nat end))
                       | None => Raise KeyError
                       end
  | None => ROk (g', legacy_coords nm, Z.of_nat (S (length (legacy_coords nm))))
  end.

Theorem gen_import_graph_from_geff_eq : forall (dir : Dir) (nm : name_map), gen_igg dir nm = igg_model dir nm.
Proof.
  intros dir nm. unfold G.gen_import_graph_from_geff, igg_model. cbv zeta.
  rewrite (forM_cont (fun p s => match p with Multi l => py_set_update s l | Single c => py_set_add s c end)).
  2:{ intros [c|cs] acc; reflexivity. }
  change (fold_left _ (py_values nm) []) with (node_filter nm). unfold py_list_of_set.
  set (g := rd dir (node_filter nm) None).
  match goal with |- context [dictM_if ?c ?f ?l ?a] => destruct (dictM_if_total nm l a) as [d Hd]; rewrite Hd end.
  cbn [bind]. rewrite any_src_none. rewrite gen_flatten_name_map_eq. cbn [bind].
  rewrite (forM_cont (fun ts acc => rename_step (img_node_props g) acc ts)).
  2:{ intros [tk sk] acc. unfold rename_step, haskey, dict_get. cbn [fst snd].
      destruct (lookup sk (img_node_props g)) as [p|]; cbn [andb]; [|reflexivity].
      destruct (lookup tk acc); cbn [negb bind pseq]; [reflexivity|]. now rewrite prop_eta. }
  change (fold_left (fun s x => rename_step (img_node_props g) s x) (flatten nm) []) with (rename (img_node_props g) nm).
  set (ps0 := rename (img_node_props g) nm).
  unfold haskey at 1, dict_get. destruct (lookup k_pos nm) as [[c|cs]|]; cbn [bind pseq run].
  - destruct (lookup k_pos ps0) as [p|]; cbn [bind pseq run]; [|reflexivity].
    destruct (p_vals p) as [v|w v]; cbn [np_ndim_is2]; [reflexivity|]. unfold np_shape1. cbn [width_of]. now rewrite succ_len.
  - unfold py_len. now rewrite succ_len.
  - unfold py_listcomp, legacy_coords, py_len. now rewrite map_id, succ_len.
Qed.

(* GeffTracksBuilder.load_source *)
Theorem gen_geff_load_source_eq : forall img0 pa0 nd (dir : Dir) (nm : name_map),
  G.gen_geff_load_source Metadata Dir rd img0 pa0 nd dir nm
  = rbind (igg_model dir nm) (fun r => ROk (tt, Some (fst (fst r)), snd (fst r),
                                            match nd with Some n => Some n | None => Some (snd r) end)).
Proof.
  intros img0 pa0 nd dir nm. unfold G.gen_geff_load_source. cbv zeta. rewrite gen_import_graph_from_geff_eq.
  destruct (igg_model dir nm) as [[[g pa] n]|e]; cbn [bind rbind run fst snd]; [|reflexivity].
  destruct nd; reflexivity.
Qed.
End Geff.

Section GeffBuild.
Variables Scale Metadata Dir : Type.
Variables trk lin : bool.
Variable default_features : Z -> dict bool.
(* what read_to_memory returned: the model's input on the GEFF path *)
Variable meta : Metadata.
Variable ids : list Z.
Variable es : list (Z * Z).
Variables store eprops : props.

Notation gen_build := (G.gen_geff_build Scale Metadata Dir (fun _ _ _ => trk) (fun _ _ _ => lin)
                                        (fun _ _ _ => mk_img meta ids es store eprops) default_features).

Definition geff_build_graph (r : tracks_args Scale * dict src * option Z * dict bool * option (img Metadata props) * list Z) : graph :=
  ta_graph (fst (fst (fst (fst (fst r))))).

(* A fresh GeffTracksBuilder (ndim None, no data loaded, edge_name_map None, required_features ["time"],
   importable_node_props = the property names of the store) whose node_name_map is nm0, built without
   segmentation / node_features / edge_features. *)
Theorem gen_geff_build_eq : forall (nm0 : name_map) (feats0 : dict bool) (pa0 : list Z) (dir : Dir) (scale : option Scale),
  NoDup (keys nm0) -> feats_spec feats0 -> (forall n, feats_spec (default_features n)) ->
  rmap geff_build_graph (gen_build nm0 None feats0 (keys store) geff_required None pa0 dir scale)
  = res_of_outcome (import_geff ids es store trk lin nm0).
Proof.
  intros nm0 feats0 pa0 dir scale Hnd Hf0 Hfd.
  unfold import_geff. destruct nm0 as [|kv0 r0]; [reflexivity|]. set (nm0 := kv0 :: r0) in *.
  unfold import_geff_body. cbv zeta.
  unfold G.gen_geff_build. change (is_nil nm0) with false. cbn [negb].
  assert (Hnd0 : forall S' R (K : option Z * dict bool -> ctl S' R),
    pseq (pseq (if haskey k_pos nm0
                then bind (dict_get k_pos nm0) (fun v_pos_mapping =>
                       let v_self_ndim := match v_pos_mapping with
                                          | Multi v_pos_mapping0 => Some (py_len v_pos_mapping0 + 1)
                                          | Single _ => None
                                          end in Cont v_self_ndim)
                else Cont None)
               (fun v_self_ndim =>
                  let v_self_available_computed_features :=
                    match v_self_ndim with Some v_self_ndim0 => default_features v_self_ndim0 | None => feats0 end in
                  Cont (v_self_ndim, v_self_available_computed_features))) K
    = K (option_map Z.of_nat (ndim_of_map nm0),
         match ndim_of_map nm0 with Some n => default_features (Z.of_nat n) | None => feats0 end)).
  { intros. unfold ndim_of_map, haskey, dict_get. destruct (lookup k_pos nm0) as [[c|cs]|]; cbn [bind pseq option_map]; try reflexivity.
    unfold py_len. replace (Z.of_nat (length cs) + 1) with (Z.of_nat (S (length cs))) by lia. reflexivity. }
  rewrite Hnd0. clear Hnd0.
  set (nd0 := ndim_of_map nm0).
  set (feats := match nd0 with Some n => default_features (Z.of_nat n) | None => feats0 end).
  assert (Hf : feats_spec feats) by (unfold feats; destruct nd0; auto).
  assert (Hn0 : forall n, nd0 = Some n -> (1 <= n)%nat).
  { unfold nd0, ndim_of_map. intros n. destruct (lookup k_pos nm0) as [[c|cs]|]; intros H; inversion H; lia. }
  rewrite (gen_validate_name_map_eq nm0 (keys store) geff_required feats nd0 Hnd Hf Hn0).
  destruct (validate_name_map geff_required (keys store) nd0 (preprocess nm0)) eqn:Hval; cbn [negb bind]; [|reflexivity].
  set (nm := preprocess nm0) in *.
  rewrite gen_geff_load_source_eq. unfold igg_model. cbv zeta. cbn [img_node_props].
  unfold img_set_node_props. cbn [img_metadata img_node_ids img_edge_ids img_edge_props].
  set (ps0 := rename store nm).
  assert (Hpos : pos_ok nm = true).
  { unfold validate_name_map in Hval. apply andb_true_iff in Hval. destruct Hval as [Hval _].
    apply andb_true_iff in Hval. destruct Hval as [Hval _]. apply andb_true_iff in Hval. now destruct Hval. }
  unfold pos_ok in Hpos.
  (* the rest of build(), for any ndims >= 1 *)
  assert (Htail : forall (pa : list Z) (ndz : nat), (1 <= ndz)%nat ->
    rmap geff_build_graph
      (run (bind (rbind (ROk (mk_img meta ids es ps0 eprops, pa, Z.of_nat ndz))
                        (fun r => ROk (tt, Some (fst (fst r)), snd (fst r),
                                       match option_map Z.of_nat nd0 with Some n => Some n | None => Some (snd r) end)))
                 (fun '(_, v_self_in_memory_geff, v_self_position_attr, v_self_ndim) =>
                    match v_self_in_memory_geff with
                    | None => Exn ValueError
                    | Some v_self_in_memory_geff0 =>
                        bind (G.gen_combine_multi_value_props (img_node_props v_self_in_memory_geff0) nm) (fun '(_, w1) =>
                        bind (ROk (img_set_node_props v_self_in_memory_geff0 w1)) (fun v_self_in_memory_geff1 =>
                        bind (G.gen_validate Metadata (fun _ _ _ => trk) (fun _ _ _ => lin) (Some v_self_in_memory_geff1) feats v_self_ndim)
                             (fun '(_, v_self_in_memory_geff2) =>
                        bind (G.gen_construct_graph Metadata v_self_in_memory_geff2) (fun v_graph =>
                        bind (G.gen_handle_segmentation_no_seg Scale v_graph scale) (fun '(t9, v_graph0) =>
                        let '(v_segmentation_array, v_scale) := t9 in
                        let v_tracks := mk_tracks v_graph0 v_segmentation_array v_self_ndim v_scale in
                        Ret (v_tracks, nm, v_self_ndim, feats, v_self_in_memory_geff2, v_self_position_attr))))))
                    end)))
    = res_of_outcome (finish (match nd0 with Some n => Some n | None => Some ndz end) trk lin ids es (combine_multi nm ps0))).
  { intros pa ndz Hz. cbn [rbind bind fst snd].
    rewrite gen_combine_multi_value_props_eq. cbn [bind img_node_props]. unfold img_set_node_props.
    cbn [img_metadata img_node_ids img_edge_ids img_edge_props].
    set (ndm := match nd0 with Some n => n | None => ndz end).
    assert (Hndm : (1 <= ndm)%nat) by (unfold ndm; destruct nd0; auto).
    replace (match option_map Z.of_nat nd0 with Some n => Some n | None => Some (Z.of_nat ndz) end) with (Some (Z.of_nat ndm))
      by (unfold ndm; destruct nd0; reflexivity).
    replace (match nd0 with Some n => Some n | None => Some ndz end) with (Some ndm) by (unfold ndm; destruct nd0; reflexivity).
    assert (Hv := gen_validate_eq Metadata (fun _ _ _ => trk) (fun _ _ _ => lin) meta ids es (combine_multi nm ps0) eprops feats (Some ndm) Hf).
    cbn [option_map] in Hv. rewrite Hv by (intros n H; injection H as <-; exact Hndm). clear Hv.
    unfold finish.
    destruct (negb (spatial_props_ok (Some ndm) (combine_multi nm ps0))); cbn [bind run rmap]; [reflexivity|].
    destruct (negb (structure_ok ids es)); cbn [bind run rmap]; [reflexivity|].
    rewrite gen_construct_graph_eq. cbn [bind img_node_ids img_edge_ids img_node_props].
    unfold G.gen_handle_segmentation_no_seg. cbn [run bind rmap res_of_outcome].
    unfold geff_build_graph. cbn [fst ta_graph]. rewrite drop_invalid_answers. reflexivity. }
  destruct (lookup k_pos nm) as [[c|cs]|]; [| |discriminate].
  - destruct (lookup k_pos ps0) as [p|]; [|reflexivity].
    rewrite Htail by (destruct (p_vals p); lia). destruct nd0; reflexivity.
  - rewrite Htail by lia. destruct nd0; reflexivity.
Qed.

End GeffBuild.

Print Assumptions gen_axis_names_eq.
Print Assumptions gen_handle_segmentation_spec.
Print Assumptions gen_handle_segmentation_none.
Print Assumptions gen_handle_segmentation_eq.
Print Assumptions gen_flatten_name_map_eq.
Print Assumptions gen_ensure_integer_ids_eq.
Print Assumptions import_csv_body_decomp.
Print Assumptions gen_csv_load_source_eq.
Print Assumptions gen_csv_load_source_table.
Print Assumptions gen_combine_multi_value_props_eq.
Print Assumptions gen_validate_in_memory_geff_eq.
Print Assumptions gen_construct_graph_eq.
Print Assumptions validate_construct_is_finish.
Print Assumptions gen_validate_spatial_dims_eq.
Print Assumptions gen_validate_eq.
Print Assumptions gen_preprocess_name_map_eq.
Print Assumptions gen_validate_spatial_dims_in_name_map_eq.
Print Assumptions gen_validate_node_name_map_eq.
Print Assumptions gen_validate_name_map_eq.
Print Assumptions gen_csv_build_eq.
Print Assumptions gen_import_graph_from_geff_eq.
Print Assumptions gen_geff_load_source_eq.
Print Assumptions gen_geff_build_eq.
Print Assumptions gen_validate_none.
