(* The definition translated from the current import_export/_utils.py
   (Gen/SubsetUtils_gen.v, written by harness/translate_utils.py) IS the hand-written model
   function of Model/SubsetExport.v the C15 theorems are about.  If the source changes its
   behaviour, the equality below stops being provable.

   Hypothesis [incl sel (g_nodes g)]: every selected node is a node of the graph - the
   hypothesis of every C15 theorem (Props/C15.v); without it nx.ancestors raises
   NetworkXError in Python (the generated definition says so, the hand model is total). *)
From Coq Require Import ZArith List Bool Lia.
From FT Require Import Base.Dict Model.PyRt2 Model.SubsetExport Gen.SubsetUtils_gen.
Import ListNotations.
Open Scope Z_scope.

Lemma dmemz_In x l : Dict.memz x l = true <-> In x l.
Proof.
  unfold Dict.memz. rewrite existsb_exists. split.
  - intros [y [Hy E]]. apply Z.eqb_eq in E. subst. exact Hy.
  - intros H. exists x. split; [exact H|apply Z.eqb_refl].
Qed.

(* s.update(l) after set(a) is set(a ++ l) *)
Lemma nodup_app_nodup_l (a b : list Z) :
  nodup Z.eq_dec (nodup Z.eq_dec a ++ b) = nodup Z.eq_dec (a ++ b).
Proof.
  induction a as [|x a IH]; [reflexivity|].
  cbn [nodup app]. destruct (in_dec Z.eq_dec x a) as [Hin|Hnin].
  - destruct (in_dec Z.eq_dec x (a ++ b)) as [_|H]; [exact IH|].
    exfalso. apply H. apply in_or_app. left. exact Hin.
  - cbn [nodup app].
    destruct (in_dec Z.eq_dec x (nodup Z.eq_dec a ++ b)) as [H1|H1];
    destruct (in_dec Z.eq_dec x (a ++ b)) as [H2|H2].
    + exact IH.
    + exfalso. apply H2. apply in_app_or in H1. apply in_or_app.
      destruct H1 as [H1|H1]; [left; rewrite nodup_In in H1; exact H1|right; exact H1].
    + exfalso. apply H1. apply in_app_or in H2. apply in_or_app.
      destruct H2 as [H2|H2]; [left; rewrite nodup_In; exact H2|right; exact H2].
    + rewrite IH. reflexivity.
Qed.

Theorem gen_filter_graph_with_ancestors_eq : forall g sel,
  incl sel (g_nodes g) ->
  gen_filter_graph_with_ancestors g sel = Ok (filter_graph_with_ancestors g sel).
Proof.
  intros g sel Hsel. unfold gen_filter_graph_with_ancestors, filter_graph_with_ancestors.
  unfold set_of_list, list_of_set.
  (* the loop, from any point: what was collected so far is [nodup acc] *)
  match goal with |- run (py_for _ _ ?body ?k) = _ =>
    assert (L : forall todo acc, incl todo (g_nodes g) ->
                run (py_for todo (nodup Z.eq_dec acc) body k)
                = Ok (nodup Z.eq_dec (acc ++ flat_map (ancestors g) todo)))
  end.
  { induction todo as [|n r IH]; intros acc Hin.
    - cbn. rewrite app_nil_r. reflexivity.
    - cbn [py_for flat_map]. unfold nx_ancestors.
      assert (Hn : Dict.memz n (g_nodes g) = true) by (apply dmemz_In, Hin; left; reflexivity).
      rewrite Hn. cbn [bind]. unfold set_update. rewrite nodup_app_nodup_l.
      rewrite IH by (intros x Hx; apply Hin; right; exact Hx).
      rewrite app_assoc. reflexivity. }
  apply L. exact Hsel.
Qed.

(* the order chosen for the Python set does not matter to C15: as sets of nodes *)
Corollary gen_filter_graph_with_ancestors_In : forall g sel keep,
  gen_filter_graph_with_ancestors g sel = Ok keep ->
  incl sel (g_nodes g) ->
  forall n, In n keep <-> In n (filter_graph_with_ancestors g sel).
Proof.
  intros g sel keep H Hsel n. rewrite gen_filter_graph_with_ancestors_eq in H by exact Hsel.
  injection H as <-. reflexivity.
Qed.

(* and without the hypothesis: the Python either raises NetworkXError or returns the model's list *)
Theorem gen_filter_graph_with_ancestors_partial : forall g sel,
  gen_filter_graph_with_ancestors g sel = Raise NetworkXError \/
  gen_filter_graph_with_ancestors g sel = Ok (filter_graph_with_ancestors g sel).
Proof.
  intros g sel. unfold gen_filter_graph_with_ancestors, filter_graph_with_ancestors.
  unfold set_of_list, list_of_set.
  match goal with |- run (py_for _ _ ?body ?k) = _ \/ _ =>
    assert (L : forall todo acc,
                run (py_for todo (nodup Z.eq_dec acc) body k) = Raise NetworkXError \/
                run (py_for todo (nodup Z.eq_dec acc) body k)
                = Ok (nodup Z.eq_dec (acc ++ flat_map (ancestors g) todo)))
  end.
  { induction todo as [|n r IH]; intros acc.
    - right. cbn. rewrite app_nil_r. reflexivity.
    - cbn [py_for flat_map]. unfold nx_ancestors.
      destruct (Dict.memz n (g_nodes g)); cbn [bind]; [|left; reflexivity].
      unfold set_update. rewrite nodup_app_nodup_l, app_assoc. apply IH. }
  apply L.
Qed.

Print Assumptions gen_filter_graph_with_ancestors_eq.
Print Assumptions gen_filter_graph_with_ancestors_In.
Print Assumptions gen_filter_graph_with_ancestors_partial.
