(* Sessions that MIX edits with feature switching (Tracks.enable_features / disable_features) of the
   non-id features: what is proved, what is refuted, what is left open.

   switch_ok o : an OEnable call recomputes (rc = true) and names neither KTrack nor KLin; an ODisable call
   names neither KTrack nor KLin; an edit call is unconstrained.  (rc = true: registering a disabled feature
   without recomputation makes stale values "active"; the id keys: Proofs/ToggleRefuted.v.)
   Side facts threaded through a session: side_ok st = cfg_keys st (Proofs/ToggleProofs.v, the standing
   configuration hypothesis of the C10 statements: rp_all consists of regionprops keys, without duplicates,
   rp_act among rp_all, iou_act -> iou_avail) /\ reg_ok st /\ rp_disjoint st /\ rp_decl st.
   cfg_keys is the one EXTRA side condition: without it rp_all may contain KTime, a switch may then
   unregister the time, and cfg_ok is lost.  It implies rp_disjoint and rp_decl.

   PROVED (sections 1, 2, 6)
   (1) one switch call: enable_step_WF, disable_step_WF (WF is kept), en_side, dis_side (side_ok is kept),
       switch_step2 (the interpreter step: WF, side_ok, both stacks and the array unchanged; a refused call
       returns the state itself: enable_refused, disable_refused).
   (1') edit_step_nohist: one edit call other than undo / redo keeps WF and side_ok whatever the two stacks hold.
   (3a) session_toggle_nohist_reachable_WF / session_toggle_sandwich_reachable_WF (UNCONDITIONAL):
       every state reached along   switches ++ (edits with undo / redo) ++ (any mix of switches and edits
       in which nothing is undone or redone)   is well formed.  Non-vacuity: session_toggle_sandwich_nonvacuous.

   REFUTED (section 4): session_toggle_refuted_noseg.  The mixed theorem with undo / redo after a switch is
   FALSE under the hypotheses WF, cfg_keys, reg_ok, rp_disjoint, rp_decl, empty stacks, switch_ok,
   preconditions along the run, when seg = None but the configuration declares regionprops keys
   (rp_all contains the position key; the record feats does not tie rp_all to the presence of an array).
   Witness: exs without its array; ODelEdge 1 3; ODelNode 2; OAddNode 5 {time 1, track 1, pos} None;
   ODisable [KPos]; OUndo; ORedo.  The undo deletes node 5 and saves its REGISTERED attributes (the position
   no longer is one); the redo removes 1 -> 4, then AddNode(5) raises ValueError (no position, no pixels)
   in the middle of the group: codes [0;0;0;0;1;12], nodes 1 and 4 are two heads with track id 1, W_trk fails.
   In the implementation there is no RegionpropsAnnotator without a segmentation (disable_features(["pos"])
   is a KeyError there), so this is an artefact of the model's hypotheses, not a defect to replay; a faithful
   extra hypothesis would be   seg st0 = None -> rp_all (ft st0) = [] /\ iou_avail (ft st0) = false.

   CONDITIONAL (section 5), i.e. what is MISSING for the full mixed theorem:
   session_toggle_reachable_WF_conditional proves the full statement (any interleaving, undo / redo after
   switches) from the hypothesis transport_along: at every switch call o of the run, in state st with
   reference timeline t (transport_ok o st t),
     (a) every recorded action a IN THE TWO STACKS with TrW a x y between timeline states x, y stays a
         consistent transition between the switched states: Consistent SI a (sw o x) (sw o y);
     (b) obs_eq st e -> obs_eq (sw o st) (sw o e) for the timeline states e.
   Everything else of the induction is proved (switch_session: the history invariant HInv of
   Proofs/EditSessions.v is mapped state by state through the switch; step2_session; run2_session).
   Why (a) is not proved: the invariant of session_all_reachable_WF is HInv over eqvI SI / TrW, and
   obs_eq contains ft s' = ft s and quantifies the registered keys of ft, so every timeline state has to be
   switched too, and Consistent SI a x y is an abstract statement about inv_action on ALL SI states that look
   like y.  Transporting it needs a simulation of inv_basic between two feature tables (rp_update /
   iou_update_edges / saved_attrs read rp_act, iou_act, reg_node, reg_edge), including the returned
   actions, whose saved attributes differ; with seg = None it is false (the refutation above), with an
   array the executable model gave no counterexample on the sessions tried (undo / redo across disable /
   enable of KPos, KArea, KIou after strokes, node and edge deletions).  transport_ok_fresh: (a), (b) hold
   trivially while the history is empty. *)
From Coq Require Import ZArith List Bool Lia.
From FT Require Import Base.Dict Model.Edit Model.EditExec Model.Toggle Model.ToggleExec Proofs.DictLemmas Proofs.EditInv
  Proofs.EditBook Proofs.EditFresh Proofs.EditInverse Proofs.EditSessions Proofs.EditSessionsFull Proofs.EditSessionsAll
  Proofs.ToggleProofs Proofs.EditInit.
From FT Require Proofs.EditSeg Proofs.EditCtor Proofs.EditWFEdge Proofs.EditWFNode Proofs.EditWFPaint Proofs.EditWFPaintRollback
  Proofs.EditFrame Proofs.HistoryGeneric Proofs.EditSegExample.
Import ListNotations.
Open Scope Z_scope.

(* ================================================================== *)
(* 0. the calls                                                         *)
(* ================================================================== *)
Definition switch_ok (o : op2) : Prop :=
  match o with
  | OEnable ks rc _ _ => rc = true /\ ~ In KTrack ks /\ ~ In KLin ks
  | ODisable ks => ~ In KTrack ks /\ ~ In KLin ks
  | OEdit _ => True
  end.

Definition run2 (st : state) (ops : list op2) : state := fold_left (fun s o => fst (step2 s o)) ops st.

Lemma run2_app st l1 l2 : run2 st (l1 ++ l2) = run2 (run2 st l1) l2.
Proof. unfold run2. apply fold_left_app. Qed.
Lemma run2_cons st o r : run2 st (o :: r) = run2 (fst (step2 st o)) r.
Proof. reflexivity. Qed.
Lemma run2_edits st l : run2 st (map OEdit l) = run st l.
Proof. revert st. induction l as [|o r IH]; intros st; [reflexivity|]. cbn [map]. rewrite run2_cons. cbn [step2]. apply IH. Qed.

(* ================================================================== *)
(* 1. one switch step                                                   *)
(* ================================================================== *)
(* refused calls change nothing *)
Lemma enable_refused st ks rc ctrk clin e s : enable_features st ks rc ctrk clin = Err e s -> s = st.
Proof. unfold enable_features. destruct (negb _); [intros H; now injection H as _ <-|destruct rc; discriminate]. Qed.
Lemma disable_refused st ks e s : disable_features st ks = Err e s -> s = st.
Proof. unfold disable_features. destruct (negb _); [intros H; now injection H as _ <-|discriminate]. Qed.

(* the keys of an accepted non-id switch are regionprops keys or the IoU: never KTime, KTrack, KLin *)
Lemma switch_keys_not_id st ks k : cfg_keys st -> (forall k, In k ks -> In k (available st)) ->
  ~ In KTrack ks -> ~ In KLin ks -> In k ks -> k <> KTime /\ k <> KTrack /\ k <> KLin.
Proof.
  intros C Hav H1 H2 Hk. split; [exact (available_not_time st k C (Hav k Hk))|]. split; intros ->; contradiction.
Qed.

(* a change of node attributes outside the id keys and of the IoU of edges keeps the structural conjuncts of WF *)
Section Chg.
Variables (K : Z -> Prop) (st st' : state).
Hypothesis HK : forall k, K k -> k <> KTime /\ k <> KTrack /\ k <> KLin.
Hypothesis C : chg K st st'.

Let CT : chg (fun k => k <> KTime) st st'.
Proof. eapply chg_weaken; [|exact C]. intros k Hk. now destruct (HK k Hk). Qed.

Lemma chgk_attr n k : k = KTime \/ k = KTrack \/ k = KLin -> attr st' n k = attr st n k.
Proof. intros Hk. apply (ch_attr _ _ _ C). intros H. destruct (HK k H) as (A1 & A2 & A3). destruct Hk as [E|[E|E]]; congruence. Qed.
Lemma chgk_trk n : trk st' n = trk st n.
Proof. unfold trk, zattr. now rewrite chgk_attr by auto. Qed.
Lemma chgk_lin n : lin st' n = lin st n.
Proof. unfold lin, zattr. now rewrite chgk_attr by auto. Qed.
Lemma chgk_node n : is_node st' n <-> is_node st n.
Proof. exact (chg_is_node K st st' n C). Qed.
Lemma chgk_edge u v : edge st' u v <-> edge st u v.
Proof. exact (chg_edge K st st' u v C). Qed.
Lemma chgk_divides u : divides st' u <-> divides st u.
Proof. unfold divides. now rewrite (ch_succ _ _ _ C). Qed.

Lemma W_dict_chg : W_dict st -> W_dict st'.
Proof.
  intros [D1 D2 D3 D4 D5 D6 D7 D8 D9]. constructor.
  - unfold node_ids in *. fold (node_ids st'). now rewrite (ch_ids _ _ _ C).
  - now rewrite (ch_skeys _ _ _ C).
  - intros n. rewrite chgk_node, <- D3. rewrite !haskey_keys. now rewrite (ch_skeys _ _ _ C).
  - intros u. rewrite (ch_succ _ _ _ C). apply D4.
  - intros u v He. rewrite !chgk_node. apply D5. now apply chgk_edge.
  - intros n Hn. rewrite chgk_attr by auto. apply D6. now apply chgk_node.
  - intros n Hn. rewrite chgk_attr by auto. apply D7. now apply chgk_node.
  - intros n Hn. rewrite chgk_attr by auto. apply D8. now apply chgk_node.
  - intros n. apply (ch_nodup _ _ _ C), D9.
Qed.

Lemma W_trk_chg : W_trk st -> W_trk st'.
Proof.
  intros [T1 T2].
  assert (Hh : forall a, head st' a -> head st a).
  { intros a [Na Pa]. split; [now apply chgk_node|]. intros p Hp. apply chgk_divides, Pa. now apply chgk_edge. }
  constructor.
  - intros u v He Hnd. rewrite !chgk_trk. apply T1; [now apply chgk_edge|]. intros D. apply Hnd. now apply chgk_divides.
  - intros a b Ha Hb E. rewrite !chgk_trk in E. apply T2; auto.
Qed.

Lemma W_lin_chg : W_lin st -> W_lin st'.
Proof.
  intros [L1 L2].
  assert (Hr : forall a, root st' a -> root st a).
  { intros a [Na Pa]. split; [now apply chgk_node|]. intros p Hp. apply (Pa p). now apply chgk_edge. }
  constructor.
  - intros u v He. rewrite !chgk_lin. apply L1. now apply chgk_edge.
  - intros a b Ha Hb E. rewrite !chgk_lin in E. apply L2; auto.
Qed.

Lemma W_book_chg : bk st' = bk st -> W_book st -> W_book st'.
Proof.
  intros Eb [B1 B2]. unfold W_book. rewrite Eb. split.
  - apply (EditCtor.book_ok_ext st st' _ (trk st) (trk st')); [exact chgk_node|exact chgk_trk|exact B1].
  - apply (EditCtor.book_ok_ext st st' _ (lin st) (lin st')); [exact chgk_node|exact chgk_lin|exact B2].
Qed.

Lemma WF_chg : bk st' = bk st -> cfg_ok st' -> W_fresh st' -> WF st -> WF st'.
Proof.
  intros Eb Cfg Fr [_ WD WFo WT WL WB WS _]. constructor.
  - exact Cfg.
  - now apply W_dict_chg.
  - exact (W_forest_chg st st' CT WFo).
  - now apply W_trk_chg.
  - now apply W_lin_chg.
  - now apply W_book_chg.
  - exact (W_seg_chg st st' CT WS).
  - exact Fr.
Qed.
End Chg.

(* the side facts the session theorem threads, as one record (cfg_keys of Proofs/ToggleProofs.v contains rp_decl) *)
Definition side_ok (st : state) : Prop := cfg_keys st /\ reg_ok st /\ rp_disjoint st /\ rp_decl st.

Lemma cfg_keys_rp_disjoint st : cfg_keys st -> rp_disjoint st.
Proof.
  intros C k Hk Hin. apply (ck_act st C) in Hin. destruct (cfg_rp_not_special st k C Hin) as (_ & A1 & A2 & A3).
  destruct Hk as [E|[E|E]]; congruence.
Qed.
Lemma cfg_keys_rp_decl st : cfg_keys st -> rp_decl st.
Proof. intros C k. apply (ck_act st C). Qed.

(* ---- enable_features with recomputation, no id key ---- *)
Section EnableStep.
Variables (st : state) (ks : list Z) (ctrk clin : list (list Z)) (st' : state).
Hypothesis C : cfg_keys st.
Hypothesis Hen : enable_features st ks true ctrk clin = Ok tt st'.
Hypothesis HT : ~ In KTrack ks.
Hypothesis HL : ~ In KLin ks.

Let f' := register (set_flags (ft st) ks true) ks.

Lemma en_ft : ft st' = f'.
Proof. exact (enable_ft _ _ _ _ _ _ Hen). Qed.
Lemma en_keys k : In k ks -> k <> KTime /\ k <> KTrack /\ k <> KLin.
Proof. apply (switch_keys_not_id st ks k C (enable_ok_avail _ _ _ _ _ _ Hen) HT HL). Qed.
Lemma en_chg : chg (fun k => In k ks) st st'.
Proof. exact (chg_enable _ _ _ _ _ Hen). Qed.
Lemma en_bk : bk st' = bk st.
Proof.
  destruct (enable_bk_other _ _ _ _ _ Hen) as [A B]. destruct (A HT) as [A1 A2]. destruct (B HL) as [B1 B2].
  destruct (bk st') as [a b c d], (bk st) as [a0 b0 c0 d0]. cbn in *. congruence.
Qed.
Lemma en_stacks : undo_stack st' = undo_stack st /\ redo_stack st' = redo_stack st.
Proof. destruct (ch_hist _ _ _ en_chg) as (A & B & _). auto. Qed.
Lemma en_seg : seg st' = seg st.
Proof. exact (ch_seg _ _ _ en_chg). Qed.

Lemma en_cfg_keys : cfg_keys st'.
Proof. apply (cfg_keys_set_flags st st' ks true (fun f => register f ks)); [exact en_ft|reflexivity|reflexivity|reflexivity|reflexivity|exact C]. Qed.

Lemma en_cfg_ok : cfg_ok st -> cfg_ok st'.
Proof.
  intros (A1 & A2 & A3 & A4 & A5). unfold cfg_ok. rewrite en_ft. unfold f'. cbn [register set_flags trk_act lin_act].
  apply memz_false in HT. apply memz_false in HL. rewrite HT, HL.
  split; [exact A1|]. split; [exact A2|]. rewrite !register_node_In. cbn [set_flags reg_node]. auto.
Qed.

Lemma en_reg_ok : reg_ok st -> reg_ok st'.
Proof.
  intros [R1 R2]. unfold reg_ok. rewrite en_ft. unfold f'. split.
  - intros k Hk. cbn [register rp_act] in Hk. apply set_flags_rp_act in Hk. destruct Hk as [Hall Hk].
    apply register_node_In. cbn [set_flags reg_node]. destruct (memz k ks) eqn:E.
    + right. split; [now apply memz_In|]. destruct (cfg_rp_not_special st k C Hall) as (A & _). unfold is_edge_key. now apply Z.eqb_neq.
    + left. now apply R1.
  - cbn [register iou_act set_flags]. intros Ha. apply register_edge_In. cbn [set_flags reg_edge].
    destruct (memz KIou ks && iou_avail (ft st)) eqn:E.
    + right. apply andb_true_iff in E. destruct E as [E _]. split; [now apply memz_In|reflexivity].
    + left. now apply R2.
Qed.

Lemma en_side : side_ok st -> side_ok st'.
Proof.
  intros (_ & R & _ & _). pose proof en_cfg_keys as C'.
  split; [exact C'|]. split; [now apply en_reg_ok|]. split; [now apply cfg_keys_rp_disjoint|now apply cfg_keys_rp_decl].
Qed.

Lemma en_fresh : W_dict st -> W_forest st -> W_seg st -> W_fresh st -> W_fresh st'.
Proof.
  intros WD WFo WS Fr. apply W_fresh_split. apply W_fresh_split in Fr. destruct Fr as [Fr Fi].
  destruct (seg st) as [sg|] eqn:Hs.
  2:{ unfold rp_fresh, iou_fresh. rewrite en_seg, Hs. auto. }
  split; [exact (enable_rp_fresh_thm st sg ks ctrk clin st' C Hs WS Hen Fr)|].
  destruct (in_dec Z.eq_dec KIou ks) as [Hi|Hni].
  - exact (enable_iou_fresh_thm st sg ks ctrk clin st' C Hs WS Hen Hi WD WFo).
  - pose proof (enable_succs_noiou _ _ _ _ _ Hen Hni) as Es.
    unfold iou_fresh in *. rewrite en_seg, Hs. rewrite Hs in Fi. rewrite en_ft. unfold f'. cbn [register iou_act set_flags].
    apply memz_false in Hni. rewrite Hni. cbn [andb]. intros Ha u v He.
    assert (CT : chg (fun k => k <> KTime) st st').
    { eapply chg_weaken; [|exact en_chg]. intros k Hk. now destruct (en_keys k Hk). }
    assert (Ee : edge_attrs st' u v = edge_attrs st u v) by (unfold edge_attrs, adj; now rewrite Es).
    rewrite Ee. rewrite (Fi Ha u v (proj1 (chg_edge _ st st' u v en_chg) He)). f_equal. symmetry.
    apply iou_of_ext; try reflexivity; apply (chg_time st st' _ CT).
Qed.

Theorem enable_step_WF : WF st -> WF st'.
Proof.
  intros W. apply (WF_chg (fun k => In k ks) st st' en_keys en_chg en_bk); [apply en_cfg_ok, W| |exact W].
  apply en_fresh; apply W.
Qed.
End EnableStep.

(* ---- disable_features, no id key ---- *)
Section DisableStep.
Variables (st : state) (ks : list Z) (st' : state).
Hypothesis C : cfg_keys st.
Hypothesis Hdis : disable_features st ks = Ok tt st'.
Hypothesis HT : ~ In KTrack ks.
Hypothesis HL : ~ In KLin ks.

Let f' := unregister (set_flags (ft st) ks false) ks.

Lemma dis_eq : st' = upd_ft st f'.
Proof. revert Hdis. unfold disable_features. destruct (negb _); [discriminate|]. intros H. now injection H as <-. Qed.
Lemma dis_ft : ft st' = f'.
Proof. now rewrite dis_eq. Qed.
Lemma dis_g : g st' = g st.
Proof. now rewrite dis_eq. Qed.
Lemma dis_seg : seg st' = seg st.
Proof. now rewrite dis_eq. Qed.
Lemma dis_bk : bk st' = bk st.
Proof. now rewrite dis_eq. Qed.
Lemma dis_stacks : undo_stack st' = undo_stack st /\ redo_stack st' = redo_stack st.
Proof. now rewrite dis_eq. Qed.
Lemma dis_keys k : In k ks -> k <> KTime /\ k <> KTrack /\ k <> KLin.
Proof. apply (switch_keys_not_id st ks k C (disable_ok_avail _ _ _ Hdis) HT HL). Qed.

Lemma dis_cfg_keys : cfg_keys st'.
Proof. apply (cfg_keys_set_flags st st' ks false (fun f => unregister f ks)); [exact dis_ft|reflexivity|reflexivity|reflexivity|reflexivity|exact C]. Qed.

Lemma dis_cfg_ok : cfg_ok st -> cfg_ok st'.
Proof.
  intros (A1 & A2 & A3 & A4 & A5). unfold cfg_ok. rewrite dis_ft. unfold f'. cbn [unregister set_flags trk_act lin_act].
  pose proof HT as HT'. pose proof HL as HL'. apply memz_false in HT'. apply memz_false in HL'. rewrite HT', HL'.
  split; [exact A1|]. split; [exact A2|]. rewrite !unregister_node_In. cbn [set_flags reg_node].
  assert (Hti : ~ In KTime ks) by (intros H; now destruct (dis_keys _ H)). auto.
Qed.

Lemma dis_reg_ok : reg_ok st -> reg_ok st'.
Proof.
  intros [R1 R2]. unfold reg_ok. rewrite dis_ft. unfold f'. split.
  - intros k Hk. cbn [unregister rp_act] in Hk. apply set_flags_rp_act in Hk. destruct Hk as [Hall Hk].
    apply unregister_node_In. cbn [set_flags reg_node]. destruct (memz k ks) eqn:E; [discriminate Hk|].
    apply memz_false in E. auto.
  - cbn [unregister iou_act set_flags]. intros Ha. apply unregister_edge_In. cbn [set_flags reg_edge].
    destruct (memz KIou ks && iou_avail (ft st)) eqn:E; [discriminate Ha|]. split; [now apply R2|].
    intros Hin. apply memz_In in Hin. rewrite Hin in E. cbn [andb] in E.
    pose proof (ck_iou st C Ha). congruence.
Qed.

Lemma dis_side : side_ok st -> side_ok st'.
Proof.
  intros (_ & R & _ & _). pose proof dis_cfg_keys as C'.
  split; [exact C'|]. split; [now apply dis_reg_ok|]. split; [now apply cfg_keys_rp_disjoint|now apply cfg_keys_rp_decl].
Qed.

Lemma dis_fresh : W_fresh st -> W_fresh st'.
Proof.
  unfold W_fresh. rewrite dis_seg. destruct (seg st) as [sg|]; [|auto]. intros [F1 F2]. rewrite dis_ft. split.
  - intros n k Hn Hk. unfold f' in Hk. cbn [unregister rp_act] in Hk. apply set_flags_rp_act in Hk. destruct Hk as [_ Hk].
    destruct (memz k ks); [discriminate Hk|].
    assert (E : forall m j, attr st' m j = attr st m j) by (intros m j; unfold attr, node_attrs; now rewrite dis_g).
    assert (Et : time_of st' n = time_of st n) by (unfold time_of, zattr; now rewrite E).
    rewrite E, Et. apply F1; [|exact Hk]. unfold is_node, node_ids in *. now rewrite dis_g in Hn.
  - unfold f'. cbn [unregister iou_act set_flags]. intros Ha u v He.
    destruct (memz KIou ks && iou_avail (ft st)); [discriminate Ha|].
    assert (Ee : edge_attrs st' u v = edge_attrs st u v) by (unfold edge_attrs, adj; now rewrite dis_g).
    assert (Et : forall m, time_of st' m = time_of st m) by (intros m; unfold time_of, zattr, attr, node_attrs; now rewrite dis_g).
    rewrite Ee. rewrite (F2 Ha u v); [|unfold edge, has_edge, adj in *; now rewrite dis_g in He]. f_equal. symmetry.
    apply iou_of_ext; try reflexivity; apply Et.
Qed.

Theorem disable_step_WF : WF st -> WF st'.
Proof.
  intros W.
  assert (CH : chg (fun _ => False) st st').
  { rewrite dis_eq. apply chg_same_g; reflexivity. }
  apply (WF_chg (fun _ => False) st st' (fun k (F : False) => match F with end) CH dis_bk); [apply dis_cfg_ok, W| |exact W].
  apply dis_fresh, W.
Qed.
End DisableStep.

(* ---- the two calls as interpreter steps ---- *)
Definition is_switch (o : op2) : bool := match o with OEdit _ => false | _ => true end.

Theorem switch_step2 st o : is_switch o = true -> switch_ok o -> WF st -> side_ok st ->
  let s := fst (step2 st o) in
  WF s /\ side_ok s /\ undo_stack s = undo_stack st /\ redo_stack s = redo_stack st /\ seg s = seg st.
Proof.
  intros Hs Hok W S. pose proof S as (C & _). destruct o as [o|ks rc ctrk clin|ks]; [discriminate Hs| |]; cbn [step2 switch_ok] in *.
  - destruct Hok as (-> & HT & HL).
    destruct (enable_features st ks true ctrk clin) as [[] s|e s] eqn:E; cbn [fin fst].
    + destruct (en_stacks st ks ctrk clin s E) as [Eu Er].
      split; [exact (enable_step_WF st ks ctrk clin s C E HT HL W)|]. split; [exact (en_side st ks ctrk clin s C E S)|].
      split; [exact Eu|]. split; [exact Er|exact (en_seg st ks ctrk clin s E)].
    + rewrite (enable_refused _ _ _ _ _ _ _ E). auto.
  - destruct Hok as (HT & HL).
    destruct (disable_features st ks) as [[] s|e s] eqn:E; cbn [fin fst].
    + destruct (dis_stacks st ks s E) as [Eu Er].
      split; [exact (disable_step_WF st ks s C E HT HL W)|]. split; [exact (dis_side st ks s C E S)|].
      split; [exact Eu|]. split; [exact Er|exact (dis_seg st ks s E)].
    + rewrite (disable_refused _ _ _ _ E). auto.
Qed.

(* an edit call that is neither undo nor redo: one-step preservation, no history needed *)
Lemma side_ok_ft s s' : ft s' = ft s -> side_ok s -> side_ok s'.
Proof.
  intros E (C & R & P & D). split; [exact (cfg_keys_ft s s' E C)|]. split; [exact (EditWFPaintRollback.reg_ok_ft s s' E R)|].
  split; [exact (EditWFNode.rp_disjoint_ft s s' E P)|]. unfold rp_decl. now rewrite E.
Qed.

Definition no_hist (o : op2) : Prop := o <> OEdit OUndo /\ o <> OEdit ORedo.

Theorem edit_step_nohist st o : o <> OUndo -> o <> ORedo -> WF st -> side_ok st -> EditWFNode.op_pre st o ->
  WF (fst (step st o)) /\ side_ok (fst (step st o)).
Proof.
  intros Hu Hr W S P. split; [|exact (side_ok_ft st _ (step_ft st o) S)]. destruct S as (C & R & D & Dl).
  destruct o; try (now elim Hu); try (now elim Hr).
  all: try (match goal with |- WF (fst (step _ ?o)) => exact (proj1 (EditWFPaintRollback.step_paint_WF_all st o eq_refl P W D R)) end).
  apply EditWFEdge.step_edge_attr_WF; [reflexivity| |exact W]. cbn [EditWFEdge.op_guard]. now apply EditWFEdge.rp_guard_incl.
Qed.

(* ================================================================== *)
(* 2. mixed sessions                                                    *)
(* ================================================================== *)
Definition op2_pre (st : state) (o : op2) : Prop := match o with OEdit e => op_pre_all st e | _ => True end.
Definition pre_along2 (st : state) (ops : list op2) : Prop :=
  forall pre o post, ops = pre ++ o :: post -> op2_pre (run2 st pre) o.

Lemma pre_along2_tail st o r : pre_along2 st (o :: r) -> pre_along2 (fst (step2 st o)) r.
Proof.
  intros H pre o' post E. specialize (H (o :: pre) o' post). cbn [app] in H. rewrite run2_cons in H. apply H. now rewrite E.
Qed.

(* one call of a session without undo / redo *)
Theorem step2_nohist st o : switch_ok o -> no_hist o -> op2_pre st o -> WF st -> side_ok st ->
  WF (fst (step2 st o)) /\ side_ok (fst (step2 st o)).
Proof.
  intros Hok [N1 N2] P W S. destruct o as [e|ks rc ctrk clin|ks].
  - cbn [step2]. destruct P as [P _]. apply edit_step_nohist; auto; intros ->; [now apply N1|now apply N2].
  - destruct (switch_step2 st (OEnable ks rc ctrk clin) eq_refl Hok W S) as (A & B & _). auto.
  - destruct (switch_step2 st (ODisable ks) eq_refl Hok W S) as (A & B & _). auto.
Qed.

Theorem run2_nohist : forall pre post st, WF st -> side_ok st -> Forall switch_ok (pre ++ post) -> Forall no_hist (pre ++ post) ->
  pre_along2 st (pre ++ post) -> WF (run2 st pre) /\ side_ok (run2 st pre).
Proof.
  induction pre as [|o r IH]; intros post st W S Hok Hno Hpre; [auto|].
  cbn [app] in *. inversion Hok as [|? ? Ho Hr]; subst. inversion Hno as [|? ? No Nr]; subst.
  destruct (step2_nohist st o Ho No (Hpre [] o (r ++ post) eq_refl) W S) as [W1 S1].
  rewrite run2_cons. apply (IH post); auto. now apply pre_along2_tail.
Qed.

Lemma run_ft ops : forall st, ft (run st ops) = ft st.
Proof. induction ops as [|o r IH]; intros st; [reflexivity|]. change (run st (o :: r)) with (run (fst (step st o)) r). now rewrite IH, step_ft. Qed.

(* UNCONDITIONAL: an edit session with undo / redo (Proofs/EditSessionsAll.v), followed by any mix of
   switches and edits in which nothing is undone or redone *)
Section SessionNoHist.
  Variables (st0 : state) (edits : list op) (rest : list op2).
  Hypothesis W0 : WF st0.
  Hypothesis S0 : side_ok st0.
  Hypothesis Hu : undo_stack st0 = [].
  Hypothesis Hr : redo_stack st0 = [].
  Hypothesis Hok : Forall switch_ok rest.
  Hypothesis Hno : Forall no_hist rest.
  Hypothesis Hpre : pre_along2 st0 (map OEdit edits ++ rest).

  Lemma snh_edits : pre_along_all st0 edits.
  Proof.
    intros p o q E. specialize (Hpre (map OEdit p) (OEdit o) (map OEdit q ++ rest)).
    rewrite run2_edits in Hpre. apply Hpre. rewrite E, map_app. cbn [map]. now rewrite <- app_assoc.
  Qed.

  Theorem session_toggle_nohist_reachable_WF pre post : map OEdit edits ++ rest = pre ++ post -> WF (run2 st0 pre).
  Proof.
    intros E. destruct S0 as (C0 & R0 & P0 & D0). destruct (app_eq_app _ _ _ _ E) as [m [[E1 E2]|[E1 E2]]].
    - destruct (map_eq_app _ _ _ _ E1) as (p1 & p2 & Ee & <- & _). rewrite run2_edits.
      exact (session_all_reachable_WF st0 edits W0 R0 P0 D0 Hu Hr snh_edits p1 p2 Ee).
    - subst pre. rewrite run2_app, run2_edits.
      assert (W1 : WF (run st0 edits)) by exact (session_all_WF st0 edits W0 R0 P0 D0 Hu Hr snh_edits).
      assert (S1 : side_ok (run st0 edits)) by (apply (side_ok_ft st0); [apply run_ft|exact S0]).
      rewrite E2 in Hok, Hno. apply (run2_nohist m post (run st0 edits) W1 S1 Hok Hno).
      intros p o q Eq. specialize (Hpre (map OEdit edits ++ p) o q). rewrite run2_app, run2_edits in Hpre. apply Hpre.
      now rewrite E2, Eq, <- app_assoc.
  Qed.
End SessionNoHist.

(* ================================================================== *)
(* 3. a decidable sufficient condition for the preconditions along a mixed run *)
(* ================================================================== *)
Definition present (o : option value) : bool := match o with Some VNone => false | Some _ => true | None => false end.
Lemma present_spec o : present o = true -> exists v, o = Some v /\ v <> VNone.
Proof. destruct o as [[]|]; cbn; try discriminate; intros _; eexists; split; try reflexivity; discriminate. Qed.

Definition op_pre2c (st : state) (o : op) : bool :=
  match o with
  | ODelNode n => match seg st with Some _ => true | None =>
                    forallb (fun k => memz k (reg_node (ft st)) && present (attr st n k)) (pos_keys (ft st)) end
  | OAddNode n a px _ => match seg st with Some _ => true | None =>
                    forallb (fun k => memz k (reg_node (ft st)) && present (lookup k a)) (pos_keys (ft st)) end
  | _ => true
  end.
Lemma op_pre2c_spec st o : op_pre2c st o = true -> op_pre2 st o.
Proof.
  destruct o; cbn [op_pre2c op_pre2]; try (intros _; exact Logic.I).
  - destruct (seg st); [intros _ Hc; discriminate Hc|]. intros H _ k Hk. rewrite forallb_forall in H. specialize (H k Hk).
    apply andb_true_iff in H. destruct H as [H1 H2]. split; [now apply memz_In|now apply present_spec].
  - unfold pos_ok. destruct (seg st); [intros _ Hc; discriminate Hc|]. intros H _ k Hk. rewrite forallb_forall in H. specialize (H k Hk).
    apply andb_true_iff in H. destruct H as [H1 H2]. split; [now apply memz_In|now apply present_spec].
Qed.

Fixpoint pre_alongb3 (st : state) (ops : list op2) : bool :=
  match ops with
  | [] => true
  | o :: r => (match o with OEdit e => EditWFNode.op_preb st e && op_pre2c st e | _ => true end) && pre_alongb3 (fst (step2 st o)) r
  end.
Lemma pre_alongb3_spec : forall ops st, pre_alongb3 st ops = true -> pre_along2 st ops.
Proof.
  induction ops as [|o r IH]; intros st H pre o' post E; [destruct pre; discriminate E|].
  cbn [pre_alongb3] in H. apply andb_true_iff in H. destruct H as [H Hr].
  destruct pre as [|x pre]; cbn [app] in E; injection E as <- E.
  - unfold run2. cbn [fold_left]. destruct o as [e| |]; cbn [op2_pre]; try exact Logic.I.
    apply andb_true_iff in H. destruct H as [H1 H2]. split; [now apply EditWFNode.op_preb_spec|now apply op_pre2c_spec].
  - rewrite run2_cons. exact (IH _ Hr pre o' post E).
Qed.

Fixpoint codes2 (st : state) (ops : list op2) : list Z :=
  match ops with [] => [] | o :: r => fst (snd (step2 st o)) :: codes2 (fst (step2 st o)) r end.

(* ================================================================== *)
(* 4. REFUTED: the mixed session theorem with undo / redo, when there is no segmentation but the
      configuration still declares regionprops keys (here the position key)                     *)
(* ================================================================== *)
(* dropping the label array keeps WF: W_seg and W_fresh become trivial *)
Lemma WF_drop_seg st : WF st -> WF (upd_seg st None).
Proof.
  intros [Cf [D1 D2 D3 D4 D5 D6 D7 D8 D9] [F1 F2 F3] [T1 T2] [L1 L2] Bk _ _]. constructor.
  - exact Cf.
  - constructor; assumption.
  - constructor; assumption.
  - constructor; assumption.
  - constructor; assumption.
  - exact Bk.
  - exact Logic.I.
  - exact Logic.I.
Qed.

Definition rf_s0 : state := upd_seg EditWFEdge.exs None.
Definition rf_a5 : attrs := [(KTime, VZ 1); (KTrack, VZ 1); (KPos, VTok 99)].
(* cut 1 -> 3; delete node 2 (1 -> 4 is spliced); add node 5 between 1 and 4 with a position;
   switch the position feature off; undo; redo *)
Definition rf_ops : list op2 :=
  [OEdit (ODelEdge 1 3); OEdit (ODelNode 2); OEdit (OAddNode 5 rf_a5 None false); ODisable [KPos]; OEdit OUndo; OEdit ORedo].

Lemma no_edges_has_edge s : (forall u d, In (u, d) (succs (g s)) -> d = []) -> forall p n, has_edge s p n = false.
Proof.
  intros H p n. unfold has_edge, adj, getd. destruct (lookup p (succs (g s))) as [d|] eqn:E; [|reflexivity].
  apply lookup_In in E. now rewrite (H p d E).
Qed.

Example session_toggle_refuted_noseg :
  exists st0 ops,
    WF st0 /\ side_ok st0 (* cfg_keys, reg_ok, rp_disjoint, rp_decl *) /\ undo_stack st0 = [] /\ redo_stack st0 = [] /\
    seg st0 = None /\ Forall switch_ok ops /\ pre_along2 st0 ops /\
    codes2 st0 ops = [0; 0; 0; 0; 1; 12] /\ ~ WF (run2 st0 ops).
Proof.
  exists rf_s0, rf_ops.
  split; [apply WF_drop_seg, EditWFEdge.exs_WF|].
  split.
  { split; [|split; [exact exs_reg_ok|split; [exact EditInverseNode.exs_rp_disjoint|exact exs_rp_decl]]].
    constructor.
    - cbn. repeat constructor; cbn; intuition discriminate.
    - intros k Hk. exact Hk.
    - intros k Hk. cbn in Hk |- *. intuition.
    - intros _. reflexivity. }
  split; [reflexivity|]. split; [reflexivity|]. split; [reflexivity|].
  split; [repeat constructor; cbn; intuition discriminate|].
  split; [apply pre_alongb3_spec; vm_compute; reflexivity|].
  split; [vm_compute; reflexivity|].
  intros W.
  assert (Es : succs (g (run2 rf_s0 rf_ops)) = [(1, []); (3, []); (4, [])]) by (vm_compute; reflexivity).
  assert (En : node_ids (run2 rf_s0 rf_ops) = [1; 3; 4]) by (vm_compute; reflexivity).
  assert (Et : trk (run2 rf_s0 rf_ops) 1 = trk (run2 rf_s0 rf_ops) 4) by (vm_compute; reflexivity).
  assert (Hne : forall p n, has_edge (run2 rf_s0 rf_ops) p n = false).
  { apply no_edges_has_edge. rewrite Es. intros u d [H|[H|[H|[]]]]; now injection H as _ <-. }
  assert (Hh : forall n, In n [1; 3; 4] -> head (run2 rf_s0 rf_ops) n).
  { intros n Hn. split; [unfold is_node; now rewrite En|]. intros p Hp. unfold edge in Hp. rewrite Hne in Hp. discriminate Hp. }
  pose proof (wt2 _ (w_trk _ W) 1 4 (Hh 1 (or_introl eq_refl)) (Hh 4 (or_intror (or_intror (or_introl eq_refl)))) Et) as Habs.
  discriminate Habs.
Qed.

(* ================================================================== *)
(* 5. CONDITIONAL: mixed sessions with undo / redo, reduced to the transport of the recorded
      transitions across a switch (what is NOT proved here, see the header)                  *)
(* ================================================================== *)
Definition sw (o : op2) (x : state) : state := fst (step2 x o).
Definition tmap (o : op2) (t : A.tline state) : A.tline state := {| A.tl := map (sw o) (A.tl _ t); A.c := A.c _ t |}.

(* the missing piece, stated for one switch call o made in state st with reference timeline t:
   (a) every recorded transition between timeline states stays undoable / redoable for ever between the
       switched states (the inverses recompute what is active when they run);
   (b) switching respects observational equality between the current state and its timeline state *)
Definition transport_ok (o : op2) (st : state) (t : A.tline state) : Prop :=
  (forall a x y, In a (undo_stack st ++ redo_stack st) -> In x (A.tl _ t) -> In y (A.tl _ t) -> TrW a x y ->
                 Consistent SI a (sw o x) (sw o y)) /\
  (forall e, In e (A.tl _ t) -> obs_eq st e -> obs_eq (sw o st) (sw o e)).

Definition SInv2 (st : state) (t : A.tline state) : Prop := SInv st t /\ side_ok st /\ Forall side_ok (A.tl _ t).

Lemma side_SI st : WF st -> side_ok st -> SI st.
Proof. intros W (_ & R & P & _). now apply WF_SI. Qed.

Section SwitchInv.
Variables (o : op2) (st : state) (t : A.tline state).
Hypothesis Hs : is_switch o = true.
Hypothesis Hok : switch_ok o.
Hypothesis I2 : SInv2 st t.
Hypothesis TO : transport_ok o st t.

Let P (x : state) : Prop := In x (A.tl _ t).
Let Q (a : action) : Prop := In a (undo_stack st ++ redo_stack st).

Lemma swi_state x : P x -> WF x /\ side_ok x /\ WF (sw o x) /\ side_ok (sw o x) /\ SI (sw o x).
Proof.
  intros Hx. destruct I2 as ((_ & _ & Hall) & _ & Hside). rewrite Forall_forall in Hall, Hside.
  pose proof (Hall x Hx) as W. pose proof (Hside x Hx) as S.
  destruct (switch_step2 x o Hs Hok W S) as (W' & S' & _). unfold sw.
  split; [exact W|]. split; [exact S|]. split; [exact W'|]. split; [exact S'|]. now apply side_SI.
Qed.

Lemma swi_Tr a x y : Q a -> P x -> P y -> TrW a x y -> TrW a (sw o x) (sw o y).
Proof.
  intros Ha Hx Hy T. destruct (swi_state x Hx) as (_ & _ & Wx & _ & Sx). destruct (swi_state y Hy) as (_ & _ & Wy & _ & Sy).
  split; [exact Wx|]. split; [exact Wy|]. split; [exact Sx|]. split; [exact Sy|]. exact (proj1 TO a x y Ha Hx Hy T).
Qed.

Lemma swi_chain : forall e us ts e', A.Chain state action TrW e us ts e' -> Forall Q us -> P e -> Forall P ts ->
  A.Chain state action TrW (sw o e) us (map (sw o) ts) (sw o e') /\ P e'.
Proof.
  intros e us ts e' Ch. induction Ch as [e|e a x us ts e' T Ch IH]; intros Qus Pe Pts; cbn [map].
  - split; [constructor|exact Pe].
  - inversion Pts as [|? ? Px Pr]; subst. inversion Qus as [|? ? Qa Qr]; subst. destruct (IH Qr Px Pr) as [IH1 IH2]. split; [|exact IH2].
    constructor; [now apply swi_Tr|exact IH1].
Qed.

Lemma swi_chain2 : forall e us rs ts, A.Chain2 state action TrW e us rs ts -> Forall Q us -> Forall Q rs -> P e -> Forall P ts ->
  A.Chain2 state action TrW (sw o e) us rs (map (sw o) ts).
Proof.
  intros e us rs ts Ch. induction Ch as [e|e u r x us rs ts T1 T2 Ch IH]; intros Qus Qrs Pe Pts; cbn [map].
  - constructor.
  - inversion Pts as [|? ? Px Pr]; subst. inversion Qus as [|? ? Qu Qur]; subst. inversion Qrs as [|? ? Qr Qrr]; subst.
    constructor; [now apply swi_Tr|now apply swi_Tr|now apply IH].
Qed.

Theorem switch_session : SInv2 (sw o st) (tmap o t).
Proof.
  pose proof I2 as ((Ss & Hinv & Hall) & S & Hside).
  pose proof (SInv_WF st t (proj1 I2)) as W.
  destruct (switch_step2 st o Hs Hok W S) as (W' & S' & Eu & Er & _). fold (sw o st) in W', S', Eu, Er.
  assert (Ss' : SI (sw o st)) by now apply side_SI.
  destruct Hinv as (s0 & Ud & Uu & tld & tlu & e & HU & Ht & Hc & C1 & C2 & E). cbn [hof A.U A.R A.cur] in *.
  assert (Pall : forall x, In x (s0 :: tld ++ tlu) -> P x) by (intros x Hx; unfold P; now rewrite Ht).
  assert (P0 : P s0) by (apply Pall; now left).
  assert (Pd : Forall P tld) by (apply Forall_forall; intros x Hx; apply Pall; right; apply in_or_app; now left).
  assert (Pu : Forall P tlu) by (apply Forall_forall; intros x Hx; apply Pall; right; apply in_or_app; now right).
  assert (Qd : Forall Q Ud) by (apply Forall_forall; intros a Ha; unfold Q; rewrite HU, !in_app_iff; auto).
  assert (Qu : Forall Q Uu) by (apply Forall_forall; intros a Ha; unfold Q; rewrite HU, !in_app_iff; auto).
  assert (Qr : Forall Q (rev (redo_stack st))) by (apply Forall_forall; intros a Ha; unfold Q; apply in_rev in Ha; rewrite in_app_iff; auto).
  destruct (swi_chain _ _ _ _ C1 Qd P0 Pd) as [C1' Pe]. pose proof (swi_chain2 _ _ _ _ C2 Qu Qr Pe Pu) as C2'.
  split; [|split; [exact S'|]].
  - split; [exact Ss'|]. split.
    + exists (sw o s0), Ud, Uu, (map (sw o) tld), (map (sw o) tlu), (sw o e). cbn [hof A.U A.R A.cur tmap A.tl A.c].
      rewrite Eu, Er, Ht. cbn [map]. rewrite map_app, map_length.
      split; [exact HU|]. split; [reflexivity|]. split; [exact Hc|]. split; [exact C1'|]. split; [exact C2'|].
      destruct (swi_state e Pe) as (_ & _ & _ & _ & Se). split; [exact (proj2 TO e Pe (proj1 E))|tauto].
    + cbn [tmap A.tl]. apply Forall_forall. intros x Hx. apply in_map_iff in Hx. destruct Hx as (x0 & <- & Hx0).
      now destruct (swi_state x0 Hx0) as (_ & _ & Wx & _).
  - cbn [tmap A.tl]. apply Forall_forall. intros x Hx. apply in_map_iff in Hx. destruct Hx as (x0 & <- & Hx0).
    now destruct (swi_state x0 Hx0) as (_ & _ & _ & Sx & _).
Qed.
End SwitchInv.

(* the reference timeline of a mixed run: a switch maps every state of the timeline *)
Definition tl_step2 (st : state) (t : A.tline state) (o : op2) : A.tline state :=
  match o with OEdit e => tl_step_full st t e | _ => tmap o t end.
Fixpoint tl_run2 (st : state) (t : A.tline state) (ops : list op2) : A.tline state :=
  match ops with [] => t | o :: r => tl_run2 (fst (step2 st o)) (tl_step2 st t o) r end.

Lemma tl_step_full_In st t o x : In x (A.tl _ (tl_step_full st t o)) -> In x (A.tl _ t) \/ x = fst (step st o).
Proof.
  assert (Hed : forall s', In x (A.tl _ (A.t_edit _ t s')) -> In x (A.tl _ t) \/ x = s').
  { intros s'. unfold A.t_edit. cbn [A.tl]. rewrite !in_app_iff. intros [H|[H|[<-|[]]]]; auto.
    left. apply in_rev, In_removelast, In_skipn in H. exact H. }
  destruct o; unfold tl_step_full; try (destruct (_ && _); [apply Hed|auto]); auto.
  - unfold A.t_undo. destruct (A.c _ t); cbn; auto.
  - unfold A.t_redo. destruct (_ <? _)%nat; cbn; auto.
Qed.

Theorem step2_session st t o : SInv2 st t -> switch_ok o -> op2_pre st o ->
  (is_switch o = true -> transport_ok o st t) -> SInv2 (fst (step2 st o)) (tl_step2 st t o).
Proof.
  intros I2 Hok Hpre HT. destruct (is_switch o) eqn:Hs.
  - assert (E : tl_step2 st t o = tmap o t) by (destruct o; [discriminate Hs|reflexivity|reflexivity]). rewrite E.
    exact (switch_session o st t Hs Hok I2 (HT eq_refl)).
  - destruct o as [e| |]; try discriminate Hs. cbn [step2 tl_step2 op2_pre] in *.
    destruct I2 as (I & S & Hside). pose proof S as (_ & _ & _ & D).
    destruct (step_session_all st t e I D Hpre) as (I1 & _).
    pose proof (side_ok_ft st _ (step_ft st e) S) as S1.
    split; [exact I1|]. split; [exact S1|]. apply Forall_forall. intros x Hx. apply tl_step_full_In in Hx.
    destruct Hx as [Hx| ->]; [|exact S1]. rewrite Forall_forall in Hside. now apply Hside.
Qed.

Definition transport_along (st : state) (t : A.tline state) (ops : list op2) : Prop :=
  forall pre o post, ops = pre ++ o :: post -> is_switch o = true -> transport_ok o (run2 st pre) (tl_run2 st t pre).

Theorem run2_session : forall ops st t, SInv2 st t -> Forall switch_ok ops -> pre_along2 st ops -> transport_along st t ops ->
  SInv2 (run2 st ops) (tl_run2 st t ops).
Proof.
  induction ops as [|o r IH]; intros st t I2 Hok Hpre HT; [exact I2|].
  inversion Hok as [|? ? Ho Hr]; subst. rewrite run2_cons. cbn [tl_run2]. apply IH.
  - apply step2_session; [exact I2|exact Ho|exact (Hpre [] o r eq_refl)|exact (HT [] o r eq_refl)].
  - exact Hr.
  - now apply pre_along2_tail.
  - intros pre o' post E Hs. specialize (HT (o :: pre) o' post). cbn [app] in HT. rewrite run2_cons in HT. cbn [tl_run2] in HT.
    apply HT; [now rewrite E|exact Hs].
Qed.

Section SessionToggleConditional.
  Variables (st0 : state) (ops : list op2).
  Hypothesis W0 : WF st0.
  Hypothesis S0 : side_ok st0.
  Hypothesis Hu : undo_stack st0 = [].
  Hypothesis Hr : redo_stack st0 = [].
  Hypothesis Hok : Forall switch_ok ops.
  Hypothesis Hpre : pre_along2 st0 ops.
  Let t0 : A.tline state := {| A.tl := [st0]; A.c := 0 |}.
  (* NOT PROVED: see transport_ok *)
  Hypothesis Htr : transport_along st0 t0 ops.

  Theorem session_toggle_reachable_WF_conditional pre post : ops = pre ++ post -> WF (run2 st0 pre).
  Proof.
    intros E. destruct S0 as (C0 & R0 & P0 & D0).
    assert (I0 : SInv2 st0 t0).
    { split; [now apply SInv_init|]. split; [exact S0|]. cbn. constructor; [exact S0|constructor]. }
    assert (I : SInv2 (run2 st0 pre) (tl_run2 st0 t0 pre)).
    { apply run2_session; [exact I0| | |].
      - rewrite E in Hok. apply Forall_app in Hok. tauto.
      - intros p o q Eq. apply (Hpre p o (q ++ post)). rewrite E, Eq, <- app_assoc. reflexivity.
      - intros p o q Eq Hs. apply (Htr p o (q ++ post)); [|exact Hs]. rewrite E, Eq, <- app_assoc. reflexivity. }
    exact (SInv_WF _ _ (proj1 I)).
  Qed.
End SessionToggleConditional.

(* ================================================================== *)
(* 6. UNCONDITIONAL consequences                                        *)
(* ================================================================== *)
(* a switch never touches the two stacks *)
Lemma switch_stacks o st : is_switch o = true -> undo_stack (sw o st) = undo_stack st /\ redo_stack (sw o st) = redo_stack st.
Proof.
  intros Hs. destruct o as [e|ks rc ctrk clin|ks]; [discriminate Hs| |]; unfold sw; cbn [step2].
  - destruct (enable_features st ks rc ctrk clin) as [[] s|e s] eqn:E; cbn [fin fst].
    + destruct rc; [exact (en_stacks st ks ctrk clin s E)|].
      revert E. unfold enable_features. destruct (negb _); [discriminate|]. intros H. injection H as <-. auto.
    + now rewrite (enable_refused _ _ _ _ _ _ _ E).
  - destruct (disable_features st ks) as [[] s|e s] eqn:E; cbn [fin fst].
    + exact (dis_stacks st ks s E).
    + now rewrite (disable_refused _ _ _ _ E).
Qed.

Lemma run2_switch_stacks : forall sws st, Forall (fun o => is_switch o = true) sws ->
  undo_stack (run2 st sws) = undo_stack st /\ redo_stack (run2 st sws) = redo_stack st.
Proof.
  induction sws as [|o r IH]; intros st H; [auto|]. inversion H as [|? ? Ho Hr]; subst. rewrite run2_cons.
  destruct (IH (fst (step2 st o)) Hr) as [A B]. destruct (switch_stacks o st Ho) as [A' B']. unfold sw in A', B'. split; congruence.
Qed.

(* with an empty history every switch meets the transport condition: the conditional theorem is not vacuous *)
Lemma transport_ok_fresh o st t : undo_stack st = [] -> redo_stack st = [] -> A.tl _ t = [st] -> transport_ok o st t.
Proof.
  intros Eu Er Et. split.
  - intros a x y Ha. rewrite Eu, Er in Ha. destruct Ha.
  - intros e He _. rewrite Et in He. destruct He as [<-|[]]. apply obs_eq_refl.
Qed.

(* switches, then an edit session with undo / redo, then any mix without undo / redo *)
Section SessionSandwich.
  Variables (st0 : state) (sws : list op2) (edits : list op) (rest : list op2).
  Hypothesis W0 : WF st0.
  Hypothesis S0 : side_ok st0.
  Hypothesis Hu : undo_stack st0 = [].
  Hypothesis Hr : redo_stack st0 = [].
  Hypothesis Hsw : Forall (fun o => is_switch o = true) sws.
  Hypothesis Hok : Forall switch_ok (sws ++ rest).
  Hypothesis Hno : Forall no_hist rest.
  Hypothesis Hpre : pre_along2 st0 (sws ++ map OEdit edits ++ rest).

  Theorem session_toggle_sandwich_reachable_WF pre post : sws ++ map OEdit edits ++ rest = pre ++ post -> WF (run2 st0 pre).
  Proof.
    intros E. apply Forall_app in Hok. destruct Hok as [Hok1 Hok2].
    assert (Hno1 : Forall no_hist sws).
    { apply Forall_forall. intros o Ho. rewrite Forall_forall in Hsw. specialize (Hsw o Ho). split; intros ->; discriminate Hsw. }
    assert (Hp1 : forall p q, sws = p ++ q -> WF (run2 st0 p) /\ side_ok (run2 st0 p)).
    { intros p q Es. apply (run2_nohist p q st0 W0 S0); [now rewrite <- Es|now rewrite <- Es|].
      intros a o b Eo. rewrite <- Es in Eo. apply (Hpre a o (b ++ map OEdit edits ++ rest)). now rewrite Eo, <- app_assoc. }
    destruct (app_eq_app _ _ _ _ E) as [m [[E1 E2]|[E1 E2]]].
    - exact (proj1 (Hp1 pre m E1)).
    - subst pre. rewrite run2_app. destruct (Hp1 sws [] (eq_sym (app_nil_r sws))) as [W1 S1].
      destruct (run2_switch_stacks sws st0 Hsw) as [Eu Er].
      refine (session_toggle_nohist_reachable_WF (run2 st0 sws) edits rest W1 S1 _ _ Hok2 Hno _ m post E2); [congruence|congruence|].
      intros a o b Eo. specialize (Hpre (sws ++ a) o b). rewrite run2_app in Hpre. apply Hpre. now rewrite Eo, <- app_assoc.
  Qed.
End SessionSandwich.

(* non-vacuity on the example state with a segmentation (Proofs/EditWFEdge.v: KPos, KArea, IoU active) *)
Lemma exs_side_ok : side_ok EditWFEdge.exs.
Proof.
  split; [|split; [exact exs_reg_ok|split; [exact EditInverseNode.exs_rp_disjoint|exact exs_rp_decl]]].
  constructor.
  - cbn. repeat constructor; cbn; intuition discriminate.
  - intros k Hk. exact Hk.
  - intros k Hk. cbn in Hk |- *. intuition.
  - intros _. reflexivity.
Qed.

Definition ex_sws : list op2 := [ODisable [KArea]; OEnable [KEll; KIou] true [] []].
Definition ex_edits : list op := [ODelEdge 2 4; OPaint 4 2 [3] 0 false; OUndo; OUndo; ORedo].
Definition ex_rest : list op2 :=
  [OEnable [KArea] true [] []; OEdit (ODelNode 3); ODisable [KIou; KPos]; OEdit (OAddEdge 2 4 false); OEnable [KIou; KPerim] true [] []].

Example session_toggle_sandwich_nonvacuous :
  WF (run2 EditWFEdge.exs (ex_sws ++ map OEdit ex_edits ++ ex_rest)) /\
  codes2 EditWFEdge.exs (ex_sws ++ map OEdit ex_edits ++ ex_rest) = [0; 0; 0; 0; 1; 1; 1; 0; 0; 0; 0; 0].
Proof.
  split; [|vm_compute; reflexivity].
  apply (session_toggle_sandwich_reachable_WF EditWFEdge.exs ex_sws ex_edits ex_rest EditWFEdge.exs_WF exs_side_ok eq_refl eq_refl)
    with (post := []).
  - repeat constructor.
  - repeat constructor; cbn; intuition discriminate.
  - repeat constructor; discriminate.
  - apply pre_alongb3_spec. vm_compute. reflexivity.
  - now rewrite app_nil_r.
Qed.

Print Assumptions enable_step_WF.
Print Assumptions disable_step_WF.
Print Assumptions switch_step2.
Print Assumptions edit_step_nohist.
Print Assumptions run2_nohist.
Print Assumptions session_toggle_nohist_reachable_WF.
Print Assumptions session_toggle_sandwich_reachable_WF.
Print Assumptions session_toggle_sandwich_nonvacuous.
Print Assumptions session_toggle_refuted_noseg.
Print Assumptions switch_session.
Print Assumptions step2_session.
Print Assumptions run2_session.
Print Assumptions transport_ok_fresh.
Print Assumptions session_toggle_reachable_WF_conditional.
