(* PLACEHOLDER HEADER - replaced at the end *)
From Coq Require Import ZArith List Bool Lia.
From FT Require Import Base.Dict Model.Edit Model.EditExec Model.Toggle Model.ToggleExec Proofs.DictLemmas Proofs.EditInv
  Proofs.EditBook Proofs.EditFresh Proofs.EditInverse Proofs.EditSessions Proofs.EditSessionsFull Proofs.EditSessionsAll
  Proofs.ToggleProofs Proofs.EditInit.
From FT Require Proofs.EditSeg Proofs.EditCtor Proofs.EditWFEdge Proofs.EditWFNode Proofs.EditWFPaint Proofs.EditWFPaintRollback
  Proofs.EditFrame Proofs.HistoryGeneric Proofs.EditSegExample.
Import ListNotations.
Open Scope Z_scope.

(* ================================================================== *)
(* 0. the calls                                                         *)
(* ================================================================== *)
Definition switch_ok (o : op2) : Prop :=
  match o with
  | OEnable ks rc _ _ => rc = true /\ ~ In KTrack ks /\ ~ In KLin ks
  | ODisable ks => ~ In KTrack ks /\ ~ In KLin ks
  | OEdit _ => True
  end.

Definition run2 (st : state) (ops : list op2) : state := fold_left (fun s o => fst (step2 s o)) ops st.

Lemma run2_app st l1 l2 : run2 st (l1 ++ l2) = run2 (run2 st l1) l2.
Proof. unfold run2. apply fold_left_app. Qed.
Lemma run2_cons st o r : run2 st (o :: r) = run2 (fst (step2 st o)) r.
Proof. reflexivity. Qed.
Lemma run2_edits st l : run2 st (map OEdit l) = run st l.
Proof. revert st. induction l as [|o r IH]; intros st; [reflexivity|]. cbn [map]. rewrite run2_cons. cbn [step2]. apply IH. Qed.

(* ================================================================== *)
(* 1. one switch step                                                   *)
(* ================================================================== *)
(* refused calls change nothing *)
Lemma enable_refused st ks rc ctrk clin e s : enable_features st ks rc ctrk clin = Err e s -> s = st.
Proof. unfold enable_features. destruct (negb _); [intros H; now injection H as _ <-|destruct rc; discriminate]. Qed.
Lemma disable_refused st ks e s : disable_features st ks = Err e s -> s = st.
Proof. unfold disable_features. destruct (negb _); [intros H; now injection H as _ <-|discriminate]. Qed.

(* the keys of an accepted non-id switch are regionprops keys or the IoU: never KTime, KTrack, KLin *)
Lemma switch_keys_not_id st ks k : cfg_keys st -> (forall k, In k ks -> In k (available st)) ->
  ~ In KTrack ks -> ~ In KLin ks -> In k ks -> k <> KTime /\ k <> KTrack /\ k <> KLin.
Proof.
  intros C Hav H1 H2 Hk. split; [exact (available_not_time st k C (Hav k Hk))|]. split; intros ->; contradiction.
Qed.

(* a change of node attributes outside the id keys and of the IoU of edges keeps the structural conjuncts of WF *)
Section Chg.
Variables (K : Z -> Prop) (st st' : state).
Hypothesis HK : forall k, K k -> k <> KTime /\ k <> KTrack /\ k <> KLin.
Hypothesis C : chg K st st'.

Let CT : chg (fun k => k <> KTime) st st'.
Proof. eapply chg_weaken; [|exact C]. intros k Hk. now destruct (HK k Hk). Qed.

Lemma chgk_attr n k : k = KTime \/ k = KTrack \/ k = KLin -> attr st' n k = attr st n k.
Proof. intros Hk. apply (ch_attr _ _ _ C). intros H. destruct (HK k H) as (A1 & A2 & A3). destruct Hk as [E|[E|E]]; congruence. Qed.
Lemma chgk_trk n : trk st' n = trk st n.
Proof. unfold trk, zattr. now rewrite chgk_attr by auto. Qed.
Lemma chgk_lin n : lin st' n = lin st n.
Proof. unfold lin, zattr. now rewrite chgk_attr by auto. Qed.
Lemma chgk_node n : is_node st' n <-> is_node st n.
Proof. exact (chg_is_node K st st' n C). Qed.
Lemma chgk_edge u v : edge st' u v <-> edge st u v.
Proof. exact (chg_edge K st st' u v C). Qed.
Lemma chgk_divides u : divides st' u <-> divides st u.
Proof. unfold divides. now rewrite (ch_succ _ _ _ C). Qed.

Lemma W_dict_chg : W_dict st -> W_dict st'.
Proof.
  intros [D1 D2 D3 D4 D5 D6 D7 D8 D9]. constructor.
  - unfold node_ids in *. fold (node_ids st'). now rewrite (ch_ids _ _ _ C).
  - now rewrite (ch_skeys _ _ _ C).
  - intros n. rewrite chgk_node, <- D3. rewrite !haskey_keys. now rewrite (ch_skeys _ _ _ C).
  - intros u. rewrite (ch_succ _ _ _ C). apply D4.
  - intros u v He. rewrite !chgk_node. apply D5. now apply chgk_edge.
  - intros n Hn. rewrite chgk_attr by auto. apply D6. now apply chgk_node.
  - intros n Hn. rewrite chgk_attr by auto. apply D7. now apply chgk_node.
  - intros n Hn. rewrite chgk_attr by auto. apply D8. now apply chgk_node.
  - intros n. apply (ch_nodup _ _ _ C), D9.
Qed.

Lemma W_trk_chg : W_trk st -> W_trk st'.
Proof.
  intros [T1 T2].
  assert (Hh : forall a, head st' a -> head st a).
  { intros a [Na Pa]. split; [now apply chgk_node|]. intros p Hp. apply chgk_divides, Pa. now apply chgk_edge. }
  constructor.
  - intros u v He Hnd. rewrite !chgk_trk. apply T1; [now apply chgk_edge|]. intros D. apply Hnd. now apply chgk_divides.
  - intros a b Ha Hb E. rewrite !chgk_trk in E. apply T2; auto.
Qed.

Lemma W_lin_chg : W_lin st -> W_lin st'.
Proof.
  intros [L1 L2].
  assert (Hr : forall a, root st' a -> root st a).
  { intros a [Na Pa]. split; [now apply chgk_node|]. intros p Hp. apply (Pa p). now apply chgk_edge. }
  constructor.
  - intros u v He. rewrite !chgk_lin. apply L1. now apply chgk_edge.
  - intros a b Ha Hb E. rewrite !chgk_lin in E. apply L2; auto.
Qed.

Lemma W_book_chg : bk st' = bk st -> W_book st -> W_book st'.
Proof.
  intros Eb [B1 B2]. unfold W_book. rewrite Eb. split.
  - apply (EditCtor.book_ok_ext st st' _ (trk st) (trk st')); [exact chgk_node|exact chgk_trk|exact B1].
  - apply (EditCtor.book_ok_ext st st' _ (lin st) (lin st')); [exact chgk_node|exact chgk_lin|exact B2].
Qed.

Lemma WF_chg : bk st' = bk st -> cfg_ok st' -> W_fresh st' -> WF st -> WF st'.
Proof.
  intros Eb Cfg Fr [_ WD WFo WT WL WB WS _]. constructor.
  - exact Cfg.
  - now apply W_dict_chg.
  - exact (W_forest_chg st st' CT WFo).
  - now apply W_trk_chg.
  - now apply W_lin_chg.
  - now apply W_book_chg.
  - exact (W_seg_chg st st' CT WS).
  - exact Fr.
Qed.
End Chg.

(* the side facts the session theorem threads, as one record (cfg_keys of Proofs/ToggleProofs.v contains rp_decl) *)
Definition side_ok (st : state) : Prop := cfg_keys st /\ reg_ok st /\ rp_disjoint st /\ rp_decl st.

Lemma cfg_keys_rp_disjoint st : cfg_keys st -> rp_disjoint st.
Proof.
  intros C k Hk Hin. apply (ck_act st C) in Hin. destruct (cfg_rp_not_special st k C Hin) as (_ & A1 & A2 & A3).
  destruct Hk as [E|[E|E]]; congruence.
Qed.
Lemma cfg_keys_rp_decl st : cfg_keys st -> rp_decl st.
Proof. intros C k. apply (ck_act st C). Qed.

(* ---- enable_features with recomputation, no id key ---- *)
Section EnableStep.
Variables (st : state) (ks : list Z) (ctrk clin : list (list Z)) (st' : state).
Hypothesis C : cfg_keys st.
Hypothesis Hen : enable_features st ks true ctrk clin = Ok tt st'.
Hypothesis HT : ~ In KTrack ks.
Hypothesis HL : ~ In KLin ks.

Let f' := register (set_flags (ft st) ks true) ks.

Lemma en_ft : ft st' = f'.
Proof. exact (enable_ft _ _ _ _ _ _ Hen). Qed.
Lemma en_keys k : In k ks -> k <> KTime /\ k <> KTrack /\ k <> KLin.
Proof. apply (switch_keys_not_id st ks k C (enable_ok_avail _ _ _ _ _ _ Hen) HT HL). Qed.
Lemma en_chg : chg (fun k => In k ks) st st'.
Proof. exact (chg_enable _ _ _ _ _ Hen). Qed.
Lemma en_bk : bk st' = bk st.
Proof.
  destruct (enable_bk_other _ _ _ _ _ Hen) as [A B]. destruct (A HT) as [A1 A2]. destruct (B HL) as [B1 B2].
  destruct (bk st') as [a b c d], (bk st) as [a0 b0 c0 d0]. cbn in *. congruence.
Qed.
Lemma en_stacks : undo_stack st' = undo_stack st /\ redo_stack st' = redo_stack st.
Proof. destruct (ch_hist _ _ _ en_chg) as (A & B & _). auto. Qed.
Lemma en_seg : seg st' = seg st.
Proof. exact (ch_seg _ _ _ en_chg). Qed.

Lemma en_cfg_keys : cfg_keys st'.
Proof. apply (cfg_keys_set_flags st st' ks true (fun f => register f ks)); [exact en_ft|reflexivity|reflexivity|reflexivity|reflexivity|exact C]. Qed.

Lemma en_cfg_ok : cfg_ok st -> cfg_ok st'.
Proof.
  intros (A1 & A2 & A3 & A4 & A5). unfold cfg_ok. rewrite en_ft. unfold f'. cbn [register set_flags trk_act lin_act].
  apply memz_false in HT. apply memz_false in HL. rewrite HT, HL.
  split; [exact A1|]. split; [exact A2|]. rewrite !register_node_In. cbn [set_flags reg_node]. auto.
Qed.

Lemma en_reg_ok : reg_ok st -> reg_ok st'.
Proof.
  intros [R1 R2]. unfold reg_ok. rewrite en_ft. unfold f'. split.
  - intros k Hk. cbn [register rp_act] in Hk. apply set_flags_rp_act in Hk. destruct Hk as [Hall Hk].
    apply register_node_In. cbn [set_flags reg_node]. destruct (memz k ks) eqn:E.
    + right. split; [now apply memz_In|]. destruct (cfg_rp_not_special st k C Hall) as (A & _). unfold is_edge_key. now apply Z.eqb_neq.
    + left. now apply R1.
  - cbn [register iou_act set_flags]. intros Ha. apply register_edge_In. cbn [set_flags reg_edge].
    destruct (memz KIou ks && iou_avail (ft st)) eqn:E.
    + right. apply andb_true_iff in E. destruct E as [E _]. split; [now apply memz_In|reflexivity].
    + left. now apply R2.
Qed.

Lemma en_side : side_ok st -> side_ok st'.
Proof.
  intros (_ & R & _ & _). pose proof en_cfg_keys as C'.
  split; [exact C'|]. split; [now apply en_reg_ok|]. split; [now apply cfg_keys_rp_disjoint|now apply cfg_keys_rp_decl].
Qed.

Lemma en_fresh : W_dict st -> W_forest st -> W_seg st -> W_fresh st -> W_fresh st'.
Proof.
  intros WD WFo WS Fr. apply W_fresh_split. apply W_fresh_split in Fr. destruct Fr as [Fr Fi].
  destruct (seg st) as [sg|] eqn:Hs.
  2:{ unfold rp_fresh, iou_fresh. rewrite en_seg, Hs. auto. }
  split; [exact (enable_rp_fresh_thm st sg ks ctrk clin st' C Hs WS Hen Fr)|].
  destruct (in_dec Z.eq_dec KIou ks) as [Hi|Hni].
  - exact (enable_iou_fresh_thm st sg ks ctrk clin st' C Hs WS Hen Hi WD WFo).
  - pose proof (enable_succs_noiou _ _ _ _ _ Hen Hni) as Es.
    unfold iou_fresh in *. rewrite en_seg, Hs. rewrite Hs in Fi. rewrite en_ft. unfold f'. cbn [register iou_act set_flags].
    apply memz_false in Hni. rewrite Hni. cbn [andb]. intros Ha u v He.
    assert (CT : chg (fun k => k <> KTime) st st').
    { eapply chg_weaken; [|exact en_chg]. intros k Hk. now destruct (en_keys k Hk). }
    assert (Ee : edge_attrs st' u v = edge_attrs st u v) by (unfold edge_attrs, adj; now rewrite Es).
    rewrite Ee. rewrite (Fi Ha u v (proj1 (chg_edge _ st st' u v en_chg) He)). f_equal. symmetry.
    apply iou_of_ext; try reflexivity; apply (chg_time st st' _ CT).
Qed.

Theorem enable_step_WF : WF st -> WF st'.
Proof.
  intros W. apply (WF_chg (fun k => In k ks) st st' en_keys en_chg en_bk); [apply en_cfg_ok, W| |exact W].
  apply en_fresh; apply W.
Qed.
End EnableStep.

(* ---- disable_features, no id key ---- *)
Section DisableStep.
Variables (st : state) (ks : list Z) (st' : state).
Hypothesis C : cfg_keys st.
Hypothesis Hdis : disable_features st ks = Ok tt st'.
Hypothesis HT : ~ In KTrack ks.
Hypothesis HL : ~ In KLin ks.

Let f' := unregister (set_flags (ft st) ks false) ks.

Lemma dis_eq : st' = upd_ft st f'.
Proof. revert Hdis. unfold disable_features. destruct (negb _); [discriminate|]. intros H. now injection H as <-. Qed.
Lemma dis_ft : ft st' = f'.
Proof. now rewrite dis_eq. Qed.
Lemma dis_g : g st' = g st.
Proof. now rewrite dis_eq. Qed.
Lemma dis_seg : seg st' = seg st.
Proof. now rewrite dis_eq. Qed.
Lemma dis_bk : bk st' = bk st.
Proof. now rewrite dis_eq. Qed.
Lemma dis_stacks : undo_stack st' = undo_stack st /\ redo_stack st' = redo_stack st.
Proof. now rewrite dis_eq. Qed.
Lemma dis_keys k : In k ks -> k <> KTime /\ k <> KTrack /\ k <> KLin.
Proof. apply (switch_keys_not_id st ks k C (disable_ok_avail _ _ _ Hdis) HT HL). Qed.

Lemma dis_cfg_keys : cfg_keys st'.
Proof. apply (cfg_keys_set_flags st st' ks false (fun f => unregister f ks)); [exact dis_ft|reflexivity|reflexivity|reflexivity|reflexivity|exact C]. Qed.

Lemma dis_cfg_ok : cfg_ok st -> cfg_ok st'.
Proof.
  intros (A1 & A2 & A3 & A4 & A5). unfold cfg_ok. rewrite dis_ft. unfold f'. cbn [unregister set_flags trk_act lin_act].
  pose proof HT as HT'. pose proof HL as HL'. apply memz_false in HT'. apply memz_false in HL'. rewrite HT', HL'.
  split; [exact A1|]. split; [exact A2|]. rewrite !unregister_node_In. cbn [set_flags reg_node].
  assert (Hti : ~ In KTime ks) by (intros H; now destruct (dis_keys _ H)). auto.
Qed.

Lemma dis_reg_ok : reg_ok st -> reg_ok st'.
Proof.
  intros [R1 R2]. unfold reg_ok. rewrite dis_ft. unfold f'. split.
  - intros k Hk. cbn [unregister rp_act] in Hk. apply set_flags_rp_act in Hk. destruct Hk as [Hall Hk].
    apply unregister_node_In. cbn [set_flags reg_node]. destruct (memz k ks) eqn:E; [discriminate Hk|].
    apply memz_false in E. auto.
  - cbn [unregister iou_act set_flags]. intros Ha. apply unregister_edge_In. cbn [set_flags reg_edge].
    destruct (memz KIou ks && iou_avail (ft st)) eqn:E; [discriminate Ha|]. split; [now apply R2|].
    intros Hin. apply memz_In in Hin. rewrite Hin in E. cbn [andb] in E.
    pose proof (ck_iou st C Ha). congruence.
Qed.

Lemma dis_side : side_ok st -> side_ok st'.
Proof.
  intros (_ & R & _ & _). pose proof dis_cfg_keys as C'.
  split; [exact C'|]. split; [now apply dis_reg_ok|]. split; [now apply cfg_keys_rp_disjoint|now apply cfg_keys_rp_decl].
Qed.

Lemma dis_fresh : W_fresh st -> W_fresh st'.
Proof.
  unfold W_fresh. rewrite dis_seg. destruct (seg st) as [sg|]; [|auto]. intros [F1 F2]. rewrite dis_ft. split.
  - intros n k Hn Hk. unfold f' in Hk. cbn [unregister rp_act] in Hk. apply set_flags_rp_act in Hk. destruct Hk as [_ Hk].
    destruct (memz k ks); [discriminate Hk|].
    assert (E : forall m j, attr st' m j = attr st m j) by (intros m j; unfold attr, node_attrs; now rewrite dis_g).
    assert (Et : time_of st' n = time_of st n) by (unfold time_of, zattr; now rewrite E).
    rewrite E, Et. apply F1; [|exact Hk]. unfold is_node, node_ids in *. now rewrite dis_g in Hn.
  - unfold f'. cbn [unregister iou_act set_flags]. intros Ha u v He.
    destruct (memz KIou ks && iou_avail (ft st)); [discriminate Ha|].
    assert (Ee : edge_attrs st' u v = edge_attrs st u v) by (unfold edge_attrs, adj; now rewrite dis_g).
    assert (Et : forall m, time_of st' m = time_of st m) by (intros m; unfold time_of, zattr, attr, node_attrs; now rewrite dis_g).
    rewrite Ee. rewrite (F2 Ha u v); [|unfold edge, has_edge, adj in *; now rewrite dis_g in He]. f_equal. symmetry.
    apply iou_of_ext; try reflexivity; apply Et.
Qed.

Theorem disable_step_WF : WF st -> WF st'.
Proof.
  intros W.
  assert (CH : chg (fun _ => False) st st').
  { rewrite dis_eq. apply chg_same_g; reflexivity. }
  apply (WF_chg (fun _ => False) st st' (fun k (F : False) => match F with end) CH dis_bk); [apply dis_cfg_ok, W| |exact W].
  apply dis_fresh, W.
Qed.
End DisableStep.
