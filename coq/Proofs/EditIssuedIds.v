(* C06, node ids: the ids one call of _get_new_node_ids issues lie between the counter before and the
   counter after the call; so ids issued by two successive calls never coincide, whether or not the
   first batch was used. *)
From Coq Require Import ZArith List Bool Lia.
From FT Require Import Base.Dict Model.Edit Model.EditExec Proofs.EditInv Proofs.EditBook.
Import ListNotations.
Open Scope Z_scope.

Theorem issued_range st k st' ids : get_new_node_ids st k = (st', ids) ->
  forall i, In i ids -> nctr st <= i < nctr st'.
Proof.
  unfold get_new_node_ids.
  destruct (new_ids_loop st (map (fun i => nctr st + Z.of_nat i) (seq 0 k)) (nctr st + Z.of_nat k)) as [ids' c] eqn:El.
  intros H. inversion H; subst. clear H. intros i Hi.
  apply new_ids_loop_spec in El.
  - destruct El as (_ & _ & Hc & Hall). destruct (Hall i Hi) as [_ [Hin|Hr]]; cbn [nctr upd_nctr].
    + apply in_map_iff in Hin. destruct Hin as (j & <- & Hj). apply in_seq in Hj. lia.
    + lia.
  - apply FinFun.Injective_map_NoDup; [intros a b E; lia|apply seq_NoDup].
  - intros x Hx. apply in_map_iff in Hx. destruct Hx as (j & <- & Hj). apply in_seq in Hj. lia.
Qed.

Theorem issued_twice_disjoint st k1 s1 ids1 k2 s2 ids2 :
  get_new_node_ids st k1 = (s1, ids1) -> get_new_node_ids s1 k2 = (s2, ids2) ->
  forall i, In i ids1 -> ~ In i ids2.
Proof.
  intros H1 H2 i A B. pose proof (issued_range _ _ _ _ H1 i A). pose proof (issued_range _ _ _ _ H2 i B). lia.
Qed.

Print Assumptions issued_twice_disjoint.

(* ---------- along sessions: only _get_new_node_ids moves the counter, and only upwards ---------- *)
From FT Require Import Proofs.EditFrame Proofs.EditSegNone.

Definition nc (a b : state) : Prop := nctr b = nctr a.
Lemma nc_aux a b : aux_eq a b -> nc a b. Proof. intros (_ & _ & _ & H & _). exact H. Qed.
Lemma nc_top_wrap top p (r : res action) st : nc st (rstate r) -> nc st (rstate (top_wrap top p r)).
Proof.
  intros H. destruct r as [a s|e s]; cbn in *; [|exact H]. destruct top; [|exact H].
  unfold nc in *. rewrite <- H. apply finish_top_spec.
Qed.

Lemma nc_user_update_seg st nv groups T force : nc st (rstate (user_update_seg st nv groups T force)).
Proof.
  pose proof (nc_aux _ _ (aux_user_update_seg_core st nv groups T force)) as H.
  unfold user_update_seg. destruct (user_update_seg_core st nv groups T force) as [[a pl] s|e s]; cbn in *; [|exact H].
  unfold nc in *. rewrite <- H. apply finish_top_spec.
Qed.

Theorem step_nctr st o : (forall k, o <> ONewIds k) -> nctr (fst (step st o)) = nctr st.
Proof.
  intros Hk. destruct o; cbn [step]; rewrite ?fst_fin, ?fst_finb.
  - apply nc_top_wrap, nc_aux, aux_user_add_edge_core.
  - apply nc_top_wrap, nc_aux, aux_user_delete_edge_core.
  - apply nc_top_wrap, nc_aux, aux_user_add_node_core.
  - apply nc_top_wrap, nc_aux, aux_user_delete_node_core.
  - apply nc_top_wrap, nc_aux, aux_user_swap_core.
  - apply nc_top_wrap, nc_aux, aux_user_update_attrs_core.
  - unfold paint. destruct (seg st) as [sg|]; [|apply nc_user_update_seg].
    destruct (negb (frame_ok sg t)); [reflexivity|].
    match goal with |- context [user_update_seg ?p new_value ?gs T force] =>
      pose proof (nc_user_update_seg p new_value gs T force) as H;
      destruct (user_update_seg p new_value gs T force) as [a s|e s] end; cbn [rstate] in *.
    + exact H.
    + unfold nc in H. cbn [nctr upd_seg] in H. destruct (seg s); cbn; exact H.
  - unfold undo. destruct (_ <=? _)%nat; [reflexivity|]. destruct (nth_error _ _) as [a|]; [|reflexivity].
    pose proof (nc_aux _ _ (aux_inv_action st a)) as H. destruct (inv_action st a) as [b s|e s]; cbn in *; exact H.
  - unfold redo. destruct (rev (redo_stack st)) as [|b r]; [reflexivity|].
    match goal with |- context [inv_action ?s0 b] => pose proof (nc_aux _ _ (aux_inv_action s0 b)) as H;
      destruct (inv_action s0 b) as [x s|e s] end; cbn in *; exact H.
  - pose proof (nc_aux _ _ (aux_track_neighbors st T t)) as H. destruct (track_neighbors st T t) as [s [p c]]. exact H.
  - reflexivity.
  - exfalso. exact (Hk n eq_refl).
  - reflexivity.
Qed.

Theorem step_nctr_mono st o : nctr st <= nctr (fst (step st o)).
Proof.
  destruct o; try (rewrite step_nctr; [lia|intros; discriminate]).
  cbn [step]. destruct (get_new_node_ids st n) as [s ids] eqn:E. cbn [fst].
  pose proof (get_new_node_ids_spec st n s ids E) as H. lia.
Qed.

Theorem run_nctr_mono : forall ops st, nctr st <= nctr (run st ops).
Proof.
  unfold run. induction ops as [|o r IH]; intros st; cbn [fold_left]; [lia|].
  pose proof (step_nctr_mono st o). specialize (IH (fst (step st o))). lia.
Qed.

(* any two issuing calls of one session, whatever happens in between (edits, undo, redo, refusals):
   the ids issued later are all larger than the ids issued earlier *)
Theorem session_issued_ids_increase st k1 mid k2 :
  let s1 := fst (step st (ONewIds k1)) in
  let s2 := run s1 mid in
  forall i j, In i (snd (snd (step st (ONewIds k1)))) -> In j (snd (snd (step s2 (ONewIds k2)))) -> i < j.
Proof.
  cbv zeta. cbn [step]. destruct (get_new_node_ids st k1) as [s1 ids1] eqn:E1. cbn [fst snd].
  destruct (get_new_node_ids (run s1 mid) k2) as [s2 ids2] eqn:E2. cbn [fst snd].
  intros i j Hi Hj. pose proof (issued_range _ _ _ _ E1 i Hi). pose proof (issued_range _ _ _ _ E2 j Hj).
  pose proof (run_nctr_mono mid s1). lia.
Qed.

Print Assumptions session_issued_ids_increase.
