(* C06, node ids: the ids one call of _get_new_node_ids issues lie between the counter before and the
   counter after the call; so ids issued by two successive calls never coincide, whether or not the
   first batch was used. *)
From Coq Require Import ZArith List Bool Lia.
From FT Require Import Base.Dict Model.Edit Model.EditExec Proofs.EditInv Proofs.EditBook.
Import ListNotations.
Open Scope Z_scope.

Theorem issued_range st k st' ids : get_new_node_ids st k = (st', ids) ->
  forall i, In i ids -> nctr st <= i < nctr st'.
Proof.
  unfold get_new_node_ids.
  destruct (new_ids_loop st (map (fun i => nctr st + Z.of_nat i) (seq 0 k)) (nctr st + Z.of_nat k)) as [ids' c] eqn:El.
  intros H. inversion H; subst. clear H. intros i Hi.
  apply new_ids_loop_spec in El.
  - destruct El as (_ & _ & Hc & Hall). destruct (Hall i Hi) as [_ [Hin|Hr]]; cbn [nctr upd_nctr].
    + apply in_map_iff in Hin. destruct Hin as (j & <- & Hj). apply in_seq in Hj. lia.
    + lia.
  - apply FinFun.Injective_map_NoDup; [intros a b E; lia|apply seq_NoDup].
  - intros x Hx. apply in_map_iff in Hx. destruct Hx as (j & <- & Hj). apply in_seq in Hj. lia.
Qed.

Theorem issued_twice_disjoint st k1 s1 ids1 k2 s2 ids2 :
  get_new_node_ids st k1 = (s1, ids1) -> get_new_node_ids s1 k2 = (s2, ids2) ->
  forall i, In i ids1 -> ~ In i ids2.
Proof.
  intros H1 H2 i A B. pose proof (issued_range _ _ _ _ H1 i A). pose proof (issued_range _ _ _ _ H2 i B). lia.
Qed.

Print Assumptions issued_twice_disjoint.
