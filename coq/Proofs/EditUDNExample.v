(* Non-vacuity of Proofs/EditUDN.v: concrete states that satisfy the hypotheses of the theorems,
   and the outcomes of UserDeleteNode on them, computed by the model and checked against the
   specification (one example per case of the action). *)
From Coq Require Import ZArith List Bool Lia Relations.
From FT Require Import Base.Dict Model.Edit Model.EditExec Proofs.DictLemmas Proofs.EditInv Proofs.EditGraph
                       Proofs.EditTrk Proofs.EditNodeBasic Proofs.EditUDN.
Import ListNotations.
Open Scope Z_scope.

(* ================================================================== *)
(* A. EditTrk.ex4: 1 (t=0) divides into 2 and 3 (t=1); 2 continues to 4 (t=2) *)
(* ================================================================== *)
Lemma ex4_cfg : cfg_ok ex4.
Proof. unfold cfg_ok. cbn. intuition. Qed.

Lemma ex4_W_lin : W_lin ex4.
Proof.
  constructor.
  - intros u v H. apply ex4_edges in H. destruct H as [E|[E|E]]; injection E as -> ->; reflexivity.
  - assert (R : forall a, root ex4 a -> a = 1).
    { intros a [Na Ha]. apply ex4_nodes in Na. destruct Na as [->|[->|[->| ->]]]; [reflexivity| | |]; exfalso.
      - apply (Ha 1). reflexivity.
      - apply (Ha 1). reflexivity.
      - apply (Ha 2). reflexivity. }
    intros a b Ra Rb _. now rewrite (R a Ra), (R b Rb).
Qed.

Lemma ex4_GWF : GWF ex4.
Proof. constructor; [apply ex4_cfg|apply ex4_W_dict|apply ex4_W_forest|apply ex4_W_trk|apply ex4_W_lin|apply ex4_W_book]. Qed.

(* what the examples display of a state *)
Definition view (s : state) :=
  (node_ids s, all_edges s, map (fun m => (m, trk s m, lin s m)) (node_ids s), trk_book (bk s), lin_book (bk s)).

(* deleting the first node after a division: the sibling 3 joins the track of the parent, the
   orphan 4 keeps its track id and starts lineage 2; no bridge (2 was the head of its track) *)
Example ex4_delete_2 : exists a st', user_delete_node_core ex4 2 None = Ok a st' /\
  view st' = ([1; 3; 4], [(1, 3)], [(1, Some 1, Some 1); (3, Some 1, Some 1); (4, Some 2, Some 2)],
              [(1, [1; 3]); (2, [4])], [(1, [1; 3]); (2, [4])]) /\
  GWF st' /\ (forall x y, edge st' x y <-> (edge ex4 x y /\ x <> 2 /\ y <> 2) \/ udn_bridge ex4 2 x y) /\
  (forall x y, ~ udn_bridge ex4 2 x y).
Proof.
  destruct (user_delete_node_core ex4 2 None) as [a s|e s] eqn:E; [|vm_compute in E; discriminate].
  exists a, s. split; [reflexivity|]. split; [pose proof E as E'; vm_compute in E'; injection E' as _ <-; vm_compute; reflexivity|].
  split; [exact (udn_core_GWF ex4 2 None a s ex4_GWF E)|].
  destruct (udn_core_ok_inv ex4 2 None a s ex4_W_dict ex4_W_forest ex4_W_trk ex4_W_book E) as (_ & _ & _ & _ & _ & Ed & _).
  split; [exact Ed|]. intros x y (B1 & B2 & _). apply ex4_edges in B1. destruct B1 as [X|[X|X]]; try discriminate X.
  injection X as ->. apply B2. vm_compute. lia.
Qed.

(* deleting a dividing root: the first child keeps the lineage of the root, the second starts a new one *)
Example ex4_delete_1 : exists a st', user_delete_node_core ex4 1 None = Ok a st' /\
  view st' = ([2; 3; 4], [(2, 4)], [(2, Some 2, Some 1); (3, Some 3, Some 2); (4, Some 2, Some 1)],
              [(2, [2; 4]); (3, [3])], [(1, [2; 4]); (2, [3])]) /\ GWF st'.
Proof.
  destruct (user_delete_node_core ex4 1 None) as [a s|e s] eqn:E; [|vm_compute in E; discriminate].
  exists a, s. split; [reflexivity|]. split; [pose proof E as E'; vm_compute in E'; injection E' as _ <-; vm_compute; reflexivity|].
  exact (udn_core_GWF ex4 1 None a s ex4_GWF E).
Qed.

(* deleting the last node of a track: nothing else changes *)
Example ex4_delete_4 : exists a st', user_delete_node_core ex4 4 None = Ok a st' /\
  view st' = ([1; 2; 3], [(1, 2); (1, 3)], [(1, Some 1, Some 1); (2, Some 2, Some 1); (3, Some 3, Some 1)],
              [(1, [1]); (2, [2]); (3, [3])], [(1, [1; 2; 3])]) /\ GWF st' /\
  (forall m, m <> 4 -> trk st' m = trk ex4 m) /\ (forall m, m <> 4 -> lin st' m = lin ex4 m).
Proof.
  destruct (user_delete_node_core ex4 4 None) as [a s|e s] eqn:E; [|vm_compute in E; discriminate].
  exists a, s. split; [reflexivity|]. split; [pose proof E as E'; vm_compute in E'; injection E' as _ <-; vm_compute; reflexivity|].
  split; [exact (udn_core_GWF ex4 4 None a s ex4_GWF E)|].
  destruct (udn_core_id_frame ex4 4 None a s ex4_GWF E) as [Fl Ft]. split.
  - apply Ft. intros q Hq. apply ex4_edges in Hq. destruct Hq as [X|[X|X]]; try discriminate X. injection X as ->. vm_compute. lia.
  - intros m Hm. apply (Fl m Hm). intros R. apply clos_rt_rt1n in R. inversion R as [|y z H4y _]; subst; [congruence|].
    apply ex4_edges in H4y. destruct H4y as [X|[X|X]]; discriminate X.
Qed.

(* the hypotheses of the success half of [udn_core_spec] hold, and its conclusion applies *)
Example ex4_spec_applies : forall n, is_node ex4 n ->
  exists a st', user_delete_node_core ex4 n None = Ok a st' /\ W_dict st' /\ W_forest st' /\
    (forall x, is_node st' x <-> is_node ex4 x /\ x <> n).
Proof.
  intros n Hn. destruct (proj2 (proj2 (udn_core_spec ex4 n None ex4_W_dict ex4_W_forest ex4_W_trk ex4_W_book)) Hn I)
    as (a & st' & H & A & B & C & _). eauto 6.
Qed.

(* pixels without a segmentation: refused by the validation the action starts with, nothing touched
   (before the repair of the Python this error surfaced in DeleteNode, after the edges of 2 were cut) *)
Example ex4_px_refused : px_check ex4 (Some (0, [0])) = Some EValue /\
  user_delete_node_core ex4 2 (Some (0, [0])) = Err EValue ex4 /\
  user_delete_node ex4 2 (Some (0, [0])) true = Err EValue ex4 /\
  (* and the pixels are validated before the node: an unknown node with bad pixels reports the pixels *)
  user_delete_node_core ex4 99 (Some (0, [0])) = Err EValue ex4.
Proof.
  split; [reflexivity|]. split; [now apply udn_core_px_refused|]. split; [|now apply udn_core_px_refused].
  unfold user_delete_node, top_wrap. now rewrite (udn_core_px_refused ex4 2 (Some (0, [0])) EValue eq_refl).
Qed.
Example ex4_refusals_unchanged : forall n pxo e st', user_delete_node_core ex4 n pxo = Err e st' -> st' = ex4.
Proof.
  intros n pxo e st' H.
  apply (udn_refused_unchanged ex4 n pxo e st' ex4_W_dict ex4_W_forest ex4_W_trk ex4_W_book); [|exact H]. intros _. exact I.
Qed.

(* the one late failure left: an array without the frame of node 2 (W_seg fails) and no pixels given;
   DeleteNode raises IndexError after the edges of 2 were cut, and the error carries that state *)
Definition ex4_noframe : state := upd_seg ex4 (Some []).
Example ex4_late_error : exists st', user_delete_node_core ex4_noframe 2 None = Err EIndex st' /\
  view st' = ([1; 2; 3; 4], [(1, 3)],
              [(1, Some 1, Some 1); (2, Some 2, Some 1); (3, Some 1, Some 1); (4, Some 2, Some 2)],
              [(1, [1; 3]); (2, [2; 4])], [(1, [1; 2; 3]); (2, [4])]) /\
  ~ px_ok ex4_noframe (get_pixels ex4_noframe 2) /\ ~ W_seg ex4_noframe /\ st' <> ex4_noframe.
Proof.
  assert (Hd : W_dict ex4_noframe) by (apply (EditBook.W_dict_same_g ex4); [reflexivity|apply ex4_W_dict]).
  assert (Hf : W_forest ex4_noframe) by (apply (W_forest_same_g ex4); [reflexivity|apply ex4_W_forest]).
  assert (Ht : W_trk ex4_noframe) by (apply (W_trk_same_g ex4); [reflexivity|apply ex4_W_trk]).
  assert (Wb : W_book ex4_noframe) by (apply (EditBook.W_book_same_g ex4); [reflexivity|reflexivity|apply ex4_W_book]).
  assert (N2 : is_node ex4_noframe 2) by (unfold is_node; cbn; auto).
  destruct (user_delete_node_core ex4_noframe 2 None) as [a s|e s] eqn:E; [vm_compute in E; discriminate|].
  destruct (udn_late_error_mutates ex4_noframe 2 None e s Hd Hf Ht Wb N2 eq_refl E) as (_ & Hpx & -> & _).
  exists s. split; [reflexivity|].
  assert (V : view s = ([1; 2; 3; 4], [(1, 3)],
              [(1, Some 1, Some 1); (2, Some 2, Some 1); (3, Some 1, Some 1); (4, Some 2, Some 2)],
              [(1, [1; 3]); (2, [2; 4])], [(1, [1; 2; 3]); (2, [4])])).
  { pose proof E as E'. vm_compute in E'. injection E' as <-. vm_compute. reflexivity. }
  split; [exact V|]. split; [exact Hpx|]. split.
  - intros Ws. apply Hpx. now apply W_seg_own_frame.
  - intros ->. vm_compute in V. discriminate V.
Qed.

(* ================================================================== *)
(* B. a track of three nodes 1 -> 2 -> 3: deleting the middle one bridges (1, 3) *)
(* ================================================================== *)
Definition exc : state :=
  mk_state [(1, [(KTime, VZ 0); (KPos, VTok 0); (KTrack, VZ 1); (KLin, VZ 1)]);
            (2, [(KTime, VZ 1); (KPos, VTok 1); (KTrack, VZ 1); (KLin, VZ 1)]);
            (3, [(KTime, VZ 2); (KPos, VTok 2); (KTrack, VZ 1); (KLin, VZ 1)])]
           [(1, 2, []); (2, 3, [])] None ex_feats [(1, [1; 2; 3])] [(1, [1; 2; 3])] 1 1 4.

Lemma exc_nodes n : is_node exc n <-> n = 1 \/ n = 2 \/ n = 3.
Proof. unfold is_node. cbn. intuition. Qed.
Lemma exc_edges u v : edge exc u v -> (u, v) = (1, 2) \/ (u, v) = (2, 3).
Proof.
  rewrite edge_successors. revert u. apply (succ_cases exc (fun u l => In v l -> (u, v) = (1, 2) \/ (u, v) = (2, 3))); [intros u []|].
  intros u Hu. cbn in Hu. destruct Hu as [<-|[<-|[<-|[]]]]; vm_compute; intuition congruence.
Qed.
Lemma exc_W_dict : W_dict exc.
Proof.
  constructor.
  - cbn. repeat constructor; cbn; intuition discriminate.
  - vm_compute. repeat constructor; cbn; intuition discriminate.
  - intros n. rewrite haskey_keys. unfold is_node. change (keys (succs (g exc))) with (node_ids exc). tauto.
  - apply (succ_cases exc (fun _ l => NoDup l)); [constructor|]. intros u Hu. cbn in Hu.
    destruct Hu as [<-|[<-|[<-|[]]]]; vm_compute; repeat constructor; cbn; intuition discriminate.
  - intros u v He. apply exc_edges in He. rewrite !exc_nodes. destruct He as [E|E]; injection E as -> ->; auto.
  - intros n Hn. apply exc_nodes in Hn. destruct Hn as [->|[->| ->]]; vm_compute; eauto.
  - intros n Hn. apply exc_nodes in Hn. destruct Hn as [->|[->| ->]]; vm_compute; eauto.
  - intros n Hn. apply exc_nodes in Hn. destruct Hn as [->|[->| ->]]; vm_compute; eauto.
  - apply (attrs_cases exc (fun a => NoDup (keys a))); [constructor|]. intros n Hn. apply exc_nodes in Hn.
    destruct Hn as [->|[->| ->]]; vm_compute; repeat constructor; cbn; intuition discriminate.
Qed.
Lemma exc_W_forest : W_forest exc.
Proof.
  constructor.
  - intros u u' v E1 E2. apply exc_edges in E1. apply exc_edges in E2. destruct E1 as [E1|E1]; destruct E2 as [E2|E2]; congruence.
  - apply (succ_cases exc (fun _ l => (length l <= 2)%nat)); [cbn; lia|]. intros u Hu. cbn in Hu.
    destruct Hu as [<-|[<-|[<-|[]]]]; vm_compute; lia.
  - intros u v He. apply exc_edges in He. destruct He as [E|E]; injection E as -> ->; vm_compute; reflexivity.
Qed.
Lemma exc_W_trk : W_trk exc.
Proof.
  assert (H2 : ~ head exc 2).
  { intros [_ P]. assert (edge exc 1 2) as E by reflexivity. specialize (P 1 E). vm_compute in P. lia. }
  assert (H3 : ~ head exc 3).
  { intros [_ P]. assert (edge exc 2 3) as E by reflexivity. specialize (P 2 E). vm_compute in P. lia. }
  constructor.
  - intros u v He Hnd. apply exc_edges in He. destruct He as [E|E]; injection E as -> ->; reflexivity.
  - intros a b Ha Hb E. pose proof (proj1 Ha) as Na. pose proof (proj1 Hb) as Nb. apply exc_nodes in Na. apply exc_nodes in Nb.
    destruct Na as [->|[->| ->]]; destruct Nb as [->|[->| ->]]; try reflexivity; contradiction.
Qed.
Lemma exc_W_lin : W_lin exc.
Proof.
  constructor.
  - intros u v H. apply exc_edges in H. destruct H as [E|E]; injection E as -> ->; reflexivity.
  - assert (R : forall a, root exc a -> a = 1).
    { intros a [Na Ha]. apply exc_nodes in Na. destruct Na as [->|[->| ->]]; [reflexivity| |]; exfalso.
      - apply (Ha 1). reflexivity.
      - apply (Ha 2). reflexivity. }
    intros a b Ra Rb _. now rewrite (R a Ra), (R b Rb).
Qed.
Lemma exc_W_book : W_book exc.
Proof.
  split; (split; [cbn; repeat constructor; cbn; intuition discriminate|split]).
  - intros T l H. cbn in H. destruct (Z.eqb_spec T 1) as [->|H1]; [|discriminate]. injection H as <-.
    split; [discriminate|split; [repeat constructor; cbn; intuition discriminate|]].
    intros n. rewrite exc_nodes. cbn [In]. split; [intros [<-|[<-|[<-|[]]]]; vm_compute; auto|intros [[->|[->| ->]] _]; auto].
  - intros n T Hi H. apply exc_nodes in Hi. destruct Hi as [->|[->| ->]]; vm_compute in H; injection H as <-; split; (reflexivity || discriminate).
  - intros T l H. cbn in H. destruct (Z.eqb_spec T 1) as [->|H1]; [|discriminate]. injection H as <-.
    split; [discriminate|split; [repeat constructor; cbn; intuition discriminate|]].
    intros n. rewrite exc_nodes. cbn [In]. split; [intros [<-|[<-|[<-|[]]]]; vm_compute; auto|intros [[->|[->| ->]] _]; auto].
  - intros n T Hi H. apply exc_nodes in Hi. destruct Hi as [->|[->| ->]]; vm_compute in H; injection H as <-; split; (reflexivity || discriminate).
Qed.
Lemma exc_GWF : GWF exc.
Proof.
  constructor; [unfold cfg_ok; cbn; intuition|apply exc_W_dict|apply exc_W_forest|apply exc_W_trk|apply exc_W_lin|apply exc_W_book].
Qed.

Example exc_bridge : udn_bridge exc 2 1 3.
Proof. split; [reflexivity|]. split; [vm_compute; lia|reflexivity]. Qed.

Example exc_delete_2 : exists a st', user_delete_node_core exc 2 None = Ok a st' /\
  view st' = ([1; 3], [(1, 3)], [(1, Some 1, Some 1); (3, Some 1, Some 1)], [(1, [1; 3])], [(1, [1; 3])]) /\
  GWF st' /\ edge st' 1 3 /\
  (forall x y, edge st' x y <-> (edge exc x y /\ x <> 2 /\ y <> 2) \/ udn_bridge exc 2 x y).
Proof.
  destruct (user_delete_node_core exc 2 None) as [a s|e s] eqn:E; [|vm_compute in E; discriminate].
  exists a, s. split; [reflexivity|]. split; [pose proof E as E'; vm_compute in E'; injection E' as _ <-; vm_compute; reflexivity|].
  split; [exact (udn_core_GWF exc 2 None a s exc_GWF E)|].
  destruct (udn_core_ok_inv exc 2 None a s exc_W_dict exc_W_forest exc_W_trk exc_W_book E) as (_ & _ & _ & _ & _ & Ed & _).
  split; [apply Ed; right; exact exc_bridge|exact Ed].
Qed.

(* through the public entry point, with the history entry and the refresh signal *)
Example exc_delete_2_top : exists a st', user_delete_node exc 2 None true = Ok a st' /\ GWF st' /\
  undo_stack st' = [a] /\ rlog st' = [None] /\ all_edges st' = [(1, 3)].
Proof.
  destruct (user_delete_node exc 2 None true) as [a s|e s] eqn:E; [|vm_compute in E; discriminate].
  exists a, s. split; [reflexivity|]. split; [exact (udn_GWF exc 2 None true a s exc_GWF E)|].
  pose proof E as E'. vm_compute in E'. injection E' as <- <-. vm_compute. auto.
Qed.

(* ================================================================== *)
(* C. the hypotheses W_book and W_trk of [udn_core_spec] are needed      *)
(* ================================================================== *)
(* ex4 with a stale lookup of track 2 (a node id 99 that does not exist): W_dict, W_forest, W_trk hold,
   W_book does not; deleting node 2 fails in AddEdge(99, 4) after the edges of 2 were cut
   (the model reads time 0 for the unknown id 99; the Python would raise a KeyError from get_time(99)
   inside get_track_neighbors, one statement earlier, with the same edges already cut) *)
Definition ex4_stale : state :=
  upd_bk ex4 {| trk_book := [(1, [1]); (2, [99; 2; 4]); (3, [3])]; lin_book := [(1, [1; 2; 3; 4])]; max_trk := 3; max_lin := 1 |}.

Example stale_book_fails :
  W_dict ex4_stale /\ W_forest ex4_stale /\ W_trk ex4_stale /\ ~ W_book ex4_stale /\
  exists st', user_delete_node_core ex4_stale 2 None = Err EValue st' /\ all_edges st' = [(1, 3)] /\ is_node st' 2.
Proof.
  split; [apply (EditBook.W_dict_same_g ex4); [reflexivity|apply ex4_W_dict]|].
  split; [apply (W_forest_same_g ex4); [reflexivity|apply ex4_W_forest]|].
  split; [apply (W_trk_same_g ex4); [reflexivity|apply ex4_W_trk]|]. split.
  - intros [(_ & H & _) _]. destruct (H 2 [99; 2; 4] eq_refl) as (_ & _ & Hin).
    assert (is_node ex4_stale 99) as N by (apply Hin; now left). unfold is_node in N. cbn in N. intuition discriminate.
  - destruct (user_delete_node_core ex4_stale 2 None) as [a s|e s] eqn:E; [vm_compute in E; discriminate|].
    assert (e = EValue) as -> by (vm_compute in E; now injection E as <- _).
    exists s. split; [reflexivity|]. vm_compute in E. injection E as <-. split; [vm_compute; reflexivity|]. unfold is_node. cbn. auto.
Qed.

(* a state with W_dict, W_forest, W_book in which node 5 (child of 3) carries the track id of 2 and 4,
   so W_trk fails: deleting 4 bridges its track neighbours 2 and 5, and 5 ends with two parents *)
Definition ex6 : state :=
  mk_state [(1, [(KTime, VZ 0); (KPos, VTok 0); (KTrack, VZ 1); (KLin, VZ 1)]);
            (2, [(KTime, VZ 1); (KPos, VTok 1); (KTrack, VZ 2); (KLin, VZ 1)]);
            (3, [(KTime, VZ 1); (KPos, VTok 2); (KTrack, VZ 3); (KLin, VZ 1)]);
            (4, [(KTime, VZ 2); (KPos, VTok 3); (KTrack, VZ 2); (KLin, VZ 1)]);
            (5, [(KTime, VZ 3); (KPos, VTok 4); (KTrack, VZ 2); (KLin, VZ 1)])]
           [(1, 2, []); (1, 3, []); (2, 4, []); (3, 5, [])] None ex_feats
           [(1, [1]); (2, [2; 4; 5]); (3, [3])] [(1, [1; 2; 3; 4; 5])] 3 1 6.

Lemma ex6_nodes n : is_node ex6 n <-> n = 1 \/ n = 2 \/ n = 3 \/ n = 4 \/ n = 5.
Proof. unfold is_node. cbn. intuition. Qed.
Lemma ex6_edges u v : edge ex6 u v -> (u, v) = (1, 2) \/ (u, v) = (1, 3) \/ (u, v) = (2, 4) \/ (u, v) = (3, 5).
Proof.
  rewrite edge_successors. revert u.
  apply (succ_cases ex6 (fun u l => In v l -> (u, v) = (1, 2) \/ (u, v) = (1, 3) \/ (u, v) = (2, 4) \/ (u, v) = (3, 5))); [intros u []|].
  intros u Hu. cbn in Hu. destruct Hu as [<-|[<-|[<-|[<-|[<-|[]]]]]]; vm_compute; intuition congruence.
Qed.
Lemma ex6_W_dict : W_dict ex6.
Proof.
  constructor.
  - cbn. repeat constructor; cbn; intuition discriminate.
  - vm_compute. repeat constructor; cbn; intuition discriminate.
  - intros n. rewrite haskey_keys. unfold is_node. change (keys (succs (g ex6))) with (node_ids ex6). tauto.
  - apply (succ_cases ex6 (fun _ l => NoDup l)); [constructor|]. intros u Hu. cbn in Hu.
    destruct Hu as [<-|[<-|[<-|[<-|[<-|[]]]]]]; vm_compute; repeat constructor; cbn; intuition discriminate.
  - intros u v He. apply ex6_edges in He. rewrite !ex6_nodes. destruct He as [E|[E|[E|E]]]; injection E as -> ->; auto 6.
  - intros n Hn. apply ex6_nodes in Hn. destruct Hn as [->|[->|[->|[->| ->]]]]; vm_compute; eauto.
  - intros n Hn. apply ex6_nodes in Hn. destruct Hn as [->|[->|[->|[->| ->]]]]; vm_compute; eauto.
  - intros n Hn. apply ex6_nodes in Hn. destruct Hn as [->|[->|[->|[->| ->]]]]; vm_compute; eauto.
  - apply (attrs_cases ex6 (fun a => NoDup (keys a))); [constructor|]. intros n Hn. apply ex6_nodes in Hn.
    destruct Hn as [->|[->|[->|[->| ->]]]]; vm_compute; repeat constructor; cbn; intuition discriminate.
Qed.
Lemma ex6_W_forest : W_forest ex6.
Proof.
  constructor.
  - intros u u' v E1 E2. apply ex6_edges in E1. apply ex6_edges in E2.
    destruct E1 as [E1|[E1|[E1|E1]]]; destruct E2 as [E2|[E2|[E2|E2]]]; congruence.
  - apply (succ_cases ex6 (fun _ l => (length l <= 2)%nat)); [cbn; lia|]. intros u Hu. cbn in Hu.
    destruct Hu as [<-|[<-|[<-|[<-|[<-|[]]]]]]; vm_compute; lia.
  - intros u v He. apply ex6_edges in He. destruct He as [E|[E|[E|E]]]; injection E as -> ->; vm_compute; reflexivity.
Qed.
Lemma ex6_W_book : W_book ex6.
Proof.
  split; (split; [cbn; repeat constructor; cbn; intuition discriminate|split]).
  - intros T l H. cbn in H.
    destruct (Z.eqb_spec T 1) as [->|H1]; [|destruct (Z.eqb_spec T 2) as [->|H2]; [|destruct (Z.eqb_spec T 3) as [->|H3]; [|discriminate]]];
      injection H as <-; (split; [discriminate|split; [repeat constructor; cbn; intuition discriminate|]]);
      intros n; rewrite ex6_nodes; cbn [In]; split.
    + intros [<-|[]]; vm_compute; auto.
    + intros [[->|[->|[->|[->| ->]]]] H]; vm_compute in H; try discriminate; auto.
    + intros [<-|[<-|[<-|[]]]]; vm_compute; auto 8.
    + intros [[->|[->|[->|[->| ->]]]] H]; vm_compute in H; try discriminate; auto.
    + intros [<-|[]]; vm_compute; auto 8.
    + intros [[->|[->|[->|[->| ->]]]] H]; vm_compute in H; try discriminate; auto.
  - intros n T Hi H. apply ex6_nodes in Hi. destruct Hi as [->|[->|[->|[->| ->]]]]; vm_compute in H; injection H as <-; split; (reflexivity || discriminate).
  - intros T l H. cbn in H. destruct (Z.eqb_spec T 1) as [->|H1]; [|discriminate].
    injection H as <-. split; [discriminate|split; [repeat constructor; cbn; intuition discriminate|]].
    intros n. rewrite ex6_nodes. cbn [In]. split.
    + intros [<-|[<-|[<-|[<-|[<-|[]]]]]]; vm_compute; auto 8.
    + intros [[->|[->|[->|[->| ->]]]] H]; auto 8.
  - intros n T Hi H. apply ex6_nodes in Hi. destruct Hi as [->|[->|[->|[->| ->]]]]; vm_compute in H; injection H as <-; split; (reflexivity || discriminate).
Qed.

Example bad_track_ids_break_forest :
  W_dict ex6 /\ W_forest ex6 /\ W_book ex6 /\ ~ W_trk ex6 /\
  exists a st', user_delete_node_core ex6 4 None = Ok a st' /\ edge st' 2 5 /\ edge st' 3 5 /\ ~ W_forest st'.
Proof.
  split; [apply ex6_W_dict|]. split; [apply ex6_W_forest|]. split; [apply ex6_W_book|]. split.
  - intros W. assert (E : edge ex6 3 5) by reflexivity. assert (D : ~ divides ex6 3) by (vm_compute; lia).
    pose proof (wt1 _ W 3 5 E D) as X. vm_compute in X. discriminate X.
  - destruct (user_delete_node_core ex6 4 None) as [a s|e s] eqn:E; [|vm_compute in E; discriminate].
    exists a, s. split; [reflexivity|]. vm_compute in E. injection E as _ Es.
    assert (E1 : edge s 2 5) by (rewrite <- Es; vm_compute; reflexivity).
    assert (E2 : edge s 3 5) by (rewrite <- Es; vm_compute; reflexivity).
    split; [exact E1|]. split; [exact E2|]. intros W. pose proof (wf_in _ W 2 3 5 E1 E2). discriminate.
Qed.
