(* The two constructor models agree on a graph that brings none of the core features along:
     EditInit.construct      every core key enabled WITH computation, from r0;
     EditCtor.construct_any  scan of the ids, then per core key: activate if the first node carries it, else compute.

   Proved (closed):
     scan_ids_none            no node carries an integer under the key: the scan returns (0, []);
     ctor_fold_is_enable      as long as the first node carries none of the remaining keys, the loop of
                              _setup_core_computed_features is the loop of enable_features with computation;
     construct_any_is_construct_gen   the general statement: the first node carries none of the core keys, no node
                              carries an integer id, the lookups of r0 are empty  ->  construct_any = construct
                              (equality of states; raw_ok is NOT needed);
     construct_any_is_construct       the same from "no node carries a core key" on a non-empty graph.
   The hypothesis on bk r0 is needed for an equality of states: raw_ok does not fix the lookups of r0 (raw_state does:
   raw_state_books). Not proved: the stronger statement where other nodes than the first carry stale ids (the final
   states are still equal, the intermediate ones differ in the lookups), and the empty graph in general; for the
   empty graph first_has is true for every key, so construct_any activates all core keys and computes nothing while
   construct runs the (vacuous) computations - examples ex_empty_seg / ex_empty_noseg show by computation that the
   resulting states coincide there too. *)
From Coq Require Import ZArith List Bool Lia.
From FT Require Import Base.Dict Model.Edit Model.EditExec Model.Toggle Model.EditCtor Proofs.DictLemmas Proofs.EditInv
  Proofs.ToggleProofs Proofs.EditInit Proofs.EditCtor.
Import ListNotations.
Open Scope Z_scope.

Definition empty_books : books := {| trk_book := []; lin_book := []; max_trk := 0; max_lin := 0 |}.

(* ---- the scan finds nothing ---- *)
Lemma scan_ids_none st key : (forall n, is_node st n -> zattr st n key = None) -> scan_ids st key = (0, []).
Proof.
  intros H. unfold scan_ids. change (keys (nodes (g st))) with (node_ids st). unfold is_node in H.
  generalize (0, @nil (Z * list Z)) as acc. induction (node_ids st) as [|x r IH]; intros acc; cbn [fold_left]; [reflexivity|].
  assert (E : scan_step st key acc x = acc).
  { unfold scan_step. pose proof (H x (or_introl eq_refl)) as Hx. unfold zattr in Hx.
    destruct (attr st x key) as [[i| | | |]|]; try reflexivity. discriminate Hx. }
  rewrite E. apply IH. intros n Hn. apply H. now right.
Qed.

Lemma scan_books_id r0 : bk r0 = empty_books ->
  (forall n, is_node r0 n -> zattr r0 n KTrack = None) -> (forall n, is_node r0 n -> zattr r0 n KLin = None) -> scan_books r0 = r0.
Proof.
  intros Hb Ht Hl. unfold scan_books. rewrite (scan_ids_none r0 KTrack Ht), (scan_ids_none r0 KLin Hl). cbn [fst snd].
  destruct r0 as [g0 s0 f0 b0 u0 rd0 l0 c0]. cbn [bk] in Hb. subst b0. reflexivity.
Qed.

(* ---- one round: computing is what enable1 does; it only touches the attribute of its key ---- *)
Lemma ctor_step_compute ctrk clin st k : first_has st k = false -> ctor_step ctrk clin st k = enable1 ctrk clin st k.
Proof. intros F. unfold ctor_step, enable1, rstate. rewrite F. reflexivity. Qed.

Lemma enable1_chg ctrk clin st k : chg (fun k' => In k' [k]) st (enable1 ctrk clin st k).
Proof.
  unfold enable1. destruct (enable_features st [k] true ctrk clin) as [[] s|e s] eqn:E; cbn [rstate].
  - now apply (chg_enable st [k] ctrk clin s).
  - unfold enable_features in E. destruct (negb _); [injection E as _ <-; apply chg_refl|discriminate E].
Qed.

Lemma ctor_fold_is_enable ctrk clin : forall ks st, NoDup ks -> (forall k, In k ks -> first_has st k = false) ->
  fold_left (ctor_step ctrk clin) ks st = fold_left (enable1 ctrk clin) ks st.
Proof.
  induction ks as [|k r IH]; intros st Hnd Hf; cbn [fold_left]; [reflexivity|].
  rewrite (ctor_step_compute ctrk clin st k (Hf k (or_introl eq_refl))).
  inversion Hnd as [|? ? Hk Hr]; subst. apply IH; [exact Hr|].
  intros k' Hk'. rewrite <- (Hf k' (or_intror Hk')). pose proof (enable1_chg ctrk clin st k) as C.
  apply first_has_same; [exact (ch_ids _ _ _ C)|]. intros n. apply (ch_attr _ _ _ C n k'). intros [X|[]]. subst. contradiction.
Qed.

Lemma ctor_keys_core r0 : ctor_keys (with_seg r0) = core_keys (has_seg (seg r0)) /\ NoDup (ctor_keys (with_seg r0)).
Proof.
  unfold ctor_keys, core_keys, with_seg, has_seg. split; [reflexivity|].
  destruct (seg r0); cbn; repeat constructor; cbn; intuition discriminate.
Qed.

(* ---- the general statement ---- *)
Theorem construct_any_is_construct_gen r0 ctrk clin extra :
  bk r0 = empty_books ->
  (forall k, In k (ctor_keys (with_seg r0)) -> first_has r0 k = false) ->
  (forall n, is_node r0 n -> zattr r0 n KTrack = None) -> (forall n, is_node r0 n -> zattr r0 n KLin = None) ->
  construct_any r0 ctrk clin extra = construct r0 ctrk clin extra.
Proof.
  intros Hb Hf Ht Hl. unfold construct_any, construct. cbv zeta. rewrite (scan_books_id r0 Hb Ht Hl).
  destruct (ctor_keys_core r0) as [E Hnd]. rewrite (ctor_fold_is_enable ctrk clin _ r0 Hnd Hf), E, fold_left_app. reflexivity.
Qed.

(* ---- from "no node carries a core key", on a graph with at least one node ---- *)
Theorem construct_any_is_construct r0 ctrk clin extra :
  bk r0 = empty_books -> node_ids r0 <> [] ->
  (forall n k, In k (ctor_keys (with_seg r0)) -> attr r0 n k = None) ->
  construct_any r0 ctrk clin extra = construct r0 ctrk clin extra.
Proof.
  intros Hb Hne Ha.
  assert (Hin : In KTrack (ctor_keys (with_seg r0)) /\ In KLin (ctor_keys (with_seg r0))).
  { unfold ctor_keys. split; apply in_app_iff; right; cbn; auto. }
  apply construct_any_is_construct_gen; [exact Hb| | |].
  - intros k Hk. unfold first_has. change (keys (nodes (g r0))) with (node_ids r0). destruct (node_ids r0) as [|n r]; [contradiction|].
    unfold haskey. change (lookup k (node_attrs r0 n)) with (attr r0 n k). now rewrite (Ha n k Hk).
  - intros n _. unfold zattr. now rewrite (Ha n KTrack (proj1 Hin)).
  - intros n _. unfold zattr. now rewrite (Ha n KLin (proj2 Hin)).
Qed.

(* the lookups of a raw_state are empty: the hypothesis on bk r0 holds by construction there *)
Lemma raw_state_books nd es sg posk c : bk (raw_state nd es sg posk c) = empty_books.
Proof. reflexivity. Qed.

Corollary construct_any_is_construct_raw nd es sg posk c ctrk clin extra :
  nd <> [] ->
  (forall n k, In k (ctor_keys (has_seg sg)) -> attr (raw_state nd es sg posk c) n k = None) ->
  construct_any (raw_state nd es sg posk c) ctrk clin extra = construct (raw_state nd es sg posk c) ctrk clin extra.
Proof.
  intros Hne Ha. apply construct_any_is_construct; [reflexivity| |exact Ha].
  unfold node_ids, raw_state, mk_state. cbn [g nodes]. destruct nd; [contradiction|discriminate].
Qed.

(* ---- the empty graph: every key counts as supplied ---- *)
Lemma first_has_empty st k : node_ids st = [] -> first_has st k = true.
Proof. intros E. unfold first_has. change (keys (nodes (g st))) with (node_ids st). now rewrite E. Qed.

(* there construct_any only activates (enable_features with recompute = false), construct computes over nothing *)
Lemma ctor_step_empty ctrk clin st k : node_ids st = [] ->
  ctor_step ctrk clin st k = rstate (enable_features st [k] false ctrk clin).
Proof. intros E. unfold ctor_step, rstate. now rewrite (first_has_empty st k E). Qed.

(* the resulting states coincide nevertheless, with and without an array *)
Example ex_empty_seg :
  let r0 := raw_state [] [] (Some [[0; 0; 0; 0]; [0; 0; 0; 0]]) [] 1 in
  raw_ok r0 [] [] [] /\ construct_any r0 [] [] [KIou] = construct r0 [] [] [KIou] /\
  rp_act (ft (construct_any r0 [] [] [KIou])) = [KPos; KArea] /\ bk (construct_any r0 [] [] [KIou]) = empty_books.
Proof. cbv zeta. split; [apply raw_state_ok; vm_compute; reflexivity|]. vm_compute. repeat split. Qed.

Example ex_empty_noseg :
  let r0 := raw_state [] [] None [KPos] 1 in
  raw_ok r0 [KPos] [] [] /\ construct_any r0 [] [] [] = construct r0 [] [] [] /\ bk (construct_any r0 [] [] []) = empty_books.
Proof. cbv zeta. split; [apply raw_state_ok; vm_compute; reflexivity|]. vm_compute. repeat split. Qed.

(* a non-empty instance of the theorem: the solution of Proofs/EditInitExample.v *)
Example ex_agree :
  let r0 := raw_state [(1, [(KTime, VZ 0)]); (2, [(KTime, VZ 1)]); (3, [(KTime, VZ 1)]); (4, [(KTime, VZ 2)]); (5, [(KTime, VZ 2)])]
                      [(1, 2, []); (1, 3, []); (2, 4, []); (3, 5, [])] (Some [[1; 1; 0; 0]; [2; 2; 3; 0]; [5; 4; 4; 0]]) [] 6 in
  construct_any r0 [[1]; [2; 4]; [3; 5]] [[1; 2; 3; 4; 5]] [KIou] = construct r0 [[1]; [2; 4]; [3; 5]] [[1; 2; 3; 4; 5]] [KIou].
Proof.
  cbv zeta. apply construct_any_is_construct_raw; [discriminate|].
  intros n k Hk. cbn in Hk. unfold attr, node_attrs, getd. cbn [raw_state mk_state g nodes].
  destruct Hk as [<-|[<-|[<-|[<-|[]]]]];
    repeat (cbn [lookup]; destruct (n =? _); [reflexivity|]); reflexivity.
Qed.

Print Assumptions construct_any_is_construct_gen.
Print Assumptions construct_any_is_construct.
Print Assumptions construct_any_is_construct_raw.
Print Assumptions ex_empty_seg.
Print Assumptions ex_agree.
